(* C20 - numerical helpers: hand-written models (definitions only; no proofs in this file).
   GENERATED from the source on every run and NOT repeated here: the interp_* / extrap_* kernels
   (Gen/Interpolation.v, Gen/Extrapolation.v), every closed-form classmethod of inferno.stats
   (Gen/Distributions.v: pmf/pdf, logpmf/logpdf, cdf, logcdf, mean, variance, params_mv of Poisson / Normal /
   LogNormal, with math.tau and the special functions erf, lgamma, gammaincc as parameters) and the element-wise
   expressions inside isi and the Victor-Purpura loops (Gen/SpikeMath.v: isi_spike_time, vp_cell_finite).
   Hand-written below: the sequence code around them (pad / nonzero / split / pad_sequence / diff; the two
   nested loops over the grid) and the explicit-infinity reading of the Poisson mass function at rate = 0.
   Everything is written once, polymorphic in N : Num. *)
From Coq Require Import List ZArith Bool Arith.
From Inferno Require Import Base.Num Gen.Distributions Gen.SpikeMath.
Import ListNotations.

(* ------------------------------------------------------------------------------------------- *)
(* inferno.core.math.isi                              hand-transcribed: inferno/core/math.py:255-323 *)
Section ISI.
Variable N : Num.

(* torch.nonzero(row)[..., -1] restricted to one row: indices of the True entries, ascending *)
Fixpoint nonzero_from (i : nat) (row : list bool) : list nat :=
  match row with
  | [] => []
  | b :: r => (if b then [i] else []) ++ nonzero_from (S i) r
  end.

(* indices (from i) of the zero entries of nz:  torch.nonzero(torch.logical_not(nz)).view(-1) *)
Fixpoint zeros_from (i : nat) (nz : list nat) : list nat :=
  match nz with
  | [] => []
  | p :: r => (if Nat.eqb p 0 then [i] else []) ++ zeros_from (S i) r
  end.

(* torch.tensor_split(l, splits): pieces l[start:s1], l[s1:s2], ..., l[sk:] *)
Fixpoint tensor_split {A} (l : list A) (start : nat) (splits : list nat) : list (list A) :=
  match splits with
  | [] => [skipn start l]
  | s :: rest => firstn (s - start) (skipn start l) :: tensor_split l s rest
  end.

(* nn.utils.rnn.pad_sequence(pieces, batch_first=True, padding_value=nan): None = NaN *)
Definition pad_to {A} (n : nat) (l : list A) : list (option A) :=
  map Some l ++ repeat None (n - length l).
Definition maxlen {A} (ps : list (list A)) : nat := fold_right (fun p m => Nat.max (length p) m) 0 ps.
Definition pad_sequence {A} (ps : list (list A)) : list (list (option A)) :=
  map (pad_to (maxlen ps)) ps.

(* a - b with NaN propagation *)
Definition osub (a b : option (T N)) : option (T N) :=
  match a, b with Some x, Some y => Some (sub N x y) | _, _ => None end.
(* torch.diff(row, dim=-1): row[1:] - row[:-1] *)
Fixpoint odiff (row : list (option (T N))) : list (option (T N)) :=
  match row with
  | a :: ((b :: _) as r) => osub b a :: odiff r
  | _ => []
  end.

(* einops "t ... -> ... t" on a 2-d view (k = size of the new leading axis) *)
Definition transpose {A} (d : A) (k : nat) (rows : list (list A)) : list (list A) :=
  map (fun j => map (fun r => nth j r d) rows) (seq 0 k).

(* the body of isi after the time axis has been moved last: trains = M rows of T booleans *)
Definition isi_last (dt : T N) (trains : list (list bool)) : list (list (option (T N))) :=
  let padded := map (cons true) trains in                               (* F.pad(spikes, (1, 0), value=True) *)
  let nz := flat_map (nonzero_from 0) padded in                         (* torch.nonzero(padded)[..., -1] *)
  let splits := tl (zeros_from 0 nz) in                                 (* ....tolist()[1:] *)
  let vals := map (fun p => isi_spike_time N (Z.of_nat p) dt) nz in     (* (nz - 1) * step_time: GENERATED *)
  let pieces := tensor_split vals 0 splits in
  let stacked := map (@tl _) (pad_sequence pieces) in                   (* pad_sequence(...)[:, 1:] *)
  map odiff stacked.                                                    (* torch.diff(intervals, dim=-1) *)

(* result: None = RuntimeError (view of 0 elements with an empty population), otherwise
   (rows, cols, row-major data) of the returned 2-d view.
   m = number of trains; data in the caller's layout. *)
Definition isi (dt : T N) (time_first : bool) (m : nat) (data : list (list bool))
  : option (nat * nat * list (list (option (T N)))) :=
  let trains := if time_first then transpose false m data else data in
  if Nat.eqb m 0 then None
  else
    let out := isi_last dt trains in
    let c := length (hd [] out) in
    if time_first then Some (c, m, transpose None c out) else Some (m, c, out).
End ISI.

(* ------------------------------------------------------------------------------------------- *)
(* inferno.core.math.victor_purpura_pair_dist         hand-transcribed: inferno/core/math.py:326-402 *)
Section VP.
Variable N : Num.

(* cost: Some q = finite cost q; None = +inf.
   Finite cost: the loop body is GENERATED (Gen/SpikeMath.vp_cell_finite: the three candidates and their minimum).
   cost = inf (hand-written reading of the same statement): the shift candidate is grid + inf*|d| = inf (d <> 0) or
   nan (d = 0) -> nan_to_num(nan=inf) = inf; the two insertion/deletion candidates are finite, so amin never
   selects it. *)
Definition vp_cell (cost : option (T N)) (up left diag x y : T N) : T N :=
  match cost with
  | Some q => vp_cell_finite N up left diag q x y
  | None => tmin N (add N up (one N)) (add N left (one N))
  end.

(* inner loop `for c in range(1, m+1)` for one r: prev = grid[r-1, c-1:], left = grid[r, c-1] *)
Fixpoint vp_row_fill (cost : option (T N)) (x : T N) (prev : list (T N)) (t1 : list (T N)) (left : T N)
  : list (T N) :=
  match prev, t1 with
  | diag :: ((up :: _) as prev'), y :: t1' =>
      let v := vp_cell cost up left diag x y in v :: vp_row_fill cost x prev' t1' v
  | _, _ => []
  end.
(* grid[r, 0] = r *)
Definition vp_next_row (cost : option (T N)) (r : nat) (x : T N) (prev t1 : list (T N)) : list (T N) :=
  let h := ofZ N (Z.of_nat r) in h :: vp_row_fill cost x prev t1 h.
(* grid[0, :] = arange(0, m+1) *)
Definition vp_row0 (t1 : list (T N)) : list (T N) :=
  map (fun c => ofZ N (Z.of_nat c)) (seq 0 (S (length t1))).
(* outer loop `for r in range(1, n+1)`; only the current row is kept (the code keeps the whole grid and
   returns grid[:, -1, -1]) *)
Fixpoint vp_rows (cost : option (T N)) (r : nat) (t0 : list (T N)) (prev t1 : list (T N)) : list (T N) :=
  match t0 with
  | [] => prev
  | x :: t0' => vp_rows cost (S r) t0' (vp_next_row cost r x prev t1) t1
  end.
Definition vp_dp (cost : option (T N)) (t0 t1 : list (T N)) : T N :=
  last (vp_rows cost 1 t0 (vp_row0 t1) t1) (zero N).

(* cost given as a tensor: always the dynamic programme *)
Definition vp_tensor := vp_dp.
(* cost given as a python number: the two shortcuts, else the dynamic programme *)
Definition vp_scalar (cost : option (T N)) (t0 t1 : list (T N)) : T N :=
  let n := Z.of_nat (length t0) in
  let m := Z.of_nat (length t1) in
  match cost with
  | Some q => if eqb N q (zero N) then ofZ N (Z.abs (n - m)) else vp_dp cost t0 t1
  | None => ofZ N (n + m)
  end.
End VP.

(* ------------------------------------------------------------------------------------------- *)
(* inferno.stats.distributions: the formulas are GENERATED (Gen/Distributions.v).  What remains here: *)
(* k! as an integer (used by the instances of lgamma / gammaincc and by the specifications) *)
Fixpoint factZ (k : nat) : Z := match k with O => 1%Z | S j => (Z.of_nat k * factZ j)%Z end.

Section PoissonExt.
Variable N : Num.
Variable lgamma : T N -> T N.       (* torch.lgamma *)
(* Poisson.logpmf / pmf (generated: poisson_logpmf, poisson_pmf) at an integer count k, with the infinity made explicit
   (None = -inf), so that the boundary rate = 0 - accepted by Poisson.validate, the point mass at 0 - has a meaning in
   the real-number reading, where ln 0 is not -inf: xlogy(k, 0) = k * log 0 = -inf for k > 0 and xlogy(0, 0) = 0;
   every other term is finite. *)
Definition poisson_logpmf_ext (k : nat) (rate : T N) : option (T N) :=
  if andb (eqb N rate (zero N)) (negb (Nat.eqb k 0)) then None
  else Some (poisson_logpmf N lgamma (ofZ N (Z.of_nat k)) rate).
Definition poisson_pmf_ext (k : nat) (rate : T N) : T N :=                                  (* exp(-inf) = 0 *)
  match poisson_logpmf_ext k rate with None => zero N | Some l => exp N l end.
End PoissonExt.
