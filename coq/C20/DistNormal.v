(* C20 - inferno.stats (Normal; the other distributions: DistLogNormal.v, DistPoisson.v): laws of the GENERATED Normal / LogNormal / Poisson formulas (Gen/Distributions.v, re-translated
   from inferno/stats/distributions.py on every run), real-number reading.  math.tau and the special functions are
   parameters of the generated functions; the theorems instantiate tau := 2 * PI and state the special functions'
   defining facts as hypotheses on the parameter:
     erf' z = 2/sqrt(pi) * exp(-z^2),  erf -> +-1 at +-infinity,  -1 < erf < 1;
     lgamma(k+1) = ln k!  (Spec.lgamma_spec);  gammaincc(a, x) = e^-x sum_{j<a} x^j/j! for integer a (Spec.gammaincc_spec). *)
From Coq Require Import Reals Lra Lia List ZArith Bool.
From Coquelicot Require Import Coquelicot.
From Flocq Require Import Core.Raux.
From Inferno Require Import Base.Num Base.NumR Gen.Distributions C20.Model C20.Spec.
Import ListNotations.
Open Scope R_scope.

Local Notation Rexp := Rtrigo_def.exp.
Local Notation Rln := Rpower.ln.
Local Notation Rsqrt := R_sqrt.sqrt.

(* guard: which constant / special function each generated formula takes.  The translator names the parameter after the
   torch function the source calls (torch.special.erf -> erf, torch.lgamma -> lgamma, math.tau -> tau; math.pi is tau/2):
   if the source starts calling a different one, these assertions stop compiling. *)
Arguments normal_pdf N tau support loc scale : assert.
Arguments normal_logpdf N tau support loc scale : assert.
Arguments normal_cdf N erf support loc scale : assert.
Arguments normal_logcdf N erf support loc scale : assert.
Arguments normal_params_mv N mean variance : assert.
Arguments normal_mean N loc : assert.
Arguments normal_variance N scale : assert.

Lemma neg_half : -1 / 2 = - / 2.
Proof. field. Qed.

Ltac dist_unfold :=
  unfold lognormal_pdf, lognormal_logcdf, normal_logpdf, normal_logcdf in *;
  unfold lognormal_cdf, lognormal_logpdf, lognormal_params_mv, lognormal_mean, lognormal_variance in *;
  unfold normal_pdf, normal_cdf, normal_mean, normal_variance, normal_params_mv in *;
  cbn [pown] in *; rn_unfold; cbv zeta in *; rewrite ?Rmult_1_r, ?neg_half in *.

(* ================================================================== Normal *)
Lemma normal_pdf_pos : forall tau x loc scale, 0 < tau -> 0 < scale -> 0 < normal_pdf RN tau x loc scale.
Proof.
  intros tau x loc scale Ht Hs. dist_unfold.
  apply Rmult_lt_0_compat; [|apply exp_pos].
  unfold Rdiv; rewrite Rmult_1_l. apply Rinv_0_lt_compat. apply Rmult_lt_0_compat; [assumption | apply sqrt_lt_R0; assumption].
Qed.

(* exp(log-density) = density *)
Theorem normal_exp_logpdf : forall tau x loc scale, 0 < tau -> 0 < scale ->
  Rexp (normal_logpdf RN tau x loc scale) = normal_pdf RN tau x loc scale.
Proof.
  intros. unfold normal_logpdf. rn_simpl. apply exp_ln. apply normal_pdf_pos; assumption.
Qed.

(* the log-density the code computes (log of the density) is the documented closed form *)
Theorem normal_logpdf_closed_form : forall tau x loc scale, 0 < tau -> 0 < scale ->
  normal_logpdf RN tau x loc scale = - Rln scale - / 2 * (Rln tau + ((loc - x) / scale) ^ 2).
Proof.
  intros tau x loc scale Ht Hs. dist_unfold.
  assert (Hq : 0 < Rsqrt tau) by (apply sqrt_lt_R0; assumption).
  rewrite ln_mult; [| unfold Rdiv; rewrite Rmult_1_l; apply Rinv_0_lt_compat; apply Rmult_lt_0_compat; assumption | apply exp_pos].
  rewrite ln_exp. unfold Rdiv at 1. rewrite Rmult_1_l, ln_Rinv by (apply Rmult_lt_0_compat; assumption).
  rewrite ln_mult by assumption.
  replace (Rln (Rsqrt tau)) with (/ 2 * Rln tau).
  - unfold Rdiv. ring.
  - rewrite <- (sqrt_sqrt tau) at 1 by lra. rewrite ln_mult by assumption. lra.
Qed.

(* log-cdf = log(cdf); and exp(log-cdf) = cdf for every erf with values above -1 *)
Theorem normal_logcdf_eq_log_cdf : forall (erf : R -> R) x loc scale,
  normal_logcdf RN erf x loc scale = Rln (normal_cdf RN erf x loc scale) /\
  ((forall z, -1 < erf z) -> Rexp (normal_logcdf RN erf x loc scale) = normal_cdf RN erf x loc scale).
Proof.
  intros erf x loc scale. split; [reflexivity|]. intros He. unfold normal_logcdf. rn_simpl. apply exp_ln.
  dist_unfold. specialize (He ((x - loc) / (scale * Rsqrt 2))). lra.
Qed.

Theorem normal_cdf_range : forall (erf : R -> R) x loc scale, (forall z, -1 < erf z < 1) ->
  0 < normal_cdf RN erf x loc scale < 1.
Proof. intros erf x loc scale He. dist_unfold. specialize (He ((x - loc) / (scale * Rsqrt 2))). lra. Qed.

(* mean / variance parameterisation round trips *)
Theorem normal_params_mv_roundtrip : forall m v, 0 <= v ->
  normal_mean RN (fst (normal_params_mv RN m v)) = m /\
  normal_variance RN (snd (normal_params_mv RN m v)) = v.
Proof. intros m v Hv. dist_unfold. cbn [fst snd]. split; [reflexivity | apply sqrt_sqrt; assumption]. Qed.

Theorem normal_params_mv_inverse : forall loc scale, 0 <= scale ->
  normal_params_mv RN (normal_mean RN loc) (normal_variance RN scale) = (loc, scale).
Proof. intros loc scale Hs. dist_unfold. f_equal. apply sqrt_square; assumption. Qed.

(* ---- calculus: the density is the derivative of the cdf ---- *)

Lemma sqrt2_sqrtPI : Rsqrt 2 * Rsqrt PI = Rsqrt (2 * PI).
Proof. rewrite <- sqrt_mult; [f_equal; ring | lra | left; apply PI_RGT_0]. Qed.

Theorem normal_pdf_is_derivative_of_cdf : forall (erf : R -> R) loc scale x, erf_derivative erf -> 0 < scale ->
  is_derive (fun x => normal_cdf RN erf x loc scale) x (normal_pdf RN (2 * PI) x loc scale).
Proof.
  intros erf loc scale x He Hs. dist_unfold.
  assert (Hpi : 0 < Rsqrt PI) by (apply sqrt_lt_R0; apply PI_RGT_0).
  assert (H2 : 0 < Rsqrt 2) by (apply sqrt_lt_R0; lra).
  set (k := scale * Rsqrt 2). assert (Hk : 0 < k) by (apply Rmult_lt_0_compat; assumption).
  assert (Hin : is_derive (fun x0 : R => (x0 - loc) / k) x (/ k)).
  { auto_derive; [exact I | field; lra]. }
  pose proof (is_derive_comp erf (fun x0 => (x0 - loc) / k) x _ _ (He ((x - loc) / k)) Hin) as Hc.
  pose proof (is_derive_plus (fun _ : R => 1) (fun x0 => erf ((x0 - loc) / k)) x _ _ (is_derive_const 1 x) Hc) as Hp.
  pose proof (is_derive_scal _ x (/ 2) _ Hp) as Hd.
  match type of Hd with is_derive _ _ ?d =>
    match goal with |- is_derive _ _ ?g => assert (E : d = g) end end.
  { unfold plus, scal, Hierarchy.zero; simpl. unfold mult; simpl.
    rewrite <- sqrt2_sqrtPI.
    assert (Hs2 : Rsqrt 2 * Rsqrt 2 = 2) by (rewrite sqrt_sqrt; lra).
    replace (- ((x - loc) / k * ((x - loc) / k * 1))) with (- / 2 * ((x - loc) / scale * ((x - loc) / scale))).
    - unfold k. field. lra.
    - unfold k. replace ((x - loc) / (scale * Rsqrt 2) * ((x - loc) / (scale * Rsqrt 2) * 1))
        with ((x - loc) / scale * ((x - loc) / scale) * / (Rsqrt 2 * Rsqrt 2)) by (field; lra).
      rewrite Hs2. field. lra. }
  rewrite <- E. exact Hd.
Qed.

(* the generated density, in conventional notation *)
Lemma normal_pdf_eq : forall tau x loc scale,
  normal_pdf RN tau x loc scale = 1 / (scale * Rsqrt tau) * Rexp (- / 2 * ((x - loc) / scale * ((x - loc) / scale))).
Proof. intros. dist_unfold. reflexivity. Qed.

Lemma normal_pdf_derivative : forall tau loc scale x, 0 < tau -> 0 < scale ->
  is_derive (fun x => normal_pdf RN tau x loc scale) x (- ((x - loc) / (scale * scale)) * normal_pdf RN tau x loc scale).
Proof.
  intros tau loc scale x Ht Hs.
  assert (Hq : 0 < Rsqrt tau) by (apply sqrt_lt_R0; assumption).
  apply (is_derive_ext (fun x0 => 1 / (scale * Rsqrt tau) * Rexp (- / 2 * ((x0 - loc) / scale * ((x0 - loc) / scale))))).
  - intros t. symmetry. apply normal_pdf_eq.
  - rewrite normal_pdf_eq. auto_derive; [exact I | unfold Rdiv, Rminus; field; lra].
Qed.

Lemma normal_pdf_continuous : forall tau loc scale x, 0 < tau -> 0 < scale ->
  continuous (fun x => normal_pdf RN tau x loc scale) x.
Proof.
  intros. apply (ex_derive_continuous (fun x => normal_pdf RN tau x loc scale)).
  eexists. apply normal_pdf_derivative; assumption.
Qed.

(* "the density integrates to the cdf": for every interval, given only erf' *)
Theorem normal_pdf_integrates_to_cdf : forall (erf : R -> R) loc scale a b, erf_derivative erf -> 0 < scale ->
  is_RInt (fun x => normal_pdf RN (2 * PI) x loc scale) a b
          (normal_cdf RN erf b loc scale - normal_cdf RN erf a loc scale).
Proof.
  intros erf loc scale a b He Hs.
  apply (is_RInt_derive (fun x => normal_cdf RN erf x loc scale) (fun x => normal_pdf RN (2 * PI) x loc scale)).
  - intros x _. apply normal_pdf_is_derivative_of_cdf; assumption.
  - intros x _. apply normal_pdf_continuous; [pose proof PI_RGT_0; lra | assumption].
Qed.

(* first and second central moment: exact antiderivatives (so the moment integrals over any finite interval are
   closed forms in cdf and pdf; the improper limits are NOT taken here - see the quadrature test) *)
Theorem normal_mean_antiderivative : forall (erf : R -> R) loc scale x, erf_derivative erf -> 0 < scale ->
  is_derive (fun x => loc * normal_cdf RN erf x loc scale - scale * scale * normal_pdf RN (2 * PI) x loc scale) x
            (x * normal_pdf RN (2 * PI) x loc scale).
Proof.
  intros erf loc scale x He Hs.
  assert (Ht : 0 < 2 * PI) by (pose proof PI_RGT_0; lra).
  pose proof (normal_pdf_is_derivative_of_cdf erf loc scale x He Hs) as Hc.
  pose proof (normal_pdf_derivative (2 * PI) loc scale x Ht Hs) as Hp.
  set (p := normal_pdf RN (2 * PI) x loc scale) in *.
  pose proof (is_derive_minus _ _ x _ _ (is_derive_scal _ x loc _ Hc) (is_derive_scal _ x (scale * scale) _ Hp)) as H.
  match type of H with is_derive _ _ ?d => replace (x * p) with d; [exact H|] end.
  unfold minus, plus, Hierarchy.opp; simpl. field. lra.
Qed.

Theorem normal_variance_antiderivative : forall (erf : R -> R) loc scale x, erf_derivative erf -> 0 < scale ->
  is_derive (fun x => scale * scale * normal_cdf RN erf x loc scale
                      - scale * scale * ((x - loc) * normal_pdf RN (2 * PI) x loc scale)) x
            ((x - normal_mean RN loc) ^ 2 * normal_pdf RN (2 * PI) x loc scale).
Proof.
  intros erf loc scale x He Hs.
  assert (Ht : 0 < 2 * PI) by (pose proof PI_RGT_0; lra).
  pose proof (normal_pdf_is_derivative_of_cdf erf loc scale x He Hs) as Hc.
  pose proof (normal_pdf_derivative (2 * PI) loc scale x Ht Hs) as Hp.
  unfold normal_mean.
  set (p := normal_pdf RN (2 * PI) x loc scale) in *.
  assert (Hl : is_derive (fun x0 : R => x0 - loc) x 1) by (auto_derive; [exact I | ring]).
  pose proof (is_derive_mult _ _ x _ _ Hl Hp (fun a b => Rmult_comm a b)) as Hm.
  pose proof (is_derive_minus _ _ x _ _ (is_derive_scal _ x (scale * scale) _ Hc)
                (is_derive_scal _ x (scale * scale) _ Hm)) as H.
  cbv beta in H. fold p in H.
  match type of H with is_derive _ _ ?d => replace ((x - loc) ^ 2 * p) with d; [exact H|] end.
  clearbody p. unfold minus, plus, Hierarchy.opp, mult; simpl. unfold mult; simpl. field. lra.
Qed.

(* ================================================================== limits at infinity (Normal) *)
(* The value of erf at +-infinity is a fact about erf (the Gaussian integral), not about inferno's formulas; the
   theorems below take it as a hypothesis and derive what the code's cdf / pdf / moment antiderivatives do. *)
Lemma Rbar_mult_pos_p_infty : forall a : R, 0 < a -> Rbar_mult a p_infty = p_infty.
Proof.
  intros a Ha. apply is_Rbar_mult_unique. apply is_Rbar_mult_sym. apply is_Rbar_mult_p_infty_pos. exact Ha.
Qed.
Lemma Rbar_mult_pos_m_infty : forall a : R, 0 < a -> Rbar_mult a m_infty = m_infty.
Proof.
  intros a Ha. apply is_Rbar_mult_unique. apply is_Rbar_mult_sym. apply is_Rbar_mult_m_infty_pos. exact Ha.
Qed.

Theorem normal_cdf_limits : forall (erf : R -> R) loc scale (Lp Lm : R), 0 < scale ->
  is_lim erf p_infty Lp -> is_lim erf m_infty Lm ->
  is_lim (fun x => normal_cdf RN erf x loc scale) p_infty (/ 2 * (1 + Lp)) /\
  is_lim (fun x => normal_cdf RN erf x loc scale) m_infty (/ 2 * (1 + Lm)).
Proof.
  intros erf loc scale Lp Lm Hs Hp Hm.
  assert (H2 : 0 < Rsqrt 2) by (apply sqrt_lt_R0; lra).
  set (a := / (scale * Rsqrt 2)).
  assert (Ha : 0 < a) by (apply Rinv_0_lt_compat, Rmult_lt_0_compat; assumption).
  assert (E : forall y, / 2 * (1 + erf (a * y + - loc * a)) = normal_cdf RN erf y loc scale).
  { intros y. dist_unfold. do 3 f_equal. unfold a. field. split; lra. }
  split.
  - apply (is_lim_ext _ _ _ _ E).
    apply (is_lim_scal_l (fun y => 1 + erf (a * y + - loc * a)) (/ 2) p_infty (1 + Lp)).
    apply (is_lim_plus' (fun _ => 1) (fun y => erf (a * y + - loc * a)) p_infty 1 Lp); [apply is_lim_const|].
    apply is_lim_comp_lin; [|lra]. rewrite Rbar_mult_pos_p_infty by assumption. exact Hp.
  - apply (is_lim_ext _ _ _ _ E).
    apply (is_lim_scal_l (fun y => 1 + erf (a * y + - loc * a)) (/ 2) m_infty (1 + Lm)).
    apply (is_lim_plus' (fun _ => 1) (fun y => erf (a * y + - loc * a)) m_infty 1 Lm); [apply is_lim_const|].
    apply is_lim_comp_lin; [|lra]. rewrite Rbar_mult_pos_m_infty by assumption. exact Hm.
Qed.

(* "the density integrates to one": the integral over [a, b] tends to 1 as a -> -inf, b -> +inf, exactly when
   erf(+-inf) = +-1 *)
Theorem normal_pdf_integrates_to_one : forall (erf : R -> R) loc scale, erf_derivative erf -> 0 < scale ->
  is_lim erf p_infty 1 -> is_lim erf m_infty (-1) ->
  (forall a, is_lim (fun b => RInt (fun x => normal_pdf RN (2 * PI) x loc scale) a b) p_infty
                    (1 - normal_cdf RN erf a loc scale)) /\
  is_lim (fun a => 1 - normal_cdf RN erf a loc scale) m_infty 1.
Proof.
  intros erf loc scale He Hs Hp Hm.
  destruct (normal_cdf_limits erf loc scale 1 (-1) Hs Hp Hm) as [L1 L2].
  replace (/ 2 * (1 + 1)) with 1 in L1 by field. replace (/ 2 * (1 + -1)) with 0 in L2 by field.
  split.
  - intros a.
    apply (is_lim_ext (fun b => normal_cdf RN erf b loc scale - normal_cdf RN erf a loc scale)).
    + intros b. symmetry. apply is_RInt_unique. apply normal_pdf_integrates_to_cdf; assumption.
    + apply (is_lim_minus' _ (fun _ => normal_cdf RN erf a loc scale) p_infty 1 _ L1). apply is_lim_const.
  - pose proof (is_lim_minus' (fun _ => 1) (fun a => normal_cdf RN erf a loc scale) m_infty 1 0
                  (is_lim_const 1 m_infty) L2) as H.
    replace (1 - 0) with 1 in H by ring. exact H.
Qed.

(* ---- the density and (x - loc) * density vanish at +-infinity ---- *)
Lemma Rbar_mult_neg_p_infty : forall a : R, a < 0 -> Rbar_mult a p_infty = m_infty.
Proof.
  intros a Ha. apply is_Rbar_mult_unique. apply is_Rbar_mult_sym. apply is_Rbar_mult_p_infty_neg. exact Ha.
Qed.
Lemma Rbar_mult_neg_m_infty : forall a : R, a < 0 -> Rbar_mult a m_infty = p_infty.
Proof.
  intros a Ha. apply is_Rbar_mult_unique. apply is_Rbar_mult_sym. apply is_Rbar_mult_m_infty_neg. exact Ha.
Qed.

Lemma lin_lim_p : forall a b : R, 0 < a -> is_lim (fun y => a * y + b) p_infty p_infty.
Proof.
  intros a b Ha. pose proof (is_lim_comp_lin (fun y => y) a b p_infty (Rbar_plus (Rbar_mult a p_infty) b)) as H.
  rewrite Rbar_mult_pos_p_infty in H by assumption. apply H; [apply is_lim_id | lra].
Qed.
Lemma lin_lim_m : forall a b : R, 0 < a -> is_lim (fun y => a * y + b) m_infty m_infty.
Proof.
  intros a b Ha. pose proof (is_lim_comp_lin (fun y => y) a b m_infty (Rbar_plus (Rbar_mult a m_infty) b)) as H.
  rewrite Rbar_mult_pos_m_infty in H by assumption. apply H; [apply is_lim_id | lra].
Qed.

Definition hfun (u : R) : R := u * Rexp (- / 2 * (u * u)).

Lemma exp_half_sq_bound : forall u, 0 < u -> Rexp (- / 2 * (u * u)) <= 2 / (u * u).
Proof.
  intros u Hu. assert (Hw : 0 < / 2 * (u * u)) by nra.
  pose proof (exp_ineq1_le (/ 2 * (u * u))) as H1.
  replace (- / 2 * (u * u)) with (- (/ 2 * (u * u))) by ring. rewrite exp_Ropp.
  assert (Hpos : 0 < Rexp (/ 2 * (u * u))) by apply exp_pos.
  replace (2 / (u * u)) with (/ (/ 2 * (u * u))) by (field; lra).
  apply Rinv_le_contravar; lra.
Qed.

Lemma hfun_lim_p : is_lim hfun p_infty 0.
Proof.
  apply (is_lim_le_le_loc (fun _ => 0) (fun u => 2 * / u) hfun p_infty 0).
  - exists 1. intros u Hu. unfold hfun. split.
    + apply Rmult_le_pos; [lra | left; apply exp_pos].
    + pose proof (exp_half_sq_bound u ltac:(lra)) as H.
      apply Rle_trans with (u * (2 / (u * u))); [apply Rmult_le_compat_l; lra|]. right. field. lra.
  - apply is_lim_const.
  - pose proof (is_lim_scal_l (fun u => / u) 2 p_infty 0) as H. simpl in H. rewrite Rmult_0_r in H. apply H.
    pose proof (is_lim_inv (fun y => y) p_infty p_infty (is_lim_id p_infty)) as H1. simpl in H1. apply H1. discriminate.
Qed.

Lemma hfun_lim_m : is_lim hfun m_infty 0.
Proof.
  pose proof (is_lim_comp_lin hfun (-1) 0 m_infty 0) as H.
  rewrite Rbar_mult_neg_m_infty in H by lra. simpl in H.
  pose proof (is_lim_opp _ _ _ (H hfun_lim_p ltac:(lra))) as H1. simpl in H1. rewrite Ropp_0 in H1.
  apply (is_lim_ext (fun y => - hfun (-1 * y + 0))); [|exact H1].
  intros y. unfold hfun. replace ((-1 * y + 0) * (-1 * y + 0)) with (y * y) by ring. ring.
Qed.

Lemma exp_lim_gauss_p : is_lim (fun u => Rexp (- / 2 * (u * u))) p_infty 0.
Proof.
  apply (is_lim_le_le_loc (fun _ => 0) hfun _ p_infty 0).
  - exists 1. intros u Hu. unfold hfun. pose proof (exp_pos (- / 2 * (u * u))). split; [lra | nra].
  - apply is_lim_const.
  - apply hfun_lim_p.
Qed.
Lemma exp_lim_gauss_m : is_lim (fun u => Rexp (- / 2 * (u * u))) m_infty 0.
Proof.
  pose proof (is_lim_comp_lin (fun u => Rexp (- / 2 * (u * u))) (-1) 0 m_infty 0) as H.
  rewrite Rbar_mult_neg_m_infty in H by lra. simpl in H.
  apply (is_lim_ext (fun y => Rexp (- / 2 * ((-1 * y + 0) * (-1 * y + 0))))); [|apply H; [apply exp_lim_gauss_p | lra]].
  intros y. f_equal. ring.
Qed.

Lemma comp_lim_inf : forall (h : R -> R) (a b : R) (x : Rbar), 0 < a -> (x = p_infty \/ x = m_infty) ->
  is_lim h x 0 -> is_lim (fun y => h (a * y + b)) x 0.
Proof.
  intros h a b x Ha Hx Hh. apply is_lim_comp_lin; [|lra].
  destruct Hx as [-> | ->]; [rewrite Rbar_mult_pos_p_infty | rewrite Rbar_mult_pos_m_infty]; assumption.
Qed.

Theorem normal_pdf_vanishes_at_infinity : forall tau loc scale, 0 < tau -> 0 < scale ->
  forall x : Rbar, x = p_infty \/ x = m_infty ->
  is_lim (fun y => normal_pdf RN tau y loc scale) x 0 /\
  is_lim (fun y => (y - loc) * normal_pdf RN tau y loc scale) x 0.
Proof.
  intros tau loc scale Ht Hs x Hx.
  assert (Hq : 0 < Rsqrt tau) by (apply sqrt_lt_R0; assumption).
  assert (Ha : 0 < / scale) by (apply Rinv_0_lt_compat; assumption).
  set (c := 1 / (scale * Rsqrt tau)).
  split.
  - assert (Hg : is_lim (fun y => Rexp (- / 2 * ((/ scale * y + - loc / scale) * (/ scale * y + - loc / scale)))) x 0).
    { apply (comp_lim_inf (fun u => Rexp (- / 2 * (u * u))) (/ scale) (- loc / scale) x Ha Hx).
      destruct Hx as [-> | ->]; [apply exp_lim_gauss_p | apply exp_lim_gauss_m]. }
    pose proof (is_lim_scal_l _ c x 0 Hg) as H. simpl in H. rewrite Rmult_0_r in H.
    apply (is_lim_ext _ _ _ _ (fun y => eq_refl)) in H.
    eapply is_lim_ext; [|exact H]. intros y. dist_unfold. unfold c. f_equal. f_equal. f_equal; field; lra.
  - assert (Hg : is_lim (fun y => hfun (/ scale * y + - loc / scale)) x 0).
    { apply (comp_lim_inf hfun (/ scale) (- loc / scale) x Ha Hx).
      destruct Hx as [-> | ->]; [apply hfun_lim_p | apply hfun_lim_m]. }
    pose proof (is_lim_scal_l _ (scale * c) x 0 Hg) as H. simpl in H. rewrite Rmult_0_r in H.
    eapply is_lim_ext; [|exact H]. intros y. dist_unfold. unfold c, hfun.
    replace (/ scale * y + - loc / scale) with ((y - loc) / scale) by (field; lra). field. lra.
Qed.

(* the stated mean and variance ARE the first and second central moments of the density: the antiderivatives of
   x * pdf and (x - mean)^2 * pdf (normal_mean_antiderivative, normal_variance_antiderivative) tend to
   mean resp. variance at +infinity and to 0 at -infinity, when erf(+-inf) = +-1 *)
Theorem normal_moments_match_density : forall (erf : R -> R) loc scale, 0 < scale ->
  is_lim erf p_infty 1 -> is_lim erf m_infty (-1) ->
  let F1 := fun x => loc * normal_cdf RN erf x loc scale - scale * scale * normal_pdf RN (2 * PI) x loc scale in
  let F2 := fun x => scale * scale * normal_cdf RN erf x loc scale
                     - scale * scale * ((x - loc) * normal_pdf RN (2 * PI) x loc scale) in
  (is_lim F1 p_infty (normal_mean RN loc) /\ is_lim F1 m_infty 0) /\
  (is_lim F2 p_infty (normal_variance RN scale) /\ is_lim F2 m_infty 0).
Proof.
  intros erf loc scale Hs Hp Hm F1 F2.
  assert (Ht : 0 < 2 * PI) by (pose proof PI_RGT_0; lra).
  destruct (normal_cdf_limits erf loc scale 1 (-1) Hs Hp Hm) as [L1 L2].
  replace (/ 2 * (1 + 1)) with 1 in L1 by field. replace (/ 2 * (1 + -1)) with 0 in L2 by field.
  destruct (normal_pdf_vanishes_at_infinity (2 * PI) loc scale Ht Hs p_infty (or_introl eq_refl)) as [P1 Q1].
  destruct (normal_pdf_vanishes_at_infinity (2 * PI) loc scale Ht Hs m_infty (or_intror eq_refl)) as [P2 Q2].
  assert (K : forall (f g : R -> R) (k1 k2 : R) (x : Rbar) (lf lg : R), is_lim f x lf -> is_lim g x lg ->
              is_lim (fun y => k1 * f y - k2 * g y) x (k1 * lf - k2 * lg)).
  { intros f g k1 k2 x lf lg Hf Hg.
    apply (is_lim_minus' (fun y => k1 * f y) (fun y => k2 * g y) x (k1 * lf) (k2 * lg)).
    - exact (is_lim_scal_l f k1 x lf Hf).
    - exact (is_lim_scal_l g k2 x lg Hg). }
  unfold normal_mean, normal_variance. cbn [pown]. rn_simpl. cbv zeta. rewrite ?Rmult_1_r.
  repeat split.
  - pose proof (K _ _ loc (scale * scale) p_infty 1 0 L1 P1) as H.
    replace (loc * 1 - scale * scale * 0) with loc in H by ring. exact H.
  - pose proof (K _ _ loc (scale * scale) m_infty 0 0 L2 P2) as H.
    replace (loc * 0 - scale * scale * 0) with 0 in H by ring. exact H.
  - pose proof (K _ _ (scale * scale) (scale * scale) p_infty 1 0 L1 Q1) as H.
    replace (scale * scale * 1 - scale * scale * 0) with (scale * scale) in H by ring. exact H.
  - pose proof (K _ _ (scale * scale) (scale * scale) m_infty 0 0 L2 Q2) as H.
    replace (scale * scale * 0 - scale * scale * 0) with 0 in H by ring. exact H.
Qed.

