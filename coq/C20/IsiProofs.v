(* C20 - inter-spike intervals.  The pad / nonzero / split / pad_sequence / trim / diff pipeline of
   inferno.core.math.isi (C20/Model.v) equals, for EVERY raster, the list of successive differences of the
   spike times padded with NaN (structural theorem: any number type, axiom-free), and over the reals the
   intervals re-integrate to the spike times. *)
From Coq Require Import List ZArith Bool Arith Lia Reals Lra.
From Inferno Require Import Base.Num Base.NumR Gen.SpikeMath C20.Model C20.Spec.
Import ListNotations.
Close Scope R_scope.

(* ------------------------------------------------------------------ list lemmas *)
Lemma nonzero_from_shift : forall tr i, nonzero_from (S i) tr = map S (nonzero_from i tr).
Proof.
  induction tr as [|b r IH]; intros i; cbn [nonzero_from]; [reflexivity|].
  rewrite map_app, IH. destruct b; reflexivity.
Qed.

Lemma filter_map_S : forall (f : nat -> bool) l, filter f (map S l) = map S (filter (fun i => f (S i)) l).
Proof.
  induction l as [|a l IH]; cbn; [reflexivity|]. destruct (f (S a)); cbn; rewrite IH; reflexivity.
Qed.

Lemma nonzero_from_0 : forall tr, nonzero_from 0 tr = spike_indices tr.
Proof.
  unfold spike_indices. induction tr as [|b r IH]; [reflexivity|].
  cbn [nonzero_from length]. rewrite nonzero_from_shift, IH.
  change (seq 0 (S (length r))) with (0 :: seq 1 (length r)).
  rewrite <- seq_shift. cbn [filter nth]. rewrite filter_map_S. cbn [nth].
  destruct b; reflexivity.
Qed.

Lemma zeros_from_app : forall a b i, zeros_from i (a ++ b) = zeros_from i a ++ zeros_from (i + length a) b.
Proof.
  induction a as [|x a IH]; intros b i; cbn [zeros_from app length].
  - rewrite Nat.add_0_r; reflexivity.
  - rewrite IH, <- app_assoc. replace (i + S (length a)) with (S i + length a) by lia. reflexivity.
Qed.

Lemma zeros_from_nonzero : forall q i, Forall (fun p => p <> 0) q -> zeros_from i q = [].
Proof.
  induction q as [|x q IH]; intros i H; [reflexivity|]. inversion H as [|? ? Hx Hq]; subst.
  cbn [zeros_from]. destruct (Nat.eqb_spec x 0); [contradiction|]. cbn. apply IH; assumption.
Qed.

(* a piece: what one padded train contributes to nz *)
Definition piece (q : list nat) : list nat := 0 :: map S q.

Lemma zeros_from_piece : forall q i, zeros_from i (piece q) = [i].
Proof.
  intros q i; unfold piece; cbn [zeros_from Nat.eqb app]. f_equal.
  apply zeros_from_nonzero. apply Forall_forall. intros x Hx. apply in_map_iff in Hx.
  destruct Hx as [y [<- _]]. discriminate.
Qed.

Lemma zeros_from_pieces : forall qs q i,
  zeros_from i (concat (map piece (q :: qs))) =
  i :: match qs with [] => [] | _ => zeros_from (i + length (piece q)) (concat (map piece qs)) end.
Proof.
  intros qs q i. cbn [map concat]. rewrite zeros_from_app, zeros_from_piece. cbn [app].
  destruct qs; [reflexivity | reflexivity].
Qed.

Lemma firstn_skipn_middle : forall {A} (pre p post : list A),
  firstn (length p) (skipn (length pre) (pre ++ p ++ post)) = p.
Proof.
  intros. rewrite skipn_app, skipn_all, Nat.sub_diag. cbn [app skipn].
  rewrite firstn_app, firstn_all, Nat.sub_diag. cbn [firstn]. apply app_nil_r.
Qed.

(* splitting the flattened index list at the positions of its zeros recovers the per-train pieces *)
Lemma tensor_split_pieces : forall {A} (f : nat -> A) qs q pre,
  tensor_split (map f (pre ++ concat (map piece (q :: qs)))) (length pre)
               (tl (zeros_from (length pre) (concat (map piece (q :: qs)))))
  = map (fun x => map f (piece x)) (q :: qs).
Proof.
  intros A f qs. induction qs as [|q2 qs IH]; intros q pre.
  - rewrite zeros_from_pieces. cbn [tl tensor_split map concat]. rewrite app_nil_r.
    rewrite map_app, skipn_app, skipn_all2 by (rewrite map_length; lia).
    rewrite map_length, Nat.sub_diag. reflexivity.
  - rewrite zeros_from_pieces. cbn [tl].
    rewrite zeros_from_pieces.
    cbn [tensor_split]. cbn [map]. f_equal.
    + replace (length pre + length (piece q) - length pre) with (length (map f (piece q))) by (rewrite map_length; lia).
      cbn [concat]. rewrite !map_app.
      replace (length pre) with (length (map f pre)) at 1 by apply map_length.
      apply firstn_skipn_middle.
    + specialize (IH q2 (pre ++ piece q)).
      rewrite app_length in IH. rewrite zeros_from_pieces in IH. cbn [tl] in IH.
      cbn [concat map] in IH |- *. rewrite <- app_assoc in IH. exact IH.
Qed.

(* ------------------------------------------------------------------ rows *)
Section Rows.
Variable N : Num.

Lemma odiff_cons2 : forall a b r, odiff N (a :: b :: r) = osub N b a :: odiff N (b :: r).
Proof. reflexivity. Qed.

Lemma odiff_nones : forall k, odiff N (repeat None k) = repeat None (k - 1).
Proof.
  induction k as [|k IH]; [reflexivity|]. destruct k as [|k]; [reflexivity|].
  change (repeat None (S (S k))) with (@None (T N) :: None :: repeat None k).
  rewrite odiff_cons2. change (None :: repeat None k) with (@repeat (option (T N)) None (S k)).
  rewrite IH. cbn. rewrite Nat.sub_0_r. reflexivity.
Qed.

Lemma odiff_some_nones : forall (a : T N) k, odiff N (Some a :: repeat None k) = repeat None k.
Proof.
  intros a k. destruct k as [|k]; [reflexivity|].
  change (repeat None (S k)) with (@None (T N) :: repeat None k) at 1.
  rewrite odiff_cons2. change (None :: repeat None k) with (@repeat (option (T N)) None (S k)).
  rewrite odiff_nones. cbn. rewrite Nat.sub_0_r. reflexivity.
Qed.

Lemma odiff_somes_nones : forall (ts : list (T N)) k,
  odiff N (map Some ts ++ repeat None k) =
  map Some (diffs N ts) ++ repeat None (match ts with [] => k - 1 | _ => k end).
Proof.
  induction ts as [|a ts IH]; intros k.
  - cbn [map app diffs]. apply odiff_nones.
  - destruct ts as [|b ts].
    + cbn [map app diffs]. apply odiff_some_nones.
    + cbn [map app]. rewrite odiff_cons2. cbn [osub diffs map app]. f_equal. specialize (IH k). cbn [map app] in IH. rewrite IH. reflexivity.
Qed.

Lemma maxlen_pieces : forall (f : nat -> T N) (qs : list (list nat)),
  maxlen (map (fun x => map f (piece x)) qs) =
  match qs with [] => 0 | _ => S (fold_right (fun q m => Nat.max (length q) m) 0 qs) end.
Proof.
  induction qs as [|q qs IH]; [reflexivity|].
  cbn [map maxlen fold_right] in *. unfold maxlen in IH. rewrite IH.
  unfold piece. cbn [map length]. rewrite !map_length.
  destruct qs; cbn [fold_right]; lia.
Qed.
End Rows.

(* the GENERATED spike-time expression (Gen/SpikeMath.v, the `(nz - 1) * step_time` handed to tensor_split): the nonzero
   index i + 1 of the left-padded raster is the time of step i *)
Theorem isi_spike_time_unshifts : forall (N : Num) (i : nat) (dt : T N),
  isi_spike_time N (Z.of_nat (S i)) dt = mul N (ofZ N (Z.of_nat i)) dt.
Proof. intros. unfold isi_spike_time. do 2 f_equal. lia. Qed.

(* ------------------------------------------------------------------ the structural theorem *)
Theorem isi_last_spec : forall (N : Num) (dt : T N) (trains : list (list bool)), trains <> [] ->
  isi_last N dt trains = map (isi_spec_row N dt (maxcount trains)) trains.
Proof.
  intros N dt trains Hne. unfold isi_last.
  set (f := fun p : nat => isi_spike_time N (Z.of_nat p) dt).
  assert (Hnz : flat_map (nonzero_from 0) (map (cons true) trains) = concat (map piece (map spike_indices trains))).
  { clear. induction trains as [|tr trains IH]; [reflexivity|].
    cbn [map flat_map concat]. rewrite IH. f_equal.
    cbn [nonzero_from app]. rewrite nonzero_from_shift, nonzero_from_0. reflexivity. }
  rewrite Hnz. clear Hnz.
  assert (Hs : tensor_split (map f (concat (map piece (map spike_indices trains)))) 0
                 (tl (zeros_from 0 (concat (map piece (map spike_indices trains)))))
               = map (fun x => map f (piece x)) (map spike_indices trains)).
  { destruct trains as [|tr0 rest]; [contradiction|].
    exact (tensor_split_pieces f (map spike_indices rest) (spike_indices tr0) []). }
  rewrite Hs. clear Hs.
  unfold pad_sequence. rewrite maxlen_pieces.
  set (trs := trains) in *.
  assert (HC : fold_right (fun q m => Nat.max (length q) m) 0 (map spike_indices trs) = maxcount trs).
  { clear. induction trs as [|t trs IH]; [reflexivity|]. cbn [map fold_right maxcount]. rewrite IH. reflexivity. }
  match goal with |- context [pad_to ?L] => replace L with (S (maxcount trs)) end.
  2:{ destruct trs as [|t0 rest]; [contradiction|]. rewrite <- HC. reflexivity. }
  set (C := maxcount trs).
  rewrite !map_map. apply map_ext_in. intros tr Hin.
  unfold pad_to, piece. cbn [map length tl app]. rewrite !map_length.
  replace (S C - S (length (spike_indices tr))) with (C - count tr) by (unfold count; lia).
  rewrite map_map.
  assert (Hf : map (fun x => f (S x)) (spike_indices tr) = spike_times N dt tr).
  { unfold spike_times. apply map_ext. intros i. unfold f, isi_spike_time. do 2 f_equal. lia. }
  rewrite map_map. rewrite <- (map_map (fun x => f (S x)) Some). rewrite Hf. rewrite odiff_somes_nones. unfold isi_spec_row. f_equal.
  assert (Hle : count tr <= C).
  { unfold C. clear -Hin. induction trs as [|t trs IH]; [destruct Hin|].
    cbn [maxcount fold_right]. destruct Hin as [-> | Hin]; [lia|]. specialize (IH Hin). unfold maxcount in IH. lia. }
  f_equal. unfold spike_times, count in *. destruct (spike_indices tr); cbn [map length] in *; lia.
Qed.

Lemma isi_spec_row_length : forall N dt C tr, count tr <= C -> length (isi_spec_row N dt C tr) = C - 1.
Proof.
  intros N dt C tr H. unfold isi_spec_row. rewrite app_length, map_length, repeat_length.
  assert (length (diffs N (spike_times N dt tr)) = count tr - 1).
  { unfold spike_times, count. generalize (spike_indices tr). intros l.
    induction l as [|a l IH]; [reflexivity|]. destruct l as [|b l]; [reflexivity|].
    cbn [map diffs length] in *. rewrite IH. lia. }
  lia.
Qed.

Lemma count_le_maxcount : forall trains tr, In tr trains -> count tr <= maxcount trains.
Proof.
  induction trains as [|t trs IH]; intros tr Hin; [destruct Hin|].
  cbn [maxcount fold_right]. destruct Hin as [-> | Hin]; [lia|]. specialize (IH _ Hin). unfold maxcount in IH. lia.
Qed.

Lemma transpose_length : forall {A} (d : A) k rows, length (transpose d k rows) = k.
Proof. intros; unfold transpose; rewrite map_length, seq_length; reflexivity. Qed.

Lemma transpose_nth : forall {A} (d : A) k rows j, j < k ->
  nth j (transpose d k rows) [] = map (fun r => nth j r d) rows.
Proof.
  intros A d k rows j Hj. unfold transpose.
  rewrite nth_indep with (d' := map (fun r => nth 0 r d) rows) by (rewrite map_length, seq_length; lia).
  rewrite (map_nth (fun j => map (fun r => nth j r d) rows) (seq 0 k) 0 j). rewrite seq_nth by lia. reflexivity.
Qed.

(* both layouts of the public function, every population size m >= 1, every raster:
   time last  - row j of the result is the spec row of train j;
   time first - the result is the transpose of that, i.e. entry (i, j) is interval i of train j *)
Theorem isi_spec : forall (N : Num) (dt : T N) (m : nat) (data : list (list bool)), 1 <= m ->
  (length data = m ->
   isi N dt false m data = Some (m, maxcount data - 1, map (isi_spec_row N dt (maxcount data)) data)) /\
  (let trains := transpose false m data in
   isi N dt true m data =
   Some (maxcount trains - 1, m, transpose None (maxcount trains - 1) (map (isi_spec_row N dt (maxcount trains)) trains))).
Proof.
  intros N dt m data Hm. unfold isi. destruct (Nat.eqb_spec m 0); [lia|]. split.
  - intros Hlen. assert (Hne : data <> []) by (destruct data; cbn in Hlen; [lia | discriminate]).
    rewrite isi_last_spec by assumption. destruct data as [|t0 rest]; [contradiction|].
    cbn [map hd]. rewrite isi_spec_row_length by (apply count_le_maxcount; left; reflexivity). reflexivity.
  - set (trains := transpose false m data).
    assert (Hne : trains <> []).
    { intro E. pose proof (transpose_length false m data) as L. fold trains in L. rewrite E in L. cbn in L. lia. }
    rewrite isi_last_spec by assumption. destruct trains as [|t0 rest] eqn:E; [contradiction|].
    cbn [map hd]. rewrite isi_spec_row_length by (apply count_le_maxcount; left; reflexivity). reflexivity.
Qed.

(* the empty population is rejected (the view of zero elements is ambiguous in torch) *)
Theorem isi_empty_population : forall N dt tf data, isi N dt tf 0 data = None.
Proof. reflexivity. Qed.

(* ------------------------------------------------------------------ re-integration (reals) *)
Open Scope R_scope.

Lemma integrate_diffs : forall ts t, integrate t (diffs RN (t :: ts)) = t :: ts.
Proof.
  induction ts as [|b ts IH]; intros t; [reflexivity|].
  cbn [diffs integrate]. f_equal. rn_simpl. replace (t + (b - t)) with b by ring. apply IH.
Qed.

(* every train with at least one spike: the non-NaN part of its row, integrated from its first spike time,
   gives back exactly its spike times; what follows is NaN only; every row has (max count) - 1 columns *)
Theorem isi_reintegrates : forall (dt : R) (trains : list (list bool)) (j : nat), (j < length trains)%nat ->
  let tr := nth j trains [] in
  let row := nth j (isi_last RN dt trains) [] in
  length row = (maxcount trains - 1)%nat /\
  exists ds : list R,
    row = map Some ds ++ repeat None (length row - length ds)%nat /\
    length ds = (count tr - 1)%nat /\
    (forall t1 rest, spike_times RN dt tr = t1 :: rest -> integrate t1 ds = t1 :: rest).
Proof.
  intros dt trains j Hj tr row.
  assert (Hne : trains <> []) by (destruct trains; cbn in Hj; [lia | discriminate]).
  assert (Hin : In tr trains) by (apply nth_In; assumption).
  assert (Hrow : row = isi_spec_row RN dt (maxcount trains) tr).
  { unfold row. rewrite isi_last_spec by assumption.
    rewrite nth_indep with (d' := isi_spec_row RN dt (maxcount trains) []) by (rewrite map_length; assumption).
    rewrite (map_nth (isi_spec_row RN dt (maxcount trains)) trains [] j). reflexivity. }
  pose proof (count_le_maxcount _ _ Hin) as Hle.
  assert (Hlen : length row = (maxcount trains - 1)%nat) by (rewrite Hrow; apply isi_spec_row_length; assumption).
  split; [assumption|].
  exists (diffs RN (spike_times RN dt tr)).
  assert (Hd : length (diffs RN (spike_times RN dt tr)) = (count tr - 1)%nat).
  { pose proof (isi_spec_row_length RN dt (maxcount trains) tr Hle) as L.
    unfold isi_spec_row in L. rewrite app_length, map_length, repeat_length in L. lia. }
  repeat split.
  - rewrite Hrow at 1. unfold isi_spec_row. f_equal. f_equal.
    transitivity ((maxcount trains - 1) - (count tr - 1))%nat; [reflexivity|].
    rewrite <- Hlen, <- Hd. reflexivity.
  - assumption.
  - intros t1 rest E. rewrite E. apply integrate_diffs.
Qed.

(* intervals are differences of increasing multiples of dt: strictly positive when dt > 0 *)
Lemma spike_indices_increasing : forall tr, forall i j d, (i < j < length (spike_indices tr))%nat ->
  (nth i (spike_indices tr) d < nth j (spike_indices tr) d)%nat.
Proof.
  intros tr. unfold spike_indices.
  assert (G : forall (f : nat -> bool) n s i j d, (i < j < length (filter f (seq s n)))%nat ->
              (nth i (filter f (seq s n)) d < nth j (filter f (seq s n)) d)%nat /\ (s <= nth i (filter f (seq s n)) d)%nat).
  { intros f n. induction n as [|n IH]; intros s i j d H; cbn [seq filter length] in *; [lia|].
    destruct (f s) eqn:Ef.
    - cbn [length] in H. destruct i as [|i]; destruct j as [|j]; try lia; cbn [nth].
      + split; [|lia]. destruct j as [|j].
        * destruct (filter f (seq (S s) n)) as [|x l] eqn:El; [cbn in H; lia|].
          cbn [nth]. assert (In x (filter f (seq (S s) n))) by (rewrite El; left; reflexivity).
          apply filter_In in H0. destruct H0 as [H0 _]. apply in_seq in H0. lia.
        * assert (Hr : (0 < S j < length (filter f (seq (S s) n)))%nat) by lia.
          destruct (IH (S s) 0%nat (S j) d Hr) as [A B]. lia.
      + assert (Hr : (i < j < length (filter f (seq (S s) n)))%nat) by lia.
        destruct (IH (S s) i j d Hr) as [A B]. lia.
    - destruct (IH (S s) i j d H) as [A B]. lia. }
  intros i j d H. apply (G _ _ _ _ _ d H).
Qed.

Theorem isi_intervals_positive : forall (dt : R) (tr : list bool), 0 < dt ->
  Forall (fun d => 0 < d) (diffs RN (spike_times RN dt tr)).
Proof.
  intros dt tr Hdt. unfold spike_times.
  pose proof (spike_indices_increasing tr) as Hinc. revert Hinc. generalize (spike_indices tr). intros l Hinc.
  induction l as [|a l IH]; [constructor|]. destruct l as [|b l]; [constructor|].
  cbn [map diffs]. constructor.
  - rn_simpl. assert (H : (a < b)%nat) by (apply (Hinc 0%nat 1%nat 0%nat); cbn; lia).
    apply lt_INR in H. rewrite !INR_IZR_INZ in H. nra.
  - apply IH. intros i j d H. apply (Hinc (S i) (S j) d). cbn [length] in *. lia.
Qed.
