(* C20 - inferno.stats: laws of the hand-transcribed Normal / LogNormal / Poisson formulas (C20/Model.v), reals.
   Special functions enter only through their defining facts, stated as hypotheses of the theorems:
     erf' z = 2/sqrt(pi) * exp(-z^2),  erf -> +-1 at +-infinity,  -1 < erf < 1;
   lgamma(k+1) = ln k! and gammaincc(a, x) = e^-x sum_{j<a} x^j/j! (integer a) are built into the model. *)
From Coq Require Import Reals Lra Lia List ZArith Bool.
From Coquelicot Require Import Coquelicot.
From Flocq Require Import Core.Raux.
From Inferno Require Import Base.Num Base.NumR C20.Model C20.Spec.
Import ListNotations.
Open Scope R_scope.

Local Notation Rexp := Rtrigo_def.exp.
Local Notation Rln := Rpower.ln.
Local Notation Rsqrt := R_sqrt.sqrt.

Ltac dist_unfold :=
  unfold lognormal_pdf, lognormal_logcdf, normal_logpdf, normal_logcdf in *;
  unfold lognormal_cdf, lognormal_logpdf, lognormal_params_mv, lognormal_mean, lognormal_variance in *;
  unfold normal_pdf, normal_cdf, normal_mean, normal_variance, normal_params_mv in *;
  unfold sq, expm1 in *; rn_unfold.

(* ================================================================== Normal *)
Lemma normal_pdf_pos : forall tau x loc scale, 0 < tau -> 0 < scale -> 0 < normal_pdf RN tau x loc scale.
Proof.
  intros tau x loc scale Ht Hs. dist_unfold.
  apply Rmult_lt_0_compat; [|apply exp_pos].
  unfold Rdiv; rewrite Rmult_1_l. apply Rinv_0_lt_compat. apply Rmult_lt_0_compat; [assumption | apply sqrt_lt_R0; assumption].
Qed.

(* exp(log-density) = density *)
Theorem normal_exp_logpdf : forall tau x loc scale, 0 < tau -> 0 < scale ->
  Rexp (normal_logpdf RN tau x loc scale) = normal_pdf RN tau x loc scale.
Proof.
  intros. unfold normal_logpdf. rn_simpl. apply exp_ln. apply normal_pdf_pos; assumption.
Qed.

(* the log-density the code computes (log of the density) is the documented closed form *)
Theorem normal_logpdf_closed_form : forall tau x loc scale, 0 < tau -> 0 < scale ->
  normal_logpdf RN tau x loc scale = - Rln scale - / 2 * (Rln tau + ((loc - x) / scale) ^ 2).
Proof.
  intros tau x loc scale Ht Hs. dist_unfold.
  assert (Hq : 0 < Rsqrt tau) by (apply sqrt_lt_R0; assumption).
  rewrite ln_mult; [| unfold Rdiv; rewrite Rmult_1_l; apply Rinv_0_lt_compat; apply Rmult_lt_0_compat; assumption | apply exp_pos].
  rewrite ln_exp. unfold Rdiv at 1. rewrite Rmult_1_l, ln_Rinv by (apply Rmult_lt_0_compat; assumption).
  rewrite ln_mult by assumption.
  replace (Rln (Rsqrt tau)) with (/ 2 * Rln tau).
  - unfold Rdiv. ring.
  - rewrite <- (sqrt_sqrt tau) at 1 by lra. rewrite ln_mult by assumption. lra.
Qed.

(* log-cdf = log(cdf); and exp(log-cdf) = cdf for every erf with values above -1 *)
Theorem normal_logcdf_eq_log_cdf : forall (erf : R -> R) x loc scale,
  normal_logcdf RN erf x loc scale = Rln (normal_cdf RN erf x loc scale) /\
  ((forall z, -1 < erf z) -> Rexp (normal_logcdf RN erf x loc scale) = normal_cdf RN erf x loc scale).
Proof.
  intros erf x loc scale. split; [reflexivity|]. intros He. unfold normal_logcdf. rn_simpl. apply exp_ln.
  dist_unfold. specialize (He ((x - loc) / (scale * Rsqrt (1 + 1)))). lra.
Qed.

Theorem normal_cdf_range : forall (erf : R -> R) x loc scale, (forall z, -1 < erf z < 1) ->
  0 < normal_cdf RN erf x loc scale < 1.
Proof. intros erf x loc scale He. dist_unfold. specialize (He ((x - loc) / (scale * Rsqrt (1 + 1)))). lra. Qed.

(* mean / variance parameterisation round trips *)
Theorem normal_params_mv_roundtrip : forall m v, 0 <= v ->
  normal_mean RN (fst (normal_params_mv RN m v)) = m /\
  normal_variance RN (snd (normal_params_mv RN m v)) = v.
Proof. intros m v Hv. dist_unfold. cbn [fst snd]. split; [reflexivity | apply sqrt_sqrt; assumption]. Qed.

Theorem normal_params_mv_inverse : forall loc scale, 0 <= scale ->
  normal_params_mv RN (normal_mean RN loc) (normal_variance RN scale) = (loc, scale).
Proof. intros loc scale Hs. dist_unfold. f_equal. apply sqrt_square; assumption. Qed.

(* ---- calculus: the density is the derivative of the cdf ---- *)

Lemma sqrt2_sqrtPI : Rsqrt (1 + 1) * Rsqrt PI = Rsqrt (2 * PI).
Proof. rewrite <- sqrt_mult; [f_equal; ring | lra | left; apply PI_RGT_0]. Qed.

Theorem normal_pdf_is_derivative_of_cdf : forall (erf : R -> R) loc scale x, erf_derivative erf -> 0 < scale ->
  is_derive (fun x => normal_cdf RN erf x loc scale) x (normal_pdf RN (2 * PI) x loc scale).
Proof.
  intros erf loc scale x He Hs. dist_unfold.
  assert (Hpi : 0 < Rsqrt PI) by (apply sqrt_lt_R0; apply PI_RGT_0).
  assert (H2 : 0 < Rsqrt (1 + 1)) by (apply sqrt_lt_R0; lra).
  set (k := scale * Rsqrt (1 + 1)). assert (Hk : 0 < k) by (apply Rmult_lt_0_compat; assumption).
  assert (Hin : is_derive (fun x0 : R => (x0 - loc) / k) x (/ k)).
  { auto_derive; [exact I | field; lra]. }
  pose proof (is_derive_comp erf (fun x0 => (x0 - loc) / k) x _ _ (He ((x - loc) / k)) Hin) as Hc.
  pose proof (is_derive_plus (fun _ : R => 1) (fun x0 => erf ((x0 - loc) / k)) x _ _ (is_derive_const 1 x) Hc) as Hp.
  pose proof (is_derive_scal _ x (/ 2) _ Hp) as Hd.
  match type of Hd with is_derive _ _ ?d =>
    match goal with |- is_derive _ _ ?g => assert (E : d = g) end end.
  { unfold plus, scal, Hierarchy.zero; simpl. unfold mult; simpl.
    rewrite <- sqrt2_sqrtPI.
    assert (Hs2 : Rsqrt (1 + 1) * Rsqrt (1 + 1) = 2) by (rewrite sqrt_sqrt; lra).
    replace (- ((x - loc) / k * ((x - loc) / k * 1))) with (- / 2 * ((x - loc) / scale * ((x - loc) / scale))).
    - unfold k. field. lra.
    - unfold k. replace ((x - loc) / (scale * Rsqrt (1 + 1)) * ((x - loc) / (scale * Rsqrt (1 + 1)) * 1))
        with ((x - loc) / scale * ((x - loc) / scale) * / (Rsqrt (1 + 1) * Rsqrt (1 + 1))) by (field; lra).
      rewrite Hs2. field. lra. }
  rewrite <- E. exact Hd.
Qed.

Lemma normal_pdf_derivative : forall tau loc scale x, 0 < tau -> 0 < scale ->
  is_derive (fun x => normal_pdf RN tau x loc scale) x (- ((x - loc) / (scale * scale)) * normal_pdf RN tau x loc scale).
Proof.
  intros tau loc scale x Ht Hs. dist_unfold.
  assert (Hq : 0 < Rsqrt tau) by (apply sqrt_lt_R0; assumption).
  auto_derive; [exact I | unfold Rdiv, Rminus; field; lra].
Qed.

Lemma normal_pdf_continuous : forall tau loc scale x, 0 < tau -> 0 < scale ->
  continuous (fun x => normal_pdf RN tau x loc scale) x.
Proof.
  intros. apply (ex_derive_continuous (fun x => normal_pdf RN tau x loc scale)).
  eexists. apply normal_pdf_derivative; assumption.
Qed.

(* "the density integrates to the cdf": for every interval, given only erf' *)
Theorem normal_pdf_integrates_to_cdf : forall (erf : R -> R) loc scale a b, erf_derivative erf -> 0 < scale ->
  is_RInt (fun x => normal_pdf RN (2 * PI) x loc scale) a b
          (normal_cdf RN erf b loc scale - normal_cdf RN erf a loc scale).
Proof.
  intros erf loc scale a b He Hs.
  apply (is_RInt_derive (fun x => normal_cdf RN erf x loc scale) (fun x => normal_pdf RN (2 * PI) x loc scale)).
  - intros x _. apply normal_pdf_is_derivative_of_cdf; assumption.
  - intros x _. apply normal_pdf_continuous; [pose proof PI_RGT_0; lra | assumption].
Qed.

(* first and second central moment: exact antiderivatives (so the moment integrals over any finite interval are
   closed forms in cdf and pdf; the improper limits are NOT taken here - see the quadrature test) *)
Theorem normal_mean_antiderivative : forall (erf : R -> R) loc scale x, erf_derivative erf -> 0 < scale ->
  is_derive (fun x => loc * normal_cdf RN erf x loc scale - scale * scale * normal_pdf RN (2 * PI) x loc scale) x
            (x * normal_pdf RN (2 * PI) x loc scale).
Proof.
  intros erf loc scale x He Hs.
  assert (Ht : 0 < 2 * PI) by (pose proof PI_RGT_0; lra).
  pose proof (normal_pdf_is_derivative_of_cdf erf loc scale x He Hs) as Hc.
  pose proof (normal_pdf_derivative (2 * PI) loc scale x Ht Hs) as Hp.
  set (p := normal_pdf RN (2 * PI) x loc scale) in *.
  pose proof (is_derive_minus _ _ x _ _ (is_derive_scal _ x loc _ Hc) (is_derive_scal _ x (scale * scale) _ Hp)) as H.
  match type of H with is_derive _ _ ?d => replace (x * p) with d; [exact H|] end.
  unfold minus, plus, Hierarchy.opp; simpl. field. lra.
Qed.

Theorem normal_variance_antiderivative : forall (erf : R -> R) loc scale x, erf_derivative erf -> 0 < scale ->
  is_derive (fun x => scale * scale * normal_cdf RN erf x loc scale
                      - scale * scale * ((x - loc) * normal_pdf RN (2 * PI) x loc scale)) x
            ((x - normal_mean RN loc) ^ 2 * normal_pdf RN (2 * PI) x loc scale).
Proof.
  intros erf loc scale x He Hs.
  assert (Ht : 0 < 2 * PI) by (pose proof PI_RGT_0; lra).
  pose proof (normal_pdf_is_derivative_of_cdf erf loc scale x He Hs) as Hc.
  pose proof (normal_pdf_derivative (2 * PI) loc scale x Ht Hs) as Hp.
  unfold normal_mean.
  set (p := normal_pdf RN (2 * PI) x loc scale) in *.
  assert (Hl : is_derive (fun x0 : R => x0 - loc) x 1) by (auto_derive; [exact I | ring]).
  pose proof (is_derive_mult _ _ x _ _ Hl Hp (fun a b => Rmult_comm a b)) as Hm.
  pose proof (is_derive_minus _ _ x _ _ (is_derive_scal _ x (scale * scale) _ Hc)
                (is_derive_scal _ x (scale * scale) _ Hm)) as H.
  cbv beta in H. fold p in H.
  match type of H with is_derive _ _ ?d => replace ((x - loc) ^ 2 * p) with d; [exact H|] end.
  clearbody p. unfold minus, plus, Hierarchy.opp, mult; simpl. unfold mult; simpl. field. lra.
Qed.

(* ================================================================== LogNormal *)
(* exp(log-density) = density holds by construction (pdf := exp(logpdf)); what needs proof is that this IS the
   log-normal density: the normal density at ln x divided by x *)
Theorem lognormal_pdf_closed_form : forall tau x loc scale, 0 < tau -> 0 < scale -> 0 < x ->
  lognormal_pdf RN tau x loc scale = Rexp (lognormal_logpdf RN tau x loc scale) /\
  lognormal_pdf RN tau x loc scale = normal_pdf RN tau (Rln x) loc scale / x /\
  lognormal_pdf RN tau x loc scale
    = 1 / (x * scale * Rsqrt tau) * Rexp (- / 2 * ((Rln x - loc) / scale) ^ 2).
Proof.
  intros tau x loc scale Ht Hs Hx. split; [reflexivity|].
  assert (Hq : 0 < Rsqrt tau) by (apply sqrt_lt_R0; assumption).
  assert (E : lognormal_pdf RN tau x loc scale = 1 / (x * scale * Rsqrt tau) * Rexp (- / 2 * ((Rln x - loc) / scale) ^ 2)).
  { dist_unfold.
    replace (- Rln scale - Rln x - / 2 * (Rln tau + (loc - Rln x) / scale * ((loc - Rln x) / scale)))
      with (- Rln scale + (- Rln x + (- (/ 2 * Rln tau) + - / 2 * ((Rln x - loc) / scale) ^ 2))) by (field; lra).
    rewrite !exp_plus, !exp_Ropp, !exp_ln by assumption.
    replace (Rexp (/ 2 * Rln tau)) with (Rsqrt tau).
    - field. repeat split; lra.
    - rewrite <- (exp_ln (Rsqrt tau)) by assumption. f_equal.
      rewrite <- (sqrt_sqrt tau) at 2 by lra. rewrite ln_mult by assumption. lra. }
  split; [|exact E]. rewrite E. clear E. dist_unfold.
  replace (((Rln x - loc) / scale) ^ 2) with ((Rln x - loc) / scale * ((Rln x - loc) / scale)) by ring.
  field. repeat split; lra.
Qed.

Theorem lognormal_logcdf_eq_log_cdf : forall (erf : R -> R) x loc scale,
  lognormal_logcdf RN erf x loc scale = Rln (lognormal_cdf RN erf x loc scale) /\
  lognormal_cdf RN erf x loc scale = normal_cdf RN erf (Rln x) loc scale /\
  ((forall z, -1 < erf z) -> Rexp (lognormal_logcdf RN erf x loc scale) = lognormal_cdf RN erf x loc scale).
Proof.
  intros erf x loc scale. split; [reflexivity|]. split; [reflexivity|]. intros He.
  unfold lognormal_logcdf. rn_simpl. apply exp_ln.
  dist_unfold. specialize (He ((Rln x - loc) / (scale * Rsqrt (1 + 1)))). lra.
Qed.

Theorem lognormal_pdf_is_derivative_of_cdf : forall (erf : R -> R) loc scale x, erf_derivative erf -> 0 < scale -> 0 < x ->
  is_derive (fun x => lognormal_cdf RN erf x loc scale) x (lognormal_pdf RN (2 * PI) x loc scale).
Proof.
  intros erf loc scale x He Hs Hx.
  assert (Ht : 0 < 2 * PI) by (pose proof PI_RGT_0; lra).
  destruct (lognormal_pdf_closed_form (2 * PI) x loc scale Ht Hs Hx) as [_ [E _]]. rewrite E.
  pose proof (is_derive_comp (fun u => normal_cdf RN erf u loc scale) Rln x _ _
                (normal_pdf_is_derivative_of_cdf erf loc scale (Rln x) He Hs) (is_derive_ln x Hx)) as H.
  match type of H with is_derive _ _ ?d => replace (normal_pdf RN (2 * PI) (Rln x) loc scale / x) with d; [exact H|] end.
  generalize (normal_pdf RN (2 * PI) (Rln x) loc scale). intros p.
  unfold scal; simpl. unfold mult; simpl. field. lra.
Qed.

Theorem lognormal_pdf_integrates_to_cdf : forall (erf : R -> R) loc scale a b, erf_derivative erf -> 0 < scale ->
  0 < a -> 0 < b ->
  is_RInt (fun x => lognormal_pdf RN (2 * PI) x loc scale) a b
          (lognormal_cdf RN erf b loc scale - lognormal_cdf RN erf a loc scale).
Proof.
  intros erf loc scale a b He Hs Ha Hb.
  assert (Ht : 0 < 2 * PI) by (pose proof PI_RGT_0; lra).
  assert (Hpos : forall x, Rmin a b <= x <= Rmax a b -> 0 < x).
  { intros x [H1 _]. unfold Rmin in H1. destruct (Rle_dec a b); lra. }
  apply (is_RInt_derive (fun x => lognormal_cdf RN erf x loc scale) (fun x => lognormal_pdf RN (2 * PI) x loc scale)).
  - intros x Hx. apply lognormal_pdf_is_derivative_of_cdf; auto.
  - intros x Hx. specialize (Hpos x Hx).
    apply (ex_derive_continuous (fun x => lognormal_pdf RN (2 * PI) x loc scale)).
    dist_unfold. auto_derive. repeat split; auto.
Qed.

(* mean / variance parameterisation: the stated mean and variance of the distribution with the parameters
   returned by params_mv are the requested ones, and conversely *)
Theorem lognormal_params_mv_roundtrip : forall m v, 0 < m -> 0 <= v ->
  let p := lognormal_params_mv RN m v in
  lognormal_mean RN (fst p) (snd p) = m /\ lognormal_variance RN (fst p) (snd p) = v.
Proof.
  intros m v Hm Hv. dist_unfold. cbn [fst snd].
  assert (Hmm : 0 < m * m) by nra.
  assert (Hs : 0 < Rsqrt (m * m + v)) by (apply sqrt_lt_R0; lra).
  assert (Hr : 1 <= 1 + v / (m * m)).
  { assert (0 <= v / (m * m)) by (apply Rmult_le_pos; [lra | left; apply Rinv_0_lt_compat; lra]). lra. }
  assert (Hln : 0 <= Rln (1 + v / (m * m))).
  { rewrite <- ln_1. destruct Hr as [Hr | <-]; [left; apply ln_increasing; lra | lra]. }
  rewrite sqrt_sqrt by assumption.
  assert (Hq : 0 < m * m / Rsqrt (m * m + v)) by (apply Rmult_lt_0_compat; [lra | apply Rinv_0_lt_compat; lra]).
  assert (Hss : Rsqrt (m * m + v) * Rsqrt (m * m + v) = m * m + v) by (apply sqrt_sqrt; lra).
  split.
  - rewrite exp_plus, exp_ln by assumption.
    replace (Rln (1 + v / (m * m)) / (1 + 1)) with (/ 2 * Rln (1 + v / (m * m))) by field.
    replace (Rexp (/ 2 * Rln (1 + v / (m * m)))) with (Rsqrt (1 + v / (m * m))).
    + replace (1 + v / (m * m)) with ((m * m + v) / (m * m)) by (field; lra).
      rewrite sqrt_div_alt by lra. rewrite sqrt_square by lra. field. split; lra.
    + assert (0 < Rsqrt (1 + v / (m * m))) by (apply sqrt_lt_R0; lra).
      rewrite <- (exp_ln (Rsqrt (1 + v / (m * m)))) by assumption. f_equal.
      rewrite <- (sqrt_sqrt (1 + v / (m * m))) at 2 by lra. rewrite ln_mult by assumption. lra.
  - rewrite exp_ln by lra. rewrite exp_plus.
    replace ((1 + 1) * Rln (m * m / Rsqrt (m * m + v))) with (Rln (m * m / Rsqrt (m * m + v)) + Rln (m * m / Rsqrt (m * m + v))) by ring.
    rewrite exp_plus, !exp_ln by lra.
    replace (m * m / Rsqrt (m * m + v) * (m * m / Rsqrt (m * m + v)))
      with ((m * m) * (m * m) / (Rsqrt (m * m + v) * Rsqrt (m * m + v))) by (field; lra).
    rewrite Hss. field. split; lra.
Qed.

Theorem lognormal_params_mv_inverse : forall loc scale, 0 <= scale ->
  lognormal_params_mv RN (lognormal_mean RN loc scale) (lognormal_variance RN loc scale) = (loc, scale).
Proof.
  intros loc scale Hs. dist_unfold.
  set (M := Rexp (loc + scale * scale / (1 + 1))).
  assert (HM : 0 < M) by apply exp_pos.
  assert (EMM : M * M = Rexp ((1 + 1) * loc + scale * scale)).
  { unfold M. rewrite <- exp_plus. f_equal. field. }
  assert (Hsum : M * M + (Rexp (scale * scale) - 1) * Rexp ((1 + 1) * loc + scale * scale)
                 = Rexp ((1 + 1) * loc + scale * scale) * Rexp (scale * scale)).
  { rewrite EMM. ring. }
  f_equal.
  - rewrite Hsum. rewrite <- exp_plus.
    replace (Rsqrt (Rexp ((1 + 1) * loc + scale * scale + scale * scale))) with (Rexp (loc + scale * scale)).
    + rewrite EMM. unfold Rdiv. rewrite <- exp_Ropp, <- exp_plus, ln_exp. ring.
    + symmetry. apply sqrt_lem_1; [left; apply exp_pos | left; apply exp_pos |].
      rewrite <- exp_plus. f_equal. ring.
  - rewrite EMM.
    replace (1 + (Rexp (scale * scale) - 1) * Rexp ((1 + 1) * loc + scale * scale) / Rexp ((1 + 1) * loc + scale * scale))
      with (Rexp (scale * scale)) by (field; apply Rgt_not_eq, exp_pos).
    rewrite ln_exp. apply sqrt_square; assumption.
Qed.

(* ================================================================== Poisson *)
Ltac rfix := try match goal with |- @eq _ ?a ?b => change (@eq R a b) end.
(* Coquelicot's structure operations on R, back to the field operations (syntactic, by conversion) *)
Ltac rsimp := repeat match goal with
  | |- context [@scal _ _ ?a ?b] => change (@scal _ _ a b) with (Rmult a b)
  | |- context [@plus _ ?a ?b] => change (@plus _ a b) with (Rplus a b)
  | |- context [@Hierarchy.opp _ ?a] => change (@Hierarchy.opp _ a) with (Ropp a)
  end; try match goal with |- @eq _ ?a ?b => change (@eq R a b) end.
Lemma IZR_factZ : forall k, IZR (factZ k) = INR (fact k).
Proof.
  induction k as [|k IH]; [reflexivity|].
  change (factZ (S k)) with (Z.of_nat (S k) * factZ k)%Z. change (fact (S k)) with (S k * fact k)%nat.
  rewrite mult_IZR, mult_INR, IH, <- INR_IZR_INZ. reflexivity.
Qed.

Lemma exp_INR_ln : forall k x, 0 < x -> Rexp (INR k * Rln x) = x ^ k.
Proof.
  intros k x Hx. induction k as [|k IH]; [cbn; rewrite Rmult_0_l; apply exp_0|].
  rewrite S_INR, Rmult_plus_distr_r, Rmult_1_l, exp_plus, IH, exp_ln by assumption. cbn [Rpow_def.pow]. ring.
Qed.

Lemma xlogy_nat : forall k rate, xlogy RN (IZR (Z.of_nat k)) rate = INR k * Rln rate.
Proof.
  intros k rate. unfold xlogy. rn_simpl. rewrite <- INR_IZR_INZ.
  destruct (Reqb'_spec (INR k) 0) as [E | E]; [rewrite E; ring | reflexivity].
Qed.

(* the mass function the code computes, exp(k ln(rate) - rate - lgamma(k+1)), is rate^k e^-rate / k! *)
Theorem poisson_pmf_closed_form : forall k rate, 0 < rate ->
  poisson_pmf RN k rate = Rexp (poisson_logpmf RN k rate) /\
  poisson_pmf RN k rate = rate ^ k / INR (fact k) * Rexp (- rate).
Proof.
  intros k rate Hr. split; [reflexivity|].
  unfold poisson_pmf, poisson_logpmf, lgamma1. rn_simpl. rewrite xlogy_nat, IZR_factZ.
  assert (Hf : 0 < INR (fact k)) by (apply lt_0_INR, lt_O_fact).
  replace (INR k * Rln rate - rate - Rln (INR (fact k))) with (INR k * Rln rate + (- rate + - Rln (INR (fact k)))) by ring.
  rewrite !exp_plus, exp_INR_ln, (exp_Ropp (Rln _)), exp_ln by assumption. field. lra.
Qed.

Lemma poisson_pmf_pos : forall k rate, 0 < rate -> 0 < poisson_pmf RN k rate.
Proof. intros; unfold poisson_pmf; rn_simpl; apply exp_pos. Qed.

Lemma poisson_pmf_S : forall k rate, 0 < rate ->
  INR (S k) * poisson_pmf RN (S k) rate = rate * poisson_pmf RN k rate.
Proof.
  intros k rate Hr.
  destruct (poisson_pmf_closed_form (S k) rate Hr) as [_ ->]. destruct (poisson_pmf_closed_form k rate Hr) as [_ ->].
  change (fact (S k)) with (S k * fact k)%nat. rewrite mult_INR. cbn [Rpow_def.pow].
  assert (0 < INR (fact k)) by (apply lt_0_INR, lt_O_fact). assert (0 < INR (S k)) by (apply lt_0_INR; lia).
  field. split; lra.
Qed.

(* the mass function sums to one: a convergent series, for every rate > 0 *)
Theorem poisson_pmf_sums_to_one : forall rate, 0 < rate -> is_series (fun k => poisson_pmf RN k rate) 1.
Proof.
  intros rate Hr.
  pose proof (is_exp_Reals rate) as He. unfold is_pseries in He.
  pose proof (is_series_scal_r (Rexp (- rate)) _ _ He) as Hs.
  replace (Rexp rate * Rexp (- rate)) with 1 in Hs by (rewrite <- exp_plus, Rplus_opp_r, exp_0; reflexivity).
  eapply is_series_ext; [|exact Hs]. intros n. cbv beta.
  destruct (poisson_pmf_closed_form n rate Hr) as [_ ->].
  rsimp. rewrite <- (pow_n_pow rate n). reflexivity.
Qed.

(* the stated mean (= rate) is the first moment of the mass function *)
Theorem poisson_mean_matches_pmf : forall rate, 0 < rate ->
  is_series (fun k => INR k * poisson_pmf RN k rate) (poisson_mean RN rate).
Proof.
  intros rate Hr. unfold poisson_mean.
  apply is_series_decr_1.
  match goal with |- is_series _ ?l => replace l with (scal rate 1) end.
  2:{ rsimp. cbn [INR]. ring. }
  eapply is_series_ext; [| apply (is_series_scal_l rate _ _ (poisson_pmf_sums_to_one rate Hr))].
  intros n. cbv beta. rewrite poisson_pmf_S by assumption. reflexivity.
Qed.

Lemma poisson_second_factorial_moment : forall rate, 0 < rate ->
  is_series (fun k => INR k * (INR k - 1) * poisson_pmf RN k rate) (rate * rate).
Proof.
  intros rate Hr.
  apply is_series_decr_1.
  match goal with |- is_series _ ?l => replace l with (scal rate rate) end.
  2:{ rsimp. cbn [INR]. ring. }
  eapply is_series_ext; [| apply (is_series_scal_l rate _ _ (poisson_mean_matches_pmf rate Hr))].
  intros n. cbv beta. rsimp.
  transitivity (INR n * (INR (S n) * poisson_pmf RN (S n) rate)); [rewrite poisson_pmf_S by assumption; ring | rewrite S_INR; ring].
Qed.

(* the stated variance (= rate) is the second central moment of the mass function *)
Theorem poisson_variance_matches_pmf : forall rate, 0 < rate ->
  is_series (fun k => (INR k - poisson_mean RN rate) ^ 2 * poisson_pmf RN k rate) (poisson_variance RN rate).
Proof.
  intros rate Hr. unfold poisson_mean, poisson_variance.
  pose proof (poisson_second_factorial_moment rate Hr) as H2.
  pose proof (is_series_scal_l (1 - 2 * rate) _ _ (poisson_mean_matches_pmf rate Hr)) as H1.
  pose proof (is_series_scal_l (rate * rate) _ _ (poisson_pmf_sums_to_one rate Hr)) as H0.
  pose proof (is_series_plus _ _ _ _ (is_series_plus _ _ _ _ H2 H1) H0) as H.
  unfold poisson_mean in H.
  match type of H with is_series _ ?l => replace l with rate in H end.
  2:{ rsimp. ring. }
  eapply is_series_ext; [|exact H]. intros n. cbv beta.
  rsimp. ring.
Qed.

(* ---- cdf ---- *)
Lemma tsum_scal : forall (c : R) (f : nat -> R) l, c * tsum RN (map f l) = tsum RN (map (fun j => c * f j) l).
Proof.
  intros c f l. induction l as [|a l IH]; cbn [map tsum]; rn_simpl.
  - apply Rmult_0_r.
  - rewrite <- IH. apply Rmult_plus_distr_l.
Qed.

Lemma pown_pow : forall (x : R) j, pown RN x j = x ^ j.
Proof. intros x j. induction j as [|j IH]; [reflexivity|]. cbn [pown Rpow_def.pow]. rn_simpl. rewrite IH. reflexivity. Qed.

Lemma tsum_seq_sum_n : forall (a : nat -> R) n, tsum RN (map a (seq 0 (S n))) = sum_n a n.
Proof.
  intros a n. induction n as [|n IH].
  - cbn [seq map tsum]. rn_simpl. rewrite sum_O. rfix; ring.
  - rewrite seq_S, map_app. cbn [map plus].
    assert (App : forall l1 l2 : list R, tsum RN (l1 ++ l2) = tsum RN l1 + tsum RN l2).
    { induction l1 as [|h l1 IH1]; intros l2; cbn [app tsum]; rn_simpl; [symmetry; apply Rplus_0_l|]. rewrite IH1. symmetry; apply Rplus_assoc. }
    rewrite App, IH, sum_Sn. rsimp. cbn [tsum]. rn_simpl. rfix. change (0 + S n)%nat with (S n). ring.
Qed.

(* cdf(s) (through the closed form of gammaincc at an integer first argument) is the partial sum of the mass
   function up to floor(s): "the mass function sums to the cdf" - for every real support s >= 0 *)
Theorem poisson_cdf_is_partial_sum : forall support rate, 0 < rate -> 0 <= support ->
  poisson_cdf RN support rate = sum_n (fun j => poisson_pmf RN j rate) (Z.to_nat (Zfloor support)).
Proof.
  intros s rate Hr Hs. unfold poisson_cdf, gammaincc_nat. rn_simpl.
  assert (Hf : (0 <= Zfloor s)%Z) by (apply Zfloor_lub; assumption).
  assert (Ea : Zfloor (s + 1) = (Zfloor s + 1)%Z).
  { apply Zfloor_imp. rewrite !plus_IZR. pose proof (Zfloor_lb s). pose proof (Zfloor_ub s). lra. }
  rewrite Ea, Z2Nat.inj_add by lia. change (Z.to_nat 1) with 1%nat. rewrite Nat.add_1_r.
  rewrite <- tsum_seq_sum_n. rewrite tsum_scal. f_equal. apply map_ext. intros j.
  destruct (poisson_pmf_closed_form j rate Hr) as [_ ->]. rewrite pown_pow, IZR_factZ. unfold Rdiv; ring.
Qed.

Theorem poisson_cdf_tends_to_one : forall rate, 0 < rate ->
  is_lim_seq (fun n => poisson_cdf RN (INR n) rate) 1.
Proof.
  intros rate Hr.
  apply is_lim_seq_ext with (u := sum_n (fun j => poisson_pmf RN j rate)).
  - intros n. rewrite poisson_cdf_is_partial_sum by (auto; apply pos_INR).
    rewrite INR_IZR_INZ, Zfloor_IZR, Nat2Z.id. reflexivity.
  - exact (poisson_pmf_sums_to_one rate Hr).
Qed.

Theorem poisson_cdf_range_monotone : forall rate s1 s2, 0 < rate -> 0 <= s1 <= s2 ->
  0 < poisson_cdf RN s1 rate <= poisson_cdf RN s2 rate.
Proof.
  intros rate s1 s2 Hr [H1 H2].
  rewrite !poisson_cdf_is_partial_sum by lra.
  assert (Hle : (Z.to_nat (Zfloor s1) <= Z.to_nat (Zfloor s2))%nat).
  { apply Z2Nat.inj_le; [apply Zfloor_lub; lra | apply Zfloor_lub; lra | apply Zfloor_le; assumption]. }
  assert (Hpos : forall n, 0 < sum_n (fun j => poisson_pmf RN j rate) n).
  { induction n as [|n IH]; [rewrite sum_O; apply poisson_pmf_pos; assumption|].
    rewrite sum_Sn. rsimp. pose proof (poisson_pmf_pos (S n) rate Hr). lra. }
  split; [apply Hpos|].
  induction Hle as [|m Hm IH]; [lra|]. rewrite sum_Sn. rsimp.
  pose proof (poisson_pmf_pos (S m) rate Hr). lra.
Qed.

(* log-cdf = log(cdf), and exp(log-cdf) = cdf *)
Theorem poisson_logcdf_eq_log_cdf : forall support rate, 0 < rate -> 0 <= support ->
  poisson_logcdf RN support rate = Rln (poisson_cdf RN support rate) /\
  Rexp (poisson_logcdf RN support rate) = poisson_cdf RN support rate.
Proof.
  intros s rate Hr Hs. split; [reflexivity|]. unfold poisson_logcdf. rn_simpl. apply exp_ln.
  apply (poisson_cdf_range_monotone rate s s); lra.
Qed.

(* ================================================================== limits at infinity (Normal) *)
(* The value of erf at +-infinity is a fact about erf (the Gaussian integral), not about inferno's formulas; the
   theorems below take it as a hypothesis and derive what the code's cdf / pdf / moment antiderivatives do. *)
Lemma Rbar_mult_pos_p_infty : forall a : R, 0 < a -> Rbar_mult a p_infty = p_infty.
Proof.
  intros a Ha. apply is_Rbar_mult_unique. apply is_Rbar_mult_sym. apply is_Rbar_mult_p_infty_pos. exact Ha.
Qed.
Lemma Rbar_mult_pos_m_infty : forall a : R, 0 < a -> Rbar_mult a m_infty = m_infty.
Proof.
  intros a Ha. apply is_Rbar_mult_unique. apply is_Rbar_mult_sym. apply is_Rbar_mult_m_infty_pos. exact Ha.
Qed.

Theorem normal_cdf_limits : forall (erf : R -> R) loc scale (Lp Lm : R), 0 < scale ->
  is_lim erf p_infty Lp -> is_lim erf m_infty Lm ->
  is_lim (fun x => normal_cdf RN erf x loc scale) p_infty (/ 2 * (1 + Lp)) /\
  is_lim (fun x => normal_cdf RN erf x loc scale) m_infty (/ 2 * (1 + Lm)).
Proof.
  intros erf loc scale Lp Lm Hs Hp Hm.
  assert (H2 : 0 < Rsqrt (1 + 1)) by (apply sqrt_lt_R0; lra).
  set (a := / (scale * Rsqrt (1 + 1))).
  assert (Ha : 0 < a) by (apply Rinv_0_lt_compat, Rmult_lt_0_compat; assumption).
  assert (E : forall y, / 2 * (1 + erf (a * y + - loc * a)) = normal_cdf RN erf y loc scale).
  { intros y. dist_unfold. do 3 f_equal. unfold a. field. split; lra. }
  split.
  - apply (is_lim_ext _ _ _ _ E).
    apply (is_lim_scal_l (fun y => 1 + erf (a * y + - loc * a)) (/ 2) p_infty (1 + Lp)).
    apply (is_lim_plus' (fun _ => 1) (fun y => erf (a * y + - loc * a)) p_infty 1 Lp); [apply is_lim_const|].
    apply is_lim_comp_lin; [|lra]. rewrite Rbar_mult_pos_p_infty by assumption. exact Hp.
  - apply (is_lim_ext _ _ _ _ E).
    apply (is_lim_scal_l (fun y => 1 + erf (a * y + - loc * a)) (/ 2) m_infty (1 + Lm)).
    apply (is_lim_plus' (fun _ => 1) (fun y => erf (a * y + - loc * a)) m_infty 1 Lm); [apply is_lim_const|].
    apply is_lim_comp_lin; [|lra]. rewrite Rbar_mult_pos_m_infty by assumption. exact Hm.
Qed.

(* "the density integrates to one": the integral over [a, b] tends to 1 as a -> -inf, b -> +inf, exactly when
   erf(+-inf) = +-1 *)
Theorem normal_pdf_integrates_to_one : forall (erf : R -> R) loc scale, erf_derivative erf -> 0 < scale ->
  is_lim erf p_infty 1 -> is_lim erf m_infty (-1) ->
  (forall a, is_lim (fun b => RInt (fun x => normal_pdf RN (2 * PI) x loc scale) a b) p_infty
                    (1 - normal_cdf RN erf a loc scale)) /\
  is_lim (fun a => 1 - normal_cdf RN erf a loc scale) m_infty 1.
Proof.
  intros erf loc scale He Hs Hp Hm.
  destruct (normal_cdf_limits erf loc scale 1 (-1) Hs Hp Hm) as [L1 L2].
  replace (/ 2 * (1 + 1)) with 1 in L1 by field. replace (/ 2 * (1 + -1)) with 0 in L2 by field.
  split.
  - intros a.
    apply (is_lim_ext (fun b => normal_cdf RN erf b loc scale - normal_cdf RN erf a loc scale)).
    + intros b. symmetry. apply is_RInt_unique. apply normal_pdf_integrates_to_cdf; assumption.
    + apply (is_lim_minus' _ (fun _ => normal_cdf RN erf a loc scale) p_infty 1 _ L1). apply is_lim_const.
  - pose proof (is_lim_minus' (fun _ => 1) (fun a => normal_cdf RN erf a loc scale) m_infty 1 0
                  (is_lim_const 1 m_infty) L2) as H.
    replace (1 - 0) with 1 in H by ring. exact H.
Qed.

(* ---- the density and (x - loc) * density vanish at +-infinity ---- *)
Lemma Rbar_mult_neg_p_infty : forall a : R, a < 0 -> Rbar_mult a p_infty = m_infty.
Proof.
  intros a Ha. apply is_Rbar_mult_unique. apply is_Rbar_mult_sym. apply is_Rbar_mult_p_infty_neg. exact Ha.
Qed.
Lemma Rbar_mult_neg_m_infty : forall a : R, a < 0 -> Rbar_mult a m_infty = p_infty.
Proof.
  intros a Ha. apply is_Rbar_mult_unique. apply is_Rbar_mult_sym. apply is_Rbar_mult_m_infty_neg. exact Ha.
Qed.

Lemma lin_lim_p : forall a b : R, 0 < a -> is_lim (fun y => a * y + b) p_infty p_infty.
Proof.
  intros a b Ha. pose proof (is_lim_comp_lin (fun y => y) a b p_infty (Rbar_plus (Rbar_mult a p_infty) b)) as H.
  rewrite Rbar_mult_pos_p_infty in H by assumption. apply H; [apply is_lim_id | lra].
Qed.
Lemma lin_lim_m : forall a b : R, 0 < a -> is_lim (fun y => a * y + b) m_infty m_infty.
Proof.
  intros a b Ha. pose proof (is_lim_comp_lin (fun y => y) a b m_infty (Rbar_plus (Rbar_mult a m_infty) b)) as H.
  rewrite Rbar_mult_pos_m_infty in H by assumption. apply H; [apply is_lim_id | lra].
Qed.

Definition hfun (u : R) : R := u * Rexp (- / 2 * (u * u)).

Lemma exp_half_sq_bound : forall u, 0 < u -> Rexp (- / 2 * (u * u)) <= 2 / (u * u).
Proof.
  intros u Hu. assert (Hw : 0 < / 2 * (u * u)) by nra.
  pose proof (exp_ineq1_le (/ 2 * (u * u))) as H1.
  replace (- / 2 * (u * u)) with (- (/ 2 * (u * u))) by ring. rewrite exp_Ropp.
  assert (Hpos : 0 < Rexp (/ 2 * (u * u))) by apply exp_pos.
  replace (2 / (u * u)) with (/ (/ 2 * (u * u))) by (field; lra).
  apply Rinv_le_contravar; lra.
Qed.

Lemma hfun_lim_p : is_lim hfun p_infty 0.
Proof.
  apply (is_lim_le_le_loc (fun _ => 0) (fun u => 2 * / u) hfun p_infty 0).
  - exists 1. intros u Hu. unfold hfun. split.
    + apply Rmult_le_pos; [lra | left; apply exp_pos].
    + pose proof (exp_half_sq_bound u ltac:(lra)) as H.
      apply Rle_trans with (u * (2 / (u * u))); [apply Rmult_le_compat_l; lra|]. right. field. lra.
  - apply is_lim_const.
  - pose proof (is_lim_scal_l (fun u => / u) 2 p_infty 0) as H. simpl in H. rewrite Rmult_0_r in H. apply H.
    pose proof (is_lim_inv (fun y => y) p_infty p_infty (is_lim_id p_infty)) as H1. simpl in H1. apply H1. discriminate.
Qed.

Lemma hfun_lim_m : is_lim hfun m_infty 0.
Proof.
  pose proof (is_lim_comp_lin hfun (-1) 0 m_infty 0) as H.
  rewrite Rbar_mult_neg_m_infty in H by lra. simpl in H.
  pose proof (is_lim_opp _ _ _ (H hfun_lim_p ltac:(lra))) as H1. simpl in H1. rewrite Ropp_0 in H1.
  apply (is_lim_ext (fun y => - hfun (-1 * y + 0))); [|exact H1].
  intros y. unfold hfun. replace ((-1 * y + 0) * (-1 * y + 0)) with (y * y) by ring. ring.
Qed.

Lemma exp_lim_gauss_p : is_lim (fun u => Rexp (- / 2 * (u * u))) p_infty 0.
Proof.
  apply (is_lim_le_le_loc (fun _ => 0) hfun _ p_infty 0).
  - exists 1. intros u Hu. unfold hfun. pose proof (exp_pos (- / 2 * (u * u))). split; [lra | nra].
  - apply is_lim_const.
  - apply hfun_lim_p.
Qed.
Lemma exp_lim_gauss_m : is_lim (fun u => Rexp (- / 2 * (u * u))) m_infty 0.
Proof.
  pose proof (is_lim_comp_lin (fun u => Rexp (- / 2 * (u * u))) (-1) 0 m_infty 0) as H.
  rewrite Rbar_mult_neg_m_infty in H by lra. simpl in H.
  apply (is_lim_ext (fun y => Rexp (- / 2 * ((-1 * y + 0) * (-1 * y + 0))))); [|apply H; [apply exp_lim_gauss_p | lra]].
  intros y. f_equal. ring.
Qed.

Lemma comp_lim_inf : forall (h : R -> R) (a b : R) (x : Rbar), 0 < a -> (x = p_infty \/ x = m_infty) ->
  is_lim h x 0 -> is_lim (fun y => h (a * y + b)) x 0.
Proof.
  intros h a b x Ha Hx Hh. apply is_lim_comp_lin; [|lra].
  destruct Hx as [-> | ->]; [rewrite Rbar_mult_pos_p_infty | rewrite Rbar_mult_pos_m_infty]; assumption.
Qed.

Theorem normal_pdf_vanishes_at_infinity : forall tau loc scale, 0 < tau -> 0 < scale ->
  forall x : Rbar, x = p_infty \/ x = m_infty ->
  is_lim (fun y => normal_pdf RN tau y loc scale) x 0 /\
  is_lim (fun y => (y - loc) * normal_pdf RN tau y loc scale) x 0.
Proof.
  intros tau loc scale Ht Hs x Hx.
  assert (Hq : 0 < Rsqrt tau) by (apply sqrt_lt_R0; assumption).
  assert (Ha : 0 < / scale) by (apply Rinv_0_lt_compat; assumption).
  set (c := 1 / (scale * Rsqrt tau)).
  split.
  - assert (Hg : is_lim (fun y => Rexp (- / 2 * ((/ scale * y + - loc / scale) * (/ scale * y + - loc / scale)))) x 0).
    { apply (comp_lim_inf (fun u => Rexp (- / 2 * (u * u))) (/ scale) (- loc / scale) x Ha Hx).
      destruct Hx as [-> | ->]; [apply exp_lim_gauss_p | apply exp_lim_gauss_m]. }
    pose proof (is_lim_scal_l _ c x 0 Hg) as H. simpl in H. rewrite Rmult_0_r in H.
    apply (is_lim_ext _ _ _ _ (fun y => eq_refl)) in H.
    eapply is_lim_ext; [|exact H]. intros y. dist_unfold. unfold c. f_equal. f_equal. f_equal; field; lra.
  - assert (Hg : is_lim (fun y => hfun (/ scale * y + - loc / scale)) x 0).
    { apply (comp_lim_inf hfun (/ scale) (- loc / scale) x Ha Hx).
      destruct Hx as [-> | ->]; [apply hfun_lim_p | apply hfun_lim_m]. }
    pose proof (is_lim_scal_l _ (scale * c) x 0 Hg) as H. simpl in H. rewrite Rmult_0_r in H.
    eapply is_lim_ext; [|exact H]. intros y. dist_unfold. unfold c, hfun.
    replace (/ scale * y + - loc / scale) with ((y - loc) / scale) by (field; lra). field. lra.
Qed.

(* the stated mean and variance ARE the first and second central moments of the density: the antiderivatives of
   x * pdf and (x - mean)^2 * pdf (normal_mean_antiderivative, normal_variance_antiderivative) tend to
   mean resp. variance at +infinity and to 0 at -infinity, when erf(+-inf) = +-1 *)
Theorem normal_moments_match_density : forall (erf : R -> R) loc scale, 0 < scale ->
  is_lim erf p_infty 1 -> is_lim erf m_infty (-1) ->
  let F1 := fun x => loc * normal_cdf RN erf x loc scale - scale * scale * normal_pdf RN (2 * PI) x loc scale in
  let F2 := fun x => scale * scale * normal_cdf RN erf x loc scale
                     - scale * scale * ((x - loc) * normal_pdf RN (2 * PI) x loc scale) in
  (is_lim F1 p_infty (normal_mean RN loc) /\ is_lim F1 m_infty 0) /\
  (is_lim F2 p_infty (normal_variance RN scale) /\ is_lim F2 m_infty 0).
Proof.
  intros erf loc scale Hs Hp Hm F1 F2.
  assert (Ht : 0 < 2 * PI) by (pose proof PI_RGT_0; lra).
  destruct (normal_cdf_limits erf loc scale 1 (-1) Hs Hp Hm) as [L1 L2].
  replace (/ 2 * (1 + 1)) with 1 in L1 by field. replace (/ 2 * (1 + -1)) with 0 in L2 by field.
  destruct (normal_pdf_vanishes_at_infinity (2 * PI) loc scale Ht Hs p_infty (or_introl eq_refl)) as [P1 Q1].
  destruct (normal_pdf_vanishes_at_infinity (2 * PI) loc scale Ht Hs m_infty (or_intror eq_refl)) as [P2 Q2].
  assert (K : forall (f g : R -> R) (k1 k2 : R) (x : Rbar) (lf lg : R), is_lim f x lf -> is_lim g x lg ->
              is_lim (fun y => k1 * f y - k2 * g y) x (k1 * lf - k2 * lg)).
  { intros f g k1 k2 x lf lg Hf Hg.
    apply (is_lim_minus' (fun y => k1 * f y) (fun y => k2 * g y) x (k1 * lf) (k2 * lg)).
    - exact (is_lim_scal_l f k1 x lf Hf).
    - exact (is_lim_scal_l g k2 x lg Hg). }
  unfold normal_mean, normal_variance, sq. rn_simpl.
  repeat split.
  - pose proof (K _ _ loc (scale * scale) p_infty 1 0 L1 P1) as H.
    replace (loc * 1 - scale * scale * 0) with loc in H by ring. exact H.
  - pose proof (K _ _ loc (scale * scale) m_infty 0 0 L2 P2) as H.
    replace (loc * 0 - scale * scale * 0) with 0 in H by ring. exact H.
  - pose proof (K _ _ (scale * scale) (scale * scale) p_infty 1 0 L1 Q1) as H.
    replace (scale * scale * 1 - scale * scale * 0) with (scale * scale) in H by ring. exact H.
  - pose proof (K _ _ (scale * scale) (scale * scale) m_infty 0 0 L2 Q2) as H.
    replace (scale * scale * 0 - scale * scale * 0) with 0 in H by ring. exact H.
Qed.

(* ================================================================== LogNormal: total mass and moments *)
(* exponential tilting of the normal density: e^(k u) phi(u; mu, s) = e^(k mu + k^2 s^2 / 2) phi(u; mu + k s^2, s) *)
Lemma normal_pdf_tilt : forall tau u loc scale k, 0 < tau -> 0 < scale ->
  Rexp (k * loc + k * k * (scale * scale) / 2) * normal_pdf RN tau u (loc + k * (scale * scale)) scale
  = Rexp (k * u) * normal_pdf RN tau u loc scale.
Proof.
  intros tau u loc scale k Ht Hs. dist_unfold.
  assert (Hq : 0 < Rsqrt tau) by (apply sqrt_lt_R0; assumption).
  set (c := 1 / (scale * Rsqrt tau)).
  match goal with |- Rexp ?A * (c * Rexp ?B) = Rexp ?C * (c * Rexp ?D) =>
    replace (Rexp A * (c * Rexp B)) with (c * Rexp (A + B)) by (rewrite exp_plus; ring);
    replace (Rexp C * (c * Rexp D)) with (c * Rexp (C + D)) by (rewrite exp_plus; ring) end.
  f_equal. f_equal. field. lra.
Qed.

Lemma lognormal_cdf_derivative_gen : forall (erf : R -> R) loc' scale x, erf_derivative erf -> 0 < scale -> 0 < x ->
  is_derive (fun x => normal_cdf RN erf (Rln x) loc' scale) x (normal_pdf RN (2 * PI) (Rln x) loc' scale / x).
Proof.
  intros erf loc' scale x He Hs Hx.
  pose proof (is_derive_comp (fun u => normal_cdf RN erf u loc' scale) Rln x _ _
                (normal_pdf_is_derivative_of_cdf erf loc' scale (Rln x) He Hs) (is_derive_ln x Hx)) as H.
  match type of H with is_derive _ _ ?d => replace (normal_pdf RN (2 * PI) (Rln x) loc' scale / x) with d; [exact H|] end.
  generalize (normal_pdf RN (2 * PI) (Rln x) loc' scale). intros p.
  unfold scal; simpl. unfold mult; simpl. field. lra.
Qed.

(* antiderivatives of x * pdf and x^2 * pdf on (0, inf): closed forms through the normal cdf with shifted location *)
Theorem lognormal_moment_antiderivatives : forall (erf : R -> R) loc scale x, erf_derivative erf -> 0 < scale -> 0 < x ->
  is_derive (fun x => lognormal_mean RN loc scale * normal_cdf RN erf (Rln x) (loc + scale * scale) scale) x
            (x * lognormal_pdf RN (2 * PI) x loc scale) /\
  is_derive (fun x => Rexp (2 * loc + 2 * (scale * scale)) * normal_cdf RN erf (Rln x) (loc + 2 * (scale * scale)) scale) x
            (x ^ 2 * lognormal_pdf RN (2 * PI) x loc scale).
Proof.
  intros erf loc scale x He Hs Hx.
  assert (Ht : 0 < 2 * PI) by (pose proof PI_RGT_0; lra).
  destruct (lognormal_pdf_closed_form (2 * PI) x loc scale Ht Hs Hx) as [_ [E _]]. rewrite E.
  split.
  - pose proof (is_derive_scal _ x (lognormal_mean RN loc scale) _
                  (lognormal_cdf_derivative_gen erf (loc + scale * scale) scale x He Hs Hx)) as H.
    match type of H with is_derive _ _ ?d => replace (x * (normal_pdf RN (2 * PI) (Rln x) loc scale / x)) with d; [exact H|] end.
    pose proof (normal_pdf_tilt (2 * PI) (Rln x) loc scale 1 Ht Hs) as T.
    rewrite !Rmult_1_l, exp_ln in T by assumption.
    unfold lognormal_mean, sq. rn_unfold.
    replace (loc + scale * scale / (1 + 1)) with (loc + scale * scale / 2) by field.
    unfold Rdiv in *. rewrite <- !Rmult_assoc. try rewrite <- !Rmult_assoc in T. rewrite T. reflexivity.
  - pose proof (is_derive_scal _ x (Rexp (2 * loc + 2 * (scale * scale))) _
                  (lognormal_cdf_derivative_gen erf (loc + 2 * (scale * scale)) scale x He Hs Hx)) as H.
    match type of H with is_derive _ _ ?d => replace (x ^ 2 * (normal_pdf RN (2 * PI) (Rln x) loc scale / x)) with d; [exact H|] end.
    pose proof (normal_pdf_tilt (2 * PI) (Rln x) loc scale 2 Ht Hs) as T.
    replace (2 * loc + 2 * 2 * (scale * scale) / 2) with (2 * loc + 2 * (scale * scale)) in T by field.
    replace (Rexp (2 * Rln x)) with (x ^ 2) in T.
    2:{ replace (2 * Rln x) with (Rln x + Rln x) by ring. rewrite exp_plus, exp_ln by assumption. ring. }
    unfold Rdiv in *. rewrite <- !Rmult_assoc. try rewrite <- !Rmult_assoc in T. rewrite T. reflexivity.
Qed.

(* the stated variance is (second raw moment) - mean^2, with the second raw moment exp(2 mu + 2 sigma^2) *)
Theorem lognormal_variance_from_moments : forall loc scale,
  lognormal_variance RN loc scale = Rexp (2 * loc + 2 * (scale * scale)) - (lognormal_mean RN loc scale) ^ 2.
Proof.
  intros loc scale. dist_unfold.
  replace (Rexp (2 * loc + 2 * (scale * scale))) with (Rexp (scale * scale) * Rexp ((1 + 1) * loc + scale * scale))
    by (rewrite <- exp_plus; f_equal; ring).
  replace (Rexp (loc + scale * scale / (1 + 1)) ^ 2) with (Rexp ((1 + 1) * loc + scale * scale)).
  - ring.
  - simpl. rewrite Rmult_1_r, <- exp_plus. f_equal. field.
Qed.

(* limits: at +infinity and at 0+ (the support is (0, inf)) *)
Theorem lognormal_cdf_limits : forall (erf : R -> R) loc' scale (Lp Lm : R), 0 < scale ->
  is_lim erf p_infty Lp -> is_lim erf m_infty Lm ->
  is_lim (fun x => normal_cdf RN erf (Rln x) loc' scale) p_infty (/ 2 * (1 + Lp)) /\
  filterlim (fun x => normal_cdf RN erf (Rln x) loc' scale) (at_right 0) (locally (/ 2 * (1 + Lm))).
Proof.
  intros erf loc' scale Lp Lm Hs Hp Hm.
  destruct (normal_cdf_limits erf loc' scale Lp Lm Hs Hp Hm) as [L1 L2].
  split.
  - apply (is_lim_comp (fun u => normal_cdf RN erf u loc' scale) Rln p_infty (/ 2 * (1 + Lp)) p_infty L1 is_lim_ln_p).
    exists 0. intros y _. discriminate.
  - exact (filterlim_comp _ _ _ Rln (fun u => normal_cdf RN erf u loc' scale) _ _ _ is_lim_ln_0 L2).
Qed.

(* total mass one and the stated mean / second moment, as limits of the antiderivatives, when erf(+-inf) = +-1 *)
Theorem lognormal_mass_and_moments : forall (erf : R -> R) loc scale, 0 < scale ->
  is_lim erf p_infty 1 -> is_lim erf m_infty (-1) ->
  (is_lim (fun x => lognormal_cdf RN erf x loc scale) p_infty 1 /\
   filterlim (fun x => lognormal_cdf RN erf x loc scale) (at_right 0) (locally 0)) /\
  (is_lim (fun x => lognormal_mean RN loc scale * normal_cdf RN erf (Rln x) (loc + scale * scale) scale) p_infty
          (lognormal_mean RN loc scale) /\
   filterlim (fun x => lognormal_mean RN loc scale * normal_cdf RN erf (Rln x) (loc + scale * scale) scale)
             (at_right 0) (locally 0)) /\
  (is_lim (fun x => Rexp (2 * loc + 2 * (scale * scale)) * normal_cdf RN erf (Rln x) (loc + 2 * (scale * scale)) scale)
          p_infty (Rexp (2 * loc + 2 * (scale * scale))) /\
   filterlim (fun x => Rexp (2 * loc + 2 * (scale * scale)) * normal_cdf RN erf (Rln x) (loc + 2 * (scale * scale)) scale)
             (at_right 0) (locally 0)).
Proof.
  intros erf loc scale Hs Hp Hm.
  assert (G : forall loc' (k : R),
            is_lim (fun x => k * normal_cdf RN erf (Rln x) loc' scale) p_infty k /\
            filterlim (fun x => k * normal_cdf RN erf (Rln x) loc' scale) (at_right 0) (locally 0)).
  { intros loc' k. destruct (lognormal_cdf_limits erf loc' scale 1 (-1) Hs Hp Hm) as [L1 L2].
    replace (/ 2 * (1 + 1)) with 1 in L1 by field. replace (/ 2 * (1 + -1)) with 0 in L2 by field.
    split.
    - pose proof (is_lim_scal_l _ k p_infty 1 L1) as H. simpl in H. rewrite Rmult_1_r in H. exact H.
    - pose proof (filterlim_comp _ _ _ (fun x => normal_cdf RN erf (Rln x) loc' scale) (fun z : R => scal k z)
                    _ _ _ L2 (filterlim_scal_r k 0)) as H1.
      match type of H1 with filterlim _ _ (locally ?z) => replace z with (0 : R) in H1 end.
      + exact H1.
      + unfold scal; simpl; unfold mult; simpl; ring. }
  split; [|split].
  - destruct (G loc 1) as [A B]. split.
    + eapply is_lim_ext; [|exact A]. intros y. unfold lognormal_cdf. rn_simpl. ring.
    + eapply filterlim_ext; [|exact B]. intros y. unfold lognormal_cdf. rn_simpl. ring.
  - apply G.
  - apply G.
Qed.

(* ================================================================== Poisson at the boundary rate = 0 *)
(* Poisson.validate accepts rate = 0 (the point mass at 0).  There log(rate) = -inf, which the real-number reading
   cannot express; poisson_logpmf_ext / poisson_pmf_ext carry that infinity explicitly (None = -inf). *)
Theorem poisson_ext_agrees : forall k rate, rate <> 0 ->
  poisson_logpmf_ext RN k rate = Some (poisson_logpmf RN k rate) /\
  poisson_pmf_ext RN k rate = poisson_pmf RN k rate.
Proof.
  intros k rate Hr. unfold poisson_pmf_ext, poisson_logpmf_ext, poisson_pmf. rn_simpl.
  destruct (Reqb'_spec rate 0) as [E | E]; [contradiction|]. cbn [andb]. split; reflexivity.
Qed.

Lemma is_series_zero : is_series (fun _ : nat => 0) 0.
Proof.
  pose proof (is_series_scal_l 0 _ _ (poisson_pmf_sums_to_one 1 Rlt_0_1)) as H.
  match type of H with is_series _ ?l => replace l with (0 : R) in H end.
  - eapply is_series_ext; [|exact H]. intros n. cbv beta. rsimp. ring.
  - rsimp. ring.
Qed.

Lemma is_series_single0 : forall a : nat -> R, (forall k, a (S k) = 0) -> is_series a (a 0%nat).
Proof.
  intros a Ha. apply is_series_decr_1.
  match goal with |- is_series _ ?l => replace l with (0 : R) end.
  - eapply is_series_ext; [|exact is_series_zero]. intros n. cbv beta. symmetry. apply Ha.
  - rsimp. ring.
Qed.

Lemma poisson_pmf_ext_zero : forall k, poisson_pmf_ext RN k 0 = if Nat.eqb k 0 then 1 else 0.
Proof.
  intros k. unfold poisson_pmf_ext, poisson_logpmf_ext. rn_simpl.
  destruct (Reqb'_spec 0 0) as [_ | E]; [|contradiction]. destruct k as [|k]; cbn [Nat.eqb negb andb]; [|reflexivity].
  unfold poisson_logpmf, lgamma1, xlogy. rn_simpl. cbn [Z.of_nat factZ].
  destruct (Reqb'_spec 0 0) as [_ | E]; [|contradiction].
  rewrite ln_1. replace (0 - 0 - 0) with 0 by ring. apply exp_0.
Qed.

Lemma gammaincc_nat_zero : forall n, gammaincc_nat RN (S n) 0 = 1.
Proof.
  intros n. unfold gammaincc_nat. rn_simpl. rewrite Ropp_0, exp_0, Rmult_1_l.
  change (seq 0 (S n)) with (0%nat :: seq 1 n). cbn [map tsum pown factZ]. rn_simpl.
  assert (Z : forall m s, tsum RN (map (fun j => pown RN 0 j / IZR (factZ j)) (seq (S s) m)) = 0).
  { induction m as [|m IH]; intros s; [reflexivity|]. cbn [seq map tsum pown]. rn_simpl. rewrite IH.
    unfold Rdiv. rewrite !Rmult_0_l. apply Rplus_0_r. }
  rewrite (Z n 0%nat). change (IZR 1) with 1. field.
Qed.

Theorem poisson_rate_zero_point_mass :
  (forall k, poisson_pmf_ext RN k 0 = if Nat.eqb k 0 then 1 else 0) /\
  (forall k, poisson_logpmf_ext RN k 0 = None <-> k <> 0%nat) /\
  (forall s, 0 <= s -> poisson_cdf RN s 0 = 1 /\ poisson_logcdf RN s 0 = 0 /\
                       poisson_cdf RN s 0 = sum_n (fun j => poisson_pmf_ext RN j 0) (Z.to_nat (Zfloor s))) /\
  is_series (fun k => poisson_pmf_ext RN k 0) 1 /\
  is_series (fun k => INR k * poisson_pmf_ext RN k 0) (poisson_mean RN 0) /\
  is_series (fun k => (INR k - poisson_mean RN 0) ^ 2 * poisson_pmf_ext RN k 0) (poisson_variance RN 0).
Proof.
  split; [exact poisson_pmf_ext_zero|]. split; [|split; [|split; [|split]]].
  - intros k. unfold poisson_logpmf_ext. rn_simpl. destruct (Reqb'_spec 0 0) as [_ | E]; [|contradiction].
    destruct k as [|k]; cbn [Nat.eqb negb andb]; split; intros H; try discriminate; try reflexivity; congruence.
  - intros s Hs.
    assert (Hf : (0 <= Zfloor s)%Z) by (apply Zfloor_lub; assumption).
    assert (Ea : Zfloor (s + 1) = (Zfloor s + 1)%Z).
    { apply Zfloor_imp. rewrite !plus_IZR. pose proof (Zfloor_lb s). pose proof (Zfloor_ub s). lra. }
    assert (C1 : poisson_cdf RN s 0 = 1).
    { unfold poisson_cdf. rn_simpl. rewrite Ea, Z2Nat.inj_add by lia. change (Z.to_nat 1) with 1%nat.
      rewrite Nat.add_1_r. apply gammaincc_nat_zero. }
    split; [exact C1|]. split.
    + unfold poisson_logcdf. rn_simpl. rewrite C1. apply ln_1.
    + rewrite C1. generalize (Z.to_nat (Zfloor s)). intros n. induction n as [|n IH].
      * rewrite sum_O, poisson_pmf_ext_zero. reflexivity.
      * rewrite sum_Sn, <- IH, poisson_pmf_ext_zero. rsimp. cbn [Nat.eqb]. ring.
  - pose proof (is_series_single0 (fun k => poisson_pmf_ext RN k 0)) as H. cbv beta in H.
    rewrite (poisson_pmf_ext_zero 0) in H. cbn [Nat.eqb] in H. apply H. intros k. apply poisson_pmf_ext_zero.
  - unfold poisson_mean.
    pose proof (is_series_single0 (fun k => INR k * poisson_pmf_ext RN k 0)) as H. cbv beta in H.
    replace (INR 0 * poisson_pmf_ext RN 0 0) with 0 in H by (cbn [INR]; ring). apply H.
    intros k. rewrite poisson_pmf_ext_zero. cbn [Nat.eqb]. ring.
  - unfold poisson_mean, poisson_variance.
    pose proof (is_series_single0 (fun k => (INR k - 0) ^ 2 * poisson_pmf_ext RN k 0)) as H. cbv beta in H.
    replace ((INR 0 - 0) ^ 2 * poisson_pmf_ext RN 0 0) with 0 in H by (cbn [INR]; ring). apply H.
    intros k. rewrite poisson_pmf_ext_zero. cbn [Nat.eqb]. ring.
Qed.
