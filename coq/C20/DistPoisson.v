(* C20 - inferno.stats, Poisson: laws of the GENERATED formulas (Gen/Distributions.v); see DistNormal.v for conventions. *)
From Coq Require Import Reals Lra Lia List ZArith Bool.
From Coquelicot Require Import Coquelicot.
From Flocq Require Import Core.Raux.
From Inferno Require Import Base.Num Base.NumR Gen.Distributions C20.Model C20.Spec.
Import ListNotations.
Open Scope R_scope.

Local Notation Rexp := Rtrigo_def.exp.
Local Notation Rln := Rpower.ln.
Local Notation Rsqrt := R_sqrt.sqrt.

(* guard: names of the special-function parameters of the generated formulas (see DistNormal.v) *)
Arguments poisson_logpmf N lgamma support rate : assert.
Arguments poisson_pmf N lgamma support rate : assert.
Arguments poisson_cdf N gammaincc support rate : assert.
Arguments poisson_logcdf N gammaincc support rate : assert.
Arguments poisson_mean N rate : assert.
Arguments poisson_variance N rate : assert.

(* ================================================================== Poisson *)
Ltac rfix := try match goal with |- @eq _ ?a ?b => change (@eq R a b) end.
(* Coquelicot's structure operations on R, back to the field operations (syntactic, by conversion) *)
Ltac rsimp := repeat match goal with
  | |- context [@scal _ _ ?a ?b] => change (@scal _ _ a b) with (Rmult a b)
  | |- context [@plus _ ?a ?b] => change (@plus _ a b) with (Rplus a b)
  | |- context [@Hierarchy.opp _ ?a] => change (@Hierarchy.opp _ a) with (Ropp a)
  end; try match goal with |- @eq _ ?a ?b => change (@eq R a b) end.

Lemma IZR_factZ : forall k, IZR (factZ k) = INR (fact k).
Proof.
  induction k as [|k IH]; [reflexivity|].
  change (factZ (S k)) with (Z.of_nat (S k) * factZ k)%Z. change (fact (S k)) with (S k * fact k)%nat.
  rewrite mult_IZR, mult_INR, IH, <- INR_IZR_INZ. reflexivity.
Qed.

Lemma exp_INR_ln : forall k x, 0 < x -> Rexp (INR k * Rln x) = x ^ k.
Proof.
  intros k x Hx. induction k as [|k IH]; [cbn; rewrite Rmult_0_l; apply exp_0|].
  rewrite S_INR, Rmult_plus_distr_r, Rmult_1_l, exp_plus, IH, exp_ln by assumption. cbn [Rpow_def.pow]. ring.
Qed.

(* the generated log-mass at an integer count, for any lgamma with lgamma(k+1) = ln k! *)
Lemma poisson_logpmf_nat : forall (lg : R -> R) k rate, lgamma_spec lg ->
  poisson_logpmf RN lg (INR k) rate = INR k * Rln rate - rate - Rln (INR (fact k)).
Proof.
  intros lg k rate Hlg. unfold poisson_logpmf. rn_simpl. cbv zeta. rewrite (Hlg k).
  destruct (Reqb'_spec (INR k) 0) as [E | E]; [rewrite E; ring | reflexivity].
Qed.

(* the mass function the code computes, exp(xlogy(k, rate) - rate - lgamma(k+1)), is rate^k e^-rate / k! *)
Theorem poisson_pmf_closed_form : forall (lg : R -> R) k rate, lgamma_spec lg -> 0 < rate ->
  poisson_pmf RN lg (INR k) rate = Rexp (poisson_logpmf RN lg (INR k) rate) /\
  poisson_pmf RN lg (INR k) rate = rate ^ k / INR (fact k) * Rexp (- rate).
Proof.
  intros lg k rate Hlg Hr. split; [reflexivity|].
  unfold poisson_pmf. rn_simpl. rewrite poisson_logpmf_nat by assumption.
  assert (Hf : 0 < INR (fact k)) by (apply lt_0_INR, lt_O_fact).
  replace (INR k * Rln rate - rate - Rln (INR (fact k))) with (INR k * Rln rate + (- rate + - Rln (INR (fact k)))) by ring.
  rewrite !exp_plus, exp_INR_ln, (exp_Ropp (Rln _)), exp_ln by assumption. field. lra.
Qed.

Lemma poisson_pmf_pos : forall (lg : R -> R) s rate, 0 < poisson_pmf RN lg s rate.
Proof. intros; unfold poisson_pmf; rn_simpl; apply exp_pos. Qed.

Lemma poisson_pmf_S : forall (lg : R -> R) k rate, lgamma_spec lg -> 0 < rate ->
  INR (S k) * poisson_pmf RN lg (INR (S k)) rate = rate * poisson_pmf RN lg (INR k) rate.
Proof.
  intros lg k rate Hlg Hr.
  destruct (poisson_pmf_closed_form lg (S k) rate Hlg Hr) as [_ ->].
  destruct (poisson_pmf_closed_form lg k rate Hlg Hr) as [_ ->].
  change (fact (S k)) with (S k * fact k)%nat. rewrite mult_INR. cbn [Rpow_def.pow].
  assert (0 < INR (fact k)) by (apply lt_0_INR, lt_O_fact). assert (0 < INR (S k)) by (apply lt_0_INR; lia).
  field. split; lra.
Qed.

(* the mass function sums to one: a convergent series, for every rate > 0 *)
Theorem poisson_pmf_sums_to_one : forall (lg : R -> R) rate, lgamma_spec lg -> 0 < rate ->
  is_series (fun k => poisson_pmf RN lg (INR k) rate) 1.
Proof.
  intros lg rate Hlg Hr.
  pose proof (is_exp_Reals rate) as He. unfold is_pseries in He.
  pose proof (is_series_scal_r (Rexp (- rate)) _ _ He) as Hs.
  replace (Rexp rate * Rexp (- rate)) with 1 in Hs by (rewrite <- exp_plus, Rplus_opp_r, exp_0; reflexivity).
  eapply is_series_ext; [|exact Hs]. intros n. cbv beta.
  destruct (poisson_pmf_closed_form lg n rate Hlg Hr) as [_ ->].
  rsimp. rewrite <- (pow_n_pow rate n). reflexivity.
Qed.

(* the stated mean (= rate) is the first moment of the mass function *)
Theorem poisson_mean_matches_pmf : forall (lg : R -> R) rate, lgamma_spec lg -> 0 < rate ->
  is_series (fun k => INR k * poisson_pmf RN lg (INR k) rate) (poisson_mean RN rate).
Proof.
  intros lg rate Hlg Hr. unfold poisson_mean. cbv zeta.
  apply is_series_decr_1.
  match goal with |- is_series _ ?l => replace l with (scal rate 1) end.
  2:{ rsimp. cbn [INR]. ring. }
  eapply is_series_ext; [| apply (is_series_scal_l rate _ _ (poisson_pmf_sums_to_one lg rate Hlg Hr))].
  intros n. cbv beta. rewrite poisson_pmf_S by assumption. reflexivity.
Qed.

Lemma poisson_second_factorial_moment : forall (lg : R -> R) rate, lgamma_spec lg -> 0 < rate ->
  is_series (fun k => INR k * (INR k - 1) * poisson_pmf RN lg (INR k) rate) (rate * rate).
Proof.
  intros lg rate Hlg Hr.
  apply is_series_decr_1.
  match goal with |- is_series _ ?l => replace l with (scal rate rate) end.
  2:{ rsimp. cbn [INR]. ring. }
  pose proof (poisson_mean_matches_pmf lg rate Hlg Hr) as Hm. unfold poisson_mean in Hm. cbv zeta in Hm.
  eapply is_series_ext; [| apply (is_series_scal_l rate _ _ Hm)].
  intros n. cbv beta. rsimp.
  transitivity (INR n * (INR (S n) * poisson_pmf RN lg (INR (S n)) rate)); [rewrite poisson_pmf_S by assumption; ring | rewrite S_INR; ring].
Qed.

(* the stated variance (= rate) is the second central moment of the mass function *)
Theorem poisson_variance_matches_pmf : forall (lg : R -> R) rate, lgamma_spec lg -> 0 < rate ->
  is_series (fun k => (INR k - poisson_mean RN rate) ^ 2 * poisson_pmf RN lg (INR k) rate) (poisson_variance RN rate).
Proof.
  intros lg rate Hlg Hr.
  pose proof (poisson_second_factorial_moment lg rate Hlg Hr) as H2.
  pose proof (poisson_mean_matches_pmf lg rate Hlg Hr) as Hm.
  unfold poisson_mean, poisson_variance in *. cbv zeta in *.
  pose proof (is_series_scal_l (1 - 2 * rate) _ _ Hm) as H1.
  pose proof (is_series_scal_l (rate * rate) _ _ (poisson_pmf_sums_to_one lg rate Hlg Hr)) as H0.
  pose proof (is_series_plus _ _ _ _ (is_series_plus _ _ _ _ H2 H1) H0) as H.
  match type of H with is_series _ ?l => replace l with rate in H end.
  2:{ rsimp. ring. }
  eapply is_series_ext; [|exact H]. intros n. cbv beta.
  rsimp. ring.
Qed.

(* ---- cdf ---- *)
Lemma sum_n_scal_R : forall (c : R) (u : nat -> R) n, c * sum_n u n = sum_n (fun j => c * u j) n.
Proof.
  intros c u n. induction n as [|n IH]; [rewrite !sum_O; reflexivity|].
  rewrite !sum_Sn, <- IH. rsimp. ring.
Qed.

Lemma floor_succ : forall s, 0 <= s -> IZR (Zfloor (s + 1)) = INR (S (Z.to_nat (Zfloor s))).
Proof.
  intros s Hs.
  assert (Hf : (0 <= Zfloor s)%Z) by (apply Zfloor_lub; assumption).
  assert (Ea : Zfloor (s + 1) = (Zfloor s + 1)%Z).
  { apply Zfloor_imp. rewrite !plus_IZR. pose proof (Zfloor_lb s). pose proof (Zfloor_ub s). lra. }
  rewrite Ea, S_INR, INR_IZR_INZ, Z2Nat.id, plus_IZR by assumption. reflexivity.
Qed.

(* cdf(s) = gammaincc(floor(s + 1), rate) is the partial sum of the mass function up to floor(s): "the mass function
   sums to the cdf" - for every real support s >= 0 and every gammaincc with the integer-argument closed form *)
Theorem poisson_cdf_is_partial_sum : forall (lg : R -> R) (g : R -> R -> R) support rate,
  lgamma_spec lg -> gammaincc_spec g -> 0 < rate -> 0 <= support ->
  poisson_cdf RN g support rate = sum_n (fun j => poisson_pmf RN lg (INR j) rate) (Z.to_nat (Zfloor support)).
Proof.
  intros lg g s rate Hlg Hg Hr Hs. unfold poisson_cdf. rn_simpl. rewrite floor_succ by assumption. rewrite Hg.
  rewrite sum_n_scal_R. apply sum_n_ext. intros j.
  destruct (poisson_pmf_closed_form lg j rate Hlg Hr) as [_ E]. rewrite E. rfix. unfold Rdiv; ring.
Qed.

Theorem poisson_cdf_tends_to_one : forall (lg : R -> R) (g : R -> R -> R) rate,
  lgamma_spec lg -> gammaincc_spec g -> 0 < rate ->
  is_lim_seq (fun n => poisson_cdf RN g (INR n) rate) 1.
Proof.
  intros lg g rate Hlg Hg Hr.
  apply is_lim_seq_ext with (u := sum_n (fun j => poisson_pmf RN lg (INR j) rate)).
  - intros n. rewrite (poisson_cdf_is_partial_sum lg) by (auto; apply pos_INR).
    rewrite INR_IZR_INZ, Zfloor_IZR, Nat2Z.id. reflexivity.
  - exact (poisson_pmf_sums_to_one lg rate Hlg Hr).
Qed.

Theorem poisson_cdf_range_monotone : forall (lg : R -> R) (g : R -> R -> R) rate s1 s2,
  lgamma_spec lg -> gammaincc_spec g -> 0 < rate -> 0 <= s1 <= s2 ->
  0 < poisson_cdf RN g s1 rate <= poisson_cdf RN g s2 rate.
Proof.
  intros lg g rate s1 s2 Hlg Hg Hr [H1 H2].
  rewrite !(poisson_cdf_is_partial_sum lg) by (auto; lra).
  assert (Hle : (Z.to_nat (Zfloor s1) <= Z.to_nat (Zfloor s2))%nat).
  { apply Z2Nat.inj_le; [apply Zfloor_lub; lra | apply Zfloor_lub; lra | apply Zfloor_le; assumption]. }
  assert (Hpos : forall n, 0 < sum_n (fun j => poisson_pmf RN lg (INR j) rate) n).
  { induction n as [|n IH]; [rewrite sum_O; apply poisson_pmf_pos|].
    rewrite sum_Sn. rsimp. pose proof (poisson_pmf_pos lg (INR (S n)) rate). lra. }
  split; [apply Hpos|].
  induction Hle as [|m Hm IH]; [lra|]. rewrite sum_Sn. rsimp.
  pose proof (poisson_pmf_pos lg (INR (S m)) rate). lra.
Qed.

(* log-cdf = log(cdf), and exp(log-cdf) = cdf *)
Theorem poisson_logcdf_eq_log_cdf : forall (lg : R -> R) (g : R -> R -> R) support rate,
  lgamma_spec lg -> gammaincc_spec g -> 0 < rate -> 0 <= support ->
  poisson_logcdf RN g support rate = Rln (poisson_cdf RN g support rate) /\
  Rexp (poisson_logcdf RN g support rate) = poisson_cdf RN g support rate.
Proof.
  intros lg g s rate Hlg Hg Hr Hs. split; [reflexivity|]. unfold poisson_logcdf. rn_simpl. apply exp_ln.
  apply (poisson_cdf_range_monotone lg g rate s s); auto; lra.
Qed.

(* ================================================================== Poisson at the boundary rate = 0 *)
(* Poisson.validate accepts rate = 0 (the point mass at 0).  There log(rate) = -inf, which the real-number reading
   cannot express; Model.poisson_logpmf_ext / poisson_pmf_ext (the generated poisson_logpmf at an integer count, with
   that infinity carried explicitly, None = -inf) are what the theorems below are about. *)
Theorem poisson_ext_agrees : forall (lg : R -> R) k rate, rate <> 0 ->
  poisson_logpmf_ext RN lg k rate = Some (poisson_logpmf RN lg (INR k) rate) /\
  poisson_pmf_ext RN lg k rate = poisson_pmf RN lg (INR k) rate.
Proof.
  intros lg k rate Hr. unfold poisson_pmf_ext, poisson_logpmf_ext, poisson_pmf. rn_simpl. rewrite <- INR_IZR_INZ.
  destruct (Reqb'_spec rate 0) as [E | E]; [contradiction|]. cbn [andb]. split; reflexivity.
Qed.

Lemma is_series_zero : is_series (fun _ : nat => 0) 0.
Proof.
  pose proof (is_series_scal_l 0 _ _ (is_exp_Reals 0)) as H. unfold is_pseries in H.
  match type of H with is_series _ ?l => replace l with (0 : R) in H end.
  - eapply is_series_ext; [|exact H]. intros n. cbv beta. rsimp. ring.
  - rsimp. ring.
Qed.

Lemma is_series_single0 : forall a : nat -> R, (forall k, a (S k) = 0) -> is_series a (a 0%nat).
Proof.
  intros a Ha. apply is_series_decr_1.
  match goal with |- is_series _ ?l => replace l with (0 : R) end.
  - eapply is_series_ext; [|exact is_series_zero]. intros n. cbv beta. symmetry. apply Ha.
  - rsimp. ring.
Qed.

Lemma poisson_pmf_ext_zero : forall (lg : R -> R) k, lgamma_spec lg ->
  poisson_pmf_ext RN lg k 0 = if Nat.eqb k 0 then 1 else 0.
Proof.
  intros lg k Hlg. unfold poisson_pmf_ext, poisson_logpmf_ext. rn_simpl.
  destruct (Reqb'_spec 0 0) as [_ | E]; [|contradiction]. destruct k as [|k]; cbn [Nat.eqb negb andb]; [|reflexivity].
  change (IZR (Z.of_nat 0)) with (INR 0). rewrite poisson_logpmf_nat by assumption. cbn [INR fact].
  rewrite ln_1. replace (0 * Rln 0 - 0 - 0) with 0 by ring. apply exp_0.
Qed.

Lemma gammaincc_zero : forall (g : R -> R -> R) n, gammaincc_spec g -> g (INR (S n)) 0 = 1.
Proof.
  intros g n Hg. rewrite Hg, Ropp_0, exp_0, Rmult_1_l.
  induction n as [|n IH]; [rewrite sum_O; cbn; field|].
  rewrite sum_Sn, IH. rsimp. cbn [Rpow_def.pow]. unfold Rdiv. rewrite !Rmult_0_l. ring.
Qed.

Theorem poisson_rate_zero_point_mass : forall (lg : R -> R) (g : R -> R -> R), lgamma_spec lg -> gammaincc_spec g ->
  (forall k, poisson_pmf_ext RN lg k 0 = if Nat.eqb k 0 then 1 else 0) /\
  (forall k, poisson_logpmf_ext RN lg k 0 = None <-> k <> 0%nat) /\
  (forall s, 0 <= s -> poisson_cdf RN g s 0 = 1 /\ poisson_logcdf RN g s 0 = 0 /\
                       poisson_cdf RN g s 0 = sum_n (fun j => poisson_pmf_ext RN lg j 0) (Z.to_nat (Zfloor s))) /\
  is_series (fun k => poisson_pmf_ext RN lg k 0) 1 /\
  is_series (fun k => INR k * poisson_pmf_ext RN lg k 0) (poisson_mean RN 0) /\
  is_series (fun k => (INR k - poisson_mean RN 0) ^ 2 * poisson_pmf_ext RN lg k 0) (poisson_variance RN 0).
Proof.
  intros lg g Hlg Hg.
  pose proof (fun k => poisson_pmf_ext_zero lg k Hlg) as PZ.
  split; [exact PZ|]. split; [|split; [|split; [|split]]].
  - intros k. unfold poisson_logpmf_ext. rn_simpl. destruct (Reqb'_spec 0 0) as [_ | E]; [|contradiction].
    destruct k as [|k]; cbn [Nat.eqb negb andb]; split; intros H; try discriminate; try reflexivity; congruence.
  - intros s Hs.
    assert (C1 : poisson_cdf RN g s 0 = 1).
    { unfold poisson_cdf. rn_simpl. rewrite floor_succ by assumption. apply gammaincc_zero; assumption. }
    split; [exact C1|]. split.
    + unfold poisson_logcdf. rn_simpl. rewrite C1. apply ln_1.
    + rewrite C1. generalize (Z.to_nat (Zfloor s)). intros n. induction n as [|n IH].
      * rewrite sum_O, PZ. reflexivity.
      * rewrite sum_Sn, <- IH, PZ. rsimp. cbn [Nat.eqb]. ring.
  - pose proof (is_series_single0 (fun k => poisson_pmf_ext RN lg k 0)) as H. cbv beta in H.
    rewrite (PZ 0%nat) in H. cbn [Nat.eqb] in H. apply H. intros k. apply PZ.
  - unfold poisson_mean. cbv zeta.
    pose proof (is_series_single0 (fun k => INR k * poisson_pmf_ext RN lg k 0)) as H. cbv beta in H.
    replace (INR 0 * poisson_pmf_ext RN lg 0 0) with 0 in H by (cbn [INR]; ring). apply H.
    intros k. rewrite PZ. cbn [Nat.eqb]. ring.
  - unfold poisson_mean, poisson_variance. cbv zeta.
    pose proof (is_series_single0 (fun k => (INR k - 0) ^ 2 * poisson_pmf_ext RN lg k 0)) as H. cbv beta in H.
    replace ((INR 0 - 0) ^ 2 * poisson_pmf_ext RN lg 0 0) with 0 in H by (cbn [INR]; ring). apply H.
    intros k. rewrite PZ. cbn [Nat.eqb]. ring.
Qed.

