(* C05 - tie of the model (C05/Conn.v, C05/ConnPatterns.v) to the definitions GENERATED from class LinearLateral
   (Gen/ConnectionClasses.v, re-translated from inferno/neural/connections on every run).  The methods are emitted as abstract
   syntax (which attribute decides the branch, which synapse accessor is read, which operator is applied to which operands,
   which einops pattern); every statement below is an equality between the generated term and the structure the model
   implements, written with the model's pattern constants, so an edit of the method in the source changes the generated term and
   stops this file compiling. *)
From Coq Require Import List ZArith Bool String Arith.
From Inferno Require Import Base.Num Gen.ConnectionClasses C05.Conn C05.ConnPatterns.
Import ListNotations.
Open Scope string_scope.

(* pin the generated parameter names *)
Arguments LinearLateral_mask N i j : assert.
Arguments LinearLateral_weight_set N value self_mask : assert.
Arguments LinearLateral_delay_set N value self_mask : assert.

Theorem tie_LinearLateral_inshape :
  LinearLateral_inshape_patterns = [] /\
  LinearLateral_inshape_params = [] /\ LinearLateral_inshape_is_property = true /\
  LinearLateral_inshape =
    [SReturn (ASelf "shape")].
Proof. repeat split; reflexivity. Qed.

Theorem tie_LinearLateral_outshape :
  LinearLateral_outshape_patterns = [] /\
  LinearLateral_outshape_params = [] /\ LinearLateral_outshape_is_property = true /\
  LinearLateral_outshape =
    [SReturn (ASelf "shape")].
Proof. repeat split; reflexivity. Qed.

Theorem tie_LinearLateral_selector :
  LinearLateral_selector_patterns = [] /\
  LinearLateral_selector_params = [] /\ LinearLateral_selector_is_property = true /\
  LinearLateral_selector =
    [SReturn (AMeth (AAttr (AVar "LinearDense") "selector") "fget" [(AVar "self")])].
Proof. repeat split; reflexivity. Qed.

Theorem tie_LinearLateral_like_bias :
  LinearLateral_like_bias_patterns = [pat_LinearLateral_like_bias] /\
  LinearLateral_like_bias_params = ["data"] /\ LinearLateral_like_bias_is_property = false /\
  LinearLateral_like_bias =
    [SReturn (ACall "ein.rearrange" [(AVar "data"); (AStr pat_LinearLateral_like_bias)])].
Proof. repeat split; reflexivity. Qed.

Theorem tie_LinearLateral_like_input :
  LinearLateral_like_input_patterns = [] /\
  LinearLateral_like_input_params = ["data"] /\ LinearLateral_like_input_is_property = false /\
  LinearLateral_like_input =
    [SReturn (AMeth (AVar "LinearDense") "like_input" [(AVar "self"); (AVar "data")])].
Proof. repeat split; reflexivity. Qed.

Theorem tie_LinearLateral_like_synaptic :
  LinearLateral_like_synaptic_patterns = [] /\
  LinearLateral_like_synaptic_params = ["data"] /\ LinearLateral_like_synaptic_is_property = false /\
  LinearLateral_like_synaptic =
    [SReturn (AMeth (AVar "LinearDense") "like_synaptic" [(AVar "self"); (AVar "data")])].
Proof. repeat split; reflexivity. Qed.

Theorem tie_LinearLateral_presyn_receptive :
  LinearLateral_presyn_receptive_patterns = [] /\
  LinearLateral_presyn_receptive_params = ["data"] /\ LinearLateral_presyn_receptive_is_property = false /\
  LinearLateral_presyn_receptive =
    [SReturn (AMeth (AVar "LinearDense") "presyn_receptive" [(AVar "self"); (AVar "data")])].
Proof. repeat split; reflexivity. Qed.

Theorem tie_LinearLateral_postsyn_receptive :
  LinearLateral_postsyn_receptive_patterns = [] /\
  LinearLateral_postsyn_receptive_params = ["data"] /\ LinearLateral_postsyn_receptive_is_property = false /\
  LinearLateral_postsyn_receptive =
    [SReturn (AMeth (AVar "LinearDense") "postsyn_receptive" [(AVar "self"); (AVar "data")])].
Proof. repeat split; reflexivity. Qed.

Theorem tie_LinearLateral_forward :
  LinearLateral_forward_patterns = [] /\
  LinearLateral_forward_params = ["*inputs"; "**kwargs"] /\ LinearLateral_forward_is_property = false /\
  LinearLateral_forward =
    [SReturn (AMeth (AVar "LinearDense") "forward" [(AVar "self"); (AStar (AVar "inputs")); (AKwStar (AVar "kwargs"))])].
Proof. repeat split; reflexivity. Qed.

Theorem tie_LinearLateral_constructor :
  LinearLateral_bases = ["WeightBiasDelayMixin"; "Connection"] /\
  LinearLateral_init_positional = ["shape"; "step_time"] /\
  LinearLateral_init_kwonly = ["synapse"; "bias"; "delay"; "batch_size"; "weight_init"; "bias_init"; "delay_init"] /\
  LinearLateral_default_bias = (ABool false) /\
  LinearLateral_default_delay = ANone /\
  LinearLateral_default_batch_size = (AInt (1)%Z) /\
  LinearLateral_default_weight_init = ANone /\
  LinearLateral_default_bias_init = ANone /\
  LinearLateral_default_delay_init = ANone.
Proof. repeat split; reflexivity. Qed.

(* the mask buffer 1 - torch.eye(size), entry by entry *)
Theorem tie_LinearLateral_mask : forall N i j, mask_el N i j = LinearLateral_mask N i j.
Proof. reflexivity. Qed.
(* the weight / delay setters: value * self.mask, entry by entry, handed to the plain mixin setter *)
Theorem tie_LinearLateral_weight_set : forall N (v : list (list (T N))),
  masked N v = mapi (fun i row => mapi (fun j a => LinearLateral_weight_set N a (LinearLateral_mask N i j)) row) v /\
  LinearLateral_mask_persistent = ABool false.
Proof. split; reflexivity. Qed.
Theorem tie_LinearLateral_delay_set : forall N (v : list (list (T N))),
  masked N v = mapi (fun i row => mapi (fun j a => LinearLateral_delay_set N a (LinearLateral_mask N i j)) row) v.
Proof. reflexivity. Qed.
Theorem tie_LinearLateral_getters :
  LinearLateral_weight_get = [SReturn (AMeth (AAttr (AVar "WeightBiasDelayMixin") "weight") "fget" [AVar "self"])] /\
  LinearLateral_delay_get = [SReturn (AMeth (AAttr (AVar "WeightBiasDelayMixin") "delay") "fget" [AVar "self"])].
Proof. split; reflexivity. Qed.
