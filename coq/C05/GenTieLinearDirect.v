(* C05 - tie of the model (C05/Conn.v, C05/ConnPatterns.v) to the definitions GENERATED from class LinearDirect
   (Gen/ConnectionClasses.v, re-translated from inferno/neural/connections on every run).  The methods are emitted as abstract
   syntax (which attribute decides the branch, which synapse accessor is read, which operator is applied to which operands,
   which einops pattern); every statement below is an equality between the generated term and the structure the model
   implements, written with the model's pattern constants, so an edit of the method in the source changes the generated term and
   stops this file compiling. *)
From Coq Require Import List ZArith Bool String Arith.
From Inferno Require Import Base.Num Gen.ConnectionClasses C05.Conn C05.ConnPatterns.
Import ListNotations.
Open Scope string_scope.

Theorem tie_LinearDirect_inshape :
  LinearDirect_inshape_patterns = [] /\
  LinearDirect_inshape_params = [] /\ LinearDirect_inshape_is_property = true /\
  LinearDirect_inshape =
    [SReturn (ASelf "shape")].
Proof. repeat split; reflexivity. Qed.

Theorem tie_LinearDirect_outshape :
  LinearDirect_outshape_patterns = [] /\
  LinearDirect_outshape_params = [] /\ LinearDirect_outshape_is_property = true /\
  LinearDirect_outshape =
    [SReturn (ASelf "shape")].
Proof. repeat split; reflexivity. Qed.

Theorem tie_LinearDirect_selector :
  LinearDirect_selector_patterns = [pat_LinearDirect_selector] /\
  LinearDirect_selector_params = [] /\ LinearDirect_selector_is_property = true /\
  LinearDirect_selector =
    [SIf (ACmp "is not" (ASelf "delayedby") ANone) [SAssign "delays" (ASelf "delay")] [SAssign "delays" (ACall "torch.zeros_like" [(ASelf "weight")])];
     SReturn (AMeth (ACall "ein.rearrange" [(AVar "delays"); (AStr pat_LinearDirect_selector)]) "expand" [(ASelf "batchsz"); (AInt (-1)%Z); (AInt (-1)%Z)])].
Proof. repeat split; reflexivity. Qed.

Theorem tie_LinearDirect_like_bias :
  LinearDirect_like_bias_patterns = [pat_LinearDirect_like_bias] /\
  LinearDirect_like_bias_params = ["data"] /\ LinearDirect_like_bias_is_property = false /\
  LinearDirect_like_bias =
    [SReturn (ACall "ein.rearrange" [(AVar "data"); (AStr pat_LinearDirect_like_bias)])].
Proof. repeat split; reflexivity. Qed.

Theorem tie_LinearDirect_like_input :
  LinearDirect_like_input_patterns = [] /\
  LinearDirect_like_input_params = ["data"] /\ LinearDirect_like_input_is_property = false /\
  LinearDirect_like_input =
    [SReturn (AMeth (AVar "data") "view" [(AInt (-1)%Z); (AStar (ASelf "inshape"))])].
Proof. repeat split; reflexivity. Qed.

Theorem tie_LinearDirect_like_synaptic :
  LinearDirect_like_synaptic_patterns = [pat_LinearDirect_like_synaptic] /\
  LinearDirect_like_synaptic_params = ["data"] /\ LinearDirect_like_synaptic_is_property = false /\
  LinearDirect_like_synaptic =
    [SReturn (ACall "ein.rearrange" [(AVar "data"); (AStr pat_LinearDirect_like_synaptic)])].
Proof. repeat split; reflexivity. Qed.

Theorem tie_LinearDirect_presyn_receptive :
  LinearDirect_presyn_receptive_patterns = [pat_LinearDirect_presyn_receptive] /\
  LinearDirect_presyn_receptive_params = ["data"] /\ LinearDirect_presyn_receptive_is_property = false /\
  LinearDirect_presyn_receptive =
    [SReturn (ACall "ein.rearrange" [(AVar "data"); (AStr pat_LinearDirect_presyn_receptive)])].
Proof. repeat split; reflexivity. Qed.

Theorem tie_LinearDirect_postsyn_receptive :
  LinearDirect_postsyn_receptive_patterns = [pat_LinearDirect_postsyn_receptive] /\
  LinearDirect_postsyn_receptive_params = ["data"] /\ LinearDirect_postsyn_receptive_is_property = false /\
  LinearDirect_postsyn_receptive =
    [SReturn (ACall "ein.rearrange" [(AVar "data"); (AStr pat_LinearDirect_postsyn_receptive)])].
Proof. repeat split; reflexivity. Qed.

Theorem tie_LinearDirect_forward :
  LinearDirect_forward_patterns = [pat_LinearDirect_forward] /\
  LinearDirect_forward_params = ["*inputs"; "**kwargs"] /\ LinearDirect_forward_is_property = false /\
  LinearDirect_forward =
    [SAssign "res" (AMeth (AVar "self") "synapse" [(AStar (AGen (AMeth (AVar "self") "like_synaptic" [(AVar "inp")]) "inp" (AVar "inputs"))); (AKwStar (AVar "kwargs"))]);
     SIf (ASelf "delayedby") [SAssign "res" (ACall "ein.rearrange" [(ASelf "syncurrent"); (AStr pat_LinearDirect_forward)])] [];
     SIf (ASelf "biased") [SAssign "res" (ABin "+" (ABin "*" (AVar "res") (ASelf "weight")) (ASelf "bias"))] [SAssign "res" (ABin "*" (AVar "res") (ASelf "weight"))];
     SReturn (AMeth (AVar "res") "view" [(AInt (-1)%Z); (AStar (ASelf "outshape"))])].
Proof. repeat split; reflexivity. Qed.

Theorem tie_LinearDirect_constructor :
  LinearDirect_bases = ["WeightBiasDelayMixin"; "Connection"] /\
  LinearDirect_init_positional = ["shape"; "step_time"] /\
  LinearDirect_init_kwonly = ["synapse"; "bias"; "delay"; "batch_size"; "weight_init"; "bias_init"; "delay_init"] /\
  LinearDirect_default_bias = (ABool false) /\
  LinearDirect_default_delay = ANone /\
  LinearDirect_default_batch_size = (AInt (1)%Z) /\
  LinearDirect_default_weight_init = ANone /\
  LinearDirect_default_bias_init = ANone /\
  LinearDirect_default_delay_init = ANone.
Proof. repeat split; reflexivity. Qed.

