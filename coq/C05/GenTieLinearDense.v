(* C05 - tie of the model (C05/Conn.v, C05/ConnPatterns.v) to the definitions GENERATED from class LinearDense
   (Gen/ConnectionClasses.v, re-translated from inferno/neural/connections on every run).  The methods are emitted as abstract
   syntax (which attribute decides the branch, which synapse accessor is read, which operator is applied to which operands,
   which einops pattern); every statement below is an equality between the generated term and the structure the model
   implements, written with the model's pattern constants, so an edit of the method in the source changes the generated term and
   stops this file compiling. *)
From Coq Require Import List ZArith Bool String Arith.
From Inferno Require Import Base.Num Gen.ConnectionClasses C05.Conn C05.ConnPatterns.
Import ListNotations.
Open Scope string_scope.

Theorem tie_LinearDense_inshape :
  LinearDense_inshape_patterns = [] /\
  LinearDense_inshape_params = [] /\ LinearDense_inshape_is_property = true /\
  LinearDense_inshape =
    [SReturn (ASelf "in_shape")].
Proof. repeat split; reflexivity. Qed.

Theorem tie_LinearDense_outshape :
  LinearDense_outshape_patterns = [] /\
  LinearDense_outshape_params = [] /\ LinearDense_outshape_is_property = true /\
  LinearDense_outshape =
    [SReturn (ASelf "out_shape")].
Proof. repeat split; reflexivity. Qed.

Theorem tie_LinearDense_selector :
  LinearDense_selector_patterns = [pat_LinearDense_selector] /\
  LinearDense_selector_params = [] /\ LinearDense_selector_is_property = true /\
  LinearDense_selector =
    [SIf (ACmp "is not" (ASelf "delayedby") ANone) [SAssign "delays" (ASelf "delay")] [SAssign "delays" (ACall "torch.zeros_like" [(ASelf "weight")])];
     SReturn (AMeth (ACall "ein.rearrange" [(AVar "delays"); (AStr pat_LinearDense_selector)]) "expand" [(ASelf "batchsz"); (AInt (-1)%Z); (AInt (-1)%Z)])].
Proof. repeat split; reflexivity. Qed.

Theorem tie_LinearDense_like_bias :
  LinearDense_like_bias_patterns = [pat_LinearDense_like_bias] /\
  LinearDense_like_bias_params = ["data"] /\ LinearDense_like_bias_is_property = false /\
  LinearDense_like_bias =
    [SReturn (ACall "ein.rearrange" [(AVar "data"); (AStr pat_LinearDense_like_bias)])].
Proof. repeat split; reflexivity. Qed.

Theorem tie_LinearDense_like_input :
  LinearDense_like_input_patterns = [] /\
  LinearDense_like_input_params = ["data"] /\ LinearDense_like_input_is_property = false /\
  LinearDense_like_input =
    [SReturn (AMeth (AVar "data") "view" [(AInt (-1)%Z); (AStar (ASelf "inshape"))])].
Proof. repeat split; reflexivity. Qed.

Theorem tie_LinearDense_like_synaptic :
  LinearDense_like_synaptic_patterns = [pat_LinearDense_like_synaptic] /\
  LinearDense_like_synaptic_params = ["data"] /\ LinearDense_like_synaptic_is_property = false /\
  LinearDense_like_synaptic =
    [SReturn (ACall "ein.rearrange" [(AVar "data"); (AStr pat_LinearDense_like_synaptic)])].
Proof. repeat split; reflexivity. Qed.

Theorem tie_LinearDense_presyn_receptive :
  LinearDense_presyn_receptive_patterns = [pat_LinearDense_presyn_receptive] /\
  LinearDense_presyn_receptive_params = ["data"] /\ LinearDense_presyn_receptive_is_property = false /\
  LinearDense_presyn_receptive =
    [SReturn (ACall "ein.rearrange" [(AVar "data"); (AStr pat_LinearDense_presyn_receptive)])].
Proof. repeat split; reflexivity. Qed.

Theorem tie_LinearDense_postsyn_receptive :
  LinearDense_postsyn_receptive_patterns = [pat_LinearDense_postsyn_receptive] /\
  LinearDense_postsyn_receptive_params = ["data"] /\ LinearDense_postsyn_receptive_is_property = false /\
  LinearDense_postsyn_receptive =
    [SReturn (ACall "ein.rearrange" [(AVar "data"); (AStr pat_LinearDense_postsyn_receptive)])].
Proof. repeat split; reflexivity. Qed.

Theorem tie_LinearDense_forward :
  LinearDense_forward_patterns = [pat_LinearDense_forward; pat_LinearDense_forward] /\
  LinearDense_forward_params = ["*inputs"; "**kwargs"] /\ LinearDense_forward_is_property = false /\
  LinearDense_forward =
    [SAssign "res" (AMeth (AVar "self") "synapse" [(AStar (AGen (AMeth (AVar "self") "like_synaptic" [(AVar "inp")]) "inp" (AVar "inputs"))); (AKwStar (AVar "kwargs"))]);
     SIf (ASelf "delayedby") [SAssign "res" (ASelf "syncurrent");
     SIf (ASelf "biased") [SAssign "res" (ABin "+" (ACall "ein.einsum" [(AVar "res"); (ASelf "weight"); (AStr pat_LinearDense_forward)]) (ASelf "bias"))] [SAssign "res" (ACall "ein.einsum" [(AVar "res"); (ASelf "weight"); (AStr pat_LinearDense_forward)])]] [SAssign "res" (ACall "F.linear" [(AVar "res"); (ASelf "weight"); (ASelf "bias")])];
     SReturn (AMeth (AVar "res") "view" [(AInt (-1)%Z); (AStar (ASelf "outshape"))])].
Proof. repeat split; reflexivity. Qed.

Theorem tie_LinearDense_constructor :
  LinearDense_bases = ["WeightBiasDelayMixin"; "Connection"] /\
  LinearDense_init_positional = ["in_shape"; "out_shape"; "step_time"] /\
  LinearDense_init_kwonly = ["synapse"; "bias"; "delay"; "batch_size"; "weight_init"; "bias_init"; "delay_init"] /\
  LinearDense_default_bias = (ABool false) /\
  LinearDense_default_delay = ANone /\
  LinearDense_default_batch_size = (AInt (1)%Z) /\
  LinearDense_default_weight_init = ANone /\
  LinearDense_default_bias_init = ANone /\
  LinearDense_default_delay_init = ANone.
Proof. repeat split; reflexivity. Qed.

