(* C05 - a SEMANTIC reading of the generated forward methods (Gen/ConnectionClasses.v) for the undelayed branch:
   a small evaluator gives each abstract operation its model meaning (self.synapse(...) = the synapse current,
   F.linear = Conn.linear, `*` / `+` against a vector = row-wise product / sum, .view = same data), resolves the two
   decisions of forward (`if self.delayedby`, `if self.biased`) and runs the GENERATED statement list.  The theorems say
   that what comes out is exactly the model's map (Conn.linear / Conn.direct_map), so the branch condition, the operator,
   the operand order and the presence of the bias term are tied to the model by evaluation, not by comparison of text. *)
From Coq Require Import List ZArith Bool String Arith.
From Inferno Require Import Base.Num Gen.ConnectionClasses C05.Conn.
Import ListNotations.
Open Scope string_scope.

Section Sem.
Variable N : Num.
Inductive val := VMat (m : list (list (T N))) | VVec (v : list (T N)) | VNone.
(* the state forward reads: synapse current (B x I), weight, bias, truthiness of self.delayedby *)
Record env := mkEnv { e_cur : list (list (T N)); e_w : val; e_b : option (list (T N)); e_delayed : bool }.
Variable E : env.

Definition opt_vec (v : val) : option (list (T N)) := match v with VVec x => Some x | _ => None end.

Fixpoint ev (res : val) (e : aexp) : option val :=
  match e with
  | AVar v => if v =? "res" then Some res else None
  | ASelf a => if a =? "weight" then Some (e_w E)
               else if a =? "bias" then Some (match e_b E with Some b => VVec b | None => VNone end)
               else None
  | AMeth (AVar s) m args =>
      if (s =? "self") && (m =? "synapse") then Some (VMat (e_cur E))       (* res = self.synapse(like_synaptic(inputs)) *)
      else if (s =? "res") && (m =? "view") then Some res                    (* .view: same row-major data *)
      else None
  | ACall f [x; w; b] =>
      if f =? "F.linear" then
        match ev res x, ev res w, ev res b with
        | Some (VMat xm), Some (VMat wm), Some bv => Some (VMat (linear N xm wm (opt_vec bv)))
        | _, _, _ => None
        end
      else None
  | ABin op a b =>
      match ev res a, ev res b with
      | Some (VMat xm), Some (VVec v) =>
          if op =? "*" then Some (VMat (map (fun xr => map2 (mul N) xr v) xm))
          else if op =? "+" then Some (VMat (map (fun xr => map2 (add N) xr v) xm))
          else None
      | _, _ => None
      end
  | _ => None
  end.

Fixpoint run (fuel : nat) (ss : list astmt) (res : val) : option val :=
  match fuel with
  | O => None
  | S k =>
      match ss with
      | [] => None
      | SAssign v e :: t => if v =? "res" then match ev res e with Some r => run k t r | None => None end else None
      | SIf (ASelf a) th el :: t =>
          if a =? "delayedby" then run k ((if e_delayed E then th else el) ++ t) res
          else if a =? "biased" then run k ((match e_b E with Some _ => th | None => el end) ++ t) res
          else None
      | SReturn e :: _ => ev res e
      | _ => None
      end
  end.
End Sem.

(* LinearDense.forward with a falsy self.delayedby (no delay parameter, or maximum delay 0): F.linear of the synapse
   current with the weight and the (possibly absent) bias = Conn.linear *)
Theorem sem_LinearDense_forward_undelayed : forall N cur W b,
  run N (mkEnv N cur (VMat N W) b false) 10 LinearDense_forward (VNone N) = Some (VMat N (linear N cur W b)).
Proof. intros. destruct b; reflexivity. Qed.
(* LinearLateral.forward delegates to LinearDense.forward (tie_LinearLateral_forward), i.e. the same map on its stored weight *)

(* LinearDirect.forward, undelayed: current * weight (+ bias) = Conn.direct_map *)
Theorem sem_LinearDirect_forward_undelayed : forall N cur w b,
  run N (mkEnv N cur (VVec N w) b false) 10 LinearDirect_forward (VNone N) = Some (VMat N (direct_map N cur w b)).
Proof.
  intros. destruct b; cbn -[map map2]; unfold direct_map; [rewrite map_map|]; reflexivity.
Qed.

(* ---------------------------------------------------------------- Conv2D.forward, undelayed branch *)
From Inferno Require Import C05.ConnPatterns.
Section SemConv.
Variable N : Num.
Variable g : geom.
Inductive cval :=
| CW4 (w : list (list (list (list (T N)))))           (* F x C x kH x kW *)
| CMat (m : list (list (T N)))
| CB3 (l : list (list (list (T N))))                  (* per batch element: a matrix *)
| CB4 (l : list (list (list (list (T N)))))           (* per batch element: F x Hout x Wout *)
| CBias (v : list (T N))                              (* "f -> 1 f 1 1" *)
| CVec (v : list (T N)) | CNone.
Record cenv := mkCEnv { c_cur : list (list (list (T N))); c_w4 : list (list (list (list (T N)))); c_bias : option (list (T N));
                        c_delayed : bool }.
Variable E : cenv.
Let ho := Z.to_nat (outH N g).
Let wo := Z.to_nat (outW N g).

(* locals: res, kernel *)
Fixpoint evc (res kernel : cval) (e : aexp) : option cval :=
  match e with
  | AVar v => if v =? "res" then Some res else if v =? "kernel" then Some kernel else None
  | ASelf a => if a =? "weight" then Some (CW4 (c_w4 E))
               else if a =? "bias" then Some (match c_bias E with Some b => CVec b | None => CNone end)
               else None
  | AMeth (AVar s) m _ => if (s =? "self") && (m =? "synapse") then Some (CB3 (c_cur E)) else None
  | ACall f (x :: y :: rest) =>
      if f =? "torch.matmul" then
        match evc res kernel x, evc res kernel y, rest with
        | Some (CMat k), Some (CB3 cs), [] => Some (CB3 (map (fun cur => matmul N k cur (ho * wo)) cs))
        | _, _, _ => None
        end
      else if f =? "ein.rearrange" then
        match evc res kernel x, y with
        | Some (CW4 w), AStr p => if p =? pat_Conv2D_forward_0 then Some (CMat (flatten_kernel N w)) else None
        | Some (CB3 l), AStr p =>
            (* "b f (oh ow) -> b f oh ow" with oh = self.outheight, ow = self.outwidth *)
            match rest with
            | [AKw k1 (ASelf a1); AKw k2 (ASelf a2)] =>
                if (p =? pat_Conv2D_forward_3) && (k1 =? "oh") && (a1 =? "outheight") && (k2 =? "ow") && (a2 =? "outwidth")
                then Some (CB4 (map (map (chunk wo ho)) l)) else None
            | _ => None
            end
        | Some (CVec v), AStr p => if p =? pat_Conv2D_forward_4 then Some (CBias v) else None
        | _, _ => None
        end
      else None
  | ABin op a b =>
      match evc res kernel a, evc res kernel b with
      | Some (CB4 l), Some (CBias bv) =>
          if op =? "+" then Some (CB4 (map (fun r => map2 (fun plane bf => map (map (fun a => add N a bf)) plane) r bv) l)) else None
      | _, _ => None
      end
  | _ => None
  end.

Fixpoint runc (fuel : nat) (ss : list astmt) (res kernel : cval) : option cval :=
  match fuel with
  | O => None
  | S k =>
      match ss with
      | [] => None
      | SAssign v e :: t =>
          match evc res kernel e with
          | Some r => if v =? "res" then runc k t r kernel else if v =? "kernel" then runc k t res r else None
          | None => None
          end
      | SIf (ASelf a) th el :: t =>
          if a =? "delayedby" then runc k ((if c_delayed E then th else el) ++ t) res kernel
          else if a =? "biased" then runc k ((match c_bias E with Some _ => th | None => el end) ++ t) res kernel
          else None
      | SReturn e :: _ => evc res kernel e
      | _ => None
      end
  end.
End SemConv.

(* Conv2D.forward with a falsy self.delayedby: flattened kernel (pattern "f c h w -> f (c h w)") matmul the synapse current,
   regrouped "b f (oh ow) -> b f oh ow" with the advertised output sizes, plus the bias as "f -> 1 f 1 1" when biased
   = Conn.conv_map on every batch element *)
Theorem sem_Conv2D_forward_undelayed : forall N g curs w b,
  runc N g (mkCEnv N curs w b false) 12 Conv2D_forward (CNone N) (CNone N) = Some (CB4 N (map (conv_map N g w b) curs)).
Proof.
  intros. destruct b; cbn -[map map2 chunk matmul flatten_kernel Nat.mul Z.to_nat]; unfold conv_map; rewrite !map_map; reflexivity.
Qed.
