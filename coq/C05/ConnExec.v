(* Executable (binary64) instance of the connection model for the correspondence check: one function per
   case kind, returning every observable as a [tree].  No theorem depends on this file. *)
From Coq Require Import List ZArith Bool Arith PrimFloat.
From Inferno Require Import Base.Num Base.NumF C05.Conn.
Import ListNotations.
Local Open Scope nat_scope.

Definition ser_fl (l : list float) : tree := ser_list ser_float l.
Definition ser_shape (s : list nat) : tree := ser_list ser_nat s.
Definition ser_err (e : err) : tree := match e with ERuntime => L 1%Z | EValue => L 2%Z | EIndex => L 3%Z end.
Definition ser_tensor (t : tensor FN) : tree := Nd [ser_shape (tshape t); ser_fl (tdata t)].
Definition ser_fail (stage : Z) (e : err) : tree := Nd [L 1%Z; L stage; ser_err e].
Definition flat2 (m : list (list float)) : list float := concat m.
Definition flat3 (m : list (list (list float))) : list float := concat (map flat2 m).
Definition flat4 (m : list (list (list (list float)))) : list float := concat (map flat3 m).
(* flat -> a x b x c nested *)
Definition nest3 (a b c : nat) (l : list float) : list (list (list float)) :=
  map (chunk c b) (chunk (b * c) a l).
Definition nest4 (a b c d : nat) (l : list float) : list (list (list (list float))) :=
  map (nest3 b c d) (chunk (b * (c * d)) a l).

(* ---- dense ---- *)
Definition dense_case (ins outs : list Z) (B : Z) (w : list (list float)) (b : option (list float))
           (xshape : list nat) (x r3 : list float) : tree :=
  match dense_ctor FN ins outs B w b with
  | Err e => ser_fail 0%Z e
  | Ok c =>
      match dense_forward FN c (@mkT FN xshape x) with
      | Err e => ser_fail 1%Z e
      | Ok out =>
          let I := prodn (d_in FN c) in
          let O := prodn (d_out FN c) in
          let ls := flat_shape xshape in
          let pre := dense_presyn2_shape ls in
          let post := dense_postsyn_shape (tshape out) in
          Nd [L 0%Z; ser_shape (d_in FN c); ser_shape (d_out FN c); ser_tensor out;
              ser_shape ls; ser_shape (dense_like_input_shape FN c (length x));
              ser_shape pre; ser_shape post; ser_option ser_shape (bshape post pre);
              ser_shape (dense_presyn3_shape [d_B FN c; I; O]);
              ser_fl (flat3 (dense_presyn3 FN O (nest3 (d_B FN c) I O r3)))]
      end
  end.

(* the delayed branch fed with the delay-selected currents the implementation produced (all delays zero) *)
Definition dense_delayed_case (B I O : nat) (w : list (list float)) (b : option (list float)) (cur3 : list float) : tree :=
  ser_fl (flat2 (linear_delayed FN (nest3 B I O cur3) w b)).

(* ---- direct ---- *)
Definition direct_case (sh : list Z) (B : Z) (w : list float) (b : option (list float))
           (xshape : list nat) (x : list float) : tree :=
  match direct_ctor FN sh B w b with
  | Err e => ser_fail 0%Z e
  | Ok c =>
      match direct_forward FN c (@mkT FN xshape x) with
      | Err e => ser_fail 1%Z e
      | Ok out =>
          let ls := flat_shape xshape in
          let pre := direct_presyn_shape ls in
          let post := direct_postsyn_shape (tshape out) in
          Nd [L 0%Z; ser_shape (r_shape FN c); ser_tensor out; ser_shape ls;
              ser_shape (view_shape (length x) (r_shape FN c));
              ser_shape pre; ser_shape post; ser_option ser_shape (bshape post pre);
              ser_shape (direct_presyn_shape [r_B FN c; prodn (r_shape FN c); 1])]
      end
  end.

(* ---- lateral ---- *)
Definition ser_lat (s : lat FN) : tree :=
  Nd [ser_fl (flat2 (l_w FN s)); ser_option (fun d => ser_fl (flat2 d)) (l_d FN s); ser_option ser_fl (l_b FN s)].
Fixpoint lat_trace (s : lat FN) (ops : list (lop FN)) : list tree :=
  match ops with
  | [] => []
  | o :: tl =>
      let s' := lat_step FN s o in
      let out := match o with
                 | OpFwd _ x => match lat_forward FN s x with
                              | Ok t => Nd [L 0%Z; ser_tensor t]
                              | Err e => ser_fail 1%Z e
                              end
                 | _ => Nd []
                 end in
      Nd [out; ser_lat s'] :: lat_trace s' tl
  end.
Definition lateral_case (sh : list Z) (B : Z) (winit : list (list float)) (hasdelay : bool)
           (dinit : option (list (list float))) (binit : option (list float)) (ops : list (lop FN)) : tree :=
  match lat_ctor FN sh B winit hasdelay dinit binit with
  | Err e => ser_fail 0%Z e
  | Ok s => Nd [L 0%Z; ser_lat s; Nd (lat_trace s ops)]
  end.

(* ---- conv ---- *)
Definition conv_case (g : geom) (B : Z) (w : list (list (list (list float)))) (b : option (list float))
           (xshape : list nat) (x r3 r4 : list float) : tree :=
  match conv_ctor FN g B w b with
  | Err e => ser_fail 0%Z e
  | Ok c =>
      let Bn := Z.to_nat B in
      let C := Z.to_nat (gC g) in let H := Z.to_nat (gH g) in let W := Z.to_nat (gW g) in
      let Fn := Z.to_nat (gF g) in
      let ho := Z.to_nat (outH FN g) in let wo := Z.to_nat (outW FN g) in
      let nn := (C * (Z.to_nat (kH g) * Z.to_nat (kW g)))%nat in
      let xs := nest4 (hd 0%nat xshape) (nth 1 xshape 0%nat) (nth 2 xshape 0%nat) (nth 3 xshape 0%nat) x in
      match conv_forward FN c xshape xs with
      | Err e => Nd [L 1%Z; L 1%Z; ser_err e; Nd [ser_Z (gF g); ser_Z (outH FN g); ser_Z (outW FN g)]]
      | Ok out =>
          let cur := map (unfold FN g) xs in
          let pre := conv_presyn3_shape g [Bn; nn; (ho * wo)%nat] in
          let post := conv_postsyn_shape [Bn; Fn; ho; wo] in
          Nd [L 0%Z; Nd [ser_Z (gF g); ser_Z (outH FN g); ser_Z (outW FN g)];
              ser_fl (flat4 out);
              ser_fl (flat3 cur);
              ser_fl (flat4 (map (conv_like_input FN g) cur));
              ser_fl (flat4 (map (conv_like_input FN g) (nest3 Bn nn (ho * wo) r3)));
              ser_shape pre; ser_shape post; ser_option ser_shape (bshape post pre);
              ser_shape (conv_presyn4_shape g [Bn; nn; (ho * wo)%nat; Fn]);
              ser_fl (flat4 (map (conv_presyn4 FN Fn) (nest4 Bn nn (ho * wo) Fn r4)))]
      end
  end.

(* ---- sequences: forward / re-parameterise / forward ... (flat parameters) ---- *)
Definition round := (pop FN * bool * pop FN * list nat * list float)%type.
Fixpoint run_seq (fwd : list float -> option (list float) -> list nat -> list float -> tree) (n : nat)
         (w : list float) (b : option (list float)) (rounds : list round) : list tree :=
  match rounds with
  | [] => []
  | (wo, mk, bo, xs, x) :: t =>
      let '(w', b') := step_params FN n w b wo mk bo in
      Nd [ser_fl w'; ser_option ser_fl b'; fwd w' b' xs x] :: run_seq fwd n w' b' t
  end.
Definition dense_fwd (ins outs : list Z) (B : Z) (w : list float) (b : option (list float)) (xs : list nat) (x : list float) : tree :=
  let I := Z.to_nat (prodZ ins) in let O := Z.to_nat (prodZ outs) in
  match dense_ctor FN ins outs B (chunk I O w) b with
  | Err e => ser_fail 0%Z e
  | Ok c => match dense_forward FN c (@mkT FN xs x) with Ok t => Nd [L 0%Z; ser_tensor t] | Err e => ser_fail 1%Z e end
  end.
Definition direct_fwd (sh : list Z) (B : Z) (w : list float) (b : option (list float)) (xs : list nat) (x : list float) : tree :=
  match direct_ctor FN sh B w b with
  | Err e => ser_fail 0%Z e
  | Ok c => match direct_forward FN c (@mkT FN xs x) with Ok t => Nd [L 0%Z; ser_tensor t] | Err e => ser_fail 1%Z e end
  end.
Definition conv_fwd (g : geom) (B : Z) (w : list float) (b : option (list float)) (xs : list nat) (x : list float) : tree :=
  let w4 := nest4 (Z.to_nat (gF g)) (Z.to_nat (gC g)) (Z.to_nat (kH g)) (Z.to_nat (kW g)) w in
  match conv_ctor FN g B w4 b with
  | Err e => ser_fail 0%Z e
  | Ok c =>
      match conv_forward FN c xs (nest4 (hd 0 xs) (nth 1 xs 0) (nth 2 xs 0) (nth 3 xs 0) x) with
      | Ok out => Nd [L 0%Z; Nd [ser_shape [Z.to_nat B; Z.to_nat (gF g); Z.to_nat (outH FN g); Z.to_nat (outW FN g)];
                              ser_fl (flat4 out)]]
      | Err e => ser_fail 1%Z e
      end
  end.
Definition seq_dense ins outs B w b rounds : tree := Nd (run_seq (dense_fwd ins outs B) 0 w b rounds).
Definition seq_direct sh B w b rounds : tree := Nd (run_seq (direct_fwd sh B) 0 w b rounds).
(* lateral: forward is LinearDense.forward on the n x n stored weight *)
Definition seq_lateral sh B w b rounds : tree :=
  Nd (run_seq (dense_fwd sh sh B) (Z.to_nat (prodZ sh)) w b rounds).
Definition seq_conv g B w b rounds : tree := Nd (run_seq (conv_fwd g B) 0 w b rounds).
