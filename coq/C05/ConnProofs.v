(* Proofs about the connection model (C05/Conn.v), all over the real-number instance RN.
   Specs are stated with indexed finite sums [Rsum n f = f 0 + ... + f (n-1)] over flat row-major indices,
   independent of the list plumbing (concat / chunk / flat_map / map2) of the model. *)
From Coq Require Import List ZArith Bool Arith Lia Reals Lra Psatz.
From Flocq Require Import Core.Raux.
From Inferno Require Import Base.Num Base.NumR C05.Conn.
Import ListNotations.
Open Scope R_scope.

(* ------------------------------------------------------------------ the spec-level sum *)
Fixpoint Rsum (n : nat) (f : nat -> R) : R :=
  match n with O => 0 | S k => Rsum k f + f k end.

Lemma Rsum_ext n f g : (forall i, (i < n)%nat -> f i = g i) -> Rsum n f = Rsum n g.
Proof.
  induction n as [|n IH]; intros H; simpl; [reflexivity|].
  rewrite IH by (intros; apply H; lia). rewrite H by lia. reflexivity.
Qed.
Lemma Rsum_scal n c f : Rsum n (fun i => c * f i) = c * Rsum n f.
Proof. induction n as [|n IH]; simpl; [ring|rewrite IH; ring]. Qed.
Lemma Rsum_plus n f g : Rsum n (fun i => f i + g i) = Rsum n f + Rsum n g.
Proof. induction n as [|n IH]; simpl; [ring|rewrite IH; ring]. Qed.
Lemma Rsum_zero n f : (forall i, (i < n)%nat -> f i = 0) -> Rsum n f = 0.
Proof.
  induction n as [|n IH]; intros H; simpl; [reflexivity|].
  rewrite IH by (intros; apply H; lia). rewrite H by lia. ring.
Qed.
Lemma Rsum_nonneg n f : (forall i, (i < n)%nat -> 0 <= f i) -> 0 <= Rsum n f.
Proof.
  induction n as [|n IH]; intros H; simpl; [lra|].
  assert (0 <= Rsum n f) by (apply IH; intros; apply H; lia).
  assert (0 <= f n) by (apply H; lia). lra.
Qed.
Lemma Rsum_pos n f k : (forall i, (i < n)%nat -> 0 <= f i) -> (k < n)%nat -> 0 < f k -> 0 < Rsum n f.
Proof.
  induction n as [|n IH]; intros H Hk Hp; [lia|]. simpl.
  assert (0 <= f n) by (apply H; lia).
  assert (0 <= Rsum n f) by (apply Rsum_nonneg; intros; apply H; lia).
  destruct (Nat.eq_dec k n) as [->|Hne]; [lra|].
  assert (0 < Rsum n f) by (apply IH; [intros; apply H; lia|lia|assumption]). lra.
Qed.
(* a sum that is not zero has a term that is not zero *)
Lemma Rsum_nonzero_ex n f : Rsum n f <> 0 -> exists i, (i < n)%nat /\ f i <> 0.
Proof.
  induction n as [|n IH]; simpl; intros H; [lra|].
  destruct (Req_EM_T (f n) 0) as [E|E].
  - rewrite E, Rplus_0_r in H. destruct (IH H) as [i [Hi Hf]]. exists i; split; [lia|assumption].
  - exists n; split; [lia|assumption].
Qed.

(* ------------------------------------------------------------------ list plumbing *)
Section Lists.
Context {A B C : Type}.

Lemma map2_length (f : A -> B -> C) u v : length (map2 f u v) = Nat.min (length u) (length v).
Proof. revert v; induction u as [|a u IH]; intros [|b v]; simpl; auto. Qed.

Lemma map2_nth (f : A -> B -> C) u v i da db dc :
  (i < length u)%nat -> (i < length v)%nat -> nth i (map2 f u v) dc = f (nth i u da) (nth i v db).
Proof.
  revert v i; induction u as [|a u IH]; intros [|b v] i Hu Hv; simpl in *; try lia.
  destruct i; [reflexivity|]. apply IH; lia.
Qed.
End Lists.

Lemma nth_firstn_lt {A} (l : list A) n i d : (i < n)%nat -> nth i (firstn n l) d = nth i l d.
Proof.
  revert l i; induction n as [|n IH]; intros l i H; [lia|].
  destruct l as [|a l]; [destruct i; reflexivity|]. destruct i; simpl; [reflexivity|apply IH; lia].
Qed.
Lemma nth_skipn' {A} (l : list A) n i d : nth i (skipn n l) d = nth (n + i) l d.
Proof.
  revert l; induction n as [|n IH]; intros l; [reflexivity|].
  destruct l as [|a l]; [destruct i; reflexivity|]. simpl. apply IH.
Qed.
Lemma skipn_skipn' {A} (l : list A) a b : skipn a (skipn b l) = skipn (b + a) l.
Proof.
  revert l; induction b as [|b IH]; intros l; [reflexivity|].
  destruct l as [|x l]; [destruct a; reflexivity|]. simpl. apply IH.
Qed.

Lemma chunk_length {A} w k (l : list A) : length (chunk w k l) = k.
Proof. revert l; induction k as [|k IH]; intros l; simpl; [reflexivity|rewrite IH; reflexivity]. Qed.
Lemma chunk_nth {A} w k (l : list A) r :
  (r < k)%nat -> nth r (chunk w k l) [] = firstn w (skipn (r * w) l).
Proof.
  revert l r; induction k as [|k IH]; intros l r H; [lia|].
  destruct r as [|r]; simpl; [reflexivity|].
  rewrite IH by lia. rewrite skipn_skipn'. reflexivity.
Qed.
Lemma chunk_nth_nth {A} w k (l : list A) r i d :
  (r < k)%nat -> (i < w)%nat -> nth i (nth r (chunk w k l) []) d = nth (r * w + i) l d.
Proof. intros Hr Hi. rewrite chunk_nth by assumption. rewrite nth_firstn_lt by assumption. apply nth_skipn'. Qed.
Lemma chunk_row_length {A} w k (l : list A) r :
  (r < k)%nat -> (k * w <= length l)%nat -> length (nth r (chunk w k l) []) = w.
Proof.
  intros Hr Hl. rewrite chunk_nth by assumption. rewrite firstn_length, skipn_length.
  assert (r * w + w <= k * w)%nat by nia. lia.
Qed.

(* rows of a common width w, concatenated: flat index r*w + i *)
Lemma concat_nth_uniform {A} (m : list (list A)) w r i d :
  (forall row, In row m -> length row = w) -> (r < length m)%nat -> (i < w)%nat ->
  nth (r * w + i) (concat m) d = nth i (nth r m []) d.
Proof.
  revert r; induction m as [|row m IH]; intros r Hw Hr Hi; simpl in *; [lia|].
  assert (Hl : length row = w) by (apply Hw; auto).
  destruct r as [|r]; simpl.
  - rewrite app_nth1 by lia. reflexivity.
  - rewrite app_nth2 by lia. replace (w + r * w + i - length row)%nat with (r * w + i)%nat by lia.
    apply IH; [intros; apply Hw; auto|lia|assumption].
Qed.
Lemma concat_length_uniform {A} (m : list (list A)) w :
  (forall row, In row m -> length row = w) -> length (concat m) = (length m * w)%nat.
Proof.
  induction m as [|row m IH]; intros Hw; simpl; [reflexivity|].
  rewrite app_length, IH by (intros; apply Hw; simpl; auto). rewrite (Hw row) by (simpl; auto). reflexivity.
Qed.

(* flat_map over a range with blocks of a common width *)
Lemma flat_map_seq_length {A} (f : nat -> list A) w a n :
  (forall k, (a <= k < a + n)%nat -> length (f k) = w) -> length (flat_map f (seq a n)) = (n * w)%nat.
Proof.
  revert a; induction n as [|n IH]; intros a H; simpl; [reflexivity|].
  rewrite app_length, IH by (intros; apply H; lia). rewrite H by lia. reflexivity.
Qed.
Lemma flat_map_seq_nth {A} (f : nat -> list A) w a n k i d :
  (forall k, (a <= k < a + n)%nat -> length (f k) = w) -> (k < n)%nat -> (i < w)%nat ->
  nth (k * w + i) (flat_map f (seq a n)) d = nth i (f (a + k)%nat) d.
Proof.
  revert a k; induction n as [|n IH]; intros a k H Hk Hi; [lia|]. simpl.
  assert (Hl : length (f a) = w) by (apply H; lia).
  destruct k as [|k]; simpl.
  - rewrite app_nth1 by lia. rewrite Nat.add_0_r. reflexivity.
  - rewrite app_nth2 by lia. replace (w + k * w + i - length (f a))%nat with (k * w + i)%nat by lia.
    rewrite IH by (try lia; intros; apply H; lia). f_equal. f_equal. lia.
Qed.
Lemma map_seq_nth {A} (f : nat -> A) a n i d : (i < n)%nat -> nth i (map f (seq a n)) d = f (a + i)%nat.
Proof. intros H. rewrite (nth_indep _ d (f 0%nat)) by (rewrite map_length, seq_length; lia).
  rewrite map_nth, seq_nth by lia. reflexivity. Qed.
Lemma map_nth_seq {A} (l : list A) d : l = map (fun i => nth i l d) (seq 0 (length l)).
Proof.
  induction l as [|a l IH]; [reflexivity|]. simpl. f_equal.
  rewrite <- seq_shift, map_map. exact IH.
Qed.

(* ------------------------------------------------------------------ sums and dot products over RN *)
(* [ring] infers its carrier from sub-terms: hide the ones whose type is printed as [T RN] *)
Ltac hideT :=
  repeat match goal with
  | |- context [tsum RN ?l] => let x := fresh "x" in pose (x := (tsum RN l : R)); change (tsum RN l) with x; clearbody x
  | |- context [dot RN ?u ?v] => let x := fresh "x" in pose (x := (dot RN u v : R)); change (dot RN u v) with x; clearbody x
  | |- context [sumf RN ?n ?f] => let x := fresh "x" in pose (x := (sumf RN n f : R)); change (sumf RN n f) with x; clearbody x
  | |- context [nth0 RN ?i ?l] => let x := fresh "x" in pose (x := (nth0 RN i l : R)); change (nth0 RN i l) with x; clearbody x
  end.
Ltac rring := rn_simpl; hideT; ring.
Lemma tsum_app (u v : list R) : tsum RN (u ++ v) = tsum RN u + tsum RN v.
Proof. induction u as [|a u IH]; simpl; rn_simpl; [rring|rewrite IH; rring]. Qed.
Lemma sumf_Rsum n (f : nat -> R) : sumf RN n f = Rsum n f.
Proof.
  unfold sumf. induction n as [|n IH]; [reflexivity|].
  rewrite seq_S, map_app, tsum_app, IH. simpl. rring.
Qed.
Lemma dot_nil_l (v : list R) : dot RN [] v = 0.
Proof. reflexivity. Qed.
Lemma dot_cons a u b v : dot RN (a :: u) (b :: v) = a * b + dot RN u v.
Proof. reflexivity. Qed.
Lemma dot_app (u1 u2 v1 v2 : list R) :
  length u1 = length v1 -> dot RN (u1 ++ u2) (v1 ++ v2) = dot RN u1 v1 + dot RN u2 v2.
Proof.
  revert v1; induction u1 as [|a u1 IH]; intros [|b v1] H; simpl in H; try discriminate.
  - simpl. rewrite dot_nil_l. rring.
  - simpl app. rewrite !dot_cons, IH by lia. rring.
Qed.
(* dot product as an indexed sum *)
Lemma dot_Rsum (u v : list R) n :
  length u = n -> length v = n -> dot RN u v = Rsum n (fun i => nth i u 0 * nth i v 0).
Proof.
  revert u v; induction n as [|n IH]; intros u v Hu Hv.
  - destruct u; [reflexivity|discriminate].
  - destruct (exists_last (l := u)) as [u' [a ->]]; [intros ->; discriminate|].
    destruct (exists_last (l := v)) as [v' [b ->]]; [intros ->; discriminate|].
    rewrite app_length in Hu, Hv. simpl in Hu, Hv.
    rewrite dot_app by lia. simpl Rsum.
    rewrite (IH u' v') by lia.
    rewrite !app_nth2 by lia. replace (n - length u')%nat with 0%nat by lia.
    replace (n - length v')%nat with 0%nat by lia. simpl nth.
    rewrite dot_cons, dot_nil_l. f_equal; [|rring].
    apply Rsum_ext; intros i Hi. rewrite !app_nth1 by lia. reflexivity.
Qed.
(* blocks of pairwise equal length: the dot product of the concatenations is the sum of the block dot products *)
Lemma dot_flat_map_seq (f g : nat -> list R) n :
  (forall k, (k < n)%nat -> length (f k) = length (g k)) ->
  dot RN (flat_map f (seq 0 n)) (flat_map g (seq 0 n)) = Rsum n (fun k => dot RN (f k) (g k)).
Proof.
  induction n as [|n IH]; intros H; [reflexivity|].
  rewrite seq_S, !flat_map_app. simpl flat_map. rewrite !app_nil_r.
  rewrite dot_app.
  - rewrite IH by (intros; apply H; lia). reflexivity.
  - clear IH. assert (forall a m, (forall k, (a <= k < a + m)%nat -> length (f k) = length (g k)) ->
        length (flat_map f (seq a m)) = length (flat_map g (seq a m))) as Hlen.
    { intros a m; revert a; induction m as [|m IHm]; intros a Hk; [reflexivity|]. simpl.
      rewrite !app_length, Hk by lia. f_equal. apply IHm; intros; apply Hk; lia. }
    apply Hlen; intros; apply H; lia.
Qed.
Lemma dot_map_seq (f g : nat -> R) n :
  dot RN (map f (seq 0 n)) (map g (seq 0 n)) = Rsum n (fun k => f k * g k).
Proof.
  induction n as [|n IH]; [reflexivity|].
  rewrite seq_S, !map_app. simpl map. rewrite dot_app by (rewrite !map_length; reflexivity).
  rewrite IH, dot_cons, dot_nil_l. simpl. rring.
Qed.

Lemma nth_map_lt {A B} (f : A -> B) l i da db : (i < length l)%nat -> nth i (map f l) db = f (nth i l da).
Proof. intros H. rewrite (nth_indep _ db (f da)) by (rewrite map_length; exact H). apply map_nth. Qed.

(* ==================================================================== dense / direct *)
Definition bias_at (b : option (list R)) (o : nat) : R :=
  match b with None => 0 | Some bv => nth o bv 0 end.

Lemma linear_length (x W : list (list R)) b : length (linear RN x W b) = length x.
Proof. unfold linear. apply map_length. Qed.
Lemma linear_row_length (x W : list (list R)) b row :
  (forall bv, b = Some bv -> length bv = length W) -> In row (linear RN x W b) -> length row = length W.
Proof.
  intros Hb Hin. unfold linear in Hin. apply in_map_iff in Hin. destruct Hin as [xr [<- _]].
  destruct b as [bv|]; [|apply map_length].
  rewrite map2_length, map_length, (Hb bv eq_refl). apply Nat.min_id.
Qed.
Lemma linear_nth (x W : list (list R)) b r o :
  (r < length x)%nat -> (o < length W)%nat -> (forall bv, b = Some bv -> length bv = length W) ->
  nth o (nth r (linear RN x W b) []) 0 = dot RN (nth r x []) (nth o W []) + bias_at b o.
Proof.
  intros Hr Ho Hb. unfold linear. rewrite (nth_map_lt _ _ _ []) by exact Hr.
  destruct b as [bv|]; simpl bias_at.
  - pose proof (Hb bv eq_refl) as Hbl. rn_simpl.
    rewrite (map2_nth _ _ _ _ 0 0) by (rewrite ?map_length; lia).
    rewrite (nth_map_lt _ _ _ []) by exact Ho. reflexivity.
  - rewrite (nth_map_lt _ _ _ []) by exact Ho. rn_simpl. lra.
Qed.

(* LinearDense.forward = x W^T + b, element by element over flat row-major indices, and the result has the
   advertised batched output shape *)
Theorem dense_forward_spec (c : dense RN) (x out : tensor RN) :
  let I := prodn (d_in RN c) in let O := prodn (d_out RN c) in let B := d_B RN c in
  dense_forward RN c x = Ok out ->
  length (tdata x) = (B * I)%nat ->
  length (d_w RN c) = O -> (forall wr, In wr (d_w RN c) -> length wr = I) ->
  (forall bv, d_b RN c = Some bv -> length bv = O) -> (0 < O)%nat ->
  tshape out = B :: d_out RN c /\ length (tdata out) = (B * O)%nat /\
  forall r o, (r < B)%nat -> (o < O)%nat ->
    nth (r * O + o) (tdata out) 0 =
    Rsum I (fun i => nth (r * I + i) (tdata x) 0 * nth i (nth o (d_w RN c) []) 0) + bias_at (d_b RN c) o.
Proof.
  intros I O B Hf Hx HW HWr Hb HO. unfold dense_forward in Hf. fold I O in Hf.
  destruct (tshape x) as [|b0 rest]; [discriminate|].
  destruct ((b0 =? d_B RN c) && (prodn rest =? I)) eqn:E; simpl in Hf; [|discriminate].
  apply andb_true_iff in E. destruct E as [E1 _]. apply Nat.eqb_eq in E1. fold B in E1. subst b0.
  injection Hf as <-. simpl tshape. simpl tdata.
  set (cur := chunk I B _).
  assert (Hrows : forall row, In row (linear RN cur (d_w RN c) (d_b RN c)) -> length row = O).
  { intros row Hin. rewrite <- HW. eapply linear_row_length; [|exact Hin]. intros bv Hbv. transitivity O; [exact (Hb bv Hbv)|symmetry; exact HW]. }
  rn_simpl. split; [|split].
  - unfold view_shape. fold O. rewrite Nat.div_mul by lia. reflexivity.
  - rewrite (concat_length_uniform _ O Hrows), linear_length. unfold cur. rewrite chunk_length. reflexivity.
  - intros r o Hr Ho.
    assert (Hlc : length cur = B) by (unfold cur; apply chunk_length).
    rewrite (concat_nth_uniform _ O); [| exact Hrows | rewrite linear_length, Hlc; exact Hr | exact Ho].
    rewrite linear_nth; [| rewrite Hlc; exact Hr | rewrite HW; exact Ho
                         | intros bv Hbv; transitivity O; [exact (Hb bv Hbv)|symmetry; exact HW]].
    f_equal.
    rewrite (dot_Rsum _ _ I).
    + apply Rsum_ext; intros i Hi. unfold cur. rewrite chunk_nth_nth by assumption. reflexivity.
    + unfold cur. apply chunk_row_length; [exact Hr|lia].
    + apply HWr. apply nth_In. lia.
Qed.

Lemma direct_map_length (x : list (list R)) w b : length (direct_map RN x w b) = length x.
Proof. apply map_length. Qed.
(* LinearDirect.forward = x * w + b *)
Theorem direct_forward_spec (c : direct RN) (x out : tensor RN) :
  let n := prodn (r_shape RN c) in let B := r_B RN c in
  direct_forward RN c x = Ok out ->
  length (tdata x) = (B * n)%nat -> length (r_w RN c) = n ->
  (forall bv, r_b RN c = Some bv -> length bv = n) -> (0 < n)%nat ->
  tshape out = B :: r_shape RN c /\ length (tdata out) = (B * n)%nat /\
  forall r o, (r < B)%nat -> (o < n)%nat ->
    nth (r * n + o) (tdata out) 0 = nth (r * n + o) (tdata x) 0 * nth o (r_w RN c) 0 + bias_at (r_b RN c) o.
Proof.
  intros n B Hf Hx Hw Hb Hn. unfold direct_forward in Hf. fold n in Hf.
  destruct (tshape x) as [|b0 rest]; [discriminate|].
  destruct ((b0 =? r_B RN c) && (prodn rest =? n)) eqn:E; simpl in Hf; [|discriminate].
  apply andb_true_iff in E. destruct E as [E1 _]. apply Nat.eqb_eq in E1. fold B in E1. subst b0.
  injection Hf as <-. simpl tshape. simpl tdata.
  set (cur := chunk n B _).
  assert (Hrowx : forall r, (r < B)%nat -> length (nth r cur []) = n).
  { intros r Hr. unfold cur. apply chunk_row_length; [exact Hr|apply Nat.eq_le_incl; symmetry; exact Hx]. }
  assert (Hrows : forall row, In row (direct_map RN cur (r_w RN c) (r_b RN c)) -> length row = n).
  { intros row Hin. unfold direct_map in Hin. apply in_map_iff in Hin. destruct Hin as [xr [<- Hxr]].
    apply (In_nth _ _ []) in Hxr. destruct Hxr as [r [Hr <-]]. unfold cur in Hr. rewrite chunk_length in Hr.
    pose proof (Hrowx r Hr) as Hlx.
    destruct (r_b RN c) as [bv|]; [pose proof (Hb bv eq_refl) as Hlb|]; rn_simpl; rewrite ?map2_length; lia. }
  rn_simpl. split; [|split].
  - unfold view_shape. fold n. rewrite Nat.div_mul by lia. reflexivity.
  - rewrite (concat_length_uniform _ n Hrows), direct_map_length. unfold cur. rewrite chunk_length. reflexivity.
  - intros r o Hr Ho.
    rewrite (concat_nth_uniform _ n) by (try assumption; rewrite direct_map_length; unfold cur; rewrite chunk_length; exact Hr).
    unfold direct_map. rewrite (nth_map_lt _ _ _ []) by (unfold cur; rewrite chunk_length; exact Hr).
    assert (Hx' : nth o (nth r cur []) 0 = nth (r * n + o) (tdata x) 0).
    { unfold cur. apply chunk_nth_nth; assumption. }
    pose proof (Hrowx r Hr) as Hlx.
    destruct (r_b RN c) as [bv|]; simpl bias_at.
    + pose proof (Hb bv eq_refl) as Hlb. rn_simpl.
      rewrite (map2_nth _ _ _ _ 0 0) by (rewrite ?map2_length; lia).
      rewrite (map2_nth _ _ _ _ 0 0) by lia.
      rewrite Hx'. reflexivity.
    + rn_simpl. rewrite (map2_nth _ _ _ _ 0 0) by lia.
      rewrite Hx'. lra.
Qed.
