(* Proofs about the connection model (C05/Conn.v), all over the real-number instance RN.
   Specs are stated with indexed finite sums [Rsum n f = f 0 + ... + f (n-1)] over flat row-major indices,
   independent of the list plumbing (concat / chunk / flat_map / map2) of the model. *)
From Coq Require Import List ZArith Bool Arith Lia Reals Lra Psatz.
From Flocq Require Import Core.Raux.
From Inferno Require Import Base.Num Base.NumR C05.Conn.
Import ListNotations.
Open Scope R_scope.

(* ------------------------------------------------------------------ the spec-level sum *)
Fixpoint Rsum (n : nat) (f : nat -> R) : R :=
  match n with O => 0 | S k => Rsum k f + f k end.

Lemma Rsum_ext n f g : (forall i, (i < n)%nat -> f i = g i) -> Rsum n f = Rsum n g.
Proof.
  induction n as [|n IH]; intros H; simpl; [reflexivity|].
  rewrite IH by (intros; apply H; lia). rewrite H by lia. reflexivity.
Qed.
Lemma Rsum_scal n c f : Rsum n (fun i => c * f i) = c * Rsum n f.
Proof. induction n as [|n IH]; simpl; [ring|rewrite IH; ring]. Qed.
Lemma Rsum_plus n f g : Rsum n (fun i => f i + g i) = Rsum n f + Rsum n g.
Proof. induction n as [|n IH]; simpl; [ring|rewrite IH; ring]. Qed.
Lemma Rsum_zero n f : (forall i, (i < n)%nat -> f i = 0) -> Rsum n f = 0.
Proof.
  induction n as [|n IH]; intros H; simpl; [reflexivity|].
  rewrite IH by (intros; apply H; lia). rewrite H by lia. ring.
Qed.
Lemma Rsum_nonneg n f : (forall i, (i < n)%nat -> 0 <= f i) -> 0 <= Rsum n f.
Proof.
  induction n as [|n IH]; intros H; simpl; [lra|].
  assert (0 <= Rsum n f) by (apply IH; intros; apply H; lia).
  assert (0 <= f n) by (apply H; lia). lra.
Qed.
Lemma Rsum_pos n f k : (forall i, (i < n)%nat -> 0 <= f i) -> (k < n)%nat -> 0 < f k -> 0 < Rsum n f.
Proof.
  induction n as [|n IH]; intros H Hk Hp; [lia|]. simpl.
  assert (0 <= f n) by (apply H; lia).
  assert (0 <= Rsum n f) by (apply Rsum_nonneg; intros; apply H; lia).
  destruct (Nat.eq_dec k n) as [->|Hne]; [lra|].
  assert (0 < Rsum n f) by (apply IH; [intros; apply H; lia|lia|assumption]). lra.
Qed.
(* a sum that is not zero has a term that is not zero *)
Lemma Rsum_nonzero_ex n f : Rsum n f <> 0 -> exists i, (i < n)%nat /\ f i <> 0.
Proof.
  induction n as [|n IH]; simpl; intros H; [lra|].
  destruct (Req_EM_T (f n) 0) as [E|E].
  - rewrite E, Rplus_0_r in H. destruct (IH H) as [i [Hi Hf]]. exists i; split; [lia|assumption].
  - exists n; split; [lia|assumption].
Qed.

(* ------------------------------------------------------------------ list plumbing *)
Section Lists.
Context {A B C : Type}.

Lemma map2_length (f : A -> B -> C) u v : length (map2 f u v) = Nat.min (length u) (length v).
Proof. revert v; induction u as [|a u IH]; intros [|b v]; simpl; auto. Qed.

Lemma map2_nth (f : A -> B -> C) u v i da db dc :
  (i < length u)%nat -> (i < length v)%nat -> nth i (map2 f u v) dc = f (nth i u da) (nth i v db).
Proof.
  revert v i; induction u as [|a u IH]; intros [|b v] i Hu Hv; simpl in *; try lia.
  destruct i; [reflexivity|]. apply IH; lia.
Qed.
End Lists.

Lemma nth_firstn_lt {A} (l : list A) n i d : (i < n)%nat -> nth i (firstn n l) d = nth i l d.
Proof.
  revert l i; induction n as [|n IH]; intros l i H; [lia|].
  destruct l as [|a l]; [destruct i; reflexivity|]. destruct i; simpl; [reflexivity|apply IH; lia].
Qed.
Lemma nth_skipn' {A} (l : list A) n i d : nth i (skipn n l) d = nth (n + i) l d.
Proof.
  revert l; induction n as [|n IH]; intros l; [reflexivity|].
  destruct l as [|a l]; [destruct i; reflexivity|]. simpl. apply IH.
Qed.
Lemma skipn_skipn' {A} (l : list A) a b : skipn a (skipn b l) = skipn (b + a) l.
Proof.
  revert l; induction b as [|b IH]; intros l; [reflexivity|].
  destruct l as [|x l]; [destruct a; reflexivity|]. simpl. apply IH.
Qed.

Lemma chunk_length {A} w k (l : list A) : length (chunk w k l) = k.
Proof. revert l; induction k as [|k IH]; intros l; simpl; [reflexivity|rewrite IH; reflexivity]. Qed.
Lemma chunk_nth {A} w k (l : list A) r :
  (r < k)%nat -> nth r (chunk w k l) [] = firstn w (skipn (r * w) l).
Proof.
  revert l r; induction k as [|k IH]; intros l r H; [lia|].
  destruct r as [|r]; simpl; [reflexivity|].
  rewrite IH by lia. rewrite skipn_skipn'. reflexivity.
Qed.
Lemma chunk_nth_nth {A} w k (l : list A) r i d :
  (r < k)%nat -> (i < w)%nat -> nth i (nth r (chunk w k l) []) d = nth (r * w + i) l d.
Proof. intros Hr Hi. rewrite chunk_nth by assumption. rewrite nth_firstn_lt by assumption. apply nth_skipn'. Qed.
Lemma chunk_row_length {A} w k (l : list A) r :
  (r < k)%nat -> (k * w <= length l)%nat -> length (nth r (chunk w k l) []) = w.
Proof.
  intros Hr Hl. rewrite chunk_nth by assumption. rewrite firstn_length, skipn_length.
  assert (r * w + w <= k * w)%nat by nia. lia.
Qed.

(* rows of a common width w, concatenated: flat index r*w + i *)
Lemma concat_nth_uniform {A} (m : list (list A)) w r i d :
  (forall row, In row m -> length row = w) -> (r < length m)%nat -> (i < w)%nat ->
  nth (r * w + i) (concat m) d = nth i (nth r m []) d.
Proof.
  revert r; induction m as [|row m IH]; intros r Hw Hr Hi; simpl in *; [lia|].
  assert (Hl : length row = w) by (apply Hw; auto).
  destruct r as [|r]; simpl.
  - rewrite app_nth1 by lia. reflexivity.
  - rewrite app_nth2 by lia. replace (w + r * w + i - length row)%nat with (r * w + i)%nat by lia.
    apply IH; [intros; apply Hw; auto|lia|assumption].
Qed.
Lemma concat_length_uniform {A} (m : list (list A)) w :
  (forall row, In row m -> length row = w) -> length (concat m) = (length m * w)%nat.
Proof.
  induction m as [|row m IH]; intros Hw; simpl; [reflexivity|].
  rewrite app_length, IH by (intros; apply Hw; simpl; auto). rewrite (Hw row) by (simpl; auto). reflexivity.
Qed.

(* flat_map over a range with blocks of a common width *)
Lemma flat_map_seq_length {A} (f : nat -> list A) w a n :
  (forall k, (a <= k < a + n)%nat -> length (f k) = w) -> length (flat_map f (seq a n)) = (n * w)%nat.
Proof.
  revert a; induction n as [|n IH]; intros a H; simpl; [reflexivity|].
  rewrite app_length, IH by (intros; apply H; lia). rewrite H by lia. reflexivity.
Qed.
Lemma flat_map_seq_nth {A} (f : nat -> list A) w a n k i d :
  (forall k, (a <= k < a + n)%nat -> length (f k) = w) -> (k < n)%nat -> (i < w)%nat ->
  nth (k * w + i) (flat_map f (seq a n)) d = nth i (f (a + k)%nat) d.
Proof.
  revert a k; induction n as [|n IH]; intros a k H Hk Hi; [lia|]. simpl.
  assert (Hl : length (f a) = w) by (apply H; lia).
  destruct k as [|k]; simpl.
  - rewrite app_nth1 by lia. rewrite Nat.add_0_r. reflexivity.
  - rewrite app_nth2 by lia. replace (w + k * w + i - length (f a))%nat with (k * w + i)%nat by lia.
    rewrite IH by (try lia; intros; apply H; lia). f_equal. f_equal. lia.
Qed.
Lemma map_seq_nth {A} (f : nat -> A) a n i d : (i < n)%nat -> nth i (map f (seq a n)) d = f (a + i)%nat.
Proof. intros H. rewrite (nth_indep _ d (f 0%nat)) by (rewrite map_length, seq_length; lia).
  rewrite map_nth, seq_nth by lia. reflexivity. Qed.
Lemma map_nth_seq {A} (l : list A) d : l = map (fun i => nth i l d) (seq 0 (length l)).
Proof.
  induction l as [|a l IH]; [reflexivity|]. simpl. f_equal.
  rewrite <- seq_shift, map_map. exact IH.
Qed.

(* ------------------------------------------------------------------ sums and dot products over RN *)
Lemma tsum_app (u v : list R) : tsum RN (u ++ v) = tsum RN u + tsum RN v.
Proof. induction u as [|a u IH]; simpl; rn_simpl; [ring|rewrite IH; ring]. Qed.
Lemma sumf_Rsum n (f : nat -> R) : sumf RN n f = Rsum n f.
Proof.
  unfold sumf. induction n as [|n IH]; [reflexivity|].
  rewrite seq_S, map_app, tsum_app, IH. simpl. rn_simpl. ring.
Qed.
Lemma dot_nil_l (v : list R) : dot RN [] v = 0.
Proof. reflexivity. Qed.
Lemma dot_cons a u b v : dot RN (a :: u) (b :: v) = a * b + dot RN u v.
Proof. reflexivity. Qed.
Lemma dot_app (u1 u2 v1 v2 : list R) :
  length u1 = length v1 -> dot RN (u1 ++ u2) (v1 ++ v2) = dot RN u1 v1 + dot RN u2 v2.
Proof.
  revert v1; induction u1 as [|a u1 IH]; intros [|b v1] H; simpl in H; try discriminate.
  - simpl. rewrite dot_nil_l. ring.
  - simpl app. rewrite !dot_cons, IH by lia. ring.
Qed.
(* dot product as an indexed sum *)
Lemma dot_Rsum (u v : list R) n :
  length u = n -> length v = n -> dot RN u v = Rsum n (fun i => nth i u 0 * nth i v 0).
Proof.
  revert u v; induction n as [|n IH]; intros u v Hu Hv.
  - destruct u; [reflexivity|discriminate].
  - destruct (exists_last (l := u)) as [u' [a ->]]; [intros ->; discriminate|].
    destruct (exists_last (l := v)) as [v' [b ->]]; [intros ->; discriminate|].
    rewrite app_length in Hu, Hv. simpl in Hu, Hv.
    rewrite dot_app by lia. simpl Rsum.
    rewrite (IH u' v') by lia.
    rewrite !app_nth2 by lia. replace (n - length u')%nat with 0%nat by lia.
    replace (n - length v')%nat with 0%nat by lia. simpl nth.
    rewrite dot_cons, dot_nil_l. f_equal; [|ring].
    apply Rsum_ext; intros i Hi. rewrite !app_nth1 by lia. reflexivity.
Qed.
(* blocks of pairwise equal length: the dot product of the concatenations is the sum of the block dot products *)
Lemma dot_flat_map_seq (f g : nat -> list R) n :
  (forall k, (k < n)%nat -> length (f k) = length (g k)) ->
  dot RN (flat_map f (seq 0 n)) (flat_map g (seq 0 n)) = Rsum n (fun k => dot RN (f k) (g k)).
Proof.
  induction n as [|n IH]; intros H; [reflexivity|].
  rewrite seq_S, !flat_map_app. simpl flat_map. rewrite !app_nil_r.
  rewrite dot_app.
  - rewrite IH by (intros; apply H; lia). reflexivity.
  - clear IH. assert (forall a m, (forall k, (a <= k < a + m)%nat -> length (f k) = length (g k)) ->
        length (flat_map f (seq a m)) = length (flat_map g (seq a m))) as Hlen.
    { intros a m; revert a; induction m as [|m IHm]; intros a Hk; [reflexivity|]. simpl.
      rewrite !app_length, Hk by lia. f_equal. apply IHm; intros; apply Hk; lia. }
    apply Hlen; intros; apply H; lia.
Qed.
Lemma dot_map_seq (f g : nat -> R) n :
  dot RN (map f (seq 0 n)) (map g (seq 0 n)) = Rsum n (fun k => f k * g k).
Proof.
  induction n as [|n IH]; [reflexivity|].
  rewrite seq_S, !map_app. simpl map. rewrite dot_app by (rewrite !map_length; reflexivity).
  rewrite IH, dot_cons, dot_nil_l. simpl. ring.
Qed.
