(* Proofs about the connection model (C05/Conn.v), all over the real-number instance RN.
   Specs are stated with indexed finite sums [Rsum n f = f 0 + ... + f (n-1)] over flat row-major indices,
   independent of the list plumbing (concat / chunk / flat_map / map2) of the model. *)
From Coq Require Import List ZArith Bool Arith Lia Reals Lra Psatz.
From Flocq Require Import Core.Raux.
From Inferno Require Import Base.Num Base.NumR Gen.Conv C05.Conn C05.ConnSpec.
Import ListNotations.
Open Scope R_scope.

(* ------------------------------------------------------------------ the spec-level sum *)

Lemma Rsum_ext n f g : (forall i, (i < n)%nat -> f i = g i) -> Rsum n f = Rsum n g.
Proof.
  induction n as [|n IH]; intros H; simpl; [reflexivity|].
  rewrite IH by (intros; apply H; lia). rewrite H by lia. reflexivity.
Qed.
Lemma Rsum_scal n c f : Rsum n (fun i => c * f i) = c * Rsum n f.
Proof. induction n as [|n IH]; simpl; [ring|rewrite IH; ring]. Qed.
Lemma Rsum_plus n f g : Rsum n (fun i => f i + g i) = Rsum n f + Rsum n g.
Proof. induction n as [|n IH]; simpl; [ring|rewrite IH; ring]. Qed.
Lemma Rsum_zero n f : (forall i, (i < n)%nat -> f i = 0) -> Rsum n f = 0.
Proof.
  induction n as [|n IH]; intros H; simpl; [reflexivity|].
  rewrite IH by (intros; apply H; lia). rewrite H by lia. ring.
Qed.
Lemma Rsum_nonneg n f : (forall i, (i < n)%nat -> 0 <= f i) -> 0 <= Rsum n f.
Proof.
  induction n as [|n IH]; intros H; simpl; [lra|].
  assert (0 <= Rsum n f) by (apply IH; intros; apply H; lia).
  assert (0 <= f n) by (apply H; lia). lra.
Qed.
Lemma Rsum_pos n f k : (forall i, (i < n)%nat -> 0 <= f i) -> (k < n)%nat -> 0 < f k -> 0 < Rsum n f.
Proof.
  induction n as [|n IH]; intros H Hk Hp; [lia|]. simpl.
  assert (0 <= f n) by (apply H; lia).
  assert (0 <= Rsum n f) by (apply Rsum_nonneg; intros; apply H; lia).
  destruct (Nat.eq_dec k n) as [->|Hne]; [lra|].
  assert (0 < Rsum n f) by (apply IH; [intros; apply H; lia|lia|assumption]). lra.
Qed.
(* a sum that is not zero has a term that is not zero *)
Lemma Rsum_nonzero_ex n f : Rsum n f <> 0 -> exists i, (i < n)%nat /\ f i <> 0.
Proof.
  induction n as [|n IH]; simpl; intros H; [lra|].
  destruct (Req_EM_T (f n) 0) as [E|E].
  - rewrite E, Rplus_0_r in H. destruct (IH H) as [i [Hi Hf]]. exists i; split; [lia|assumption].
  - exists n; split; [lia|assumption].
Qed.

(* ------------------------------------------------------------------ list plumbing *)
Section Lists.
Context {A B C : Type}.

Lemma map2_length (f : A -> B -> C) u v : length (map2 f u v) = Nat.min (length u) (length v).
Proof. revert v; induction u as [|a u IH]; intros [|b v]; simpl; auto. Qed.

Lemma map2_nth (f : A -> B -> C) u v i da db dc :
  (i < length u)%nat -> (i < length v)%nat -> nth i (map2 f u v) dc = f (nth i u da) (nth i v db).
Proof.
  revert v i; induction u as [|a u IH]; intros [|b v] i Hu Hv; simpl in *; try lia.
  destruct i; [reflexivity|]. apply IH; lia.
Qed.
End Lists.

Lemma nth_firstn_lt {A} (l : list A) n i d : (i < n)%nat -> nth i (firstn n l) d = nth i l d.
Proof.
  revert l i; induction n as [|n IH]; intros l i H; [lia|].
  destruct l as [|a l]; [destruct i; reflexivity|]. destruct i; simpl; [reflexivity|apply IH; lia].
Qed.
Lemma nth_skipn' {A} (l : list A) n i d : nth i (skipn n l) d = nth (n + i) l d.
Proof.
  revert l; induction n as [|n IH]; intros l; [reflexivity|].
  destruct l as [|a l]; [destruct i; reflexivity|]. simpl. apply IH.
Qed.
Lemma skipn_skipn' {A} (l : list A) a b : skipn a (skipn b l) = skipn (b + a) l.
Proof.
  revert l; induction b as [|b IH]; intros l; [reflexivity|].
  destruct l as [|x l]; [destruct a; reflexivity|]. simpl. apply IH.
Qed.

Lemma chunk_length {A} w k (l : list A) : length (chunk w k l) = k.
Proof. revert l; induction k as [|k IH]; intros l; simpl; [reflexivity|rewrite IH; reflexivity]. Qed.
Lemma chunk_nth {A} w k (l : list A) r :
  (r < k)%nat -> nth r (chunk w k l) [] = firstn w (skipn (r * w) l).
Proof.
  revert l r; induction k as [|k IH]; intros l r H; [lia|].
  destruct r as [|r]; simpl; [reflexivity|].
  rewrite IH by lia. rewrite skipn_skipn'. reflexivity.
Qed.
Lemma chunk_nth_nth {A} w k (l : list A) r i d :
  (r < k)%nat -> (i < w)%nat -> nth i (nth r (chunk w k l) []) d = nth (r * w + i) l d.
Proof. intros Hr Hi. rewrite chunk_nth by assumption. rewrite nth_firstn_lt by assumption. apply nth_skipn'. Qed.
Lemma chunk_row_length {A} w k (l : list A) r :
  (r < k)%nat -> (k * w <= length l)%nat -> length (nth r (chunk w k l) []) = w.
Proof.
  intros Hr Hl. rewrite chunk_nth by assumption. rewrite firstn_length, skipn_length.
  assert (r * w + w <= k * w)%nat by nia. lia.
Qed.

(* rows of a common width w, concatenated: flat index r*w + i *)
Lemma concat_nth_uniform {A} (m : list (list A)) w r i d :
  (forall row, In row m -> length row = w) -> (r < length m)%nat -> (i < w)%nat ->
  nth (r * w + i) (concat m) d = nth i (nth r m []) d.
Proof.
  revert r; induction m as [|row m IH]; intros r Hw Hr Hi; simpl in *; [lia|].
  assert (Hl : length row = w) by (apply Hw; auto).
  destruct r as [|r]; simpl.
  - rewrite app_nth1 by lia. reflexivity.
  - rewrite app_nth2 by lia. replace (w + r * w + i - length row)%nat with (r * w + i)%nat by lia.
    apply IH; [intros; apply Hw; auto|lia|assumption].
Qed.
Lemma concat_length_uniform {A} (m : list (list A)) w :
  (forall row, In row m -> length row = w) -> length (concat m) = (length m * w)%nat.
Proof.
  induction m as [|row m IH]; intros Hw; simpl; [reflexivity|].
  rewrite app_length, IH by (intros; apply Hw; simpl; auto). rewrite (Hw row) by (simpl; auto). reflexivity.
Qed.

(* flat_map over a range with blocks of a common width *)
Lemma flat_map_seq_length {A} (f : nat -> list A) w a n :
  (forall k, (a <= k < a + n)%nat -> length (f k) = w) -> length (flat_map f (seq a n)) = (n * w)%nat.
Proof.
  revert a; induction n as [|n IH]; intros a H; simpl; [reflexivity|].
  rewrite app_length, IH by (intros; apply H; lia). rewrite H by lia. reflexivity.
Qed.
Lemma flat_map_seq_nth {A} (f : nat -> list A) w a n k i d :
  (forall k, (a <= k < a + n)%nat -> length (f k) = w) -> (k < n)%nat -> (i < w)%nat ->
  nth (k * w + i) (flat_map f (seq a n)) d = nth i (f (a + k)%nat) d.
Proof.
  revert a k; induction n as [|n IH]; intros a k H Hk Hi; [lia|]. simpl.
  assert (Hl : length (f a) = w) by (apply H; lia).
  destruct k as [|k]; simpl.
  - rewrite app_nth1 by lia. rewrite Nat.add_0_r. reflexivity.
  - rewrite app_nth2 by lia. replace (w + k * w + i - length (f a))%nat with (k * w + i)%nat by lia.
    rewrite IH by (try lia; intros; apply H; lia). f_equal. f_equal. lia.
Qed.
Lemma map_seq_nth {A} (f : nat -> A) a n i d : (i < n)%nat -> nth i (map f (seq a n)) d = f (a + i)%nat.
Proof. intros H. rewrite (nth_indep _ d (f 0%nat)) by (rewrite map_length, seq_length; lia).
  rewrite map_nth, seq_nth by lia. reflexivity. Qed.
Lemma map_nth_seq {A} (l : list A) d : l = map (fun i => nth i l d) (seq 0 (length l)).
Proof.
  induction l as [|a l IH]; [reflexivity|]. simpl. f_equal.
  rewrite <- seq_shift, map_map. exact IH.
Qed.

(* ------------------------------------------------------------------ sums and dot products over RN *)
(* [ring] infers its carrier from sub-terms: hide the ones whose type is printed as [T RN] *)
Ltac hideT :=
  repeat match goal with
  | |- context [tsum RN ?l] => let x := fresh "x" in pose (x := (tsum RN l : R)); change (tsum RN l) with x; clearbody x
  | |- context [dot RN ?u ?v] => let x := fresh "x" in pose (x := (dot RN u v : R)); change (dot RN u v) with x; clearbody x
  | |- context [sumf RN ?n ?f] => let x := fresh "x" in pose (x := (sumf RN n f : R)); change (sumf RN n f) with x; clearbody x
  | |- context [nth0 RN ?i ?l] => let x := fresh "x" in pose (x := (nth0 RN i l : R)); change (nth0 RN i l) with x; clearbody x
  end.
Ltac rring := rn_simpl; hideT; ring.
Lemma tsum_app (u v : list R) : tsum RN (u ++ v) = tsum RN u + tsum RN v.
Proof. induction u as [|a u IH]; simpl; rn_simpl; [rring|rewrite IH; rring]. Qed.
Lemma sumf_Rsum n (f : nat -> R) : sumf RN n f = Rsum n f.
Proof.
  unfold sumf. induction n as [|n IH]; [reflexivity|].
  rewrite seq_S, map_app, tsum_app, IH. simpl. rring.
Qed.
Lemma dot_nil_l (v : list R) : dot RN [] v = 0.
Proof. reflexivity. Qed.
Lemma dot_cons a u b v : dot RN (a :: u) (b :: v) = a * b + dot RN u v.
Proof. reflexivity. Qed.
Lemma dot_app (u1 u2 v1 v2 : list R) :
  length u1 = length v1 -> dot RN (u1 ++ u2) (v1 ++ v2) = dot RN u1 v1 + dot RN u2 v2.
Proof.
  revert v1; induction u1 as [|a u1 IH]; intros [|b v1] H; simpl in H; try discriminate.
  - simpl. rewrite dot_nil_l. rring.
  - simpl app. rewrite !dot_cons, IH by lia. rring.
Qed.
(* dot product as an indexed sum *)
Lemma dot_Rsum (u v : list R) n :
  length u = n -> length v = n -> dot RN u v = Rsum n (fun i => nth i u 0 * nth i v 0).
Proof.
  revert u v; induction n as [|n IH]; intros u v Hu Hv.
  - destruct u; [reflexivity|discriminate].
  - destruct (exists_last (l := u)) as [u' [a ->]]; [intros ->; discriminate|].
    destruct (exists_last (l := v)) as [v' [b ->]]; [intros ->; discriminate|].
    rewrite app_length in Hu, Hv. simpl in Hu, Hv.
    rewrite dot_app by lia. simpl Rsum.
    rewrite (IH u' v') by lia.
    rewrite !app_nth2 by lia. replace (n - length u')%nat with 0%nat by lia.
    replace (n - length v')%nat with 0%nat by lia. simpl nth.
    rewrite dot_cons, dot_nil_l. f_equal; [|rring].
    apply Rsum_ext; intros i Hi. rewrite !app_nth1 by lia. reflexivity.
Qed.
(* blocks of pairwise equal length: the dot product of the concatenations is the sum of the block dot products *)
Lemma dot_flat_map_seq (f g : nat -> list R) n :
  (forall k, (k < n)%nat -> length (f k) = length (g k)) ->
  dot RN (flat_map f (seq 0 n)) (flat_map g (seq 0 n)) = Rsum n (fun k => dot RN (f k) (g k)).
Proof.
  induction n as [|n IH]; intros H; [reflexivity|].
  rewrite seq_S, !flat_map_app. simpl flat_map. rewrite !app_nil_r.
  rewrite dot_app.
  - rewrite IH by (intros; apply H; lia). reflexivity.
  - clear IH. assert (forall a m, (forall k, (a <= k < a + m)%nat -> length (f k) = length (g k)) ->
        length (flat_map f (seq a m)) = length (flat_map g (seq a m))) as Hlen.
    { intros a m; revert a; induction m as [|m IHm]; intros a Hk; [reflexivity|]. simpl.
      rewrite !app_length, Hk by lia. f_equal. apply IHm; intros; apply Hk; lia. }
    apply Hlen; intros; apply H; lia.
Qed.
Lemma dot_map_seq (f g : nat -> R) n :
  dot RN (map f (seq 0 n)) (map g (seq 0 n)) = Rsum n (fun k => f k * g k).
Proof.
  induction n as [|n IH]; [reflexivity|].
  rewrite seq_S, !map_app. simpl map. rewrite dot_app by (rewrite !map_length; reflexivity).
  rewrite IH, dot_cons, dot_nil_l. simpl. rring.
Qed.

Lemma nth_map_lt {A B} (f : A -> B) l i da db : (i < length l)%nat -> nth i (map f l) db = f (nth i l da).
Proof. intros H. rewrite (nth_indep _ db (f da)) by (rewrite map_length; exact H). apply map_nth. Qed.

(* ==================================================================== dense / direct *)

Lemma linear_length (x W : list (list R)) b : length (linear RN x W b) = length x.
Proof. unfold linear. apply map_length. Qed.
Lemma linear_row_length (x W : list (list R)) b row :
  (forall bv, b = Some bv -> length bv = length W) -> In row (linear RN x W b) -> length row = length W.
Proof.
  intros Hb Hin. unfold linear in Hin. apply in_map_iff in Hin. destruct Hin as [xr [<- _]].
  destruct b as [bv|]; [|apply map_length].
  rewrite map2_length, map_length, (Hb bv eq_refl). apply Nat.min_id.
Qed.
Lemma linear_nth (x W : list (list R)) b r o :
  (r < length x)%nat -> (o < length W)%nat -> (forall bv, b = Some bv -> length bv = length W) ->
  nth o (nth r (linear RN x W b) []) 0 = dot RN (nth r x []) (nth o W []) + bias_at b o.
Proof.
  intros Hr Ho Hb. unfold linear. rewrite (nth_map_lt _ _ _ []) by exact Hr.
  destruct b as [bv|]; simpl bias_at.
  - pose proof (Hb bv eq_refl) as Hbl. rn_simpl.
    rewrite (map2_nth _ _ _ _ 0 0) by (rewrite ?map_length; lia).
    rewrite (nth_map_lt _ _ _ []) by exact Ho. reflexivity.
  - rewrite (nth_map_lt _ _ _ []) by exact Ho. rn_simpl. lra.
Qed.

(* LinearDense.forward = x W^T + b, element by element over flat row-major indices, and the result has the
   advertised batched output shape *)
Theorem dense_forward_spec (c : dense RN) (x out : tensor RN) :
  let I := prodn (d_in RN c) in let O := prodn (d_out RN c) in let B := d_B RN c in
  dense_forward RN c x = Ok out ->
  length (tdata x) = (B * I)%nat ->
  length (d_w RN c) = O -> (forall wr, In wr (d_w RN c) -> length wr = I) ->
  (forall bv, d_b RN c = Some bv -> length bv = O) -> (0 < O)%nat ->
  tshape out = B :: d_out RN c /\ length (tdata out) = (B * O)%nat /\
  forall r o, (r < B)%nat -> (o < O)%nat ->
    nth (r * O + o) (tdata out) 0 =
    Rsum I (fun i => nth (r * I + i) (tdata x) 0 * nth i (nth o (d_w RN c) []) 0) + bias_at (d_b RN c) o.
Proof.
  intros I O B Hf Hx HW HWr Hb HO. unfold dense_forward in Hf. fold I O in Hf.
  destruct (tshape x) as [|b0 rest]; [discriminate|].
  destruct ((b0 =? d_B RN c) && (prodn rest =? I)) eqn:E; simpl in Hf; [|discriminate].
  apply andb_true_iff in E. destruct E as [E1 _]. apply Nat.eqb_eq in E1. fold B in E1. subst b0.
  injection Hf as <-. simpl tshape. simpl tdata.
  set (cur := chunk I B _).
  assert (Hrows : forall row, In row (linear RN cur (d_w RN c) (d_b RN c)) -> length row = O).
  { intros row Hin. rewrite <- HW. eapply linear_row_length; [|exact Hin]. intros bv Hbv. transitivity O; [exact (Hb bv Hbv)|symmetry; exact HW]. }
  rn_simpl. split; [|split].
  - unfold view_shape. fold O. rewrite Nat.div_mul by lia. reflexivity.
  - rewrite (concat_length_uniform _ O Hrows), linear_length. unfold cur. rewrite chunk_length. reflexivity.
  - intros r o Hr Ho.
    assert (Hlc : length cur = B) by (unfold cur; apply chunk_length).
    rewrite (concat_nth_uniform _ O); [| exact Hrows | rewrite linear_length, Hlc; exact Hr | exact Ho].
    rewrite linear_nth; [| rewrite Hlc; exact Hr | rewrite HW; exact Ho
                         | intros bv Hbv; transitivity O; [exact (Hb bv Hbv)|symmetry; exact HW]].
    f_equal.
    rewrite (dot_Rsum _ _ I).
    + apply Rsum_ext; intros i Hi. unfold cur. rewrite chunk_nth_nth by assumption. reflexivity.
    + unfold cur. apply chunk_row_length; [exact Hr|lia].
    + apply HWr. apply nth_In. lia.
Qed.

Lemma direct_map_length (x : list (list R)) w b : length (direct_map RN x w b) = length x.
Proof. apply map_length. Qed.
(* LinearDirect.forward = x * w + b *)
Theorem direct_forward_spec (c : direct RN) (x out : tensor RN) :
  let n := prodn (r_shape RN c) in let B := r_B RN c in
  direct_forward RN c x = Ok out ->
  length (tdata x) = (B * n)%nat -> length (r_w RN c) = n ->
  (forall bv, r_b RN c = Some bv -> length bv = n) -> (0 < n)%nat ->
  tshape out = B :: r_shape RN c /\ length (tdata out) = (B * n)%nat /\
  forall r o, (r < B)%nat -> (o < n)%nat ->
    nth (r * n + o) (tdata out) 0 = nth (r * n + o) (tdata x) 0 * nth o (r_w RN c) 0 + bias_at (r_b RN c) o.
Proof.
  intros n B Hf Hx Hw Hb Hn. unfold direct_forward in Hf. fold n in Hf.
  destruct (tshape x) as [|b0 rest]; [discriminate|].
  destruct ((b0 =? r_B RN c) && (prodn rest =? n)) eqn:E; simpl in Hf; [|discriminate].
  apply andb_true_iff in E. destruct E as [E1 _]. apply Nat.eqb_eq in E1. fold B in E1. subst b0.
  injection Hf as <-. simpl tshape. simpl tdata.
  set (cur := chunk n B _).
  assert (Hrowx : forall r, (r < B)%nat -> length (nth r cur []) = n).
  { intros r Hr. unfold cur. apply chunk_row_length; [exact Hr|apply Nat.eq_le_incl; symmetry; exact Hx]. }
  assert (Hrows : forall row, In row (direct_map RN cur (r_w RN c) (r_b RN c)) -> length row = n).
  { intros row Hin. unfold direct_map in Hin. apply in_map_iff in Hin. destruct Hin as [xr [<- Hxr]].
    apply (In_nth _ _ []) in Hxr. destruct Hxr as [r [Hr <-]]. unfold cur in Hr. rewrite chunk_length in Hr.
    pose proof (Hrowx r Hr) as Hlx.
    destruct (r_b RN c) as [bv|]; [pose proof (Hb bv eq_refl) as Hlb|]; rn_simpl; rewrite ?map2_length; lia. }
  rn_simpl. split; [|split].
  - unfold view_shape. fold n. rewrite Nat.div_mul by lia. reflexivity.
  - rewrite (concat_length_uniform _ n Hrows), direct_map_length. unfold cur. rewrite chunk_length. reflexivity.
  - intros r o Hr Ho.
    rewrite (concat_nth_uniform _ n) by (try assumption; rewrite direct_map_length; unfold cur; rewrite chunk_length; exact Hr).
    unfold direct_map. rewrite (nth_map_lt _ _ _ []) by (unfold cur; rewrite chunk_length; exact Hr).
    assert (Hx' : nth o (nth r cur []) 0 = nth (r * n + o) (tdata x) 0).
    { unfold cur. apply chunk_nth_nth; assumption. }
    pose proof (Hrowx r Hr) as Hlx.
    destruct (r_b RN c) as [bv|]; simpl bias_at.
    + pose proof (Hb bv eq_refl) as Hlb. rn_simpl.
      rewrite (map2_nth _ _ _ _ 0 0) by (rewrite ?map2_length; lia).
      rewrite (map2_nth _ _ _ _ 0 0) by lia.
      rewrite Hx'. reflexivity.
    + rn_simpl. rewrite (map2_nth _ _ _ _ 0 0) by lia.
      rewrite Hx'. lra.
Qed.

(* ==================================================================== lateral *)
Lemma mapi_from_length {A B} (f : nat -> A -> B) l k : length (mapi_from k f l) = length l.
Proof. revert k; induction l as [|a l IH]; intros k; simpl; [reflexivity|rewrite IH; reflexivity]. Qed.
Lemma mapi_from_nth {A B} (f : nat -> A -> B) l k i da db :
  (i < length l)%nat -> nth i (mapi_from k f l) db = f (k + i)%nat (nth i l da).
Proof.
  revert k i; induction l as [|a l IH]; intros k i H; simpl in *; [lia|].
  destruct i as [|i]; [rewrite Nat.add_0_r; reflexivity|].
  rewrite IH by lia. f_equal. lia.
Qed.
Lemma mapi_nth {A B} (f : nat -> A -> B) l i da db :
  (i < length l)%nat -> nth i (mapi f l) db = f i (nth i l da).
Proof. intros H. unfold mapi. rewrite (mapi_from_nth _ _ _ _ da) by exact H. reflexivity. Qed.
Lemma mapi_length {A B} (f : nat -> A -> B) l : length (mapi f l) = length l.
Proof. apply mapi_from_length. Qed.

Lemma mask_el_diag i : mask_el RN i i = 0.
Proof. unfold mask_el. rewrite Nat.eqb_refl. rn_simpl. lra. Qed.
Lemma mask_el_off i j : i <> j -> mask_el RN i j = 1.
Proof. intros H. unfold mask_el. apply Nat.eqb_neq in H. rewrite H. rn_simpl. lra. Qed.


(* the masked setter: every entry is multiplied by 1 - [i = j], whatever the shape of the value *)
Lemma masked_at v i j : mat_at (masked RN v) i j = mat_at v i j * mask_el RN i j.
Proof.
  unfold mat_at, masked.
  destruct (lt_dec i (length v)) as [Hi|Hi].
  - rewrite (mapi_nth _ _ _ []) by exact Hi.
    destruct (lt_dec j (length (nth i v []))) as [Hj|Hj].
    + rewrite (mapi_nth _ _ _ 0) by exact Hj. reflexivity.
    + rewrite (nth_overflow (mapi _ _)) by (rewrite mapi_length; lia).
      rewrite (nth_overflow (nth i v [])) by lia. apply eq_sym, Rmult_0_l.
  - rewrite (nth_overflow (mapi _ _)) by (rewrite mapi_length; lia).
    rewrite (nth_overflow v) by lia. destruct j; simpl; apply eq_sym, Rmult_0_l.
Qed.
Lemma masked_length v : length (masked RN v) = length v.
Proof. apply mapi_length. Qed.
Lemma masked_row_length v i : length (nth i (masked RN v) []) = length (nth i v []).
Proof.
  unfold masked. destruct (lt_dec i (length v)) as [Hi|Hi].
  - rewrite (mapi_nth _ _ _ []) by exact Hi. apply mapi_length.
  - rewrite !nth_overflow by (rewrite ?mapi_length; lia). reflexivity.
Qed.

Lemma masked_diag_zero v : diag_zero (masked RN v).
Proof. intros i. rewrite masked_at, mask_el_diag. lra. Qed.
Lemma masked_off v i j : i <> j -> mat_at (masked RN v) i j = mat_at v i j.
Proof. intros H. rewrite masked_at, mask_el_off by exact H. lra. Qed.


Lemma lat_step_inv s o : lat_inv s -> lat_inv (lat_step RN s o).
Proof.
  intros [Hw Hd]. destruct o as [v|v|b|pw nw pd nd|x]; simpl.
  - split; [apply masked_diag_zero|exact Hd].
  - unfold lat_set_delay. destruct (l_d RN s) eqn:E; split; simpl; try assumption.
    + apply masked_diag_zero.
    + rewrite E. exact Hd.
  - unfold lat_set_bias. destruct (l_b RN s); split; simpl; assumption.
  - split; simpl; [apply masked_diag_zero|]. destruct (l_d RN s); [apply masked_diag_zero|exact I].
  - split; assumption.
Qed.
Lemma lat_run_inv ops : forall s, lat_inv s -> lat_inv (lat_run RN s ops).
Proof.
  induction ops as [|o ops IH]; intros s H; [exact H|]. simpl. apply IH. apply lat_step_inv. exact H.
Qed.
Lemma lat_ctor_inv sh B winit hd dinit binit s0 :
  lat_ctor RN sh B winit hd dinit binit = Ok s0 -> lat_inv s0.
Proof.
  unfold lat_ctor. destruct (_ || _); [discriminate|]. intros H; injection H as <-.
  split; simpl; [apply masked_diag_zero|].
  destruct hd; [|exact I]. destruct dinit; apply masked_diag_zero.
Qed.

(* A lateral connection never has a nonzero self-weight or self-delay, whatever initialisers it is built with and
   whatever sequence of weight / delay / bias assignments (full or broadcast values), updater applications and forward
   steps follows. *)
Theorem lateral_diag_zero sh B winit hd dinit binit s0 ops :
  lat_ctor RN sh B winit hd dinit binit = Ok s0 ->
  let s := lat_run RN s0 ops in
  (forall i, mat_at (l_w RN s) i i = 0) /\
  (forall d, l_d RN s = Some d -> forall i, mat_at d i i = 0).
Proof.
  intros Hc s. pose proof (lat_run_inv ops s0 (lat_ctor_inv _ _ _ _ _ _ _ Hc)) as [Hw Hd]. fold s in Hw, Hd.
  split; [exact Hw|]. intros d E. rewrite E in Hd. exact Hd.
Qed.

(* forward of a lateral connection in any state with a zero diagonal: every output is the sum over the OTHER neurons *)
Theorem lateral_forward_spec (s : lat RN) (x out : tensor RN) :
  let n := prodn (l_shape RN s) in let B := l_B RN s in
  lat_forward RN s x = Ok out -> diag_zero (l_w RN s) ->
  length (tdata x) = (B * n)%nat ->
  length (l_w RN s) = n -> (forall wr, In wr (l_w RN s) -> length wr = n) ->
  (forall bv, l_b RN s = Some bv -> length bv = n) -> (0 < n)%nat ->
  tshape out = B :: l_shape RN s /\
  forall r o, (r < B)%nat -> (o < n)%nat ->
    nth (r * n + o) (tdata out) 0 =
    Rsum n (fun i => if (i =? o)%nat then 0 else nth (r * n + i) (tdata x) 0 * mat_at (l_w RN s) o i)
    + bias_at (l_b RN s) o.
Proof.
  intros n B Hf Hdz Hx HW HWr Hb Hn. unfold lat_forward in Hf.
  destruct (dense_forward_spec _ _ _ Hf Hx HW HWr Hb Hn) as [Hs [_ Hv]]. simpl in Hs, Hv.
  split; [exact Hs|]. intros r o Hr Ho. etransitivity; [exact (Hv r o Hr Ho)|]. f_equal.
  apply Rsum_ext; intros i Hi. destruct (Nat.eqb_spec i o) as [->|Hne]; [|reflexivity].
  fold (mat_at (l_w RN s) o o). rewrite Hdz. lra.
Qed.

(* ==================================================================== conv2d *)
Lemma flat_map_map {A B C} (h : B -> list C) (g : A -> B) l : flat_map h (map g l) = flat_map (fun x => h (g x)) l.
Proof. induction l as [|a l IH]; simpl; [reflexivity|rewrite IH; reflexivity]. Qed.
Lemma map_flat_map' {A B C} (h : B -> C) (g : A -> list B) l : map h (flat_map g l) = flat_map (fun x => map h (g x)) l.
Proof. induction l as [|a l IH]; simpl; [reflexivity|rewrite map_app, IH; reflexivity]. Qed.
Lemma flat_map_seq_ext {A} (f g : nat -> list A) a n :
  (forall k, (a <= k < a + n)%nat -> f k = g k) -> flat_map f (seq a n) = flat_map g (seq a n).
Proof.
  revert a; induction n as [|n IH]; intros a H; simpl; [reflexivity|].
  rewrite H by lia. f_equal. apply IH. intros; apply H; lia.
Qed.
Lemma map_seq_ext {A} (f g : nat -> A) a n :
  (forall k, (a <= k < a + n)%nat -> f k = g k) -> map f (seq a n) = map g (seq a n).
Proof. intros H. apply map_ext_in. intros k Hk. apply in_seq in Hk. apply H. lia. Qed.
Lemma flat_map_nth_seq {A B} (h : A -> list B) (l : list A) d :
  flat_map h l = flat_map (fun k => h (nth k l d)) (seq 0 (length l)).
Proof. rewrite (map_nth_seq l d) at 1. apply flat_map_map. Qed.
Lemma concat_flat_map_id {A} (m : list (list A)) : concat m = flat_map (fun r => r) m.
Proof. induction m as [|r m IH]; simpl; [reflexivity|rewrite IH; reflexivity]. Qed.

Lemma flat_index_lt a b n m : (a < n)%nat -> (b < m)%nat -> (a * m + b < n * m)%nat.
Proof.
  intros Ha Hb. assert (H : (S a * m <= n * m)%nat) by (apply Nat.mul_le_mono_r; lia). simpl in H. lia.
Qed.

(* the coded output-size expression (float division, +1, floor) is the integer formula *)
Theorem outsz_code_spec size p d k s :
  (0 < s)%Z -> outsz_code RN size p d k s = ((size + 2 * p - d * (k - 1) - 1) / s + 1)%Z.
Proof.
  intros Hs. unfold outsz_code, conv_outsize. rn_simpl.
  set (n := (size + 2 * p - d * (k - 1) - 1)%Z).
  apply Zfloor_imp.
  assert (Hs' : 0 < IZR s) by (apply IZR_lt; exact Hs).
  pose proof (Z.div_mod n s ltac:(lia)) as Hdm.
  pose proof (Z.mod_pos_bound n s Hs) as Hm.
  assert (Hn : IZR n = IZR s * IZR (n / s) + IZR (n mod s)).
  { rewrite <- mult_IZR, <- plus_IZR. f_equal. exact Hdm. }
  assert (Hq : IZR n / IZR s = IZR (n / s) + IZR (n mod s) / IZR s).
  { rewrite Hn. field. lra. }
  assert (H0 : 0 <= IZR (n mod s) / IZR s).
  { apply Rmult_le_pos; [apply IZR_le; lia|left; apply Rinv_0_lt_compat; exact Hs']. }
  assert (H1 : IZR (n mod s) / IZR s < 1).
  { apply (Rmult_lt_reg_r (IZR s)); [exact Hs'|]. unfold Rdiv. rewrite Rmult_assoc, Rinv_l by lra.
    rewrite Rmult_1_r, Rmult_1_l. apply IZR_lt. lia. }
  rewrite !plus_IZR. simpl IZR. rewrite Hq. lra.
Qed.

Section Conv.
Variable g : geom.
Let C := Z.to_nat (gC g).
Let KH := Z.to_nat (kH g).
Let KW := Z.to_nat (kW g).
Let HO := Z.to_nat (outH RN g).
Let WO := Z.to_nat (outW RN g).


(* one row of the unfolded matrix: kernel offset (c, i, j), all output positions *)
Definition urow (x : image RN) (c i j : nat) : list R :=
  flat_map (fun oh => map (fun ow => xp g x c (rowpos g oh i) (colpos g ow j)) (seq 0 WO)) (seq 0 HO).

Lemma unfold_canon x :
  unfold RN g x = flat_map (fun c => flat_map (fun i => map (fun j => urow x c i j) (seq 0 KW)) (seq 0 KH)) (seq 0 C).
Proof. reflexivity. Qed.

Lemma urow_length x c i j : length (urow x c i j) = (HO * WO)%nat.
Proof. unfold urow. apply flat_map_seq_length. intros. rewrite map_length, seq_length. reflexivity. Qed.
Lemma urow_nth x c i j oh ow :
  (oh < HO)%nat -> (ow < WO)%nat -> nth (oh * WO + ow) (urow x c i j) 0 = xp g x c (rowpos g oh i) (colpos g ow j).
Proof.
  intros Hoh How. unfold urow.
  rewrite (flat_map_seq_nth _ WO) by (try assumption; intros; rewrite map_length, seq_length; reflexivity).
  rewrite map_seq_nth by assumption. reflexivity.
Qed.

Lemma kblock_length {A} (f : nat -> nat -> A) :
  length (flat_map (fun i => map (fun j => f i j) (seq 0 KW)) (seq 0 KH)) = (KH * KW)%nat.
Proof. apply flat_map_seq_length. intros. rewrite map_length, seq_length. reflexivity. Qed.

Lemma unfold_length x : length (unfold RN g x) = (C * (KH * KW))%nat.
Proof. rewrite unfold_canon. apply flat_map_seq_length. intros. apply kblock_length. Qed.

(* like_synaptic: row (c, i, j) (row-major), column (oh, ow) (row-major) holds the zero-padded input element at
   (c, oh*s + i*d - p, ow*s + j*d - p) *)
Theorem unfold_spec x c i j oh ow :
  (c < C)%nat -> (i < KH)%nat -> (j < KW)%nat -> (oh < HO)%nat -> (ow < WO)%nat ->
  nth (oh * WO + ow) (nth ((c * KH + i) * KW + j) (unfold RN g x) []) 0 = xp g x c (rowpos g oh i) (colpos g ow j).
Proof.
  intros Hc Hi Hj Hoh How. rewrite unfold_canon.
  replace ((c * KH + i) * KW + j)%nat with (c * (KH * KW) + (i * KW + j))%nat by nia.
  rewrite (flat_map_seq_nth _ (KH * KW)) by (try assumption; try nia; intros; apply kblock_length).
  rewrite (flat_map_seq_nth _ KW) by (try assumption; intros; rewrite map_length, seq_length; reflexivity).
  rewrite map_seq_nth by assumption. simpl. apply urow_nth; assumption.
Qed.
Lemma unfold_row_length x n : (n < C * (KH * KW))%nat -> length (nth n (unfold RN g x) []) = (HO * WO)%nat.
Proof.
  intros Hn.
  assert (HK : (0 < KH * KW)%nat) by (destruct (KH * KW)%nat; [lia|lia]).
  assert (HKW : (0 < KW)%nat) by (destruct KW; [lia|lia]).
  set (c := (n / (KH * KW))%nat). set (r := (n mod (KH * KW))%nat).
  assert (Hn' : n = (c * (KH * KW) + r)%nat) by (unfold c, r; rewrite Nat.mul_comm; apply Nat.div_mod; lia).
  assert (Hr : (r < KH * KW)%nat) by (apply Nat.mod_upper_bound; lia).
  assert (Hc : (c < C)%nat) by (apply Nat.div_lt_upper_bound; [lia|rewrite Nat.mul_comm; exact Hn]).
  set (i := (r / KW)%nat). set (j := (r mod KW)%nat).
  assert (Hr' : r = (i * KW + j)%nat) by (unfold i, j; rewrite Nat.mul_comm; apply Nat.div_mod; lia).
  assert (Hj : (j < KW)%nat) by (apply Nat.mod_upper_bound; lia).
  assert (Hi : (i < KH)%nat) by (apply Nat.div_lt_upper_bound; [lia|rewrite Nat.mul_comm; exact Hr]).
  rewrite Hn', Hr', unfold_canon.
  rewrite (flat_map_seq_nth _ (KH * KW)) by (try assumption; try nia; intros; apply kblock_length).
  rewrite (flat_map_seq_nth _ KW) by (try assumption; intros; rewrite map_length, seq_length; reflexivity).
  rewrite map_seq_nth by assumption. apply urow_length.
Qed.


Lemma kernel_row_canon w f :
  wf_kernel g w -> (f < length w)%nat ->
  nth f (flatten_kernel RN w) [] =
  flat_map (fun c => flat_map (fun i => map (fun j => w4 w f c i j) (seq 0 KW)) (seq 0 KH)) (seq 0 C).
Proof.
  intros Hwf Hf. unfold flatten_kernel. rewrite (nth_map_lt _ _ _ []) by exact Hf.
  set (wf := nth f w []). assert (Hin : In wf w) by (apply nth_In; exact Hf).
  destruct (Hwf wf Hin) as [HlC Hwc].
  rewrite <- flat_map_concat_map. rewrite (flat_map_nth_seq _ wf []), HlC.
  apply flat_map_seq_ext. intros c Hc. simpl in Hc.
  assert (Hinc : In (nth c wf []) wf) by (apply nth_In; lia).
  destruct (Hwc _ Hinc) as [HlK Hrow].
  rewrite concat_flat_map_id, (flat_map_nth_seq _ (nth c wf []) []), HlK.
  apply flat_map_seq_ext. intros i Hi. simpl in Hi.
  assert (Hini : In (nth i (nth c wf []) []) (nth c wf [])) by (apply nth_In; lia).
  rewrite (map_nth_seq (nth i (nth c wf []) []) 0) at 1. rewrite (Hrow _ Hini). reflexivity.
Qed.

Lemma column_unfold x l :
  column RN l (unfold RN g x) =
  flat_map (fun c => flat_map (fun i => map (fun j => nth l (urow x c i j) 0) (seq 0 KW)) (seq 0 KH)) (seq 0 C).
Proof.
  unfold column. rewrite unfold_canon, map_flat_map'.
  apply flat_map_seq_ext; intros c _. rewrite map_flat_map'.
  apply flat_map_seq_ext; intros i _. rewrite map_map. reflexivity.
Qed.

(* one entry of kernel-matrix times unfolded-input is the triple sum over the receptive field *)
Lemma kernel_dot_column w x f oh ow :
  wf_kernel g w -> (f < length w)%nat -> (oh < HO)%nat -> (ow < WO)%nat ->
  dot RN (nth f (flatten_kernel RN w) []) (column RN (oh * WO + ow) (unfold RN g x)) =
  Rsum C (fun c => Rsum KH (fun i => Rsum KW (fun j => w4 w f c i j * xp g x c (rowpos g oh i) (colpos g ow j)))).
Proof.
  intros Hwf Hf Hoh How. rewrite kernel_row_canon, column_unfold by assumption.
  rewrite dot_flat_map_seq by (intros; rewrite !kblock_length; reflexivity).
  apply Rsum_ext; intros c Hc.
  rewrite dot_flat_map_seq by (intros; rewrite !map_length; reflexivity).
  apply Rsum_ext; intros i Hi.
  rewrite dot_map_seq. apply Rsum_ext; intros j Hj.
  rewrite urow_nth by assumption. reflexivity.
Qed.


Lemma flatten_kernel_length (w : list (list (list (list R)))) : length (flatten_kernel RN w) = length w.
Proof. apply map_length. Qed.
Lemma matmul_nth (A M : list (list R)) ncols f l :
  (f < length A)%nat -> (l < ncols)%nat ->
  nth l (nth f (matmul RN A M ncols) []) 0 = dot RN (nth f A []) (column RN l M).
Proof.
  intros Hf Hl. unfold matmul. rewrite (nth_map_lt _ _ _ []) by exact Hf.
  rewrite map_seq_nth by exact Hl. reflexivity.
Qed.
Lemma matmul_row_length (A M : list (list R)) ncols f :
  (f < length A)%nat -> length (nth f (matmul RN A M ncols) []) = ncols.
Proof.
  intros Hf. unfold matmul. rewrite (nth_map_lt _ _ _ []) by exact Hf. rewrite map_length, seq_length. reflexivity.
Qed.

(* Conv2D.forward (undelayed): the unfold / flattened-kernel matmul / fold-back pipeline IS the zero-padded
   2-D cross-correlation with the configured stride, padding and dilation, plus the per-filter bias *)
Theorem conv_map_is_crosscorrelation w b x f oh ow :
  wf_kernel g w -> (forall bv, b = Some bv -> length bv = length w) ->
  (f < length w)%nat -> (oh < HO)%nat -> (ow < WO)%nat ->
  nth ow (nth oh (nth f (conv_map RN g w b (unfold RN g x)) []) []) 0 = conv_spec g w b x f oh ow.
Proof.
  intros Hwf Hb Hf Hoh How. unfold conv_map, conv_spec. fold HO WO C KH KW.
  set (K := flatten_kernel RN w). set (U := unfold RN g x).
  assert (HK : length K = length w) by (unfold K, flatten_kernel; apply map_length).
  set (r := map (chunk WO HO) (matmul RN K U (HO * WO))).
  assert (Hr : nth f r [] = chunk WO HO (nth f (matmul RN K U (HO * WO)) [])).
  { unfold r. apply (nth_map_lt _ _ _ []). unfold matmul. rewrite map_length, HK. exact Hf. }
  assert (Hcore : nth ow (nth oh (nth f r []) []) 0 =
                  Rsum C (fun c => Rsum KH (fun i => Rsum KW (fun j => w4 w f c i j * xp g x c (rowpos g oh i) (colpos g ow j))))).
  { rewrite Hr, chunk_nth_nth by assumption.
    rewrite matmul_nth; [| unfold K, flatten_kernel; rewrite map_length; exact Hf | apply flat_index_lt; assumption].
    unfold K, U. apply kernel_dot_column; assumption. }
  destruct b as [bv|]; simpl bias_at.
  - pose proof (Hb bv eq_refl) as Hlb.
    assert (Hlr : length r = length w) by (unfold r, matmul; rewrite !map_length; exact HK).
    rn_simpl.
    rewrite (map2_nth _ _ _ _ [] 0) by lia.
    assert (Hlp : length (nth f r []) = HO) by (rewrite Hr; apply chunk_length).
    rewrite (nth_map_lt _ _ _ []) by lia.
    assert (Hlrow : length (nth oh (nth f r []) []) = WO).
    { rewrite Hr. apply chunk_row_length; [exact Hoh|]. rewrite matmul_row_length by (rewrite HK; exact Hf). lia. }
    rewrite (nth_map_lt _ _ _ 0) by lia.
    rewrite Hcore. lra.
  - rewrite Hcore. lra.
Qed.

(* shape of the result: F planes of Hout rows of Wout entries *)
Theorem conv_map_shape w b cur :
  (forall bv, b = Some bv -> length bv = length w) ->
  length (conv_map RN g w b cur) = length w /\
  forall f, (f < length w)%nat ->
    length (nth f (conv_map RN g w b cur) []) = HO /\
    forall oh, (oh < HO)%nat -> length (nth oh (nth f (conv_map RN g w b cur) []) []) = WO.
Proof.
  intros Hb. unfold conv_map. fold HO WO.
  set (K := flatten_kernel RN w).
  assert (HK : length K = length w) by (unfold K, flatten_kernel; apply map_length).
  set (r := map (chunk WO HO) (matmul RN K cur (HO * WO))).
  assert (Hlr : length r = length w) by (unfold r, matmul; rewrite !map_length; exact HK).
  assert (Hr : forall f, (f < length w)%nat -> nth f r [] = chunk WO HO (nth f (matmul RN K cur (HO * WO)) [])).
  { intros f Hf. unfold r. apply (nth_map_lt _ _ _ []). unfold matmul. rewrite map_length, HK. exact Hf. }
  assert (Hplane : forall f, (f < length w)%nat -> length (nth f r []) = HO /\
            forall oh, (oh < HO)%nat -> length (nth oh (nth f r []) []) = WO).
  { intros f Hf. rewrite (Hr f Hf). split; [apply chunk_length|]. intros oh Hoh.
    apply chunk_row_length; [exact Hoh|]. rewrite matmul_row_length by (unfold K; rewrite flatten_kernel_length; exact Hf). lia. }
  destruct b as [bv|].
  - pose proof (Hb bv eq_refl) as Hlb. rn_simpl. split; [rewrite map2_length; lia|].
    intros f Hf. destruct (Hplane f Hf) as [H1 H2].
    rewrite (map2_nth _ _ _ _ [] 0) by lia. rewrite map_length. split; [exact H1|].
    intros oh Hoh. rewrite (nth_map_lt _ _ _ []) by lia. rewrite map_length. apply H2. exact Hoh.
  - split; [exact Hlr|]. exact Hplane.
Qed.

End Conv.

(* ---- forward of a constructed connection ---- *)
Lemma all_pos_In s z : all_pos s = true -> In z s -> (0 < z)%Z.
Proof. unfold all_pos. rewrite forallb_forall. intros H Hin. apply Z.ltb_lt. apply H. exact Hin. Qed.

(* a successfully constructed Conv2D has strides > 0 and its advertised output size is the documented integer formula *)
Theorem conv_outshape g B w b c :
  conv_ctor RN g B w b = Ok c ->
  c_g RN c = g /\ c_w RN c = w /\ c_b RN c = b /\
  outH RN g = ((gH g + 2 * pH g - dH g * (kH g - 1) - 1) / sH g + 1)%Z /\
  outW RN g = ((gW g + 2 * pW g - dW g * (kW g - 1) - 1) / sW g + 1)%Z.
Proof.
  unfold conv_ctor. intros H.
  match type of H with (if ?cond then _ else _) = _ => destruct cond eqn:E end; [discriminate|].
  injection H as <-. simpl.
  repeat (apply orb_false_iff in E; destruct E as [E ?]).
  apply negb_false_iff in E.
  repeat split; apply outsz_code_spec; apply (all_pos_In _ _ E); simpl; auto 12.
Qed.

Lemma shape_eqb_refl_length a b : shape_eqb a b = true -> length a = length b.
Proof. unfold shape_eqb. intros H. apply andb_true_iff in H. destruct H as [H _]. apply Nat.eqb_eq. exact H. Qed.

Theorem conv_forward_spec (c : conv RN) xshape (xs : list (image RN)) outs :
  let g := c_g RN c in
  conv_forward RN c xshape xs = Ok outs ->
  wf_kernel g (c_w RN c) -> (forall bv, c_b RN c = Some bv -> length bv = length (c_w RN c)) ->
  (0 < outH RN g)%Z /\ (0 < outW RN g)%Z /\ length outs = length xs /\
  forall bi f oh ow,
    (bi < length xs)%nat -> (f < length (c_w RN c))%nat ->
    (oh < Z.to_nat (outH RN g))%nat -> (ow < Z.to_nat (outW RN g))%nat ->
    nth ow (nth oh (nth f (nth bi outs []) []) []) 0 = conv_spec g (c_w RN c) (c_b RN c) (nth bi xs []) f oh ow.
Proof.
  intros g Hf Hwf Hb. unfold conv_forward in Hf. fold g in Hf.
  match type of Hf with (if ?cond then _ else _) = _ => destruct cond end; [discriminate|].
  destruct ((outH RN g <=? 0)%Z || (outW RN g <=? 0)%Z) eqn:E; [discriminate|].
  apply orb_false_iff in E. destruct E as [E1 E2]. apply Z.leb_gt in E1, E2.
  injection Hf as <-. split; [exact E1|]. split; [exact E2|]. split; [apply map_length|].
  intros bi f oh ow Hbi Hff Hoh How.
  rn_simpl. rewrite (nth_map_lt _ xs bi [] []) by exact Hbi.
  apply conv_map_is_crosscorrelation; assumption.
Qed.

(* ---- like_input o like_synaptic ---- *)
Section Fold.
Variable g : geom.
Let C := Z.to_nat (gC g).
Let KH := Z.to_nat (kH g).
Let KW := Z.to_nat (kW g).
Let HO := Z.to_nat (outH RN g).
Let WO := Z.to_nat (outW RN g).


Lemma fold_at_Rsum data c y s :
  fold_at RN g data c y s =
  Rsum KH (fun i => Rsum KW (fun j => Rsum HO (fun oh => Rsum WO (fun ow =>
    if reads g i j oh ow y s then nth (oh * WO + ow) (nth ((c * KH + i) * KW + j) data []) 0 else 0)))).
Proof.
  unfold fold_at. fold KH KW HO WO. rewrite sumf_Rsum. apply Rsum_ext; intros i _.
  rewrite sumf_Rsum. apply Rsum_ext; intros j _.
  rewrite sumf_Rsum. apply Rsum_ext; intros oh _.
  rewrite sumf_Rsum. apply Rsum_ext; intros ow _. reflexivity.
Qed.

Lemma xp_in_range x c y s :
  (Z.of_nat y < gH g)%Z -> (Z.of_nat s < gW g)%Z -> xp g x c (Z.of_nat y) (Z.of_nat s) = img_at x c y s.
Proof.
  intros Hy Hs. unfold xp, xpad, img_at, nth0.
  assert (E : ((0 <=? Z.of_nat y) && (Z.of_nat y <? gH g) && (0 <=? Z.of_nat s) && (Z.of_nat s <? gW g))%Z = true).
  { rewrite !andb_true_iff. repeat split; try (apply Z.leb_le; lia); apply Z.ltb_lt; assumption. }
  rewrite E, !Nat2Z.id. reflexivity.
Qed.

Lemma fold_unfold_at x c y s :
  (c < C)%nat -> (Z.of_nat y < gH g)%Z -> (Z.of_nat s < gW g)%Z ->
  fold_at RN g (unfold RN g x) c y s = img_at x c y s * cnt g y s.
Proof.
  intros Hc Hy Hs. rewrite fold_at_Rsum. unfold cnt.
  rewrite <- Rsum_scal. apply Rsum_ext; intros i Hi.
  rewrite <- Rsum_scal. apply Rsum_ext; intros j Hj.
  rewrite <- Rsum_scal. apply Rsum_ext; intros oh Hoh.
  rewrite <- Rsum_scal. apply Rsum_ext; intros ow How.
  destruct (reads g i j oh ow y s) eqn:E; [|lra].
  unfold reads in E. apply andb_true_iff in E. destruct E as [E1 E2]. apply Z.eqb_eq in E1, E2.
  rewrite (unfold_spec g) by assumption. rewrite E1, E2, xp_in_range by assumption. lra.
Qed.

Lemma ones_like_at (data : list (list R)) n l :
  (n < length data)%nat -> (l < length (nth n data []))%nat -> nth l (nth n (ones_like RN data) []) 0 = 1.
Proof.
  intros Hn Hl. unfold ones_like. rewrite (nth_map_lt _ _ _ []) by exact Hn.
  rewrite (nth_map_lt _ _ _ 0) by exact Hl. reflexivity.
Qed.
Lemma fold_ones_general (data : list (list R)) c y s :
  (c < C)%nat -> length data = (C * (KH * KW))%nat ->
  (forall n, (n < C * (KH * KW))%nat -> length (nth n data []) = (HO * WO)%nat) ->
  fold_at RN g (ones_like RN data) c y s = cnt g y s.
Proof.
  intros Hc HL HR. rewrite fold_at_Rsum. unfold cnt. fold KH KW HO WO.
  apply Rsum_ext; intros i Hi. apply Rsum_ext; intros j Hj.
  apply Rsum_ext; intros oh Hoh. apply Rsum_ext; intros ow How.
  destruct (reads g i j oh ow y s); [|reflexivity].
  assert (Hn : ((c * KH + i) * KW + j < C * (KH * KW))%nat).
  { replace ((c * KH + i) * KW + j)%nat with (c * (KH * KW) + (i * KW + j))%nat by nia.
    apply flat_index_lt; [exact Hc|]. apply flat_index_lt; assumption. }
  apply ones_like_at.
  - rewrite HL. exact Hn.
  - rewrite (HR _ Hn). apply flat_index_lt; assumption.
Qed.
Lemma fold_ones_at x c y s :
  (c < C)%nat -> fold_at RN g (ones_like RN (unfold RN g x)) c y s = cnt g y s.
Proof.
  intros Hc. apply fold_ones_general; [exact Hc|apply (unfold_length g)|apply (unfold_row_length g)].
Qed.

Lemma cnt_nonneg y s : 0 <= cnt g y s.
Proof.
  unfold cnt. apply Rsum_nonneg; intros i _. apply Rsum_nonneg; intros j _.
  apply Rsum_nonneg; intros oh _. apply Rsum_nonneg; intros ow _. destruct (reads _ _ _ _ _ _); lra.
Qed.
(* the fold count is non-zero exactly on the image positions some (kernel offset, output position) pair reads *)
Theorem cnt_pos_iff_read y s :
  cnt g y s <> 0 <->
  exists i j oh ow, (i < KH)%nat /\ (j < KW)%nat /\ (oh < HO)%nat /\ (ow < WO)%nat /\
                    rowpos g oh i = Z.of_nat y /\ colpos g ow j = Z.of_nat s.
Proof.
  split.
  - intros H. unfold cnt in H.
    apply Rsum_nonzero_ex in H. destruct H as [i [Hi H]].
    apply Rsum_nonzero_ex in H. destruct H as [j [Hj H]].
    apply Rsum_nonzero_ex in H. destruct H as [oh [Hoh H]].
    apply Rsum_nonzero_ex in H. destruct H as [ow [How H]].
    exists i, j, oh, ow. destruct (reads g i j oh ow y s) eqn:E; [|lra].
    unfold reads in E. apply andb_true_iff in E. destruct E as [E1 E2]. apply Z.eqb_eq in E1, E2. auto 10.
  - intros [i [j [oh [ow [Hi [Hj [Hoh [How [E1 E2]]]]]]]]].
    assert (Hr : reads g i j oh ow y s = true).
    { unfold reads. rewrite E1, E2, !Z.eqb_refl. reflexivity. }
    assert (0 < cnt g y s); [|lra]. unfold cnt.
    apply (Rsum_pos _ _ i); [intros; apply Rsum_nonneg; intros; apply Rsum_nonneg; intros; apply Rsum_nonneg; intros;
                             match goal with |- context [if ?bb then _ else _] => destruct bb end; lra|exact Hi|].
    apply (Rsum_pos _ _ j); [intros; apply Rsum_nonneg; intros; apply Rsum_nonneg; intros;
                             match goal with |- context [if ?bb then _ else _] => destruct bb end; lra|exact Hj|].
    apply (Rsum_pos _ _ oh); [intros; apply Rsum_nonneg; intros; match goal with |- context [if ?bb then _ else _] => destruct bb end; lra|exact Hoh|].
    apply (Rsum_pos _ _ ow); [intros; match goal with |- context [if ?bb then _ else _] => destruct bb end; lra|exact How|].
    rewrite Hr. lra.
Qed.

Lemma fold_nth data c y s :
  (c < C)%nat -> (y < Z.to_nat (gH g))%nat -> (s < Z.to_nat (gW g))%nat ->
  nth s (nth y (nth c (fold RN g data) []) []) 0 = fold_at RN g data c y s.
Proof.
  intros Hc Hy Hs. unfold fold. fold C.
  rewrite map_seq_nth by exact Hc. rewrite map_seq_nth by exact Hy. rewrite map_seq_nth by exact Hs. reflexivity.
Qed.
Lemma fold_lengths data :
  length (fold RN g data) = C /\
  (forall c, (c < C)%nat -> length (nth c (fold RN g data) []) = Z.to_nat (gH g) /\
     forall y, (y < Z.to_nat (gH g))%nat -> length (nth y (nth c (fold RN g data) []) []) = Z.to_nat (gW g)).
Proof.
  unfold fold. fold C. split; [rewrite map_length, seq_length; reflexivity|].
  intros c Hc. rewrite map_seq_nth by exact Hc. split; [rewrite map_length, seq_length; reflexivity|].
  intros y Hy. rewrite map_seq_nth by exact Hy. rewrite map_length, seq_length. reflexivity.
Qed.

Lemma like_input_nth data c y s :
  (c < C)%nat -> (y < Z.to_nat (gH g))%nat -> (s < Z.to_nat (gW g))%nat ->
  nth s (nth y (nth c (conv_like_input RN g data) []) []) 0 =
  fold_at RN g data c y s / fold_at RN g (ones_like RN data) c y s.
Proof.
  intros Hc Hy Hs. unfold conv_like_input.
  destruct (fold_lengths data) as [L1 L2]. destruct (fold_lengths (ones_like RN data)) as [M1 M2].
  destruct (L2 c Hc) as [L3 L4]. destruct (M2 c Hc) as [M3 M4].
  pose proof (L4 y Hy) as L5. pose proof (M4 y Hy) as M5. rn_simpl.
  rewrite (map2_nth _ _ _ _ [] []) by lia.
  rewrite (map2_nth _ _ _ _ [] []) by lia.
  rewrite (map2_nth _ _ _ _ 0 0) by lia.
  rewrite !fold_nth by assumption. reflexivity.
Qed.

(* like_input on ANY data in synaptic layout: the entries that were read from an image position are averaged *)
Theorem conv_like_input_spec (data : list (list R)) c y s :
  (c < C)%nat -> (y < Z.to_nat (gH g))%nat -> (s < Z.to_nat (gW g))%nat ->
  length data = (C * (KH * KW))%nat ->
  (forall n, (n < C * (KH * KW))%nat -> length (nth n data []) = (HO * WO)%nat) ->
  img_at (conv_like_input RN g data) c y s =
  Rsum KH (fun i => Rsum KW (fun j => Rsum HO (fun oh => Rsum WO (fun ow =>
    if reads g i j oh ow y s then mat_at data ((c * KH + i) * KW + j) (oh * WO + ow) else 0)))) / cnt g y s.
Proof.
  intros Hc Hy Hs HL HR. unfold img_at. rewrite like_input_nth by assumption.
  rewrite fold_ones_general by assumption. rewrite fold_at_Rsum. reflexivity.
Qed.

(* mapping an input to synaptic layout and back returns it on every input position the connection reads *)
Theorem like_input_like_synaptic_conv x c y s :
  (c < C)%nat -> (Z.of_nat y < gH g)%Z -> (Z.of_nat s < gW g)%Z ->
  (exists i j oh ow, (i < KH)%nat /\ (j < KW)%nat /\ (oh < HO)%nat /\ (ow < WO)%nat /\
                     rowpos g oh i = Z.of_nat y /\ colpos g ow j = Z.of_nat s) ->
  img_at (conv_like_input RN g (unfold RN g x)) c y s = img_at x c y s.
Proof.
  intros Hc Hy Hs Hread. apply cnt_pos_iff_read in Hread.
  unfold img_at at 1. rewrite like_input_nth by (try assumption; lia).
  rewrite fold_unfold_at, fold_ones_at by assumption. field. exact Hread.
Qed.
End Fold.

(* ==================================================================== lateral: the weight / delay after any history *)
Lemma is_mat_row n m i : is_mat n m -> (i < n)%nat -> length (nth i m []) = n.
Proof. intros [Hl Hr] Hi. apply Hr. apply nth_In. lia. Qed.

Lemma map2_is_mat n (f : R -> R -> R) a b : is_mat n a -> is_mat n b -> is_mat n (map2 (map2 f) a b).
Proof.
  intros Ha Hb. pose proof Ha as [La Ra]. pose proof Hb as [Lb Rb]. split.
  - rewrite map2_length. lia.
  - intros r Hin. apply (In_nth _ _ []) in Hin. destruct Hin as [i [Hi <-]].
    rewrite map2_length in Hi.
    rewrite (map2_nth _ _ _ _ [] []) by lia.
    rewrite map2_length, (is_mat_row n a), (is_mat_row n b) by (try assumption; lia). lia.
Qed.
Lemma map2_mat_at n (f : R -> R -> R) a b i j :
  is_mat n a -> is_mat n b -> (i < n)%nat -> (j < n)%nat ->
  mat_at (map2 (map2 f) a b) i j = f (mat_at a i j) (mat_at b i j).
Proof.
  intros Ha Hb Hi Hj. pose proof Ha as [La _]. pose proof Hb as [Lb _]. unfold mat_at.
  rewrite (map2_nth _ _ _ _ [] []) by lia.
  rewrite (map2_nth _ _ _ _ 0 0) by (rewrite ?(is_mat_row n a), ?(is_mat_row n b) by assumption; lia).
  reflexivity.
Qed.
Lemma zeros_like_is_mat n m : is_mat n m -> is_mat n (zeros_like RN m).
Proof.
  intros [L Rr]. unfold zeros_like. split; [rewrite map_length; exact L|].
  intros r Hin. apply in_map_iff in Hin. destruct Hin as [r0 [<- H0]]. rewrite map_length. apply Rr. exact H0.
Qed.
Lemma zeros_like_at n m i j : is_mat n m -> (i < n)%nat -> (j < n)%nat -> mat_at (zeros_like RN m) i j = 0.
Proof.
  intros Hm Hi Hj. pose proof Hm as [L _]. unfold mat_at, zeros_like. rn_simpl.
  rewrite (nth_map_lt _ _ _ []) by lia. rewrite (nth_map_lt _ _ _ 0) by (rewrite (is_mat_row n m) by assumption; lia).
  reflexivity.
Qed.

Lemma msum_spec n parts :
  Forall (is_mat n) parts ->
  match msum RN parts with
  | None => parts = []
  | Some m => is_mat n m /\ forall i j, (i < n)%nat -> (j < n)%nat -> mat_at m i j = parts_at parts i j
  end.
Proof.
  induction parts as [|p t IH]; intros HF; simpl; [reflexivity|].
  inversion HF as [|? ? Hp Ht]; subst. specialize (IH Ht).
  destruct (msum RN t) as [r|].
  - destruct IH as [Hr Hat]. split; [apply map2_is_mat; assumption|].
    intros i j Hi Hj. unfold madd. rewrite (map2_mat_at n) by assumption. rewrite Hat by assumption. reflexivity.
  - subst t. split; [exact Hp|]. intros i j _ _. simpl. lra.
Qed.

Lemma acc_apply_spec n param pos neg :
  is_mat n param -> Forall (is_mat n) pos -> Forall (is_mat n) neg ->
  is_mat n (acc_apply RN param pos neg) /\
  forall i j, (i < n)%nat -> (j < n)%nat ->
    mat_at (acc_apply RN param pos neg) i j = mat_at param i j + parts_at pos i j - parts_at neg i j.
Proof.
  intros Hp Hpos Hneg. unfold acc_apply, acc_update.
  pose proof (msum_spec n pos Hpos) as Sp. pose proof (msum_spec n neg Hneg) as Sn.
  destruct (msum RN pos) as [p|]; destruct (msum RN neg) as [q|].
  - destruct Sp as [Mp Ap]. destruct Sn as [Mq Aq].
    assert (Mu : is_mat n (msub RN p q)) by (apply map2_is_mat; assumption).
    split; [apply map2_is_mat; assumption|]. intros i j Hi Hj. unfold madd, msub.
    rewrite (map2_mat_at n) by assumption. unfold msub. rewrite (map2_mat_at n) by assumption.
    rewrite Ap, Aq by assumption. rn_simpl. lra.
  - destruct Sp as [Mp Ap]. subst neg.
    assert (Mz : is_mat n (zeros_like RN p)) by (apply zeros_like_is_mat; exact Mp).
    assert (Mu : is_mat n (msub RN p (zeros_like RN p))) by (apply map2_is_mat; assumption).
    split; [apply map2_is_mat; assumption|]. intros i j Hi Hj. unfold madd.
    rewrite (map2_mat_at n) by assumption. unfold msub. rewrite (map2_mat_at n) by assumption.
    rewrite Ap, (zeros_like_at n) by assumption. simpl. rn_simpl. lra.
  - destruct Sn as [Mq Aq]. subst pos.
    assert (Mz : is_mat n (zeros_like RN q)) by (apply zeros_like_is_mat; exact Mq).
    assert (Mu : is_mat n (msub RN (zeros_like RN q) q)) by (apply map2_is_mat; assumption).
    split; [apply map2_is_mat; assumption|]. intros i j Hi Hj. unfold madd.
    rewrite (map2_mat_at n) by assumption. unfold msub. rewrite (map2_mat_at n) by assumption.
    rewrite Aq, (zeros_like_at n) by assumption. simpl. rn_simpl. lra.
  - subst pos neg. split; [exact Hp|]. intros i j _ _. simpl. lra.
Qed.

Lemma masked_is_mat n v : is_mat n v -> is_mat n (masked RN v).
Proof.
  intros [L Rr]. split; [rewrite masked_length; exact L|].
  intros r Hin. apply (In_nth _ _ []) in Hin. destruct Hin as [i [Hi <-]]. rewrite masked_length in Hi.
  rewrite masked_row_length. apply Rr. apply nth_In. exact Hi.
Qed.
Lemma masked_off_spec v i j : mat_at (masked RN v) i j = off i j (mat_at v i j).
Proof.
  unfold off. destruct (Nat.eqb_spec i j) as [->|Hne].
  - apply masked_diag_zero.
  - apply masked_off. exact Hne.
Qed.

Lemma repeat_In {A} (a x : A) n : In x (repeat a n) -> x = a.
Proof. intros H. apply repeat_spec in H. exact H. Qed.
Lemma nth_repeat' {A} (a d : A) n i : (i < n)%nat -> nth i (repeat a n) d = a.
Proof. revert i; induction n as [|n IH]; intros i H; [lia|]. destruct i; simpl; [reflexivity|apply IH; lia]. Qed.
Lemma expand_spec n v :
  wf_bval n v -> is_mat n (expand RN n v) /\
  forall i j, (i < n)%nat -> (j < n)%nat -> mat_at (expand RN n v) i j = bval_at v i j.
Proof.
  destruct v as [m|s|r|c]; simpl; intros Hwf.
  - split; [exact Hwf|reflexivity].
  - split.
    + split; [apply repeat_length|]. intros r Hin. apply repeat_In in Hin. subst r. apply repeat_length.
    + intros i j Hi Hj. unfold mat_at. rewrite !nth_repeat' by lia. reflexivity.
  - split.
    + split; [apply repeat_length|]. intros r0 Hin. apply repeat_In in Hin. subst r0. exact Hwf.
    + intros i j Hi Hj. unfold mat_at. rewrite nth_repeat' by lia. reflexivity.
  - split.
    + split; [rewrite map_length; exact Hwf|]. intros r0 Hin. apply in_map_iff in Hin. destruct Hin as [a [<- _]].
      apply repeat_length.
    + intros i j Hi Hj. unfold mat_at. rewrite (nth_map_lt _ _ _ 0) by lia. rewrite nth_repeat' by lia. reflexivity.
Qed.


Lemma lat_step_n s o : l_n RN (lat_step RN s o) = l_n RN s.
Proof.
  destruct o; simpl; try reflexivity.
  - unfold lat_set_delay. destruct (l_d RN s); reflexivity.
  - unfold lat_set_bias. destruct (l_b RN s); reflexivity.
Qed.

Lemma masked_expand_agree n v :
  wf_bval n v -> is_mat n (masked RN (expand RN n v)) /\
  agree n (masked RN (expand RN n v)) (fun i j => off i j (bval_at v i j)).
Proof.
  intros Hwf. destruct (expand_spec n v Hwf) as [Hm Hat]. split; [apply masked_is_mat; exact Hm|].
  intros i j Hi Hj. rewrite masked_off_spec, Hat by assumption. reflexivity.
Qed.
Lemma masked_update_agree n p pos neg f :
  is_mat n p -> Forall (is_mat n) pos -> Forall (is_mat n) neg -> agree n p f ->
  is_mat n (masked RN (acc_apply RN p pos neg)) /\
  agree n (masked RN (acc_apply RN p pos neg)) (fun i j => off i j (f i j + parts_at pos i j - parts_at neg i j)).
Proof.
  intros Hp Hpos Hneg Hag. destruct (acc_apply_spec n p pos neg Hp Hpos Hneg) as [Hm Hat].
  split; [apply masked_is_mat; exact Hm|].
  intros i j Hi Hj. rewrite masked_off_spec, Hat, Hag by assumption. reflexivity.
Qed.

Lemma lat_step_weight n s o w :
  l_n RN s = n -> is_mat n (l_w RN s) -> wf_op n o -> agree n (l_w RN s) w ->
  is_mat n (l_w RN (lat_step RN s o)) /\ agree n (l_w RN (lat_step RN s o)) (wstep w o).
Proof.
  intros Hn Hm Hwf Hag. destruct o as [v|v|b|pw nw pd nd|x]; simpl in *.
  - rewrite Hn. apply masked_expand_agree. exact Hwf.
  - unfold lat_set_delay. destruct (l_d RN s); simpl; split; assumption.
  - unfold lat_set_bias. destruct (l_b RN s); simpl; split; assumption.
  - destruct Hwf as [H1 [H2 _]]. apply masked_update_agree; assumption.
  - split; assumption.
Qed.

(* After ANY sequence of operations the stored weight is, entry by entry, what the history of assignments and
   accumulated updates says, with the diagonal forced to zero at every assignment / update. *)
Theorem lateral_weight_history ops : forall s n w,
  l_n RN s = n -> is_mat n (l_w RN s) -> Forall (wf_op n) ops -> agree n (l_w RN s) w ->
  is_mat n (l_w RN (lat_run RN s ops)) /\ agree n (l_w RN (lat_run RN s ops)) (fold_left wstep ops w).
Proof.
  induction ops as [|o ops IH]; intros s n w Hn Hm Hwf Hag; simpl; [split; assumption|].
  inversion Hwf as [|? ? Ho Hops]; subst.
  destruct (lat_step_weight _ s o w eq_refl Hm Ho Hag) as [Hm' Hag'].
  apply IH; try assumption. apply lat_step_n.
Qed.

Lemma lat_step_delay n s o d f :
  l_n RN s = n -> l_d RN s = Some d -> is_mat n d -> wf_op n o -> agree n d f ->
  exists d', l_d RN (lat_step RN s o) = Some d' /\ is_mat n d' /\ agree n d' (dstep f o).
Proof.
  intros Hn Hd Hm Hwf Hag. destruct o as [v|v|b|pw nw pd nd|x]; simpl in *.
  - exists d. auto.
  - unfold lat_set_delay. rewrite Hd. simpl. rewrite Hn. eexists; split; [reflexivity|].
    apply masked_expand_agree. exact Hwf.
  - unfold lat_set_bias. destruct (l_b RN s); simpl; exists d; auto.
  - rewrite Hd. destruct Hwf as [_ [_ [H3 H4]]]. eexists; split; [reflexivity|].
    apply masked_update_agree; assumption.
  - exists d. auto.
Qed.
Theorem lateral_delay_history ops : forall s n d f,
  l_n RN s = n -> l_d RN s = Some d -> is_mat n d -> Forall (wf_op n) ops -> agree n d f ->
  exists d', l_d RN (lat_run RN s ops) = Some d' /\ is_mat n d' /\ agree n d' (fold_left dstep ops f).
Proof.
  induction ops as [|o ops IH]; intros s n d f Hn Hd Hm Hwf Hag; simpl; [exists d; auto|].
  inversion Hwf as [|? ? Ho Hops]; subst.
  destruct (lat_step_delay _ s o d f eq_refl Hd Hm Ho Hag) as [d' [Hd' [Hm' Hag']]].
  apply (IH _ _ d'); try assumption. apply lat_step_n.
Qed.
(* without a delay parameter nothing ever creates one *)
Theorem lateral_no_delay ops : forall s, l_d RN s = None -> l_d RN (lat_run RN s ops) = None.
Proof.
  induction ops as [|o ops IH]; intros s H; simpl; [exact H|]. apply IH.
  destruct o; simpl; try exact H.
  - unfold lat_set_delay. rewrite H. exact H.
  - unfold lat_set_bias. destruct (l_b RN s); exact H.
  - rewrite H. reflexivity.
Qed.

(* ==================================================================== reshaping helpers / receptive views *)
(* LinearDense / LinearDirect: like_synaptic and like_input leave the (row-major) data untouched; the shapes go
   B :: inshape -> [B; prod inshape] -> B :: inshape *)
Theorem linear_like_input_like_synaptic B (ins : list nat) :
  (0 < prodn ins)%nat ->
  flat_shape (B :: ins) = [B; prodn ins] /\ view_shape (B * prodn ins) ins = B :: ins.
Proof. intros H. split; [reflexivity|]. unfold view_shape. rewrite Nat.div_mul by lia. reflexivity. Qed.

(* presyn_receptive of per-synapse data B x I x O ("b i o -> b o i 1"): entry [b, o, i] is the value of input i for
   output o, i.e. it lines up with weight[o, i] *)
Theorem dense_presyn3_spec (d : list (list (list R))) no b o i :
  (b < length d)%nat -> (o < no)%nat -> (i < length (nth b d []))%nat ->
  nth i (nth o (nth b (dense_presyn3 RN no d) []) []) 0 = nth o (nth i (nth b d []) []) 0.
Proof.
  intros Hb Ho Hi. unfold dense_presyn3, transpose.
  rewrite (nth_map_lt _ _ _ []) by exact Hb. rewrite map_seq_nth by exact Ho.
  unfold column. rewrite (nth_map_lt _ _ _ []) by exact Hi. reflexivity.
Qed.
(* Conv2D.presyn_receptive of per-filter data B x (C kH kW) x L x F: entry [b, f, n, l] = data[b, n, l, f] *)
Theorem conv_presyn4_spec (d : list (list (list R))) nf f n l :
  (f < nf)%nat -> (n < length d)%nat -> (l < length (nth n d []))%nat ->
  nth l (nth n (nth f (conv_presyn4 RN nf d) []) []) 0 = nth f (nth l (nth n d []) []) 0.
Proof.
  intros Hf Hn Hl. unfold conv_presyn4. rewrite map_seq_nth by exact Hf.
  rewrite (nth_map_lt _ _ _ []) by exact Hn. rewrite (nth_map_lt _ _ _ []) by exact Hl. reflexivity.
Qed.

Ltac eqb_cases :=
  repeat match goal with
         | |- context [(?a =? ?b)%nat] => destruct (Nat.eqb_spec a b); subst; cbn -[Nat.eqb prodn Nat.mul Z.to_nat]
         end; try reflexivity; try congruence.

(* the post- and presynaptic receptive views broadcast against each other to B x (weight shape) x L *)
Theorem dense_receptive_broadcast B (ins outs : list nat) :
  bshape (dense_postsyn_shape (B :: outs)) (dense_presyn2_shape (flat_shape (B :: ins)))
  = Some ([B] ++ [prodn outs; prodn ins] ++ [1%nat]).
Proof. unfold bshape. cbn -[Nat.eqb prodn Nat.mul Z.to_nat]. eqb_cases. Qed.
Theorem direct_receptive_broadcast B (sh : list nat) :
  bshape (direct_postsyn_shape (B :: sh)) (direct_presyn_shape (flat_shape (B :: sh)))
  = Some ([B] ++ [prodn sh] ++ [1%nat]).
Proof. unfold bshape. cbn -[Nat.eqb prodn Nat.mul Z.to_nat]. eqb_cases. Qed.
Theorem conv_receptive_broadcast g B Fn ho wo n :
  bshape (conv_postsyn_shape [B; Fn; ho; wo]) (conv_presyn3_shape g [B; n; (ho * wo)%nat])
  = Some ([B] ++ [Fn; Z.to_nat (gC g); Z.to_nat (kH g); Z.to_nat (kW g)] ++ [(ho * wo)%nat]).
Proof. unfold bshape. cbn -[Nat.eqb prodn Nat.mul Z.to_nat]. eqb_cases. Qed.

(* ==================================================================== an accepted geometry with a negative output size *)
(* Outside the property's quantifier (empty output), recorded because it is how the code behaves: the constructor only
   checks that the PRODUCT Hout*Wout handed to the synapse is positive, so H = W = 1 with a 3x3 kernel is accepted,
   outshape advertises (F, -1, -1) and every forward raises. *)
Theorem conv_ctor_accepts_negative_output :
  exists c, conv_ctor RN g_neg 1 [] None = Ok c /\ outH RN g_neg = (-1)%Z /\ outW RN g_neg = (-1)%Z /\
            forall xs, conv_forward RN c [1; 1; 1; 1]%nat xs = Err ERuntime.
Proof.
  assert (Hh : outH RN g_neg = (-1)%Z) by (change (outH RN g_neg) with (outsz_code RN 1 0 1 3 1); rewrite outsz_code_spec by lia; reflexivity).
  assert (Hw : outW RN g_neg = (-1)%Z) by (change (outW RN g_neg) with (outsz_code RN 1 0 1 3 1); rewrite outsz_code_spec by lia; reflexivity).
  eexists. split; [|split; [exact Hh|split; [exact Hw|]]].
  - unfold conv_ctor. rewrite Hh, Hw. reflexivity.
  - intros xs. unfold conv_forward. simpl c_g. rewrite Hh. reflexivity.
Qed.

(* ==================================================================== lateral: forward after any history *)
Lemma lat_step_shape s o : l_shape RN (lat_step RN s o) = l_shape RN s /\ l_B RN (lat_step RN s o) = l_B RN s.
Proof.
  destruct o; simpl; try (split; reflexivity).
  - unfold lat_set_delay. destruct (l_d RN s); split; reflexivity.
  - unfold lat_set_bias. destruct (l_b RN s); split; reflexivity.
Qed.
Lemma lat_run_shape ops : forall s, l_shape RN (lat_run RN s ops) = l_shape RN s /\ l_B RN (lat_run RN s ops) = l_B RN s.
Proof.
  induction ops as [|o ops IH]; intros s; simpl; [split; reflexivity|].
  destruct (IH (lat_step RN s o)) as [H1 H2]. destruct (lat_step_shape s o) as [H3 H4].
  split; congruence.
Qed.

(* x (W masked off the diagonal)^T + b, where W is what the whole history of assignments and updates left behind *)
Theorem lateral_forward_history (s : lat RN) ops w (x out : tensor RN) :
  let n := l_n RN s in let B := l_B RN s in let s' := lat_run RN s ops in
  lat_inv s -> is_mat n (l_w RN s) -> Forall (wf_op n) ops -> agree n (l_w RN s) w ->
  lat_forward RN s' x = Ok out ->
  length (tdata x) = (B * n)%nat -> (forall bv, l_b RN s' = Some bv -> length bv = n) -> (0 < n)%nat ->
  tshape out = B :: l_shape RN s /\
  forall r o, (r < B)%nat -> (o < n)%nat ->
    nth (r * n + o) (tdata out) 0 =
    Rsum n (fun i => if (i =? o)%nat then 0 else nth (r * n + i) (tdata x) 0 * fold_left wstep ops w o i)
    + bias_at (l_b RN s') o.
Proof.
  intros n B s' Hinv Hm Hwf Hag Hf Hx Hb Hn.
  destruct (lateral_weight_history ops s n w eq_refl Hm Hwf Hag) as [Hm' Hag']. fold s' in Hm', Hag'.
  destruct (lat_run_shape ops s) as [Hs HB]. fold s' in Hs, HB.
  pose proof (lat_run_inv ops s Hinv) as [Hdz _]. fold s' in Hdz.
  assert (Hn' : prodn (l_shape RN s') = n) by (rewrite Hs; reflexivity).
  destruct Hm' as [HL HR].
  destruct (lateral_forward_spec s' x out Hf Hdz) as [Hsh Hv];
    try (rewrite ?Hn', ?HB; assumption).
  rewrite Hs, HB in Hsh. split; [exact Hsh|].
  intros r o Hr Ho. rewrite Hn', HB in Hv. rewrite (Hv r o Hr Ho). f_equal.
  apply Rsum_ext; intros i Hi. destruct (i =? o)%nat; [reflexivity|]. rewrite Hag' by assumption. reflexivity.
Qed.

(* ==================================================================== the delayed branch of LinearDense (einsum) *)
(* ein.einsum(res, weight, "b i o, o i -> b o") + bias:  out[b, o] = sum_i cur[b, i, o] * W[o, i] + bias[o].
   (Which currents the delays select is C06; with all delays zero cur[b, i, o] = x[b, i] and this is x W^T + b.) *)
Theorem linear_delayed_spec (cur3 : list (list (list R))) (W : list (list R)) b I bi o :
  (bi < length cur3)%nat -> (o < length W)%nat ->
  length (nth bi cur3 []) = I -> length (nth o W []) = I ->
  (forall bv, b = Some bv -> length bv = length W) ->
  nth o (nth bi (linear_delayed RN cur3 W b) []) 0 =
  Rsum I (fun i => nth o (nth i (nth bi cur3 []) []) 0 * nth i (nth o W []) 0) + bias_at b o.
Proof.
  intros Hbi Ho Hm Hw Hb. unfold linear_delayed. rewrite (nth_map_lt _ _ _ []) by exact Hbi.
  set (m := nth bi cur3 []) in *.
  set (y := map (fun ow : nat * list R => dot RN (column RN (fst ow) m) (snd ow)) (combine (seq 0 (length W)) W)).
  assert (Hly : length y = length W).
  { unfold y. rewrite map_length, combine_length, seq_length. apply Nat.min_id. }
  assert (Hy : nth o y 0 = Rsum I (fun i => nth o (nth i m []) 0 * nth i (nth o W []) 0)).
  { unfold y. rewrite (nth_map_lt _ _ _ (0%nat, [])) by (rewrite combine_length, seq_length, Nat.min_id; exact Ho).
    rewrite combine_nth by (apply seq_length). rewrite seq_nth by exact Ho. simpl fst. simpl snd.
    rewrite (dot_Rsum _ _ I); [| unfold column; rewrite map_length; exact Hm | exact Hw].
    apply Rsum_ext; intros i Hi. assert (Hi' : (i < length m)%nat) by (rewrite Hm; exact Hi).
    unfold column. rewrite (nth_map_lt _ _ _ []) by exact Hi'. reflexivity. }
  destruct b as [bv|]; simpl bias_at.
  - pose proof (Hb bv eq_refl) as Hlb. rn_simpl.
    rewrite (map2_nth _ _ _ _ 0 0); [| change (o < length y)%nat; rewrite Hly; exact Ho | rewrite Hlb; exact Ho].
    change (nth o y 0 + nth o bv 0 = Rsum I (fun i => nth o (nth i m []) 0 * nth i (nth o W []) 0) + nth o bv 0).
    rewrite Hy. reflexivity.
  - change (nth o y 0 = Rsum I (fun i => nth o (nth i m []) 0 * nth i (nth o W []) 0) + 0).
    rewrite Hy. lra.
Qed.

(* ==================================================================== totality on the property's domain *)
Lemma all_pos_to_nat s : all_pos s = true -> prodn (map Z.to_nat s) = Z.to_nat (prodZ s) /\ (0 < prodZ s)%Z.
Proof.
  induction s as [|z s IH]; simpl; intros H; [split; [reflexivity|lia]|].
  apply andb_true_iff in H. destruct H as [Hz Hs]. apply Z.ltb_lt in Hz. destruct (IH Hs) as [E P].
  split; [rewrite E, Z2Nat.inj_mul by lia; reflexivity|nia].
Qed.
(* every positive shape / batch size is accepted and forward succeeds on inputs of the advertised shape *)
Theorem dense_total ins outs B w b (xd : list (T RN)) :
  all_pos ins = true -> all_pos outs = true -> (0 < B)%Z ->
  exists c, dense_ctor RN ins outs B w b = Ok c /\
            exists out, dense_forward RN c (@mkT RN (Z.to_nat B :: map Z.to_nat ins) xd) = Ok out.
Proof.
  intros Hi Ho HB. unfold dense_ctor. rewrite Hi, Ho, (proj2 (Z.ltb_lt 0 B) HB). simpl.
  eexists. split; [reflexivity|]. unfold dense_forward. simpl. rewrite !Nat.eqb_refl. simpl. eexists. reflexivity.
Qed.
Theorem direct_total sh B w b (xd : list (T RN)) :
  all_pos sh = true -> (0 < B)%Z ->
  exists c, direct_ctor RN sh B w b = Ok c /\
            exists out, direct_forward RN c (@mkT RN (Z.to_nat B :: map Z.to_nat sh) xd) = Ok out.
Proof.
  intros Hs HB. unfold direct_ctor. rewrite Hs, (proj2 (Z.ltb_lt 0 B) HB). simpl.
  eexists. split; [reflexivity|]. unfold direct_forward. simpl. rewrite !Nat.eqb_refl. simpl. eexists. reflexivity.
Qed.

Lemma shape_eqb_refl a : shape_eqb a a = true.
Proof.
  unfold shape_eqb. rewrite Nat.eqb_refl. simpl. induction a as [|x a IH]; simpl; [reflexivity|].
  rewrite Nat.eqb_refl. exact IH.
Qed.

(* Every geometry with positive sizes, non-negative padding and a non-empty output (by the documented integer formula)
   is accepted by the constructor, and forward succeeds on every input of the advertised input shape: the
   cross-correlation theorem above therefore covers the whole geometry grid. *)
Theorem conv_total g B w b :
  (0 < gH g)%Z -> (0 < gW g)%Z -> (0 < gC g)%Z -> (0 < gF g)%Z -> (0 < kH g)%Z -> (0 < kW g)%Z ->
  (0 < sH g)%Z -> (0 < sW g)%Z -> (0 <= pH g)%Z -> (0 <= pW g)%Z -> (0 < dH g)%Z -> (0 < dW g)%Z -> (0 < B)%Z ->
  (1 <= (gH g + 2 * pH g - dH g * (kH g - 1) - 1) / sH g + 1)%Z ->
  (1 <= (gW g + 2 * pW g - dW g * (kW g - 1) - 1) / sW g + 1)%Z ->
  exists c, conv_ctor RN g B w b = Ok c /\
    forall xs, exists outs,
      conv_forward RN c [Z.to_nat B; Z.to_nat (gC g); Z.to_nat (gH g); Z.to_nat (gW g)] xs = Ok outs.
Proof.
  intros H1 H2 H3 H4 H5 H6 H7 H8 H9 H10 H11 H12 H13 Ho1 Ho2.
  assert (Hh : outH RN g = ((gH g + 2 * pH g - dH g * (kH g - 1) - 1) / sH g + 1)%Z) by (apply outsz_code_spec; exact H7).
  assert (Hw : outW RN g = ((gW g + 2 * pW g - dW g * (kW g - 1) - 1) / sW g + 1)%Z) by (apply outsz_code_spec; exact H8).
  assert (E : conv_ctor RN g B w b = Ok (mkConv RN g (Z.to_nat B) w b)).
  { unfold conv_ctor.
    assert (Hc : negb (all_pos [gH g; gW g; gC g; gF g; kH g; kW g; sH g; sW g; dH g; dW g])
                 || (pH g <? 0)%Z || (pW g <? 0)%Z || negb (0 <? gC g * (kH g * kW g))%Z
                 || negb (0 <? outH RN g * outW RN g)%Z || negb (0 <? B)%Z = false).
    { unfold all_pos. simpl forallb.
      rewrite !(proj2 (Z.ltb_lt 0 _)) by (try assumption; try nia; rewrite Hh, Hw; nia).
      rewrite !(proj2 (Z.ltb_ge _ 0)) by assumption. reflexivity. }
    rewrite Hc. reflexivity. }
  eexists. split; [exact E|]. intros xs. eexists. unfold conv_forward. simpl c_g. simpl c_B.
  rewrite shape_eqb_refl. simpl negb.
  assert (Hn : (outH RN g <=? 0)%Z || (outW RN g <=? 0)%Z = false).
  { rewrite !(proj2 (Z.leb_gt _ _)) by (rewrite ?Hh, ?Hw; lia). reflexivity. }
  rewrite Hn. reflexivity.
Qed.
