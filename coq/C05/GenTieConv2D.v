(* C05 - tie of the model (C05/Conn.v, C05/ConnPatterns.v) to the definitions GENERATED from class Conv2D
   (Gen/ConnectionClasses.v, re-translated from inferno/neural/connections on every run).  The methods are emitted as abstract
   syntax (which attribute decides the branch, which synapse accessor is read, which operator is applied to which operands,
   which einops pattern); every statement below is an equality between the generated term and the structure the model
   implements, written with the model's pattern constants, so an edit of the method in the source changes the generated term and
   stops this file compiling. *)
From Coq Require Import List ZArith Bool String Arith.
From Inferno Require Import Base.Num Gen.ConnectionClasses C05.Conn C05.ConnPatterns.
Import ListNotations.
Open Scope string_scope.

Theorem tie_Conv2D_inshape :
  Conv2D_inshape_patterns = [] /\
  Conv2D_inshape_params = [] /\ Conv2D_inshape_is_property = true /\
  Conv2D_inshape =
    [SReturn (ATuple [(ASelf "channels"); (ASelf "height"); (ASelf "width")])].
Proof. repeat split; reflexivity. Qed.

Theorem tie_Conv2D_outshape :
  Conv2D_outshape_patterns = [] /\
  Conv2D_outshape_params = [] /\ Conv2D_outshape_is_property = true /\
  Conv2D_outshape =
    [SReturn (ATuple [(ASelf "filters"); (ASelf "outheight"); (ASelf "outwidth")])].
Proof. repeat split; reflexivity. Qed.

Theorem tie_Conv2D_selector :
  Conv2D_selector_patterns = [pat_Conv2D_selector] /\
  Conv2D_selector_params = [] /\ Conv2D_selector_is_property = true /\
  Conv2D_selector =
    [SIf (ACmp "is not" (ASelf "delayedby") ANone) [SAssign "delays" (ASelf "delay")] [SAssign "delays" (ACall "torch.zeros_like" [(ASelf "weight")])];
     SReturn (AMeth (ACall "ein.rearrange" [(AVar "delays"); (AStr pat_Conv2D_selector)]) "expand" [(ASelf "batchsz"); (AInt (-1)%Z); (ASub (AAttr (ASelf "synapse") "shape") (AInt (-1)%Z)); (AInt (-1)%Z)])].
Proof. repeat split; reflexivity. Qed.

Theorem tie_Conv2D_like_bias :
  Conv2D_like_bias_patterns = [pat_Conv2D_like_bias] /\
  Conv2D_like_bias_params = ["data"] /\ Conv2D_like_bias_is_property = false /\
  Conv2D_like_bias =
    [SReturn (ACall "ein.rearrange" [(AVar "data"); (AStr pat_Conv2D_like_bias)])].
Proof. repeat split; reflexivity. Qed.

Theorem tie_Conv2D_like_input :
  Conv2D_like_input_patterns = [] /\
  Conv2D_like_input_params = ["data"] /\ Conv2D_like_input_is_property = false /\
  Conv2D_like_input =
    [SIf (ACall "torch.is_floating_point" [(AVar "data")]) [SReturn (ABin "/" (ACall "F.fold" [(AVar "data"); (ATuple [(ASelf "height"); (ASelf "width")]); (ASelf "kernel"); (AKw "dilation" (ASelf "dilation")); (AKw "padding" (ASelf "padding")); (AKw "stride" (ASelf "stride"))]) (ACall "F.fold" [(ACall "torch.ones_like" [(AVar "data")]); (ATuple [(ASelf "height"); (ASelf "width")]); (ASelf "kernel"); (AKw "dilation" (ASelf "dilation")); (AKw "padding" (ASelf "padding")); (AKw "stride" (ASelf "stride"))]))] [SReturn (AMeth (ABin "/" (ACall "F.fold" [(AMeth (AVar "data") "to" [(AKw "dtype" (AAttr (ASelf "weight") "dtype"))]); (ATuple [(ASelf "height"); (ASelf "width")]); (ASelf "kernel"); (AKw "dilation" (ASelf "dilation")); (AKw "padding" (ASelf "padding")); (AKw "stride" (ASelf "stride"))]) (ACall "F.fold" [(ACall "ones" [(AVar "data"); (AKw "dtype" (AAttr (ASelf "weight") "dtype"))]); (ATuple [(ASelf "height"); (ASelf "width")]); (ASelf "kernel"); (AKw "dilation" (ASelf "dilation")); (AKw "padding" (ASelf "padding")); (AKw "stride" (ASelf "stride"))])) "to" [(AKw "dtype" (AAttr (AVar "data") "dtype"))])]].
Proof. repeat split; reflexivity. Qed.

Theorem tie_Conv2D_like_synaptic :
  Conv2D_like_synaptic_patterns = [] /\
  Conv2D_like_synaptic_params = ["data"] /\ Conv2D_like_synaptic_is_property = false /\
  Conv2D_like_synaptic =
    [SIf (ACall "torch.is_floating_point" [(AVar "data")]) [SReturn (ACall "F.unfold" [(AVar "data"); (ASelf "kernel"); (AKw "dilation" (ASelf "dilation")); (AKw "padding" (ASelf "padding")); (AKw "stride" (ASelf "stride"))])] [SReturn (AMeth (ACall "F.unfold" [(AMeth (AVar "data") "to" [(AKw "dtype" (AAttr (ASelf "weight") "dtype"))]); (ASelf "kernel"); (AKw "dilation" (ASelf "dilation")); (AKw "padding" (ASelf "padding")); (AKw "stride" (ASelf "stride"))]) "to" [(AKw "dtype" (AAttr (AVar "data") "dtype"))])]].
Proof. repeat split; reflexivity. Qed.

Theorem tie_Conv2D_presyn_receptive :
  Conv2D_presyn_receptive_patterns = [pat_Conv2D_presyn_receptive] /\
  Conv2D_presyn_receptive_params = ["data"] /\ Conv2D_presyn_receptive_is_property = false /\
  Conv2D_presyn_receptive =
    [SReturn (ACall "ein.rearrange" [(AVar "data"); (AStr pat_Conv2D_presyn_receptive); (AKw "c" (ASelf "channels")); (AKw "kh" (ASub (ASelf "kernel") (AInt (0)%Z))); (AKw "kw" (ASub (ASelf "kernel") (AInt (1)%Z)))])].
Proof. repeat split; reflexivity. Qed.

Theorem tie_Conv2D_postsyn_receptive :
  Conv2D_postsyn_receptive_patterns = [pat_Conv2D_postsyn_receptive] /\
  Conv2D_postsyn_receptive_params = ["data"] /\ Conv2D_postsyn_receptive_is_property = false /\
  Conv2D_postsyn_receptive =
    [SReturn (ACall "ein.rearrange" [(AVar "data"); (AStr pat_Conv2D_postsyn_receptive)])].
Proof. repeat split; reflexivity. Qed.

Theorem tie_Conv2D_forward :
  Conv2D_forward_patterns = [pat_Conv2D_forward_0; pat_Conv2D_forward_1; pat_Conv2D_forward_2; pat_Conv2D_forward_3; pat_Conv2D_forward_3; pat_Conv2D_forward_4] /\
  Conv2D_forward_params = ["*inputs"; "**kwargs"] /\ Conv2D_forward_is_property = false /\
  Conv2D_forward =
    [SAssign "res" (AMeth (AVar "self") "synapse" [(AStar (AGen (AMeth (AVar "self") "like_synaptic" [(AVar "inp")]) "inp" (AVar "inputs"))); (AKwStar (AVar "kwargs"))]);
     SAssign "kernel" (ACall "ein.rearrange" [(ASelf "weight"); (AStr pat_Conv2D_forward_0)]);
     SIf (ASelf "delayedby") [SAssign "res" (ACall "ein.rearrange" [(ASelf "syncurrent"); (AStr pat_Conv2D_forward_1)]);
     SAssign "res" (ACall "ein.rearrange" [(ACall "ein.einsum" [(AVar "kernel"); (AVar "res"); (AStr pat_Conv2D_forward_2)]); (AStr pat_Conv2D_forward_3); (AKw "oh" (ASelf "outheight")); (AKw "ow" (ASelf "outwidth"))])] [SAssign "res" (ACall "ein.rearrange" [(ACall "torch.matmul" [(AVar "kernel"); (AVar "res")]); (AStr pat_Conv2D_forward_3); (AKw "oh" (ASelf "outheight")); (AKw "ow" (ASelf "outwidth"))])];
     SIf (ASelf "biased") [SReturn (ABin "+" (AVar "res") (ACall "ein.rearrange" [(ASelf "bias"); (AStr pat_Conv2D_forward_4)]))] [SReturn (AVar "res")]].
Proof. repeat split; reflexivity. Qed.

Theorem tie_Conv2D_constructor :
  Conv2D_bases = ["WeightBiasDelayMixin"; "Connection"] /\
  Conv2D_init_positional = ["height"; "width"; "channels"; "filters"; "step_time"; "kernel"] /\
  Conv2D_init_kwonly = ["stride"; "padding"; "dilation"; "synapse"; "bias"; "delay"; "batch_size"; "weight_init"; "bias_init"; "delay_init"] /\
  Conv2D_default_stride = (AInt (1)%Z) /\
  Conv2D_default_padding = (AInt (0)%Z) /\
  Conv2D_default_dilation = (AInt (1)%Z) /\
  Conv2D_default_bias = (ABool false) /\
  Conv2D_default_delay = ANone /\
  Conv2D_default_batch_size = (AInt (1)%Z) /\
  Conv2D_default_weight_init = ANone /\
  Conv2D_default_bias_init = ANone /\
  Conv2D_default_delay_init = ANone.
Proof. repeat split; reflexivity. Qed.

