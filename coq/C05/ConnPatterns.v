(* Pattern constants of the C05 model: the einops pattern each model reshaping function implements, by class and method.
   Hand-written; tied to the strings GENERATED from the source (Gen/ConnectionClasses.v) by the tie_*_patterns theorems of
   C05/GenTie*.v, so a changed pattern string in linear.py / conv.py stops an obligation compiling. *)
From Coq Require Import String List.
Import ListNotations.
Open Scope string_scope.

(* LinearDense.selector: (delays as selector; C06) *)
Definition pat_LinearDense_selector : string := "o i -> 1 i o".
(* LinearDense.like_bias: identity on flat data (model: like_bias not reshaped) *)
Definition pat_LinearDense_like_bias : string := "m 1 -> m".
(* LinearDense.like_synaptic: Conn.flat_shape (row-major flattening, data unchanged) *)
Definition pat_LinearDense_like_synaptic : string := "b ... -> b (...)".
(* LinearDense.presyn_receptive: Conn.dense_presyn2_shape / dense_presyn3_shape / dense_presyn3 (axis swap) *)
Definition pat_LinearDense_presyn_receptive : string := "b i ... -> b (...) i 1".
(* LinearDense.postsyn_receptive: Conn.dense_postsyn_shape *)
Definition pat_LinearDense_postsyn_receptive : string := "b ... -> b (...) 1 1".
(* LinearDense.forward: Conn.linear_delayed (einsum of the delayed branch) *)
Definition pat_LinearDense_forward : string := "b i o, o i -> b o".
(* LinearDirect.selector: (delays as selector; C06) *)
Definition pat_LinearDirect_selector : string := "n -> 1 n 1".
(* LinearDirect.like_bias: identity *)
Definition pat_LinearDirect_like_bias : string := "n -> n".
(* LinearDirect.like_synaptic: Conn.flat_shape *)
Definition pat_LinearDirect_like_synaptic : string := "b ... -> b (...)".
(* LinearDirect.presyn_receptive: Conn.direct_presyn_shape *)
Definition pat_LinearDirect_presyn_receptive : string := "b n ... -> b n (...)".
(* LinearDirect.postsyn_receptive: Conn.direct_postsyn_shape *)
Definition pat_LinearDirect_postsyn_receptive : string := "b ... -> b (...) 1".
(* LinearDirect.forward: squeeze of the delay-selected current (delayed branch) *)
Definition pat_LinearDirect_forward : string := "b n 1 -> b n".
(* LinearLateral.like_bias: identity on flat data *)
Definition pat_LinearLateral_like_bias : string := "n 1 -> n".
(* Conv2D.selector: (delays as selector; C06) *)
Definition pat_Conv2D_selector : string := "f c h w -> 1 (c h w) 1 f".
(* Conv2D.like_bias: identity on flat data *)
Definition pat_Conv2D_like_bias : string := "f 1 1 1 -> f".
(* Conv2D.presyn_receptive: Conn.conv_presyn3_shape / conv_presyn4_shape / conv_presyn4 *)
Definition pat_Conv2D_presyn_receptive : string := "b (c kh kw) l ... -> b (...) c kh kw l".
(* Conv2D.postsyn_receptive: Conn.conv_postsyn_shape *)
Definition pat_Conv2D_postsyn_receptive : string := "b f oh ow -> b f 1 1 1 (oh ow)".
(* Conv2D.forward: Conn.flatten_kernel, (delayed: axis move, einsum), Conn.conv_map chunk 'f (oh ow) -> f oh ow', bias broadcast 'f -> 1 f 1 1' *)
Definition pat_Conv2D_forward_0 : string := "f c h w -> f (c h w)".
(* Conv2D.forward: Conn.flatten_kernel, (delayed: axis move, einsum), Conn.conv_map chunk 'f (oh ow) -> f oh ow', bias broadcast 'f -> 1 f 1 1' *)
Definition pat_Conv2D_forward_1 : string := "b n l f -> b f n l".
(* Conv2D.forward: Conn.flatten_kernel, (delayed: axis move, einsum), Conn.conv_map chunk 'f (oh ow) -> f oh ow', bias broadcast 'f -> 1 f 1 1' *)
Definition pat_Conv2D_forward_2 : string := "f n, b f n l -> b f l".
(* Conv2D.forward: Conn.flatten_kernel, (delayed: axis move, einsum), Conn.conv_map chunk 'f (oh ow) -> f oh ow', bias broadcast 'f -> 1 f 1 1' *)
Definition pat_Conv2D_forward_3 : string := "b f (oh ow) -> b f oh ow".
(* Conv2D.forward: Conn.flatten_kernel, (delayed: axis move, einsum), Conn.conv_map chunk 'f (oh ow) -> f oh ow', bias broadcast 'f -> 1 f 1 1' *)
Definition pat_Conv2D_forward_4 : string := "f -> 1 f 1 1".
