(* Model of the inferno connections (inferno/neural/connections/linear.py, conv.py, mixins.py and the
   Connection base class of inferno/neural/base.py), undelayed forward path, parameter setters, updater
   application and the reshaping helpers.  Definitions only: this file must keep compiling (and running
   for the correspondence check) when a proof elsewhere is broken.

   Tensors are nested lists over the numeric signature N (row-major); a flat tensor with an explicit
   shape is the record [tensor].  torch / einops operators are given their mathematical meaning:
     F.linear(x, W, b)[r][o]   = dot x[r] W[o] (+ b[o])
     torch.matmul(K, U)[f][l]  = dot K[f] (column l of U)
     F.unfold / F.fold         = explicit index maps (below)
     ein.rearrange             = row-major regrouping (concat / chunk) or the stated axis permutation
   All of this is hand-transcribed (the connection classes are object plumbing, not element-wise kernels);
   every definition carries the source lines it mirrors. *)
From Coq Require Import List ZArith Bool Arith.
From Inferno Require Import Base.Num.
From Inferno Require Import Gen.Conv.
Import ListNotations.

Inductive err := ERuntime | EValue | EIndex.
Inductive res (A : Type) := Ok (a : A) | Err (e : err).
Arguments Ok {A} a.
Arguments Err {A} e.

(* ---------- list helpers (independent of the number type) ---------- *)
Fixpoint map2 {A B C} (f : A -> B -> C) (u : list A) (v : list B) : list C :=
  match u, v with
  | a :: u', b :: v' => f a b :: map2 f u' v'
  | _, _ => []
  end.
(* split a flat list into k consecutive rows of width w (row-major "(k w) -> k w") *)
Fixpoint chunk {A} (w k : nat) (l : list A) : list (list A) :=
  match k with
  | O => []
  | S k' => firstn w l :: chunk w k' (skipn w l)
  end.
Definition prodn (s : list nat) : nat := fold_right Nat.mul 1 s.
Definition prodZ (s : list Z) : Z := fold_right Z.mul 1%Z s.
Definition all_pos (s : list Z) : bool := forallb (fun z => (0 <? z)%Z) s.
Definition shape_eqb (a b : list nat) : bool :=
  (length a =? length b) && forallb (fun p => fst p =? snd p) (combine a b).
(* numpy / torch broadcasting of two shapes (aligned on the right); None when incompatible *)
Fixpoint bshape_rev (a b : list nat) : option (list nat) :=
  match a, b with
  | [], _ => Some b
  | _, [] => Some a
  | x :: a', y :: b' =>
      match bshape_rev a' b' with
      | None => None
      | Some r => if x =? y then Some (x :: r) else if x =? 1 then Some (y :: r)
                  else if y =? 1 then Some (x :: r) else None
      end
  end.
Definition bshape (a b : list nat) : option (list nat) :=
  match bshape_rev (rev a) (rev b) with Some r => Some (rev r) | None => None end.

Section Model.
Variable N : Num.
Local Notation T := (T N).

Record tensor := mkT { tshape : list nat; tdata : list T }.

Definition dot (u v : list T) : T := tsum N (map2 (mul N) u v).
(* sum_{k < n} f k *)
Definition sumf (n : nat) (f : nat -> T) : T := tsum N (map f (seq 0 n)).
Definition nth0 (i : nat) (l : list T) : T := nth i l (zero N).
Definition column (l : nat) (m : list (list T)) : list T := map (fun row => nth0 l row) m.
(* torch.matmul(A, M) for A : F x n, M : n x ncols *)
Definition matmul (A M : list (list T)) (ncols : nat) : list (list T) :=
  map (fun ar => map (fun l => dot ar (column l M)) (seq 0 ncols)) A.
(* per-batch axis swap "i o -> o i" of an n_i x n_o matrix *)
Definition transpose (no : nat) (m : list (list T)) : list (list T) :=
  map (fun o => column o m) (seq 0 no).

(* ====================================================================================
   F.linear / the dense map.   hand-transcribed: inferno/neural/connections/linear.py:338-354
     res = synapse(like_synaptic(inputs))          # B I     (current)
     res = F.linear(res, weight, bias)             # B O     (undelayed branch, `if self.delayedby` false)
     return res.view(-1, *outshape)
   ==================================================================================== *)
Definition linear (x W : list (list T)) (b : option (list T)) : list (list T) :=
  map (fun xr =>
         let y := map (fun wr => dot xr wr) W in
         match b with None => y | Some bv => map2 (add N) y bv end) x.

(* the delayed branch with the delay-selected currents B x I x O (linear.py:343-349):
   einsum "b i o, o i -> b o" (+ bias) *)
Definition linear_delayed (cur3 : list (list (list T))) (W : list (list T)) (b : option (list T)) : list (list T) :=
  map (fun m =>   (* m : I x O *)
         let y := map (fun ow => dot (column (fst ow) m) (snd ow)) (combine (seq 0 (length W)) W) in
         match b with None => y | Some bv => map2 (add N) y bv end) cur3.

Record dense := mkDense { d_in : list nat; d_out : list nat; d_B : nat;
                          d_w : list (list T); d_b : option (list T) }.

(* constructor: argtest.ofsequence(gt 0) on both shapes, synapse(batch_size > 0); weight_init / bias_init
   assigned through the plain mixin setters (linear.py:82-125, mixins.py:24-92) *)
Definition dense_ctor (ins outs : list Z) (B : Z) (w : list (list T)) (b : option (list T)) : res dense :=
  if negb (all_pos ins) || negb (all_pos outs) || negb (0 <? B)%Z then Err EValue
  else Ok (mkDense (map Z.to_nat ins) (map Z.to_nat outs) (Z.to_nat B) w b).

(* ein "b ... -> b (...)" : [b; prod rest], data unchanged (linear.py:244, 575) *)
Definition flat_shape (s : list nat) : list nat :=
  match s with [] => [] | b :: rest => [b; prodn rest] end.
(* t.view(-1, *shape) on numel elements *)
Definition view_shape (numel : nat) (shape : list nat) : list nat := (numel / prodn shape) :: shape.

(* forward on the synapse current given as a flat tensor of the connection-input shape; the synapse
   (ShapedTensor constraint) rejects anything that is not B x I after flattening *)
Definition dense_forward (c : dense) (x : tensor) : res tensor :=
  let I := prodn (d_in c) in
  let O := prodn (d_out c) in
  match tshape x with
  | [] => Err EValue
  | b0 :: rest =>
      if negb ((b0 =? d_B c) && (prodn rest =? I)) then Err EValue
      else
        let cur := chunk I b0 (tdata x) in
        let out := linear cur (d_w c) (d_b c) in
        Ok (mkT (view_shape (b0 * O) (d_out c)) (concat out))
  end.

(* reshaping helpers of LinearDense (linear.py:167-302); data is flat, only presyn with a trailing
   output axis permutes *)
Definition dense_like_input_shape (c : dense) (numel : nat) : list nat := view_shape numel (d_in c).
Definition dense_presyn2_shape (s : list nat) : list nat :=           (* "b i -> b 1 i 1" *)
  match s with [b; i] => [b; 1; i; 1] | _ => [] end.
Definition dense_presyn3_shape (s : list nat) : list nat :=           (* "b i o -> b o i 1" *)
  match s with [b; i; o] => [b; o; i; 1] | _ => [] end.
Definition dense_presyn3 (no : nat) (d : list (list (list T))) : list (list (list T)) :=
  map (transpose no) d.
Definition dense_postsyn_shape (s : list nat) : list nat :=           (* "b ... -> b (...) 1 1" *)
  match s with [] => [] | b :: rest => [b; prodn rest; 1; 1] end.

(* ====================================================================================
   LinearDirect.   hand-transcribed: linear.py:663-676
     res = synapse(...)                    # B N
     res = res * weight (+ bias)
     return res.view(-1, *outshape)
   ==================================================================================== *)
Record direct := mkDirect { r_shape : list nat; r_B : nat; r_w : list T; r_b : option (list T) }.
Definition direct_ctor (sh : list Z) (B : Z) (w : list T) (b : option (list T)) : res direct :=
  if negb (all_pos sh) || negb (0 <? B)%Z then Err EValue
  else Ok (mkDirect (map Z.to_nat sh) (Z.to_nat B) w b).
Definition direct_map (x : list (list T)) (w : list T) (b : option (list T)) : list (list T) :=
  map (fun xr =>
         let y := map2 (mul N) xr w in
         match b with None => y | Some bv => map2 (add N) y bv end) x.
Definition direct_forward (c : direct) (x : tensor) : res tensor :=
  let n := prodn (r_shape c) in
  match tshape x with
  | [] => Err EValue
  | b0 :: rest =>
      if negb ((b0 =? r_B c) && (prodn rest =? n)) then Err EValue
      else
        let cur := chunk n b0 (tdata x) in
        Ok (mkT (view_shape (b0 * n) (r_shape c)) (concat (direct_map cur (r_w c) (r_b c))))
  end.
Definition direct_presyn_shape (s : list nat) : list nat :=           (* "b n ... -> b n (...)" *)
  match s with b :: n :: rest => [b; n; prodn rest] | _ => [] end.
Definition direct_postsyn_shape (s : list nat) : list nat :=          (* "b ... -> b (...) 1" *)
  match s with [] => [] | b :: rest => [b; prodn rest; 1] end.

(* ====================================================================================
   LinearLateral.   hand-transcribed: linear.py:761-818 (mask buffer, masked setters), 992-1025
   (forward delegates to LinearDense.forward), mixins.py (plain setters; bias / delay setters do
   nothing when the parameter does not exist), modeling.py Accumulator.update/forward with the
   default reduction (torch.sum over the stacked parts) and default binding (pos - neg),
   Updater.forward: setattr(module, p, acc(getattr(module, p))) for every updatable parameter.
   ==================================================================================== *)
(* mask = 1 - torch.eye(size) *)
Definition mask_el (i j : nat) : T := sub N (one N) (if i =? j then one N else zero N).
Fixpoint mapi_from {A B} (k : nat) (f : nat -> A -> B) (l : list A) : list B :=
  match l with [] => [] | a :: t => f k a :: mapi_from (S k) f t end.
Definition mapi {A B} (f : nat -> A -> B) (l : list A) : list B := mapi_from 0 f l.
(* value * self.mask for an n x n value *)
Definition masked (v : list (list T)) : list (list T) :=
  mapi (fun i row => mapi (fun j a => mul N a (mask_el i j)) row) v.

(* what can be assigned: a full matrix, or something torch broadcasts against the n x n mask *)
Inductive bval := VMat (m : list (list T)) | VScalar (s : T) | VRow (r : list T) | VCol (c : list T).
Definition expand (n : nat) (v : bval) : list (list T) :=
  match v with
  | VMat m => m
  | VScalar s => repeat (repeat s n) n
  | VRow r => repeat r n
  | VCol c => map (fun a => repeat a n) c
  end.

Record lat := mkLat { l_shape : list nat; l_B : nat;
                      l_w : list (list T); l_d : option (list (list T)); l_b : option (list T) }.
Definition l_n (s : lat) : nat := prodn (l_shape s).

Definition zeros (n : nat) : list (list T) := repeat (repeat (zero N) n) n.
(* constructor (linear.py:741-780): rand * mask, zeros * mask, then the initialisers through the
   masked setters.  [hasdelay] <-> delay is not None. *)
Definition lat_ctor (sh : list Z) (B : Z) (winit : list (list T)) (hasdelay : bool)
           (dinit : option (list (list T))) (binit : option (list T)) : res lat :=
  if negb (all_pos sh) || negb (0 <? B)%Z then Err EValue
  else
    let n := Z.to_nat (prodZ sh) in
    Ok (mkLat (map Z.to_nat sh) (Z.to_nat B) (masked winit)
              (if hasdelay then Some (match dinit with Some d => masked d | None => masked (zeros n) end) else None)
              binit).

Definition lat_set_weight (s : lat) (v : bval) : lat :=
  mkLat (l_shape s) (l_B s) (masked (expand (l_n s) v)) (l_d s) (l_b s).
Definition lat_set_delay (s : lat) (v : bval) : lat :=
  match l_d s with
  | None => s                                    (* no delay_ parameter: the mixin setter ignores the value *)
  | Some _ => mkLat (l_shape s) (l_B s) (l_w s) (Some (masked (expand (l_n s) v))) (l_b s)
  end.
Definition lat_set_bias (s : lat) (b : list T) : lat :=
  match l_b s with
  | None => s
  | Some _ => mkLat (l_shape s) (l_B s) (l_w s) (l_d s) (Some b)
  end.

(* element-wise sum of a stack of matrices: torch.sum(torch.stack(parts, 0), 0) *)
Definition madd (a b : list (list T)) : list (list T) := map2 (map2 (add N)) a b.
Definition msub (a b : list (list T)) : list (list T) := map2 (map2 (sub N)) a b.
Definition mneg (a : list (list T)) : list (list T) := map (map (opp N)) a.
Fixpoint msum (parts : list (list (list T))) : option (list (list T)) :=
  match parts with
  | [] => None
  | p :: t => match msum t with None => Some p | Some r => Some (madd p r) end
  end.
Definition zeros_like (m : list (list T)) : list (list T) := map (map (fun _ => zero N)) m.
(* Accumulator.update with the default binding *)
Definition acc_update (pos neg : list (list (list T))) : option (list (list T)) :=
  match msum pos, msum neg with
  | Some p, Some q => Some (msub p q)
  | Some p, None => Some (msub p (zeros_like p))
  | None, Some q => Some (msub (zeros_like q) q)
  | None, None => None
  end.
(* Accumulator.forward *)
Definition acc_apply (param : list (list T)) (pos neg : list (list (list T))) : list (list T) :=
  match acc_update pos neg with Some u => madd param u | None => param end.
(* Updatable.update: every updatable parameter is re-assigned through its property setter *)
Definition lat_update (s : lat) (pw nw pd nd : list (list (list T))) : lat :=
  mkLat (l_shape s) (l_B s)
        (masked (acc_apply (l_w s) pw nw))
        (match l_d s with Some d => Some (masked (acc_apply d pd nd)) | None => None end)
        (l_b s).

Definition lat_forward (s : lat) (x : tensor) : res tensor :=
  dense_forward (mkDense (l_shape s) (l_shape s) (l_B s) (l_w s) (l_b s)) x.

Inductive lop :=
| OpSetW (v : bval) | OpSetD (v : bval) | OpSetB (b : list T)
| OpUpd (pw nw pd nd : list (list (list T)))
| OpFwd (x : tensor).
Definition lat_step (s : lat) (o : lop) : lat :=
  match o with
  | OpSetW v => lat_set_weight s v
  | OpSetD v => lat_set_delay s v
  | OpSetB b => lat_set_bias s b
  | OpUpd pw nw pd nd => lat_update s pw nw pd nd
  | OpFwd _ => s
  end.
Definition lat_run (s : lat) (ops : list lop) : lat := fold_left lat_step ops s.

(* ====================================================================================
   Conv2D.   hand-transcribed: conv.py:99-195 (constructor, output-size formula 146-158),
   383-436 (like_synaptic = F.unfold), 285-356 (like_input = fold / fold(ones)),
   437-508 (receptive views), 551-578 (forward)
   ==================================================================================== *)
Record geom := mkG { gH : Z; gW : Z; gC : Z; gF : Z; kH : Z; kW : Z;
                     sH : Z; sW : Z; pH : Z; pW : Z; dH : Z; dW : Z }.

(* math.floor((size + 2*padding - dilation*(kernel-1) - 1) / stride + 1) : true (float) division *)
(* GENERATED: Gen/Conv.v conv_outsize is re-translated from Conv2D.__init__ on every run *)
Definition outsz_code (size p d k s : Z) : Z := conv_outsize N size p d k s.
Definition outH (g : geom) : Z := outsz_code (gH g) (pH g) (dH g) (kH g) (sH g).
Definition outW (g : geom) : Z := outsz_code (gW g) (pW g) (dW g) (kW g) (sW g).

(* image row / column read by kernel offset i at output position o *)
Definition pos (o i : nat) (s d p : Z) : Z := (Z.of_nat o * s + Z.of_nat i * d - p)%Z.
Definition image := list (list (list T)).             (* C x H x W *)
(* zero-padded read: conv.py "Only zero padding is supported" *)
Definition xpad (H W : Z) (x : image) (c : nat) (r s : Z) : T :=
  if ((0 <=? r) && (r <? H) && (0 <=? s) && (s <? W))%Z
  then nth0 (Z.to_nat s) (nth (Z.to_nat r) (nth c x []) [])
  else zero N.

(* F.unfold: rows (c, i, j) row-major, columns (oh, ow) row-major *)
Definition unfold (g : geom) (x : image) : list (list T) :=
  flat_map (fun c =>
    flat_map (fun i =>
      map (fun j =>
        flat_map (fun oh =>
          map (fun ow => xpad (gH g) (gW g) x c (pos oh i (sH g) (dH g) (pH g)) (pos ow j (sW g) (dW g) (pW g)))
              (seq 0 (Z.to_nat (outW g))))
          (seq 0 (Z.to_nat (outH g))))
        (seq 0 (Z.to_nat (kW g))))
      (seq 0 (Z.to_nat (kH g))))
    (seq 0 (Z.to_nat (gC g))).

(* ein "f c h w -> f (c h w)" *)
Definition flatten_kernel (w : list (list (list (list T)))) : list (list T) :=
  map (fun wf => concat (map (fun wc => concat wc) wf)) w.

(* the undelayed branch on the synapse current cur : (C kH kW) x (Hout Wout)  (conv.py:556, 567-578) *)
Definition conv_map (g : geom) (w : list (list (list (list T)))) (b : option (list T))
           (cur : list (list T)) : list (list (list T)) :=
  let ho := Z.to_nat (outH g) in
  let wo := Z.to_nat (outW g) in
  let r := map (chunk wo ho) (matmul (flatten_kernel w) cur (ho * wo)) in      (* "f (oh ow) -> f oh ow" *)
  match b with
  | None => r
  | Some bv => map2 (fun plane bf => map (map (fun a => add N a bf)) plane) r bv  (* + "f -> 1 f 1 1" *)
  end.

Record conv := mkConv { c_g : geom; c_B : nat;
                        c_w : list (list (list (list T))); c_b : option (list T) }.
Definition conv_ctor (g : geom) (B : Z) (w : list (list (list (list T)))) (b : option (list T)) : res conv :=
  if negb (all_pos [gH g; gW g; gC g; gF g; kH g; kW g; sH g; sW g; dH g; dW g])
     || (pH g <? 0)%Z || (pW g <? 0)%Z
     (* synapse shape (C*kH*kW, Hout*Wout): every entry must be positive -- the PRODUCT of the output sizes *)
     || negb (0 <? gC g * (kH g * kW g))%Z || negb (0 <? outH g * outW g)%Z
     || negb (0 <? B)%Z
  then Err EValue
  else Ok (mkConv g (Z.to_nat B) w b).

(* forward on the (effective) connection input, one image per batch element *)
Definition conv_forward (c : conv) (xshape : list nat) (xs : list image) : res (list (list (list (list T)))) :=
  let g := c_g c in
  if negb (shape_eqb xshape [c_B c; Z.to_nat (gC g); Z.to_nat (gH g); Z.to_nat (gW g)]) then Err EValue
  else if (outH g <=? 0)%Z || (outW g <=? 0)%Z then Err ERuntime      (* F.unfold refuses an empty block grid *)
  else Ok (map (fun x => conv_map g (c_w c) (c_b c) (unfold g x)) xs).

(* F.fold: sums every synaptic entry into the image position it was read from *)
Definition fold_at (g : geom) (data : list (list T)) (c y x : nat) : T :=
  let wo := Z.to_nat (outW g) in
  sumf (Z.to_nat (kH g)) (fun i =>
  sumf (Z.to_nat (kW g)) (fun j =>
  sumf (Z.to_nat (outH g)) (fun oh =>
  sumf wo (fun ow =>
    if ((pos oh i (sH g) (dH g) (pH g) =? Z.of_nat y) && (pos ow j (sW g) (dW g) (pW g) =? Z.of_nat x))%Z
    then nth0 (oh * wo + ow) (nth ((c * Z.to_nat (kH g) + i) * Z.to_nat (kW g) + j) data [])
    else zero N)))).
Definition fold (g : geom) (data : list (list T)) : image :=
  map (fun c => map (fun y => map (fun x => fold_at g data c y x) (seq 0 (Z.to_nat (gW g))))
                    (seq 0 (Z.to_nat (gH g)))) (seq 0 (Z.to_nat (gC g))).
Definition ones_like (data : list (list T)) : list (list T) := map (map (fun _ => one N)) data.
(* like_input = fold(data) / fold(ones_like(data)) *)
Definition conv_like_input (g : geom) (data : list (list T)) : image :=
  map2 (map2 (map2 (div N))) (fold g data) (fold g (ones_like data)).

(* "b (c kh kw) l f -> b f c kh kw l" (per batch element: n x l x f -> f x n x l) *)
Definition conv_presyn4 (nf : nat) (d : list (list (list T))) : list (list (list T)) :=
  map (fun f => map (fun row => map (fun cell => nth0 f cell) row) d) (seq 0 nf).
Definition conv_presyn3_shape (g : geom) (s : list nat) : list nat :=    (* "b (c kh kw) l -> b 1 c kh kw l" *)
  match s with [b; _; l] => [b; 1; Z.to_nat (gC g); Z.to_nat (kH g); Z.to_nat (kW g); l] | _ => [] end.
Definition conv_presyn4_shape (g : geom) (s : list nat) : list nat :=
  match s with [b; _; l; f] => [b; f; Z.to_nat (gC g); Z.to_nat (kH g); Z.to_nat (kW g); l] | _ => [] end.
Definition conv_postsyn_shape (s : list nat) : list nat :=              (* "b f oh ow -> b f 1 1 1 (oh ow)" *)
  match s with [b; f; oh; ow] => [b; f; 1; 1; 1; oh * ow] | _ => [] end.

(* ====================================================================================
   Re-parameterisation between steps.  A connection keeps no state derived from its parameters: forward reads
   weight / bias at call time (linear.py:347-352, 672-674; conv.py:556, 575-576).  Every public route that changes
   a parameter is, on the flat row-major parameter, a replacement or an addition:
     property setter (mixins.py: `.data = value`)                      PSet value
     Updater application (modeling.py: setattr(p, p + (pos - neg)))    PAdd (pos - neg)
     in-place add_ / copy_ / element write on the Parameter            PAdd / PSet
     load_state_dict from a twin, .to(dtype)                            PSet (twin's / rounded values)
   LinearLateral re-masks weight and delay whenever they go through their setters (also on every Updater
   application, which re-assigns all updatable parameters), but not on in-place modification.
   ==================================================================================== *)
Inductive pop := PKeep | PSet (v : list T) | PAdd (u : list T).
Definition papply (p : list T) (o : pop) : list T :=
  match o with PKeep => p | PSet v => v | PAdd u => map2 (add N) p u end.
Definition mask_flat (n : nat) (w : list T) : list T := concat (masked (chunk n n w)).
(* one round: weight op, re-mask flag (n > 0 for lateral), bias op *)
Definition step_params (n : nat) (w : list T) (b : option (list T)) (wo : pop) (mk : bool) (bo : pop)
  : list T * option (list T) :=
  let w1 := papply w wo in
  (if mk then mask_flat n w1 else w1,
   match b with Some bv => Some (papply bv bo) | None => None end).

End Model.

Arguments mkT {N} tshape tdata.
Arguments tshape {N} t.
Arguments tdata {N} t.
