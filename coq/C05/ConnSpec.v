(* Specification vocabulary of the C05 theorems (definitions only; real-number instance).
   Everything the obligation files under Props/C05 mention that is not part of the model (C05/Conn.v) is defined
   here: indexed finite sums, entry access, the zero-padded image, the cross-correlation, the fold count. *)
From Coq Require Import List ZArith Bool Arith Reals.
From Inferno Require Import Base.Num Base.NumR C05.Conn.
Import ListNotations.
Open Scope R_scope.

(* f 0 + f 1 + ... + f (n-1) *)
Fixpoint Rsum (n : nat) (f : nat -> R) : R :=
  match n with O => 0 | S k => Rsum k f + f k end.

Definition bias_at (b : option (list R)) (o : nat) : R :=
  match b with None => 0 | Some bv => nth o bv 0 end.
Definition mat_at (m : list (list R)) (i j : nat) : R := nth j (nth i m []) 0.
Definition diag_zero (m : list (list R)) : Prop := forall i, mat_at m i i = 0.

(* ---- conv2d ---- *)
(* the data: zero-padded image, Z-indexed *)
Definition xp (g : geom) (x : image RN) (c : nat) (r s : Z) : R := xpad RN (gH g) (gW g) x c r s.
(* image row / column read by kernel offset i (j) at output row oh (column ow): o*stride + i*dilation - padding *)
Definition rowpos (g : geom) (oh i : nat) : Z := pos oh i (sH g) (dH g) (pH g).
Definition colpos (g : geom) (ow j : nat) : Z := pos ow j (sW g) (dW g) (pW g).
(* kernel entries and the well-formedness of an F x C x kH x kW weight *)
Definition w4 (w : list (list (list (list R)))) (f c i j : nat) : R :=
  nth j (nth i (nth c (nth f w []) []) []) 0.
Definition wf_kernel (g : geom) (w : list (list (list (list R)))) : Prop :=
  forall wf, In wf w -> length wf = Z.to_nat (gC g) /\
    forall wc, In wc wf -> length wc = Z.to_nat (kH g) /\ forall row, In row wc -> length row = Z.to_nat (kW g).
(* out[f, oh, ow] = b_f + sum_{c, i, j} W[f, c, i, j] * xpad[c, oh*s + i*d - p, ow*s + j*d - p] *)
Definition conv_spec (g : geom) (w : list (list (list (list R)))) (b : option (list R)) (x : image RN) (f oh ow : nat) : R :=
  bias_at b f +
  Rsum (Z.to_nat (gC g)) (fun c => Rsum (Z.to_nat (kH g)) (fun i => Rsum (Z.to_nat (kW g)) (fun j =>
    w4 w f c i j * xp g x c (rowpos g oh i) (colpos g ow j)))).

Definition img_at (x : image RN) (c y s : nat) : R := nth s (nth y (nth c x []) []) 0.
(* does kernel offset (i, j) at output position (oh, ow) read image position (y, s) ? *)
Definition reads (g : geom) (i j oh ow y s : nat) : bool :=
  ((rowpos g oh i =? Z.of_nat y) && (colpos g ow j =? Z.of_nat s))%Z.
(* how many (kernel offset, output position) pairs read image position (y, s) = fold(ones) there *)
Definition cnt (g : geom) (y s : nat) : R :=
  Rsum (Z.to_nat (kH g)) (fun i => Rsum (Z.to_nat (kW g)) (fun j =>
  Rsum (Z.to_nat (outH RN g)) (fun oh => Rsum (Z.to_nat (outW RN g)) (fun ow => if reads g i j oh ow y s then 1 else 0)))).

(* ---- lateral: what a history of assignments / updates leaves in the weight (resp. delay) matrix ---- *)
Definition is_mat (n : nat) (m : list (list R)) : Prop := length m = n /\ forall r, In r m -> length r = n.
(* entry (i, j) of a value assigned through a setter, after torch broadcasting against the n x n mask *)
Definition bval_at (v : bval RN) (i j : nat) : R :=
  match v with VMat _ m => mat_at m i j | VScalar _ s => s | VRow _ r => nth j r 0 | VCol _ c => nth i c 0 end.
Definition wf_bval (n : nat) (v : bval RN) : Prop :=
  match v with VMat _ m => is_mat n m | VScalar _ _ => True | VRow _ r => length r = n | VCol _ c => length c = n end.
(* entry (i, j) of the sum of a list of update parts *)
Fixpoint parts_at (parts : list (list (list R))) (i j : nat) : R :=
  match parts with [] => 0 | p :: t => mat_at p i j + parts_at t i j end.
(* masking: the diagonal is forced to zero *)
Definition off (i j : nat) (v : R) : R := if (i =? j)%nat then 0 else v.
Definition wstep (w : nat -> nat -> R) (o : lop RN) : nat -> nat -> R :=
  match o with
  | OpSetW _ v => fun i j => off i j (bval_at v i j)
  | OpUpd _ pw nw _ _ => fun i j => off i j (w i j + parts_at pw i j - parts_at nw i j)
  | _ => w
  end.
Definition dstep (d : nat -> nat -> R) (o : lop RN) : nat -> nat -> R :=
  match o with
  | OpSetD _ v => fun i j => off i j (bval_at v i j)
  | OpUpd _ _ _ pd nd => fun i j => off i j (d i j + parts_at pd i j - parts_at nd i j)
  | _ => d
  end.
Definition wf_op (n : nat) (o : lop RN) : Prop :=
  match o with
  | OpSetW _ v | OpSetD _ v => wf_bval n v
  | OpUpd _ pw nw pd nd => Forall (is_mat n) pw /\ Forall (is_mat n) nw /\ Forall (is_mat n) pd /\ Forall (is_mat n) nd
  | _ => True
  end.

(* a matrix agrees with an entry function on the n x n block *)
Definition agree (n : nat) (m : list (list R)) (f : nat -> nat -> R) : Prop :=
  forall i j, (i < n)%nat -> (j < n)%nat -> mat_at m i j = f i j.

(* the invariant: no self-weight, no self-delay *)
Definition lat_inv (s : lat RN) : Prop :=
  diag_zero (l_w RN s) /\ match l_d RN s with Some d => diag_zero d | None => True end.

(* H = W = 1 with a 3x3 kernel, no padding *)
Definition g_neg : geom := mkG 1 1 1 1 3 3 1 1 0 0 1 1.
