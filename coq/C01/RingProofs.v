(* Proofs about the RecordTensor model (C01/Ring.v): every operation characterised through
   [at_ s k] = "the observation k steps before the write position", for all N >= 1, all pointer
   positions, all shapes.  No axioms. *)
From Coq Require Import List ZArith Bool Arith Lia.
From Inferno Require Import Gen.Infra C01.Ring.
Import ListNotations.
Ltac Zify.zify_post_hook ::= Z.div_mod_to_equations.

Section Proofs.
Context {A D : Type}.
Variable cast : D -> A -> A.
Variable promote : D -> D -> D.
Variable D_eqb : D -> D -> bool.
Variable zeroA : A.

Notation ring := (@ring A D).
Notation obs := (@obs A D).
Notation rng := (@rng A D).
Notation SFull := (@SFull A D).
Notation read := (@read A D).
Notation write := (@write A D cast).
Notation incr := (@incr A D).
Notation decr := (@decr A D).
Notation push := (@push A D cast zeroA).
Notation pop := (@pop A D).
Notation peek := (@peek A D).
Notation align := (@align A D).
Notation reset := (@reset A D cast).
Notation readrange_scalar := (@readrange_scalar A D zeroA).
Notation readrange_tensor := (@readrange_tensor A D zeroA).
Notation writerange_scalar := (@writerange_scalar A D cast promote zeroA).
Notation writerange_tensor := (@writerange_tensor A D cast D_eqb zeroA).

(* ------------------------------------------------------------------ well-formedness *)
Definition rows (s : ring) : list (list A) :=
  match st s with Ring.SFull _ _ r => r | _ => [] end.
Definition full (s : ring) : Prop := match st s with Ring.SFull _ _ _ => True | _ => False end.
Definition wf (s : ring) : Prop :=
  0 < N s /\ ptr s < N s /\
  match st s with
  | Ring.SFull d sh r => length r = N s
  | _ => True
  end.
(* the observation k steps before the write position *)
Definition at_ (s : ring) (k : Z) : list A := nth (idx s k) (rows s) [].

Lemma unwind_lt p off n : 0 < n -> unwind p off n < n.
Proof. intros Hn. unfold unwind, _unwind_ptr. lia. Qed.
Lemma unwind_Z p off n : 0 < n -> Z.of_nat (unwind p off n) = ((Z.of_nat p - off) mod Z.of_nat n)%Z.
Proof. intros Hn. unfold unwind, _unwind_ptr. lia. Qed.
Lemma idx_lt s k : wf s -> idx s k < N s.
Proof. intros (Hn & _). apply unwind_lt; exact Hn. Qed.

Lemma mod_sub_cong (p k k' n : Z) : (0 < n)%Z -> ((p - k) mod n = (p - k') mod n <-> k mod n = k' mod n)%Z.
Proof.
  intros Hn. split; intros H.
  - assert (E : (k' - k = n * ((p - k) / n - (p - k') / n))%Z).
    { pose proof (Z.div_mod (p - k) n ltac:(lia)). pose proof (Z.div_mod (p - k') n ltac:(lia)).
      rewrite Z.mul_sub_distr_l. lia. }
    replace k' with (k + ((p - k) / n - (p - k') / n) * n)%Z by lia. now rewrite Z.mod_add by lia.
  - assert (E : (k' - k = n * (k' / n - k / n))%Z).
    { pose proof (Z.div_mod k n ltac:(lia)). pose proof (Z.div_mod k' n ltac:(lia)).
      rewrite Z.mul_sub_distr_l. lia. }
    replace (p - k)%Z with ((p - k') + (k' / n - k / n) * n)%Z by lia. now rewrite Z.mod_add by lia.
Qed.
Lemma mod_eq_sub_iff (a b n : Z) : (0 < n)%Z -> (a mod n = b mod n <-> (a - b) mod n = 0)%Z.
Proof.
  intros Hn. rewrite Zminus_mod.
  pose proof (Z.mod_pos_bound a n Hn) as Ha. pose proof (Z.mod_pos_bound b n Hn) as Hb.
  set (x := (a mod n)%Z) in *. set (y := (b mod n)%Z) in *. clearbody x y. split.
  - intros ->. rewrite Z.sub_diag. apply Z.mod_0_l. lia.
  - intros H. destruct (Z_lt_le_dec x y) as [Hlt|Hge].
    + assert (E : ((x - y) mod n = x - y + n)%Z) by (symmetry; apply Z.mod_unique with (q := (-1)%Z); lia). lia.
    + rewrite Z.mod_small in H by lia. lia.
Qed.
Lemma unwind_eq_iff p n k k'  : 0 < n ->
  (unwind p k n = unwind p k' n <-> (k mod Z.of_nat n = k' mod Z.of_nat n)%Z).
Proof.
  intros Hn. rewrite <- (mod_sub_cong (Z.of_nat p)) by lia.
  rewrite <- !unwind_Z by exact Hn. lia.
Qed.
Lemma idx_eq_iff s k k' : wf s ->
  (idx s k = idx s k' <-> (k mod Z.of_nat (N s) = k' mod Z.of_nat (N s))%Z).
Proof. intros (Hn & _). apply unwind_eq_iff; exact Hn. Qed.
Lemma idx_mod s k : wf s -> idx s (k mod Z.of_nat (N s)) = idx s k.
Proof. intros Hwf. apply idx_eq_iff; auto. destruct Hwf as (Hn & _). apply Z.mod_mod. lia. Qed.

(* ------------------------------------------------------------------ list facts *)
Lemma nth_skipn' {X} (d : X) (l : list X) n j : nth j (skipn n l) d = nth (n + j) l d.
Proof.
  revert l; induction n as [|n IH]; intros l; [reflexivity|].
  destruct l as [|h t]; [destruct j; reflexivity|]. cbn. apply IH.
Qed.
Lemma nth_firstn' {X} (d : X) (l : list X) n j : j < n -> nth j (firstn n l) d = nth j l d.
Proof.
  revert l j; induction n as [|n IH]; intros l j Hj; [lia|].
  destruct l as [|h t]; [destruct j; reflexivity|]. destruct j as [|j]; cbn; [reflexivity|]. apply IH; lia.
Qed.
Lemma nth_splice {X} (d : X) (l : list X) i o j : i < length l ->
  nth j (firstn i l ++ [o] ++ skipn (i + 1) l) d = if Nat.eqb j i then o else nth j l d.
Proof.
  intros Hi. destruct (Nat.eqb_spec j i) as [->|Hne].
  - rewrite app_nth2; rewrite firstn_length_le by lia; [|lia]. now rewrite Nat.sub_diag.
  - destruct (Nat.lt_ge_cases j i) as [Hlt|Hge].
    + rewrite app_nth1 by (rewrite firstn_length_le; lia). apply nth_firstn'; exact Hlt.
    + rewrite app_nth2 by (rewrite firstn_length_le; lia). rewrite firstn_length_le by lia.
      replace (j - i) with (S (j - i - 1)) by lia. cbn [app nth].
      rewrite nth_skipn'. f_equal. lia.
Qed.
Lemma upd_length {X} (l : list X) i o : length (upd l i o) = length l.
Proof. revert i; induction l as [|h t IH]; intros [|i]; cbn; auto. Qed.
Lemma nth_upd {X} (d : X) (l : list X) i o j : i < length l ->
  nth j (upd l i o) d = if Nat.eqb j i then o else nth j l d.
Proof.
  revert i j; induction l as [|h t IH]; intros i j Hi; [cbn in Hi; lia|].
  destruct i as [|i], j as [|j]; cbn; auto. apply IH. cbn in Hi; lia.
Qed.
Lemma nth_upd_ge {X} (d : X) (l : list X) i o j : length l <= i -> nth j (upd l i o) d = nth j l d.
Proof.
  revert i j; induction l as [|h t IH]; intros i j Hi; [reflexivity|].
  destruct i as [|i]; [cbn in Hi; lia|]. destruct j as [|j]; cbn; auto. apply IH. cbn in Hi; lia.
Qed.
Lemma splice_length {X} (l : list X) i o : i < length l -> length (firstn i l ++ [o] ++ skipn (i + 1) l) = length l.
Proof. intros Hi. rewrite !app_length, firstn_length_le, skipn_length by lia. cbn [length]. lia. Qed.
Lemma splice_eq_upd {X} (l : list X) i o : i < length l -> firstn i l ++ [o] ++ skipn (i + 1) l = upd l i o.
Proof.
  intros Hi. destruct l as [|x0 l0] eqn:El; [cbn in Hi; lia|]. rewrite <- El in *.
  apply nth_ext with (d := x0) (d' := x0).
  - rewrite splice_length, upd_length by exact Hi. reflexivity.
  - intros j _. rewrite nth_splice, nth_upd by exact Hi. reflexivity.
Qed.
Lemma nth_map_seq {X} (d : X) (f : nat -> X) n i : i < n -> nth i (map f (seq 0 n)) d = f i.
Proof.
  intros Hi. rewrite (nth_indep _ d (f 0)) by (rewrite map_length, seq_length; lia).
  rewrite map_nth, seq_nth by lia. reflexivity.
Qed.
Lemma Forall_upd {X} (P : X -> Prop) l i o : Forall P l -> P o -> Forall P (upd l i o).
Proof.
  intros Hl Ho. revert i; induction Hl as [|h t Hh Ht IH]; intros [|i]; cbn; constructor; auto.
Qed.

(* ------------------------------------------------------------------ read / write *)
Theorem read_spec s off : wf s -> full s ->
  exists d sh, st s = SFull d sh (rows s) /\ read s off = Ok s (OObs d sh (at_ s off)).
Proof.
  intros _ Hf. unfold full, read, at_, rows in *. destruct (st s) as [| |d sh r]; try contradiction.
  exists d, sh. split; reflexivity.
Qed.

(* write, both branches: slot [off] becomes the cast observation, every other slot is unchanged,
   pointer, record size, data type and shape are unchanged *)
Theorem write_spec s o off inplace : wf s -> full s ->
  (exists d sh, st s = SFull d sh (rows s) /\
     if shape_eqb (oshape o) sh then
       exists s', write s o off inplace = Ok s' OUnit /\ N s' = N s /\ ptr s' = ptr s /\
         st s' = SFull d sh (rows s') /\ length (rows s') = N s /\
         forall k, at_ s' k = if Z.eqb (k mod Z.of_nat (N s)) (off mod Z.of_nat (N s))
                              then map (cast d) (oel o) else at_ s k
     else write s o off inplace = Err EValue).
Proof.
  intros Hwf Hf. pose proof (idx_lt s off Hwf) as Hi.
  pose proof Hwf as (Hn & Hp & Hst). unfold full in Hf. unfold write, rows, at_.
  destruct (st s) as [| |d sh r] eqn:Est; try contradiction. rename Hst into Hlen.
  exists d, sh. split; [reflexivity|].
  destruct (shape_eqb (oshape o) sh); cbn [negb]; [|reflexivity].
  assert (Hi' : idx s off < length r) by lia.
  rewrite (splice_eq_upd r (idx s off) (map (cast d) (oel o)) Hi').
  exists (set_st s (SFull d sh (upd r (idx s off) (map (cast d) (oel o))))).
  split; [destruct inplace; reflexivity|].
  cbn [set_st N ptr st rows]. rewrite upd_length. repeat split; auto.
  intros k. change (idx (set_st s (SFull d sh (upd r (idx s off) (map (cast d) (oel o))))) k) with (idx s k).
  rewrite nth_upd by exact Hi'.
  pose proof (idx_eq_iff s k off Hwf) as Hiff. unfold rows. rewrite Est.
  destruct (Nat.eqb_spec (idx s k) (idx s off)) as [He|He];
    destruct (Z.eqb_spec (k mod Z.of_nat (N s)) (off mod Z.of_nat (N s))) as [Hz|Hz];
    first [reflexivity | exfalso; tauto].
Qed.

Lemma wf_write s o off inplace s' out : wf s -> write s o off inplace = Ok s' out -> wf s'.
Proof.
  intros Hwf Hw. pose proof (idx_lt s off Hwf) as Hi. pose proof Hwf as (Hn & Hp & Hst).
  unfold write in Hw. destruct (st s) as [| |d sh r] eqn:Est; try discriminate. rename Hst into Hlen.
  destruct (negb (shape_eqb (oshape o) sh)) eqn:Esh; [discriminate|].
  assert (Hi' : idx s off < length r) by lia.
  rewrite (splice_eq_upd r _ _ Hi') in Hw.
  assert (s' = set_st s (SFull d sh (upd r (idx s off) (map (cast d) (oel o))))) as -> by (destruct inplace; congruence).
  unfold wf; cbn [set_st N ptr st]. repeat split; auto. rewrite upd_length; exact Hlen.
Qed.

(* ------------------------------------------------------------------ pointer moves *)
Lemma idx_shift s k j : wf s -> idx s (k - j) = Z.to_nat ((Z.of_nat (idx s k) + j) mod Z.of_nat (N s)).
Proof.
  intros (Hn & Hp & _). unfold idx. rewrite unwind_Z by exact Hn. unfold unwind, _unwind_ptr.
  f_equal. rewrite Zplus_mod_idemp_l. f_equal. lia.
Qed.

Theorem incr_spec s j : wf s -> full s ->
  exists s', incr s j = Ok s' (OInt (Z.of_nat (ptr s'))) /\ wf s' /\ N s' = N s /\ st s' = st s /\
             forall k, at_ s' k = at_ s (k - j).
Proof.
  intros Hwf Hf. pose proof Hwf as (Hn & Hp & Hst). unfold full in Hf. unfold incr.
  destruct (st s) as [| |d sh r] eqn:Est; try contradiction.
  exists (set_ptr s (unwind (ptr s) (- j) (N s))); split; [reflexivity|]. cbn [set_ptr N ptr st].
  split; [|split; [reflexivity|split; [exact Est|]]].
  - unfold wf, set_ptr; cbn [N ptr st]. rewrite Est. repeat split; auto. apply unwind_lt; exact Hn.
  - intros k. unfold at_, rows, idx, set_ptr; cbn [N ptr st]. rewrite Est. f_equal.
    unfold unwind at 1. unfold _unwind_ptr. rewrite unwind_Z by exact Hn.
    unfold unwind, _unwind_ptr. f_equal. rewrite Zminus_mod_idemp_l. f_equal. lia.
Qed.

Theorem decr_spec s j : wf s -> full s ->
  exists s', decr s j = Ok s' (OInt (Z.of_nat (ptr s'))) /\ wf s' /\ N s' = N s /\ st s' = st s /\
             forall k, at_ s' k = at_ s (k + j).
Proof.
  intros Hwf Hf. pose proof Hwf as (Hn & Hp & Hst). unfold full in Hf. unfold decr.
  destruct (st s) as [| |d sh r] eqn:Est; try contradiction.
  exists (set_ptr s (unwind (ptr s) j (N s))); split; [reflexivity|]. cbn [set_ptr N ptr st].
  split; [|split; [reflexivity|split; [exact Est|]]].
  - unfold wf, set_ptr; cbn [N ptr st]. rewrite Est. repeat split; auto. apply unwind_lt; exact Hn.
  - intros k. unfold at_, rows, idx, set_ptr; cbn [N ptr st]. rewrite Est. f_equal.
    unfold unwind at 1. unfold _unwind_ptr. rewrite unwind_Z by exact Hn.
    unfold unwind, _unwind_ptr. f_equal. rewrite Zminus_mod_idemp_l. f_equal. lia.
Qed.

(* ------------------------------------------------------------------ align / reset *)
Lemma roll_length {X} (d : X) l z : length (roll d l z) = length l.
Proof. unfold roll. rewrite map_length, seq_length. reflexivity. Qed.
Lemma nth_roll {X} (d : X) l z i : i < length l ->
  nth i (roll d l z) d = nth (Z.to_nat ((Z.of_nat i - z) mod Z.of_nat (length l))) l d.
Proof. intros Hi. unfold roll. rewrite nth_map_seq by exact Hi. reflexivity. Qed.

Theorem align_spec s i : wf s -> full s -> (0 <= i < Z.of_nat (N s))%Z ->
  exists s', align s i = Ok s' OUnit /\ wf s' /\ N s' = N s /\ ptr s' = Z.to_nat i /\
             (exists d sh, st s = SFull d sh (rows s) /\ st s' = SFull d sh (rows s')) /\
             forall k, at_ s' k = at_ s k.
Proof.
  intros Hwf Hf Hi. pose proof Hwf as (Hn & Hp & Hst). unfold full in Hf. unfold align.
  replace ((0 <=? i)%Z && (i <? Z.of_nat (N s))%Z) with true by lia. cbn [negb].
  destruct (st s) as [| |d sh r] eqn:Est; try contradiction. rename Hst into Hlen.
  eexists; split; [reflexivity|]. cbn [N ptr st].
  split; [|split; [reflexivity|split; [reflexivity|split]]].
  - unfold wf; cbn [N ptr st]. rewrite roll_length. repeat split; auto; lia.
  - exists d, sh. unfold rows; cbn [st]; rewrite Est. split; reflexivity.
  - intros k. unfold at_, rows, idx; cbn [N ptr st]. rewrite Est.
    assert (Hu : unwind (Z.to_nat i) k (N s) < length r) by (rewrite Hlen; apply unwind_lt; exact Hn).
    rewrite nth_roll by exact Hu. f_equal. rewrite Hlen.
    rewrite unwind_Z by exact Hn. unfold unwind, _unwind_ptr. f_equal.
    rewrite Zminus_mod_idemp_l. f_equal. lia.
Qed.

Theorem reset_fill_spec s f : wf s -> full s ->
  exists s' d sh, reset s (Some f) = Ok s' OUnit /\ wf s' /\ N s' = N s /\ ptr s' = 0 /\
     st s = SFull d sh (rows s) /\ st s' = SFull d sh (rows s') /\
     forall k, at_ s' k = map (fun _ => cast d f) (at_ s (k + Z.of_nat (ptr s))).
Proof.
  intros Hwf Hf. pose proof Hwf as (Hn & Hp & Hst). unfold full in Hf. unfold reset.
  destruct (st s) as [| |d sh r] eqn:Est; try contradiction. rename Hst into Hlen.
  eexists; exists d, sh; split; [reflexivity|]. cbn [N ptr st].
  split; [|split; [reflexivity|split; [reflexivity|split; [|split]]]].
  - unfold wf; cbn [N ptr st]. rewrite map_length. repeat split; auto.
  - unfold rows; rewrite Est; reflexivity.
  - reflexivity.
  - intros k. unfold at_, rows; cbn [st]. rewrite Est.
    change (@nil A) with (map (fun _ : A => cast d f) (@nil A)) at 1. rewrite map_nth.
    f_equal. f_equal. unfold idx; cbn [N ptr]. unfold unwind, _unwind_ptr. f_equal. f_equal. lia.
Qed.

Theorem reset_none_spec s : wf s -> full s ->
  exists s', reset s None = Ok s' OUnit /\ wf s' /\ N s' = N s /\ ptr s' = 0 /\
             forall k, at_ s' k = at_ s k.
Proof.
  intros Hwf Hf. pose proof Hwf as (Hn & _).
  destruct (align_spec s 0 Hwf Hf ltac:(lia)) as (s' & H1 & H2 & H3 & H4 & _ & H6).
  exists s'. split; [exact H1|]. split; [exact H2|]. split; [exact H3|]. split; [exact H4|exact H6].
Qed.

(* ------------------------------------------------------------------ push / pop / peek *)
(* history, newest first: at 1, at 2, ..., at N *)
Definition hist (s : ring) : list (list A) := map (fun k => at_ s (Z.of_nat k + 1)) (seq 0 (N s)).

Lemma removelast_map_seq {X} (f : nat -> X) n : removelast (map f (seq 0 (S n))) = map f (seq 0 n).
Proof. rewrite seq_S, map_app. cbn [map]. apply removelast_last. Qed.

Lemma shape_eqb_refl sh : shape_eqb sh sh = true.
Proof.
  unfold shape_eqb. rewrite Nat.eqb_refl. cbn [andb].
  induction sh as [|a t IH]; cbn; [reflexivity|]. rewrite Nat.eqb_refl. exact IH.
Qed.

Theorem hist_push s o inplace : wf s -> full s ->
  exists d sh, st s = SFull d sh (rows s) /\
    (shape_eqb (oshape o) sh = true ->
     exists s', push s o inplace = Ok s' OUnit /\ wf s' /\ N s' = N s /\ st s' = SFull d sh (rows s') /\
                hist s' = map (cast d) (oel o) :: removelast (hist s)).
Proof.
  intros Hwf Hf. destruct (write_spec s o 0 inplace Hwf Hf) as (d & sh & Est & Hw).
  exists d, sh. split; [exact Est|]. intros Hsh. rewrite Hsh in Hw.
  destruct Hw as (s1 & Hw & HN1 & Hp1 & Est1 & Hlen1 & Hat1).
  assert (Hwf1 : wf s1) by (eapply wf_write; eauto).
  assert (Hf1 : full s1) by (unfold full; rewrite Est1; exact I).
  destruct (incr_spec s1 1 Hwf1 Hf1) as (s2 & Hi & Hwf2 & HN2 & Est2 & Hat2).
  exists s2. unfold push. unfold full in Hf. destruct (st s) eqn:E; try contradiction.
  rewrite Hw, Hi. split; [reflexivity|]. split; [exact Hwf2|]. split; [congruence|].
  split; [unfold rows; rewrite Est2, Est1; reflexivity|].
  unfold hist. rewrite HN2, HN1. pose proof Hwf as (Hn & _).
  destruct (N s) as [|n] eqn:EN; [lia|]. rewrite removelast_map_seq.
  apply nth_ext with (d := []) (d' := []).
  - cbn [length]. rewrite !map_length, !seq_length. reflexivity.
  - intros i Hi'. rewrite map_length, seq_length in Hi'.
    rewrite nth_map_seq by lia. rewrite Hat2, Hat1.
    destruct i as [|i]; cbn [nth].
    + replace (Z.of_nat 0 + 1 - 1)%Z with 0%Z by lia. rewrite Z.eqb_refl. reflexivity.
    + rewrite nth_map_seq by lia.
      destruct (Z.eqb_spec ((Z.of_nat (S i) + 1 - 1) mod Z.of_nat (S n)) (0 mod Z.of_nat (S n))) as [Hz|Hz].
      * rewrite Z.mod_small in Hz by lia. rewrite Z.mod_0_l in Hz by lia. lia.
      * f_equal. lia.
Qed.

(* the first push creates zero-filled storage: of the observation's data type when there was no
   storage at all, of the empty tensor's data type otherwise *)
Theorem push_creates_storage s o inplace : 0 < N s -> ~ full s ->
  let d := match st s with SEmpty e => e | _ => odt o end in
  exists s', push s o inplace = Ok s' OUnit /\ wf s' /\ N s' = N s /\
             st s' = SFull d (oshape o) (rows s') /\
             hist s' = map (cast d) (oel o) :: repeat (repeat zeroA (nel (oshape o))) (N s - 1).
Proof.
  intros Hn Hnf d.
  set (s1 := initialize zeroA s (oshape o) (odt o)).
  assert (Hs1 : N s1 = N s /\ ptr s1 = 0 /\
                st s1 = SFull d (oshape o) (repeat (repeat zeroA (nel (oshape o))) (N s))).
  { unfold s1, initialize, d, full in *. destruct (st s); cbn; auto. exfalso; apply Hnf; exact I. }
  destruct Hs1 as (HN1 & Hp1 & Est1).
  assert (Hwf1 : wf s1). { unfold wf. rewrite HN1, Hp1, Est1, repeat_length. auto. }
  assert (Hf1 : full s1) by (unfold full; rewrite Est1; exact I).
  destruct (hist_push s1 o inplace Hwf1 Hf1) as (d' & sh' & Est1' & Hpush).
  rewrite Est1 in Est1'. injection Est1' as <- <- Hrows.
  destruct (Hpush (shape_eqb_refl _)) as (s2 & Hp & Hwf2 & HN2 & Est2 & Hh).
  exists s2. split.
  - unfold push in *. unfold full in Hnf, Hf1. fold s1.
    destruct (st s) eqn:E; [| |exfalso; apply Hnf; exact I]; destruct (st s1) eqn:E1; try contradiction; exact Hp.
  - split; [exact Hwf2|]. split; [congruence|]. split; [exact Est2|]. rewrite Hh. f_equal.
    unfold hist. rewrite HN1. destruct (N s) as [|n] eqn:EN; [lia|]. rewrite removelast_map_seq.
    replace (S n - 1) with n by lia.
    apply nth_ext with (d := []) (d' := repeat zeroA (nel (oshape o))).
    + rewrite map_length, seq_length, repeat_length. reflexivity.
    + intros i Hi. rewrite map_length, seq_length in Hi. rewrite nth_map_seq by exact Hi.
      unfold at_, rows. rewrite Est1. rewrite nth_repeat.
      assert (Hlt : idx s1 (Z.of_nat i + 1) < S n) by (rewrite <- HN1; apply idx_lt; exact Hwf1).
      rewrite (nth_indep _ [] (repeat zeroA (nel (oshape o)))) by (rewrite repeat_length; exact Hlt).
      apply nth_repeat.
Qed.

Theorem peek_spec s : wf s -> full s ->
  exists d sh, st s = SFull d sh (rows s) /\ peek s = Ok s (OObs d sh (at_ s 1)).
Proof.
  intros Hwf Hf. destruct (read_spec s 1 Hwf Hf) as (d & sh & Est & Hr). exists d, sh. split; [exact Est|].
  unfold peek. unfold full in Hf. destruct (st s); try contradiction. exact Hr.
Qed.
Theorem peek_uninit s : ~ full s -> peek s = Ok s ONone.
Proof. unfold full, peek. destruct (st s); intros H; auto. exfalso; apply H; exact I. Qed.

(* pop returns the newest observation and steps the pointer back, so that the next push overwrites it *)
Theorem pop_spec s : wf s -> full s ->
  exists d sh s', st s = SFull d sh (rows s) /\ pop s = Ok s' (OObs d sh (at_ s 1)) /\ wf s' /\
                  N s' = N s /\ st s' = st s /\ forall k, at_ s' k = at_ s (k + 1).
Proof.
  intros Hwf Hf. destruct (decr_spec s 1 Hwf Hf) as (s' & Hd & Hwf' & HN' & Est' & Hat').
  assert (Hf' : full s') by (unfold full in *; rewrite Est'; exact Hf).
  destruct (read_spec s' 0 Hwf' Hf') as (d & sh & Est & Hr).
  exists d, sh, s'. split. { rewrite <- Est'. rewrite Est. f_equal. unfold rows. rewrite Est'. reflexivity. }
  split. { unfold pop. unfold full in Hf. destruct (st s); try contradiction. rewrite Hd, Hr, Hat'. reflexivity. }
  auto.
Qed.
Theorem pop_uninit s : ~ full s -> pop s = Ok s ONone.
Proof. unfold full, pop. destruct (st s); intros H; auto. exfalso; apply H; exact I. Qed.

(* ------------------------------------------------------------------ readrange *)
Lemma mod_cases (a n : Z) : (0 <= a < 2 * n)%Z ->
  (a < n /\ a mod n = a /\ a / n = 0)%Z \/ (n <= a /\ a mod n = a - n /\ a / n = 1)%Z.
Proof.
  intros H. destruct (Z_lt_le_dec a n) as [Hlt|Hge].
  - left. rewrite Z.mod_small, Z.div_small by lia. lia.
  - right. split; [exact Hge|]. split.
    + symmetry. apply Z.mod_unique with (q := 1%Z); lia.
    + symmetry. apply Z.div_unique with (r := (a - n)%Z); lia.
Qed.

Lemma sel_spec s len off : wf s -> full s -> 1 <= len <= N s ->
  let start := idx s off in
  let stop := idx s (off - Z.of_nat len) in
  (if stop <=? start then skipn start (rows s) ++ firstn stop (rows s) else slice (rows s) start stop)
  = map (fun j => at_ s (off - Z.of_nat j)) (seq 0 len).
Proof.
  intros Hwf Hf Hlen start stop. pose proof Hwf as (Hn & Hp & Hst).
  assert (Hrl : length (rows s) = N s).
  { unfold rows, full in *. destruct (st s); try contradiction. exact Hst. }
  assert (Hstart : start < N s) by (apply idx_lt; exact Hwf).
  assert (Hstop : Z.of_nat stop = ((Z.of_nat start + Z.of_nat len) mod Z.of_nat (N s))%Z).
  { unfold stop, start. rewrite idx_shift by exact Hwf. rewrite Z2Nat.id; [reflexivity|].
    apply Z.mod_pos_bound. lia. }
  assert (Hat : forall j, j < len -> at_ s (off - Z.of_nat j) =
                 nth (if start + j <? N s then start + j else start + j - N s) (rows s) []).
  { intros j Hj. unfold at_. rewrite idx_shift by exact Hwf. fold start. f_equal.
    destruct (mod_cases (Z.of_nat start + Z.of_nat j) (Z.of_nat (N s)) ltac:(lia)) as [(H1 & H2 & _)|(H1 & H2 & _)];
      rewrite H2; destruct (Nat.ltb_spec (start + j) (N s)); lia. }
  assert (Hcase : (stop <= start /\ stop + N s = start + len) \/ (start < stop /\ stop = start + len)).
  { destruct (mod_cases (Z.of_nat start + Z.of_nat len) (Z.of_nat (N s)) ltac:(lia)) as [(H1 & H2 & _)|(H1 & H2 & _)]; lia. }
  apply nth_ext with (d := []) (d' := []).
  - rewrite map_length, seq_length.
    destruct Hcase as [(Hle & He)|(Hgt & He)].
    + replace (stop <=? start) with true by (symmetry; apply Nat.leb_le; exact Hle).
      rewrite app_length, skipn_length, firstn_length, Hrl. lia.
    + replace (stop <=? start) with false by (symmetry; apply Nat.leb_gt; exact Hgt).
      unfold slice. rewrite firstn_length, skipn_length, Hrl. lia.
  - intros j Hj.
    destruct Hcase as [(Hle & He)|(Hgt & He)].
    + replace (stop <=? start) with true in * by (symmetry; apply Nat.leb_le; exact Hle).
      rewrite app_length, skipn_length, firstn_length, Hrl in Hj.
      rewrite nth_map_seq by lia. rewrite Hat by lia.
      destruct (Nat.ltb_spec (start + j) (N s)) as [Hlt|Hge].
      * rewrite app_nth1 by (rewrite skipn_length, Hrl; lia). rewrite nth_skipn'. reflexivity.
      * rewrite app_nth2 by (rewrite skipn_length, Hrl; lia). rewrite skipn_length, Hrl.
        rewrite nth_firstn' by lia. f_equal. lia.
    + replace (stop <=? start) with false in * by (symmetry; apply Nat.leb_gt; exact Hgt).
      unfold slice in *. rewrite firstn_length, skipn_length, Hrl in Hj.
      rewrite nth_map_seq by lia. rewrite Hat by lia.
      rewrite nth_firstn' by lia. rewrite nth_skipn'.
      destruct (Nat.ltb_spec (start + j) (N s)); [reflexivity|lia].
Qed.

(* reading a range with a scalar offset: element e, position j (oldest first) is the observation
   (off' - j) steps before the write position; lengths up to and including the whole record *)
Theorem readrange_scalar_spec s len off fwd : wf s -> full s -> 1 <= len <= N s ->
  exists d sh, st s = SFull d sh (rows s) /\
    readrange_scalar s len off fwd =
    Ok s (ORng (mkRng d sh
      (map (fun e => map (fun j => nth e (at_ s (shift_off off len fwd - Z.of_nat j)) zeroA) (seq 0 len))
           (seq 0 (nel sh))))).
Proof.
  intros Hwf Hf Hlen. pose proof (sel_spec s len (shift_off off len fwd) Hwf Hf Hlen) as Hsel.
  cbv zeta in Hsel. unfold full, rows in *. unfold readrange_scalar.
  destruct (st s) as [| |d sh r] eqn:Est; try contradiction.
  exists d, sh. split; [reflexivity|]. rewrite Hsel. unfold transpose. do 3 f_equal.
  apply map_ext. intros e. rewrite map_map. reflexivity.
Qed.

Theorem readrange_tensor_spec s len offs osh fwd : wf s -> full s ->
  exists d sh, st s = SFull d sh (rows s) /\
    readrange_tensor s len offs osh fwd =
    if shape_eqb osh sh then
      Ok s (ORng (mkRng d sh
        (map (fun e => map (fun j => nth e (at_ s (shift_off (nth e offs 0%Z) len fwd - Z.of_nat j)) zeroA) (seq 0 len))
             (seq 0 (nel sh)))))
    else Err EValue.
Proof.
  intros Hwf Hf. unfold full, rows, readrange_tensor, at_, rows in *.
  destruct (st s) as [| |d sh r] eqn:Est; try contradiction.
  exists d, sh. split; [reflexivity|]. destruct (shape_eqb osh sh); reflexivity.
Qed.

(* scalar and tensor offsets agree: a tensor of equal offsets reads what the scalar offset reads *)
Theorem readrange_branches_agree s len off fwd offs : wf s -> full s -> 1 <= len <= N s ->
  (forall e, nth e offs 0%Z = off) ->
  exists d sh, st s = SFull d sh (rows s) /\
    readrange_tensor s len offs sh fwd = readrange_scalar s len off fwd.
Proof.
  intros Hwf Hf Hlen Hoffs.
  destruct (readrange_scalar_spec s len off fwd Hwf Hf Hlen) as (d & sh & Est & Hs).
  destruct (readrange_tensor_spec s len offs sh fwd Hwf Hf) as (d' & sh' & Est' & Ht).
  rewrite Est in Est'. injection Est' as <- <-.
  exists d, sh. split; [exact Est|]. rewrite Hs, Ht, shape_eqb_refl. do 3 f_equal.
  apply map_ext. intros e. rewrite Hoffs. reflexivity.
Qed.

(* ------------------------------------------------------------------ writerange (scalar offset) *)
(* forward distance from slot p to slot i *)
Definition rel (n p i : nat) : nat := if p <=? i then i - p else i + n - p.

Lemma fold_upd_spec {X} (dflt : X) (n p : nat) (g : nat -> X) (len : nat) (l : list X) (i : nat) :
  0 < n -> length l = n -> p < n -> len <= n -> i < n ->
  nth i (fold_left (fun rs j => upd rs (unwind p (- Z.of_nat j) n) (g j)) (seq 0 len) l) dflt
  = if rel n p i <? len then g (rel n p i) else nth i l dflt.
Proof.
  intros Hn Hl Hp. induction len as [|len IH]; intros Hlen Hi.
  - cbn [seq fold_left]. destruct (rel n p i <? 0) eqn:E; [apply Nat.ltb_lt in E; lia|reflexivity].
  - rewrite seq_S, fold_left_app. cbn [fold_left Nat.add].
    set (acc := fold_left _ (seq 0 len) l) in *.
    assert (Hacc : length acc = n).
    { unfold acc. clear IH. generalize l Hl. generalize (seq 0 len). intros js. induction js as [|j js IHj]; intros l0 Hl0; cbn [fold_left]; auto.
      apply IHj. rewrite upd_length. exact Hl0. }
    assert (Hu : unwind p (- Z.of_nat len) n = if p + len <? n then p + len else p + len - n).
    { unfold unwind, _unwind_ptr.
      destruct (mod_cases (Z.of_nat p - - Z.of_nat len) (Z.of_nat n) ltac:(lia)) as [(H1 & H2 & _)|(H1 & H2 & _)];
        rewrite H2; destruct (Nat.ltb_spec (p + len) n); lia. }
    rewrite nth_upd by (rewrite Hacc; apply unwind_lt; exact Hn).
    rewrite IH by lia. rewrite Hu. unfold rel.
    destruct (Nat.ltb_spec (p + len) n); destruct (Nat.leb_spec p i);
      repeat match goal with |- context [Nat.eqb ?a ?b] => destruct (Nat.eqb_spec a b) end;
      repeat match goal with |- context [Nat.ltb ?a ?b] => destruct (Nat.ltb_spec a b) end;
      try lia; try reflexivity; f_equal; lia.
Qed.

Lemma noncontig_spec {X} (dflt : X) (n p len : nat) (c l : list X) (i : nat) :
  length l = n -> length c = len -> p < n -> len <= n -> n < p + len -> i < n ->
  nth i (skipn (n - p) c ++ slice l (len - (n - p)) p ++ firstn (n - p) c) dflt
  = if rel n p i <? len then nth (rel n p i) c dflt else nth i l dflt.
Proof.
  intros Hl Hc Hp Hlen Hnc Hi. unfold rel, slice.
  destruct (Nat.lt_ge_cases i (len - (n - p))) as [H1|H1].
  - rewrite app_nth1 by (rewrite skipn_length; lia). rewrite nth_skipn'.
    destruct (Nat.leb_spec p i); [lia|]. destruct (Nat.ltb_spec (i + n - p) len); [f_equal; lia|lia].
  - rewrite app_nth2 by (rewrite skipn_length; lia). rewrite skipn_length, Hc.
    destruct (Nat.lt_ge_cases i p) as [H2|H2].
    + rewrite app_nth1 by (rewrite firstn_length, skipn_length; lia).
      rewrite nth_firstn' by lia. rewrite nth_skipn'.
      destruct (Nat.leb_spec p i); [lia|]. destruct (Nat.ltb_spec (i + n - p) len); [lia|f_equal; lia].
    + rewrite app_nth2 by (rewrite firstn_length, skipn_length; lia).
      rewrite firstn_length, skipn_length, Hl. rewrite nth_firstn' by lia.
      destruct (Nat.leb_spec p i); [|lia]. destruct (Nat.ltb_spec (i - p) len); [f_equal; lia|lia].
Qed.

Lemma contig_spec {X} (dflt : X) (n p len : nat) (c l : list X) (i : nat) :
  length l = n -> length c = len -> p < n -> p + len <= n -> i < n ->
  nth i (firstn p l ++ c ++ skipn (p + len) l) dflt
  = if rel n p i <? len then nth (rel n p i) c dflt else nth i l dflt.
Proof.
  intros Hl Hc Hp Hlen Hi. unfold rel.
  destruct (Nat.lt_ge_cases i p) as [H1|H1].
  - rewrite app_nth1 by (rewrite firstn_length; lia). rewrite nth_firstn' by lia.
    destruct (Nat.leb_spec p i); [lia|]. destruct (Nat.ltb_spec (i + n - p) len); [lia|reflexivity].
  - rewrite app_nth2 by (rewrite firstn_length; lia). rewrite firstn_length, Hl.
    replace (Nat.min p n) with p by lia.
    destruct (Nat.leb_spec p i); [|lia].
    destruct (Nat.lt_ge_cases (i - p) len) as [H2|H2].
    + rewrite app_nth1 by lia. destruct (Nat.ltb_spec (i - p) len); [reflexivity|lia].
    + rewrite app_nth2 by lia. rewrite Hc, nth_skipn'.
      destruct (Nat.ltb_spec (i - p) len); [lia|f_equal; lia].
Qed.

(* steps-before-present of slot i relative to the (shifted) offset: which column of the range lands
   on the observation k steps before the write position *)
Definition hit (s : ring) (off : Z) (k : Z) : nat :=
  Z.to_nat ((off - k) mod Z.of_nat (N s)).

Lemma rel_idx s off k : wf s -> rel (N s) (idx s off) (idx s k) = hit s off k.
Proof.
  intros Hwf. pose proof Hwf as (Hn & Hp & _). pose proof (idx_lt s off Hwf). pose proof (idx_lt s k Hwf).
  unfold rel, hit. pose proof (unwind_Z (ptr s) off (N s) Hn) as H1. pose proof (unwind_Z (ptr s) k (N s) Hn) as H2.
  fold (idx s off) in H1. fold (idx s k) in H2.
  assert (E : ((off - k) mod Z.of_nat (N s) = (Z.of_nat (idx s k) - Z.of_nat (idx s off)) mod Z.of_nat (N s))%Z).
  { rewrite H1, H2. rewrite <- Zminus_mod. f_equal. lia. }
  rewrite E. destruct (Nat.leb_spec (idx s off) (idx s k)).
  - rewrite Z.mod_small by lia. lia.
  - destruct (mod_cases (Z.of_nat (idx s k) - Z.of_nat (idx s off) + Z.of_nat (N s)) (Z.of_nat (N s)) ltac:(lia)) as [(Hm3 & Hm4 & _)|(Hm3 & Hm4 & _)]; [|lia].
    replace ((Z.of_nat (idx s k) - Z.of_nat (idx s off)) mod Z.of_nat (N s))%Z
      with ((Z.of_nat (idx s k) - Z.of_nat (idx s off) + Z.of_nat (N s)) mod Z.of_nat (N s))%Z.
    + rewrite Hm4. lia.
    + replace (Z.of_nat (idx s k) - Z.of_nat (idx s off) + Z.of_nat (N s))%Z
        with (Z.of_nat (idx s k) - Z.of_nat (idx s off) + 1 * Z.of_nat (N s))%Z by lia.
      apply Z.mod_add. lia.
Qed.

(* writing a range with a scalar offset, all three code paths: column j of the range lands on the
   observation (off' - j) steps before the write position, every other observation is unchanged;
   the in-place and the wrapping path convert to the record's data type, the contiguous
   out-of-place path promotes the whole storage (torch.cat) *)
Theorem writerange_scalar_spec s r off fwd inplace : wf s -> full s ->
  let len := range_len r in
  let off' := shift_off off len fwd in
  1 <= len <= N s -> Forall (fun c => length c = len) (rcols r) ->
  exists d sh, st s = SFull d sh (rows s) /\
    (shape_eqb (rshape r) sh = true ->
     exists s' d', writerange_scalar s r off fwd inplace = Ok s' OUnit /\ wf s' /\ N s' = N s /\ ptr s' = ptr s /\
       st s' = SFull d' sh (rows s') /\
       d' = (if inplace || (N s <? idx s off' + len) then d else promote d (rdt r)) /\
       forall k, at_ s' k =
         if inplace || (N s <? idx s off' + len)
         then (if hit s off' k <? len then map (cast d) (col zeroA (rcols r) (hit s off' k)) else at_ s k)
         else map (cast d') (if hit s off' k <? len then col zeroA (rcols r) (hit s off' k) else at_ s k)).
Proof.
  intros Hwf Hf len off' Hlen Hcols. pose proof Hwf as (Hn & Hp & Hst).
  unfold full in Hf. unfold writerange_scalar. fold len. fold off'. unfold rows at 1.
  destruct (st s) as [| |d sh rw] eqn:Est; try contradiction. rename Hst into Hrl.
  exists d, sh. split; [reflexivity|]. intros Hsh. rewrite Hsh. cbn [negb].
  replace (N s <? len) with false by (symmetry; apply Nat.ltb_ge; lia).
  set (p := idx s off').
  assert (Hp' : p < N s) by (apply idx_lt; exact Hwf).
  set (obsT := map (col zeroA (rcols r)) (seq 0 len)).
  set (castT := map (map (cast d)) obsT).
  assert (HoT : length obsT = len) by (unfold obsT; rewrite map_length, seq_length; reflexivity).
  assert (HcT : length castT = len) by (unfold castT; rewrite map_length; exact HoT).
  assert (HnthC : forall j, j < len -> nth j castT [] = map (cast d) (col zeroA (rcols r) j)).
  { intros j Hj. unfold castT. change (@nil A) with (map (cast d) (@nil A)) at 1. rewrite map_nth.
    unfold obsT. rewrite nth_map_seq by exact Hj. reflexivity. }
  assert (HnthO : forall j, j < len -> nth j obsT [] = col zeroA (rcols r) j).
  { intros j Hj. unfold obsT. rewrite nth_map_seq by exact Hj. reflexivity. }
  destruct inplace; cbn [orb].
  - (* in place *)
    eexists; exists d. split; [reflexivity|]. unfold set_st; cbn [N ptr st].
    assert (Hlenf : forall js l0, length l0 = N s ->
              length (fold_left (fun rs j => upd rs (unwind p (- Z.of_nat j) (N s)) (nth j castT [])) js l0) = N s).
    { intros js. induction js as [|j js IHj]; intros l0 Hl0; cbn [fold_left]; auto. apply IHj. rewrite upd_length. exact Hl0. }
    split; [unfold wf; cbn [N ptr st]; rewrite Hlenf by exact Hrl; auto|].
    split; [reflexivity|]. split; [reflexivity|]. split; [reflexivity|]. split; [reflexivity|].
    intros k. unfold at_ at 1. unfold rows; cbn [st].
    change (idx (mkRing (N s) (ptr s) _) k) with (idx s k).
    rewrite (fold_upd_spec [] (N s) p (fun j => nth j castT []) len rw (idx s k) Hn Hrl Hp' ltac:(lia) (idx_lt s k Hwf)).
    unfold p. rewrite rel_idx by exact Hwf.
    destruct (Nat.ltb_spec (hit s off' k) len) as [Hh|Hh].
    + apply HnthC; exact Hh.
    + unfold at_, rows. rewrite Est. reflexivity.
  - destruct (Nat.ltb_spec (N s) (p + len)) as [Hnc|Hc].
    + (* wrapping, out of place *)
      eexists; exists d. split; [reflexivity|]. unfold set_st; cbn [N ptr st].
      assert (Hl' : length (skipn (N s - p) castT ++ slice rw (len - (N s - p)) p ++ firstn (N s - p) castT) = N s).
      { unfold slice. rewrite !app_length, skipn_length, !firstn_length, skipn_length, HcT, Hrl. lia. }
      split; [unfold wf; cbn [N ptr st]; rewrite Hl'; auto|].
      split; [reflexivity|]. split; [reflexivity|]. split; [reflexivity|]. split; [reflexivity|].
      intros k. unfold at_ at 1. unfold rows; cbn [st].
      change (idx (mkRing (N s) (ptr s) _) k) with (idx s k).
      rewrite (noncontig_spec [] (N s) p len castT rw (idx s k) Hrl HcT Hp' ltac:(lia) Hnc (idx_lt s k Hwf)).
      unfold p. rewrite rel_idx by exact Hwf.
      destruct (Nat.ltb_spec (hit s off' k) len) as [Hh|Hh].
      * apply HnthC; exact Hh.
      * unfold at_, rows. rewrite Est. reflexivity.
    + (* contiguous, out of place: promoted *)
      eexists; eexists. split; [reflexivity|]. unfold set_st; cbn [N ptr st].
      assert (Hl' : length (firstn p rw ++ obsT ++ skipn (p + len) rw) = N s).
      { rewrite !app_length, firstn_length, skipn_length, HoT, Hrl. lia. }
      split; [unfold wf; cbn [N ptr st]; rewrite map_length, Hl'; auto|].
      split; [reflexivity|]. split; [reflexivity|]. split; [reflexivity|]. split; [reflexivity|].
      intros k. unfold at_ at 1. unfold rows; cbn [st].
      change (idx (mkRing (N s) (ptr s) _) k) with (idx s k).
      change (@nil A) with (map (cast (promote d (rdt r))) (@nil A)) at 1. rewrite map_nth. f_equal.
      rewrite (contig_spec [] (N s) p len obsT rw (idx s k) Hrl HoT Hp' Hc (idx_lt s k Hwf)).
      unfold p. rewrite rel_idx by exact Hwf.
      destruct (Nat.ltb_spec (hit s off' k) len) as [Hh|Hh].
      * apply HnthO; exact Hh.
      * unfold at_, rows. rewrite Est. reflexivity.
Qed.

(* ------------------------------------------------------------------ writerange (tensor offsets, scatter) *)
Definition wr (rs : list (list A)) (i e : nat) (v : A) : list (list A) := upd rs i (upd (nth i rs []) e v).
Definition rect (rs : list (list A)) (n m : nat) : Prop := length rs = n /\ forall i, i < n -> length (nth i rs []) = m.

Lemma wr_rect rs n m i e v : rect rs n m -> rect (wr rs i e v) n m.
Proof.
  intros (Hl & Hr). unfold wr, rect. rewrite upd_length. split; [exact Hl|].
  intros i' Hi'. destruct (Nat.lt_ge_cases i (length rs)) as [Hi|Hi].
  - rewrite nth_upd by exact Hi. destruct (Nat.eqb_spec i' i) as [->|]; [rewrite upd_length|]; apply Hr; lia.
  - rewrite nth_upd_ge by exact Hi. apply Hr; exact Hi'.
Qed.
Lemma nth_wr rs n m i e v i' e' : rect rs n m -> i < n -> e < m -> i' < n ->
  nth e' (nth i' (wr rs i e v) []) zeroA = if (i' =? i) && (e' =? e) then v else nth e' (nth i' rs []) zeroA.
Proof.
  intros (Hl & Hr) Hi He Hi'. unfold wr. rewrite nth_upd by lia.
  destruct (Nat.eqb_spec i' i) as [->|Hne]; cbn [andb]; [|reflexivity].
  rewrite nth_upd by (rewrite Hr; lia). destruct (Nat.eqb_spec e' e); reflexivity.
Qed.

Lemma inner_spec (f : nat -> nat) (g : nat -> A) n m : forall k rs, k <= m -> rect rs n m -> (forall e, e < k -> f e < n) ->
  let rs' := fold_left (fun rs e => wr rs (f e) e (g e)) (seq 0 k) rs in
  rect rs' n m /\
  forall i' e', i' < n -> nth e' (nth i' rs' []) zeroA = if (e' <? k) && (f e' =? i') then g e' else nth e' (nth i' rs []) zeroA.
Proof.
  induction k as [|k IH]; intros rs Hk Hrect Hf; cbn zeta.
  - cbn [seq fold_left]. split; [exact Hrect|]. intros i' e' _. reflexivity.
  - rewrite seq_S, fold_left_app. cbn [fold_left Nat.add].
    destruct (IH rs ltac:(lia) Hrect ltac:(intros; apply Hf; lia)) as (Hrect' & Hnth). cbn zeta in Hrect', Hnth.
    split; [apply wr_rect; exact Hrect'|].
    intros i' e' Hi'. rewrite (nth_wr _ n m) by (auto; try lia; apply Hf; lia).
    rewrite Hnth by exact Hi'.
    destruct (Nat.eqb_spec i' (f k)) as [->|Hne]; destruct (Nat.eqb_spec e' k) as [->|Hne']; cbn [andb].
    + replace (k <? S k) with true by (symmetry; apply Nat.ltb_lt; lia). rewrite Nat.eqb_refl. reflexivity.
    + destruct (Nat.ltb_spec e' k); destruct (Nat.ltb_spec e' (S k)); try lia; reflexivity.
    + replace (k <? S k) with true by (symmetry; apply Nat.ltb_lt; lia).
      replace (k <? k) with false by (symmetry; apply Nat.ltb_ge; lia).
      destruct (Nat.eqb_spec (f k) i'); [congruence|reflexivity].
    + destruct (Nat.ltb_spec e' k); destruct (Nat.ltb_spec e' (S k)); try lia; reflexivity.
Qed.

Lemma list_prod_app_l {X Y} (l l' : list X) (l2 : list Y) : list_prod (l ++ l') l2 = list_prod l l2 ++ list_prod l' l2.
Proof. induction l as [|a l IH]; cbn [list_prod app]; [reflexivity|]. rewrite IH, app_assoc. reflexivity. Qed.
Lemma fold_left_map' {X Y Z} (F : Z -> Y -> Z) (h : X -> Y) l : forall z, fold_left F (map h l) z = fold_left (fun z x => F z (h x)) l z.
Proof. induction l as [|a l IH]; intros z; cbn [map fold_left]; auto. Qed.

(* scatter of a range: per element e, column j lands on slot idx (off_e - j); last write wins is
   irrelevant because for len <= N the slots of one element are distinct *)
Lemma scatter_spec (s : ring) (offz : nat -> Z) (val : nat -> nat -> A) n m : wf s -> N s = n ->
  forall len rs, len <= n -> rect rs n m ->
  let F := fun rs (je : nat * nat) => let '(j, e) := je in
             wr rs (idx s (offz e - Z.of_nat j)) e (val e j) in
  let rs' := fold_left F (list_prod (seq 0 len) (seq 0 m)) rs in
  rect rs' n m /\
  forall k e', e' < m ->
    nth e' (nth (idx s k) rs' []) zeroA =
    if hit s (offz e') k <? len then val e' (hit s (offz e') k) else nth e' (nth (idx s k) rs []) zeroA.
Proof.
  intros Hwf HN. induction len as [|len IH]; intros rs Hlen Hrect; cbn zeta.
  - cbn [seq list_prod fold_left]. split; [exact Hrect|]. intros k e' _.
    destruct (hit s (offz e') k <? 0) eqn:E; [apply Nat.ltb_lt in E; lia|reflexivity].
  - rewrite seq_S, list_prod_app_l, fold_left_app. cbn [list_prod Nat.add]. rewrite app_nil_r, fold_left_map'.
    destruct (IH rs ltac:(lia) Hrect) as (Hrect' & Hnth). cbn zeta in Hrect', Hnth.
    set (acc := fold_left _ (list_prod (seq 0 len) (seq 0 m)) rs) in *.
    pose proof (inner_spec (fun e => idx s (offz e - Z.of_nat len)) (fun e => val e len) n m m acc (le_n m) Hrect'
                  ltac:(intros; rewrite <- HN; apply idx_lt; exact Hwf)) as (Hrect'' & Hin).
    cbn zeta in Hrect'', Hin. split; [exact Hrect''|].
    intros k e' He'. rewrite Hin by (rewrite <- HN; apply idx_lt; exact Hwf). rewrite Hnth by exact He'.
    replace (e' <? m) with true by (symmetry; apply Nat.ltb_lt; exact He'). cbn [andb].
    (* idx (off - len) = idx k  <->  hit = len *)
    assert (Hiff : idx s (offz e' - Z.of_nat len) = idx s k <-> hit s (offz e') k = len).
    { rewrite idx_eq_iff by exact Hwf. unfold hit. pose proof Hwf as (Hn & _). rewrite HN in *.
      rewrite mod_eq_sub_iff by lia.
      assert (Hh : (Z.to_nat ((offz e' - k) mod Z.of_nat n) = len <->
                    (offz e' - k) mod Z.of_nat n = Z.of_nat len mod Z.of_nat n)%Z).
      { rewrite (Z.mod_small (Z.of_nat len)) by lia.
        pose proof (Z.mod_pos_bound (offz e' - k) (Z.of_nat n) ltac:(lia)). lia. }
      rewrite Hh, mod_eq_sub_iff by lia.
      replace (offz e' - Z.of_nat len - k)%Z with (offz e' - k - Z.of_nat len)%Z by lia. reflexivity. }
    destruct (Nat.eqb_spec (idx s (offz e' - Z.of_nat len)) (idx s k)) as [He|He].
    + apply Hiff in He. rewrite He. replace (len <? S len) with true by (symmetry; apply Nat.ltb_lt; lia). reflexivity.
    + assert (hit s (offz e') k <> len) by (intros Hc; apply He, Hiff, Hc).
      destruct (Nat.ltb_spec (hit s (offz e') k) len); destruct (Nat.ltb_spec (hit s (offz e') k) (S len)); try lia; reflexivity.
Qed.

(* writing a range with per-element offsets: for element e, column j lands on the observation
   (off'_e - j) steps before the write position; every other element of every observation is
   unchanged; in place and out of place agree; data types must match (no conversion) *)
Theorem writerange_tensor_spec s r offs osh fwd inplace : wf s -> full s ->
  let len := range_len r in
  1 <= len <= N s ->
  exists d sh, st s = SFull d sh (rows s) /\
    (rect (rows s) (N s) (nel sh) ->
     shape_eqb (rshape r) sh = true -> shape_eqb osh sh = true -> D_eqb d (rdt r) = true ->
     exists s', writerange_tensor s r offs osh fwd inplace = Ok s' OUnit /\ wf s' /\ N s' = N s /\ ptr s' = ptr s /\
       st s' = SFull d sh (rows s') /\ rect (rows s') (N s) (nel sh) /\
       forall k e, e < nel sh ->
         nth e (at_ s' k) zeroA =
         let off' := shift_off (nth e offs 0%Z) len fwd in
         if hit s off' k <? len then nth (hit s off' k) (nth e (rcols r) []) zeroA else nth e (at_ s k) zeroA).
Proof.
  intros Hwf Hf len Hlen. pose proof Hwf as (Hn & Hp & Hst).
  unfold full in Hf. unfold writerange_tensor. fold len. unfold rows at 1 2.
  destruct (st s) as [| |d sh rw] eqn:Est; try contradiction.
  exists d, sh. split; [reflexivity|]. intros Hrect Hsh Hosh Hd. rewrite Hsh, Hosh, Hd. cbn [negb]. cbv zeta.
  replace (N s <? len) with false by (symmetry; apply Nat.ltb_ge; lia).
  pose proof (scatter_spec s (fun e => shift_off (nth e offs 0%Z) len fwd)
                (fun e j => nth j (nth e (rcols r) []) zeroA) (N s) (nel sh) Hwf eq_refl len rw ltac:(lia) Hrect)
    as (Hrect' & Hnth). cbn zeta in Hrect', Hnth.
  eexists. split; [reflexivity|]. unfold set_st; cbn [N ptr st].
  split; [unfold wf; cbn [N ptr st]; split; [exact Hn|split; [exact Hp|exact (proj1 Hrect')]]|].
  split; [reflexivity|]. split; [reflexivity|]. split; [reflexivity|].
  unfold rows; cbn [st]. split; [exact Hrect'|].
  intros k e He. unfold at_ at 1. unfold rows; cbn [st].
  change (idx (mkRing (N s) (ptr s) _) k) with (idx s k).
  etransitivity; [exact (Hnth k e He)|]. cbv zeta.
  destruct (hit s (shift_off (nth e offs 0%Z) len fwd) k <? len); [reflexivity|].
  unfold at_, rows. rewrite Est. reflexivity.
Qed.

(* ------------------------------------------------------------------ invariant over every run *)
Notation step := (@step A D cast promote D_eqb zeroA).
Notation run := (@run A D cast promote D_eqb zeroA).

Lemma fold_upd_length {X Y} (f : list X -> Y -> nat) (g : list X -> Y -> X) js : forall (l : list X),
  length (fold_left (fun rs j => upd rs (f rs j) (g rs j)) js l) = length l.
Proof. induction js as [|j js IH]; intros l; cbn [fold_left]; auto. rewrite IH, upd_length. reflexivity. Qed.

Lemma wf0 (s : ring) : 0 < N s -> ptr s < N s -> ~ full s -> wf s.
Proof. intros Hn Hp Hf. unfold wf, full in *. destruct (st s); auto. exfalso; apply Hf; exact I. Qed.

Theorem step_wf s o s' out : wf s -> step s o = Ok s' out -> wf s' /\ N s' = N s.
Proof.
  intros Hwf Hs. pose proof Hwf as (Hn & Hp & Hst).
  destruct o; cbn [Ring.step] in Hs.
  - (* push *)
    destruct (st s) eqn:Est.
    + destruct (push_creates_storage s o inplace Hn ltac:(unfold full; rewrite Est; tauto)) as (s2 & H1 & H2 & H3 & _).
      rewrite H1 in Hs. injection Hs as <- _. auto.
    + destruct (push_creates_storage s o inplace Hn ltac:(unfold full; rewrite Est; tauto)) as (s2 & H1 & H2 & H3 & _).
      rewrite H1 in Hs. injection Hs as <- _. auto.
    + assert (Hf : full s) by (unfold full; rewrite Est; exact I).
      destruct (hist_push s o inplace Hwf Hf) as (d0 & sh0 & Est0 & Hpush).
      destruct (shape_eqb (oshape o) sh0) eqn:Esh.
      * destruct (Hpush eq_refl) as (s2 & H1 & H2 & H3 & _). rewrite H1 in Hs. injection Hs as <- _. auto.
      * exfalso. unfold Ring.push in Hs. rewrite Est in Hs. unfold Ring.write in Hs. rewrite Est in Hs.
        rewrite Est in Est0. injection Est0 as <- <- _. rewrite Esh in Hs. cbn in Hs. discriminate.
  - (* pop *)
    destruct (st s) eqn:Est; try (unfold Ring.pop in Hs; rewrite Est in Hs; injection Hs as <- _; auto).
    assert (Hf : full s) by (unfold full; rewrite Est; exact I).
    destruct (pop_spec s Hwf Hf) as (d0 & sh0 & s2 & _ & H1 & H2 & H3 & _).
    rewrite H1 in Hs. injection Hs as <- _. auto.
  - (* peek *)
    unfold Ring.peek, Ring.read in Hs. destruct (st s); injection Hs as <- _; auto.
  - (* read *)
    unfold Ring.read in Hs. destruct (st s); try discriminate. injection Hs as <- _; auto.
  - (* write *)
    split; [eapply wf_write; eauto|].
    unfold Ring.write in Hs. destruct (st s); try discriminate.
    destruct (negb _); try discriminate. destruct inplace; injection Hs as <- _; reflexivity.
  - (* incr *)
    destruct (st s) eqn:Est; try (unfold Ring.incr in Hs; rewrite Est in Hs; discriminate).
    assert (Hf : full s) by (unfold full; rewrite Est; exact I).
    destruct (incr_spec s k Hwf Hf) as (s2 & H1 & H2 & H3 & _). rewrite H1 in Hs. injection Hs as <- _. auto.
  - (* decr *)
    destruct (st s) eqn:Est; try (unfold Ring.decr in Hs; rewrite Est in Hs; discriminate).
    assert (Hf : full s) by (unfold full; rewrite Est; exact I).
    destruct (decr_spec s k Hwf Hf) as (s2 & H1 & H2 & H3 & _). rewrite H1 in Hs. injection Hs as <- _. auto.
  - (* align *)
    unfold Ring.align in Hs. destruct ((0 <=? i)%Z && (i <? Z.of_nat (N s))%Z) eqn:Ei; cbn [negb] in Hs; try discriminate.
    destruct (st s) eqn:Est; try discriminate.
    assert (Hf : full s) by (unfold full; rewrite Est; exact I).
    destruct (align_spec s i Hwf Hf ltac:(lia)) as (s2 & H1 & H2 & H3 & _).
    unfold Ring.align in H1. rewrite Ei, Est in H1. cbn [negb] in H1. rewrite H1 in Hs. injection Hs as <- _. auto.
  - (* reset *)
    destruct fill as [f|].
    + unfold Ring.reset in Hs. destruct (st s) eqn:Est; injection Hs as <- _;
        unfold wf; cbn [N ptr st]; rewrite ?map_length; repeat split; auto; try lia.
    + unfold Ring.reset, Ring.align in Hs.
      destruct ((0 <=? 0)%Z && (0 <? Z.of_nat (N s))%Z) eqn:Ei; cbn [negb] in Hs; try discriminate.
      destruct (st s) eqn:Est; try discriminate.
      assert (Hf : full s) by (unfold full; rewrite Est; exact I).
      destruct (reset_none_spec s Hwf Hf) as (s2 & H1 & H2 & H3 & _).
      unfold Ring.reset, Ring.align in H1. rewrite Ei, Est in H1. cbn [negb] in H1. rewrite H1 in Hs. injection Hs as <- _. auto.
  - (* readrange scalar *)
    unfold Ring.readrange_scalar in Hs. destruct (st s); try discriminate. injection Hs as <- _; auto.
  - (* readrange tensor *)
    unfold Ring.readrange_tensor in Hs. destruct (st s); try discriminate.
    destruct (negb _); try discriminate. injection Hs as <- _; auto.
  - (* writerange scalar *)
    unfold Ring.writerange_scalar in Hs. destruct (st s) as [| |d sh rw] eqn:Est; try discriminate.
    destruct (negb _); try discriminate.
    destruct (Nat.ltb_spec (N s) (range_len r)) as [|Hle]; try discriminate.
    set (len := range_len r) in *. set (p := idx s (shift_off off len fwd)) in *.
    assert (Hp' : p < N s) by (apply idx_lt; exact Hwf).
    destruct inplace.
    + injection Hs as <- _. unfold wf, set_st; cbn [N ptr st].
      rewrite (fold_upd_length (fun _ j => unwind p (- Z.of_nat j) (N s))
                 (fun _ j => nth j (map (map (cast d)) (map (col zeroA (rcols r)) (seq 0 len))) [])).
      auto.
    + destruct (Nat.ltb_spec (N s) (p + len)); injection Hs as <- _; unfold wf, set_st; cbn [N ptr st];
        (split; [split; [exact Hn|split; [exact Hp|]]|reflexivity]).
      * unfold slice. rewrite !app_length, skipn_length, !firstn_length, skipn_length, !map_length, seq_length. lia.
      * rewrite map_length, !app_length, firstn_length, skipn_length, map_length, seq_length. lia.
  - (* writerange tensor *)
    unfold Ring.writerange_tensor in Hs. destruct (st s) as [| |d sh rw] eqn:Est; try discriminate.
    repeat match type of Hs with context [if ?c then _ else _] => destruct c; try discriminate end.
    all: injection Hs as <- _; unfold wf, set_st; cbn [N ptr st].
    all: split; [split; [exact Hn|split; [exact Hp|]]|reflexivity].
    all: match goal with |- length (fold_left ?f ?jj ?l) = _ =>
      assert (Hgen : forall js0 l0, length (fold_left f js0 l0) = length l0) end.
    all: try (intros js0; induction js0 as [|[j e] js0 IH]; intros l0; cbn [fold_left]; auto; rewrite IH, upd_length; reflexivity).
    all: rewrite Hgen; exact Hst.
Qed.

(* a range of another data type is first converted to the storage's own type: writing it equals writing the
   converted range (declared with the storage's type), on every state; nothing else about the write changes *)
Theorem writerange_tensor_converts s r offs osh fwd inplace d sh rw :
  st s = SFull d sh rw -> D_eqb d (rdt r) = false -> D_eqb d d = true ->
  writerange_tensor s r offs osh fwd inplace
  = writerange_tensor s (mkRng d (rshape r) (map (map (cast d)) (rcols r))) offs osh fwd inplace.
Proof.
  intros Est Hne Hrefl. unfold Ring.writerange_tensor. rewrite Est. cbn [rdt rshape rcols].
  rewrite Hne, Hrefl.
  assert (Hlen : range_len (mkRng d (rshape r) (map (map (cast d)) (rcols r))) = range_len r).
  { unfold range_len. cbn [rcols]. destruct (rcols r) as [|c cs]; cbn [map]; [reflexivity|apply map_length]. }
  rewrite Hlen. reflexivity.
Qed.

(* every reachable state is well formed and the record size never changes *)
Theorem run_wf : forall ops s, wf s -> wf (fst (run s ops)) /\ N (fst (run s ops)) = N s.
Proof.
  induction ops as [|o ops IH]; intros s Hwf; cbn [Ring.run fst]; [auto|].
  destruct (step s o) as [s' out|e] eqn:Es.
  - destruct (step_wf s o s' out Hwf Es) as (Hwf' & HN').
    destruct (IH s' Hwf') as (H1 & H2). destruct (run s' ops) as [sf outs]. cbn [fst] in *. split; [exact H1|congruence].
  - destruct (IH s Hwf) as (H1 & H2). destruct (run s ops) as [sf outs]. cbn [fst] in *. auto.
Qed.

End Proofs.
