(* Executable instance of the Ring model for the correspondence check.
   Elements are integers z standing for the value z/2 (so halves are representable); data types are
   0 = bool, 1 = int64, 2 = float64. *)
From Coq Require Import List ZArith Bool.
From Inferno Require Import Base.NumF C01.Ring.
Import ListNotations.

Definition castZ (d : Z) (z : Z) : Z :=
  if (d =? 0)%Z then (if (z =? 0)%Z then 0 else 2)%Z
  else if (d =? 1)%Z then (2 * Z.quot z 2)%Z
  else z.
Definition promoteZ (a b : Z) : Z := Z.max a b.

Definition ring0 := @ring Z Z.
Definition step0 : ring0 -> op -> result := @step Z Z castZ promoteZ Z.eqb 0%Z.

Definition ser_err (e : err) : tree := match e with ERuntime => L 1 | EValue => L 2 | EIndex => L 3 end%Z.
Definition ser_shape (s : list nat) : tree := ser_list ser_nat s.
Definition ser_out (o : @output Z Z) : tree :=
  match o with
  | ONone => Nd [L 0]
  | OUnit => Nd [L 1]
  | OInt z => Nd [L 2; L z]
  | OObs d sh el => Nd [L 3; L d; ser_shape sh; ser_list ser_Z el]
  | ORng r => Nd [L 4; L (rdt r); ser_shape (rshape r); ser_list (ser_list ser_Z) (rcols r)]
  end%Z.
Definition ser_state (s : ring0) : tree :=
  match st s with
  | SNone => Nd [ser_nat (N s); ser_nat (ptr s); L 0]
  | SEmpty d => Nd [ser_nat (N s); ser_nat (ptr s); L 1; L d]
  | SFull d sh rows => Nd [ser_nat (N s); ser_nat (ptr s); L 2; L d; ser_shape sh; ser_list (ser_list ser_Z) rows]
  end%Z.

(* per operation: [output-or-error; state after] *)
Fixpoint trace (s : ring0) (ops : list op) : list tree :=
  match ops with
  | [] => []
  | o :: tl =>
      match step0 s o with
      | Ok s' out => Nd [Nd [L 0; ser_out out]; ser_state s'] :: trace s' tl
      | Err e => Nd [Nd [L 1; ser_err e]; ser_state s] :: trace s tl
      end
  end%Z.
Definition run_case (n : nat) (init : @storage Z Z) (ops : list op) : tree :=
  Nd (trace (mkRing n 0 init) ops).
