(* C01 flagship: the RecordTensor model (C01/Ring.v) REFINES a pointer-free list-of-observations
   machine.

   Specification machine: a state is just the record size, the data type, the observation shape and
   the list [sh] of the N stored observations INDEXED BY AGE: [nth k sh []] is the observation k steps
   before the write position (k taken modulo N; index 1 = newest, index 0 = N = the slot that the
   next push overwrites).  There is no pointer and no storage layout.  Every operation is a list
   operation on [sh]: a rotation (incr/decr/push/pop), a pointwise update (write/writerange/reset)
   or a pointwise read (read/peek/pop/readrange).

   Refinement: [abs s] reads the N observations of a model state through [at_]; for every operation
   of the fragment the model step succeeds, commutes with [abs] and returns the output of the
   specification step ([step_refines]); by induction every output of every run of the model equals
   the output of the specification run ([run_refines]).

   THE FRAGMENT ([sp_valid], all thirteen constructors of [Ring.op] are covered):
   * storage initialised (SFull) and rectangular (every stored observation has nel(shape) elements:
     true of storage created by the first push, preserved by every operation of the fragment:
     [spec_step_rect]); the creation of the storage by the first push is covered separately by
     [first_push_refines] / [run_refines_from_uninit];
   * OpPush / OpWrite: observation of the record's shape with nel(shape) elements; any offset; both
     inplace variants;
   * OpPop, OpPeek, OpRead (any integer offset), OpIncr / OpDecr (any integer step; the returned
     integer is the new PHYSICAL pointer, which the specification does not have: outputs are compared
     modulo that integer, see [erase]);
   * OpAlign i with 0 <= i < N; OpReset None; OpReset (Some fill);
   * OpReadRangeS / OpReadRangeT: 1 <= len <= N, any offsets, forward and backward; tensor offsets
     of the record's shape;
   * OpWriteRangeS / OpWriteRangeT: range of the record's shape, nel(shape) columns of equal length
     len, 1 <= len <= N, any offsets, forward and backward;
     - OpWriteRangeT: equal data types (torch.scatter raises otherwise), both inplace variants;
     - OpWriteRangeS inplace: no further condition;
     - OpWriteRangeS OUT OF PLACE: only when [promote d (rdt r) = d] AND the stored history is stable
       under conversion to d ([cast_stable]).  EXCLUDED: out-of-place scalar-offset range writes
       whose data type promotes the storage or whose history is not cast-stable.  For those the
       model (like the code) converts/promotes the whole storage exactly when the written range
       does not wrap the END OF PHYSICAL STORAGE - a function of the pointer, so no pointer-free
       specification exists for them (see writerange_scalar_spec in RingProofs.v).
   [writerange_spec_is_writes] is a sanity theorem about the specification alone: its range write is
   the sequence of its single-observation writes.
   Not covered: operations that raise (shape mismatch, align out of range, len > N, dtype mismatch
   in scatter), operations on uninitialised storage other than the first push.
   No axioms. *)
From Coq Require Import List ZArith Bool Arith Lia.
From Inferno Require Import Gen.Infra C01.Ring C01.RingProofs.
Import ListNotations.
Ltac Zify.zify_post_hook ::= Z.div_mod_to_equations.

Section Spec.
Context {A D : Type}.
Variable cast : D -> A -> A.
Variable promote : D -> D -> D.
Variable D_eqb : D -> D -> bool.
Variable zeroA : A.

Notation ring := (@ring A D).
Notation obs := (@obs A D).
Notation rng := (@rng A D).
Notation op := (@op A D).
Notation output := (@output A D).
Notation SFull := (@SFull A D).
Notation step := (@step A D cast promote D_eqb zeroA).
Notation run := (@run A D cast promote D_eqb zeroA).

(* ================================================================== the specification machine *)
Record spec := mkSpec { sN : nat; sd : D; ssh : list nat; sh : list (list A) }.

(* age k (any integer) -> list index *)
Definition pos (n : nat) (k : Z) : nat := Z.to_nat (k mod Z.of_nat n).
(* the observation k steps before the write position *)
Definition sat (t : spec) (k : Z) : list A := nth (pos (sN t) k) (sh t) [].
(* rotation: element k of [rot l j] is element (k + j) mod n of l *)
Definition rot {X} (l : list X) (j : Z) : list X :=
  let m := pos (length l) j in skipn m l ++ firstn m l.
Definition with_sh (t : spec) (h : list (list A)) : spec := mkSpec (sN t) (sd t) (ssh t) h.

(* age of the OLDEST observation of a range of length len addressed by offset off *)
Definition first_off (off : Z) (len : nat) (fwd : bool) : Z :=
  if fwd then off else (off + (Z.of_nat len - 1))%Z.
(* a range read: element e, position j (oldest first) = element e of the observation (offz e - j)
   steps before the write position *)
Definition srange (t : spec) (len : nat) (offz : nat -> Z) : output :=
  ORng (mkRng (sd t) (ssh t)
    (map (fun e => map (fun j => nth e (sat t (offz e - Z.of_nat j)) zeroA) (seq 0 len))
         (seq 0 (nel (ssh t))))).

Definition spec_step (t : spec) (o : op) : spec * output :=
  let n := sN t in let d := sd t in let h := sh t in
  match o with
  | OpPush x _ => (with_sh t (rot (upd h 0 (map (cast d) (oel x))) (-1)), OUnit)
  | OpPop => (with_sh t (rot h 1), OObs d (ssh t) (sat t 1))
  | OpPeek => (t, OObs d (ssh t) (sat t 1))
  | OpRead off => (t, OObs d (ssh t) (sat t off))
  | OpWrite x off _ => (with_sh t (upd h (pos n off) (map (cast d) (oel x))), OUnit)
  | OpIncr k => (with_sh t (rot h (- k)), OInt 0)
  | OpDecr k => (with_sh t (rot h k), OInt 0)
  | OpAlign _ => (t, OUnit)
  | OpReset (Some f) => (with_sh t (repeat (repeat (cast d f) (nel (ssh t))) n), OUnit)
  | OpReset None => (t, OUnit)
  | OpReadRangeS len off fwd => (t, srange t len (fun _ => first_off off len fwd))
  | OpReadRangeT len offs _ fwd => (t, srange t len (fun e => first_off (nth e offs 0%Z) len fwd))
  | OpWriteRangeS r off fwd _ =>
      let len := range_len r in
      let off' := first_off off len fwd in
      (with_sh t (map (fun k => let j := pos n (off' - Z.of_nat k) in
                                if j <? len then map (cast d) (col zeroA (rcols r) j) else nth k h [])
                      (seq 0 n)), OUnit)
  | OpWriteRangeT r offs _ fwd _ =>
      let len := range_len r in
      (with_sh t (map (fun k => map (fun e =>
                         let j := pos n (first_off (nth e offs 0%Z) len fwd - Z.of_nat k) in
                         if j <? len then nth j (nth e (rcols r) []) zeroA else nth e (nth k h []) zeroA)
                       (seq 0 (nel (ssh t))))
                      (seq 0 n)), OUnit)
  end.

Fixpoint spec_run (t : spec) (ops : list op) : spec * list output :=
  match ops with
  | [] => (t, [])
  | o :: tl => let '(tf, outs) := spec_run (fst (spec_step t o)) tl in (tf, snd (spec_step t o) :: outs)
  end.

(* ------------------------------------------------------------------ the fragment *)
Definition rectS (t : spec) : Prop := rect (sh t) (sN t) (nel (ssh t)).
Definition obs_ok (t : spec) (x : obs) : Prop :=
  shape_eqb (oshape x) (ssh t) = true /\ length (oel x) = nel (ssh t).
Definition rng_ok (t : spec) (r : rng) : Prop :=
  shape_eqb (rshape r) (ssh t) = true /\ 1 <= range_len r <= sN t /\
  length (rcols r) = nel (ssh t) /\ Forall (fun c => length c = range_len r) (rcols r).
Definition cast_stable (t : spec) : Prop :=
  forall k, k < sN t -> map (cast (sd t)) (nth k (sh t) []) = nth k (sh t) [].

Definition sp_valid (t : spec) (o : op) : Prop :=
  match o with
  | OpPush x _ => obs_ok t x
  | OpWrite x _ _ => obs_ok t x
  | OpAlign i => (0 <= i < Z.of_nat (sN t))%Z
  | OpReadRangeS len _ _ => 1 <= len <= sN t
  | OpReadRangeT len _ osh _ => 1 <= len <= sN t /\ shape_eqb osh (ssh t) = true
  | OpWriteRangeS r _ _ ip =>
      rng_ok t r /\ (ip = false -> promote (sd t) (rdt r) = sd t /\ cast_stable t)
  | OpWriteRangeT r _ osh _ _ =>
      rng_ok t r /\ shape_eqb osh (ssh t) = true /\ D_eqb (sd t) (rdt r) = true
  | _ => True
  end.

Fixpoint valid_ops (t : spec) (ops : list op) : Prop :=
  match ops with
  | [] => True
  | o :: tl => sp_valid t o /\ valid_ops (fst (spec_step t o)) tl
  end.

(* the integer returned by incr/decr is the physical pointer: not part of the specification *)
Definition erase (x : output + err) : output + err :=
  match x with inl (OInt _) => inl (OInt 0%Z) | y => y end.

(* ------------------------------------------------------------------ the abstraction *)
Definition tab (s : ring) : list (list A) := map (fun k => at_ s (Z.of_nat k)) (seq 0 (N s)).
Definition abs (s : ring) : option spec :=
  match st s with
  | Ring.SFull d shp _ => Some (mkSpec (N s) d shp (tab s))
  | _ => None
  end.

(* ================================================================== list facts *)
Lemma zmod_cases (a n : Z) : (0 <= a < 2 * n)%Z ->
  (a < n /\ a mod n = a)%Z \/ (n <= a /\ a mod n = a - n)%Z.
Proof.
  intros H. destruct (Z_lt_le_dec a n) as [Hlt|Hge].
  - left. rewrite Z.mod_small by lia. lia.
  - right. split; [exact Hge|]. symmetry. apply Z.mod_unique with (q := 1%Z); lia.
Qed.
Lemma nth_tabf {X} (d : X) (f : nat -> X) n i : i < n -> nth i (map f (seq 0 n)) d = f i.
Proof.
  intros Hi. rewrite (nth_indep _ d (f 0)) by (rewrite map_length, seq_length; lia).
  rewrite map_nth, seq_nth by lia. reflexivity.
Qed.
Lemma tab_ext {X} (d : X) (l : list X) n (f : nat -> X) :
  length l = n -> (forall k, k < n -> nth k l d = f k) -> l = map f (seq 0 n).
Proof.
  intros Hl Hf. apply nth_ext with (d := d) (d' := d).
  - rewrite map_length, seq_length. exact Hl.
  - intros k Hk. rewrite Hl in Hk. rewrite nth_tabf by exact Hk. apply Hf; exact Hk.
Qed.
Lemma nth_firstn_lt {X} (d : X) (l : list X) n j : j < n -> nth j (firstn n l) d = nth j l d.
Proof.
  revert l j; induction n as [|n IH]; intros l j Hj; [lia|].
  destruct l as [|h t]; [destruct j; reflexivity|]. destruct j as [|j]; cbn; [reflexivity|]. apply IH; lia.
Qed.
Lemma nth_upd_lt {X} (d : X) (l : list X) i o j : i < length l ->
  nth j (upd l i o) d = if Nat.eqb j i then o else nth j l d.
Proof.
  revert i j; induction l as [|h t IH]; intros i j Hi; [cbn in Hi; lia|].
  destruct i as [|i], j as [|j]; cbn; auto. apply IH. cbn in Hi; lia.
Qed.
Lemma nth_repeat_lt {X} (d a : X) n k : k < n -> nth k (repeat a n) d = a.
Proof. revert k; induction n as [|n IH]; intros [|k] Hk; cbn; try lia; auto. apply IH; lia. Qed.
Lemma map_const {X Y} (c : Y) (l : list X) : map (fun _ => c) l = repeat c (length l).
Proof. induction l as [|a l IH]; cbn; [reflexivity|]. rewrite IH. reflexivity. Qed.

Lemma pos_lt n k : 0 < n -> pos n k < n.
Proof. intros Hn. unfold pos. pose proof (Z.mod_pos_bound k (Z.of_nat n) ltac:(lia)). lia. Qed.
Lemma pos_Z n k : 0 < n -> Z.of_nat (pos n k) = (k mod Z.of_nat n)%Z.
Proof. intros Hn. unfold pos. pose proof (Z.mod_pos_bound k (Z.of_nat n) ltac:(lia)). lia. Qed.
Lemma pos_small n k : k < n -> pos n (Z.of_nat k) = k.
Proof. intros Hk. unfold pos. rewrite Z.mod_small by lia. lia. Qed.
Lemma pos_eqb n a b : 0 < n ->
  Nat.eqb (pos n a) (pos n b) = Z.eqb (a mod Z.of_nat n) (b mod Z.of_nat n).
Proof.
  intros Hn. pose proof (pos_Z n a Hn) as Ha. pose proof (pos_Z n b Hn) as Hb.
  destruct (Nat.eqb_spec (pos n a) (pos n b)) as [E|E];
    destruct (Z.eqb_spec (a mod Z.of_nat n) (b mod Z.of_nat n)) as [E'|E']; try reflexivity; exfalso.
  - apply E'. rewrite <- Ha, <- Hb, E. reflexivity.
  - apply E. apply Nat2Z.inj. rewrite Ha, Hb. exact E'.
Qed.

Lemma rot_length {X} (l : list X) j : length (rot l j) = length l.
Proof. unfold rot. cbv zeta. rewrite app_length, skipn_length, firstn_length. lia. Qed.
Lemma nth_rot {X} (d : X) (l : list X) j k : k < length l ->
  nth k (rot l j) d = nth (pos (length l) (Z.of_nat k + j)) l d.
Proof.
  intros Hk. unfold rot. cbv zeta. remember (length l) as n eqn:En.
  assert (Hn : 0 < n) by lia.
  pose proof (pos_lt n j Hn) as Hm. pose proof (pos_Z n j Hn) as HmZ.
  remember (pos n j) as m eqn:Em.
  assert (E : pos n (Z.of_nat k + j) = if k + m <? n then k + m else k + m - n).
  { unfold pos. rewrite <- Zplus_mod_idemp_r. rewrite <- HmZ.
    destruct (zmod_cases (Z.of_nat k + Z.of_nat m) (Z.of_nat n) ltac:(lia)) as [(H1 & H2)|(H1 & H2)];
      rewrite H2; destruct (Nat.ltb_spec (k + m) n); lia. }
  rewrite E. destruct (Nat.ltb_spec (k + m) n) as [Hlt|Hge].
  - rewrite app_nth1 by (rewrite skipn_length; lia). rewrite nth_skipn'. f_equal. lia.
  - rewrite app_nth2 by (rewrite skipn_length; lia). rewrite skipn_length.
    rewrite nth_firstn_lt by lia. f_equal. lia.
Qed.

(* ================================================================== abstraction facts *)
Lemma tab_length (s : ring) : length (tab s) = N s.
Proof. unfold tab. rewrite map_length, seq_length. reflexivity. Qed.
Lemma nth_tab (s : ring) k : k < N s -> nth k (tab s) [] = at_ s (Z.of_nat k).
Proof. intros Hk. exact (nth_tabf [] (fun i => at_ s (Z.of_nat i)) (N s) k Hk). Qed.
Lemma at_pos (s : ring) k : wf s -> at_ s (Z.of_nat (pos (N s) k)) = at_ s k.
Proof.
  intros Hwf. pose proof Hwf as (Hn & _). unfold at_. f_equal.
  rewrite pos_Z by exact Hn. apply (idx_mod cast zeroA); exact Hwf.
Qed.
(* the key fact: the model observation k steps back IS entry (k mod N) of the abstract list *)
Lemma nth_tab_pos (s : ring) k : wf s -> nth (pos (N s) k) (tab s) [] = at_ s k.
Proof.
  intros Hwf. pose proof Hwf as (Hn & _). rewrite nth_tab by (apply pos_lt; exact Hn).
  apply at_pos; exact Hwf.
Qed.
Lemma sat_abs (s : ring) d shp k : wf s -> sat (mkSpec (N s) d shp (tab s)) k = at_ s k.
Proof. intros Hwf. unfold sat; cbn [sN sh]. apply nth_tab_pos; exact Hwf. Qed.

Lemma abs_inv (s : ring) t : abs s = Some t ->
  exists d shp, st s = SFull d shp (rows s) /\ t = mkSpec (N s) d shp (tab s).
Proof.
  unfold abs, rows. destruct (st s) as [| |d shp r]; try discriminate.
  intros E. injection E as <-. exists d, shp. split; reflexivity.
Qed.
Lemma abs_full (s : ring) t : abs s = Some t -> full s.
Proof. unfold abs, full. destruct (st s); try discriminate. intros _; exact I. Qed.
Lemma full_abs (s : ring) : full s -> exists t, abs s = Some t.
Proof. unfold abs, full. destruct (st s); try contradiction. intros _. eexists; reflexivity. Qed.
Lemma abs_intro (s' : ring) n d shp (F : Z -> list A) :
  st s' = SFull d shp (rows s') -> N s' = n -> (forall k, at_ s' k = F k) ->
  abs s' = Some (mkSpec n d shp (map (fun k => F (Z.of_nat k)) (seq 0 n))).
Proof.
  intros Est HN Hat. unfold abs. rewrite Est. unfold tab. rewrite HN. f_equal. f_equal.
  apply map_ext. intros k. apply Hat.
Qed.
Lemma st_inj (s : ring) (d d0 : D) (shp sh0 : list nat) :
  st s = SFull d shp (rows s) -> st s = SFull d0 sh0 (rows s) -> d0 = d /\ sh0 = shp.
Proof. intros H1 H2. rewrite H1 in H2. split; congruence. Qed.
Lemma st_rows_eq (s s' : ring) (d : D) (shp : list nat) :
  st s' = st s -> st s = SFull d shp (rows s) -> st s' = SFull d shp (rows s').
Proof. intros E1 E2. unfold rows in *. rewrite E1. exact E2. Qed.
Lemma full_of_st (s : ring) (d : D) shp r : st s = SFull d shp r -> full s.
Proof. intros E. unfold full. rewrite E. exact I. Qed.

Lemma rect_at (s : ring) d shp : wf s -> rectS (mkSpec (N s) d shp (tab s)) -> forall z, length (at_ s z) = nel shp.
Proof.
  intros Hwf (_ & Hr) z. cbn [sN ssh sh] in Hr. pose proof Hwf as (Hn & _).
  rewrite <- (nth_tab_pos s z Hwf). apply Hr. apply pos_lt; exact Hn.
Qed.
Lemma rect_rows (s : ring) d shp : wf s -> st s = SFull d shp (rows s) ->
  (forall z, length (at_ s z) = nel shp) -> rect (rows s) (N s) (nel shp).
Proof.
  intros Hwf Est Hat. pose proof Hwf as (Hn & Hp & Hst). rewrite Est in Hst. split; [exact Hst|].
  intros i Hi. rewrite <- (Hat (Z.of_nat (ptr s) - Z.of_nat i)%Z). unfold at_. f_equal.
  unfold idx, unwind, _unwind_ptr.
  replace (Z.of_nat (ptr s) - (Z.of_nat (ptr s) - Z.of_nat i))%Z with (Z.of_nat i) by lia.
  rewrite Z.mod_small by lia. rewrite Nat2Z.id. reflexivity.
Qed.
Lemma srange_abs (s : ring) d shp len offz : wf s ->
  srange (mkSpec (N s) d shp (tab s)) len offz =
  ORng (mkRng d shp (map (fun e => map (fun j => nth e (at_ s (offz e - Z.of_nat j)) zeroA) (seq 0 len))
                         (seq 0 (nel shp)))).
Proof.
  intros Hwf. unfold srange; cbn [sd ssh]. do 2 f_equal.
  apply map_ext. intros e. apply map_ext. intros j. rewrite sat_abs by exact Hwf. reflexivity.
Qed.

(* ================================================================== the fragment is closed *)
Theorem spec_step_rect t o : rectS t -> sp_valid t o -> rectS (fst (spec_step t o)).
Proof.
  intros Hrect Hval. pose proof Hrect as (Hl & Hr). unfold rectS, rect.
  destruct o as [x ip| | |off|x off ip|k|k|i|[f|]|len off fwd|len offs osh fwd|r off fwd ip|r offs osh fwd ip];
    cbn [spec_step fst with_sh sN sd ssh sh]; try exact Hrect.
  - (* push *)
    destruct Hval as (_ & Hx). rewrite rot_length, upd_length. split; [exact Hl|].
    intros i Hi. rewrite nth_rot by (rewrite upd_length; lia). rewrite upd_length, Hl.
    rewrite nth_upd_lt by lia.
    destruct (Nat.eqb (pos (sN t) (Z.of_nat i + -1)) 0); [rewrite map_length; exact Hx|].
    apply Hr. apply pos_lt; lia.
  - (* pop *)
    rewrite rot_length. split; [exact Hl|]. intros i Hi. rewrite nth_rot by lia. rewrite Hl.
    apply Hr. apply pos_lt; lia.
  - (* write *)
    destruct Hval as (_ & Hx). rewrite upd_length. split; [exact Hl|]. intros i Hi.
    rewrite nth_upd_lt by (rewrite Hl; apply pos_lt; lia).
    destruct (Nat.eqb i (pos (sN t) off)); [rewrite map_length; exact Hx|]. apply Hr; exact Hi.
  - (* incr *)
    rewrite rot_length. split; [exact Hl|]. intros i Hi. rewrite nth_rot by lia. rewrite Hl.
    apply Hr. apply pos_lt; lia.
  - (* decr *)
    rewrite rot_length. split; [exact Hl|]. intros i Hi. rewrite nth_rot by lia. rewrite Hl.
    apply Hr. apply pos_lt; lia.
  - (* reset fill *)
    rewrite repeat_length. split; [reflexivity|]. intros i Hi. rewrite nth_repeat_lt by exact Hi.
    apply repeat_length.
  - (* writerange scalar *)
    destruct Hval as ((_ & _ & Hc & _) & _). rewrite map_length, seq_length. split; [reflexivity|].
    intros i Hi. rewrite nth_tabf by exact Hi. cbv zeta.
    destruct (_ <? _); [|apply Hr; exact Hi]. unfold col. rewrite !map_length. exact Hc.
  - (* writerange tensor *)
    rewrite map_length, seq_length. split; [reflexivity|].
    intros i Hi. rewrite nth_tabf by exact Hi. rewrite map_length, seq_length. reflexivity.
Qed.

(* ================================================================== one step *)
Theorem step_refines (s : ring) t o : wf s -> abs s = Some t -> rectS t -> sp_valid t o ->
  exists s' out, step s o = Ok s' out /\ wf s' /\
                 abs s' = Some (fst (spec_step t o)) /\
                 erase (inl out) = inl (snd (spec_step t o)).
Proof.
  intros Hwf Habs Hrect Hval. pose proof (abs_full _ _ Habs) as Hf.
  destruct (abs_inv _ _ Habs) as (d & shp & Est & ->). pose proof Hwf as (Hn & Hp & _).
  pose proof (rect_at s d shp Hwf Hrect) as Hlen.
  destruct o as [x ip| | |off|x off ip|j|j|i|[f|]|len off fwd|len offs osh fwd|r off fwd ip|r offs osh fwd ip];
    cbn [Ring.step spec_step fst snd]; unfold with_sh; cbn [sN sd ssh sh];
    cbn [sp_valid] in Hval; unfold obs_ok, rng_ok, cast_stable in Hval; cbn [sN sd ssh sh] in Hval.
  - (* push = write at age 0, then advance *)
    destruct Hval as (Hshape & Hx).
    destruct (write_spec cast promote D_eqb zeroA s x 0 ip Hwf Hf) as (d0 & sh0 & E0 & Hw).
    destruct (st_inj s d d0 shp sh0 Est E0) as (-> & ->). rewrite Hshape in Hw.
    destruct Hw as (s1 & Hw & HN1 & Hp1 & Est1 & Hlen1 & Hat1).
    assert (Hwf1 : wf s1) by (eapply (wf_write cast promote D_eqb zeroA); eauto).
    pose proof (full_of_st _ _ _ _ Est1) as Hf1.
    destruct (incr_spec cast promote D_eqb zeroA s1 1 Hwf1 Hf1) as (s2 & Hi & Hwf2 & HN2 & Est2 & Hat2).
    assert (Hpush : Ring.push cast zeroA s x ip = Ok s2 OUnit).
    { unfold Ring.push. unfold full in Hf. destruct (st s); try contradiction. rewrite Hw, Hi. reflexivity. }
    exists s2, OUnit. split; [exact Hpush|]. split; [exact Hwf2|]. split; [|reflexivity].
    assert (Hat' : forall k, at_ s2 k =
              if Z.eqb ((k - 1) mod Z.of_nat (N s)) (0 mod Z.of_nat (N s)) then map (cast d) (oel x) else at_ s (k - 1))
      by (intros k; rewrite Hat2, Hat1; reflexivity).
    rewrite (abs_intro s2 (N s) d shp _ (st_rows_eq _ _ _ _ Est2 Est1) ltac:(congruence) Hat').
    do 2 f_equal. symmetry. apply tab_ext with (d := []).
    + rewrite rot_length, upd_length. apply tab_length.
    + intros k Hk. rewrite nth_rot by (rewrite upd_length, tab_length; exact Hk).
      rewrite upd_length, tab_length. rewrite nth_upd_lt by (rewrite tab_length; exact Hn).
      change 0 with (pos (N s) 0) at 1. rewrite pos_eqb by exact Hn.
      replace (Z.of_nat k + -1)%Z with (Z.of_nat k - 1)%Z by lia.
      destruct (Z.eqb _ _); [reflexivity|]. apply nth_tab_pos; exact Hwf.
  - (* pop *)
    destruct (pop_spec cast promote D_eqb zeroA s Hwf Hf) as (d0 & sh0 & s' & E0 & Hpop & Hwf' & HN' & Est' & Hat').
    destruct (st_inj s d d0 shp sh0 Est E0) as (-> & ->).
    exists s', (OObs d shp (at_ s 1)). split; [exact Hpop|]. split; [exact Hwf'|]. split.
    + rewrite (abs_intro s' (N s) d shp _ (st_rows_eq _ _ _ _ Est' Est) HN' Hat').
      do 2 f_equal. symmetry. apply tab_ext with (d := []).
      * rewrite rot_length. apply tab_length.
      * intros k Hk. rewrite nth_rot by (rewrite tab_length; exact Hk). rewrite tab_length.
        apply nth_tab_pos; exact Hwf.
    + cbn [erase]. rewrite sat_abs by exact Hwf. reflexivity.
  - (* peek *)
    destruct (peek_spec s Hwf Hf) as (d0 & sh0 & E0 & Hpk).
    destruct (st_inj s d d0 shp sh0 Est E0) as (-> & ->).
    exists s, (OObs d shp (at_ s 1)). split; [exact Hpk|]. split; [exact Hwf|]. split; [exact Habs|].
    cbn [erase]. rewrite sat_abs by exact Hwf. reflexivity.
  - (* read *)
    destruct (read_spec s off Hwf Hf) as (d0 & sh0 & E0 & Hrd).
    destruct (st_inj s d d0 shp sh0 Est E0) as (-> & ->).
    exists s, (OObs d shp (at_ s off)). split; [exact Hrd|]. split; [exact Hwf|]. split; [exact Habs|].
    cbn [erase]. rewrite sat_abs by exact Hwf. reflexivity.
  - (* write *)
    destruct Hval as (Hshape & Hx).
    destruct (write_spec cast promote D_eqb zeroA s x off ip Hwf Hf) as (d0 & sh0 & E0 & Hw).
    destruct (st_inj s d d0 shp sh0 Est E0) as (-> & ->). rewrite Hshape in Hw.
    destruct Hw as (s1 & Hw & HN1 & Hp1 & Est1 & Hlen1 & Hat1).
    assert (Hwf1 : wf s1) by (eapply (wf_write cast promote D_eqb zeroA); eauto).
    exists s1, OUnit. split; [exact Hw|]. split; [exact Hwf1|]. split; [|reflexivity].
    rewrite (abs_intro s1 (N s) d shp _ Est1 HN1 Hat1).
    do 2 f_equal. symmetry. apply tab_ext with (d := []).
    + rewrite upd_length. apply tab_length.
    + intros k Hk. rewrite nth_upd_lt by (rewrite tab_length; apply pos_lt; exact Hn).
      rewrite <- (pos_small (N s) k Hk) at 1. rewrite pos_eqb by exact Hn.
      destruct (Z.eqb _ _); [reflexivity|]. apply nth_tab; exact Hk.
  - (* incr *)
    destruct (incr_spec cast promote D_eqb zeroA s j Hwf Hf) as (s' & Hi & Hwf' & HN' & Est' & Hat').
    exists s', (OInt (Z.of_nat (ptr s'))). split; [exact Hi|]. split; [exact Hwf'|]. split; [|reflexivity].
    rewrite (abs_intro s' (N s) d shp _ (st_rows_eq _ _ _ _ Est' Est) HN' Hat').
    do 2 f_equal. symmetry. apply tab_ext with (d := []).
    + rewrite rot_length. apply tab_length.
    + intros k Hk. rewrite nth_rot by (rewrite tab_length; exact Hk). rewrite tab_length.
      rewrite nth_tab_pos by exact Hwf. reflexivity.
  - (* decr *)
    destruct (decr_spec cast promote D_eqb zeroA s j Hwf Hf) as (s' & Hi & Hwf' & HN' & Est' & Hat').
    exists s', (OInt (Z.of_nat (ptr s'))). split; [exact Hi|]. split; [exact Hwf'|]. split; [|reflexivity].
    rewrite (abs_intro s' (N s) d shp _ (st_rows_eq _ _ _ _ Est' Est) HN' Hat').
    do 2 f_equal. symmetry. apply tab_ext with (d := []).
    + rewrite rot_length. apply tab_length.
    + intros k Hk. rewrite nth_rot by (rewrite tab_length; exact Hk). rewrite tab_length.
      apply nth_tab_pos; exact Hwf.
  - (* align *)
    destruct (align_spec cast promote D_eqb zeroA s i Hwf Hf Hval) as (s' & Ha & Hwf' & HN' & _ & (d0 & sh0 & E0 & E0') & Hat').
    destruct (st_inj s d d0 shp sh0 Est E0) as (-> & ->).
    exists s', OUnit. split; [exact Ha|]. split; [exact Hwf'|]. split; [|reflexivity].
    rewrite (abs_intro s' (N s) d shp _ E0' HN' Hat'). reflexivity.
  - (* reset with a fill value *)
    destruct (reset_fill_spec cast promote D_eqb s f Hwf Hf) as (s' & d0 & sh0 & Hrs & Hwf' & HN' & _ & E0 & E0' & Hat').
    destruct (st_inj s d d0 shp sh0 Est E0) as (-> & ->).
    exists s', OUnit. split; [exact Hrs|]. split; [exact Hwf'|]. split; [|reflexivity].
    rewrite (abs_intro s' (N s) d shp _ E0' HN' Hat').
    do 2 f_equal. symmetry. apply tab_ext with (d := []).
    + apply repeat_length.
    + intros k Hk. rewrite nth_repeat_lt by exact Hk. rewrite map_const, Hlen. reflexivity.
  - (* reset without a fill value = align 0 *)
    destruct (align_spec cast promote D_eqb zeroA s 0 Hwf Hf ltac:(lia)) as (s' & Ha & Hwf' & HN' & _ & (d0 & sh0 & E0 & E0') & Hat').
    destruct (st_inj s d d0 shp sh0 Est E0) as (-> & ->).
    exists s', OUnit. split; [exact Ha|]. split; [exact Hwf'|]. split; [|reflexivity].
    rewrite (abs_intro s' (N s) d shp _ E0' HN' Hat'). reflexivity.
  - (* readrange, scalar offset *)
    destruct (readrange_scalar_spec cast zeroA s len off fwd Hwf Hf Hval) as (d0 & sh0 & E0 & Hrr).
    destruct (st_inj s d d0 shp sh0 Est E0) as (-> & ->).
    eexists s, _. split; [exact Hrr|]. split; [exact Hwf|]. split; [exact Habs|].
    cbn [erase]. rewrite srange_abs by exact Hwf. reflexivity.
  - (* readrange, tensor offsets *)
    destruct Hval as (Hl & Hosh).
    destruct (readrange_tensor_spec zeroA s len offs osh fwd Hwf Hf) as (d0 & sh0 & E0 & Hrr).
    destruct (st_inj s d d0 shp sh0 Est E0) as (-> & ->). rewrite Hosh in Hrr.
    eexists s, _. split; [exact Hrr|]. split; [exact Hwf|]. split; [exact Habs|].
    cbn [erase]. rewrite srange_abs by exact Hwf. reflexivity.
  - (* writerange, scalar offset *)
    destruct Hval as ((Hshape & Hl & Hnc & Hcols) & Hoop).
    pose proof (writerange_scalar_spec cast promote D_eqb zeroA s r off fwd ip Hwf Hf) as Hws.
    cbv zeta in Hws. destruct (Hws Hl Hcols) as (d0 & sh0 & E0 & Hw). clear Hws.
    destruct (st_inj s d d0 shp sh0 Est E0) as (-> & ->).
    destruct (Hw Hshape) as (s' & d' & Hstep & Hwf' & HN' & _ & Est' & Hd' & Hat'). clear Hw.
    set (len := range_len r) in *. set (off' := shift_off off len fwd) in *.
    assert (Hboth : d' = d /\ forall k, at_ s' k =
              if pos (N s) (off' - k) <? len then map (cast d) (col zeroA (rcols r) (pos (N s) (off' - k))) else at_ s k).
    { destruct ip; cbn [orb] in Hd', Hat'; [split; [exact Hd'|exact Hat']|].
      destruct (N s <? idx s off' + len); [split; [exact Hd'|exact Hat']|].
      destruct (Hoop eq_refl) as (Hprom & Hstable). rewrite Hprom in Hd'. split; [exact Hd'|].
      intros k. rewrite Hat', Hd'. unfold hit. fold (pos (N s) (off' - k)).
      destruct (_ <? _); [reflexivity|].
      rewrite <- (nth_tab_pos s k Hwf). apply (Hstable (pos (N s) k)). apply pos_lt; exact Hn. }
    destruct Hboth as (-> & Hat'').
    exists s', OUnit. split; [exact Hstep|]. split; [exact Hwf'|]. split; [|reflexivity].
    rewrite (abs_intro s' (N s) d shp _ Est' HN' Hat'').
    do 2 f_equal. apply map_ext_in. intros k Hk. apply in_seq in Hk. cbv zeta.
    rewrite nth_tab by lia. reflexivity.
  - (* writerange, tensor offsets *)
    destruct Hval as ((Hshape & Hl & Hnc & Hcols) & Hosh & Hdt).
    pose proof (writerange_tensor_spec cast promote D_eqb zeroA s r offs osh fwd ip Hwf Hf) as Hws.
    cbv zeta in Hws. destruct (Hws Hl) as (d0 & sh0 & E0 & Hw). clear Hws.
    destruct (st_inj s d d0 shp sh0 Est E0) as (-> & ->).
    destruct (Hw (rect_rows s d shp Hwf Est Hlen) Hshape Hosh Hdt)
      as (s' & Hstep & Hwf' & HN' & _ & Est' & Hrect' & Hat'). clear Hw.
    set (len := range_len r) in *.
    assert (Hat'' : forall k, at_ s' k =
              map (fun e => let j := pos (N s) (first_off (nth e offs 0%Z) len fwd - k) in
                            if j <? len then nth j (nth e (rcols r) []) zeroA else nth e (at_ s k) zeroA)
                  (seq 0 (nel shp))).
    { intros k. apply tab_ext with (d := zeroA).
      - unfold at_. apply (proj2 Hrect'). rewrite <- HN'. apply (idx_lt cast zeroA); exact Hwf'.
      - intros e He. rewrite Hat' by exact He. reflexivity. }
    exists s', OUnit. split; [exact Hstep|]. split; [exact Hwf'|]. split; [|reflexivity].
    rewrite (abs_intro s' (N s) d shp _ Est' HN' Hat'').
    do 2 f_equal. apply map_ext_in. intros k Hk. apply in_seq in Hk.
    apply map_ext. intros e. cbv zeta. destruct (_ <? _); [reflexivity|].
    rewrite nth_tab by lia. reflexivity.
Qed.

(* ================================================================== runs *)
Theorem run_refines : forall ops (s : ring) t, wf s -> abs s = Some t -> rectS t -> valid_ops t ops ->
  wf (fst (run s ops)) /\
  abs (fst (run s ops)) = Some (fst (spec_run t ops)) /\
  map erase (snd (run s ops)) = map inl (snd (spec_run t ops)).
Proof.
  induction ops as [|o ops IH]; intros s t Hwf Habs Hrect Hval; cbn [Ring.run spec_run fst snd map].
  - auto.
  - destruct Hval as (Hv & Hvs).
    destruct (step_refines s t o Hwf Habs Hrect Hv) as (s' & out & Hstep & Hwf' & Habs' & Hout).
    pose proof (spec_step_rect t o Hrect Hv) as Hrect'.
    destruct (IH s' _ Hwf' Habs' Hrect' Hvs) as (H1 & H2 & H3).
    rewrite Hstep. destruct (run s' ops) as [sf outs]. destruct (spec_run (fst (spec_step t o)) ops) as [tf souts].
    cbn [fst snd map] in *. split; [exact H1|]. split; [exact H2|]. rewrite Hout, H3. reflexivity.
Qed.

(* the same, stated with [full] instead of the value of [abs] *)
Corollary run_refines_full : forall ops (s : ring), wf s -> full s ->
  exists t, abs s = Some t /\
    (rectS t -> valid_ops t ops ->
     abs (fst (run s ops)) = Some (fst (spec_run t ops)) /\
     map erase (snd (run s ops)) = map inl (snd (spec_run t ops))).
Proof.
  intros ops s Hwf Hf. destruct (full_abs s Hf) as (t & Habs). exists t. split; [exact Habs|].
  intros Hrect Hval. destruct (run_refines ops s t Hwf Habs Hrect Hval) as (_ & H2 & H3). split; assumption.
Qed.

(* ================================================================== storage created by the first push *)
(* the specification state after the first push: the newest observation is the pushed one (converted
   to the adopted data type), every other observation is the zero tensor of the pushed shape *)
Definition init_spec (n : nat) (d : D) (shp : list nat) (row : list A) : spec :=
  mkSpec n d shp (rot (row :: repeat (repeat zeroA (nel shp)) (n - 1)) (-1)).
(* the data type adopted by auto-created storage *)
Definition adopt (s : ring) (x : obs) : D := match st s with SEmpty e => e | _ => odt x end.

Lemma rot_rect (l : list (list A)) n m j : rect l n m -> rect (rot l j) n m.
Proof.
  intros (Hl & Hr). split; [rewrite rot_length; exact Hl|].
  intros i Hi. rewrite nth_rot by lia. rewrite Hl. apply Hr. apply pos_lt; lia.
Qed.
Lemma at_cong (s : ring) a b : wf s -> (a mod Z.of_nat (N s) = b mod Z.of_nat (N s))%Z -> at_ s a = at_ s b.
Proof. intros Hwf E. unfold at_. f_equal. apply (idx_eq_iff cast zeroA); assumption. Qed.
Lemma hist_length (s : ring) : length (hist s) = N s.
Proof. unfold hist. rewrite map_length, seq_length. reflexivity. Qed.
(* the age-indexed list is the newest-first history rotated by one (age 0 = age N = the oldest) *)
Lemma tab_hist (s : ring) : wf s -> tab s = rot (hist s) (-1).
Proof.
  intros Hwf. pose proof Hwf as (Hn & _). symmetry. apply tab_ext with (d := []).
  - rewrite rot_length. apply hist_length.
  - intros k Hk. rewrite nth_rot by (rewrite hist_length; exact Hk). rewrite hist_length.
    unfold hist. rewrite nth_tabf by (apply pos_lt; exact Hn).
    apply at_cong; [exact Hwf|]. rewrite pos_Z by exact Hn. rewrite Zplus_mod_idemp_l. f_equal. lia.
Qed.

Theorem first_push_refines (s : ring) x ip : 0 < N s -> ~ full s -> length (oel x) = nel (oshape x) ->
  let t0 := init_spec (N s) (adopt s x) (oshape x) (map (cast (adopt s x)) (oel x)) in
  exists s', step s (OpPush x ip) = Ok s' OUnit /\ wf s' /\ abs s' = Some t0 /\ rectS t0.
Proof.
  intros Hn Hnf Hx t0.
  destruct (push_creates_storage cast promote D_eqb zeroA s x ip Hn Hnf) as (s' & Hpush & Hwf' & HN' & Est' & Hh).
  fold (adopt s x) in Est', Hh.
  exists s'. split; [exact Hpush|]. split; [exact Hwf'|]. split.
  - unfold abs. rewrite Est'. unfold t0, init_spec. rewrite HN'. do 2 f_equal.
    rewrite tab_hist by exact Hwf'. rewrite Hh. reflexivity.
  - unfold rectS, t0, init_spec; cbn [sN ssh sh]. apply rot_rect. split.
    + cbn [length]. rewrite repeat_length. lia.
    + intros [|i] Hi; cbn [nth]; [rewrite map_length; exact Hx|].
      rewrite nth_repeat_lt by lia. apply repeat_length.
Qed.

(* a record whose storage does not exist yet: the first push creates it, every later operation of
   the fragment refines the specification started from [init_spec] *)
Theorem run_refines_from_uninit : forall ops (s : ring) x ip,
  0 < N s -> ~ full s -> length (oel x) = nel (oshape x) ->
  let t0 := init_spec (N s) (adopt s x) (oshape x) (map (cast (adopt s x)) (oel x)) in
  valid_ops t0 ops ->
  abs (fst (run s (OpPush x ip :: ops))) = Some (fst (spec_run t0 ops)) /\
  map erase (snd (run s (OpPush x ip :: ops))) = inl OUnit :: map inl (snd (spec_run t0 ops)).
Proof.
  intros ops s x ip Hn Hnf Hx t0 Hval.
  destruct (first_push_refines s x ip Hn Hnf Hx) as (s' & Hstep & Hwf' & Habs' & Hrect'). fold t0 in Habs', Hrect'.
  destruct (run_refines ops s' t0 Hwf' Habs' Hrect' Hval) as (_ & H2 & H3).
  cbn [Ring.run]. rewrite Hstep. destruct (run s' ops) as [sf outs]. cbn [fst snd map erase] in *.
  split; [exact H2|]. rewrite H3. reflexivity.
Qed.

(* ================================================================== a range write is a sequence of writes *)
(* sanity of the specification itself (no model involved): the pointwise formula used for
   OpWriteRangeS is the same list as writing the columns of the range one at a time with the
   single-observation write of the specification, oldest column first at age off', the next one
   at age off' - 1, and so on *)
Lemma pos_hit n (off : Z) k len : 0 < n -> k < n -> len < n ->
  (k = pos n (off - Z.of_nat len) <-> pos n (off - Z.of_nat k) = len).
Proof.
  intros Hn Hk Hlen.
  pose proof (pos_Z n (off - Z.of_nat len) Hn) as H1. pose proof (pos_Z n (off - Z.of_nat k) Hn) as H2.
  pose proof (mod_sub_cong cast zeroA off (Z.of_nat k) (off - Z.of_nat len) (Z.of_nat n) ltac:(lia)) as Hc.
  replace (off - (off - Z.of_nat len))%Z with (Z.of_nat len) in Hc by lia.
  rewrite (Z.mod_small (Z.of_nat len)) in Hc by lia. rewrite (Z.mod_small (Z.of_nat k)) in Hc by lia.
  split; intros H.
  - apply Nat2Z.inj. rewrite H2. apply Hc. rewrite <- H1. lia.
  - apply Nat2Z.inj. rewrite H1. apply Hc. rewrite <- H2. lia.
Qed.
Lemma fold_writes_length {X} (f : nat -> nat) (g : nat -> X) js : forall l,
  length (fold_left (fun h j => upd h (f j) (g j)) js l) = length l.
Proof. induction js as [|j js IH]; intros l; cbn [fold_left]; [reflexivity|]. rewrite IH. apply upd_length. Qed.
Lemma fold_writes_nth {X} (dflt : X) n (off : Z) (g : nat -> X) len l k :
  0 < n -> length l = n -> len <= n -> k < n ->
  nth k (fold_left (fun h j => upd h (pos n (off - Z.of_nat j)) (g j)) (seq 0 len) l) dflt
  = if pos n (off - Z.of_nat k) <? len then g (pos n (off - Z.of_nat k)) else nth k l dflt.
Proof.
  intros Hn Hl Hlen Hk. induction len as [|len IH].
  - cbn [seq fold_left]. destruct (Nat.ltb_spec (pos n (off - Z.of_nat k)) 0); [lia|reflexivity].
  - rewrite seq_S, fold_left_app. cbn [fold_left Nat.add].
    rewrite nth_upd_lt by (rewrite fold_writes_length, Hl; apply pos_lt; exact Hn).
    rewrite IH by lia. pose proof (pos_hit n off k len Hn Hk ltac:(lia)) as Hiff.
    destruct (Nat.eqb_spec k (pos n (off - Z.of_nat len))) as [E|E].
    + apply Hiff in E. rewrite E. destruct (Nat.ltb_spec len (S len)); [reflexivity|lia].
    + assert (pos n (off - Z.of_nat k) <> len) by (intros Hc; apply E, Hiff, Hc).
      destruct (Nat.ltb_spec (pos n (off - Z.of_nat k)) len);
        destruct (Nat.ltb_spec (pos n (off - Z.of_nat k)) (S len)); try lia; reflexivity.
Qed.

Theorem writerange_spec_is_writes t r off fwd ip :
  0 < sN t -> length (sh t) = sN t -> range_len r <= sN t ->
  sh (fst (spec_step t (OpWriteRangeS r off fwd ip))) =
  fold_left (fun h j =>
               sh (fst (spec_step (with_sh t h)
                          (OpWrite (mkObs (sd t) (ssh t) (col zeroA (rcols r) j))
                                   (first_off off (range_len r) fwd - Z.of_nat j) ip))))
            (seq 0 (range_len r)) (sh t).
Proof.
  intros Hn Hl Hlen. cbn [spec_step fst with_sh sN sd ssh sh oel]. symmetry.
  apply tab_ext with (d := []).
  - rewrite fold_writes_length. exact Hl.
  - intros k Hk.
    apply (fold_writes_nth [] (sN t) (first_off off (range_len r) fwd)
             (fun j => map (cast (sd t)) (col zeroA (rcols r) j)) (range_len r) (sh t) k Hn Hl Hlen Hk).
Qed.

End Spec.
