(* Model of inferno.core.infrastructure.RecordTensor (ring-buffer operations), mirroring the code
   branch by branch.  Definitions only: this file must keep compiling (and running for the
   correspondence check) when a proof elsewhere is broken.

   Storage is time-major: [rows] is the list of N stored observations, each a flat (row-major) list
   of elements.  Elements [A] and data types [D] are abstract; [cast d x] is conversion of an
   element to data type d, [promote] is torch's type promotion (torch.cat of mixed types). *)
From Coq Require Import List ZArith Bool Arith Lia.
From Inferno Require Import Gen.Infra.
Import ListNotations.

Section Ring.
Context {A D : Type}.
Variable cast : D -> A -> A.
Variable promote : D -> D -> D.
Variable D_eqb : D -> D -> bool.
Variable zeroA : A.

Inductive err := ERuntime | EValue | EIndex.

(* an observation / a per-element tensor: data type, shape, flat elements *)
Record obs := mkObs { odt : D; oshape : list nat; oel : list A }.
(* a range S x L, element-major: for each element its L values, oldest first *)
Record rng := mkRng { rdt : D; rshape : list nat; rcols : list (list A) }.

Inductive storage :=
| SNone                                   (* attribute is None *)
| SEmpty (d : D)                          (* initialised but empty tensor, torch.empty(0, dtype=d) *)
| SFull (d : D) (shape : list nat) (rows : list (list A)).

Record ring := mkRing { N : nat; ptr : nat; st : storage }.

Inductive output :=
| ONone | OUnit | OInt (z : Z) | OObs (d : D) (shape : list nat) (el : list A) | ORng (r : rng).

Inductive result := Ok (s : ring) (o : output) | Err (e : err).

(* ---------- list helpers ---------- *)
Fixpoint upd {X} (l : list X) (i : nat) (x : X) : list X :=
  match l, i with
  | [], _ => []
  | _ :: t, O => x :: t
  | h :: t, S j => h :: upd t j x
  end.
Definition shape_eqb (a b : list nat) : bool :=
  (length a =? length b) && forallb (fun p => fst p =? snd p) (combine a b).
Definition slice {X} (l : list X) (a b : nat) : list X := firstn (b - a) (skipn a l).   (* l[a:b] *)
(* column j of an element-major range = the observation at relative time j *)
Definition col (d : A) (cols : list (list A)) (j : nat) : list A := map (fun c => nth j c d) cols.
(* time-major rows -> element-major columns (ein "t ... -> ... t") *)
Definition transpose (d : A) (nel : nat) (rows : list (list A)) : list (list A) :=
  map (fun e => map (fun r => nth e r d) rows) (seq 0 nel).
Definition nel (shape : list nat) : nat := fold_right Nat.mul 1 shape.

Definition unwind (p : nat) (off : Z) (n : nat) : nat :=
  Z.to_nat (_unwind_ptr (Z.of_nat p) off (Z.of_nat n)).
Definition idx (s : ring) (off : Z) : nat := unwind (ptr s) off (N s).

Definition set_st (s : ring) (x : storage) : ring := mkRing (N s) (ptr s) x.
Definition set_ptr (s : ring) (p : nat) : ring := mkRing (N s) p (st s).

(* ---------- read / write ---------- *)
Definition read (s : ring) (off : Z) : result :=
  match st s with
  | SFull d sh rows => Ok s (OObs d sh (nth (idx s off) rows []))
  | _ => Err ERuntime
  end.

Definition write (s : ring) (o : obs) (off : Z) (inplace : bool) : result :=
  match st s with
  | SFull d sh rows =>
      if negb (shape_eqb (oshape o) sh) then Err EValue
      else
        let i := idx s off in
        let row := map (cast d) (oel o) in
        if inplace then Ok (set_st s (SFull d sh (upd rows i row))) OUnit
        else Ok (set_st s (SFull d sh (firstn i rows ++ [row] ++ skipn (i + 1) rows))) OUnit
  | _ => Err ERuntime
  end.

(* ---------- pointer ---------- *)
Definition incr (s : ring) (k : Z) : result :=
  match st s with
  | SFull _ _ _ => let p := unwind (ptr s) (- k) (N s) in Ok (set_ptr s p) (OInt (Z.of_nat p))
  | _ => Err ERuntime
  end.
Definition decr (s : ring) (k : Z) : result :=
  match st s with
  | SFull _ _ _ => let p := unwind (ptr s) k (N s) in Ok (set_ptr s p) (OInt (Z.of_nat p))
  | _ => Err ERuntime
  end.

Definition peek (s : ring) : result :=
  match st s with SFull _ _ _ => read s 1 | _ => Ok s ONone end.
Definition pop (s : ring) : result :=
  match st s with
  | SFull _ _ _ =>
      match decr s 1 with Ok s' _ => read s' 0 | Err e => Err e end
  | _ => Ok s ONone
  end.

(* storage creation by the first push: data type of the observation when there is no storage at
   all, the data type of the empty tensor otherwise; zero filled; pointer 0 *)
Definition initialize (s : ring) (shape : list nat) (od : D) : ring :=
  let rows := repeat (repeat zeroA (nel shape)) (N s) in
  match st s with
  | SNone => mkRing (N s) 0 (SFull od shape rows)
  | SEmpty d => mkRing (N s) 0 (SFull d shape rows)
  | SFull d _ _ => mkRing (N s) 0 (SFull d shape rows)
  end.

Definition push (s : ring) (o : obs) (inplace : bool) : result :=
  let s1 := match st s with SFull _ _ _ => s | _ => initialize s (oshape o) (odt o) end in
  match write s1 o 0 inplace with
  | Ok s2 _ => match incr s2 1 with Ok s3 _ => Ok s3 OUnit | Err e => Err e end
  | Err e => Err e
  end.

(* torch.roll(shift) : element at position j moves to (j + shift) mod n *)
Definition roll {X} (dflt : X) (l : list X) (shift : Z) : list X :=
  let n := Z.of_nat (length l) in
  map (fun j => nth (Z.to_nat ((Z.of_nat j - shift) mod n)) l dflt) (seq 0 (length l)).

Definition align (s : ring) (i : Z) : result :=
  if negb ((0 <=? i)%Z && (i <? Z.of_nat (N s))%Z) then Err EValue
  else match st s with
       | SFull d sh rows =>
           Ok (mkRing (N s) (Z.to_nat i) (SFull d sh (roll [] rows (i - Z.of_nat (ptr s))))) OUnit
       | _ => Err ERuntime
       end.

Definition reset (s : ring) (fill : option A) : result :=
  match fill with
  | Some f =>
      match st s with
      | SFull d sh rows => Ok (mkRing (N s) 0 (SFull d sh (map (map (fun _ => cast d f)) rows))) OUnit
      | x => Ok (mkRing (N s) 0 x) OUnit
      end
  | None => align s 0
  end.

(* ---------- ranges ---------- *)
Definition shift_off (off : Z) (len : nat) (fwd : bool) : Z :=
  if fwd then off else (off + (Z.of_nat len - 1))%Z.

Definition readrange_scalar (s : ring) (len : nat) (off : Z) (fwd : bool) : result :=
  let off := shift_off off len fwd in
  match st s with
  | SFull d sh rows =>
      let start := idx s off in
      let stop := idx s (off - Z.of_nat len) in
      let sel := if stop <=? start then skipn start rows ++ firstn stop rows
                 else slice rows start stop in
      Ok s (ORng (mkRng d sh (transpose zeroA (nel sh) sel)))
  | _ => Err ERuntime
  end.

(* tensor offsets: one integer offset per element *)
Definition readrange_tensor (s : ring) (len : nat) (offs : list Z) (offshape : list nat) (fwd : bool) : result :=
  match st s with
  | SFull d sh rows =>
      if negb (shape_eqb offshape sh) then Err EValue
      else
        Ok s (ORng (mkRng d sh
          (map (fun e => map (fun j => nth e (nth (idx s (shift_off (nth e offs 0%Z) len fwd - Z.of_nat j)) rows []) zeroA)
                             (seq 0 len))
               (seq 0 (nel sh)))))
  | _ => Err ERuntime
  end.

Definition range_len (r : rng) : nat := match rcols r with [] => 0 | c :: _ => length c end.

Definition writerange_scalar (s : ring) (r : rng) (off : Z) (fwd inplace : bool) : result :=
  let len := range_len r in
  let off := shift_off off len fwd in
  match st s with
  | SFull d sh rows =>
      if negb (shape_eqb (rshape r) sh) then Err EValue
      else if N s <? len then Err EValue
      else
        let p := idx s off in
        let obsT := map (col zeroA (rcols r)) (seq 0 len) in     (* time-major rows of obs *)
        let castT := map (map (cast d)) obsT in
        if inplace then
          Ok (set_st s (SFull d sh
                (fold_left (fun rs j => upd rs (unwind p (- Z.of_nat j) (N s)) (nth j castT [])) (seq 0 len) rows)))
             OUnit
        else if N s <? p + len then
          Ok (set_st s (SFull d sh
                (skipn (N s - p) castT ++ slice rows (len - (N s - p)) p ++ firstn (N s - p) castT)))
             OUnit
        else
          (* contiguous: torch.cat without a cast -> type promotion of the whole storage *)
          let d' := promote d (rdt r) in
          Ok (set_st s (SFull d' sh
                (map (map (cast d')) (firstn p rows ++ obsT ++ skipn (p + len) rows))))
             OUnit
  | _ => Err ERuntime
  end.

Definition writerange_tensor (s : ring) (r : rng) (offs : list Z) (offshape : list nat) (fwd inplace : bool) : result :=
  let len := range_len r in
  match st s with
  | SFull d sh rows =>
      if negb (shape_eqb (rshape r) sh) then Err EValue
      else if N s <? len then Err EValue
      else if negb (shape_eqb offshape sh) then Err EValue
      else
        (* observations of another data type are converted to the storage's first (documented; `obs.to(dtype=...)`
           before torch.scatter) - the conversion of an observation of the same type is the identity *)
        let cols := if D_eqb d (rdt r) then rcols r else map (map (cast d)) (rcols r) in
        Ok (set_st s (SFull d sh
          (fold_left
             (fun rs je =>
                let '(j, e) := je in
                let i := idx s (shift_off (nth e offs 0%Z) len fwd - Z.of_nat j) in
                upd rs i (upd (nth i rs []) e (nth j (nth e cols []) zeroA)))
             (list_prod (seq 0 len) (seq 0 (nel sh))) rows)))
           OUnit
  | _ => Err ERuntime
  end.

(* ---------- operations as data, and runs ---------- *)
Inductive op :=
| OpPush (o : obs) (inplace : bool)
| OpPop | OpPeek
| OpRead (off : Z)
| OpWrite (o : obs) (off : Z) (inplace : bool)
| OpIncr (k : Z) | OpDecr (k : Z)
| OpAlign (i : Z)
| OpReset (fill : option A)
| OpReadRangeS (len : nat) (off : Z) (fwd : bool)
| OpReadRangeT (len : nat) (offs : list Z) (offshape : list nat) (fwd : bool)
| OpWriteRangeS (r : rng) (off : Z) (fwd inplace : bool)
| OpWriteRangeT (r : rng) (offs : list Z) (offshape : list nat) (fwd inplace : bool).

Definition step (s : ring) (o : op) : result :=
  match o with
  | OpPush x ip => push s x ip
  | OpPop => pop s
  | OpPeek => peek s
  | OpRead off => read s off
  | OpWrite x off ip => write s x off ip
  | OpIncr k => incr s k
  | OpDecr k => decr s k
  | OpAlign i => align s i
  | OpReset f => reset s f
  | OpReadRangeS len off fwd => readrange_scalar s len off fwd
  | OpReadRangeT len offs sh fwd => readrange_tensor s len offs sh fwd
  | OpWriteRangeS r off fwd ip => writerange_scalar s r off fwd ip
  | OpWriteRangeT r offs sh fwd ip => writerange_tensor s r offs sh fwd ip
  end.

(* run a sequence; an operation that raises leaves the state unchanged (the exception is recorded) *)
Fixpoint run (s : ring) (ops : list op) : ring * list (output + err) :=
  match ops with
  | [] => (s, [])
  | o :: tl =>
      match step s o with
      | Ok s' out => let '(sf, outs) := run s' tl in (sf, inl out :: outs)
      | Err e => let '(sf, outs) := run s tl in (sf, inr e :: outs)
      end
  end.

End Ring.

Arguments err : clear implicits.
