(* The hypotheses of the generic layer theorems (C17/LayersProofs.v), discharged for the component models of
   C17/Components.v.  Part 1 is polymorphic in the number type (list structure only, axiom-free); part 2 is about
   the real-number instance and the GENERATED neuron kernel (spike attribute versus returned spikes). *)
From Coq Require Import List ZArith Bool Arith Lia.
From Inferno Require Import Base.Num Gen.NeuronDynamics Gen.NeuronAdaptation
     C17.Layers C17.LayersSpec C17.Components C17.LayersProofs.
Import ListNotations.

(* ---------- list helpers ---------- *)
Lemma upd_length {X} (l : list X) i x : length (upd l i x) = length l.
Proof. revert i. induction l as [|h t IH]; intros [|i]; simpl; auto. Qed.
Lemma Forall_upd {X} (P : X -> Prop) (l : list X) i x : Forall P l -> P x -> Forall P (upd l i x).
Proof.
  revert i. induction l as [|h t IH]; intros [|i] Hl Hx; simpl; auto; inversion Hl; subst; constructor; auto.
Qed.
Lemma map_const_repeat {X Y} (y : Y) (l : list X) : map (fun _ => y) l = repeat y (length l).
Proof. induction l; simpl; auto. f_equal; auto. Qed.
Lemma map_ext_Forall {X Y} (f g : X -> Y) (P : X -> Prop) l :
  Forall P l -> (forall x, P x -> f x = g x) -> map f l = map g l.
Proof. induction 1; simpl; intros; auto. f_equal; auto. Qed.
Lemma repeat_eq_Forall {X} (x : X) l n : length l = n -> Forall (fun y => y = x) l -> l = repeat x n.
Proof.
  revert n. induction l as [|h t IH]; intros [|n] Hl Hf; simpl in *; try discriminate; auto.
  inversion Hf; subst. f_equal. apply IH; auto.
Qed.
Lemma zip4_length (N : Num) f (a b c d : list (T N)) n :
  length a = n -> length b = n -> length c = n -> length d = n -> length (zip4 N f a b c d) = n.
Proof.
  revert b c d n. induction a as [|x a IH]; intros [|y b] [|z c] [|w d] [|n]; simpl; intros; try discriminate; auto.
Qed.

Section Poly.
Variable N : Num.

(* ---------- invariants ---------- *)
Definition CI (c : dense N) : Prop :=
  length (d_rows N c) = recordsz N c /\ Forall (fun r => length r = d_B N c * insz N c) (d_rows N c).
Definition NI (n : neuron N) : Prop :=
  length (n_volt N n) = n_B N n * nsize N n /\ length (n_refr N n) = n_B N n * nsize N n /\
  (n_acfg N n <> None -> length (n_adapt N n) = nsize N n).
Definition keepk (xk : option bool) : Prop := xk <> Some false.

Lemma dense_fresh_CI c : CI (dense_fresh N c).
Proof.
  unfold CI, dense_fresh, dense_fresh_rows, recordsz, insz; simpl. split.
  - apply repeat_length.
  - apply Forall_forall. intros r Hr. apply repeat_spec in Hr. subst. apply repeat_length.
Qed.
Lemma neuron_fresh_NI n : (n_acfg N n <> None -> length (n_adapt N n) = nsize N n) -> NI (neuron_fresh N n).
Proof. intros H. unfold NI, neuron_fresh, nsize; simpl. rewrite !repeat_length. auto. Qed.

(* clear() = freshly constructed *)
Lemma Hc_clear xk c : CI c -> dense_clear N xk c = dense_fresh N c.
Proof.
  intros [Hl Hf]. unfold dense_clear, dense_fresh, dense_fresh_rows. f_equal.
  apply repeat_eq_Forall.
  - rewrite map_length. exact Hl.
  - rewrite Forall_map. eapply Forall_impl; [|exact Hf]. simpl. intros r Hr.
    rewrite map_const_repeat, Hr. reflexivity.
Qed.
Lemma Hn_clear xk n : keepk xk -> NI n -> neuron_clear N xk n = neuron_fresh N n.
Proof.
  intros Hk (Hv & Hr & _). unfold neuron_clear, neuron_fresh.
  rewrite !map_const_repeat, Hv, Hr. f_equal.
  destruct (n_acfg N n); auto. destruct xk as [[|]|]; auto. exfalso; apply Hk; auto.
Qed.

(* steps keep the invariants *)
Lemma dense_step_inv c kw xs c' y : dense_step N c kw xs = Ok (c', y) ->
  exists x tl, xs = x :: tl /\ length (tel x) = d_B N c * insz N c /\
    c' = set_syn N c (upd (d_rows N c) (d_ptr N c) (map (nz N) (tel x))) ((d_ptr N c + 1) mod recordsz N c).
Proof.
  unfold dense_step. destruct xs as [|x tl]; [discriminate|].
  destruct (tsh x) as [|b rest]; [discriminate|].
  destruct ((b =? d_B N c) && (nel rest =? insz N c) && (length (tel x) =? d_B N c * insz N c)) eqn:E;
    simpl; [|discriminate].
  intros H; inversion H; subst. exists x, tl. repeat split; auto.
  apply andb_prop in E. destruct E as [_ E]. apply Nat.eqb_eq in E. exact E.
Qed.
Lemma Hc_step c kw xs c' y : CI c -> dense_step N c kw xs = Ok (c', y) -> CI c'.
Proof.
  intros [Hl Hf] H. destruct (dense_step_inv _ _ _ _ _ H) as (x & tl & _ & Hx & ->).
  unfold CI, recordsz, insz; simpl. split.
  - rewrite upd_length. exact Hl.
  - apply Forall_upd; auto. rewrite map_length. exact Hx.
Qed.
Lemma Hc_par c kw xs c' y : dense_step N c kw xs = Ok (c', y) -> dense_fresh N c' = dense_fresh N c.
Proof. intros H. destruct (dense_step_inv _ _ _ _ _ H) as (x & tl & _ & _ & ->). reflexivity. Qed.
Lemma Hc_clear_inv xk c : CI c -> CI (dense_clear N xk c).
Proof. intros H. rewrite Hc_clear by auto. apply dense_fresh_CI. Qed.
Lemma Hc_ff c : dense_fresh N (dense_fresh N c) = dense_fresh N c.
Proof. reflexivity. Qed.
Lemma Hn_ff n : neuron_fresh N (neuron_fresh N n) = neuron_fresh N n.
Proof. reflexivity. Qed.

Lemma thresholds_length n : NI n -> length (thresholds N n) = nsize N n.
Proof.
  intros (_ & _ & Ha). unfold thresholds. destruct (n_acfg N n) eqn:E.
  - rewrite map_length. apply Ha. congruence.
  - apply repeat_length.
Qed.
Lemma concat_repeat_length {X} (l : list X) k : length (concat (repeat l k)) = k * length l.
Proof. induction k; simpl; auto. rewrite app_length, IHk. reflexivity. Qed.
(* what a successful neuron step is *)
Lemma neuron_step_inv n kw x n' z : neuron_step N n kw x = Ok (n', z) ->
  tsh x = n_B N n :: n_shape N n /\ length (tel x) = n_B N n * nsize N n /\
  let r := zip4 N (lif_elem N n (k_lock kw)) (concat (repeat (thresholds N n) (n_B N n))) (tel x)
             (n_volt N n) (n_refr N n) in
  z = mkT (n_B N n :: n_shape N n) (map (fun p => b2t N (fst (fst p))) r) /\
  n_volt N n' = map (fun p => snd (fst p)) r /\ n_refr N n' = map snd r /\
  n_shape N n' = n_shape N n /\ n_B N n' = n_B N n /\ n_acfg N n' = n_acfg N n /\
  n_refrac_t N n' = n_refrac_t N n /\ n_dt N n' = n_dt N n /\
  (n_acfg N n = None -> n' = set_dyn N n (n_volt N n') (n_refr N n') (n_adapt N n)) /\
  (n_acfg N n <> None -> length (n_adapt N n) = nsize N n -> length (n_adapt N n') = nsize N n).
Proof.
  unfold neuron_step.
  destruct (shape_eqb (tsh x) (n_B N n :: n_shape N n) && (length (tel x) =? n_B N n * nsize N n)) eqn:E;
    simpl; [|discriminate].
  apply andb_prop in E. destruct E as [E1 E2]. apply Nat.eqb_eq in E2.
  assert (Hs : tsh x = n_B N n :: n_shape N n).
  { clear - E1. revert E1. generalize (n_B N n :: n_shape N n). generalize (tsh x).
    induction l as [|a l IH]; intros [|b l2]; simpl; try discriminate; auto.
    intros H. apply andb_prop in H. destruct H as [H1 H2]. apply Nat.eqb_eq in H1. subst. f_equal. auto. }
  intros H; inversion H; subst; clear H. simpl.
  rewrite map_map. repeat split; auto.
  - intros Hl. rewrite Hl. reflexivity.
  - intros Hn Hl. destruct (n_acfg N n) as [cfg|]; [|congruence].
    destruct (match k_adapt kw with Some a => a | None => n_training N n end); auto.
    unfold adapt_update. rewrite map_length, seq_length. reflexivity.
Qed.
Lemma Hn_step n kw x n' z : NI n -> neuron_step N n kw x = Ok (n', z) -> NI n'.
Proof.
  intros HI H. pose proof (thresholds_length n HI) as Ht. destruct HI as (Hv & Hr & Ha).
  destruct (neuron_step_inv _ _ _ _ _ H) as (_ & Hx & _ & V' & R' & S' & B' & A' & _ & _ & _ & Had).
  unfold NI, nsize in *. rewrite V', R', S', B', A', !map_length.
  assert (L : length (zip4 N (lif_elem N n (k_lock kw)) (concat (repeat (thresholds N n) (n_B N n)))
                        (tel x) (n_volt N n) (n_refr N n)) = n_B N n * nel (n_shape N n)).
  { apply zip4_length; auto. rewrite concat_repeat_length, Ht. reflexivity. }
  rewrite L. repeat split; auto.
Qed.
Lemma Hn_clear_inv xk n : NI n -> NI (neuron_clear N xk n).
Proof.
  intros (Hv & Hr & Ha). unfold NI, neuron_clear, nsize; simpl. rewrite !map_length.
  repeat split; auto. intros Hn. destruct (n_acfg N n); [|congruence].
  destruct xk as [[|]|]; auto. rewrite map_length. auto.
Qed.
(* a LIF group (no adaptations) is not changed by forward beyond its dynamic state *)
Definition NI_lif (n : neuron N) : Prop := NI n /\ n_acfg N n = None.
Lemma Hn_step_lif n kw x n' z : NI_lif n -> neuron_step N n kw x = Ok (n', z) -> NI_lif n'.
Proof.
  intros [HI Hl] H. split; [eapply Hn_step; eauto|].
  destruct (neuron_step_inv _ _ _ _ _ H) as (_ & _ & _ & _ & _ & _ & _ & A' & _). congruence.
Qed.
Lemma Hn_par_lif n kw x n' z : NI_lif n -> neuron_step N n kw x = Ok (n', z) -> neuron_fresh N n' = neuron_fresh N n.
Proof.
  intros [HI Hl] H.
  destruct (neuron_step_inv _ _ _ _ _ H) as (_ & _ & _ & _ & _ & _ & _ & _ & _ & _ & E & _).
  rewrite (E Hl). reflexivity.
Qed.
Lemma Hn_clear_lif xk n : NI_lif n -> neuron_clear N xk n = neuron_fresh N n.
Proof.
  intros [(Hv & Hr & _) Hl]. unfold neuron_clear, neuron_fresh.
  rewrite !map_const_repeat, Hv, Hr, Hl. reflexivity.
Qed.
Lemma Hn_clear_inv_lif xk n : NI_lif n -> NI_lif (neuron_clear N xk n).
Proof. intros [HI Hl]. split; [apply Hn_clear_inv; auto|exact Hl]. Qed.

(* every output of a neuron group has the group's batched shape *)
Definition nbshape (n : neuron N) : list nat := n_B N n :: n_shape N n.
Lemma Hn_shape n kw x n' z : neuron_step N n kw x = Ok (n', z) -> tsh z = nbshape n /\ nbshape n' = nbshape n.
Proof.
  intros H. destruct (neuron_step_inv _ _ _ _ _ H) as (_ & _ & Z & _ & _ & S' & B' & _).
  unfold nbshape. rewrite Z, S', B'. auto.
Qed.

End Poly.

(* ---------- the generic layer theorems instantiated: real layers of LinearDense+DeltaCurrent / LIF / ALIF ---------- *)
Section Inst.
Variable N : Num.
Notation V := (tensor N).
Notation CS := (dense N).
Notation NS := (neuron N).
Notation XK := (option bool).
Definition SStep := serial_step V CS NS unit nkw XK tt nkw0 (dense_step N) (neuron_step N) (dense_clear N) (neuron_clear N).
Definition BStep := biclique_step V CS NS unit nkw XK tt nkw0 (dense_step N) (neuron_step N) (dense_clear N) (neuron_clear N).
Definition RStep := recurrent_step V CS NS unit nkw XK tt nkw0 (dense_step N) (neuron_step N) (neuron_spike N)
                      (dense_clear N) (neuron_clear N) (tzeros_like N) (tadd N).
Definition compat (c : CS) (n : NS) : bool := shape_eqb (d_out N c) (n_shape N n).
Definition LIc := LI CS NS (CI N) (NI N).
Definition SFresh := serial_fresh V CS NS (dense_fresh N) (neuron_fresh N).
Definition BFresh := biclique_fresh V CS NS (dense_fresh N) (neuron_fresh N).
Definition RFresh := recurrent_fresh V CS NS (dense_fresh N) (neuron_fresh N).

(* clear_restores_dynamic, all three kinds, LIF and ALIF groups (adaptations kept), any delays/biases:
   after ANY run, clear() (default flags, or keep_adaptations=True) gives exactly the freshly built layer carrying
   the current weights, biases, delays and adaptations: voltages at rest, refractory times 0, synaptic histories
   all-False with pointer 0, feedback buffer None *)
Theorem c17_serial_clear_restores_dynamic S0 ops S outs xk :
  LIc (s_layer S0) -> Forall (sop_ok V CS NS unit nkw XK (CI N) (NI N)) ops -> keepk xk ->
  run SStep S0 ops = Ok (S, outs) -> SStep S (SClear true xk) = Ok (SFresh S, None).
Proof.
  intros. eapply (serial_clear_restores_dynamic V CS NS unit nkw XK tt nkw0 (dense_step N) (neuron_step N)
                    (dense_clear N) (neuron_clear N) (dense_fresh N) (neuron_fresh N) (CI N) (NI N) keepk); eauto.
  - apply Hc_clear. - apply Hn_clear. - apply Hc_step. - apply Hn_step. - apply Hc_clear_inv. - apply Hn_clear_inv.
Qed.
Theorem c17_biclique_clear_restores_dynamic B0 ops Bq outs xk :
  LIc (b_layer B0) -> Forall (bop_ok V CS NS unit nkw XK (CI N) (NI N)) ops -> keepk xk ->
  run BStep B0 ops = Ok (Bq, outs) -> BStep Bq (BClear true xk) = Ok (BFresh Bq, None).
Proof.
  intros. eapply (biclique_clear_restores_dynamic V CS NS unit nkw XK tt nkw0 (dense_step N) (neuron_step N)
                    (dense_clear N) (neuron_clear N) (dense_fresh N) (neuron_fresh N) (CI N) (NI N) keepk); eauto.
  - apply Hc_clear. - apply Hn_clear. - apply Hc_step. - apply Hn_step. - apply Hc_clear_inv. - apply Hn_clear_inv.
Qed.
Theorem c17_recurrent_clear_restores_dynamic R0 ops R outs xk :
  LIc (r_layer R0) -> Forall (rop_ok2 V CS NS unit nkw XK (CI N) (NI N)) ops -> keepk xk ->
  run RStep R0 ops = Ok (R, outs) -> RStep R (RClear true true xk) = Ok (RFresh R, None).
Proof.
  intros. eapply (recurrent_clear_restores_dynamic V CS NS unit nkw XK tt nkw0 (dense_step N) (neuron_step N)
                    (neuron_spike N) (dense_clear N) (neuron_clear N) (tzeros_like N) (tadd N)
                    (dense_fresh N) (neuron_fresh N) (CI N) (NI N) keepk); eauto.
  - apply Hc_clear. - apply Hn_clear. - apply Hc_step. - apply Hn_step. - apply Hc_clear_inv. - apply Hn_clear_inv.
Qed.

(* clear_replay_deterministic, all three kinds, LIF groups (learning off): a freshly built layer, any learning-free
   prefix, clear at that position, then any operations: outputs and final state are those of the freshly built layer
   on these operations *)
Definition LIl := LI CS NS (CI N) (NI_lif N).
Definition anyk (xk : XK) : Prop := True.
Theorem c17_serial_clear_replay S0 pre post xk S1 opre :
  LIl (s_layer S0) -> SFresh S0 = S0 -> Forall (sop_frozen V CS NS unit nkw XK anyk) pre ->
  run SStep S0 pre = Ok (S1, opre) ->
  run SStep S0 (pre ++ SClear true xk :: post) =
  ('(S2, opost) <- run SStep S0 post ;; Ok (S2, opre ++ None :: opost)).
Proof.
  intros. eapply (serial_clear_replay V CS NS unit nkw XK tt nkw0 (dense_step N) (neuron_step N)
                    (dense_clear N) (neuron_clear N) (dense_fresh N) (neuron_fresh N) (CI N) (NI_lif N) anyk);
    eauto; try exact I.
  - apply Hc_clear. - intros; apply Hn_clear_lif; auto. - apply Hc_step. - apply Hn_step_lif.
  - apply Hc_clear_inv. - apply Hn_clear_inv_lif. - intros; eapply Hc_par; eauto. - apply Hn_par_lif.
Qed.
Theorem c17_biclique_clear_replay B0 pre post xk B1 opre :
  LIl (b_layer B0) -> BFresh B0 = B0 -> Forall (bop_frozen V CS NS unit nkw XK anyk) pre ->
  run BStep B0 pre = Ok (B1, opre) ->
  run BStep B0 (pre ++ BClear true xk :: post) =
  ('(B2, opost) <- run BStep B0 post ;; Ok (B2, opre ++ None :: opost)).
Proof.
  intros. eapply (biclique_clear_replay V CS NS unit nkw XK tt nkw0 (dense_step N) (neuron_step N)
                    (dense_clear N) (neuron_clear N) (dense_fresh N) (neuron_fresh N) (CI N) (NI_lif N) anyk);
    eauto; try exact I.
  - apply Hc_clear. - intros; apply Hn_clear_lif; auto. - apply Hc_step. - apply Hn_step_lif.
  - apply Hc_clear_inv. - apply Hn_clear_inv_lif. - intros; eapply Hc_par; eauto. - apply Hn_par_lif.
Qed.
Theorem c17_recurrent_clear_replay R0 pre post xk R1 opre :
  LIl (r_layer R0) -> RFresh R0 = R0 -> Forall (rop_frozen V CS NS unit nkw XK anyk) pre ->
  run RStep R0 pre = Ok (R1, opre) ->
  run RStep R0 (pre ++ RClear true true xk :: post) =
  ('(R2, opost) <- run RStep R0 post ;; Ok (R2, opre ++ None :: opost)).
Proof.
  intros. eapply (recurrent_clear_replay V CS NS unit nkw XK tt nkw0 (dense_step N) (neuron_step N)
                    (neuron_spike N) (dense_clear N) (neuron_clear N) (tzeros_like N) (tadd N)
                    (dense_fresh N) (neuron_fresh N) (CI N) (NI_lif N) anyk);
    eauto; try exact I.
  - apply Hc_clear. - intros; apply Hn_clear_lif; auto. - apply Hc_step. - apply Hn_step_lif.
  - apply Hc_clear_inv. - apply Hn_clear_inv_lif. - intros; eapply Hc_par; eauto. - apply Hn_par_lif.
Qed.


(* the general replay statement for layers with ALIF groups (adaptations learned during forward are carried over) *)
Theorem c17_serial_clear_then_run S0 ops S outs xk ops2 :
  LIc (s_layer S0) -> Forall (sop_ok V CS NS unit nkw XK (CI N) (NI N)) ops -> keepk xk ->
  run SStep S0 ops = Ok (S, outs) ->
  run SStep S (SClear true xk :: ops2) = ('(S2, o2) <- run SStep (SFresh S) ops2 ;; Ok (S2, None :: o2)).
Proof.
  intros. eapply (serial_clear_then_run V CS NS unit nkw XK tt nkw0 (dense_step N) (neuron_step N)
                    (dense_clear N) (neuron_clear N) (dense_fresh N) (neuron_fresh N) (CI N) (NI N) keepk); eauto.
  - apply Hc_clear. - apply Hn_clear. - apply Hc_step. - apply Hn_step. - apply Hc_clear_inv. - apply Hn_clear_inv.
Qed.
Theorem c17_biclique_clear_then_run B0 ops Bq outs xk ops2 :
  LIc (b_layer B0) -> Forall (bop_ok V CS NS unit nkw XK (CI N) (NI N)) ops -> keepk xk ->
  run BStep B0 ops = Ok (Bq, outs) ->
  run BStep Bq (BClear true xk :: ops2) = ('(B2, o2) <- run BStep (BFresh Bq) ops2 ;; Ok (B2, None :: o2)).
Proof.
  intros. eapply (biclique_clear_then_run V CS NS unit nkw XK tt nkw0 (dense_step N) (neuron_step N)
                    (dense_clear N) (neuron_clear N) (dense_fresh N) (neuron_fresh N) (CI N) (NI N) keepk); eauto.
  - apply Hc_clear. - apply Hn_clear. - apply Hc_step. - apply Hn_step. - apply Hc_clear_inv. - apply Hn_clear_inv.
Qed.
Theorem c17_recurrent_clear_then_run R0 ops R outs xk ops2 :
  LIc (r_layer R0) -> Forall (rop_ok2 V CS NS unit nkw XK (CI N) (NI N)) ops -> keepk xk ->
  run RStep R0 ops = Ok (R, outs) ->
  run RStep R (RClear true true xk :: ops2) = ('(R2, o2) <- run RStep (RFresh R) ops2 ;; Ok (R2, None :: o2)).
Proof.
  intros. eapply (recurrent_clear_then_run V CS NS unit nkw XK tt nkw0 (dense_step N) (neuron_step N)
                    (neuron_spike N) (dense_clear N) (neuron_clear N) (tzeros_like N) (tadd N)
                    (dense_fresh N) (neuron_fresh N) (CI N) (NI N) keepk); eauto.
  - apply Hc_clear. - apply Hn_clear. - apply Hc_step. - apply Hn_step. - apply Hc_clear_inv. - apply Hn_clear_inv.
Qed.

(* the layers the constructors build from freshly constructed components satisfy the premises above *)
Theorem c17_serial_new_fresh c n tr cn nn S0 :
  serial_new V CS NS compat (dense_fresh N c) (neuron_fresh N n) tr cn nn = Ok S0 ->
  (n_acfg N n <> None -> length (n_adapt N n) = nsize N n) ->
  LIc (s_layer S0) /\ SFresh S0 = S0.
Proof.
  intros H Ha. apply serial_new_of in H. destruct H as [-> _]. split.
  - split; simpl.
    + constructor; [apply dense_fresh_CI|constructor].
    + constructor; [apply neuron_fresh_NI; auto|constructor].
  - reflexivity.
Qed.


Theorem c17_biclique_new_fresh cs ns combine B0 :
  biclique_new V CS NS compat cs ns combine = Ok B0 ->
  Forall (fun p => exists c, snd (fst p) = dense_fresh N c) cs ->
  Forall (fun p => exists n, snd (fst p) = neuron_fresh N n /\
                             (n_acfg N n <> None -> length (n_adapt N n) = nsize N n)) ns ->
  LIc (b_layer B0) /\ BFresh B0 = B0 /\ b_wf V CS NS B0.
Proof.
  intros H Hc Hn. pose proof (biclique_new_wf _ _ _ _ _ _ _ _ H) as Hw.
  destruct (biclique_new_layer _ _ _ _ _ _ _ _ H) as [E1 E2].
  split; [|split; auto].
  - split.
    + rewrite E1, Forall_map. eapply Forall_impl; [|exact Hc]. simpl. intros p [c ->]. apply dense_fresh_CI.
    + rewrite E2, Forall_map. eapply Forall_impl; [|exact Hn]. simpl. intros p (n & -> & Ha). apply neuron_fresh_NI; auto.
  - unfold BFresh, biclique_fresh, layer_fresh. destruct B0 as [[cl nl] post pre cmb]. simpl in *. f_equal. f_equal.
    + subst cl. rewrite map_map. apply map_ext_Forall with (P := fun p => exists c, snd (fst p) = dense_fresh N c); auto.
      intros p [c Hp]. unfold on_snd; simpl. rewrite Hp. reflexivity.
    + subst nl. rewrite map_map.
      apply map_ext_Forall with (P := fun p => exists n, snd (fst p) = neuron_fresh N n /\
                                   (n_acfg N n <> None -> length (n_adapt N n) = nsize N n)); auto.
      intros p (n & Hp & _). unfold on_snd; simpl. rewrite Hp. reflexivity.
Qed.
Theorem c17_recurrent_new_fresh cff clat cfb nff nfb tff tlat tfb ilat ifb ffc latc fbc ffn fbn tf R0 :
  recurrent_new V CS NS compat (dense_fresh N cff) (dense_fresh N clat) (dense_fresh N cfb)
    (neuron_fresh N nff) (neuron_fresh N nfb) tff tlat tfb ilat ifb ffc latc fbc ffn fbn tf = Ok R0 ->
  (n_acfg N nff <> None -> length (n_adapt N nff) = nsize N nff) ->
  (n_acfg N nfb <> None -> length (n_adapt N nfb) = nsize N nfb) ->
  LIc (r_layer R0) /\ RFresh R0 = R0 /\ r_names_ok V CS NS R0.
Proof.
  intros H Ha Hb. apply recurrent_new_of in H. destruct H as (Hn & E & _).
  rewrite E. split; [|split; auto].
  - split; simpl.
    + repeat (constructor; [apply dense_fresh_CI|]). constructor.
    + constructor; [apply neuron_fresh_NI; auto|]. constructor; [apply neuron_fresh_NI; auto|]. constructor.
Qed.

(* output_shapes: every output of every layer kind has exactly the batched shape (B :: shape) of its neuron group *)
Theorem c17_serial_output_shape S xs kc kn S' z y :
  serial_forward V CS NS unit nkw tt nkw0 (dense_step N) (neuron_step N) S xs kc kn = Ok (S', (z, y)) ->
  shape_at NS (list nat) (nbshape N) (neurs (s_layer S)) (s_nn S) = Some (tsh z).
Proof. apply (serial_output_shape V CS NS unit nkw tt nkw0 (dense_step N) (neuron_step N) _ tsh (nbshape N)). apply Hn_shape. Qed.
Theorem c17_biclique_output_shapes Bq ins kc kn B' zs ys :
  biclique_forward V CS NS unit nkw tt nkw0 (dense_step N) (neuron_step N) Bq ins kc kn = Ok (B', (zs, ys)) ->
  Forall (fun p => shape_at NS (list nat) (nbshape N) (neurs (b_layer Bq)) (fst p) = Some (tsh (snd p))) zs.
Proof. apply (biclique_output_shapes V CS NS unit nkw tt nkw0 (dense_step N) (neuron_step N) _ tsh (nbshape N)). apply Hn_shape. Qed.
Theorem c17_recurrent_output_shapes R xs la fa kff klat kfb nkff nkfb R' zff zfb ys :
  recurrent_forward V CS NS unit nkw tt nkw0 (dense_step N) (neuron_step N) (neuron_spike N) (tzeros_like N) (tadd N)
    R xs la fa kff klat kfb nkff nkfb = Ok (R', ((zff, zfb), ys)) ->
  shape_at NS (list nat) (nbshape N) (neurs (r_layer R)) (r_ffn R) = Some (tsh zff) /\
  shape_at NS (list nat) (nbshape N) (neurs (r_layer R)) (r_fbn R) = Some (tsh zfb).
Proof.
  apply (recurrent_output_shapes V CS NS unit nkw tt nkw0 (dense_step N) (neuron_step N) (neuron_spike N)
           (tzeros_like N) (tadd N) _ tsh (nbshape N)). apply Hn_shape.
Qed.
End Inst.

(* component level, named for the obligations: Connection.clear / Neuron.clear give the freshly constructed component *)
Theorem connection_clear_is_fresh (N : Num) xk c : CI N c -> dense_clear N xk c = dense_fresh N c.
Proof. apply Hc_clear. Qed.
Theorem neuron_clear_is_fresh (N : Num) xk n : keepk xk -> NI N n -> neuron_clear N xk n = neuron_fresh N n.
Proof. apply Hn_clear. Qed.

(* learned parameters and adaptations are kept by clear(): weights, biases, delays always; adaptations unless
   keep_adaptations=False was passed, in which case they are zeroed (ALIF.clear) *)
Theorem clear_keeps_learned (N : Num) xk c n :
  d_W N (dense_clear N xk c) = d_W N c /\ d_bias N (dense_clear N xk c) = d_bias N c /\
  d_delay N (dense_clear N xk c) = d_delay N c /\
  (keepk xk -> n_adapt N (neuron_clear N xk n) = n_adapt N n) /\
  (n_acfg N n <> None -> n_adapt N (neuron_clear N (Some false) n) = map (map (fun _ => zero N)) (n_adapt N n)).
Proof.
  repeat split; auto.
  - intros Hk. unfold neuron_clear; simpl. destruct (n_acfg N n); auto. destruct xk as [[|]|]; auto.
    exfalso; apply Hk; auto.
  - intros Hn. unfold neuron_clear; simpl. destruct (n_acfg N n); auto. congruence.
Qed.
