(* Component lemmas about the C04 model of the four synapse classes (through the adapter C17/SynapsesC04.v): Synapse.clear
   gives exactly the constructor's records, forward keeps the well-formedness invariant; and the C17 layer theorems
   instantiated with (C04 synapses under LinearDense) x (C03 neurons): every synapse class with every neuron class.
   Polymorphic in the number type, axiom-free. *)
From Coq Require Import List ZArith Bool Arith Lia.
From Inferno Require Import Base.Num C17.Layers C17.LayersSpec C17.Components C17.LayersProofs C17.ComponentsProofs
     C17.NeuronsC03 C17.NeuronsC03Proofs C17.SynapsesC04.
From Inferno Require C01.Ring C01.RingProofs C04.Synapse C04.HistProofs C03.Neuron.
Import ListNotations.

Module H4 := Inferno.C04.HistProofs.
Module RP := Inferno.C01.RingProofs.

Section Poly4.
Variable N : Num.
Notation cn := (conn4 N).
Notation ring := (@R1.ring (T N) unit).

Definition nrec (c : cn) : nat := S4.recordsz N (S4.cdt N (k_cfg N c)) (S4.cdelay N (k_cfg N c)).
Definition ring_ok (c : cn) (r : ring) : Prop := H4.wfr N (k_sh N c) r /\ R1.N r = nrec c.
(* every record the class owns is a well-formed record of the configured size and shape; the records the class does not
   own (never written by forward or clear) are still the constructor's *)
Definition CI4 (c : cn) : Prop :=
  ring_ok c (S4.spk N (k_syn N c)) /\ ring_ok c (S4.cur N (k_syn N c)) /\ ring_ok c (S4.neg N (k_syn N c)) /\
  (S4.ckind N (k_cfg N c) = S4.KDelta -> S4.cur N (k_syn N c) = S4.fresh N (nrec c) (k_sh N c)) /\
  (S4.ckind N (k_cfg N c) <> S4.KDoubleExp -> S4.neg N (k_syn N c) = S4.fresh N (nrec c) (k_sh N c)).

Lemma fresh_ring_ok (c : cn) : ring_ok c (S4.fresh N (nrec c) (k_sh N c)).
Proof. split; [apply H4.fresh_wfr; apply H4.recordsz_pos|reflexivity]. Qed.

(* RecordTensor.reset(fill) of a well-formed record = the record the constructor creates *)
Lemma rreset_fresh (c : cn) r : ring_ok c r -> S4.rreset N r = S4.fresh N (nrec c) (k_sh N c).
Proof.
  intros [(Hwf & Hst & Hall) HN]. unfold S4.rreset, R1.reset. rewrite Hst. unfold S4.fresh. rewrite HN. f_equal. f_equal.
  destruct Hwf as (_ & _ & Hl). rewrite Hst in Hl. rewrite HN in Hl.
  apply repeat_eq_Forall.
  - rewrite map_length. exact Hl.
  - rewrite Forall_map. eapply Forall_impl; [|exact Hall]. intros row Hrow. cbn beta.
    rewrite map_const_repeat, Hrow. reflexivity.
Qed.
(* Synapse.clear = the constructor's records, for each of the four classes *)
Theorem c04_clear_is_fresh xk (c : cn) : CI4 c -> cclear4 N xk c = cfresh4 N c.
Proof.
  intros (Hs & Hc & Hn & Hd & He). unfold cclear4, cfresh4. f_equal. unfold S4.clear, S4.init. fold (nrec c). fold (k_sh N c).
  destruct (S4.ckind N (k_cfg N c)) eqn:K.
  - rewrite (rreset_fresh c _ Hs), (Hd eq_refl), He by discriminate. reflexivity.
  - rewrite (rreset_fresh c _ Hs), (rreset_fresh c _ Hc), He by discriminate. reflexivity.
  - rewrite (rreset_fresh c _ Hs), (rreset_fresh c _ Hc), He by discriminate. reflexivity.
  - rewrite (rreset_fresh c _ Hs), (rreset_fresh c _ Hc), (rreset_fresh c _ Hn). reflexivity.
Qed.
Lemma cfresh4_CI4 (c : cn) : CI4 (cfresh4 N c).
Proof.
  unfold CI4, cfresh4, with_syn, S4.init; cbn [k_syn k_cfg S4.spk S4.cur S4.neg].
  repeat split; try apply (fresh_ring_ok c); try apply H4.fresh_wfr; try apply H4.recordsz_pos; reflexivity.
Qed.
Theorem c04_clear_idempotent xk (c : cn) : CI4 c -> cclear4 N xk (cclear4 N xk c) = cclear4 N xk c.
Proof.
  intros HI. rewrite (c04_clear_is_fresh xk c HI). rewrite (c04_clear_is_fresh xk _ (cfresh4_CI4 c)). reflexivity.
Qed.

(* push of an observation of the right size keeps a record well-formed *)
Lemma rpush_ring_ok (c : cn) r sh' el r' :
  ring_ok c r -> length el = R1.nel (k_sh N c) -> S4.rpush N (k_cfg N c) r sh' el = S4.SOk r' -> ring_ok c r'.
Proof.
  intros [Hw HN] Hel H.
  destruct (list_eq_dec Nat.eq_dec sh' (k_sh N c)) as [->|Hne].
  2:{ rewrite (H4.rpush_bad_shape N _ _ _ r el Hw Hne) in H. discriminate. }
  unfold S4.rpush in H. rewrite (H4.push_unfold N _ r el _ Hw) in H. inversion H; subst r'; clear H.
  destruct Hw as ((Hn & Hp & Hl) & Hst & Hall). rewrite Hst in Hl.
  split; [|exact HN]. unfold H4.wfr, RP.wf, RP.rows. cbn [R1.set_ptr R1.set_st R1.N R1.ptr R1.st].
  repeat split; auto.
  - apply (RP.unwind_lt (S4.castU N) (zero N)). exact Hn.
  - rewrite RP.upd_length. exact Hl.
  - apply RP.Forall_upd; auto.
Qed.
Lemma peek_length (c : cn) r : ring_ok c r -> length (S4.peek_row N r) = R1.nel (k_sh N c).
Proof. intros [Hw _]. rewrite (H4.peek_row_at N _ _ Hw). apply (H4.at_length N _ _ _ Hw). Qed.

Lemma CI4_intro (c : cn) spk cur neg :
  ring_ok c spk -> ring_ok c cur -> ring_ok c neg ->
  (S4.ckind N (k_cfg N c) = S4.KDelta -> cur = S4.fresh N (nrec c) (k_sh N c)) ->
  (S4.ckind N (k_cfg N c) <> S4.KDoubleExp -> neg = S4.fresh N (nrec c) (k_sh N c)) ->
  CI4 (with_syn N c (S4.mkSyn N spk cur neg)).
Proof. intros H1 H2 H3 H4' H5. exact (conj H1 (conj H2 (conj H3 (conj H4' H5)))). Qed.

(* forward keeps the invariant *)
Lemma forward_CI4 (c : cn) xsh xs inj s' o :
  CI4 c -> length xs = R1.nel (k_sh N c) -> Forall (fun i => length i = R1.nel (k_sh N c)) inj ->
  S4.forward N (k_cfg N c) (k_syn N c) xsh xs inj = S4.SOk (s', o) -> CI4 (with_syn N c s').
Proof.
  intros (Hs & Hc & Hn & Hd & He) Hx Hi. unfold S4.forward.
  destruct (S4.rpush N (k_cfg N c) (S4.spk N (k_syn N c)) xsh (map (S4.boolify N) xs)) as [spk'|e] eqn:E1; [|discriminate].
  assert (Hs' : ring_ok c spk').
  { apply (rpush_ring_ok c _ xsh (map (S4.boolify N) xs) spk' Hs); [rewrite map_length; exact Hx|exact E1]. }
  destruct (S4.ckind N (k_cfg N c)) eqn:K.
  - intros H; inversion H; subst. apply CI4_intro; auto; rewrite K; auto.
  - destruct (S4.rpush N (k_cfg N c) (S4.cur N (k_syn N c)) xsh _) as [cur'|e] eqn:E2; [|discriminate].
    intros H; inversion H; subst.
    assert (Hc' : ring_ok c cur').
    { refine (rpush_ring_ok c _ xsh _ cur' Hc _ E2). unfold S4.deltaplus_val. apply H4.fold_zipw_length; auto. rewrite map_length. exact Hx. }
    apply CI4_intro; auto; rewrite K; auto; discriminate.
  - destruct (S4.rpush N (k_cfg N c) (S4.cur N (k_syn N c)) xsh _) as [cur'|e] eqn:E2; [|discriminate].
    intros H; inversion H; subst.
    assert (Hc' : ring_ok c cur').
    { refine (rpush_ring_ok c _ xsh _ cur' Hc _ E2). unfold S4.singleexp_val. rewrite H4.zipw_length, (peek_length c _ Hc), Hx. apply Nat.min_id. }
    apply CI4_intro; auto; rewrite K; auto; discriminate.
  - destruct (S4.rpush N (k_cfg N c) (S4.cur N (k_syn N c)) xsh _) as [cur'|e] eqn:E2; [|discriminate].
    destruct (S4.rpush N (k_cfg N c) (S4.neg N (k_syn N c)) xsh _) as [neg'|e] eqn:E3; [|discriminate].
    intros H; inversion H; subst.
    assert (Hc' : ring_ok c cur').
    { refine (rpush_ring_ok c _ xsh _ cur' Hc _ E2). unfold S4.doubleexp_pos. rewrite H4.zipw_length, (peek_length c _ Hc), Hx. apply Nat.min_id. }
    assert (Hn' : ring_ok c neg').
    { refine (rpush_ring_ok c _ xsh _ neg' Hn _ E3). unfold S4.doubleexp_neg. rewrite H4.zipw_length, (peek_length c _ Hn), Hx. apply Nat.min_id. }
    apply CI4_intro; auto; rewrite K; try discriminate. intros Hk; exfalso; apply Hk; reflexivity.
Qed.
Lemma cstep4_inv (c : cn) kw xs c' y : cstep4 N c kw xs = Ok (c', y) ->
  exists x inj b rest s' o, xs = x :: inj /\ tsh x = b :: rest /\ length (tel x) = R1.nel (k_sh N c) /\
    Forall (fun i => length i = R1.nel (k_sh N c)) (map tel inj) /\
    S4.forward N (k_cfg N c) (k_syn N c) [b; nel rest] (tel x) (map tel inj) = S4.SOk (s', o) /\ c' = with_syn N c s'.
Proof.
  unfold cstep4. destruct xs as [|x inj]; [discriminate|]. destruct (tsh x) as [|b rest] eqn:Es; [discriminate|].
  destruct ((length (tel x) =? R1.nel (k_sh N c)) && forallb _ inj) eqn:E; cbn [negb]; [|discriminate].
  apply andb_prop in E. destruct E as [E1 E2]. apply Nat.eqb_eq in E1.
  destruct (S4.forward N (k_cfg N c) (k_syn N c) [b; nel rest] (tel x) (map tel inj)) as [[s' o]|e] eqn:F; [|discriminate].
  destruct o; try discriminate. intros H; inversion H; subst.
  exists x, inj, b, rest, s', (S4.SOFloat N shape vals). repeat split; auto.
  rewrite Forall_map. rewrite forallb_forall in E2. apply Forall_forall. intros t Ht. apply Nat.eqb_eq. auto.
Qed.
Lemma Hc_step4 (c : cn) kw xs c' y : CI4 c -> cstep4 N c kw xs = Ok (c', y) -> CI4 c'.
Proof.
  intros HI H. destruct (cstep4_inv _ _ _ _ _ H) as (x & inj & b & rest & s' & o & _ & _ & Hx & Hi & F & ->).
  eapply forward_CI4; eauto.
Qed.
Lemma Hc_par4 (c : cn) kw xs c' y : cstep4 N c kw xs = Ok (c', y) -> cfresh4 N c' = cfresh4 N c.
Proof. intros H. destruct (cstep4_inv _ _ _ _ _ H) as (x & inj & b & rest & s' & o & _ & _ & _ & _ & _ & ->). reflexivity. Qed.
Lemma Hc_clear_inv4 xk (c : cn) : CI4 c -> CI4 (cclear4 N xk c).
Proof. intros HI. rewrite (c04_clear_is_fresh xk c HI). apply cfresh4_CI4. Qed.
Lemma Hc_ff4 (c : cn) : cfresh4 N (cfresh4 N c) = cfresh4 N c.
Proof. reflexivity. Qed.

(* ================= layers of (any of the 4 synapse classes) x (any of the 8 neuron classes) ================= *)
Notation V := (tensor N).
Notation nm := (nmod N).
Notation XK := (option bool).
Definition SStep43 := serial_step V cn nm unit nkw XK tt nkw0 (cstep4 N) (nstep3 N) (cclear4 N) (nclear3 N).
Definition BStep43 := biclique_step V cn nm unit nkw XK tt nkw0 (cstep4 N) (nstep3 N) (cclear4 N) (nclear3 N).
Definition RStep43 := recurrent_step V cn nm unit nkw XK tt nkw0 (cstep4 N) (nstep3 N) (nspike3 N)
                        (cclear4 N) (nclear3 N) (tzeros_like N) (tadd N).
Definition LI43 := LI cn nm CI4 (NI3 N).
Definition LI43p := LI cn nm CI4 (NI3p N).
Definition SFresh43 := serial_fresh V cn nm (cfresh4 N) (nfresh3 N).
Definition BFresh43 := biclique_fresh V cn nm (cfresh4 N) (nfresh3 N).
Definition RFresh43 := recurrent_fresh V cn nm (cfresh4 N) (nfresh3 N).

Ltac hyps43 := first [apply c04_clear_is_fresh | (intros; apply c03_clear_default_is_fresh; assumption) | apply Hc_step4
                      | apply Hn_step3 | apply Hc_clear_inv4 | apply Hn_clear_inv3].

Theorem c04_c03_serial_clear_restores_dynamic S0 ops S outs xk :
  LI43 (s_layer S0) -> Forall (sop_ok V cn nm unit nkw XK CI4 (NI3 N)) ops -> keepk3 xk ->
  run SStep43 S0 ops = Ok (S, outs) -> SStep43 S (SClear true xk) = Ok (SFresh43 S, None).
Proof.
  intros. eapply (serial_clear_restores_dynamic V cn nm unit nkw XK tt nkw0 (cstep4 N) (nstep3 N)
                    (cclear4 N) (nclear3 N) (cfresh4 N) (nfresh3 N) CI4 (NI3 N) keepk3); eauto; hyps43.
Qed.
Theorem c04_c03_biclique_clear_restores_dynamic B0 ops Bq outs xk :
  LI43 (b_layer B0) -> Forall (bop_ok V cn nm unit nkw XK CI4 (NI3 N)) ops -> keepk3 xk ->
  run BStep43 B0 ops = Ok (Bq, outs) -> BStep43 Bq (BClear true xk) = Ok (BFresh43 Bq, None).
Proof.
  intros. eapply (biclique_clear_restores_dynamic V cn nm unit nkw XK tt nkw0 (cstep4 N) (nstep3 N)
                    (cclear4 N) (nclear3 N) (cfresh4 N) (nfresh3 N) CI4 (NI3 N) keepk3); eauto; hyps43.
Qed.
Theorem c04_c03_recurrent_clear_restores_dynamic R0 ops R outs xk :
  LI43 (r_layer R0) -> Forall (rop_ok2 V cn nm unit nkw XK CI4 (NI3 N)) ops -> keepk3 xk ->
  run RStep43 R0 ops = Ok (R, outs) -> RStep43 R (RClear true true xk) = Ok (RFresh43 R, None).
Proof.
  intros. eapply (recurrent_clear_restores_dynamic V cn nm unit nkw XK tt nkw0 (cstep4 N) (nstep3 N) (nspike3 N)
                    (cclear4 N) (nclear3 N) (tzeros_like N) (tadd N) (cfresh4 N) (nfresh3 N) CI4 (NI3 N) keepk3);
    eauto; hyps43.
Qed.
Theorem c04_c03_serial_clear_then_run S0 ops S outs xk ops2 :
  LI43 (s_layer S0) -> Forall (sop_ok V cn nm unit nkw XK CI4 (NI3 N)) ops -> keepk3 xk ->
  run SStep43 S0 ops = Ok (S, outs) ->
  run SStep43 S (SClear true xk :: ops2) = ('(S2, o2) <- run SStep43 (SFresh43 S) ops2 ;; Ok (S2, None :: o2)).
Proof.
  intros. eapply (serial_clear_then_run V cn nm unit nkw XK tt nkw0 (cstep4 N) (nstep3 N)
                    (cclear4 N) (nclear3 N) (cfresh4 N) (nfresh3 N) CI4 (NI3 N) keepk3); eauto; hyps43.
Qed.
Theorem c04_c03_biclique_clear_then_run B0 ops Bq outs xk ops2 :
  LI43 (b_layer B0) -> Forall (bop_ok V cn nm unit nkw XK CI4 (NI3 N)) ops -> keepk3 xk ->
  run BStep43 B0 ops = Ok (Bq, outs) ->
  run BStep43 Bq (BClear true xk :: ops2) = ('(B2, o2) <- run BStep43 (BFresh43 Bq) ops2 ;; Ok (B2, None :: o2)).
Proof.
  intros. eapply (biclique_clear_then_run V cn nm unit nkw XK tt nkw0 (cstep4 N) (nstep3 N)
                    (cclear4 N) (nclear3 N) (cfresh4 N) (nfresh3 N) CI4 (NI3 N) keepk3); eauto; hyps43.
Qed.
Theorem c04_c03_recurrent_clear_then_run R0 ops R outs xk ops2 :
  LI43 (r_layer R0) -> Forall (rop_ok2 V cn nm unit nkw XK CI4 (NI3 N)) ops -> keepk3 xk ->
  run RStep43 R0 ops = Ok (R, outs) ->
  run RStep43 R (RClear true true xk :: ops2) = ('(R2, o2) <- run RStep43 (RFresh43 R) ops2 ;; Ok (R2, None :: o2)).
Proof.
  intros. eapply (recurrent_clear_then_run V cn nm unit nkw XK tt nkw0 (cstep4 N) (nstep3 N) (nspike3 N)
                    (cclear4 N) (nclear3 N) (tzeros_like N) (tadd N) (cfresh4 N) (nfresh3 N) CI4 (NI3 N) keepk3);
    eauto; hyps43.
Qed.

Ltac hyps43p := first [apply c04_clear_is_fresh | (intros; apply Hn_clear3p; assumption) | apply Hc_step4 | apply Hn_step3p
                       | apply Hc_clear_inv4 | apply Hn_clear_inv3p | (intros; eapply Hc_par4; eassumption)
                       | apply Hn_par3p | apply Hc_ff4 | apply Hn_ff3p].
Theorem c04_c03_serial_clear_replay S0 pre post xk S1 opre :
  LI43p (s_layer S0) -> SFresh43 S0 = S0 -> Forall (sop_frozen V cn nm unit nkw XK anyk3) pre ->
  run SStep43 S0 pre = Ok (S1, opre) ->
  run SStep43 S0 (pre ++ SClear true xk :: post) = ('(S2, opost) <- run SStep43 S0 post ;; Ok (S2, opre ++ None :: opost)).
Proof.
  intros. eapply (serial_clear_replay V cn nm unit nkw XK tt nkw0 (cstep4 N) (nstep3 N)
                    (cclear4 N) (nclear3 N) (cfresh4 N) (nfresh3 N) CI4 (NI3p N) anyk3);
    eauto; try exact I; hyps43p.
Qed.
Theorem c04_c03_biclique_clear_replay B0 pre post xk B1 opre :
  LI43p (b_layer B0) -> BFresh43 B0 = B0 -> Forall (bop_frozen V cn nm unit nkw XK anyk3) pre ->
  run BStep43 B0 pre = Ok (B1, opre) ->
  run BStep43 B0 (pre ++ BClear true xk :: post) = ('(B2, opost) <- run BStep43 B0 post ;; Ok (B2, opre ++ None :: opost)).
Proof.
  intros. eapply (biclique_clear_replay V cn nm unit nkw XK tt nkw0 (cstep4 N) (nstep3 N)
                    (cclear4 N) (nclear3 N) (cfresh4 N) (nfresh3 N) CI4 (NI3p N) anyk3);
    eauto; try exact I; hyps43p.
Qed.
Theorem c04_c03_recurrent_clear_replay R0 pre post xk R1 opre :
  LI43p (r_layer R0) -> RFresh43 R0 = R0 -> Forall (rop_frozen V cn nm unit nkw XK anyk3) pre ->
  run RStep43 R0 pre = Ok (R1, opre) ->
  run RStep43 R0 (pre ++ RClear true true xk :: post) =
  ('(R2, opost) <- run RStep43 R0 post ;; Ok (R2, opre ++ None :: opost)).
Proof.
  intros. eapply (recurrent_clear_replay V cn nm unit nkw XK tt nkw0 (cstep4 N) (nstep3 N) (nspike3 N)
                    (cclear4 N) (nclear3 N) (tzeros_like N) (tadd N) (cfresh4 N) (nfresh3 N) CI4 (NI3p N) anyk3);
    eauto; try exact I; hyps43p.
Qed.

(* named for the obligations *)
Theorem c04_constructor_invariant (c : cn) : CI4 (cfresh4 N c).
Proof. apply cfresh4_CI4. Qed.
Theorem c04_forward_keeps_invariant (c : cn) kw xs c' y : CI4 c -> cstep4 N c kw xs = Ok (c', y) -> CI4 c' /\ cfresh4 N c' = cfresh4 N c.
Proof. intros HI H. split; [eapply Hc_step4; eauto|eapply Hc_par4; eauto]. Qed.
End Poly4.
