(* Component lemmas about the C03 model of the eight neuron classes (through the adapter C17/NeuronsC03.v), and the
   C17 layer theorems instantiated with them - for EVERY class at once (the statements quantify over the class).
   Polymorphic in the number type, axiom-free. *)
From Coq Require Import List ZArith Bool Arith Lia.
From Inferno Require Import Base.Num C17.Layers C17.LayersSpec C17.Components C17.LayersProofs C17.ComponentsProofs
     C17.NeuronsC03.
From Inferno Require C03.Neuron.
Import ListNotations.

Section Poly3.
Variable N : Num.
Notation nm := (nmod N).

Lemma N3_map2_length {A B C} (f : A -> B -> C) a b : length (N3.map2 f a b) = Nat.min (length a) (length b).
Proof. revert b. induction a as [|x a IH]; intros [|y b]; simpl; auto. Qed.
Lemma to_cols_length n B el : length (to_cols N n B el) = n.
Proof. unfold to_cols. rewrite map_length, seq_length. reflexivity. Qed.
Lemma to_cols_rows n B el : Forall (fun r => length r = B) (to_cols N n B el).
Proof.
  unfold to_cols. rewrite Forall_map. apply Forall_forall. intros j _. rewrite map_length, seq_length. reflexivity.
Qed.

(* ---------- clear() ---------- *)
(* set_adapt on the constructor state = every column: the given adaptations over B cells at (rest_v, 0) *)
Lemma set_adapt_init c p B : forall (rows : list (list (T N))),
  N3.set_adapt N (repeat (N3.mkCol (if N3.has_adaptation c then map (fun _ => zero N) (N3.adapt_increment N p) else [])
                                   (repeat (N3.rest_v N p, zero N) B)) (length rows)) rows
  = map (fun a => N3.mkCol a (repeat (N3.rest_v N p, zero N) B)) rows.
Proof.
  induction rows as [|a rows IH]; simpl; auto. unfold N3.set_adapt in *. simpl. f_equal. exact IH.
Qed.
(* default clear (or keep_adaptations=True), any class: the freshly constructed group carrying the adaptations *)
Theorem c03_clear_default_is_fresh xk (m : nm) :
  keep_of xk = true -> NI3 N m -> nclear3 N xk m = nfresh3 N m.
Proof.
  intros Hk [Hl Hc]. unfold nclear3, nfresh3. f_equal. rewrite Hk.
  unfold N3.init. cbn [N3.cols]. rewrite <- Hl.
  replace (length (m_cols N m)) with (length (map (N3.ad N) (m_cols N m))) by apply map_length.
  rewrite set_adapt_init, map_map. unfold N3.clear.
  apply map_ext_Forall with (P := fun col => length (N3.cells N col) = m_B N m); auto.
  intros col Hcol. rewrite andb_false_r. f_equal.
  rewrite map_const_repeat, Hcol. reflexivity.
Qed.
(* clear(keep_adaptations=False): the same with the adaptations of an adaptive class zeroed *)
Theorem c03_clear_nokeep_is_fresh_zeroed (m : nm) :
  NI3 N m -> nclear3 N (Some false) m = nfresh3 N (zero_adapt N m).
Proof.
  intros [Hl Hc]. unfold nclear3, nfresh3, zero_adapt, with_cols, m_cols, m_n. cbn [m_cls m_par m_shape m_B m_st N3.cols N3.training keep_of].
  f_equal. f_equal. unfold N3.init. cbn [N3.cols]. fold (m_cols N m). fold (m_n N m). rewrite <- Hl.
  rewrite map_map. cbn [N3.ad].
  replace (length (m_cols N m))
    with (length (map (fun x => if N3.has_adaptation (m_cls N m) then map (fun _ => zero N) (N3.ad N x) else N3.ad N x)
                      (m_cols N m))) by apply map_length.
  rewrite set_adapt_init, map_map. unfold N3.clear.
  apply map_ext_Forall with (P := fun col => length (N3.cells N col) = m_B N m); auto.
  intros col Hcol. rewrite andb_true_r. f_equal. rewrite map_const_repeat, Hcol. reflexivity.
Qed.
Theorem c03_clear_nokeep_zero_adaptations (m : nm) :
  N3.has_adaptation (m_cls N m) = true ->
  Forall (fun col => Forall (fun a => a = zero N) (N3.ad N col)) (m_cols N (nclear3 N (Some false) m)).
Proof.
  intros Ha. unfold nclear3, with_cols, m_cols. cbn [m_st N3.cols keep_of]. unfold N3.clear. rewrite Ha. cbn [andb negb].
  rewrite Forall_map. apply Forall_forall. intros col _. cbn [N3.ad]. rewrite Forall_map. apply Forall_forall. auto.
Qed.
(* adaptations are untouched by the default clear *)
Theorem c03_clear_keeps_adaptations xk (m : nm) :
  keep_of xk = true -> map (N3.ad N) (m_cols N (nclear3 N xk m)) = map (N3.ad N) (m_cols N m).
Proof.
  intros Hk. unfold nclear3, with_cols, m_cols. cbn [m_st N3.cols]. rewrite Hk. unfold N3.clear. rewrite map_map.
  apply map_ext. intros col. rewrite andb_false_r. reflexivity.
Qed.
(* clear is idempotent, whatever the state and the flag *)
Theorem c03_clear_idempotent xk (m : nm) : nclear3 N xk (nclear3 N xk m) = nclear3 N xk m.
Proof.
  unfold nclear3, with_cols, m_cols. cbn [m_cls m_par m_shape m_B m_st N3.cols N3.training]. f_equal. f_equal.
  unfold N3.clear. rewrite map_map. apply map_ext. intros col. cbn [N3.ad N3.cells]. f_equal.
  - destruct (N3.has_adaptation (m_cls N m) && negb (keep_of xk)); auto. rewrite map_map. reflexivity.
  - rewrite map_map. reflexivity.
Qed.
(* ---------- invariants ---------- *)
Lemma forward_NI3 c p adapt lock B : forall (cs : list (N3.column N)) xs,
  length xs = length cs -> Forall (fun col => length (N3.cells N col) = B) cs -> Forall (fun r => length r = B) xs ->
  length (snd (N3.forward N c p adapt lock cs xs)) = length cs /\
  Forall (fun col => length (N3.cells N col) = B) (snd (N3.forward N c p adapt lock cs xs)).
Proof.
  unfold N3.forward. cbn [snd].
  induction cs as [|col cs IH]; intros [|row xs] Hl Hc Hr; simpl in *; try discriminate.
  - split; [reflexivity|constructor].
  - pose proof (Forall_inv Hc) as H1. pose proof (Forall_inv_tail Hc) as H2.
    pose proof (Forall_inv Hr) as H3. pose proof (Forall_inv_tail Hr) as H4. cbn beta in H1, H3.
    destruct (IH xs) as [L F]; auto. split; [f_equal; exact L|]. constructor; auto.
    unfold N3.col_forward. cbn [snd N3.cells]. rewrite map_length. unfold N3.col_outs.
    rewrite N3_map2_length, H1, H3. apply Nat.min_id.
Qed.
Lemma nstep3_inv (m : nm) kw x m' z : nstep3 N m kw x = Ok (m', z) ->
  m' = with_cols N m (snd (N3.forward N (m_cls N m) (m_par N m)
                             (N3.eff_adapt (k_adapt kw) (N3.training N (m_st N m))) (k_lock kw)
                             (m_cols N m) (to_cols N (m_n N m) (m_B N m) (tel x)))) /\
  tsh z = m_B N m :: m_shape N m.
Proof.
  unfold nstep3. destruct (negb _); [discriminate|]. intros H; inversion H; subst. split; reflexivity.
Qed.
Lemma Hn_step3 (m : nm) kw x m' z : NI3 N m -> nstep3 N m kw x = Ok (m', z) -> NI3 N m'.
Proof.
  intros [Hl Hc] H. destruct (nstep3_inv _ _ _ _ _ H) as [-> _].
  unfold NI3, with_cols, m_cols, m_n in *. cbn [m_st m_shape m_B N3.cols].
  destruct (forward_NI3 (m_cls N m) (m_par N m) (N3.eff_adapt (k_adapt kw) (N3.training N (m_st N m))) (k_lock kw)
              (m_B N m) (N3.cols N (m_st N m)) (to_cols N (nel (m_shape N m)) (m_B N m) (tel x))) as [L F]; auto.
  - rewrite to_cols_length. symmetry. exact Hl.
  - apply to_cols_rows.
  - split; [rewrite L; exact Hl|exact F].
Qed.
Lemma Hn_clear_inv3 xk (m : nm) : NI3 N m -> NI3 N (nclear3 N xk m).
Proof.
  intros [Hl Hc]. unfold NI3, nclear3, with_cols, m_cols, m_n. cbn [m_st m_shape m_B N3.cols]. unfold N3.clear.
  rewrite map_length. split; auto. rewrite Forall_map. eapply Forall_impl; [|exact Hc]. intros col Hcol.
  cbn [N3.cells]. rewrite map_length. exact Hcol.
Qed.
Lemma Hn_shape3 (m : nm) kw x m' z : nstep3 N m kw x = Ok (m', z) -> tsh z = nbshape3 N m /\ nbshape3 N m' = nbshape3 N m.
Proof. intros H. destruct (nstep3_inv _ _ _ _ _ H) as [-> Z]. split; auto. Qed.
(* the freshly constructed group is well-formed *)
Lemma nfresh3_cols (m : nm) : length (m_cols N m) = m_n N m ->
  m_cols N (nfresh3 N m) = map (fun a => N3.mkCol a (repeat (N3.rest_v N (m_par N m), zero N) (m_B N m)))
                               (map (N3.ad N) (m_cols N m)).
Proof.
  intros Hl. unfold nfresh3, with_cols, m_cols in *. cbn [m_st N3.cols]. unfold N3.init. cbn [N3.cols].
  rewrite <- Hl. rewrite <- (map_length (N3.ad N) (N3.cols N (m_st N m))). apply set_adapt_init.
Qed.
Lemma nfresh3_NI3 (m : nm) : length (m_cols N m) = m_n N m -> NI3 N (nfresh3 N m).
Proof.
  intros Hl. unfold NI3. rewrite (nfresh3_cols m Hl). rewrite !map_length. split; auto.
  rewrite Forall_map. apply Forall_forall. intros a _. cbn [N3.cells]. apply repeat_length.
Qed.

(* ---------- forward of a class WITHOUT adaptation (LIF GLIF1 QIF EIF) never changes what the fresh group is ---------- *)
Definition NI3p (m : nm) : Prop := NI3 N m /\ N3.has_adaptation (m_cls N m) = false.
Lemma forward_ad_plain c p adapt lock : forall (cs : list (N3.column N)) xs,
  N3.has_adaptation c = false -> length xs = length cs ->
  map (N3.ad N) (snd (N3.forward N c p adapt lock cs xs)) = map (N3.ad N) cs.
Proof.
  intros cs xs Ha. unfold N3.forward. cbn [snd]. revert xs.
  induction cs as [|col cs IH]; intros [|row xs] Hl; simpl in *; try discriminate; auto.
  f_equal; [|apply IH; lia]. unfold N3.col_forward. cbn [snd N3.ad].
  destruct adapt; auto. destruct c; try discriminate; reflexivity.
Qed.
Lemma Hn_step3p (m : nm) kw x m' z : NI3p m -> nstep3 N m kw x = Ok (m', z) -> NI3p m'.
Proof.
  intros [HI Ha] H. split; [eapply Hn_step3; eauto|]. destruct (nstep3_inv _ _ _ _ _ H) as [-> _]. exact Ha.
Qed.
Lemma Hn_par3p (m : nm) kw x m' z : NI3p m -> nstep3 N m kw x = Ok (m', z) -> nfresh3 N m' = nfresh3 N m.
Proof.
  intros [[Hl Hc] Ha] H. destruct (nstep3_inv _ _ _ _ _ H) as [-> _].
  unfold nfresh3, with_cols, m_cols, m_n. cbn [m_cls m_par m_shape m_B m_st N3.cols N3.training]. f_equal. f_equal. f_equal.
  apply forward_ad_plain; auto. rewrite to_cols_length. symmetry. exact Hl.
Qed.
Lemma Hn_clear3p xk (m : nm) : NI3p m -> nclear3 N xk m = nfresh3 N m.
Proof.
  intros [HI Ha]. destruct (keep_of xk) eqn:E; [apply c03_clear_default_is_fresh; auto|].
  rewrite <- (c03_clear_default_is_fresh None m eq_refl HI). unfold nclear3. rewrite E. f_equal.
  unfold N3.clear. rewrite Ha. reflexivity.
Qed.
Lemma Hn_clear_inv3p xk (m : nm) : NI3p m -> NI3p (nclear3 N xk m).
Proof. intros [HI Ha]. split; [apply Hn_clear_inv3; auto|exact Ha]. Qed.

(* ================= the layer theorems for every neuron class ================= *)
Notation V := (tensor N).
Notation CS := (dense N).
Notation XK := (option bool).
Definition keepk3 (xk : XK) : Prop := keep_of xk = true.
Definition SStep3 := serial_step V CS nm unit nkw XK tt nkw0 (dense_step N) (nstep3 N) (dense_clear N) (nclear3 N).
Definition BStep3 := biclique_step V CS nm unit nkw XK tt nkw0 (dense_step N) (nstep3 N) (dense_clear N) (nclear3 N).
Definition RStep3 := recurrent_step V CS nm unit nkw XK tt nkw0 (dense_step N) (nstep3 N) (nspike3 N)
                       (dense_clear N) (nclear3 N) (tzeros_like N) (tadd N).
Definition LI3 := LI CS nm (CI N) (NI3 N).
Definition LI3p := LI CS nm (CI N) NI3p.
Definition SFresh3 := serial_fresh V CS nm (dense_fresh N) (nfresh3 N).
Definition BFresh3 := biclique_fresh V CS nm (dense_fresh N) (nfresh3 N).
Definition RFresh3 := recurrent_fresh V CS nm (dense_fresh N) (nfresh3 N).

Ltac hyps3 := first [apply Hc_clear | (intros; apply c03_clear_default_is_fresh; assumption) | apply Hc_step
                     | apply Hn_step3 | apply Hc_clear_inv | apply Hn_clear_inv3].

(* clear_restores_dynamic, any of the eight classes in any group, adaptation on or off: after ANY run the default
   clear() (or keep_adaptations=True) leaves exactly the freshly constructed layer carrying the current weights and
   adaptations *)
Theorem c03_serial_clear_restores_dynamic S0 ops S outs xk :
  LI3 (s_layer S0) -> Forall (sop_ok V CS nm unit nkw XK (CI N) (NI3 N)) ops -> keepk3 xk ->
  run SStep3 S0 ops = Ok (S, outs) -> SStep3 S (SClear true xk) = Ok (SFresh3 S, None).
Proof.
  intros. eapply (serial_clear_restores_dynamic V CS nm unit nkw XK tt nkw0 (dense_step N) (nstep3 N)
                    (dense_clear N) (nclear3 N) (dense_fresh N) (nfresh3 N) (CI N) (NI3 N) keepk3); eauto; hyps3.
Qed.
Theorem c03_biclique_clear_restores_dynamic B0 ops Bq outs xk :
  LI3 (b_layer B0) -> Forall (bop_ok V CS nm unit nkw XK (CI N) (NI3 N)) ops -> keepk3 xk ->
  run BStep3 B0 ops = Ok (Bq, outs) -> BStep3 Bq (BClear true xk) = Ok (BFresh3 Bq, None).
Proof.
  intros. eapply (biclique_clear_restores_dynamic V CS nm unit nkw XK tt nkw0 (dense_step N) (nstep3 N)
                    (dense_clear N) (nclear3 N) (dense_fresh N) (nfresh3 N) (CI N) (NI3 N) keepk3); eauto; hyps3.
Qed.
Theorem c03_recurrent_clear_restores_dynamic R0 ops R outs xk :
  LI3 (r_layer R0) -> Forall (rop_ok2 V CS nm unit nkw XK (CI N) (NI3 N)) ops -> keepk3 xk ->
  run RStep3 R0 ops = Ok (R, outs) -> RStep3 R (RClear true true xk) = Ok (RFresh3 R, None).
Proof.
  intros. eapply (recurrent_clear_restores_dynamic V CS nm unit nkw XK tt nkw0 (dense_step N) (nstep3 N) (nspike3 N)
                    (dense_clear N) (nclear3 N) (tzeros_like N) (tadd N) (dense_fresh N) (nfresh3 N) (CI N) (NI3 N) keepk3);
    eauto; hyps3.
Qed.
(* clear ; anything = the fresh layer (carrying the adaptations learned so far) on the same operations *)
Theorem c03_serial_clear_then_run S0 ops S outs xk ops2 :
  LI3 (s_layer S0) -> Forall (sop_ok V CS nm unit nkw XK (CI N) (NI3 N)) ops -> keepk3 xk ->
  run SStep3 S0 ops = Ok (S, outs) ->
  run SStep3 S (SClear true xk :: ops2) = ('(S2, o2) <- run SStep3 (SFresh3 S) ops2 ;; Ok (S2, None :: o2)).
Proof.
  intros. eapply (serial_clear_then_run V CS nm unit nkw XK tt nkw0 (dense_step N) (nstep3 N)
                    (dense_clear N) (nclear3 N) (dense_fresh N) (nfresh3 N) (CI N) (NI3 N) keepk3); eauto; hyps3.
Qed.
Theorem c03_biclique_clear_then_run B0 ops Bq outs xk ops2 :
  LI3 (b_layer B0) -> Forall (bop_ok V CS nm unit nkw XK (CI N) (NI3 N)) ops -> keepk3 xk ->
  run BStep3 B0 ops = Ok (Bq, outs) ->
  run BStep3 Bq (BClear true xk :: ops2) = ('(B2, o2) <- run BStep3 (BFresh3 Bq) ops2 ;; Ok (B2, None :: o2)).
Proof.
  intros. eapply (biclique_clear_then_run V CS nm unit nkw XK tt nkw0 (dense_step N) (nstep3 N)
                    (dense_clear N) (nclear3 N) (dense_fresh N) (nfresh3 N) (CI N) (NI3 N) keepk3); eauto; hyps3.
Qed.
Theorem c03_recurrent_clear_then_run R0 ops R outs xk ops2 :
  LI3 (r_layer R0) -> Forall (rop_ok2 V CS nm unit nkw XK (CI N) (NI3 N)) ops -> keepk3 xk ->
  run RStep3 R0 ops = Ok (R, outs) ->
  run RStep3 R (RClear true true xk :: ops2) = ('(R2, o2) <- run RStep3 (RFresh3 R) ops2 ;; Ok (R2, None :: o2)).
Proof.
  intros. eapply (recurrent_clear_then_run V CS nm unit nkw XK tt nkw0 (dense_step N) (nstep3 N) (nspike3 N)
                    (dense_clear N) (nclear3 N) (tzeros_like N) (tadd N) (dense_fresh N) (nfresh3 N) (CI N) (NI3 N) keepk3);
    eauto; hyps3.
Qed.

(* clear_replay_deterministic for the four classes without adaptation (forward never learns): a freshly built layer,
   ANY learning-free prefix, clear with ANY keep_adaptations flag at that position, then any operations: outputs and
   final state are those of the freshly built layer on these operations *)
Definition anyk3 (xk : XK) : Prop := True.
Ltac hyps3p := first [apply Hc_clear | (intros; apply Hn_clear3p; assumption) | apply Hc_step | apply Hn_step3p
                      | apply Hc_clear_inv | apply Hn_clear_inv3p | (intros; eapply Hc_par; eassumption)
                      | apply Hn_par3p | apply Hc_ff].
Lemma Hn_ff3p (m : nm) : nfresh3 N (nfresh3 N m) = nfresh3 N m.
Proof.
  unfold nfresh3, with_cols, m_cols, m_n. cbn [m_cls m_par m_shape m_B m_st N3.cols N3.training]. f_equal. f_equal.
  unfold N3.set_adapt. generalize (N3.cols N (N3.init N (m_cls N m) (m_par N m) (nel (m_shape N m)) (m_B N m))).
  generalize (map (N3.ad N) (N3.cols N (m_st N m))). intros rows cs. revert rows.
  induction cs as [|c cs IH]; intros [|a rows]; simpl; auto. f_equal. apply IH.
Qed.
Theorem c03_serial_clear_replay S0 pre post xk S1 opre :
  LI3p (s_layer S0) -> SFresh3 S0 = S0 -> Forall (sop_frozen V CS nm unit nkw XK anyk3) pre ->
  run SStep3 S0 pre = Ok (S1, opre) ->
  run SStep3 S0 (pre ++ SClear true xk :: post) = ('(S2, opost) <- run SStep3 S0 post ;; Ok (S2, opre ++ None :: opost)).
Proof.
  intros. eapply (serial_clear_replay V CS nm unit nkw XK tt nkw0 (dense_step N) (nstep3 N)
                    (dense_clear N) (nclear3 N) (dense_fresh N) (nfresh3 N) (CI N) NI3p anyk3);
    eauto; try exact I; try apply Hn_ff3p; hyps3p.
Qed.
Theorem c03_biclique_clear_replay B0 pre post xk B1 opre :
  LI3p (b_layer B0) -> BFresh3 B0 = B0 -> Forall (bop_frozen V CS nm unit nkw XK anyk3) pre ->
  run BStep3 B0 pre = Ok (B1, opre) ->
  run BStep3 B0 (pre ++ BClear true xk :: post) = ('(B2, opost) <- run BStep3 B0 post ;; Ok (B2, opre ++ None :: opost)).
Proof.
  intros. eapply (biclique_clear_replay V CS nm unit nkw XK tt nkw0 (dense_step N) (nstep3 N)
                    (dense_clear N) (nclear3 N) (dense_fresh N) (nfresh3 N) (CI N) NI3p anyk3);
    eauto; try exact I; try apply Hn_ff3p; hyps3p.
Qed.
Theorem c03_recurrent_clear_replay R0 pre post xk R1 opre :
  LI3p (r_layer R0) -> RFresh3 R0 = R0 -> Forall (rop_frozen V CS nm unit nkw XK anyk3) pre ->
  run RStep3 R0 pre = Ok (R1, opre) ->
  run RStep3 R0 (pre ++ RClear true true xk :: post) =
  ('(R2, opost) <- run RStep3 R0 post ;; Ok (R2, opre ++ None :: opost)).
Proof.
  intros. eapply (recurrent_clear_replay V CS nm unit nkw XK tt nkw0 (dense_step N) (nstep3 N) (nspike3 N)
                    (dense_clear N) (nclear3 N) (tzeros_like N) (tadd N) (dense_fresh N) (nfresh3 N) (CI N) NI3p anyk3);
    eauto; try exact I; try apply Hn_ff3p; hyps3p.
Qed.

(* output shapes, every class *)
Theorem c03_serial_output_shape S xs kc kn S' z y :
  serial_forward V CS nm unit nkw tt nkw0 (dense_step N) (nstep3 N) S xs kc kn = Ok (S', (z, y)) ->
  shape_at nm (list nat) (nbshape3 N) (neurs (s_layer S)) (s_nn S) = Some (tsh z).
Proof. apply (serial_output_shape V CS nm unit nkw tt nkw0 (dense_step N) (nstep3 N) _ tsh (nbshape3 N)). apply Hn_shape3. Qed.
Theorem c03_biclique_output_shapes Bq ins kc kn B' zs ys :
  biclique_forward V CS nm unit nkw tt nkw0 (dense_step N) (nstep3 N) Bq ins kc kn = Ok (B', (zs, ys)) ->
  Forall (fun p => shape_at nm (list nat) (nbshape3 N) (neurs (b_layer Bq)) (fst p) = Some (tsh (snd p))) zs.
Proof. apply (biclique_output_shapes V CS nm unit nkw tt nkw0 (dense_step N) (nstep3 N) _ tsh (nbshape3 N)). apply Hn_shape3. Qed.
Theorem c03_recurrent_output_shapes R xs la fa kff klat kfb nkff nkfb R' zff zfb ys :
  recurrent_forward V CS nm unit nkw tt nkw0 (dense_step N) (nstep3 N) (nspike3 N) (tzeros_like N) (tadd N)
    R xs la fa kff klat kfb nkff nkfb = Ok (R', ((zff, zfb), ys)) ->
  shape_at nm (list nat) (nbshape3 N) (neurs (r_layer R)) (r_ffn R) = Some (tsh zff) /\
  shape_at nm (list nat) (nbshape3 N) (neurs (r_layer R)) (r_fbn R) = Some (tsh zfb).
Proof.
  apply (recurrent_output_shapes V CS nm unit nkw tt nkw0 (dense_step N) (nstep3 N) (nspike3 N)
           (tzeros_like N) (tadd N) _ tsh (nbshape3 N)). apply Hn_shape3.
Qed.
End Poly3.
