(* Model of inferno/neural/network.py: Layer (forward, clear), Serial, Biclique, RecurrentSerial.
   GENERIC in the component models: tensors [V], connection / neuron module states [CS] / [NS] (parameters
   and dynamic state together, as the Python objects hold them), their forward functions [cstep] / [nstep],
   the neuron's derived [.spike] attribute [nspike], and their [clear] methods.  Definitions only (no proofs),
   so that the model keeps running for the correspondence check when a proof is broken.

   Conventions
   * a raised Python exception is [Err code] with the codes of tools/impl/common.py
     (1 RuntimeError, 2 ValueError, 3 IndexError, 4 TypeError, 5 AttributeError, 6 KeyError);
     a run stops at the first exception (the state after an exception is not modelled);
   * python dicts / nn.ModuleDict are association lists in insertion order, names are integers;
     module objects are mutated in place = [update] of the entry of an existing key;
   * keyword arguments: [CK] / [NK] are the kwargs of connection / neuron forward calls, [ck0] / [nk0] the empty
     dict ({} of ckw.get(k, {})); [XK] the kwargs handed by clear() to every submodule's clear();
     keyword arguments of wiring (the extra kwargs of Layer.forward) are not modelled;
   * cells_ (Cell objects) hold references only and take no part in forward / clear: not modelled. *)
From Coq Require Import List ZArith Bool.
Import ListNotations.

(* ---------- exceptions ---------- *)
Inductive res (A : Type) : Type := Ok (a : A) | Err (e : Z).
Arguments Ok {A} a.
Arguments Err {A} e.
Definition bind {A B} (r : res A) (f : A -> res B) : res B :=
  match r with Ok a => f a | Err e => Err e end.
Notation "x <- r ;; k" := (bind r (fun x => k)) (at level 61, r at next level, right associativity).
Notation "' p <- r ;; k" := (bind r (fun x => match x with p => k end))
  (at level 61, p pattern, r at next level, right associativity).
Definition ERuntime : Z := 1. Definition EValue : Z := 2. Definition EIndex : Z := 3.
Definition EType : Z := 4. Definition EAttr : Z := 5. Definition EKey : Z := 6.

(* ---------- dicts ---------- *)
Fixpoint lookup {A} (k : Z) (l : list (Z * A)) : option A :=
  match l with
  | [] => None
  | (k', a) :: t => if Z.eqb k k' then Some a else lookup k t
  end.
Fixpoint update {A} (k : Z) (a : A) (l : list (Z * A)) : list (Z * A) :=
  match l with
  | [] => []
  | (k', a') :: t => if Z.eqb k k' then (k', a) :: t else (k', a') :: update k a t
  end.
Definition keys {A} (l : list (Z * A)) : list Z := map fst l.
Definition mem (k : Z) (l : list Z) : bool := existsb (Z.eqb k) l.
Fixpoint nodupb (l : list Z) : bool :=
  match l with [] => true | k :: t => negb (mem k t) && nodupb t end.
(* d.get(k, default) *)
Definition getd {A} (k : Z) (l : list (Z * A)) (d : A) : A :=
  match lookup k l with Some a => a | None => d end.
(* {name: kw} if kw else {} : an absent or empty kwargs dict contributes no entry *)
Definition okw {A} (k : Z) (o : option A) : list (Z * A) :=
  match o with Some a => [(k, a)] | None => [] end.

(* generic stop-at-first-exception run of a step function, collecting the outputs *)
Fixpoint run {S Op O} (step : S -> Op -> res (S * O)) (s : S) (ops : list Op) : res (S * list O) :=
  match ops with
  | [] => Ok (s, [])
  | o :: tl => '(s', out) <- step s o ;; '(s'', outs) <- run step s' tl ;; Ok (s'', out :: outs)
  end.

Section Generic.
Variables V CS NS CK NK XK : Type.
Variable ck0 : CK.
Variable nk0 : NK.
Variable cstep : CS -> CK -> list V -> res (CS * V).     (* Connection.__call__ (star inputs, kwargs) *)
Variable nstep : NS -> NK -> V -> res (NS * V).           (* Neuron.__call__ (inputs, kwargs) *)
Variable nspike : NS -> V.                                 (* Neuron.spike (derived attribute) *)
Variable cclear : XK -> CS -> CS.                          (* Connection.clear (kwargs) *)
Variable nclear : XK -> NS -> NS.                          (* Neuron.clear (kwargs) *)
Variable vzeros_like : V -> V.                             (* torch.zeros_like *)
Variable vadd : V -> V -> res V.                           (* a + b (broadcasting may raise) *)
Variable compat : CS -> NS -> bool.                        (* Cell.__init__: connection.outshape == neuron.shape *)

(* ---------- Layer: network.py:196-650 ---------- *)
Record layer := mkLayer { conns : list (Z * CS); neurs : list (Z * NS) }.

(* network.py:639  res = {k: self.connections_[k] (star v, ckw.get(k, {})) for k, v in inputs.items()} *)
Fixpoint run_conns (cs : list (Z * CS)) (ckw : list (Z * CK)) (ins : list (Z * list V))
  : res (list (Z * CS) * list (Z * V)) :=
  match ins with
  | [] => Ok (cs, [])
  | (k, x) :: tl =>
      match lookup k cs with
      | None => Err EKey
      | Some c =>
          '(c', y) <- cstep c (getd k ckw ck0) x ;;
          '(cs', ys) <- run_conns (update k c' cs) ckw tl ;;
          Ok (cs', (k, y) :: ys)
      end
  end.
(* network.py:643-645 / 649  {k: self.neurons_[k](v, **nkw.get(k, {})) for k, v in outputs.items()} *)
Fixpoint run_neurs (ns : list (Z * NS)) (nkw : list (Z * NK)) (ws : list (Z * V))
  : res (list (Z * NS) * list (Z * V)) :=
  match ws with
  | [] => Ok (ns, [])
  | (k, w) :: tl =>
      match lookup k ns with
      | None => Err EKey
      | Some n =>
          '(n', z) <- nstep n (getd k nkw nk0) w ;;
          '(ns', zs) <- run_neurs (update k n' ns) nkw tl ;;
          Ok (ns', (k, z) :: zs)
      end
  end.
(* Layer.forward; returns (neuron outputs, connection outputs); the caller keeps the second component only
   when capture_intermediate is set (both branches of network.py:641-650 compute the same things) *)
Definition layer_forward (wiring : list (Z * V) -> res (list (Z * V))) (L : layer)
    (ins : list (Z * list V)) (ckw : list (Z * CK)) (nkw : list (Z * NK))
  : res (layer * (list (Z * V) * list (Z * V))) :=
  '(cs', ys) <- run_conns (conns L) ckw ins ;;
  ws <- wiring ys ;;
  '(ns', zs) <- run_neurs (neurs L) nkw ws ;;
  Ok (mkLayer cs' ns', (zs, ys)).

(* Layer.clear: network.py:208-221 *)
Definition layer_clear (submodules : bool) (xk : XK) (L : layer) : layer :=
  if submodules
  then mkLayer (map (fun p => (fst p, cclear xk (snd p))) (conns L))
               (map (fun p => (fst p, nclear xk (snd p))) (neurs L))
  else L.

(* what a trainer does between steps: assigns learned parameters of the connection / neuron registered under a
   name (any state transformer; the theorems quantify over it) *)
Definition layer_learn_c (k : Z) (f : CS -> CS) (L : layer) : layer :=
  match lookup k (conns L) with Some c => mkLayer (update k (f c) (conns L)) (neurs L) | None => L end.
Definition layer_learn_n (k : Z) (f : NS -> NS) (L : layer) : layer :=
  match lookup k (neurs L) with Some n => mkLayer (conns L) (update k (f n) (neurs L)) | None => L end.

(* ---------- Serial: network.py:830-1029 ---------- *)
Record serial := mkSerial { s_layer : layer; s_cn : Z; s_nn : Z; s_tr : V -> V }.
(* __init__: network.py:857-885 (a fresh Layer, so add_connection / add_neuron cannot raise; add_cell builds a
   Cell, whose constructor raises RuntimeError when the shapes are incompatible, network.py:40-44) *)
Definition serial_new (c : CS) (n : NS) (tr : option (V -> V)) (cn nn : Z) : res serial :=
  if compat c n
  then Ok (mkSerial (mkLayer [(cn, c)] [(nn, n)]) cn nn (match tr with Some f => f | None => fun x => x end))
  else Err ERuntime.
(* wiring: network.py:962-981 *)
Definition serial_wiring (S : serial) (ys : list (Z * V)) : res (list (Z * V)) :=
  match lookup (s_cn S) ys with
  | None => Err EKey
  | Some y => Ok [(s_nn S, s_tr S y)]
  end.
(* forward: network.py:983-1029; returns (neuron output, connection output) *)
Definition serial_forward (S : serial) (xs : list V) (ckw : option CK) (nkw : option NK)
  : res (serial * (V * V)) :=
  '(L', (zs, ys)) <- layer_forward (serial_wiring S) (s_layer S) [(s_cn S, xs)]
                        (okw (s_cn S) ckw) (okw (s_nn S) nkw) ;;
  match lookup (s_nn S) zs, lookup (s_cn S) ys with
  | Some z, Some y => Ok (mkSerial L' (s_cn S) (s_nn S) (s_tr S), (z, y))
  | _, _ => Err EKey
  end.
Definition serial_clear (submodules : bool) (xk : XK) (S : serial) : serial :=
  mkSerial (layer_clear submodules xk (s_layer S)) (s_cn S) (s_nn S) (s_tr S).

Inductive serial_op :=
| SFwd (xs : list V) (ckw : option CK) (nkw : option NK) (capture : bool)
| SClear (submodules : bool) (xk : XK)
| SLearnC (f : CS -> CS)
| SLearnN (f : NS -> NS).
(* output of an operation: None for clear / learn *)
Definition serial_step (S : serial) (o : serial_op) : res (serial * option (V * V)) :=
  match o with
  | SFwd xs ckw nkw _ => '(S', out) <- serial_forward S xs ckw nkw ;; Ok (S', Some out)
  | SClear sub xk => Ok (serial_clear sub xk S, None)
  | SLearnC f => Ok (mkSerial (layer_learn_c (s_cn S) f (s_layer S)) (s_cn S) (s_nn S) (s_tr S), None)
  | SLearnN f => Ok (mkSerial (layer_learn_n (s_nn S) f (s_layer S)) (s_cn S) (s_nn S) (s_tr S), None)
  end.

(* ---------- Biclique: network.py:653-827 ---------- *)
Record biclique := mkBiclique {
  b_layer : layer;
  b_post : list (Z * (V -> V));              (* post_input *)
  b_pre : list (Z * (V -> V));               (* pre_output *)
  b_combine : list (Z * V) -> res V          (* _combine (takes the dict of transformed connection outputs) *)
}.
Definition idf : V -> V := fun x => x.
Definition otr (o : option (V -> V)) : V -> V := match o with Some f => f | None => idf end.
(* __init__: network.py:691-772.  Order of the checks as coded: both lists non-empty (ValueError), then
   connections added one by one (add_connection raises RuntimeError on a repeated name), then neurons. *)
Fixpoint add_all {A} (l : list (Z * A * option (V -> V))) (acc : list (Z * A)) : res (list (Z * A)) :=
  match l with
  | [] => Ok acc
  | (k, a, _) :: t => if mem k (keys acc) then Err ERuntime else add_all t (acc ++ [(k, a)])
  end.
(* python dict assignment post_input[name] = f : replaces the value of an existing key, else appends *)
Fixpoint dset {A} (k : Z) (a : A) (l : list (Z * A)) : list (Z * A) :=
  match l with
  | [] => [(k, a)]
  | (k', a') :: t => if Z.eqb k k' then (k', a) :: t else (k', a') :: dset k a t
  end.
Definition trs_of {A} (l : list (Z * A * option (V -> V))) : list (Z * (V -> V)) :=
  fold_left (fun acc p => dset (fst (fst p)) (otr (snd p)) acc) l [].
Definition biclique_new (cs : list (Z * CS * option (V -> V))) (ns : list (Z * NS * option (V -> V)))
    (combine : list (Z * V) -> res V) : res biclique :=
  match cs, ns with
  | [], _ => Err EValue
  | _, [] => Err EValue
  | _, _ =>
      cl <- add_all cs [] ;;
      nl <- add_all ns [] ;;
      (* construct cells: for c in connections: for n in neurons: add_cell (Cell checks the shapes) *)
      if forallb (fun c => forallb (fun n => compat (snd c) (snd n)) nl) cl
      then Ok (mkBiclique (mkLayer cl nl) (trs_of cs) (trs_of ns) combine)
      else Err ERuntime
  end.
(* {k: self.post_input[k](v) for k, v in inputs.items()} *)
Fixpoint post_all (post : list (Z * (V -> V))) (ys : list (Z * V)) : res (list (Z * V)) :=
  match ys with
  | [] => Ok []
  | (k, y) :: t =>
      match lookup k post with
      | None => Err EKey
      | Some f => r <- post_all post t ;; Ok ((k, f y) :: r)
      end
  end.
(* wiring: network.py:804-827.  The dict comprehension evaluates the (pure) combine once per neuron group *)
Fixpoint pre_all (pre : list (Z * (V -> V))) (Bq : biclique) (ys : list (Z * V)) : res (list (Z * V)) :=
  match pre with
  | [] => Ok []
  | (k, f) :: t =>
      ts <- post_all (b_post Bq) ys ;;
      u <- b_combine Bq ts ;;
      r <- pre_all t Bq ys ;;
      Ok ((k, f u) :: r)
  end.
Definition biclique_wiring (Bq : biclique) (ys : list (Z * V)) : res (list (Z * V)) :=
  pre_all (b_pre Bq) Bq ys.
(* Biclique uses Layer.forward unchanged *)
Definition biclique_forward (Bq : biclique) (ins : list (Z * list V)) (ckw : list (Z * CK))
    (nkw : list (Z * NK)) : res (biclique * (list (Z * V) * list (Z * V))) :=
  '(L', out) <- layer_forward (biclique_wiring Bq) (b_layer Bq) ins ckw nkw ;;
  Ok (mkBiclique L' (b_post Bq) (b_pre Bq) (b_combine Bq), out).
Definition biclique_clear (submodules : bool) (xk : XK) (Bq : biclique) : biclique :=
  mkBiclique (layer_clear submodules xk (b_layer Bq)) (b_post Bq) (b_pre Bq) (b_combine Bq).

Inductive biclique_op :=
| BFwd (ins : list (Z * list V)) (ckw : list (Z * CK)) (nkw : list (Z * NK)) (capture : bool)
| BClear (submodules : bool) (xk : XK)
| BLearnC (k : Z) (f : CS -> CS)
| BLearnN (k : Z) (f : NS -> NS).
Definition biclique_step (Bq : biclique) (o : biclique_op)
  : res (biclique * option (list (Z * V) * list (Z * V))) :=
  match o with
  | BFwd ins ckw nkw _ => '(B', out) <- biclique_forward Bq ins ckw nkw ;; Ok (B', Some out)
  | BClear sub xk => Ok (biclique_clear sub xk Bq, None)
  | BLearnC k f => Ok (mkBiclique (layer_learn_c k f (b_layer Bq)) (b_post Bq) (b_pre Bq) (b_combine Bq), None)
  | BLearnN k f => Ok (mkBiclique (layer_learn_n k f (b_layer Bq)) (b_post Bq) (b_pre Bq) (b_combine Bq), None)
  end.

(* ---------- RecurrentSerial: network.py:1032-1536 ---------- *)
Record recurrent := mkRecurrent {
  r_layer : layer;
  r_fbs : option V;                          (* buffer feedback_spikes (None until the first forward) *)
  r_ffc : Z; r_latc : Z; r_fbc : Z;          (* connection names *)
  r_ffn : Z; r_fbn : Z;                      (* neuron names *)
  r_tr_ff : V -> V; r_tr_lat : V -> V; r_tr_fb : V -> V;    (* *_out_transform *)
  r_in_lat : V -> list V; r_in_fb : V -> list V              (* *_in_transform (OneToMany) *)
}.
Definition tuplewrap (x : V) : list V := [x].
(* __init__: network.py:1101-1170; the five add_* calls raise RuntimeError on a repeated name; the feed-forward cell
   is always built, the lateral and feedback cells only with trainable_feedback (Cell checks the shapes) *)
Definition recurrent_new (cff clat cfb : CS) (nff nfb : NS)
    (tr_ff tr_lat tr_fb : option (V -> V)) (in_lat in_fb : option (V -> list V))
    (ffc latc fbc ffn fbn : Z) (trainable_feedback : bool) : res recurrent :=
  if Z.eqb latc ffc || Z.eqb fbc ffc || Z.eqb fbc latc || Z.eqb fbn ffn then Err ERuntime
  else if negb (compat cff nff) then Err ERuntime
  else if trainable_feedback && negb (compat clat nfb && compat cfb nff) then Err ERuntime
  else Ok (mkRecurrent (mkLayer [(ffc, cff); (latc, clat); (fbc, cfb)] [(ffn, nff); (fbn, nfb)]) None
             ffc latc fbc ffn fbn (otr tr_ff) (otr tr_lat) (otr tr_fb)
             (match in_lat with Some f => f | None => tuplewrap end)
             (match in_fb with Some f => f | None => tuplewrap end)).
(* wiring: network.py:1362-1393 *)
Definition recurrent_wiring (R : recurrent) (forward_pass : bool) (ys : list (Z * V)) : res (list (Z * V)) :=
  if forward_pass then
    match lookup (r_ffc R) ys with
    | None => Err EKey
    | Some yff =>
        match lookup (r_fbc R) ys with
        | None => Err EKey
        | Some yfb => d <- vadd (r_tr_ff R yff) (r_tr_fb R yfb) ;; Ok [(r_ffn R, d)]
        end
    end
  else
    match lookup (r_latc R) ys with
    | None => Err EKey
    | Some ylat => Ok [(r_fbn R, r_tr_lat R ylat)]
    end.
(* get_neuron: network.py:385-400 *)
Definition get_neuron (L : layer) (k : Z) : res NS :=
  match lookup k (neurs L) with Some n => Ok n | None => Err EAttr end.
(* fres[1] | bres[1] *)
Definition dmerge {A} (a b : list (Z * A)) : list (Z * A) := fold_left (fun acc p => dset (fst p) (snd p) acc) b a.
(* forward: network.py:1395-1536.  The kwargs dicts are built by  {} | {ff: ..} | {lat: ..} | {fb: ..}  (later
   entries win); [lookup] returns the first match, hence the reversed order below. *)
Definition recurrent_forward (R : recurrent) (xs : list V) (lat_args fb_args : list V)
    (kff klat kfb : option CK) (nkff nkfb : option NK)
  : res (recurrent * ((V * V) * list (Z * V))) :=
  let ckw := okw (r_fbc R) kfb ++ okw (r_latc R) klat ++ okw (r_ffc R) kff in
  let nkw := okw (r_fbn R) nkfb ++ okw (r_ffn R) nkff in
  (* set recurrent spikes *)
  fbs <- match r_fbs R with
         | Some v => Ok v
         | None => n <- get_neuron (r_layer R) (r_fbn R) ;; Ok (vzeros_like (nspike n))
         end ;;
  (* forward pass *)
  '(L1, (zs1, ys1)) <- layer_forward (recurrent_wiring R true) (r_layer R)
                          [(r_ffc R, xs); (r_fbc R, r_in_fb R fbs ++ fb_args)] ckw nkw ;;
  (* feedback pass *)
  nff <- get_neuron L1 (r_ffn R) ;;
  '(L2, (zs2, ys2)) <- layer_forward (recurrent_wiring R false) L1
                          [(r_latc R, r_in_lat R (nspike nff) ++ lat_args)] ckw nkw ;;
  (* update recurrent spikes *)
  nfb <- get_neuron L2 (r_fbn R) ;;
  match lookup (r_ffn R) zs1, lookup (r_fbn R) zs2 with
  | Some zff, Some zfb =>
      Ok (mkRecurrent L2 (Some (nspike nfb)) (r_ffc R) (r_latc R) (r_fbc R) (r_ffn R) (r_fbn R)
            (r_tr_ff R) (r_tr_lat R) (r_tr_fb R) (r_in_lat R) (r_in_fb R),
          ((zff, zfb), dmerge ys1 ys2))
  | _, _ => Err EKey
  end.
Definition r_with (R : recurrent) (L : layer) (fbs : option V) : recurrent :=
  mkRecurrent L fbs (r_ffc R) (r_latc R) (r_fbc R) (r_ffn R) (r_fbn R)
    (r_tr_ff R) (r_tr_lat R) (r_tr_fb R) (r_in_lat R) (r_in_fb R).
(* clear: network.py:1172-1192 *)
Definition recurrent_clear (clear_feedback submodules : bool) (xk : XK) (R : recurrent) : recurrent :=
  r_with R (layer_clear submodules xk (r_layer R)) (if clear_feedback then None else r_fbs R).

Inductive recurrent_op :=
| RFwd (xs lat_args fb_args : list V) (kff klat kfb : option CK) (nkff nkfb : option NK) (capture : bool)
| RClear (clear_feedback submodules : bool) (xk : XK)
| RLearnC (k : Z) (f : CS -> CS)
| RLearnN (k : Z) (f : NS -> NS).
Definition recurrent_step (R : recurrent) (o : recurrent_op)
  : res (recurrent * option ((V * V) * list (Z * V))) :=
  match o with
  | RFwd xs la fa kff klat kfb nkff nkfb _ =>
      '(R', out) <- recurrent_forward R xs la fa kff klat kfb nkff nkfb ;; Ok (R', Some out)
  | RClear cf sub xk => Ok (recurrent_clear cf sub xk R, None)
  | RLearnC k f => Ok (r_with R (layer_learn_c k f (r_layer R)) (r_fbs R), None)
  | RLearnN k f => Ok (r_with R (layer_learn_n k f (r_layer R)) (r_fbs R), None)
  end.

End Generic.

Arguments mkLayer {CS NS} conns neurs.
Arguments conns {CS NS} l.
Arguments neurs {CS NS} l.
Arguments SFwd {V CS NS CK NK XK} xs ckw nkw capture.
Arguments SClear {V CS NS CK NK XK} submodules xk.
Arguments SLearnC {V CS NS CK NK XK} f.
Arguments SLearnN {V CS NS CK NK XK} f.
Arguments BFwd {V CS NS CK NK XK} ins ckw nkw capture.
Arguments BClear {V CS NS CK NK XK} submodules xk.
Arguments BLearnC {V CS NS CK NK XK} k f.
Arguments BLearnN {V CS NS CK NK XK} k f.
Arguments RFwd {V CS NS CK NK XK} xs lat_args fb_args kff klat kfb nkff nkfb capture.
Arguments RClear {V CS NS CK NK XK} clear_feedback submodules xk.
Arguments RLearnC {V CS NS CK NK XK} k f.
Arguments RLearnN {V CS NS CK NK XK} k f.
Arguments mkSerial {V CS NS} s_layer s_cn s_nn s_tr.
Arguments s_layer {V CS NS} s.
Arguments s_cn {V CS NS} s.
Arguments s_nn {V CS NS} s.
Arguments s_tr {V CS NS} s.
Arguments mkBiclique {V CS NS} b_layer b_post b_pre b_combine.
Arguments b_layer {V CS NS} b.
Arguments b_post {V CS NS} b.
Arguments b_pre {V CS NS} b.
Arguments b_combine {V CS NS} b.
Arguments r_layer {V CS NS} r.
Arguments r_fbs {V CS NS} r.
Arguments r_ffc {V CS NS} r.
Arguments r_latc {V CS NS} r.
Arguments r_fbc {V CS NS} r.
Arguments r_ffn {V CS NS} r.
Arguments r_fbn {V CS NS} r.
Arguments r_tr_ff {V CS NS} r.
Arguments r_tr_lat {V CS NS} r.
Arguments r_tr_fb {V CS NS} r.
Arguments r_in_lat {V CS NS} r.
Arguments r_in_fb {V CS NS} r.
