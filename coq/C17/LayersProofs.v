(* Proofs about the generic layer model (C17/Layers.v) against the specifications of C17/LayersSpec.v.
   Everything here is generic in the component models and axiom-free. *)
From Coq Require Import List ZArith Bool Lia.
From Inferno Require Import C17.Layers C17.LayersSpec.
Import ListNotations.

(* ---------- dicts ---------- *)
Lemma lookup_update_same {A} k (a b : A) l : lookup k l = Some a -> lookup k (update k b l) = Some b.
Proof.
  induction l as [|[k' a'] t IH]; simpl; [discriminate|].
  destruct (Z.eqb k k') eqn:E; simpl; rewrite E; auto.
Qed.
Lemma lookup_update_other {A} k k' (b : A) l : k <> k' -> lookup k' (update k b l) = lookup k' l.
Proof.
  intros Hn. induction l as [|[k2 a2] t IH]; simpl; auto.
  destruct (Z.eqb k k2) eqn:E; simpl.
  - apply Z.eqb_eq in E. subst k2. destruct (Z.eqb k' k) eqn:E2; auto.
    apply Z.eqb_eq in E2. congruence.
  - destruct (Z.eqb k' k2); auto.
Qed.
Lemma keys_update {A} k (b : A) l : keys (update k b l) = keys l.
Proof.
  induction l as [|[k2 a2] t IH]; simpl; auto.
  destruct (Z.eqb k k2); simpl; auto. f_equal. exact IH.
Qed.
Lemma lookup_None_keys {A} k (l : list (Z * A)) : lookup k l = None <-> ~ In k (keys l).
Proof.
  induction l as [|[k2 a2] t IH]; simpl.
  - tauto.
  - destruct (Z.eqb k k2) eqn:E.
    + apply Z.eqb_eq in E. subst. split; [discriminate|]. intros H; exfalso; apply H; auto.
    + apply Z.eqb_neq in E. rewrite IH. split; intros H; [intros [H1|H1]; [congruence|auto]|auto].
Qed.
Lemma lookup_Some_In {A} k (a : A) l : lookup k l = Some a -> In (k, a) l.
Proof.
  induction l as [|[k2 a2] t IH]; simpl; [discriminate|].
  destruct (Z.eqb k k2) eqn:E.
  - apply Z.eqb_eq in E. subst. intros H; inversion H; auto.
  - auto.
Qed.
Lemma update_absent {A} k (b : A) l : ~ In k (keys l) -> update k b l = l.
Proof.
  induction l as [|[k2 a2] t IH]; simpl; auto.
  intros H. destruct (Z.eqb k k2) eqn:E.
  - apply Z.eqb_eq in E. subst. exfalso; auto.
  - f_equal. apply IH. auto.
Qed.

(* ---------- runs ---------- *)
Lemma bind_Ok {A B} (r : res A) (f : A -> res B) b :
  bind r f = Ok b -> exists a, r = Ok a /\ f a = Ok b.
Proof. destruct r; simpl; [eauto|discriminate]. Qed.

Lemma run_app {S Op O} (step : S -> Op -> res (S * O)) a b s :
  run step s (a ++ b) =
  ('(s1, o1) <- run step s a ;; '(s2, o2) <- run step s1 b ;; Ok (s2, o1 ++ o2)).
Proof.
  revert s. induction a as [|x a IH]; intros s; simpl.
  - destruct (run step s b) as [[s2 o2]|e]; simpl; auto.
  - destruct (step s x) as [[s' out]|e]; simpl; auto.
    rewrite IH. destruct (run step s' a) as [[s1 o1]|e]; simpl; auto.
    destruct (run step s1 b) as [[s2 o2]|e]; simpl; auto.
Qed.

(* a simulation between two step functions lifts to runs *)
Lemma run_sim {S1 S2 Op O} (step1 : S1 -> Op -> res (S1 * O)) (step2 : S2 -> Op -> res (S2 * O))
      (f : S2 -> S1) (P : S2 -> Prop) (Q : Op -> Prop) :
  (forall s o, P s -> Q o -> step1 (f s) o = rmap (fun p => (f (fst p), snd p)) (step2 s o)) ->
  (forall s o s' out, P s -> Q o -> step2 s o = Ok (s', out) -> P s') ->
  forall ops s, P s -> Forall Q ops ->
    run step1 (f s) ops = rmap (fun p => (f (fst p), snd p)) (run step2 s ops).
Proof.
  intros Hs Hp. induction ops as [|o tl IH]; intros s HP HQ; simpl; auto.
  inversion HQ; subst. rewrite Hs by auto.
  destruct (step2 s o) as [[s' out]|e] eqn:E; simpl; auto.
  rewrite IH; eauto. destruct (run step2 s' tl) as [[s'' outs]|e]; simpl; auto.
Qed.

(* an invariant preserved by every step holds after every run *)
Lemma run_inv {S Op O} (step : S -> Op -> res (S * O)) (P : S -> Prop) (Q : Op -> Prop) :
  (forall s o s' out, P s -> Q o -> step s o = Ok (s', out) -> P s') ->
  forall ops s s' outs, P s -> Forall Q ops -> run step s ops = Ok (s', outs) -> P s'.
Proof.
  intros Hp. induction ops as [|o tl IH]; intros s s' outs HP HQ; simpl.
  - intros H; inversion H; subst; auto.
  - inversion HQ; subst. destruct (step s o) as [[s1 out]|e] eqn:E; simpl; [|discriminate].
    destruct (run step s1 tl) as [[s2 outs2]|e] eqn:E2; simpl; [|discriminate].
    intros H; inversion H; subst. eapply (IH s1); eauto.
Qed.

Section Proofs.
Variables V CS NS CK NK XK : Type.
Variable ck0 : CK.
Variable nk0 : NK.
Variable cstep : CS -> CK -> list V -> res (CS * V).
Variable nstep : NS -> NK -> V -> res (NS * V).
Variable nspike : NS -> V.
Variable cclear : XK -> CS -> CS.
Variable nclear : XK -> NS -> NS.
Variable vzeros_like : V -> V.
Variable vadd : V -> V -> res V.
Variable compat : CS -> NS -> bool.

Local Notation lforward := (layer_forward V CS NS CK NK ck0 nk0 cstep nstep).
Local Notation sforward := (serial_forward V CS NS CK NK ck0 nk0 cstep nstep).
Local Notation sstep := (serial_step V CS NS CK NK XK ck0 nk0 cstep nstep cclear nclear).
Local Notation bforward := (biclique_forward V CS NS CK NK ck0 nk0 cstep nstep).
Local Notation bstep := (biclique_step V CS NS CK NK XK ck0 nk0 cstep nstep cclear nclear).
Local Notation rforward := (recurrent_forward V CS NS CK NK ck0 nk0 cstep nstep nspike vzeros_like vadd).
Local Notation rstep := (recurrent_step V CS NS CK NK XK ck0 nk0 cstep nstep nspike cclear nclear vzeros_like vadd).
Local Notation lclear := (layer_clear CS NS XK cclear nclear).
Local Notation ssforward := (sspec_forward V CS NS CK NK ck0 nk0 cstep nstep).
Local Notation ssstep := (sspec_step V CS NS CK NK XK ck0 nk0 cstep nstep cclear nclear).

(* ================= Serial ================= *)
Definition serial_of (tr : V -> V) (cn nn : Z) (s : CS * NS) : serial V CS NS :=
  mkSerial (mkLayer [(cn, fst s)] [(nn, snd s)]) cn nn tr.

Lemma getd_okw {A} k (o : option A) d : getd k (okw k o) d = kwo o d.
Proof. destruct o; unfold getd; simpl; rewrite ?Z.eqb_refl; auto. Qed.

(* serial_forward: the output of a serial layer is neuron(transform(connection(input))), whatever the
   names (also when connection and neuron share a name, as with the defaults) and keyword arguments *)
Theorem serial_forward_spec tr cn nn s xs ckw nkw :
  sforward (serial_of tr cn nn s) xs ckw nkw =
  rmap (fun p => (serial_of tr cn nn (fst p), snd p)) (ssforward tr s xs ckw nkw).
Proof.
  destruct s as [c n].
  unfold serial_forward, layer_forward, sspec_forward, serial_of; simpl.
  rewrite Z.eqb_refl. rewrite !getd_okw.
  destruct (cstep c (kwo ckw ck0) xs) as [[c' y]|e]; simpl; auto.
  unfold serial_wiring; simpl. rewrite !Z.eqb_refl; simpl. rewrite !Z.eqb_refl. rewrite ?getd_okw.
  destruct (nstep n (kwo nkw nk0) (tr y)) as [[n' z]|e]; simpl; auto.
  rewrite !Z.eqb_refl. reflexivity.
Qed.

Theorem serial_step_spec tr cn nn s o :
  sstep (serial_of tr cn nn s) o = rmap (fun p => (serial_of tr cn nn (fst p), snd p)) (ssstep tr s o).
Proof.
  destruct o as [xs ckw nkw cap|sub xk|f|f]; simpl.
  - rewrite serial_forward_spec. destruct (ssforward tr s xs ckw nkw) as [[s' out]|e]; simpl; auto.
  - destruct s as [c n]. destruct sub; reflexivity.
  - destruct s as [c n]. unfold serial_of, layer_learn_c; simpl. rewrite !Z.eqb_refl. reflexivity.
  - destruct s as [c n]. unfold serial_of, layer_learn_n; simpl. rewrite !Z.eqb_refl. reflexivity.
Qed.

(* for every operation sequence (forwards, clears and parameter assignments at any position) the serial layer
   behaves as the bare pair of components composed as documented *)
Theorem serial_run_spec tr cn nn ops s :
  run sstep (serial_of tr cn nn s) ops =
  rmap (fun p => (serial_of tr cn nn (fst p), snd p)) (run (ssstep tr) s ops).
Proof.
  apply (run_sim sstep (ssstep tr) (serial_of tr cn nn) (fun _ => True) (fun _ => True)); auto.
  - intros. apply serial_step_spec.
  - clear. induction ops; constructor; auto.
Qed.

(* a serial layer built by the constructor is of that form *)
Lemma serial_new_of c n tr cn nn S :
  serial_new V CS NS compat c n tr cn nn = Ok S ->
  S = serial_of (match tr with Some f => f | None => fun x => x end) cn nn (c, n) /\ compat c n = true.
Proof. unfold serial_new. destruct (compat c n); intros H; inversion H; auto. Qed.

(* stream form: the outputs of a run of forwards are the neuron's responses to the transformed responses of
   the connection to the input stream *)
Definition sfwd_of (i : list V * option CK * option NK * bool) : serial_op V CS NS CK NK XK :=
  SFwd (fst (fst (fst i))) (snd (fst (fst i))) (snd (fst i)) (snd i).
Theorem serial_stream tr items : forall c n c' n' outs,
  run (ssstep tr) (c, n) (map sfwd_of items) = Ok ((c', n'), outs) <->
  exists ys zs,
    run (cstep1 V CS CK ck0 cstep) c (map (fun i => (snd (fst (fst i)), fst (fst (fst i)))) items) = Ok (c', ys) /\
    run (nstep1 V NS NK nk0 nstep) n (combine (map (fun i => snd (fst i)) items) (map tr ys)) = Ok (n', zs) /\
    outs = map Some (combine zs ys).
Proof.
  induction items as [|[[[xs ckw] nkw] cap] tl IH]; intros c n c' n' outs; simpl.
  - split.
    + intros H; inversion H; subst. exists [], []; auto.
    + intros (ys & zs & H1 & H2 & H3). inversion H1; subst. simpl in H2. inversion H2; subst. reflexivity.
  - unfold sspec_forward, cstep1, nstep1; simpl.
    destruct (cstep c (kwo ckw ck0) xs) as [[c1 y]|e] eqn:Ec; simpl.
    2:{ split; [discriminate|]. intros (ys & zs & H1 & _). discriminate. }
    destruct (nstep n (kwo nkw nk0) (tr y)) as [[n1 z]|e] eqn:En; simpl.
    + specialize (IH c1 n1).
      destruct (run (ssstep tr) (c1, n1) (map sfwd_of tl)) as [[[c2 n2] outs2]|e] eqn:Er; simpl.
      * split.
        -- intros H; inversion H; subst.
           destruct (proj1 (IH c' n' outs2) eq_refl) as (ys & zs & H1 & H2 & H3).
           exists (y :: ys), (z :: zs). unfold cstep1 in H1. rewrite H1; simpl.
           rewrite En; simpl. unfold nstep1 in H2. rewrite H2; simpl. subst; auto.
        -- intros (ys & zs & H1 & H2 & H3).
           destruct (run _ c1 _) as [[c3 ys3]|e] eqn:E1 in H1; simpl in H1; [|discriminate].
           inversion H1; subst. simpl in H2. rewrite En in H2; simpl in H2.
           destruct (run _ n1 _) as [[n3 zs3]|e] eqn:E2 in H2; simpl in H2; [|discriminate].
           inversion H2; subst.
           assert (Hx : Ok (c2, n2, outs2) = Ok (c', n', map Some (combine zs3 ys3))).
           { apply IH. exists ys3, zs3; auto. }
           inversion Hx; subst. reflexivity.
      * split; [discriminate|].
        intros (ys & zs & H1 & H2 & H3).
        destruct (run _ c1 _) as [[c3 ys3]|e2] eqn:E1 in H1; simpl in H1; [|discriminate].
        inversion H1; subst. simpl in H2. rewrite En in H2; simpl in H2.
        destruct (run _ n1 _) as [[n3 zs3]|e2] eqn:E2 in H2; simpl in H2; [|discriminate].
        inversion H2; subst.
        assert (Hx : @Err (CS * NS * list (option (V * V))) e = Ok (c', n', map Some (combine zs3 ys3))).
        { apply IH. exists ys3, zs3; auto. }
        discriminate.
    + split; [discriminate|].
      intros (ys & zs & H1 & H2 & H3).
      destruct (run _ c1 _) as [[c3 ys3]|e2] eqn:E1 in H1; simpl in H1; [|discriminate].
      inversion H1; subst. simpl in H2. rewrite En in H2. discriminate.
Qed.


(* ================= Biclique ================= *)
(* modules stepped through a dict of inputs: the sequential in-place semantics of the code (run_mods) against the
   parallel "every named module steps once from the state it had" semantics (par_mods) *)
Section Mods.
Context {S I : Type}.
Variable st : Z -> S -> I -> res (S * V).
Fixpoint run_mods (ms : list (Z * S)) (ins : list (Z * I)) : res (list (Z * S) * list (Z * V)) :=
  match ins with
  | [] => Ok (ms, [])
  | (k, x) :: tl =>
      match lookup k ms with
      | None => Err EKey
      | Some m =>
          '(m', y) <- st k m x ;;
          '(ms', ys) <- run_mods (update k m' ms) tl ;;
          Ok (ms', (k, y) :: ys)
      end
  end.
Fixpoint par_mods (ms : list (Z * S)) (ins : list (Z * I)) : res (list (Z * (S * V))) :=
  match ins with
  | [] => Ok []
  | (k, x) :: tl =>
      match lookup k ms with
      | None => Err EKey
      | Some m => r <- st k m x ;; rs <- par_mods ms tl ;; Ok ((k, r) :: rs)
      end
  end.
Lemma par_mods_update_irrel k m' ins : forall ms,
  ~ In k (keys ins) -> par_mods (update k m' ms) ins = par_mods ms ins.
Proof.
  induction ins as [|[k2 x] tl IH]; intros ms Hn; simpl; auto.
  simpl in Hn. rewrite lookup_update_other by (intros ->; apply Hn; auto).
  destruct (lookup k2 ms) as [s|]; auto. destruct (st k2 s x); simpl; auto.
  rewrite IH by (intros H; apply Hn; auto). reflexivity.
Qed.
Lemma par_mods_keys ins : forall ms rs, par_mods ms ins = Ok rs -> keys rs = keys ins.
Proof.
  induction ins as [|[k x] tl IH]; intros ms rs; simpl.
  - intros H; inversion H; auto.
  - destruct (lookup k ms) as [s|]; [|discriminate]. destruct (st k s x); simpl; [|discriminate].
    destruct (par_mods ms tl) eqn:E; simpl; [|discriminate].
    intros H; inversion H; subst. simpl. f_equal. eapply IH; eauto.
Qed.
Lemma apply_new_cons_absent k (r : S * V) rs (ms : list (Z * S)) :
  ~ In k (keys ms) -> apply_new V ms ((k, r) :: rs) = apply_new V ms rs.
Proof.
  induction ms as [|[k2 m2] t IH]; simpl; auto.
  intros Hn. destruct (Z.eqb k2 k) eqn:E.
  - apply Z.eqb_eq in E. subst. exfalso; apply Hn; auto.
  - f_equal. apply IH. auto.
Qed.
Lemma apply_new_update k (m m' : S) (y : V) (rs : list (Z * (S * V))) : forall ms,
  NoDup (keys ms) -> ~ In k (keys rs) -> lookup k ms = Some m ->
  apply_new V (update k m' ms) rs = apply_new V ms ((k, (m', y)) :: rs).
Proof.
  induction ms as [|[k2 m2] t IH]; simpl; [discriminate|].
  intros Hnd Hn Hl. inversion Hnd as [|? ? Hni Hnd']; subst.
  destruct (Z.eqb k k2) eqn:E.
  - apply Z.eqb_eq in E. subst k2. unfold apply_new at 1 2. simpl. rewrite Z.eqb_refl. simpl.
    replace (lookup k rs) with (@None (S * V)) by (symmetry; apply lookup_None_keys; auto).
    f_equal. fold (apply_new V t rs). fold (apply_new V t ((k, (m', y)) :: rs)).
    symmetry. apply apply_new_cons_absent. auto.
  - unfold apply_new at 1 2. simpl. rewrite Z.eqb_sym, E. f_equal.
    apply IH; auto.
Qed.
Lemma apply_new_nil (ms : list (Z * S)) : apply_new V ms [] = ms.
Proof. induction ms as [|[k m] t IH]; simpl; auto. unfold apply_new in *. simpl. f_equal. exact IH. Qed.
Lemma keys_apply_new (ms : list (Z * S)) rs : keys (apply_new V ms rs) = keys ms.
Proof. unfold apply_new, keys. rewrite map_map. reflexivity. Qed.

Theorem run_mods_par ins : forall ms,
  NoDup (keys ins) -> NoDup (keys ms) ->
  run_mods ms ins = (rs <- par_mods ms ins ;; Ok (apply_new V ms rs, outs_of V rs)).
Proof.
  induction ins as [|[k x] tl IH]; intros ms Hi Hm; simpl.
  - rewrite apply_new_nil. reflexivity.
  - inversion Hi as [|? ? Hni Hi']; subst.
    destruct (lookup k ms) as [m|] eqn:El; auto.
    destruct (st k m x) as [[m' y]|e]; simpl; auto.
    rewrite IH by (auto; rewrite keys_update; auto).
    rewrite par_mods_update_irrel by auto.
    destruct (par_mods ms tl) as [rs|e] eqn:Ep; simpl; auto.
    rewrite (apply_new_update k m m' y rs ms); auto.
    rewrite (par_mods_keys _ _ _ Ep). auto.
Qed.
End Mods.

Lemma run_conns_mods ckw ins : forall cs,
  run_conns V CS CK ck0 cstep cs ckw ins = run_mods (fun k c x => cstep c (getd k ckw ck0) x) cs ins.
Proof.
  induction ins as [|[k x] tl IH]; intros cs; simpl; auto.
  destruct (lookup k cs) as [s|]; auto. destruct (cstep s (getd k ckw ck0) x) as [[c' y]|e]; simpl; auto.
  rewrite IH. reflexivity.
Qed.
Lemma run_neurs_mods nkw ws : forall ns,
  run_neurs V NS NK nk0 nstep ns nkw ws = run_mods (fun k n w => nstep n (getd k nkw nk0) w) ns ws.
Proof.
  induction ws as [|[k x] tl IH]; intros ns; simpl; auto.
  destruct (lookup k ns) as [s|]; auto. destruct (nstep s (getd k nkw nk0) x) as [[c' y]|e]; simpl; auto.
  rewrite IH. reflexivity.
Qed.
Lemma par_conns_mods ckw ins cs :
  par_conns V CS CK ck0 cstep cs ckw ins = par_mods (fun k c x => cstep c (getd k ckw ck0) x) cs ins.
Proof.
  induction ins as [|[k x] tl IH]; simpl; auto.
  destruct (lookup k cs) as [s|]; auto. destruct (cstep s (getd k ckw ck0) x); simpl; auto. rewrite IH. reflexivity.
Qed.
Lemma par_neurs_mods nkw ws ns :
  par_neurs V NS NK nk0 nstep ns nkw ws = par_mods (fun k n w => nstep n (getd k nkw nk0) w) ns ws.
Proof.
  induction ws as [|[k x] tl IH]; simpl; auto.
  destruct (lookup k ns) as [s|]; auto. destruct (nstep s (getd k nkw nk0) x); simpl; auto. rewrite IH. reflexivity.
Qed.

(* wiring: the combination is formed once from all transformed connection outputs and every neuron group gets its
   own transform of it *)
Lemma biclique_wiring_spec Bq ys :
  biclique_wiring V CS NS Bq ys = bspec_wiring V CS NS Bq ys.
Proof.
  unfold biclique_wiring, bspec_wiring.
  generalize (b_pre Bq) as pre. induction pre as [|[k f] t IH]; simpl; auto.
  destruct (post_all V (b_post Bq) ys) as [ts|e] eqn:Ep; simpl; auto.
  destruct (b_combine Bq ts) as [u|e] eqn:Ec; simpl; auto.
  rewrite IH. destruct t as [|p t']; simpl; auto.
  rewrite Ec; simpl. reflexivity.
Qed.
Lemma bspec_wiring_keys Bq ys ws : bspec_wiring V CS NS Bq ys = Ok ws -> keys ws = keys (b_pre Bq).
Proof.
  unfold bspec_wiring. destruct (b_pre Bq) as [|p t] eqn:E.
  - intros H; inversion H; auto.
  - destruct (post_all V (b_post Bq) ys) as [l|]; simpl; [|discriminate].
    destruct (b_combine Bq l); simpl; [|discriminate].
    intros H; inversion H. unfold keys. simpl. rewrite map_map. reflexivity.
Qed.

Definition b_wf (Bq : biclique V CS NS) : Prop :=
  NoDup (keys (conns (b_layer Bq))) /\ NoDup (keys (neurs (b_layer Bq))) /\ NoDup (keys (b_pre Bq)).

(* biclique_forward: for any dict of inputs (any subset of the connections, in any order), keyword arguments and
   combine function, Layer.forward on a Biclique computes the parallel specification - including which exception is
   raised when one is *)
Theorem biclique_forward_spec Bq ins ckw nkw :
  b_wf Bq -> NoDup (keys ins) ->
  bforward Bq ins ckw nkw = bspec_forward V CS NS CK NK ck0 nk0 cstep nstep Bq ins ckw nkw.
Proof.
  intros (Hc & Hn & Hp) Hi.
  unfold biclique_forward, layer_forward, bspec_forward.
  rewrite run_conns_mods, run_mods_par, <- par_conns_mods by auto.
  destruct (par_conns V CS CK ck0 cstep (conns (b_layer Bq)) ckw ins) as [rs|e]; simpl; auto.
  rewrite biclique_wiring_spec.
  destruct (bspec_wiring V CS NS Bq (outs_of V rs)) as [ws|e] eqn:Ew; simpl; auto.
  rewrite run_neurs_mods, run_mods_par, <- par_neurs_mods; auto.
  - destruct (par_neurs V NS NK nk0 nstep (neurs (b_layer Bq)) nkw ws) as [ns|e]; simpl; auto.
  - rewrite (bspec_wiring_keys _ _ _ Ew). auto.
Qed.



(* the biclique invariant (distinct names) is established by the constructor and kept by every operation, so the
   parallel specification describes whole runs *)
Lemma mem_In k l : mem k l = true <-> In k l.
Proof.
  unfold mem. rewrite existsb_exists. split.
  - intros (x & Hx & E). apply Z.eqb_eq in E. subst; auto.
  - intros H. exists k. split; auto. apply Z.eqb_refl.
Qed.
Lemma NoDup_snoc (l : list Z) k : NoDup l -> ~ In k l -> NoDup (l ++ [k]).
Proof.
  induction l as [|x t IH]; simpl; intros Hn Hk.
  - constructor; [intros []|constructor].
  - inversion Hn; subst. constructor.
    + rewrite in_app_iff. simpl. intros [H|[H|[]]]; auto.
    + apply IH; auto.
Qed.
Lemma add_all_nodup {A} (l : list (Z * A * option (V -> V))) : forall acc r,
  add_all V l acc = Ok r -> NoDup (keys acc) -> NoDup (keys r).
Proof.
  induction l as [|[[k a] t] tl IH]; intros acc r; simpl.
  - intros H; inversion H; subst; auto.
  - destruct (mem k (keys acc)) eqn:E; [discriminate|]. intros H Hn. apply (IH _ _ H).
    unfold keys. rewrite map_app. simpl. apply NoDup_snoc; auto.
    intros Hx. apply mem_In in Hx. unfold keys in E. congruence.
Qed.
Lemma dset_keys_in {A} k (a : A) l x : In x (keys (dset k a l)) <-> x = k \/ In x (keys l).
Proof.
  induction l as [|[k2 a2] t IH]; simpl.
  - intuition.
  - destruct (Z.eqb k k2) eqn:E; simpl.
    + apply Z.eqb_eq in E. subst. intuition.
    + rewrite IH. intuition.
Qed.
Lemma dset_nodup {A} k (a : A) l : NoDup (keys l) -> NoDup (keys (dset k a l)).
Proof.
  induction l as [|[k2 a2] t IH]; simpl; intros Hn.
  - constructor; [intros []|constructor].
  - inversion Hn; subst. destruct (Z.eqb k k2) eqn:E; simpl.
    + constructor; auto.
    + constructor; auto. rewrite dset_keys_in. apply Z.eqb_neq in E. intros [H|H]; [congruence|auto].
Qed.
Lemma trs_of_nodup {A} (l : list (Z * A * option (V -> V))) : NoDup (keys (trs_of V l)).
Proof.
  unfold trs_of.
  assert (G : forall (acc : list (Z * (V -> V))), NoDup (keys acc) ->
              NoDup (keys (fold_left (fun acc p => dset (fst (fst p)) (otr V (snd p)) acc) l acc))).
  { induction l as [|p tl IH]; intros acc Ha; simpl; auto. apply IH. apply dset_nodup; auto. }
  apply G. constructor.
Qed.
Theorem biclique_new_wf cs ns combine Bq :
  biclique_new V CS NS compat cs ns combine = Ok Bq -> b_wf Bq.
Proof.
  unfold biclique_new. destruct cs as [|c cs']; [discriminate|]. destruct ns as [|n ns']; [discriminate|].
  remember (c :: cs') as cs. remember (n :: ns') as ns.
  destruct (add_all V cs []) as [cl|e] eqn:E1; [|discriminate].
  destruct (add_all V ns []) as [nl|e] eqn:E2; [|discriminate].
  unfold bind. destruct (forallb _ cl); [|discriminate].
  intros H; inversion H; subst Bq. unfold b_wf; simpl.
  split; [|split].
  - eapply add_all_nodup; eauto. constructor.
  - eapply add_all_nodup; eauto. constructor.
  - apply trs_of_nodup.
Qed.
Lemma run_mods_keys {S I} (st : Z -> S -> I -> res (S * V)) ins : forall ms ms' ys,
  run_mods st ms ins = Ok (ms', ys) -> keys ms' = keys ms.
Proof.
  induction ins as [|[k x] tl IH]; intros ms ms' ys; simpl.
  - intros H; inversion H; auto.
  - destruct (lookup k ms) as [m|]; [|discriminate].
    destruct (st k m x) as [[m' y]|e]; simpl; [|discriminate].
    destruct (run_mods st (update k m' ms) tl) as [[ms2 ys2]|e] eqn:E; simpl; [|discriminate].
    intros H; inversion H; subst. rewrite (IH _ _ _ E). apply keys_update.
Qed.
Lemma layer_forward_keys wiring L ins ckw nkw L' out :
  lforward wiring L ins ckw nkw = Ok (L', out) ->
  keys (conns L') = keys (conns L) /\ keys (neurs L') = keys (neurs L).
Proof.
  unfold layer_forward. rewrite run_conns_mods.
  destruct (run_mods _ (conns L) ins) as [[cs' ys]|e] eqn:E1; simpl; [|discriminate].
  destruct (wiring ys) as [ws|e]; simpl; [|discriminate]. rewrite run_neurs_mods.
  destruct (run_mods _ (neurs L) ws) as [[ns' zs]|e] eqn:E2; simpl; [|discriminate].
  intros H; inversion H; subst; simpl. split; eapply run_mods_keys; eauto.
Qed.
Lemma keys_map_snd {A B} (f : Z * A -> Z * B) l : (forall p, fst (f p) = fst p) -> keys (map f l) = keys l.
Proof. intros Hf. unfold keys. rewrite map_map. apply map_ext. auto. Qed.
Lemma biclique_step_wf Bq o B' out : b_wf Bq -> bstep Bq o = Ok (B', out) -> b_wf B'.
Proof.
  intros (Hc & Hn & Hp). destruct o as [ins ckw nkw cap|sub xk|k f|k f]; simpl.
  - unfold biclique_forward. destruct (lforward _ _ _ _ _) as [[L' o]|e] eqn:E; simpl; [|discriminate].
    intros H; inversion H; subst. destruct (layer_forward_keys _ _ _ _ _ _ _ E) as [K1 K2].
    unfold b_wf; simpl. rewrite K1, K2. auto.
  - intros H; inversion H; subst. unfold b_wf; simpl. destruct sub; simpl; auto.
    rewrite !keys_map_snd by auto. auto.
  - intros H; inversion H; subst. unfold b_wf, layer_learn_c; simpl.
    destruct (lookup k (conns (b_layer Bq))); simpl; auto. rewrite keys_update. auto.
  - intros H; inversion H; subst. unfold b_wf, layer_learn_n; simpl.
    destruct (lookup k (neurs (b_layer Bq))); simpl; auto. rewrite keys_update. auto.
Qed.
Definition bop_nodup (o : biclique_op V CS NS CK NK XK) : Prop :=
  match o with BFwd ins _ _ _ => NoDup (keys ins) | _ => True end.
Local Notation bsstep := (bspec_step V CS NS CK NK XK ck0 nk0 cstep nstep cclear nclear).
(* biclique_forward over whole runs (the inputs are python dicts: their keys are distinct) *)
Theorem biclique_run_spec ops Bq :
  b_wf Bq -> Forall bop_nodup ops -> run bstep Bq ops = run bsstep Bq ops.
Proof.
  intros Hw Ho.
  assert (Hs : forall s o, b_wf s -> bop_nodup o -> bstep s o = bsstep s o).
  { intros s o Hws Hos. destruct o; simpl; auto. rewrite biclique_forward_spec; auto. }
  rewrite (run_sim bstep bsstep (fun x => x) b_wf bop_nodup); auto.
  - destruct (run bsstep Bq ops) as [[B' outs]|e]; reflexivity.
  - intros s o H1 H2. rewrite Hs by auto. destruct (bsstep s o) as [[B' out]|e]; reflexivity.
  - intros s o s' out H1 H2 H3. rewrite <- Hs in H3 by auto. eapply biclique_step_wf; eauto.
Qed.


(* a Biclique produced by the constructor, any dict of inputs *)
Theorem biclique_constructed_forward cs ns combine Bq ins ckw nkw :
  biclique_new V CS NS compat cs ns combine = Ok Bq -> NoDup (keys ins) ->
  bforward Bq ins ckw nkw = bspec_forward V CS NS CK NK ck0 nk0 cstep nstep Bq ins ckw nkw.
Proof. intros H Hi. apply biclique_forward_spec; auto. eapply biclique_new_wf; eauto. Qed.


(* what the constructor registers: the given modules, in the given order *)
Lemma add_all_spec {A} (l : list (Z * A * option (V -> V))) : forall acc r,
  add_all V l acc = Ok r -> r = acc ++ map (fun p => (fst (fst p), snd (fst p))) l.
Proof.
  induction l as [|[[k a] t] tl IH]; intros acc r; simpl.
  - intros H; inversion H; subst. rewrite app_nil_r. reflexivity.
  - destruct (mem k (keys acc)); [discriminate|]. intros H. rewrite (IH _ _ H), <- app_assoc. reflexivity.
Qed.
Lemma biclique_new_layer cs ns combine Bq :
  biclique_new V CS NS compat cs ns combine = Ok Bq ->
  conns (b_layer Bq) = map (fun p => (fst (fst p), snd (fst p))) cs /\
  neurs (b_layer Bq) = map (fun p => (fst (fst p), snd (fst p))) ns.
Proof.
  unfold biclique_new. destruct cs as [|c cs']; [discriminate|]. destruct ns as [|n ns']; [discriminate|].
  remember (c :: cs') as cs. remember (n :: ns') as ns.
  destruct (add_all V cs []) as [cl|e] eqn:E1; [|discriminate].
  destruct (add_all V ns []) as [nl|e] eqn:E2; [|discriminate].
  unfold bind. destruct (forallb _ cl); [|discriminate].
  intros H; inversion H; subst Bq. simpl.
  rewrite (add_all_spec _ _ _ E1), (add_all_spec _ _ _ E2). auto.
Qed.

(* ================= output shapes ================= *)
Section Shapes.
Variable Sh : Type.
Variable vshape : V -> Sh.          (* shape of a tensor *)
Variable nbshape : NS -> Sh.        (* batched shape of a neuron group *)
Hypothesis Hn_shape : forall n kw x n' z, nstep n kw x = Ok (n', z) -> vshape z = nbshape n /\ nbshape n' = nbshape n.

Definition shape_at (ns : list (Z * NS)) (k : Z) : option Sh := option_map nbshape (lookup k ns).
Lemma shape_at_update ns k n n' k' :
  lookup k ns = Some n -> nbshape n' = nbshape n -> shape_at (update k n' ns) k' = shape_at ns k'.
Proof.
  intros Hl Hs. unfold shape_at. destruct (Z.eq_dec k k') as [->|Hne].
  - rewrite (lookup_update_same _ _ _ _ Hl), Hl. simpl. congruence.
  - rewrite lookup_update_other; auto.
Qed.
Lemma run_neurs_shapes nkw ws : forall ns ns' zs,
  run_neurs V NS NK nk0 nstep ns nkw ws = Ok (ns', zs) ->
  Forall (fun p => shape_at ns (fst p) = Some (vshape (snd p))) zs /\ forall k, shape_at ns' k = shape_at ns k.
Proof.
  induction ws as [|[k w] tl IH]; intros ns ns' zs; simpl.
  - intros H; inversion H; subst; auto.
  - destruct (lookup k ns) as [n|] eqn:El; [|discriminate].
    destruct (nstep n (getd k nkw nk0) w) as [[n' z]|e] eqn:Es; simpl; [|discriminate].
    destruct (run_neurs V NS NK nk0 nstep (update k n' ns) nkw tl) as [[ns2 zs2]|e] eqn:Er; simpl; [|discriminate].
    intros H; inversion H; subst. destruct (Hn_shape _ _ _ _ _ Es) as [S1 S2].
    destruct (IH _ _ _ Er) as [F K]. split.
    + constructor.
      * simpl. unfold shape_at. rewrite El. simpl. congruence.
      * eapply Forall_impl; [|exact F]. intros p Hp. rewrite <- Hp. symmetry. eapply shape_at_update; eauto.
    + intros k'. rewrite K. eapply shape_at_update; eauto.
Qed.
(* output_shapes: whatever the wiring, every output of Layer.forward has the batched shape of the neuron group it is
   named after, and the groups keep their shapes *)
Theorem layer_output_shapes wiring L ins ckw nkw L' zs ys :
  lforward wiring L ins ckw nkw = Ok (L', (zs, ys)) ->
  Forall (fun p => shape_at (neurs L) (fst p) = Some (vshape (snd p))) zs /\
  forall k, shape_at (neurs L') k = shape_at (neurs L) k.
Proof.
  unfold layer_forward.
  destruct (run_conns _ _ _ _ _ _ _ _) as [[cs' ys']|e]; simpl; [|discriminate].
  destruct (wiring ys') as [ws|e]; simpl; [|discriminate].
  destruct (run_neurs V NS NK nk0 nstep (neurs L) nkw ws) as [[ns' zs']|e] eqn:E; simpl; [|discriminate].
  intros H; inversion H; subst. simpl. eapply run_neurs_shapes; eauto.
Qed.
Lemma Forall_lookup {A} (P : Z * A -> Prop) k a l : Forall P l -> lookup k l = Some a -> P (k, a).
Proof. intros Hl H. rewrite Forall_forall in Hl. apply Hl. apply lookup_Some_In; auto. Qed.
Theorem serial_output_shape S xs ckw nkw S' z y :
  sforward S xs ckw nkw = Ok (S', (z, y)) ->
  shape_at (neurs (s_layer S)) (s_nn S) = Some (vshape z).
Proof.
  unfold serial_forward.
  destruct (lforward _ _ _ _ _) as [[L' [zs ys]]|e] eqn:E; simpl; [|discriminate].
  destruct (lookup (s_nn S) zs) as [z0|] eqn:E1; [|discriminate].
  destruct (lookup (s_cn S) ys); [|discriminate].
  intros H; inversion H; subst. destruct (layer_output_shapes _ _ _ _ _ _ _ _ E) as [F _].
  apply (Forall_lookup _ _ _ _ F E1).
Qed.
Theorem biclique_output_shapes Bq ins ckw nkw B' zs ys :
  bforward Bq ins ckw nkw = Ok (B', (zs, ys)) ->
  Forall (fun p => shape_at (neurs (b_layer Bq)) (fst p) = Some (vshape (snd p))) zs.
Proof.
  unfold biclique_forward.
  destruct (lforward _ _ _ _ _) as [[L' [zs' ys']]|e] eqn:E; simpl; [|discriminate].
  intros H; inversion H; subst. eapply layer_output_shapes; eauto.
Qed.
Theorem recurrent_output_shapes R xs la fa kff klat kfb nkff nkfb R' zff zfb ys :
  rforward R xs la fa kff klat kfb nkff nkfb = Ok (R', ((zff, zfb), ys)) ->
  shape_at (neurs (r_layer R)) (r_ffn R) = Some (vshape zff) /\
  shape_at (neurs (r_layer R)) (r_fbn R) = Some (vshape zfb).
Proof.
  unfold recurrent_forward.
  destruct (match r_fbs R with Some v => Ok v | None => _ end) as [fbs|e]; simpl; [|discriminate].
  destruct (lforward _ _ _ _ _) as [[L1 [zs1 ys1]]|e] eqn:E1; simpl; [|discriminate].
  destruct (get_neuron CS NS L1 (r_ffn R)) as [nff|e]; simpl; [|discriminate].
  destruct (lforward _ L1 _ _ _) as [[L2 [zs2 ys2]]|e] eqn:E2; simpl; [|discriminate].
  destruct (get_neuron CS NS L2 (r_fbn R)) as [nfb|e]; simpl; [|discriminate].
  destruct (lookup (r_ffn R) zs1) as [z1|] eqn:K1; [|discriminate].
  destruct (lookup (r_fbn R) zs2) as [z2|] eqn:K2; [|discriminate].
  intros H; inversion H; subst.
  destruct (layer_output_shapes _ _ _ _ _ _ _ _ E1) as [F1 S1].
  destruct (layer_output_shapes _ _ _ _ _ _ _ _ E2) as [F2 S2].
  split.
  - apply (Forall_lookup _ _ _ _ F1 K1).
  - rewrite <- S1. apply (Forall_lookup _ _ _ _ F2 K2).
Qed.
End Shapes.

(* ================= RecurrentSerial ================= *)
Local Notation rsforward := (rspec_forward V CS NS CK NK ck0 nk0 cstep nstep nspike vzeros_like vadd).
Local Notation rsstep := (rspec_step V CS NS CK NK XK ck0 nk0 cstep nstep nspike cclear nclear vzeros_like vadd).
Local Notation r_of := (r_of V CS NS).

Lemma neq_eqb a b : a <> b -> Z.eqb a b = false /\ Z.eqb b a = false.
Proof. intros H; split; apply Z.eqb_neq; auto. Qed.

Ltac names R Hn :=
  destruct Hn as (Hn1 & Hn2 & Hn3 & Hn4);
  destruct (neq_eqb _ _ Hn1) as [E1 E1'];
  destruct (neq_eqb _ _ Hn2) as [E2 E2'];
  destruct (neq_eqb _ _ Hn3) as [E3 E3'];
  destruct (neq_eqb _ _ Hn4) as [E4 E4'].
Ltac ez := repeat (simpl; rewrite ?Z.eqb_refl;
                   repeat match goal with H : (_ =? _)%Z = false |- _ => rewrite H end).

(* recurrent_forward, as coded: through the two Layer.forward passes, the name lookups and the kwargs dicts, the
   layer computes exactly: feed-forward drive = tr_ff(C_ff(x)) + tr_fb(C_fb(in_fb(stored feedback spikes, zeros
   when there are none))), then C_lat on the feed-forward group's spike attribute, then the feedback group *)
Theorem recurrent_forward_spec R q xs la fa kff klat kfb nkff nkfb :
  r_names_ok V CS NS R ->
  rforward (r_of R q) xs la fa kff klat kfb nkff nkfb =
  rmap (fun p => (r_of R (fst p), snd p)) (rsforward true R q xs la fa kff klat kfb nkff nkfb).
Proof.
  intros Hn. names R Hn.
  destruct q as [cff clat cfb nff nfb prev].
  unfold recurrent_forward, rspec_forward, LayersSpec.r_of, r_with, get_neuron, layer_forward. ez.
  assert (Gff : getd (r_ffc R) (okw (r_fbc R) kfb ++ okw (r_latc R) klat ++ okw (r_ffc R) kff) ck0 = kwo kff ck0).
  { unfold getd. destruct kfb, klat, kff; ez; auto. }
  assert (Gfb : getd (r_fbc R) (okw (r_fbc R) kfb ++ okw (r_latc R) klat ++ okw (r_ffc R) kff) ck0 = kwo kfb ck0).
  { unfold getd. destruct kfb, klat, kff; ez; auto. }
  assert (Glat : getd (r_latc R) (okw (r_fbc R) kfb ++ okw (r_latc R) klat ++ okw (r_ffc R) kff) ck0 = kwo klat ck0).
  { unfold getd. destruct kfb, klat, kff; ez; auto. }
  assert (Nff : getd (r_ffn R) (okw (r_fbn R) nkfb ++ okw (r_ffn R) nkff) nk0 = kwo nkff nk0).
  { unfold getd. destruct nkfb, nkff; ez; auto. }
  assert (Nfb : getd (r_fbn R) (okw (r_fbn R) nkfb ++ okw (r_ffn R) nkff) nk0 = kwo nkfb nk0).
  { unfold getd. destruct nkfb, nkff; ez; auto. }
  set (fb := match prev with Some v => v | None => vzeros_like (nspike nfb) end).
  assert (Hfb : (match prev with
                 | Some v => Ok v
                 | None => Ok (vzeros_like (nspike nfb))
                 end) = Ok fb) by (unfold fb; destruct prev; auto).
  rewrite Hfb. ez. rewrite Gff.
  destruct (cstep cff (kwo kff ck0) xs) as [[cff' yff]|e]; ez; auto.
  rewrite Gfb.
  destruct (cstep cfb (kwo kfb ck0) (r_in_fb R fb ++ fa)) as [[cfb' yfb]|e]; ez; auto.
  unfold recurrent_wiring. ez.
  destruct (vadd (r_tr_ff R yff) (r_tr_fb R yfb)) as [d|e]; ez; auto.
  rewrite Nff.
  destruct (nstep nff (kwo nkff nk0) d) as [[nff' zff]|e]; ez; auto.
  rewrite Glat.
  destruct (cstep clat (kwo klat ck0) (r_in_lat R (nspike nff') ++ la)) as [[clat' ylat]|e]; ez; auto.
  rewrite Nfb.
  destruct (nstep nfb (kwo nkfb nk0) (r_tr_lat R ylat)) as [[nfb' zfb]|e]; ez; auto.
Qed.


Theorem recurrent_step_spec R q o :
  r_names_ok V CS NS R ->
  rstep (r_of R q) o = rmap (fun p => (r_of R (fst p), snd p)) (rsstep true R q o).
Proof.
  intros Hn. destruct o as [xs la fa kff klat kfb nkff nkfb cap|cf sub xk|k f|k f]; simpl.
  - rewrite recurrent_forward_spec by auto.
    destruct (rsforward true R q xs la fa kff klat kfb nkff nkfb) as [[q' out]|e]; simpl; auto.
  - destruct q as [cff clat cfb nff nfb prev]. destruct sub, cf; reflexivity.
  - names R Hn. destruct q as [cff clat cfb nff nfb prev].
    unfold learn_rc, layer_learn_c, LayersSpec.r_of, r_with. simpl.
    destruct (Z.eqb k (r_ffc R)) eqn:K1; simpl.
    { reflexivity. }
    destruct (Z.eqb k (r_latc R)) eqn:K2; simpl.
    { reflexivity. }
    destruct (Z.eqb k (r_fbc R)) eqn:K3; simpl.
    { reflexivity. }
    reflexivity.
  - names R Hn. destruct q as [cff clat cfb nff nfb prev].
    unfold learn_rn, layer_learn_n, LayersSpec.r_of, r_with. simpl.
    destruct (Z.eqb k (r_ffn R)) eqn:K1; simpl.
    { reflexivity. }
    destruct (Z.eqb k (r_fbn R)) eqn:K2; simpl.
    { reflexivity. }
    reflexivity.
Qed.

(* for every operation sequence the recurrent layer object behaves as the bare five components wired as coded *)
Theorem recurrent_run_spec R ops q :
  r_names_ok V CS NS R ->
  run rstep (r_of R q) ops = rmap (fun p => (r_of R (fst p), snd p)) (run (rsstep true R) q ops).
Proof.
  intros Hn.
  apply (run_sim rstep (rsstep true R) (r_of R) (fun _ => True) (fun _ => True)); auto.
  - intros. apply recurrent_step_spec; auto.
  - clear. induction ops; constructor; auto.
Qed.

(* a recurrent layer built by the constructor is of that form, starts without feedback spikes and has distinct names *)
Lemma recurrent_new_of cff clat cfb nff nfb tff tlat tfb ilat ifb ffc latc fbc ffn fbn tf R :
  recurrent_new V CS NS compat cff clat cfb nff nfb tff tlat tfb ilat ifb ffc latc fbc ffn fbn tf = Ok R ->
  r_names_ok V CS NS R /\ R = r_of R (mkRstate V CS NS cff clat cfb nff nfb None) /\ compat cff nff = true.
Proof.
  unfold recurrent_new.
  destruct (Z.eqb latc ffc) eqn:E1; simpl; [discriminate|].
  destruct (Z.eqb fbc ffc) eqn:E2; simpl; [discriminate|].
  destruct (Z.eqb fbc latc) eqn:E3; simpl; [discriminate|].
  destruct (Z.eqb fbn ffn) eqn:E4; simpl; [discriminate|].
  destruct (compat cff nff); simpl; [|discriminate].
  destruct (tf && negb (compat clat nfb && compat cfb nff)); [discriminate|].
  intros H; inversion H; subst; clear H. unfold r_names_ok; simpl.
  apply Z.eqb_neq in E1, E2, E3, E4. repeat split; auto.
Qed.

(* ---- the documented reading: the feedback drive is the feedback group's OUTPUT of the previous step (none on
   the first step and after clear(clear_feedback)), the lateral drive is the feed-forward group's output of the
   same step.  It coincides with the code whenever the neurons' spike attribute equals the spikes they last
   returned (hypothesis Hspk; proved for LIF/ALIF with refrac_t > 0 in ComponentsProofs, REFUTED for
   refrac_t = 0 there). *)
Section Documented.
Variable NIs : NS -> Prop.
Hypothesis Hspk : forall n kw x n' z, NIs n -> nstep n kw x = Ok (n', z) -> nspike n' = z /\ NIs n'.
Hypothesis Hclr : forall xk n, NIs n -> NIs (nclear xk n).

Definition q_ok (q : rstate V CS NS) : Prop := NIs (q_nff V CS NS q) /\ NIs (q_nfb V CS NS q).
Definition rop_ok (o : recurrent_op V CS NS CK NK XK) : Prop :=
  match o with RLearnN _ f => forall n, NIs n -> NIs (f n) | _ => True end.

Lemma rspec_forward_attr_doc R q xs la fa kff klat kfb nkff nkfb :
  q_ok q ->
  rsforward true R q xs la fa kff klat kfb nkff nkfb = rsforward false R q xs la fa kff klat kfb nkff nkfb /\
  forall q' out, rsforward false R q xs la fa kff klat kfb nkff nkfb = Ok (q', out) -> q_ok q'.
Proof.
  intros [Hf Hb]. destruct q as [cff clat cfb nff nfb prev]. unfold rspec_forward; simpl in *.
  destruct (cstep cff (kwo kff ck0) xs) as [[cff' yff]|e]; simpl; [|split; [auto|discriminate]].
  destruct (cstep cfb _ _) as [[cfb' yfb]|e]; simpl; [|split; [auto|discriminate]].
  destruct (vadd _ _) as [d|e]; simpl; [|split; [auto|discriminate]].
  destruct (nstep nff (kwo nkff nk0) d) as [[nff' zff]|e] eqn:E1; simpl; [|split; [auto|discriminate]].
  destruct (Hspk _ _ _ _ _ Hf E1) as [S1 I1]. rewrite S1.
  destruct (cstep clat _ _) as [[clat' ylat]|e]; simpl; [|split; [auto|discriminate]].
  destruct (nstep nfb (kwo nkfb nk0) (r_tr_lat R ylat)) as [[nfb' zfb]|e] eqn:E2; simpl; [|split; [auto|discriminate]].
  destruct (Hspk _ _ _ _ _ Hb E2) as [S2 I2]. rewrite S2.
  split; auto. intros q' out H; inversion H; subst. split; auto.
Qed.

Lemma rspec_step_attr_doc R q o :
  q_ok q -> rop_ok o ->
  rsstep true R q o = rsstep false R q o /\ forall q' out, rsstep false R q o = Ok (q', out) -> q_ok q'.
Proof.
  intros Hq Ho. destruct o as [xs la fa kff klat kfb nkff nkfb cap|cf sub xk|k f|k f]; simpl.
  - destruct (rspec_forward_attr_doc R q xs la fa kff klat kfb nkff nkfb Hq) as [E I]. rewrite E.
    split; auto. intros q' out.
    destruct (rsforward false R q xs la fa kff klat kfb nkff nkfb) as [[q1 o1]|e] eqn:E1; simpl; [|discriminate].
    intros H; inversion H; subst. eapply I; eauto.
  - split; auto. intros q' out H; inversion H; subst. destruct Hq as [Hf Hb].
    destruct sub; split; simpl; auto.
  - split; auto. intros q' out H; inversion H; subst. destruct Hq as [Hf Hb]. unfold learn_rc.
    destruct (Z.eqb k (r_ffc R)); [split; auto|]. destruct (Z.eqb k (r_latc R)); [split; auto|].
    destruct (Z.eqb k (r_fbc R)); split; auto.
  - split; auto. intros q' out H; inversion H; subst. destruct Hq as [Hf Hb]. unfold learn_rn. simpl in Ho.
    destruct (Z.eqb k (r_ffn R)); [split; simpl; auto|]. destruct (Z.eqb k (r_fbn R)); split; simpl; auto.
Qed.

(* recurrent_forward (flagship): for every operation sequence - forwards with any inputs and extra arguments,
   clears at any position with any flags, parameter assignments - the RecurrentSerial object computes the
   documented recurrence over the bare components *)
Theorem recurrent_run_documented R ops q :
  r_names_ok V CS NS R -> q_ok q -> Forall rop_ok ops ->
  run rstep (r_of R q) ops = rmap (fun p => (r_of R (fst p), snd p)) (run (rsstep false R) q ops).
Proof.
  intros Hn Hq Ho. rewrite recurrent_run_spec by auto. f_equal.
  change q with ((fun x : rstate V CS NS => x) q) at 1.
  rewrite (run_sim (rsstep true R) (rsstep false R) (fun x => x) q_ok rop_ok); auto.
  - destruct (run (rsstep false R) q ops) as [[q' outs]|e]; reflexivity.
  - intros s o Hs Hq'. destruct (rspec_step_attr_doc R s o Hs Hq') as [E _]. rewrite E.
    destruct (rsstep false R s o) as [[q' out]|e]; reflexivity.
  - intros s o s' out Hs Hq' E. destruct (rspec_step_attr_doc R s o Hs Hq') as [_ I]. eapply I; eauto.
Qed.
End Documented.


(* ================= clear() ================= *)
(* abstract form, shared by the three layer kinds: a state machine with an invariant, a "freshly built with the same
   learned state" function and a clear operation *)
Section KindClear.
Context {K Op O : Type}.
Variable step : K -> Op -> res (K * O).
Variable KI : K -> Prop.
Variables ok frozen : Op -> Prop.
Variable fresh : K -> K.
Variable clr : Op.
Variable oclr : O.
Hypothesis H_inv : forall s o s' out, KI s -> ok o -> step s o = Ok (s', out) -> KI s'.
Hypothesis H_clr : forall s, KI s -> step s clr = Ok (fresh s, oclr).
Hypothesis H_frz : forall s o s' out, KI s -> frozen o -> step s o = Ok (s', out) -> fresh s' = fresh s.
Hypothesis H_fok : forall o, frozen o -> ok o.

Theorem kind_clear_restores ops s0 s outs :
  KI s0 -> Forall ok ops -> run step s0 ops = Ok (s, outs) -> step s clr = Ok (fresh s, oclr).
Proof. intros H0 Ho Hr. apply H_clr. eapply run_inv; eauto. Qed.

Lemma run_frozen ops : forall s0 s outs,
  KI s0 -> Forall frozen ops -> run step s0 ops = Ok (s, outs) -> KI s /\ fresh s = fresh s0.
Proof.
  induction ops as [|o tl IH]; intros s0 s outs H0 Hf; simpl.
  - intros H; inversion H; subst; auto.
  - inversion Hf; subst. destruct (step s0 o) as [[s1 out]|e] eqn:E; simpl; [|discriminate].
    destruct (run step s1 tl) as [[s2 outs2]|e] eqn:E2; simpl; [|discriminate].
    intros H; inversion H; subst.
    destruct (IH s1 s outs2) as [I F]; eauto.
    split; auto. rewrite F. eapply H_frz; eauto.
Qed.

(* clear at ANY position: after an arbitrary (learning-free) prefix, clear brings back the freshly built layer, so
   the rest of the run - outputs and final state - is the run of the freshly built layer on the same operations *)
Theorem kind_replay pre post s0 :
  KI s0 -> fresh s0 = s0 -> Forall frozen pre ->
  forall s1 opre, run step s0 pre = Ok (s1, opre) ->
  run step s0 (pre ++ clr :: post) =
  ('(s, opost) <- run step s0 post ;; Ok (s, opre ++ oclr :: opost)).
Proof.
  intros H0 Hf Hp s1 opre Hr.
  destruct (run_frozen pre s0 s1 opre H0 Hp Hr) as [I1 F1].
  rewrite run_app, Hr. simpl. rewrite (H_clr s1 I1). simpl. rewrite F1, Hf.
  destruct (run step s0 post) as [[s opost]|e]; reflexivity.
Qed.
End KindClear.

Section Clear.
Variable cfresh : CS -> CS.      (* a newly constructed connection carrying the learned parameters of its argument *)
Variable nfresh : NS -> NS.      (* a newly constructed neuron group carrying the adaptations of its argument *)
Variable CI : CS -> Prop.        (* well-formedness invariants of the component states *)
Variable NI : NS -> Prop.
Variable keepk : XK -> Prop.     (* clear kwargs that keep learned adaptations (the default) *)
Hypothesis Hc_clear : forall xk c, CI c -> cclear xk c = cfresh c.
Hypothesis Hn_clear : forall xk n, keepk xk -> NI n -> nclear xk n = nfresh n.
Hypothesis Hc_step : forall c kw x c' y, CI c -> cstep c kw x = Ok (c', y) -> CI c'.
Hypothesis Hn_step : forall n kw x n' z, NI n -> nstep n kw x = Ok (n', z) -> NI n'.
Hypothesis Hc_clear_inv : forall xk c, CI c -> CI (cclear xk c).
Hypothesis Hn_clear_inv : forall xk n, NI n -> NI (nclear xk n).
(* forward steps do not change what a fresh copy looks like (no learning inside forward) *)
Hypothesis Hc_par : forall c kw x c' y, CI c -> cstep c kw x = Ok (c', y) -> cfresh c' = cfresh c.
Hypothesis Hn_par : forall n kw x n' z, NI n -> nstep n kw x = Ok (n', z) -> nfresh n' = nfresh n.
Hypothesis Hc_ff : forall c, cfresh (cfresh c) = cfresh c.
Hypothesis Hn_ff : forall n, nfresh (nfresh n) = nfresh n.

Definition on_snd {A B} (f : A -> B) (p : Z * A) : Z * B := (fst p, f (snd p)).
Definition LI (L : layer CS NS) : Prop :=
  Forall (fun p => CI (snd p)) (conns L) /\ Forall (fun p => NI (snd p)) (neurs L).
Definition layer_fresh (L : layer CS NS) : layer CS NS :=
  mkLayer (map (on_snd cfresh) (conns L)) (map (on_snd nfresh) (neurs L)).

Lemma layer_clear_fresh xk L : keepk xk -> LI L -> lclear true xk L = layer_fresh L.
Proof.
  intros Hk [Hc Hn]. unfold layer_clear, layer_fresh. f_equal.
  - apply map_ext_in. intros [k c] Hin. unfold on_snd; simpl. f_equal.
    apply Hc_clear. rewrite Forall_forall in Hc. apply (Hc _ Hin).
  - apply map_ext_in. intros [k n] Hin. unfold on_snd; simpl. f_equal.
    apply Hn_clear; auto. rewrite Forall_forall in Hn. apply (Hn _ Hin).
Qed.
Lemma layer_clear_inv sub xk L : LI L -> LI (lclear sub xk L).
Proof.
  intros [Hc Hn]. destruct sub; simpl; [|split; auto]. split; simpl.
  - rewrite Forall_map. eapply Forall_impl; [|exact Hc]. simpl. intros; apply Hc_clear_inv; auto.
  - rewrite Forall_map. eapply Forall_impl; [|exact Hn]. simpl. intros; apply Hn_clear_inv; auto.
Qed.
Lemma layer_clear_fresh_same sub xk L : keepk xk -> LI L -> layer_fresh (lclear sub xk L) = layer_fresh L.
Proof.
  intros Hk HL. destruct sub; [|reflexivity]. rewrite (layer_clear_fresh xk L Hk HL).
  unfold layer_fresh; simpl. rewrite !map_map. f_equal; apply map_ext; intros [k a]; unfold on_snd; simpl.
  - rewrite Hc_ff; auto.
  - rewrite Hn_ff; auto.
Qed.

Lemma Forall_update {A} (P : Z * A -> Prop) k a l :
  Forall P l -> (forall k', P (k', a)) -> Forall P (update k a l).
Proof.
  intros Hl Ha. induction l as [|[k2 a2] t IH]; simpl; auto.
  inversion Hl; subst. destruct (Z.eqb k k2); constructor; auto.
Qed.
Lemma lookup_Forall {A} (P : Z * A -> Prop) k a l : Forall P l -> lookup k l = Some a -> P (k, a).
Proof. intros Hl H. rewrite Forall_forall in Hl. apply Hl. apply lookup_Some_In; auto. Qed.
Lemma map_fresh_update {A} (f : A -> A) k a a' l :
  lookup k l = Some a -> f a' = f a -> map (on_snd f) (update k a' l) = map (on_snd f) l.
Proof.
  induction l as [|[k2 a2] t IH]; simpl; auto.
  destruct (Z.eqb k k2) eqn:E; simpl.
  - intros H Hf; inversion H; subst. unfold on_snd; simpl. rewrite Hf. reflexivity.
  - intros H Hf. f_equal. apply IH; auto.
Qed.

Lemma run_conns_inv ckw ins : forall cs cs' ys,
  Forall (fun p => CI (snd p)) cs -> run_conns V CS CK ck0 cstep cs ckw ins = Ok (cs', ys) ->
  Forall (fun p => CI (snd p)) cs'.
Proof.
  induction ins as [|[k x] tl IH]; intros cs cs' ys Hc; simpl.
  - intros H; inversion H; subst; auto.
  - destruct (lookup k cs) as [c|] eqn:El; [|discriminate].
    destruct (cstep c (getd k ckw ck0) x) as [[c' y]|e] eqn:Es; simpl; [|discriminate].
    destruct (run_conns V CS CK ck0 cstep (update k c' cs) ckw tl) as [[cs2 ys2]|e] eqn:Er; simpl; [|discriminate].
    intros H; inversion H; subst.
    assert (Hci : CI c) by apply (lookup_Forall _ _ _ _ Hc El).
    apply (IH (update k c' cs) cs' ys2); auto.
    apply Forall_update; auto. intros; simpl. eapply Hc_step; eauto.
Qed.
Lemma run_conns_frz ckw ins : forall cs cs' ys,
  Forall (fun p => CI (snd p)) cs -> run_conns V CS CK ck0 cstep cs ckw ins = Ok (cs', ys) ->
  map (on_snd cfresh) cs' = map (on_snd cfresh) cs.
Proof.
  induction ins as [|[k x] tl IH]; intros cs cs' ys Hc; simpl.
  - intros H; inversion H; subst; auto.
  - destruct (lookup k cs) as [c|] eqn:El; [|discriminate].
    destruct (cstep c (getd k ckw ck0) x) as [[c' y]|e] eqn:Es; simpl; [|discriminate].
    destruct (run_conns V CS CK ck0 cstep (update k c' cs) ckw tl) as [[cs2 ys2]|e] eqn:Er; simpl; [|discriminate].
    intros H; inversion H; subst.
    assert (Hci : CI c) by apply (lookup_Forall _ _ _ _ Hc El).
    rewrite (IH (update k c' cs) cs' ys2); auto.
    + eapply map_fresh_update; eauto.
    + apply Forall_update; auto. intros; simpl. eapply Hc_step; eauto.
Qed.
Lemma run_neurs_inv nkw ws : forall ns ns' zs,
  Forall (fun p => NI (snd p)) ns -> run_neurs V NS NK nk0 nstep ns nkw ws = Ok (ns', zs) ->
  Forall (fun p => NI (snd p)) ns'.
Proof.
  induction ws as [|[k x] tl IH]; intros ns ns' zs Hc; simpl.
  - intros H; inversion H; subst; auto.
  - destruct (lookup k ns) as [n|] eqn:El; [|discriminate].
    destruct (nstep n (getd k nkw nk0) x) as [[n' z]|e] eqn:Es; simpl; [|discriminate].
    destruct (run_neurs V NS NK nk0 nstep (update k n' ns) nkw tl) as [[ns2 zs2]|e] eqn:Er; simpl; [|discriminate].
    intros H; inversion H; subst.
    assert (Hni : NI n) by apply (lookup_Forall _ _ _ _ Hc El).
    apply (IH (update k n' ns) ns' zs2); auto.
    apply Forall_update; auto. intros; simpl. eapply Hn_step; eauto.
Qed.
Lemma run_neurs_frz nkw ws : forall ns ns' zs,
  Forall (fun p => NI (snd p)) ns -> run_neurs V NS NK nk0 nstep ns nkw ws = Ok (ns', zs) ->
  map (on_snd nfresh) ns' = map (on_snd nfresh) ns.
Proof.
  induction ws as [|[k x] tl IH]; intros ns ns' zs Hc; simpl.
  - intros H; inversion H; subst; auto.
  - destruct (lookup k ns) as [n|] eqn:El; [|discriminate].
    destruct (nstep n (getd k nkw nk0) x) as [[n' z]|e] eqn:Es; simpl; [|discriminate].
    destruct (run_neurs V NS NK nk0 nstep (update k n' ns) nkw tl) as [[ns2 zs2]|e] eqn:Er; simpl; [|discriminate].
    intros H; inversion H; subst.
    assert (Hni : NI n) by apply (lookup_Forall _ _ _ _ Hc El).
    rewrite (IH (update k n' ns) ns' zs2); auto.
    + eapply map_fresh_update; eauto.
    + apply Forall_update; auto. intros; simpl. eapply Hn_step; eauto.
Qed.
(* Layer.forward with ANY wiring keeps the invariants ... *)
Lemma layer_forward_inv wiring L ins ckw nkw L' out :
  LI L -> lforward wiring L ins ckw nkw = Ok (L', out) -> LI L'.
Proof.
  intros [Hc Hn]. unfold layer_forward.
  destruct (run_conns V CS CK ck0 cstep (conns L) ckw ins) as [[cs' ys]|e] eqn:E1; simpl; [|discriminate].
  destruct (wiring ys) as [ws|e]; simpl; [|discriminate].
  destruct (run_neurs V NS NK nk0 nstep (neurs L) nkw ws) as [[ns' zs]|e] eqn:E2; simpl; [|discriminate].
  intros H; inversion H; subst. split; simpl.
  - eapply run_conns_inv; eauto.
  - eapply run_neurs_inv; eauto.
Qed.
(* ... and, when forward does not learn, does not change what the fresh layer looks like *)
Lemma layer_forward_frz wiring L ins ckw nkw L' out :
  LI L -> lforward wiring L ins ckw nkw = Ok (L', out) -> layer_fresh L' = layer_fresh L.
Proof.
  intros [Hc Hn]. unfold layer_forward.
  destruct (run_conns V CS CK ck0 cstep (conns L) ckw ins) as [[cs' ys]|e] eqn:E1; simpl; [|discriminate].
  destruct (wiring ys) as [ws|e]; simpl; [|discriminate].
  destruct (run_neurs V NS NK nk0 nstep (neurs L) nkw ws) as [[ns' zs]|e] eqn:E2; simpl; [|discriminate].
  intros H; inversion H; subst. unfold layer_fresh; simpl.
  rewrite (run_conns_frz _ _ _ _ _ Hc E1), (run_neurs_frz _ _ _ _ _ Hn E2). reflexivity.
Qed.
Lemma layer_learn_c_inv k f L : (forall c, CI c -> CI (f c)) -> LI L -> LI (layer_learn_c CS NS k f L).
Proof.
  intros Hf [Hc Hn]. unfold layer_learn_c. destruct (lookup k (conns L)) as [c|] eqn:E; [|split; auto].
  split; simpl; auto. apply Forall_update; auto. intros; simpl. apply Hf. apply (lookup_Forall _ _ _ _ Hc E).
Qed.
Lemma layer_learn_n_inv k f L : (forall n, NI n -> NI (f n)) -> LI L -> LI (layer_learn_n CS NS k f L).
Proof.
  intros Hf [Hc Hn]. unfold layer_learn_n. destruct (lookup k (neurs L)) as [n|] eqn:E; [|split; auto].
  split; simpl; auto. apply Forall_update; auto. intros; simpl. apply Hf. apply (lookup_Forall _ _ _ _ Hn E).
Qed.

(* ---- Serial ---- *)
Definition sop_ok (o : serial_op V CS NS CK NK XK) : Prop :=
  match o with
  | SLearnC f => forall c, CI c -> CI (f c)
  | SLearnN f => forall n, NI n -> NI (f n)
  | _ => True
  end.
Definition sop_frozen (o : serial_op V CS NS CK NK XK) : Prop :=
  match o with SFwd _ _ _ _ => True | SClear _ xk => keepk xk | _ => False end.
Definition serial_fresh (S : serial V CS NS) : serial V CS NS :=
  mkSerial (layer_fresh (s_layer S)) (s_cn S) (s_nn S) (s_tr S).
Lemma serial_forward_inv S xs ckw nkw S' out :
  LI (s_layer S) -> sforward S xs ckw nkw = Ok (S', out) -> LI (s_layer S').
Proof.
  intros HL. unfold serial_forward.
  destruct (lforward _ _ _ _ _) as [[L' [zs ys]]|e] eqn:E; simpl; [|discriminate].
  destruct (lookup (s_nn S) zs); [|discriminate]. destruct (lookup (s_cn S) ys); [|discriminate].
  intros H; inversion H; subst. simpl. eapply layer_forward_inv; eauto.
Qed.
Lemma serial_forward_frz S xs ckw nkw S' out :
  LI (s_layer S) -> sforward S xs ckw nkw = Ok (S', out) -> serial_fresh S' = serial_fresh S.
Proof.
  intros HL. unfold serial_forward.
  destruct (lforward _ _ _ _ _) as [[L' [zs ys]]|e] eqn:E; simpl; [|discriminate].
  destruct (lookup (s_nn S) zs); [|discriminate]. destruct (lookup (s_cn S) ys); [|discriminate].
  intros H; inversion H; subst. unfold serial_fresh; simpl.
  rewrite (layer_forward_frz _ _ _ _ _ _ _ HL E). reflexivity.
Qed.
Lemma serial_step_inv S o S' out :
  LI (s_layer S) -> sop_ok o -> sstep S o = Ok (S', out) -> LI (s_layer S').
Proof.
  intros HL Ho. destruct o as [xs ckw nkw cap|sub xk|f|f]; simpl.
  - destruct (sforward S xs ckw nkw) as [[S1 o1]|e] eqn:E; simpl; [|discriminate].
    intros H; inversion H; subst. eapply serial_forward_inv; eauto.
  - intros H; inversion H; subst; simpl. apply layer_clear_inv; auto.
  - intros H; inversion H; subst; simpl. apply layer_learn_c_inv; auto.
  - intros H; inversion H; subst; simpl. apply layer_learn_n_inv; auto.
Qed.
Lemma serial_step_frozen S o S' out :
  LI (s_layer S) -> sop_frozen o -> sstep S o = Ok (S', out) -> serial_fresh S' = serial_fresh S.
Proof.
  intros HL Ho. destruct o as [xs ckw nkw cap|sub xk|f|f]; simpl in *; try tauto.
  - destruct (sforward S xs ckw nkw) as [[S1 o1]|e] eqn:E; simpl; [|discriminate].
    intros H; inversion H; subst. eapply serial_forward_frz; eauto.
  - intros H; inversion H; subst. unfold serial_fresh, serial_clear; simpl.
    rewrite layer_clear_fresh_same; auto.
Qed.

(* clear_restores_dynamic (Serial): after ANY run - forwards, clears with any flags, parameter assignments - clear()
   leaves exactly the freshly built layer carrying the current learned parameters and adaptations *)
Theorem serial_clear_restores_dynamic S0 ops S outs xk :
  LI (s_layer S0) -> Forall sop_ok ops -> keepk xk ->
  run sstep S0 ops = Ok (S, outs) ->
  sstep S (SClear true xk) = Ok (serial_fresh S, None).
Proof.
  intros H0 Ho Hk Hr.
  assert (HS : LI (s_layer S)).
  { eapply (run_inv sstep (fun S => LI (s_layer S)) sop_ok); eauto. intros; eapply serial_step_inv; eauto. }
  simpl. unfold serial_clear, serial_fresh. rewrite layer_clear_fresh; auto.
Qed.
(* clear_replay_deterministic (Serial): clear at any position of a learning-free run, then any operations: same
   outputs and final state as the freshly built layer on those operations *)
Theorem serial_clear_replay S0 pre post xk S1 opre :
  LI (s_layer S0) -> serial_fresh S0 = S0 -> Forall sop_frozen pre -> keepk xk ->
  run sstep S0 pre = Ok (S1, opre) ->
  run sstep S0 (pre ++ SClear true xk :: post) =
  ('(S2, opost) <- run sstep S0 post ;; Ok (S2, opre ++ None :: opost)).
Proof.
  intros H0 Hf Hp Hk Hr.
  apply (kind_replay sstep (fun S => LI (s_layer S)) sop_ok sop_frozen serial_fresh (SClear true xk) None)
    with (s1 := S1); auto.
  - intros; eapply serial_step_inv; eauto.
  - intros s Hs. simpl. unfold serial_clear, serial_fresh. rewrite layer_clear_fresh; auto.
  - intros; eapply serial_step_frozen; eauto.
  - intros [] Hx; simpl in *; auto; tauto.
Qed.


(* ---- Biclique ---- *)
Definition bop_ok (o : biclique_op V CS NS CK NK XK) : Prop :=
  match o with
  | BLearnC _ f => forall c, CI c -> CI (f c)
  | BLearnN _ f => forall n, NI n -> NI (f n)
  | _ => True
  end.
Definition bop_frozen (o : biclique_op V CS NS CK NK XK) : Prop :=
  match o with BFwd _ _ _ _ => True | BClear _ xk => keepk xk | _ => False end.
Definition biclique_fresh (Bq : biclique V CS NS) : biclique V CS NS :=
  mkBiclique (layer_fresh (b_layer Bq)) (b_post Bq) (b_pre Bq) (b_combine Bq).
Lemma biclique_forward_inv Bq ins ckw nkw B' out :
  LI (b_layer Bq) -> bforward Bq ins ckw nkw = Ok (B', out) -> LI (b_layer B').
Proof.
  intros HL. unfold biclique_forward.
  destruct (lforward _ _ _ _ _) as [[L' o]|e] eqn:E; simpl; [|discriminate].
  intros H; inversion H; subst. simpl. eapply layer_forward_inv; eauto.
Qed.
Lemma biclique_forward_frz Bq ins ckw nkw B' out :
  LI (b_layer Bq) -> bforward Bq ins ckw nkw = Ok (B', out) -> biclique_fresh B' = biclique_fresh Bq.
Proof.
  intros HL. unfold biclique_forward.
  destruct (lforward _ _ _ _ _) as [[L' o]|e] eqn:E; simpl; [|discriminate].
  intros H; inversion H; subst. unfold biclique_fresh; simpl.
  rewrite (layer_forward_frz _ _ _ _ _ _ _ HL E). reflexivity.
Qed.
Lemma biclique_step_inv Bq o B' out :
  LI (b_layer Bq) -> bop_ok o -> bstep Bq o = Ok (B', out) -> LI (b_layer B').
Proof.
  intros HL Ho. destruct o as [ins ckw nkw cap|sub xk|k f|k f]; simpl.
  - destruct (bforward Bq ins ckw nkw) as [[B1 o1]|e] eqn:E; simpl; [|discriminate].
    intros H; inversion H; subst. eapply biclique_forward_inv; eauto.
  - intros H; inversion H; subst; simpl. apply layer_clear_inv; auto.
  - intros H; inversion H; subst; simpl. apply layer_learn_c_inv; auto.
  - intros H; inversion H; subst; simpl. apply layer_learn_n_inv; auto.
Qed.
Lemma biclique_step_frozen Bq o B' out :
  LI (b_layer Bq) -> bop_frozen o -> bstep Bq o = Ok (B', out) -> biclique_fresh B' = biclique_fresh Bq.
Proof.
  intros HL Ho. destruct o as [ins ckw nkw cap|sub xk|k f|k f]; simpl in *; try tauto.
  - destruct (bforward Bq ins ckw nkw) as [[B1 o1]|e] eqn:E; simpl; [|discriminate].
    intros H; inversion H; subst. eapply biclique_forward_frz; eauto.
  - intros H; inversion H; subst. unfold biclique_fresh, biclique_clear; simpl.
    rewrite layer_clear_fresh_same; auto.
Qed.
Theorem biclique_clear_restores_dynamic B0 ops Bq outs xk :
  LI (b_layer B0) -> Forall bop_ok ops -> keepk xk ->
  run bstep B0 ops = Ok (Bq, outs) ->
  bstep Bq (BClear true xk) = Ok (biclique_fresh Bq, None).
Proof.
  intros H0 Ho Hk Hr.
  assert (HS : LI (b_layer Bq)).
  { eapply (run_inv bstep (fun S => LI (b_layer S)) bop_ok); eauto. intros; eapply biclique_step_inv; eauto. }
  simpl. unfold biclique_clear, biclique_fresh. rewrite layer_clear_fresh; auto.
Qed.
Theorem biclique_clear_replay B0 pre post xk B1 opre :
  LI (b_layer B0) -> biclique_fresh B0 = B0 -> Forall bop_frozen pre -> keepk xk ->
  run bstep B0 pre = Ok (B1, opre) ->
  run bstep B0 (pre ++ BClear true xk :: post) =
  ('(B2, opost) <- run bstep B0 post ;; Ok (B2, opre ++ None :: opost)).
Proof.
  intros H0 Hf Hp Hk Hr.
  apply (kind_replay bstep (fun S => LI (b_layer S)) bop_ok bop_frozen biclique_fresh (BClear true xk) None)
    with (s1 := B1); auto.
  - intros; eapply biclique_step_inv; eauto.
  - intros s Hs. simpl. unfold biclique_clear, biclique_fresh. rewrite layer_clear_fresh; auto.
  - intros; eapply biclique_step_frozen; eauto.
  - intros [] Hx; simpl in *; auto; tauto.
Qed.

(* ---- RecurrentSerial ---- *)
Definition rop_ok2 (o : recurrent_op V CS NS CK NK XK) : Prop :=
  match o with
  | RLearnC _ f => forall c, CI c -> CI (f c)
  | RLearnN _ f => forall n, NI n -> NI (f n)
  | _ => True
  end.
Definition rop_frozen (o : recurrent_op V CS NS CK NK XK) : Prop :=
  match o with RFwd _ _ _ _ _ _ _ _ _ => True | RClear _ _ xk => keepk xk | _ => False end.
(* a freshly built recurrent layer: fresh components and NO stored feedback spikes *)
Definition recurrent_fresh (R : recurrent V CS NS) : recurrent V CS NS :=
  r_with V CS NS R (layer_fresh (r_layer R)) None.
Lemma recurrent_forward_inv R xs la fa kff klat kfb nkff nkfb R' out :
  LI (r_layer R) -> rforward R xs la fa kff klat kfb nkff nkfb = Ok (R', out) -> LI (r_layer R').
Proof.
  intros HL. unfold recurrent_forward.
  destruct (match r_fbs R with Some v => Ok v | None => _ end) as [fbs|e]; simpl; [|discriminate].
  destruct (lforward _ _ _ _ _) as [[L1 [zs1 ys1]]|e] eqn:E1; simpl; [|discriminate].
  pose proof (layer_forward_inv _ _ _ _ _ _ _ HL E1) as I1.
  destruct (get_neuron CS NS L1 (r_ffn R)) as [nff|e]; simpl; [|discriminate].
  destruct (lforward _ L1 _ _ _) as [[L2 [zs2 ys2]]|e] eqn:E2; simpl; [|discriminate].
  pose proof (layer_forward_inv _ _ _ _ _ _ _ I1 E2) as I2.
  destruct (get_neuron CS NS L2 (r_fbn R)) as [nfb|e]; simpl; [|discriminate].
  destruct (lookup (r_ffn R) zs1); [|discriminate]. destruct (lookup (r_fbn R) zs2); [|discriminate].
  intros H; inversion H; subst. auto.
Qed.
Lemma recurrent_forward_frz R xs la fa kff klat kfb nkff nkfb R' out :
  LI (r_layer R) -> rforward R xs la fa kff klat kfb nkff nkfb = Ok (R', out) ->
  recurrent_fresh R' = recurrent_fresh R.
Proof.
  intros HL. unfold recurrent_forward.
  destruct (match r_fbs R with Some v => Ok v | None => _ end) as [fbs|e]; simpl; [|discriminate].
  destruct (lforward _ _ _ _ _) as [[L1 [zs1 ys1]]|e] eqn:E1; simpl; [|discriminate].
  pose proof (layer_forward_inv _ _ _ _ _ _ _ HL E1) as I1.
  pose proof (layer_forward_frz _ _ _ _ _ _ _ HL E1) as F1.
  destruct (get_neuron CS NS L1 (r_ffn R)) as [nff|e]; simpl; [|discriminate].
  destruct (lforward _ L1 _ _ _) as [[L2 [zs2 ys2]]|e] eqn:E2; simpl; [|discriminate].
  pose proof (layer_forward_frz _ _ _ _ _ _ _ I1 E2) as F2.
  destruct (get_neuron CS NS L2 (r_fbn R)) as [nfb|e]; simpl; [|discriminate].
  destruct (lookup (r_ffn R) zs1); [|discriminate]. destruct (lookup (r_fbn R) zs2); [|discriminate].
  intros H; inversion H; subst.
  unfold recurrent_fresh, r_with; simpl. rewrite F2, F1. reflexivity.
Qed.
Lemma recurrent_step_inv R o R' out :
  LI (r_layer R) -> rop_ok2 o -> rstep R o = Ok (R', out) -> LI (r_layer R').
Proof.
  intros HL Ho. destruct o as [xs la fa kff klat kfb nkff nkfb cap|cf sub xk|k f|k f]; simpl.
  - destruct (rforward R xs la fa kff klat kfb nkff nkfb) as [[R1 o1]|e] eqn:E; simpl; [|discriminate].
    intros H; inversion H; subst. eapply recurrent_forward_inv; eauto.
  - intros H; inversion H; subst; simpl. apply layer_clear_inv; auto.
  - intros H; inversion H; subst; simpl. apply layer_learn_c_inv; auto.
  - intros H; inversion H; subst; simpl. apply layer_learn_n_inv; auto.
Qed.
Lemma recurrent_step_frozen R o R' out :
  LI (r_layer R) -> rop_frozen o -> rstep R o = Ok (R', out) -> recurrent_fresh R' = recurrent_fresh R.
Proof.
  intros HL Ho. destruct o as [xs la fa kff klat kfb nkff nkfb cap|cf sub xk|k f|k f]; simpl in *; try tauto.
  - destruct (rforward R xs la fa kff klat kfb nkff nkfb) as [[R1 o1]|e] eqn:E; simpl; [|discriminate].
    intros H; inversion H; subst. eapply recurrent_forward_frz; eauto.
  - intros H; inversion H; subst. unfold recurrent_fresh, recurrent_clear, r_with; simpl.
    rewrite layer_clear_fresh_same; auto.
Qed.
(* clear() (both flags at their defaults) after ANY run: fresh components and the feedback buffer back to None *)
Theorem recurrent_clear_restores_dynamic R0 ops R outs xk :
  LI (r_layer R0) -> Forall rop_ok2 ops -> keepk xk ->
  run rstep R0 ops = Ok (R, outs) ->
  rstep R (RClear true true xk) = Ok (recurrent_fresh R, None).
Proof.
  intros H0 Ho Hk Hr.
  assert (HS : LI (r_layer R)).
  { eapply (run_inv rstep (fun S => LI (r_layer S)) rop_ok2); eauto. intros; eapply recurrent_step_inv; eauto. }
  simpl. unfold recurrent_clear, recurrent_fresh. rewrite layer_clear_fresh; auto.
Qed.
Theorem recurrent_clear_replay R0 pre post xk R1 opre :
  LI (r_layer R0) -> recurrent_fresh R0 = R0 -> Forall rop_frozen pre -> keepk xk ->
  run rstep R0 pre = Ok (R1, opre) ->
  run rstep R0 (pre ++ RClear true true xk :: post) =
  ('(R2, opost) <- run rstep R0 post ;; Ok (R2, opre ++ None :: opost)).
Proof.
  intros H0 Hf Hp Hk Hr.
  apply (kind_replay rstep (fun S => LI (r_layer S)) rop_ok2 rop_frozen recurrent_fresh (RClear true true xk) None)
    with (s1 := R1); auto.
  - intros; eapply recurrent_step_inv; eauto.
  - intros s Hs. simpl. unfold recurrent_clear, recurrent_fresh. rewrite layer_clear_fresh; auto.
  - intros; eapply recurrent_step_frozen; eauto.
  - intros [] Hx; simpl in *; auto; tauto.
Qed.
(* as coded and documented, clear(clear_feedback=False) keeps the stored feedback spikes: it restores the fresh
   layer only when there are none *)
Theorem recurrent_clear_keep_feedback R xk :
  LI (r_layer R) -> keepk xk ->
  rstep R (RClear false true xk) = Ok (r_with V CS NS R (layer_fresh (r_layer R)) (r_fbs R), None).
Proof. intros HL Hk. simpl. unfold recurrent_clear. rewrite layer_clear_fresh; auto. Qed.


(* ---- clear() followed by anything = the freshly built layer (carrying the learned state) on the same operations:
   the general form of replay determinism, valid also when forward learns (ALIF adaptations in training mode) ---- *)
Theorem serial_clear_then_run S0 ops S outs xk ops2 :
  LI (s_layer S0) -> Forall sop_ok ops -> keepk xk -> run sstep S0 ops = Ok (S, outs) ->
  run sstep S (SClear true xk :: ops2) =
  ('(S2, o2) <- run sstep (serial_fresh S) ops2 ;; Ok (S2, None :: o2)).
Proof.
  intros H0 Ho Hk Hr. cbn [run]. rewrite (serial_clear_restores_dynamic S0 ops S outs xk H0 Ho Hk Hr). reflexivity.
Qed.
Theorem biclique_clear_then_run B0 ops Bq outs xk ops2 :
  LI (b_layer B0) -> Forall bop_ok ops -> keepk xk -> run bstep B0 ops = Ok (Bq, outs) ->
  run bstep Bq (BClear true xk :: ops2) =
  ('(B2, o2) <- run bstep (biclique_fresh Bq) ops2 ;; Ok (B2, None :: o2)).
Proof.
  intros H0 Ho Hk Hr. cbn [run]. rewrite (biclique_clear_restores_dynamic B0 ops Bq outs xk H0 Ho Hk Hr). reflexivity.
Qed.
Theorem recurrent_clear_then_run R0 ops R outs xk ops2 :
  LI (r_layer R0) -> Forall rop_ok2 ops -> keepk xk -> run rstep R0 ops = Ok (R, outs) ->
  run rstep R (RClear true true xk :: ops2) =
  ('(R2, o2) <- run rstep (recurrent_fresh R) ops2 ;; Ok (R2, None :: o2)).
Proof.
  intros H0 Ho Hk Hr. cbn [run]. rewrite (recurrent_clear_restores_dynamic R0 ops R outs xk H0 Ho Hk Hr). reflexivity.
Qed.

End Clear.

(* clear() succeeds on every layer, whatever its state and flags (in the model clear cannot raise; that the real
   clear() does not raise is checked on the implementation by the oracle) *)
Theorem clear_total :
  (forall S sub xk, exists S', sstep S (SClear sub xk) = Ok (S', None)) /\
  (forall Bq sub xk, exists B', bstep Bq (BClear sub xk) = Ok (B', None)) /\
  (forall R cf sub xk, exists R', rstep R (RClear cf sub xk) = Ok (R', None)).
Proof. repeat split; intros; eexists; reflexivity. Qed.

End Proofs.
