(* Concrete component models used to instantiate the generic layer model of C17/Layers.v, written once,
   polymorphic in the number type N (RN for theorems, FN for running against the implementation):

   * tensors with an explicit shape (flat row-major elements; bool tensors are 0/1 valued);
   * [dense]: LinearDense (connections/linear.py:11-355) over a DeltaCurrent synapse (synapses/current.py:9-180):
     the synapse's spike RecordTensor is modelled as rows + pointer (push / peek / delayed read / reset; the full
     RecordTensor is property C01, time-indexed selection is C02 - here delays are whole numbers of steps);
   * [neuron]: LIF and ALIF (neurons/linear.py:10-360); the element-wise kernels are the GENERATED definitions
     Gen.NeuronDynamics.voltage_thresholding_constant / voltage_integration_linear and
     Gen.NeuronAdaptation.adaptive_thresholds_linear_spike;
   * the built-in Biclique combine modes (network.py:712-719) and a small family of transforms for the executable
     instance (the theorems quantify over arbitrary transform functions).

   Restrictions (checked by the generator of tools/props/c17.py, not by the theorems): broadcasting between
   different shapes is modelled as an error (RuntimeError), so mismatching sizes are generated with no size-1
   axes; only the first positional input of a connection is used (DeltaCurrent.forward ignores the rest);
   the Updater's pending accumulators (cleared by Connection.clear) are not modelled.
   Definitions only. *)
From Coq Require Import List ZArith Bool Arith.
From Inferno Require Import Base.Num Gen.NeuronDynamics Gen.NeuronAdaptation C17.Layers.
Import ListNotations.

Section Comp.
Variable N : Num.
Notation R := (T N).

(* ---------- tensors ---------- *)
Record tensor := mkT { tsh : list nat; tel : list R }.
Definition nel (sh : list nat) : nat := fold_right Nat.mul 1 sh.
Fixpoint shape_eqb (a b : list nat) : bool :=
  match a, b with
  | [], [] => true
  | x :: a', y :: b' => (x =? y) && shape_eqb a' b'
  | _, _ => false
  end.
Fixpoint map2 {A B C} (f : A -> B -> C) (a : list A) (b : list B) : list C :=
  match a, b with
  | x :: a', y :: b' => f x y :: map2 f a' b'
  | _, _ => []
  end.
Fixpoint upd {X} (l : list X) (i : nat) (x : X) : list X :=
  match l, i with
  | [], _ => []
  | _ :: t, O => x :: t
  | h :: t, S j => h :: upd t j x
  end.
(* split a flat list into consecutive chunks of n elements (k chunks) *)
Fixpoint chunks {X} (n k : nat) (l : list X) : list (list X) :=
  match k with
  | O => []
  | S k' => firstn n l :: chunks n k' (skipn n l)
  end.
Definition tzeros_like (t : tensor) : tensor := mkT (tsh t) (map (fun _ => zero N) (tel t)).
(* a + b with equal shapes; anything else is treated as not broadcastable (see header) *)
Definition tadd (a b : tensor) : res tensor :=
  if shape_eqb (tsh a) (tsh b) then Ok (mkT (tsh a) (map2 (add N) (tel a) (tel b))) else Err ERuntime.
Definition nz (v : R) : bool := negb (eqb N v (zero N)).          (* tensor.bool() *)

(* ---------- LinearDense + DeltaCurrent ---------- *)
Record dense := mkDense {
  d_in : list nat; d_out : list nat; d_B : nat;
  d_dt : R; d_charge : R;
  d_W : list (list R);                          (* weight, out x in *)
  d_bias : option (list R);                     (* bias, out *)
  d_delay : option (nat * list (list nat));     (* (maximum delay, delays out x in), in steps; None: no delay_ parameter *)
  d_rows : list (list bool);                    (* synapse.spike_ storage: recordsz rows of B*in flags *)
  d_ptr : nat                                   (* synapse.spike_ pointer *)
}.
Definition recordsz (c : dense) : nat := match d_delay c with Some (m, _) => S m | None => 1 end.
Definition insz (c : dense) : nat := nel (d_in c).
Definition outsz (c : dense) : nat := nel (d_out c).
Definition set_syn (c : dense) (rows : list (list bool)) (p : nat) : dense :=
  mkDense (d_in c) (d_out c) (d_B c) (d_dt c) (d_charge c) (d_W c) (d_bias c) (d_delay c) rows p.
Definition set_W (W : list (list R)) (b : option (list R)) (c : dense) : dense :=
  mkDense (d_in c) (d_out c) (d_B c) (d_dt c) (d_charge c) W b (d_delay c) (d_rows c) (d_ptr c).
(* the learned parameters and the configuration: everything except the synaptic state *)
Definition dense_fresh_rows (c : dense) : list (list bool) :=
  repeat (repeat false (d_B c * insz c)) (recordsz c).
(* a freshly constructed connection carrying c's parameters *)
Definition dense_fresh (c : dense) : dense := set_syn c (dense_fresh_rows c) 0.
(* DeltaCurrent: spikes.to(dtype) * (spike_charge / dt) *)
Definition to_current (c : dense) (s : bool) : R := mul N (b2t N s) (div N (d_charge c) (d_dt c)).
Definition dot (a b : list R) : R := tsum N (map2 (mul N) a b).
Definition addbias (c : dense) (o : nat) (v : R) : R :=
  match d_bias c with Some b => add N v (nth o b (zero N)) | None => v end.
(* spikes k steps before the most recent observation *)
Definition spikes_back (c : dense) (k : nat) : list bool :=
  nth ((d_ptr c + recordsz c - 1 - k mod recordsz c) mod recordsz c) (d_rows c) [].
(* forward: connections/linear.py:306-355; the state passed in is the one after the synapse step *)
Definition dense_out_row (c : dense) (b : nat) : list R :=
  match d_delay c with
  | Some (S m, D) =>
      (* delayed: res[b,i,o] = current_at(selector)[b,i,o]; einsum "b i o, o i -> b o" (+ bias) *)
      map (fun o =>
             let dl := nth o D [] in
             let cur := map (fun i =>
                               let k := nth i dl 0 in
                               if k <=? S m
                               then to_current c (nth (b * insz c + i) (spikes_back c k) false)
                               else zero N (* current_overbound = 0.0 *))
                            (seq 0 (insz c)) in
             addbias c o (dot cur (nth o (d_W c) [])))
          (seq 0 (outsz c))
  | _ =>
      (* F.linear(current, weight, bias) *)
      let cur := map (to_current c) (firstn (insz c) (skipn (b * insz c) (spikes_back c 0))) in
      map (fun o => addbias c o (dot cur (nth o (d_W c) []))) (seq 0 (outsz c))
  end.
Definition dense_step (c : dense) (_ : unit) (xs : list tensor) : res (dense * tensor) :=
  match xs with
  | [] => Err EIndex                            (* DeltaCurrent.forward: inputs[0] *)
  | x :: _ =>
      match tsh x with
      | [] => Err ERuntime                      (* einops "b ... -> b (...)" on a 0-d tensor *)
      | b :: rest =>
          (* RecordTensor.push: observation must have the stored shape (B, in) *)
          (* (the last conjunct only says that x is a well-formed tensor: always true of a torch tensor) *)
          if negb ((b =? d_B c) && (nel rest =? insz c) && (length (tel x) =? d_B c * insz c)) then Err EValue
          else
            let c' := set_syn c (upd (d_rows c) (d_ptr c) (map nz (tel x))) ((d_ptr c + 1) mod recordsz c) in
            Ok (c', mkT (d_B c :: d_out c) (concat (map (dense_out_row c') (seq 0 (d_B c)))))
      end
  end.
(* Connection.clear -> DeltaCurrent.clear: spike_.reset(False) = fill + pointer 0 *)
Definition dense_clear (_ : option bool) (c : dense) : dense :=
  set_syn c (map (map (fun _ => false)) (d_rows c)) 0.

(* ---------- LIF / ALIF ---------- *)
Record neuron := mkNeuron {
  n_shape : list nat; n_B : nat;
  n_dt : R; n_rest : R; n_reset : R; n_thresh : R; n_refrac_t : R; n_tc : R; n_res : R;
  n_acfg : option (list (R * R));    (* ALIF: (tc_adaptation_k, spike_increment_k); None: LIF *)
  n_training : bool;                 (* nn.Module.training *)
  n_volt : list R; n_refr : list R;  (* voltage, refrac: B * size, row-major *)
  n_adapt : list (list R)            (* ALIF threshold_adaptation_: size rows of K values (not batched) *)
}.
Definition nsize (n : neuron) : nat := nel (n_shape n).
Definition set_dyn (n : neuron) (v r : list R) (a : list (list R)) : neuron :=
  mkNeuron (n_shape n) (n_B n) (n_dt n) (n_rest n) (n_reset n) (n_thresh n) (n_refrac_t n) (n_tc n) (n_res n)
           (n_acfg n) (n_training n) v r a.
Definition set_training (b : bool) (n : neuron) : neuron :=
  mkNeuron (n_shape n) (n_B n) (n_dt n) (n_rest n) (n_reset n) (n_thresh n) (n_refrac_t n) (n_tc n) (n_res n)
           (n_acfg n) b (n_volt n) (n_refr n) (n_adapt n).
(* a freshly constructed neuron group with n's configuration, carrying n's adaptations *)
Definition neuron_fresh (n : neuron) : neuron :=
  set_dyn n (repeat (n_rest n) (n_B n * nsize n)) (repeat (zero N) (n_B n * nsize n)) (n_adapt n).
Record nkw := mkNkw { k_lock : bool; k_adapt : option bool }.
Definition nkw0 : nkw := mkNkw true None.
(* one element of LIF.forward / ALIF.forward *)
Definition lif_elem (n : neuron) (lock : bool) (thr x v r : R) : bool * R * R :=
  voltage_thresholding_constant N x r
    (fun mi => voltage_integration_linear N mi v (n_dt n) (n_tc n) (n_rest n) (n_res n))
    (if lock then Some v else None) (n_dt n) (n_reset n) thr (n_refrac_t n).
(* thresholds per neuron: thresh_v (LIF) / thresh_eq_v + sum_k adaptation (ALIF, apply_adaptive_thresholds) *)
Definition thresholds (n : neuron) : list R :=
  match n_acfg n with
  | None => repeat (n_thresh n) (nsize n)
  | Some _ => map (fun a => add N (n_thresh n) (tsum N a)) (n_adapt n)
  end.
Fixpoint zip4 (f : R -> R -> R -> R -> bool * R * R) (a b c d : list R) : list (bool * R * R) :=
  match a, b, c, d with
  | x :: a', y :: b', z :: c', w :: d' => f x y z w :: zip4 f a' b' c' d'
  | _, _, _, _ => []
  end.
(* ALIF adaptation update, reduced over the batch by torch.mean (setter of threshold_adaptation) *)
Definition adapt_update (n : neuron) (cfg : list (R * R)) (lock : bool) (spk : list bool) (refr : list R)
  : list (list R) :=
  let sz := nsize n in
  map (fun j =>
         map2 (fun a (p : R * R) =>
                 div N (tsum N (map (fun b =>
                                       adaptive_thresholds_linear_spike N a (nth (b * sz + j) spk false)
                                         (n_dt n) (fst p) (snd p)
                                         (if lock then Some (nth (b * sz + j) refr (zero N)) else None))
                                    (seq 0 (n_B n))))
                       (ofZ N (Z.of_nat (n_B n))))
              (nth j (n_adapt n) []) cfg)
      (seq 0 sz).
Definition neuron_step (n : neuron) (kw : nkw) (x : tensor) : res (neuron * tensor) :=
  (* (the second conjunct only says that x is a well-formed tensor: always true of a torch tensor) *)
  if negb (shape_eqb (tsh x) (n_B n :: n_shape n) && (length (tel x) =? n_B n * nsize n)) then Err ERuntime
  else
    let thr := concat (repeat (thresholds n) (n_B n)) in
    let r := zip4 (lif_elem n (k_lock kw)) thr (tel x) (n_volt n) (n_refr n) in
    let spk := map (fun p => fst (fst p)) r in
    let v' := map (fun p => snd (fst p)) r in
    let r' := map snd r in
    let a' := match n_acfg n with
              | Some cfg =>
                  if (match k_adapt kw with Some a => a | None => n_training n end)
                  then adapt_update n cfg (k_lock kw) spk r'
                  else n_adapt n
              | None => n_adapt n
              end in
    Ok (set_dyn n v' r' a', mkT (n_B n :: n_shape n) (map (b2t N) spk)).
(* SpikeRefractoryMixin.spike: refrac == refrac_t *)
Definition neuron_spike (n : neuron) : tensor :=
  mkT (n_B n :: n_shape n) (map (fun r => b2t N (eqb N r (n_refrac_t n))) (n_refr n)).
(* LIF.clear / ALIF.clear(keep_adaptations=True) *)
Definition neuron_clear (keep : option bool) (n : neuron) : neuron :=
  set_dyn n (map (fun _ => n_rest n) (n_volt n)) (map (fun _ => zero N) (n_refr n))
    (match n_acfg n, keep with
     | Some _, Some false => map (map (fun _ => zero N)) (n_adapt n)
     | _, _ => n_adapt n
     end).

(* ---------- Biclique built-in combine: ein.reduce(list(tensors.values()), "s ... -> ...", mode) ---------- *)
Inductive cmode := CSum | CMean | CProd | CMin | CMax.
Definition cop (m : cmode) : R -> R -> R :=
  match m with
  | CSum | CMean => add N
  | CProd => mul N
  | CMin => tmin N
  | CMax => tmax N
  end.
Definition combine_builtin (m : cmode) (ts : list (Z * tensor)) : res tensor :=
  match map snd ts with
  | [] => Err EType                              (* einops: cannot be applied to an empty list *)
  | t0 :: rest =>
      if forallb (fun t => shape_eqb (tsh t) (tsh t0)) rest then
        let acc := fold_left (fun a t => map2 (cop m) a (tel t)) rest (tel t0) in
        Ok (mkT (tsh t0)
              (match m with
               | CMean => map (fun s => div N s (ofZ N (Z.of_nat (S (length rest))))) acc
               | _ => acc
               end))
      else Err ERuntime                          (* torch.stack of different shapes *)
  end.

(* ---------- transforms of the executable instance ---------- *)
Inductive tr := TrId | TrScale (c : R) | TrAdd (c : R) | TrNeg.
Definition tr_fn (t : tr) (x : tensor) : tensor :=
  match t with
  | TrId => x
  | TrScale c => mkT (tsh x) (map (fun v => mul N c v) (tel x))
  | TrAdd c => mkT (tsh x) (map (fun v => add N v c) (tel x))
  | TrNeg => mkT (tsh x) (map (opp N) (tel x))
  end.
Inductive itr := InWrap | InNot | InDup.
Definition itr_fn (t : itr) (x : tensor) : list tensor :=
  match t with
  | InWrap => [x]
  | InNot => [mkT (tsh x) (map (fun v => b2t N (eqb N v (zero N))) (tel x))]     (* ~spikes *)
  | InDup => [x; x]
  end.

End Comp.

Arguments mkT {N} tsh tel.
Arguments tsh {N} t.
Arguments tel {N} t.
