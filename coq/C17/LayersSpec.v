(* Independent specifications the C17 theorems are stated against: the documented dataflow of each layer kind over
   bare components - no dicts, no names, no ModuleDict lookups, no attribute reads.  Definitions only. *)
From Coq Require Import List ZArith Bool.
From Inferno Require Import C17.Layers.
Import ListNotations.

Definition kwo {A} (o : option A) (d : A) : A := match o with Some a => a | None => d end.
Definition rmap {A B} (f : A -> B) (r : res A) : res B := match r with Ok a => Ok (f a) | Err e => Err e end.

Section Spec.
Variables V CS NS CK NK XK : Type.
Variable ck0 : CK.
Variable nk0 : NK.
Variable cstep : CS -> CK -> list V -> res (CS * V).
Variable nstep : NS -> NK -> V -> res (NS * V).
Variable nspike : NS -> V.
Variable cclear : XK -> CS -> CS.
Variable nclear : XK -> NS -> NS.
Variable vzeros_like : V -> V.
Variable vadd : V -> V -> res V.

(* ---------- Serial = neuron o transform o connection ---------- *)
Definition sspec_forward (tr : V -> V) (s : CS * NS) (xs : list V) (ckw : option CK) (nkw : option NK)
  : res ((CS * NS) * (V * V)) :=
  '(c', y) <- cstep (fst s) (kwo ckw ck0) xs ;;
  '(n', z) <- nstep (snd s) (kwo nkw nk0) (tr y) ;;
  Ok ((c', n'), (z, y)).
Definition sspec_step (tr : V -> V) (s : CS * NS) (o : serial_op V CS NS CK NK XK)
  : res ((CS * NS) * option (V * V)) :=
  match o with
  | SFwd xs ckw nkw _ => '(s', out) <- sspec_forward tr s xs ckw nkw ;; Ok (s', Some out)
  | SClear sub xk => Ok (if sub then (cclear xk (fst s), nclear xk (snd s)) else s, None)
  | SLearnC f => Ok ((f (fst s), snd s), None)
  | SLearnN f => Ok ((fst s, f (snd s)), None)
  end.
(* the two components run on their own streams *)
Definition cstep1 (c : CS) (i : option CK * list V) : res (CS * V) := cstep c (kwo (fst i) ck0) (snd i).
Definition nstep1 (n : NS) (i : option NK * V) : res (NS * V) := nstep n (kwo (fst i) nk0) (snd i).

(* ---------- Biclique: every connection named in the inputs steps once (independently of the others), the
   transformed outputs are combined once, every neuron group receives its transform of the combination ---------- *)
Fixpoint par_conns (cs : list (Z * CS)) (ckw : list (Z * CK)) (ins : list (Z * list V))
  : res (list (Z * (CS * V))) :=
  match ins with
  | [] => Ok []
  | (k, x) :: tl =>
      match lookup k cs with
      | None => Err EKey
      | Some c => r <- cstep c (getd k ckw ck0) x ;; rs <- par_conns cs ckw tl ;; Ok ((k, r) :: rs)
      end
  end.
Fixpoint par_neurs (ns : list (Z * NS)) (nkw : list (Z * NK)) (ws : list (Z * V))
  : res (list (Z * (NS * V))) :=
  match ws with
  | [] => Ok []
  | (k, w) :: tl =>
      match lookup k ns with
      | None => Err EKey
      | Some n => r <- nstep n (getd k nkw nk0) w ;; rs <- par_neurs ns nkw tl ;; Ok ((k, r) :: rs)
      end
  end.
(* the modules that stepped are replaced by their new states, the others are untouched *)
Definition apply_new {S} (ms : list (Z * S)) (rs : list (Z * (S * V))) : list (Z * S) :=
  map (fun p => (fst p, match lookup (fst p) rs with Some r => fst r | None => snd p end)) ms.
Definition outs_of {S} (rs : list (Z * (S * V))) : list (Z * V) := map (fun p => (fst p, snd (snd p))) rs.
Definition bspec_wiring (Bq : biclique V CS NS) (ys : list (Z * V)) : res (list (Z * V)) :=
  match b_pre Bq with
  | [] => Ok []
  | _ =>
      ts <- post_all V (b_post Bq) ys ;;
      u <- b_combine Bq ts ;;
      Ok (map (fun p => (fst p, snd p u)) (b_pre Bq))
  end.
Definition bspec_forward (Bq : biclique V CS NS) (ins : list (Z * list V)) (ckw : list (Z * CK))
    (nkw : list (Z * NK)) : res (biclique V CS NS * (list (Z * V) * list (Z * V))) :=
  rs <- par_conns (conns (b_layer Bq)) ckw ins ;;
  ws <- bspec_wiring Bq (outs_of rs) ;;
  ns <- par_neurs (neurs (b_layer Bq)) nkw ws ;;
  Ok (mkBiclique (mkLayer (apply_new (conns (b_layer Bq)) rs) (apply_new (neurs (b_layer Bq)) ns))
        (b_post Bq) (b_pre Bq) (b_combine Bq),
      (outs_of ns, outs_of rs)).

Definition bspec_step (Bq : biclique V CS NS) (o : biclique_op V CS NS CK NK XK)
  : res (biclique V CS NS * option (list (Z * V) * list (Z * V))) :=
  match o with
  | BFwd ins ckw nkw _ => '(B', out) <- bspec_forward Bq ins ckw nkw ;; Ok (B', Some out)
  | _ => biclique_step V CS NS CK NK XK ck0 nk0 cstep nstep cclear nclear Bq o
  end.

(* ---------- RecurrentSerial ---------- *)
Record rstate := mkRstate { q_cff : CS; q_clat : CS; q_cfb : CS; q_nff : NS; q_nfb : NS; q_prev : option V }.
(* [use_attr = true]: as coded, the lateral input and the stored feedback are the neurons' .spike ATTRIBUTE;
   [use_attr = false]: as documented, they are the spikes the neurons RETURNED (the previous step's feedback
   output, none on the first step). *)
Definition rspec_forward (use_attr : bool) (R : recurrent V CS NS) (q : rstate) (xs la fa : list V)
    (kff klat kfb : option CK) (nkff nkfb : option NK) : res (rstate * ((V * V) * list (Z * V))) :=
  let fb := match q_prev q with Some v => v | None => vzeros_like (nspike (q_nfb q)) end in
  '(cff', yff) <- cstep (q_cff q) (kwo kff ck0) xs ;;
  '(cfb', yfb) <- cstep (q_cfb q) (kwo kfb ck0) (r_in_fb R fb ++ fa) ;;
  d <- vadd (r_tr_ff R yff) (r_tr_fb R yfb) ;;
  '(nff', zff) <- nstep (q_nff q) (kwo nkff nk0) d ;;
  '(clat', ylat) <- cstep (q_clat q) (kwo klat ck0)
                      (r_in_lat R (if use_attr then nspike nff' else zff) ++ la) ;;
  '(nfb', zfb) <- nstep (q_nfb q) (kwo nkfb nk0) (r_tr_lat R ylat) ;;
  Ok (mkRstate cff' clat' cfb' nff' nfb' (Some (if use_attr then nspike nfb' else zfb)),
      ((zff, zfb), [(r_ffc R, yff); (r_fbc R, yfb); (r_latc R, ylat)])).
Definition learn_rc (R : recurrent V CS NS) (k : Z) (f : CS -> CS) (q : rstate) : rstate :=
  if Z.eqb k (r_ffc R) then mkRstate (f (q_cff q)) (q_clat q) (q_cfb q) (q_nff q) (q_nfb q) (q_prev q)
  else if Z.eqb k (r_latc R) then mkRstate (q_cff q) (f (q_clat q)) (q_cfb q) (q_nff q) (q_nfb q) (q_prev q)
  else if Z.eqb k (r_fbc R) then mkRstate (q_cff q) (q_clat q) (f (q_cfb q)) (q_nff q) (q_nfb q) (q_prev q)
  else q.
Definition learn_rn (R : recurrent V CS NS) (k : Z) (f : NS -> NS) (q : rstate) : rstate :=
  if Z.eqb k (r_ffn R) then mkRstate (q_cff q) (q_clat q) (q_cfb q) (f (q_nff q)) (q_nfb q) (q_prev q)
  else if Z.eqb k (r_fbn R) then mkRstate (q_cff q) (q_clat q) (q_cfb q) (q_nff q) (f (q_nfb q)) (q_prev q)
  else q.
Definition rspec_step (use_attr : bool) (R : recurrent V CS NS) (q : rstate)
    (o : recurrent_op V CS NS CK NK XK) : res (rstate * option ((V * V) * list (Z * V))) :=
  match o with
  | RFwd xs la fa kff klat kfb nkff nkfb _ =>
      '(q', out) <- rspec_forward use_attr R q xs la fa kff klat kfb nkff nkfb ;; Ok (q', Some out)
  | RClear cf sub xk =>
      Ok (mkRstate (if sub then cclear xk (q_cff q) else q_cff q) (if sub then cclear xk (q_clat q) else q_clat q)
            (if sub then cclear xk (q_cfb q) else q_cfb q) (if sub then nclear xk (q_nff q) else q_nff q)
            (if sub then nclear xk (q_nfb q) else q_nfb q) (if cf then None else q_prev q), None)
  | RLearnC k f => Ok (learn_rc R k f q, None)
  | RLearnN k f => Ok (learn_rn R k f q, None)
  end.
(* the layer object holding a specification state *)
Definition r_of (R : recurrent V CS NS) (q : rstate) : recurrent V CS NS :=
  r_with V CS NS R (mkLayer [(r_ffc R, q_cff q); (r_latc R, q_clat q); (r_fbc R, q_cfb q)]
                            [(r_ffn R, q_nff q); (r_fbn R, q_nfb q)]) (q_prev q).
Definition r_names_ok (R : recurrent V CS NS) : Prop :=
  r_latc R <> r_ffc R /\ r_fbc R <> r_ffc R /\ r_fbc R <> r_latc R /\ r_fbn R <> r_ffn R.

End Spec.
