(* Real-number part for the C03 neuron model as the neuron component of the C17 layers: with refrac_t > 0 the spike
   attribute of EVERY class equals the spikes forward returned (C03's population_spike_attr_eq_output), hence a
   RecurrentSerial layer over any of the eight classes computes the documented recurrence. *)
From Coq Require Import List ZArith Bool Arith Lia Reals Lra.
From Inferno Require Import Base.Num Base.NumR C17.Layers C17.LayersSpec C17.Components C17.LayersProofs
     C17.ComponentsProofs C17.NeuronsC03 C17.NeuronsC03Proofs.
From Inferno Require C03.Neuron C03.NeuronSpec C03.NeuronProofs.
Import ListNotations.
Open Scope R_scope.

Module P3 := Inferno.C03.NeuronProofs.
Module S3 := Inferno.C03.NeuronSpec.

(* constructed by a constructor that accepted its arguments (C03's ctor_ok), refrac_t > 0, and no remaining refractory
   time above refrac_t (true of the constructor state, kept by forward and clear) *)
Definition NIs3 (m : nmod RN) : Prop :=
  NI3 RN m /\ N3.ctor_ok RN (m_cls RN m) (m_par RN m) = true /\ 0 < N3.refrac_t RN (m_par RN m) /\
  S3.all_cells (fun ce => snd ce <= N3.refrac_t RN (m_par RN m)) (m_cols RN m).

Theorem c03_spike_attr_is_output m kw x m' z :
  NIs3 m -> nstep3 RN m kw x = Ok (m', z) -> nspike3 RN m' = z /\ NIs3 m'.
Proof.
  intros (HI & Hok & Hrt & Hle) H. pose proof (Hn_step3 RN _ _ _ _ _ HI H) as HI'.
  unfold nstep3 in H. destruct (negb _); [discriminate|]. inversion H; subst; clear H. split.
  - unfold nspike3, with_cols, m_cols, m_n. cbn [m_par m_shape m_B m_st N3.cols]. f_equal. f_equal.
    apply (P3.population_spike_attr_eq_output _ _ Hok Hrt). exact Hle.
  - split; [exact HI'|]. split; [exact Hok|]. split; [exact Hrt|].
    unfold with_cols, m_cols. cbn [m_par m_st N3.cols]. apply (P3.population_refrac_le _ _ Hok). exact Hle.
Qed.
Lemma Hclr_s3 (xk : option bool) m : NIs3 m -> NIs3 (nclear3 RN xk m).
Proof.
  intros (HI & Hok & Hrt & Hle). split; [apply Hn_clear_inv3; auto|]. split; [exact Hok|]. split; [exact Hrt|].
  unfold nclear3, with_cols, m_cols. cbn [m_par m_st N3.cols]. apply (P3.clear_refrac_le _ _ Hok).
Qed.

(* recurrent_forward for all eight classes (refrac_t > 0): for every operation sequence the RecurrentSerial object
   computes the documented recurrence over the bare components *)
Theorem c03_recurrent_forward_documented R ops q :
  r_names_ok (tensor RN) (dense RN) (nmod RN) R ->
  q_ok (tensor RN) (dense RN) (nmod RN) NIs3 q ->
  Forall (rop_ok (tensor RN) (dense RN) (nmod RN) unit nkw (option bool) NIs3) ops ->
  run (RStep3 RN) (r_of (tensor RN) (dense RN) (nmod RN) R q) ops =
  rmap (fun p => (r_of (tensor RN) (dense RN) (nmod RN) R (fst p), snd p))
       (run (rspec_step (tensor RN) (dense RN) (nmod RN) unit nkw (option bool) tt nkw0 (dense_step RN)
               (nstep3 RN) (nspike3 RN) (dense_clear RN) (nclear3 RN) (tzeros_like RN) (tadd RN) false R) q ops).
Proof.
  intros. apply (recurrent_run_documented (tensor RN) (dense RN) (nmod RN) unit nkw (option bool) tt nkw0
                   (dense_step RN) (nstep3 RN) (nspike3 RN) (dense_clear RN) (nclear3 RN)
                   (tzeros_like RN) (tadd RN) NIs3); auto.
  - apply c03_spike_attr_is_output.
  - apply Hclr_s3.
Qed.
