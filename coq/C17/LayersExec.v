(* Executable instance of the C17 layer model (binary64 numbers) for the correspondence check:
   generic layers of C17/Layers.v instantiated with the LinearDense+DeltaCurrent / LIF / ALIF component models of
   C17/Components.v, plus the serialiser of outputs and complete state snapshots.  No theorem depends on this file. *)
From Coq Require Import List ZArith Bool Arith PrimFloat.
From Inferno Require Import Base.Num Base.NumF C17.Layers C17.Components.
Import ListNotations.

Definition tens := tensor FN.
Definition dens := dense FN.
Definition neur := neuron FN.
Definition xkw := option bool.        (* kwargs of clear: keep_adaptations *)

Definition lay := @layer dens neur.
Definition ser0 := @serial tens dens neur.
Definition bic0 := @biclique tens dens neur.
Definition rec0 := @recurrent tens dens neur.

Definition s_step : ser0 -> _ -> _ :=
  @serial_step tens dens neur unit nkw xkw tt nkw0 (dense_step FN) (neuron_step FN) (dense_clear FN) (neuron_clear FN).
Definition b_step : bic0 -> _ -> _ :=
  @biclique_step tens dens neur unit nkw xkw tt nkw0 (dense_step FN) (neuron_step FN) (dense_clear FN) (neuron_clear FN).
Definition r_step : rec0 -> _ -> _ :=
  @recurrent_step tens dens neur unit nkw xkw tt nkw0 (dense_step FN) (neuron_step FN) (neuron_spike FN)
     (dense_clear FN) (neuron_clear FN) (tzeros_like FN) (tadd FN).

Definition compat0 (c : dens) (n : neur) : bool := shape_eqb (d_out FN c) (n_shape FN n).

(* ---------- constructors used by the generated case terms ---------- *)
Definition mk_dense (i o : list nat) (B : nat) (dt q : float) (W : list (list float)) (b : option (list float))
    (dl : option (nat * list (list nat))) : dens :=
  dense_fresh FN (mkDense FN i o B dt q W b dl [] 0%nat).
Definition mk_neuron (sh : list nat) (B : nat) (dt rest reset thresh refrac tc r : float)
    (acfg : option (list (float * float))) : neur :=
  let k := match acfg with Some c => length c | None => 0%nat end in
  neuron_fresh FN (mkNeuron FN sh B dt rest reset thresh refrac tc r acfg true [] []
                     (match acfg with Some _ => repeat (repeat 0%float k) (nel sh) | None => [] end)).
Definition set_adapt (a : list (list float)) (n : neur) : neur := set_dyn FN n (n_volt FN n) (n_refr FN n) a.
Definition T_ (sh : list nat) (el : list float) : tens := @mkT FN sh el.

(* ---------- serialisation ---------- *)
Definition ser_shape (s : list nat) : tree := ser_list ser_nat s.
Definition ser_tensor (t : tens) : tree := Nd [ser_shape (tsh t); ser_list ser_float (@tel FN t)].
Definition ser_dict (d : list (Z * tens)) : tree := ser_list (fun p => Nd [L (fst p); ser_tensor (snd p)]) d.
Definition ser_dense (c : dens) : tree :=
  Nd [ser_list (ser_list ser_float) (d_W FN c); ser_option (ser_list ser_float) (d_bias FN c);
      ser_list (ser_list ser_bool) (d_rows FN c); ser_nat (d_ptr FN c)].
Definition ser_neuron (n : neur) : tree :=
  Nd [ser_list ser_float (n_volt FN n); ser_list ser_float (n_refr FN n);
      ser_list (ser_list ser_float) (n_adapt FN n); ser_tensor (neuron_spike FN n)].
Definition ser_layer (l : lay) : tree :=
  Nd [ser_list (fun p => Nd [L (fst p); ser_dense (snd p)]) (conns l);
      ser_list (fun p => Nd [L (fst p); ser_neuron (snd p)]) (neurs l)].

Section Trace.
Context {S Op O : Type}.
Variable step : S -> Op -> res (S * O).
Variable ser_o : Op -> O -> tree.
Variable ser_s : S -> tree.
(* per operation [0; output; state after]; an exception ends the trace with [1; code] *)
Fixpoint trace (s : S) (ops : list Op) : list tree :=
  match ops with
  | [] => []
  | o :: tl =>
      match step s o with
      | Ok (s', out) => Nd [L 0; ser_o o out; ser_s s'] :: trace s' tl
      | Err e => [Nd [L 1; L e]]
      end
  end.
Definition run_from (r : res S) (ops : list Op) : tree :=
  match r with
  | Err e => Nd [Nd [L 1; L e]]
  | Ok s => Nd (Nd [L 0; Nd []; ser_s s] :: trace s ops)
  end.
End Trace.

Definition ser_sout (o : serial_op tens dens neur unit nkw xkw) (out : option (tens * tens)) : tree :=
  match o, out with
  | SFwd _ _ _ true, Some (z, y) => Nd [ser_tensor z; ser_tensor y]
  | SFwd _ _ _ false, Some (z, _) => Nd [ser_tensor z]
  | _, _ => Nd []
  end.
Definition ser_bout (o : biclique_op tens dens neur unit nkw xkw) (out : option (list (Z * tens) * list (Z * tens)))
  : tree :=
  match o, out with
  | BFwd _ _ _ true, Some (zs, ys) => Nd [ser_dict zs; ser_dict ys]
  | BFwd _ _ _ false, Some (zs, _) => Nd [ser_dict zs]
  | _, _ => Nd []
  end.
Definition ser_rout (o : recurrent_op tens dens neur unit nkw xkw) (out : option ((tens * tens) * list (Z * tens)))
  : tree :=
  match o, out with
  | RFwd _ _ _ _ _ _ _ _ true, Some ((z1, z2), ys) => Nd [ser_tensor z1; ser_tensor z2; ser_dict ys]
  | RFwd _ _ _ _ _ _ _ _ false, Some ((z1, z2), _) => Nd [ser_tensor z1; ser_tensor z2]
  | _, _ => Nd []
  end.

Definition run_serial (c : dens) (n : neur) (t : option (tr FN)) (cn nn : Z)
    (ops : list (serial_op tens dens neur unit nkw xkw)) : tree :=
  run_from s_step ser_sout (fun S => ser_layer (s_layer S))
    (serial_new tens dens neur compat0 c n (option_map (tr_fn FN) t) cn nn) ops.

Definition cmb (m : option cmode) : list (Z * tens) -> res tens :=
  match m with
  | Some m => combine_builtin FN m
  (* the custom combine used by the harness: first tensor minus the sum of the others' first... kept simple:
     lambda d: 2 * list(d.values())[0] *)
  | None => fun ts => match ts with
                      | [] => Err EIndex
                      | (_, t) :: _ => Ok (tr_fn FN (TrScale FN 2%float) t)
                      end
  end.
Definition run_biclique (cs : list (Z * dens * option (tr FN))) (ns : list (Z * neur * option (tr FN)))
    (m : option cmode) (ops : list (biclique_op tens dens neur unit nkw xkw)) : tree :=
  run_from b_step ser_bout (fun B => ser_layer (b_layer B))
    (biclique_new tens dens neur compat0
       (map (fun p => (fst p, option_map (tr_fn FN) (snd p))) cs)
       (map (fun p => (fst p, option_map (tr_fn FN) (snd p))) ns) (cmb m)) ops.

Definition run_recurrent (cff clat cfb : dens) (nff nfb : neur) (tff tlat tfb : option (tr FN))
    (ilat ifb : option itr) (ffc latc fbc ffn fbn : Z) (trainable : bool)
    (ops : list (recurrent_op tens dens neur unit nkw xkw)) : tree :=
  run_from r_step ser_rout
    (fun R => Nd [ser_layer (r_layer R); ser_option ser_tensor (r_fbs R)])
    (recurrent_new tens dens neur compat0 cff clat cfb nff nfb
       (option_map (tr_fn FN) tff) (option_map (tr_fn FN) tlat) (option_map (tr_fn FN) tfb)
       (option_map (itr_fn FN) ilat) (option_map (itr_fn FN) ifb) ffc latc fbc ffn fbn trainable) ops.
