(* Real-number part of the C17 component proofs: the spike ATTRIBUTE of a LIF/ALIF group (refrac == refrac_t,
   neurons/mixins.py SpikeRefractoryMixin.spike) against the spikes its forward RETURNED, about the generated kernel
   Gen.NeuronDynamics.voltage_thresholding_constant; the documented RecurrentSerial recurrence as a consequence
   (refrac_t > 0), and its refutation for refrac_t = 0. *)
From Coq Require Import List ZArith Bool Arith Lia Reals Lra.
From Inferno Require Import Base.Num Base.NumR Gen.NeuronDynamics Gen.NeuronAdaptation
     C17.Layers C17.LayersSpec C17.Components C17.LayersProofs C17.ComponentsProofs.
Import ListNotations.
Open Scope R_scope.

Lemma Reqb'_refl x : Reqb' x x = true.
Proof. destruct (Reqb'_spec x x); auto. Qed.
Lemma Reqb'_neq x y : x <> y -> Reqb' x y = false.
Proof. intros H. destruct (Reqb'_spec x y); auto. contradiction. Qed.

(* one neuron, one step: the refractory time left is refrac_t exactly when the neuron fired *)
Lemma lif_elem_spike n lock thr x v r :
  0 < n_refrac_t RN n -> 0 < n_dt RN n -> r <= n_refrac_t RN n ->
  Reqb' (snd (lif_elem RN n lock thr x v r)) (n_refrac_t RN n) = fst (fst (lif_elem RN n lock thr x v r)) /\
  snd (lif_elem RN n lock thr x v r) <= n_refrac_t RN n.
Proof.
  intros Hrt Hdt Hr. unfold lif_elem, voltage_thresholding_constant. rn_unfold. cbv zeta.
  set (r0 := if Rltb' (r - n_dt RN n) 0 then 0 else r - n_dt RN n).
  assert (H0 : r0 < n_refrac_t RN n).
  { unfold r0. destruct (Rltb'_spec (r - n_dt RN n) 0); lra. }
  destruct lock; simpl;
    match goal with |- context [negb (?a && ?b)] => destruct (a && b) end; simpl;
    try (split; [apply Reqb'_refl|lra]); split; try lra; apply Reqb'_neq; lra.
Qed.

Definition rt_ok (n : neuron RN) (refr : list R) : Prop := Forall (fun r => r <= n_refrac_t RN n) refr.
Lemma zip4_spike n lock : forall thr x v r,
  0 < n_refrac_t RN n -> 0 < n_dt RN n -> rt_ok n r ->
  map (fun p => b2t RN (Reqb' (snd p) (n_refrac_t RN n))) (zip4 RN (lif_elem RN n lock) thr x v r) =
  map (fun p => b2t RN (fst (fst p))) (zip4 RN (lif_elem RN n lock) thr x v r) /\
  rt_ok n (map snd (zip4 RN (lif_elem RN n lock) thr x v r)).
Proof.
  remember (lif_elem RN n lock) as f eqn:Hf.
  induction thr as [|t thr IH]; intros [|x0 x] [|v0 v] [|r0 r] Hrt Hdt Hr; simpl; try (split; [reflexivity|constructor]).
  pose proof (Forall_inv Hr) as H1. pose proof (Forall_inv_tail Hr) as H2. destruct (IH x v r Hrt Hdt H2) as [E F].
  destruct (lif_elem_spike n lock t x0 v0 r0 Hrt Hdt H1) as [E1 F1]. rewrite <- Hf in E1, F1.
  split.
  - f_equal; [f_equal; exact E1|exact E].
  - constructor; auto.
Qed.

(* the invariant under which the spike attribute is trustworthy: refrac_t > 0 (and no refractory time above it) *)
Definition NIs (n : neuron RN) : Prop :=
  NI RN n /\ 0 < n_refrac_t RN n /\ 0 < n_dt RN n /\ rt_ok n (n_refr RN n).

(* spike_attr_is_output: after every forward of a LIF/ALIF group with refrac_t > 0 the attribute .spike equals the
   spikes the call returned *)
Theorem Hspk n kw x n' z : NIs n -> neuron_step RN n kw x = Ok (n', z) -> neuron_spike RN n' = z /\ NIs n'.
Proof.
  intros (HI & Hrt & Hdt & Hr) H.
  pose proof (Hn_step RN _ _ _ _ _ HI H) as HI'.
  destruct (neuron_step_inv RN _ _ _ _ _ H) as (_ & _ & Z & _ & R' & S' & B' & _ & T' & D' & _).
  destruct (zip4_spike n (k_lock kw) (concat (repeat (thresholds RN n) (n_B RN n))) (tel x)
              (n_volt RN n) (n_refr RN n) Hrt Hdt Hr) as [E F].
  split.
  - unfold neuron_spike. rewrite R', S', B', T', Z, map_map. f_equal. exact E.
  - unfold NIs, rt_ok. rewrite T', D', R'. auto.
Qed.
Lemma Hclr_s (xk : option bool) n : NIs n -> NIs (neuron_clear RN xk n).
Proof.
  intros (HI & Hrt & Hdt & Hr). split; [apply Hn_clear_inv; auto|]. unfold neuron_clear, rt_ok; simpl.
  repeat split; auto. rewrite Forall_map. apply Forall_forall. intros; rn_simpl; lra.
Qed.

(* recurrent_forward (concrete, flagship): a RecurrentSerial layer of LinearDense/DeltaCurrent connections and LIF/ALIF
   groups with refrac_t > 0 computes, for every operation sequence, the documented recurrence: feed-forward drive =
   tr_ff(C_ff(x_t)) + tr_fb(C_fb(in_fb(b_{t-1}))) with b_{-1} = 0 (also after clear), b_t = N_fb(tr_lat(C_lat(in_lat(z_t)))) *)
Theorem c17_recurrent_forward_documented R ops q :
  r_names_ok (tensor RN) (dense RN) (neuron RN) R ->
  q_ok (tensor RN) (dense RN) (neuron RN) NIs q ->
  Forall (rop_ok (tensor RN) (dense RN) (neuron RN) unit nkw (option bool) NIs) ops ->
  run (RStep RN) (r_of (tensor RN) (dense RN) (neuron RN) R q) ops =
  rmap (fun p => (r_of (tensor RN) (dense RN) (neuron RN) R (fst p), snd p))
       (run (rspec_step (tensor RN) (dense RN) (neuron RN) unit nkw (option bool) tt nkw0 (dense_step RN)
               (neuron_step RN) (neuron_spike RN) (dense_clear RN) (neuron_clear RN) (tzeros_like RN) (tadd RN)
               false R) q ops).
Proof.
  intros. apply (recurrent_run_documented (tensor RN) (dense RN) (neuron RN) unit nkw (option bool) tt nkw0
                   (dense_step RN) (neuron_step RN) (neuron_spike RN) (dense_clear RN) (neuron_clear RN)
                   (tzeros_like RN) (tadd RN) NIs); auto.
  - apply Hspk.
  - apply Hclr_s.
Qed.

(* ---------- refrac_t = 0: the attribute is all-True whatever the neurons did ---------- *)
Lemma lif_elem_rt0 n lock thr x v :
  n_refrac_t RN n = 0 -> 0 < n_dt RN n ->
  snd (lif_elem RN n lock thr x v 0) = 0.
Proof.
  intros Hrt Hdt. unfold lif_elem, voltage_thresholding_constant. rn_unfold. cbv zeta.
  destruct (Rltb'_spec (0 - n_dt RN n) 0); [|lra].
  destruct lock; simpl; match goal with |- context [negb (?a && ?b)] => destruct (a && b) end; simpl; auto.
Qed.
Lemma quiet_arith (a b c : R) : a + (a - a - b * (0 * 1)) * c + b * (0 * 1) = a.
Proof. ring. Qed.
Lemma lif_elem_quiet n thr :
  0 < n_dt RN n -> n_rest RN n < thr ->
  fst (fst (lif_elem RN n true thr 0 (n_rest RN n) 0)) = false.
Proof.
  intros Hdt Hth. unfold lif_elem, voltage_thresholding_constant, voltage_integration_linear. rn_unfold. cbv zeta.
  destruct (Rltb'_spec (0 - n_dt RN n) 0); [|lra].
  rewrite Reqb'_refl. simpl.
  rewrite quiet_arith.
  destruct (Rleb'_spec thr (n_rest RN n)); auto. lra.
Qed.

Definition n0 : neuron RN :=
  mkNeuron RN [1%nat] 1%nat 1 0 (-1) 1 0 1 1 None true [0] [0] [].
Definition x0 : tensor RN := @mkT RN [1%nat; 1%nat] [0].

(* spike_attr_refuted: a LIF group with refrac_t = 0, at rest, receiving zero current: forward returns "no spike",
   the spike attribute afterwards says "spike" *)
Theorem spike_attr_refuted :
  exists n' z, NI RN n0 /\ n_refrac_t RN n0 = 0 /\ neuron_step RN n0 nkw0 x0 = Ok (n', z) /\
               tel z = [0] /\ tel (neuron_spike RN n') = [1].
Proof.
  destruct (neuron_step RN n0 nkw0 x0) as [[n' z]|e] eqn:E.
  2:{ unfold neuron_step in E. simpl in E. discriminate. }
  exists n', z. split; [unfold NI; simpl; repeat split; auto; congruence|]. split; [reflexivity|]. split; [reflexivity|].
  destruct (neuron_step_inv RN _ _ _ _ _ E) as (_ & _ & Z & _ & R' & S' & B' & _ & T' & _).
  assert (Hz : zip4 RN (lif_elem RN n0 (k_lock nkw0)) (concat (repeat (thresholds RN n0) (n_B RN n0))) (tel x0)
                 (n_volt RN n0) (n_refr RN n0) = [lif_elem RN n0 true 1 0 0 0]) by reflexivity.
  rewrite Hz in Z, R'. clear Hz.
  assert (Q : fst (fst (lif_elem RN n0 true 1 0 0 0)) = false).
  { apply (lif_elem_quiet n0 1); simpl; lra. }
  assert (P : snd (lif_elem RN n0 true 1 0 0 0) = 0).
  { apply (lif_elem_rt0 n0 true 1 0 0); simpl; auto; lra. }
  split.
  - rewrite Z. cbn [tel map]. rewrite Q. reflexivity.
  - unfold neuron_spike. rewrite R', T'. cbn [tel map]. rewrite P. change (n_refrac_t RN n0) with 0.
    rn_simpl. rewrite Reqb'_refl. reflexivity.
Qed.

(* ---------- the same at the level of the layer: a RecurrentSerial of refrac_t = 0 groups does NOT compute the
   documented recurrence.  One feed-forward and one feedback neuron, zero drive, first step: no neuron fires, yet the
   lateral connection is fed "the feed-forward neuron fired" and the stored feedback says "the feedback neuron fired". *)
Definition c0 : dense RN := mkDense RN [1%nat] [1%nat] 1%nat 1 1 [[1]] None None [[false]] 0%nat.
Definition R0 : recurrent (tensor RN) (dense RN) (neuron RN) :=
  mkRecurrent (tensor RN) (dense RN) (neuron RN) (mkLayer [] []) None 1%Z 2%Z 3%Z 1%Z 2%Z
    (fun _ => x0) (fun y => y) (fun _ => x0) (fun s => [s]) (fun s => [s]).
Definition q0 := mkRstate (tensor RN) (dense RN) (neuron RN) c0 c0 c0 n0 n0 None.
Definition fwd_spec (attr : bool) :=
  rspec_forward (tensor RN) (dense RN) (neuron RN) unit nkw tt nkw0 (dense_step RN) (neuron_step RN)
    (neuron_spike RN) (tzeros_like RN) (tadd RN) attr R0 q0 [x0] [] [] None None None None None.
Definition fwd_layer :=
  recurrent_forward (tensor RN) (dense RN) (neuron RN) unit nkw tt nkw0 (dense_step RN) (neuron_step RN)
    (neuron_spike RN) (tzeros_like RN) (tadd RN) (r_of (tensor RN) (dense RN) (neuron RN) R0 q0)
    [x0] [] [] None None None None None.

Lemma P00 : snd (lif_elem RN n0 true 1 (0 + 0) 0 0) = 0.
Proof. apply (lif_elem_rt0 n0 true 1 (0 + 0) 0); simpl; auto; lra. Qed.
Lemma Q00 : fst (fst (lif_elem RN n0 true 1 (0 + 0) 0 0)) = false.
Proof. replace (0 + 0) with 0 by lra. apply (lif_elem_quiet n0 1); simpl; lra. Qed.
Lemma nz1 : nz RN 1 = true.
Proof. unfold nz. rn_simpl. rewrite (Reqb'_neq 1 0) by lra. reflexivity. Qed.
Lemma nz0 : nz RN 0 = false.
Proof. unfold nz. rn_simpl. rewrite Reqb'_refl. reflexivity. Qed.

Theorem recurrent_spike_attr_refuted :
  r_names_ok (tensor RN) (dense RN) (neuron RN) R0 /\
  exists q_doc out_doc,
    fwd_spec false = Ok (q_doc, out_doc) /\
    fwd_layer <> Ok (r_of (tensor RN) (dense RN) (neuron RN) R0 q_doc, out_doc).
Proof.
  split; [unfold r_names_ok; simpl; repeat split; discriminate|].
  destruct (fwd_spec false) as [[q_doc out_doc]|e] eqn:E.
  2:{ unfold fwd_spec, rspec_forward in E. cbn -[lif_elem nz to_current dot] in E. discriminate. }
  exists q_doc, out_doc. split; auto.
  unfold fwd_layer. rewrite recurrent_forward_spec by (unfold r_names_ok; simpl; repeat split; discriminate).
  fold (fwd_spec true).
  unfold fwd_spec, rspec_forward in E. cbn -[lif_elem nz to_current dot] in E.
  unfold fwd_spec, rspec_forward. cbn -[lif_elem nz to_current dot].
  match type of E with context [lif_elem RN n0 true ?t ?x 0 0] =>
    set (L := lif_elem RN n0 true t x 0 0) in * end.
  assert (PL : snd L = 0) by exact P00.
  assert (QL : fst (fst L) = false) by exact Q00.
  clearbody L.
  intros H. inversion E; subst q_doc out_doc; clear E.
  unfold LayersSpec.r_of, r_with in H. cbn -[lif_elem nz to_current dot] in H.
  inversion H as [[H1 H2]]. clear - H1 PL QL.
  destruct L as [[s v] r]. simpl in *. subst s r. rewrite Reqb'_refl in H1.
  change (nz RN 1 = nz RN 0) in H1. rewrite nz1, nz0 in H1. discriminate.
Qed.

Theorem spike_attr_is_output n kw x n' z :
  NIs n -> neuron_step RN n kw x = Ok (n', z) -> neuron_spike RN n' = z /\ NIs n'.
Proof. apply Hspk. Qed.

(* ---------- Biclique built-in combine modes, element by element (real numbers) ---------- *)
Lemma map2_length {A B C} (f : A -> B -> C) a b : length (map2 f a b) = Nat.min (length a) (length b).
Proof. revert b. induction a as [|x a IH]; intros [|y b]; simpl; auto. Qed.
Lemma nth_map2 {A} (f : A -> A -> A) a b i d :
  (i < length a)%nat -> (i < length b)%nat -> nth i (map2 f a b) d = f (nth i a d) (nth i b d).
Proof.
  revert b i. induction a as [|x a IH]; intros [|y b] [|i]; simpl; intros; try lia; auto.
  apply IH; lia.
Qed.
Lemma fold_map2_nth (op : R -> R -> R) (rest : list (tensor RN)) : forall (a0 : list R) n i,
  length a0 = n -> Forall (fun t : tensor RN => length (tel t) = n) rest -> (i < n)%nat ->
  length (fold_left (fun a (t : tensor RN) => map2 op a (tel t)) rest a0) = n /\
  nth i (fold_left (fun a (t : tensor RN) => map2 op a (tel t)) rest a0) 0 =
  fold_left op (map (fun t : tensor RN => nth i (tel t) 0) rest) (nth i a0 0).
Proof.
  induction rest as [|t rest IH]; intros a0 n i Ha Hr Hi; simpl; auto.
  inversion Hr as [|? ? H1 H2]; subst.
  destruct (IH (map2 op a0 (tel t)) (length a0) i) as [L E]; auto.
  { rewrite map2_length. cbn [T RN] in *. rewrite H1. apply Nat.min_id. }
  split; auto. rewrite E. f_equal. apply nth_map2; cbn [T RN] in *; lia.
Qed.
Lemma fold_left_plus_tsum l a : fold_left Rplus l a = a + tsum RN l.
Proof.
  revert a. induction l as [|x l IH]; intros a; simpl.
  - rn_simpl. lra.
  - rewrite IH. rn_simpl. lra.
Qed.
Fixpoint tprod (l : list R) : R := match l with [] => 1 | x :: t => x * tprod t end.
Lemma fold_left_mult_tprod l a : fold_left Rmult l a = a * tprod l.
Proof.
  revert a. induction l as [|x l IH]; intros a; simpl.
  - lra.
  - rewrite IH. ring.
Qed.

Definition column (i : nat) (ts : list (Z * tensor RN)) : list R :=
  map (fun p : Z * tensor RN => nth i (tel (snd p)) 0) ts.

(* combine = "sum" / "mean" / "prod": every element of the drive is the sum / mean / product, over the connections
   present in the inputs, of that element of their (transformed) outputs *)
Theorem combine_sum_mean_prod_pointwise m ts t n i :
  combine_builtin RN m ts = Ok t ->
  Forall (fun p : Z * tensor RN => length (tel (snd p)) = n) ts -> (i < n)%nat ->
  match m with
  | CSum => nth i (@tel RN t) 0 = tsum RN (column i ts)
  | CMean => nth i (@tel RN t) 0 = tsum RN (column i ts) / IZR (Z.of_nat (length ts))
  | CProd => nth i (@tel RN t) 0 = tprod (column i ts)
  | _ => True
  end.
Proof.
  unfold combine_builtin, column. intros H Hl Hi.
  destruct ts as [|[k0 t0] rest]; simpl in H; [discriminate|].
  destruct (forallb _ (map snd rest)); [|discriminate].
  pose proof (Forall_inv Hl) as H1. pose proof (Forall_inv_tail Hl) as H2. simpl in H1.
  assert (Hr : Forall (fun t : tensor RN => length (tel t) = n) (map snd rest)).
  { rewrite Forall_map. exact H2. }
  destruct m; inversion H; subst t; clear H; simpl; auto.
  - destruct (fold_map2_nth Rplus (map snd rest) (tel t0) n i H1 Hr Hi) as [_ E].
    rn_simpl. rewrite E, fold_left_plus_tsum, map_map. reflexivity.
  - destruct (fold_map2_nth Rplus (map snd rest) (tel t0) n i H1 Hr Hi) as [L E].
    rn_simpl.
    rewrite (nth_indep _ 0 (0 / IZR (Z.of_nat (S (length (map snd rest)))))) by (rewrite map_length, L; exact Hi).
    change (0 / IZR (Z.of_nat (S (length (map snd rest))))) with
      ((fun s => s / IZR (Z.of_nat (S (length (map snd rest))))) 0).
    rewrite map_nth. rewrite E, fold_left_plus_tsum, !map_map, map_length. reflexivity.
  - destruct (fold_map2_nth Rmult (map snd rest) (tel t0) n i H1 Hr Hi) as [_ E].
    rn_simpl. rewrite E, fold_left_mult_tprod, map_map. reflexivity.
Qed.

Lemma fold_min_aux (l : list R) : forall a v : R, v = fold_left (tmin RN) l a ->
  (v = a \/ In v l) /\ v <= a /\ Forall (fun x => v <= x) l.
Proof.
  induction l as [|x l IH]; intros a v Hv; simpl in Hv.
  - subst. repeat split; auto; lra.
  - apply IH in Hv. destruct Hv as (M & B & F).
    assert (T : (tmin RN a x = a \/ tmin RN a x = x) /\ tmin RN a x <= a /\ tmin RN a x <= x).
    { unfold tmin. rn_simpl. destruct (Rltb'_spec x a); repeat split; auto; lra. }
    destruct T as (T1 & T2 & T3). repeat split.
    + destruct M as [M|M]; [rewrite M; destruct T1 as [T1|T1]; rewrite T1; simpl; auto|simpl; auto].
    + lra.
    + constructor; [lra|exact F].
Qed.
Lemma fold_min l a : let v := fold_left (tmin RN) l a in (v = a \/ In v l) /\ v <= a /\ Forall (fun x => v <= x) l.
Proof. apply fold_min_aux. reflexivity. Qed.
Lemma fold_max_aux (l : list R) : forall a v : R, v = fold_left (tmax RN) l a ->
  (v = a \/ In v l) /\ a <= v /\ Forall (fun x => x <= v) l.
Proof.
  induction l as [|x l IH]; intros a v Hv; simpl in Hv.
  - subst. repeat split; auto; lra.
  - apply IH in Hv. destruct Hv as (M & B & F).
    assert (T : (tmax RN a x = a \/ tmax RN a x = x) /\ a <= tmax RN a x /\ x <= tmax RN a x).
    { unfold tmax. rn_simpl. destruct (Rltb'_spec a x); repeat split; auto; lra. }
    destruct T as (T1 & T2 & T3). repeat split.
    + destruct M as [M|M]; [rewrite M; destruct T1 as [T1|T1]; rewrite T1; simpl; auto|simpl; auto].
    + lra.
    + constructor; [lra|exact F].
Qed.
Lemma fold_max l a : let v := fold_left (tmax RN) l a in (v = a \/ In v l) /\ a <= v /\ Forall (fun x => x <= v) l.
Proof. apply fold_max_aux. reflexivity. Qed.
(* combine = "min" / "max": every element of the drive is the least / greatest of that element over the connections *)
Theorem combine_min_max_pointwise m ts t n i :
  combine_builtin RN m ts = Ok t ->
  Forall (fun p : Z * tensor RN => length (tel (snd p)) = n) ts -> (i < n)%nat ->
  match m with
  | CMin => In (nth i (@tel RN t) 0) (column i ts) /\ Forall (fun x => nth i (@tel RN t) 0 <= x) (column i ts)
  | CMax => In (nth i (@tel RN t) 0) (column i ts) /\ Forall (fun x => x <= nth i (@tel RN t) 0) (column i ts)
  | _ => True
  end.
Proof.
  unfold combine_builtin, column. intros H Hl Hi.
  destruct ts as [|[k0 t0] rest]; simpl in H; [discriminate|].
  destruct (forallb _ (map snd rest)); [|discriminate].
  pose proof (Forall_inv Hl) as H1. pose proof (Forall_inv_tail Hl) as H2. simpl in H1.
  assert (Hr : Forall (fun t : tensor RN => length (tel t) = n) (map snd rest)).
  { rewrite Forall_map. exact H2. }
  destruct m; inversion H; subst t; clear H; simpl; auto.
  - destruct (fold_map2_nth (tmin RN) (map snd rest) (tel t0) n i H1 Hr Hi) as [_ E].
    rewrite E, map_map. destruct (fold_min (map (fun x : Z * tensor RN => nth i (tel (snd x)) 0) rest) (nth i (tel t0) 0))
      as (M & B & F).
    split; [destruct M as [M|M]; [left; symmetry; exact M|right; exact M]|constructor; auto].
  - destruct (fold_map2_nth (tmax RN) (map snd rest) (tel t0) n i H1 Hr Hi) as [_ E].
    rewrite E, map_map. destruct (fold_max (map (fun x : Z * tensor RN => nth i (tel (snd x)) 0) rest) (nth i (tel t0) 0))
      as (M & B & F).
    split; [destruct M as [M|M]; [left; symmetry; exact M|right; exact M]|constructor; auto].
Qed.
