(* The connection component of the C17 layer model instantiated with the C04 development's model of ALL FOUR synapse
   classes (Inferno.C04.Synapse: DeltaCurrent, DeltaPlusCurrent, SingleExponentialCurrent, DoubleExponentialCurrent, any
   number type, records = the C01 ring model, tied to the code by the C04 correspondence check) under an undelayed
   LinearDense map (connections/linear.py:306-355, F.linear branch).  C04 / C01 are Required WITHOUT Import and their
   names are qualified (S4., R1.); nothing there is edited.  Definitions only.
   The synapse's configured shape is the batched shape (B, in) the connection's like_synaptic produces. *)
From Coq Require Import List ZArith Bool Arith.
From Inferno Require Import Base.Num C17.Layers C17.Components.
From Inferno Require C01.Ring C04.Synapse.
Import ListNotations.

Module S4 := Inferno.C04.Synapse.
Module R1 := Inferno.C01.Ring.

Section Adapter4.
Variable N : Num.
Notation R := (T N).

Record conn4 := mkConn4 {
  k_cfg : S4.cfg N;              (* synapse class and constructor arguments; cshape = (B, in) *)
  k_syn : S4.syn N;              (* the synapse's records *)
  k_out : list nat;              (* out_shape *)
  k_W : list (list R);           (* weight, out x in *)
  k_bias : option (list R)
}.
Definition k_sh (c : conn4) : list nat := S4.cshape N (k_cfg c).
Definition k_B (c : conn4) : nat := hd 0 (k_sh c).
Definition k_in (c : conn4) : nat := nel (tl (k_sh c)).
Definition with_syn (c : conn4) (s : S4.syn N) : conn4 := mkConn4 (k_cfg c) s (k_out c) (k_W c) (k_bias c).
Definition err_code (e : R1.err) : Z := match e with R1.ERuntime => 1 | R1.EValue => 2 | R1.EIndex => 3 end%Z.
Definition abias (c : conn4) (o : nat) (v : R) : R :=
  match k_bias c with Some b => add N v (nth o b (zero N)) | None => v end.
(* F.linear(current, weight, bias), current of shape (B, in) *)
Definition linear4 (c : conn4) (cur : list R) : list R :=
  concat (map (fun b => let row := firstn (k_in c) (skipn (b * k_in c) cur) in
                        map (fun o => abias c o (dot N row (nth o (k_W c) []))) (seq 0 (nel (k_out c))))
              (seq 0 (k_B c))).
(* Connection.__call__: like_synaptic, synapse forward (inputs[0] spikes, inputs[1:] injected currents), linear map *)
Definition cstep4 (c : conn4) (_ : unit) (xs : list (tensor N)) : res (conn4 * tensor N) :=
  match xs with
  | [] => Err EIndex
  | x :: inj =>
      match tsh x with
      | [] => Err ERuntime
      | b :: rest =>
          (* (well-formedness of the tensors: always true of torch tensors) *)
          if negb ((length (tel x) =? R1.nel (k_sh c)) && forallb (fun t => length (tel t) =? R1.nel (k_sh c)) inj)
          then Err EValue
          else
            match S4.forward N (k_cfg c) (k_syn c) [b; nel rest] (tel x) (map tel inj) with
            | S4.SErr e => Err (err_code e)
            | S4.SOk (s', S4.SOFloat _ _ vals) => Ok (with_syn c s', mkT (k_B c :: k_out c) (linear4 c vals))
            | S4.SOk _ => Err ERuntime
            end
      end
  end.
(* Connection.clear -> Synapse.clear *)
Definition cclear4 (_ : option bool) (c : conn4) : conn4 := with_syn c (S4.clear N (k_cfg c) (k_syn c)).
(* the freshly constructed connection (C04's init = the synapse constructor's records) with c's weights and biases *)
Definition cfresh4 (c : conn4) : conn4 := with_syn c (S4.init N (k_cfg c)).
End Adapter4.
