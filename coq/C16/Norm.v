(* Numeric kernels behind the Clamping / Normalization state hooks, written once over the numeric
   signature (Base.Num): real reading for the theorems, binary64 reading for the correspondence run.
   Definitions only.

   hand-transcribed: inferno/neural/hooks.py:47-52, 65-81 (Normalization), 119-123, 136-150 (Clamping);
                     inferno/core/math.py:103-125 (normalize = scale * F.normalize(data, p, dim, eps));
                     torch.nn.functional.normalize (input / input.norm(p, dim, keepdim=True).clamp_min(eps));
                     torch.linalg.vector_norm for p in {inf, -inf, 1, 2, other p}; torch.clamp(x, min, max). *)
From Coq Require Import List ZArith Bool.
From Inferno Require Import Base.Num C16.Hooks.
Import ListNotations.

Section Norm.
Variable N : Num.

(* torch.clamp(x, min=lo, max=hi) = min(max(x, lo), hi), either bound may be None *)
Definition clamp (lo hi : option (T N)) (x : T N) : T N :=
  let y := match lo with Some l => tmax N x l | None => x end in
  match hi with Some h => tmin N y h | None => y end.

(* Clamping.__init__: argtest.onedefined(min, max) -> RuntimeError; both given: argtest.gt(max, min) -> ValueError *)
Definition clamping_new (lo hi : option (T N)) : option err :=
  match lo, hi with
  | None, None => Some ERuntime
  | Some l, Some h => if ltb N l h then None else Some EValue
  | _, _ => None
  end.

Inductive order := PInf | PNegInf | POne | PTwo | PReal (p : T N).

(* torch.linalg.vector_norm along the reduced dimensions (x = the elements of one fibre) *)
Definition pnorm (o : order) (x : list (T N)) : T N :=
  match o with
  | PInf => fold_right (fun a acc => tmax N (abs N a) acc) (zero N) x
  | PNegInf =>
      match x with
      | [] => zero N
      | a :: t => fold_right (fun b acc => tmin N (abs N b) acc) (abs N a) t
      end
  | POne => tsum N (map (abs N) x)
  | PTwo => sqrt N (tsum N (map (fun a => mul N a a) x))
  | PReal p => pow N (tsum N (map (fun a => pow N (abs N a) p) x)) (div N (one N) p)
  end.

(* inferno.normalize restricted to one fibre: scale * (x / max(||x||_p, eps)) *)
Definition normalize_vec (o : order) (scale eps : T N) (x : list (T N)) : list (T N) :=
  let d := tmax N (pnorm o x) eps in
  map (fun a => mul N scale (div N a d)) x.

(* the whole tensor = the list of its fibres along `dim` *)
Definition normalize_fibres (o : order) (scale eps : T N) (xs : list (list (T N))) : list (list (T N)) :=
  map (normalize_vec o scale eps) xs.

(* Normalization.__init__: argtest.neq(order, 0), argtest.neq(scale, 0) -> ValueError *)
Definition order_is_zero (o : order) : bool :=
  match o with PReal p => eqb N p (zero N) | _ => false end.
Definition normalization_new (o : order) (scale : T N) : option err :=
  if order_is_zero o then Some EValue else if eqb N scale (zero N) then Some EValue else None.

(* ---- a state hook with a numeric effect on one attribute, observed through one module call ----
   The probe module's forward doubles the attribute (exact in binary64), so that running the hook
   before or after forward is visible in the value.  `reg`: the hook is registered; te/ee: trainexec /
   evalexec; training: the module's mode; as_pre: as_prehook. *)
Definition probe_forward (data : list (list (T N))) : list (list (T N)) :=
  map (map (fun a => mul N (two N) a)) data.

Definition fires (reg te ee training : bool) : bool :=
  reg && armed (mkHook (mkCfg KState true false false false false false false 0) true te ee None None None) training.

Definition call_with_state_hook (kernel : list (list (T N)) -> list (list (T N)))
           (reg te ee training as_pre : bool) (data : list (list (T N))) : list (list (T N)) :=
  if fires reg te ee training then
    if as_pre then probe_forward (kernel data) else kernel (probe_forward data)
  else probe_forward data.

Definition clamp_kernel (lo hi : option (T N)) : list (list (T N)) -> list (list (T N)) :=
  map (map (clamp lo hi)).

(* ---- one run opportunity of a numeric state hook on the value currently reachable through the
   attribute path (rgetattr at run time; the hook keeps no reference to the target) ----
   fire: the dispatch decision (module call: `fires`; manual call: `manual_fires`). *)
Definition manual_fires (reg force ignore te ee training : bool) : bool :=
  (reg || force) && (ignore || fires true te ee training).

Definition hook_step (kernel : list (list (T N)) -> list (list (T N))) (fire : bool)
           (data : list (list (T N))) : list (list (T N)) :=
  if fire then kernel data else data.

(* the write-back  rsetattr(module, attr, value)  ends in setattr(owner, name, <plain Tensor>).  When the owner is
   an nn.Module and `name` is one of its registered parameters (a BARE nn.Parameter attribute, e.g. nn.Linear.weight),
   torch.nn.Module.__setattr__ raises TypeError("cannot assign ... as parameter ..."): the kernel's result is dropped,
   the target keeps its value and the exception propagates out of the hooked module's call.  (Property-backed
   parameters, as inferno's own components expose them, take the assignment.)
   hand-transcribed: inferno/neural/hooks.py:71-81, 142-150 + torch.nn.Module.__setattr__ *)
Definition hook_step_target (bare : bool) (kernel : list (list (T N)) -> list (list (T N))) (fire : bool)
           (data : list (list (T N))) : list (list (T N)) * option err :=
  if fire then (if bare then (data, Some EType) else (kernel data, None)) else (data, None).
End Norm.

(* data types of the target attribute: 0 bool, 1 int16, 2 int32, 3 int64, 4 float32, 5 float64 (the default
   dtype of the harness).  torch.clamp(tensor, min, max) with Python-number bounds: a floating tensor keeps its
   type; an integral / bool tensor is promoted to the default floating type if a bound is a Python float,
   otherwise bool becomes int64 and integers keep their type.  (So the value moved onto a fractional bound
   is stored exactly.) *)
Definition is_float_dt (dt : nat) : bool := Nat.leb 4 dt.
Definition bound_is_float (b : option bool) : bool := match b with Some true => true | _ => false end.
Definition clamp_dtype (dt : nat) (lo_float hi_float : option bool) : nat :=
  if is_float_dt dt then dt
  else if bound_is_float lo_float || bound_is_float hi_float then 5
  else if Nat.eqb dt 0 then 3 else dt.

Arguments PInf {N}. Arguments PNegInf {N}. Arguments POne {N}. Arguments PTwo {N}. Arguments PReal {N} p.
