(* Executable instance of the C16 models for the correspondence check: serialisers and case runners.
   (Imports the binary64 instance; no theorem depends on this file.) *)
From Coq Require Import List ZArith Bool PrimFloat.
From Inferno Require Import Base.Num Base.NumF C16.Hooks C16.Norm.
Import ListNotations.

(* ---------- state machine ---------- *)
Definition ser_err (e : err) : tree :=
  match e with ERuntime => L 1 | EValue => L 2 | EType => L 4 | EAttr => L 5 | EModel => L 99 end%Z.
Definition ser_event (e : event) : tree :=
  match e with
  | EFire h tag => Nd [ser_nat h; ser_nat tag]
  | EFwd m => Nd [L (-1)%Z; ser_nat m]
  end.
(* owner of a registered lambda as the implementation can observe it: the index of the hook object its
   weak reference resolves to, -1 when the reference is dead (dangling handle) *)
Definition ser_owner (hooks : list hook) (e : entry) : tree :=
  match nth_error hooks (e_hook e) with
  | Some k => if k_alive k then ser_nat (e_hook e) else L (-1)%Z
  | None => L (-1)%Z
  end.
Definition ser_mod (hooks : list hook) (md : module) : tree :=
  Nd [ser_bool (m_training md); ser_list (ser_owner hooks) (m_pre md); ser_list (ser_owner hooks) (m_post md);
      ser_list (fun e => ser_owner hooks e) (filter e_always (m_post md))].
Definition ser_hook (k : hook) : tree :=
  if k_alive k then Nd [L 1%Z; ser_bool (registered k); ser_bool (k_te k); ser_bool (k_ee k)]
  else Nd [L 0%Z].
Definition ser_world (w : world) : tree :=
  Nd [ser_list (ser_mod (w_hooks w)) (w_mods w); ser_list ser_hook (w_hooks w)].

(* per operation: [events; error option; world after] *)
Fixpoint trace (w : world) (ops : list op) : list tree :=
  match ops with
  | [] => []
  | o :: tl =>
      let '(w', ev, e) := step w o in
      Nd [ser_list ser_event ev; ser_option ser_err e; ser_world w'] :: trace w' tl
  end.
Definition run_case (nmods : nat) (ops : list op) : tree := Nd (trace (w0 nmods) ops).

(* ---------- numeric hooks ---------- *)
Definition ser_tensor (x : list (list float)) : tree := ser_list (ser_list ser_float) x.

(* result: [constructor error option; attribute value after one module call] *)
Definition clamp_case (lo hi : option float) (reg te ee training as_pre : bool) (data : list (list float)) : tree :=
  match clamping_new FN lo hi with
  | Some e => Nd [ser_option ser_err (Some e); Nd []]
  | None => Nd [ser_option ser_err None;
                ser_tensor (call_with_state_hook FN (clamp_kernel FN lo hi) reg te ee training as_pre data)]
  end.
Definition norm_case (o : @order FN) (scale eps : float) (reg te ee training as_pre : bool)
           (data : list (list float)) : tree :=
  match normalization_new FN o scale with
  | Some e => Nd [ser_option ser_err (Some e); Nd []]
  | None => Nd [ser_option ser_err None;
                ser_tensor (call_with_state_hook FN (normalize_fibres FN o scale eps) reg te ee training as_pre data)]
  end.

(* ---------- numeric hooks, one run opportunity on the observed current value ----------
   result: [error option; dtype; value].  Normalization of a non-floating tensor: vector_norm raises RuntimeError. *)
Definition ser_step (dt : nat) (r : list (list float) * option err) : tree :=
  Nd [ser_option ser_err (snd r); ser_nat dt; ser_tensor (fst r)].
Definition clamp_step (bare : bool) (lo hi : option (float * bool)) (dt : nat) (fire : bool) (data : list (list float)) : tree :=
  let r := hook_step_target FN bare (clamp_kernel FN (option_map fst lo) (option_map fst hi)) fire data in
  ser_step (if fire && negb bare then clamp_dtype dt (option_map snd lo) (option_map snd hi) else dt) r.
Definition norm_step (bare : bool) (o : @order FN) (scale eps : float) (dt : nat) (fire : bool) (data : list (list float)) : tree :=
  if fire && negb (is_float_dt dt) then ser_step dt (data, Some ERuntime)       (* vector_norm raises first *)
  else ser_step dt (hook_step_target FN bare (normalize_fibres FN o scale eps) fire data).
