(* Post-conditions of the Clamping / Normalization hooks, over the reals (instance RN of C16/Norm.v). *)
From Coq Require Import List ZArith Reals Bool Lra Lia.
From Inferno Require Import Base.Num Base.NumR C16.Hooks C16.Norm C16.NormSpec.
Import ListNotations.
Open Scope R_scope.

(* ====================================================================== clamp *)
Lemma tmax_R a b : tmax RN a b = Rmax a b.
Proof. rn_unfold. unfold Rmax. rcases; destruct (Rle_dec a b); lra. Qed.
Lemma tmin_R a b : tmin RN a b = Rmin a b.
Proof. rn_unfold. unfold Rmin. rcases; destruct (Rle_dec a b); lra. Qed.

(* each time the clamping hook runs, every element lies within the given bounds
   (Clamping.__init__ guarantees min < max when both are given) *)
Theorem clamp_post lo hi x :
  (forall l h, lo = Some l -> hi = Some h -> l <= h) ->
  (forall l, lo = Some l -> l <= clamp RN lo hi x) /\ (forall h, hi = Some h -> clamp RN lo hi x <= h).
Proof.
  intros Hlh. unfold clamp. destruct lo as [l|], hi as [h|]; rewrite ?tmax_R, ?tmin_R; split; intros; try discriminate.
  - inversion H; subst. specialize (Hlh l0 h eq_refl eq_refl). unfold Rmin, Rmax.
    destruct (Rle_dec x l0); destruct (Rle_dec _ h); lra.
  - inversion H; subst. apply Rmin_r.
  - inversion H; subst. apply Rmax_r.
  - inversion H; subst. apply Rmin_r.
Qed.

(* ... and the hook is the identity on values already in range, a projection otherwise *)
Theorem clamp_id lo hi x :
  (forall l, lo = Some l -> l <= x) -> (forall h, hi = Some h -> x <= h) -> clamp RN lo hi x = x.
Proof.
  intros Hl Hh. unfold clamp. destruct lo as [l|], hi as [h|]; rewrite ?tmax_R, ?tmin_R; auto.
  - specialize (Hl l eq_refl). specialize (Hh h eq_refl). rewrite Rmax_left, Rmin_left; auto.
  - specialize (Hl l eq_refl). rewrite Rmax_left; auto.
  - specialize (Hh h eq_refl). rewrite Rmin_left; auto.
Qed.

Theorem clamp_projection l h x :
  l <= h ->
  clamp RN (Some l) (Some h) x = (if Rlt_dec x l then l else if Rlt_dec h x then h else x).
Proof.
  intros Hlh. unfold clamp. rewrite tmax_R, tmin_R. unfold Rmin, Rmax.
  destruct (Rlt_dec x l); destruct (Rle_dec x l); destruct (Rle_dec _ h); try destruct (Rlt_dec h x); lra.
Qed.

Theorem clamp_idempotent lo hi x :
  (forall l h, lo = Some l -> hi = Some h -> l <= h) ->
  clamp RN lo hi (clamp RN lo hi x) = clamp RN lo hi x.
Proof.
  intros Hlh. destruct (clamp_post lo hi x Hlh) as [H1 H2]. apply clamp_id; auto.
Qed.

(* whole tensor *)
Theorem clamp_kernel_post lo hi data row y :
  (forall l h, lo = Some l -> hi = Some h -> l <= h) ->
  In row (clamp_kernel RN lo hi data) -> In y row ->
  (forall l, lo = Some l -> l <= y) /\ (forall h, hi = Some h -> y <= h).
Proof.
  intros Hlh Hr Hy. unfold clamp_kernel in Hr. apply in_map_iff in Hr. destruct Hr as [r0 [<- _]].
  apply in_map_iff in Hy. destruct Hy as [x [<- _]]. apply clamp_post; auto.
Qed.

(* the constructor accepts exactly the bound pairs the theorems need *)
Theorem clamping_new_ok lo hi :
  clamping_new RN lo hi = None ->
  (lo <> None \/ hi <> None) /\ (forall l h, lo = Some l -> hi = Some h -> l < h).
Proof.
  unfold clamping_new. destruct lo as [l|], hi as [h|]; rn_unfold; intros H; try discriminate.
  - split; [left; discriminate|]. intros l0 h0 E1 E2; inversion E1; inversion E2; subst. rcases; auto; discriminate.
  - split; [left; discriminate|]. intros; discriminate.
  - split; [right; discriminate|]. intros; discriminate.
Qed.

(* ====================================================================== p-norms *)

Lemma tsum_nonneg l : (forall a, In a l -> 0 <= a) -> 0 <= tsum RN l.
Proof.
  induction l; simpl; intros H; rn_simpl; [lra|].
  assert (0 <= a) by (apply H; auto). assert (0 <= tsum RN l) by (apply IHl; intros; apply H; auto). lra.
Qed.

Lemma tsum_scale c l : tsum RN (map (Rmult c) l) = c * tsum RN l.
Proof. induction l; simpl; rn_simpl; [ring|]. rewrite IHl. ring. Qed.

Lemma Rpow'_nonneg x y : 0 <= Rpow' x y.
Proof.
  unfold Rpow'. destruct (Req_EM_T x 0); [destruct (Req_EM_T y 0); lra|].
  unfold Rpower. left. apply exp_pos.
Qed.

Lemma Rpow'_0 p : p <> 0 -> Rpow' 0 p = 0.
Proof. intros. unfold Rpow'. destruct (Req_EM_T 0 0); [|lra]. destruct (Req_EM_T p 0); lra. Qed.

Lemma Rpow'_pos x p : 0 < x -> Rpow' x p = Rpower x p.
Proof. intros. unfold Rpow'. destruct (Req_EM_T x 0); lra. Qed.

Lemma Rpow'_mult x y p : 0 <= x -> 0 <= y -> p <> 0 -> Rpow' (x * y) p = Rpow' x p * Rpow' y p.
Proof.
  intros Hx Hy Hp.
  destruct (Req_EM_T x 0) as [->|Nx]; [rewrite Rmult_0_l, Rpow'_0; auto; ring|].
  destruct (Req_EM_T y 0) as [->|Ny]; [rewrite Rmult_0_r, Rpow'_0; auto; ring|].
  assert (0 < x) by lra. assert (0 < y) by lra.
  rewrite !Rpow'_pos; auto using Rmult_lt_0_compat. symmetry. apply Rpower_mult_distr; auto.
Qed.

Lemma Rpow'_inv x p : 0 <= x -> 0 < p -> Rpow' (Rpow' x p) (1 / p) = x.
Proof.
  intros Hx Hp. assert (Hq : 1 / p <> 0).
  { unfold Rdiv. rewrite Rmult_1_l. apply Rinv_neq_0_compat. lra. }
  destruct (Req_EM_T x 0) as [->|Nx].
  - rewrite (Rpow'_0 p) by lra. apply Rpow'_0; auto.
  - assert (0 < x) by lra. rewrite (Rpow'_pos x p) by auto.
    rewrite Rpow'_pos by (unfold Rpower; apply exp_pos).
    rewrite Rpower_mult. replace (p * (1 / p)) with 1 by (field; lra). apply Rpower_1; auto.
Qed.

Lemma RminRmult' p q r : 0 <= r -> Rmin (r * p) (r * q) = r * Rmin p q.
Proof.
  intros Hr. unfold Rmin. destruct (Rle_dec (r * p) (r * q)); destruct (Rle_dec p q); try nra;
    (destruct (Req_EM_T r 0) as [->|]; [ring|]); assert (0 < r) by lra; nra.
Qed.

Lemma pnorm_nonneg o x : 0 <= pnorm RN o x.
Proof.
  destruct o; simpl.
  - induction x; simpl; rn_simpl; [lra|]. rewrite tmax_R. eapply Rle_trans; [apply Rabs_pos|apply Rmax_l].
  - destruct x as [|a t]; rn_simpl; [lra|]. generalize (Rabs_pos a). generalize (abs RN a). rn_simpl.
    induction t; simpl; intros r Hr; auto. rewrite tmin_R. apply Rmin_glb; auto. apply Rabs_pos.
  - apply tsum_nonneg. intros a Ha. apply in_map_iff in Ha. destruct Ha as [b [<- _]]. rn_simpl. apply Rabs_pos.
  - rn_simpl. apply sqrt_pos.
  - rn_simpl. apply Rpow'_nonneg.
Qed.

(* absolute homogeneity: || c x ||_p = |c| ||x||_p  (p = inf, -inf, 1, 2, real p > 0) *)
Theorem pnorm_scale o c x : ord_ok o -> pnorm RN o (map (Rmult c) x) = Rabs c * pnorm RN o x.
Proof.
  intros Hok. pose proof (Rabs_pos c) as Hc. destruct o; simpl.
  - induction x; simpl; rn_simpl; [ring|]. rewrite IHx, !tmax_R, Rabs_mult. apply RmaxRmult; auto.
  - destruct x as [|a t]; simpl; rn_simpl; [ring|]. rewrite Rabs_mult.
    generalize (Rabs a). induction t; simpl; intros r; auto. rn_simpl.
    rewrite !tmin_R, IHt, Rabs_mult. apply RminRmult'; auto.
  - induction x; simpl; rn_simpl; [ring|]. rewrite IHx, Rabs_mult. ring.
  - rn_simpl. rewrite map_map.
    rewrite (map_ext _ (fun a => (c * c) * (a * a))) by (intros; ring).
    rewrite <- (map_map (fun a => a * a) (Rmult (c * c))), tsum_scale.
    rewrite sqrt_mult_alt by nra. f_equal. replace (c * c) with (Rsqr c) by reflexivity. apply sqrt_Rsqr_abs.
  - simpl in Hok. rn_simpl. rewrite map_map.
    assert (Hp : p <> 0) by lra.
    rewrite (map_ext _ (fun a => Rpow' (Rabs c) p * Rpow' (Rabs a) p))
      by (intros a; rewrite Rabs_mult; apply Rpow'_mult; auto using Rabs_pos).
    rewrite <- (map_map (fun a => Rpow' (Rabs a) p) (Rmult (Rpow' (Rabs c) p))), tsum_scale.
    assert (Hq : 1 / p <> 0).
    { unfold Rdiv. rewrite Rmult_1_l. apply Rinv_neq_0_compat. lra. }
    rewrite Rpow'_mult; auto using Rpow'_nonneg.
    + rewrite Rpow'_inv; auto.
    + apply tsum_nonneg. intros a Ha. apply in_map_iff in Ha. destruct Ha as [b [<- _]]. apply Rpow'_nonneg.
Qed.

(* ====================================================================== normalisation *)
Lemma normalize_vec_as_scale o s eps x :
  normalize_vec RN o s eps x = map (Rmult (s / tmax RN (pnorm RN o x) eps)) x.
Proof. unfold normalize_vec. apply map_ext. intros a. rn_simpl. unfold Rdiv. ring. Qed.

(* general statement: the norm after normalisation is |scale| * ||x|| / max(||x||, eps) *)
Theorem normalize_norm o s eps x :
  ord_ok o -> 0 < eps ->
  pnorm RN o (normalize_vec RN o s eps x) = Rabs s * (pnorm RN o x / Rmax (pnorm RN o x) eps).
Proof.
  intros Hok He. rewrite normalize_vec_as_scale, pnorm_scale by auto. rewrite tmax_R.
  assert (0 < Rmax (pnorm RN o x) eps) by (eapply Rlt_le_trans; [apply He|apply Rmax_r]).
  unfold Rdiv. rewrite Rabs_mult. rewrite Rabs_inv by lra. rewrite (Rabs_pos_eq (Rmax _ _)) by lra.
  generalize (pnorm RN o x). rn_simpl. intros. ring.
Qed.

(* each time the normalisation hook runs, the p-norm of every fibre whose norm is at least eps
   equals the magnitude of the requested scale *)
Theorem normalize_post o s eps x :
  ord_ok o -> 0 < eps -> eps <= pnorm RN o x ->
  pnorm RN o (normalize_vec RN o s eps x) = Rabs s.
Proof.
  intros Hok He Hn. rewrite normalize_norm by auto. rewrite Rmax_left by lra.
  revert Hn. generalize (pnorm RN o x). rn_simpl. intros r Hr. field. lra.
Qed.

(* zero vectors stay zero (whatever eps, order and scale) *)
Theorem normalize_zero o s eps x :
  Forall (fun a => a = 0) x -> Forall (fun a => a = 0) (normalize_vec RN o s eps x).
Proof.
  intros Hz. unfold normalize_vec. apply Forall_forall. intros y Hy. apply in_map_iff in Hy.
  destruct Hy as [a [<- Ha]]. rewrite Forall_forall in Hz. rewrite (Hz a Ha). rn_simpl. unfold Rdiv. ring.
Qed.

(* fibres with a norm below eps are only scaled by scale / eps: their norm stays below |scale| *)
Theorem normalize_sub_eps o s eps x :
  ord_ok o -> 0 < eps -> pnorm RN o x < eps ->
  pnorm RN o (normalize_vec RN o s eps x) = Rabs s * (pnorm RN o x / eps) /\
  pnorm RN o (normalize_vec RN o s eps x) <= Rabs s.
Proof.
  intros Hok He Hn. rewrite normalize_norm by auto. rewrite Rmax_right by lra. split; auto.
  pose proof (pnorm_nonneg o x). pose proof (Rabs_pos s).
  assert (pnorm RN o x / eps <= 1).
  { apply Rmult_le_reg_r with eps; auto. unfold Rdiv. rewrite Rmult_assoc, Rinv_l by lra. lra. }
  assert (0 <= pnorm RN o x / eps) by (apply Rmult_le_pos; auto; left; apply Rinv_0_lt_compat; auto).
  nra.
Qed.

(* the direction is preserved: the output is a single multiple of the input *)
Theorem normalize_direction o s eps x :
  exists c, normalize_vec RN o s eps x = map (Rmult c) x /\ c = s / Rmax (pnorm RN o x) eps.
Proof. eexists. split; [apply normalize_vec_as_scale|]. rewrite tmax_R. reflexivity. Qed.

(* whole tensor: every fibre *)
Theorem normalize_fibres_post o s eps xs f :
  ord_ok o -> 0 < eps -> In f xs -> eps <= pnorm RN o f ->
  In (normalize_vec RN o s eps f) (normalize_fibres RN o s eps xs) /\
  pnorm RN o (normalize_vec RN o s eps f) = Rabs s.
Proof.
  intros Hok He Hin Hn. split; [apply in_map; auto|apply normalize_post; auto].
Qed.

(* natural-number orders: (sum |x_i|^n)^(1/n) written with iterated multiplication is the PReal (INR n) norm *)
Lemma Rpow'_INR x n : 0 <= x -> (0 < n)%nat -> Rpow' x (INR n) = pown RN x n.
Proof.
  intros Hx Hn. assert (Epow : forall k, pown RN x k = x ^ k) by (induction k; simpl; rn_simpl; congruence).
  rewrite Epow. destruct (Req_EM_T x 0) as [->|Nx].
  - rewrite Rpow'_0 by (apply not_0_INR; lia). rewrite pow_i; auto.
  - rewrite Rpow'_pos by lra. apply Rpower_pow. lra.
Qed.

Theorem pnorm_nat_order n x :
  (0 < n)%nat ->
  pnorm RN (@PReal RN (INR n)) x = Rpow' (tsum RN (map (fun a => pown RN (Rabs a) n) x)) (1 / INR n).
Proof.
  intros Hn. simpl. rn_simpl. f_equal. f_equal. apply map_ext. intros a. apply Rpow'_INR; auto using Rabs_pos.
Qed.

(* ====================================================================== the hook through a module call *)
(* the numeric effect is applied iff the hook is registered and enabled for the module's mode *)
Theorem fires_spec reg te ee training :
  fires reg te ee training = reg && ((te && training) || (ee && negb training)).
Proof. unfold fires, armed; simpl. destruct reg, te, ee, training; reflexivity. Qed.

Theorem state_hook_clamp_post lo hi reg te ee training data row y :
  (forall l h, lo = Some l -> hi = Some h -> l <= h) ->
  fires reg te ee training = true ->
  In row (call_with_state_hook RN (clamp_kernel RN lo hi) reg te ee training false data) -> In y row ->
  (forall l, lo = Some l -> l <= y) /\ (forall h, hi = Some h -> y <= h).
Proof.
  intros Hlh Hf. unfold call_with_state_hook. rewrite Hf. apply clamp_kernel_post; auto.
Qed.

Theorem state_hook_unarmed kernel reg te ee training as_pre data :
  fires reg te ee training = false ->
  call_with_state_hook RN kernel reg te ee training as_pre data = probe_forward RN data.
Proof. intros Hf. unfold call_with_state_hook. rewrite Hf. reflexivity. Qed.

(* ====================================================================== one run opportunity (sequence cases) *)
Theorem manual_fires_spec reg force ignore te ee training :
  manual_fires reg force ignore te ee training =
  (reg || force) && (ignore || (te && training) || (ee && negb training)).
Proof. unfold manual_fires. rewrite fires_spec. destruct reg, force, ignore, te, ee, training; reflexivity. Qed.

Theorem hook_step_unfired kernel data : hook_step RN kernel false data = data.
Proof. reflexivity. Qed.

(* whatever value the attribute path reaches when the clamping hook runs, the value stored afterwards is in range *)
Theorem hook_step_clamp_post lo hi data row y :
  (forall l h, lo = Some l -> hi = Some h -> l <= h) ->
  In row (hook_step RN (clamp_kernel RN lo hi) true data) -> In y row ->
  (forall l, lo = Some l -> l <= y) /\ (forall h, hi = Some h -> y <= h).
Proof. intros. eapply clamp_kernel_post; eauto. Qed.

Theorem hook_step_normalize_post o s eps data f :
  ord_ok o -> 0 < eps -> In f data -> eps <= pnorm RN o f ->
  In (normalize_vec RN o s eps f) (hook_step RN (normalize_fibres RN o s eps) true data) /\
  pnorm RN o (normalize_vec RN o s eps f) = Rabs s.
Proof. intros. apply normalize_fibres_post; auto. Qed.

(* integral targets with integral bounds stay integral (so keeping the integer dtype loses nothing) ... *)
Theorem clamp_Z_closed l h x : exists z, clamp RN (Some (IZR l)) (Some (IZR h)) (IZR x) = IZR z.
Proof.
  unfold clamp. rewrite tmax_R, tmin_R. unfold Rmin, Rmax.
  destruct (Rle_dec (IZR x) (IZR l)); destruct (Rle_dec _ (IZR h)); eauto.
Qed.

(* ... and with a fractional (Python float) bound an integral / bool target is stored in the default floating
   type, i.e. the value moved onto the bound is stored exactly *)
Theorem clamp_dtype_float_bound dt lf hf :
  (dt < 4)%nat -> lf = Some true \/ hf = Some true -> clamp_dtype dt lf hf = 5%nat.
Proof.
  intros Hd Hb. unfold clamp_dtype, is_float_dt.
  destruct (Nat.leb_spec 4 dt); [lia|]. destruct Hb as [-> | ->]; simpl; auto. rewrite orb_true_r. reflexivity.
Qed.

Theorem clamp_dtype_float_target dt lf hf : (4 <= dt)%nat -> clamp_dtype dt lf hf = dt.
Proof. intros Hd. unfold clamp_dtype, is_float_dt. destruct (Nat.leb_spec 4 dt); [reflexivity|lia]. Qed.

(* ====================================================================== write-back into the target *)
(* for every target that takes a tensor assignment the run opportunity is the kernel, without error *)
Theorem hook_step_target_ok kernel fire data :
  hook_step_target RN false kernel fire data = (hook_step RN kernel fire data, None).
Proof. unfold hook_step_target, hook_step. destruct fire; reflexivity. Qed.

(* REFUTED for bare nn.Parameter targets (known finding C16-bare-parameter-target): the hook fires, the module
   call raises TypeError and the target is left outside [min, max] *)
Theorem bare_parameter_target_refuted :
  exists lo hi data,
    clamping_new RN (Some lo) (Some hi) = None /\
    let r := hook_step_target RN true (clamp_kernel RN (Some lo) (Some hi)) true data in
    snd r = Some EType /\ exists row y, In row (fst r) /\ In y row /\ hi < y.
Proof.
  exists 0, 1, [[2]]. split.
  - unfold clamping_new. rn_simpl. destruct (Rltb'_spec 0 1); auto. lra.
  - simpl. split; auto. exists [2], 2. simpl. repeat split; auto. lra.
Qed.
