(* Side conditions used by the real-number theorems about C16/Norm.v (definitions only). *)
From Coq Require Import Reals.
From Inferno Require Import Base.Num Base.NumR C16.Norm.
Open Scope R_scope.

(* norm orders covered by the theorems: inf, -inf, 1, 2 and every real p > 0 *)
Definition ord_ok (o : @order RN) : Prop := match o with PReal p => 0 < p | _ => True end.
