(* The independent, simple specification the hook model (C16/Hooks.v) is proved against:
   an abstract machine WITHOUT handles, handle ids, ordered hook dictionaries, finalizers or weak
   references.  A hook object is just (configuration, alive?, trainexec, evalexec, the module it is
   registered on, if any); a module is just its training flag.  The specification of a module call is
   a predicate "hook h fires in pre / post position", read off that abstract state.
   Definitions only. *)
From Coq Require Import List Bool Arith Lia.
From Inferno Require Import C16.Hooks.
Import ListNotations.

Record ahook := mkA { a_cfg : cfg; a_alive : bool; a_te : bool; a_ee : bool; a_reg : option nat }.
Record aworld := mkAW { a_hooks : list ahook; a_train : list bool }.

(* enabled for the module's current mode *)
Definition a_armed (h : ahook) (training : bool) : bool :=
  (a_te h && training) || (a_ee h && negb training).

Definition reg_on (h : ahook) (m : nat) : bool :=
  match a_reg h with Some m' => m' =? m | None => false end.

(* torch accepts the keyword arguments of every hook the object wants to register *)
Definition kwargs_ok (c : cfg) : bool :=
  negb (c_pre c && c_pre_bad c) && negb (c_post c && c_post_bad c).

(* configurations outside the one fault pattern "pre-hook accepted, post-hook rejected": for these a
   failing register() leaves the object unregistered *)
Definition safe_cfg (c : cfg) : bool :=
  negb (c_pre c && negb (c_pre_bad c) && c_post c && c_post_bad c).

Definition a_with (a : aworld) (h : nat) (f : ahook -> aworld * option err) : aworld * option err :=
  match nth_error (a_hooks a) h with
  | Some k => if a_alive k then f k else (a, Some EModel)
  | None => (a, Some EModel)
  end.

Definition a_set (a : aworld) (h : nat) (k : ahook) : aworld := mkAW (upd (a_hooks a) h k) (a_train a).

Definition a_register (a : aworld) (h : nat) (k : ahook) (m : nat) : aworld * option err :=
  if is_some (a_reg k) then (a, Some ERuntime)
  else if negb (m <? length (a_train a)) then (a, Some EType)
  else if negb (kwargs_ok (a_cfg k)) then (a, Some EType)
  else (a_set a h (mkA (a_cfg k) (a_alive k) (a_te k) (a_ee k) (Some m)), None).

Definition astep (a : aworld) (o : op) : aworld * option err :=
  match o with
  | ONew c te ee =>
      if negb (state_cfg_ok c) then (a, Some EModel)
      else
        let fresh := mkAW (a_hooks a ++ [mkA c true te ee None]) (a_train a) in
        match c_kind c with
        | KState => if c_mod c <? length (a_train a) then (fresh, None) else (a, Some EType)
        | _ => if c_pre c || c_post c then (fresh, None) else (a, Some ERuntime)
        end
  | ORegister h m =>
      a_with a h (fun k =>
        match c_kind (a_cfg k) with
        | KState => if is_some (a_reg k) then (a, None) else a_register a h k (c_mod (a_cfg k))
        | _ => a_register a h k m
        end)
  | ODeregister h => a_with a h (fun k => (a_set a h (mkA (a_cfg k) (a_alive k) (a_te k) (a_ee k) None), None))
  | OSetTrain m b =>
      if m <? length (a_train a) then (mkAW (a_hooks a) (upd (a_train a) m b), None) else (a, Some EModel)
  | OSetExec h train b =>
      a_with a h (fun k =>
        (a_set a h (if train then mkA (a_cfg k) (a_alive k) b (a_ee k) (a_reg k)
                    else mkA (a_cfg k) (a_alive k) (a_te k) b (a_reg k)), None))
  | OCall m fail => (a, if m <? length (a_train a) then (if fail then Some EValue else None) else Some EModel)
  | OManual h force ignore =>
      a_with a h (fun k => match c_kind (a_cfg k) with KState => (a, None) | _ => (a, Some EType) end)
  | ODelete h => a_with a h (fun k => (a_set a h (mkA (a_cfg k) false (a_te k) (a_ee k) None), None))
  end.

Fixpoint arun (a : aworld) (ops : list op) : aworld :=
  match ops with [] => a | o :: tl => arun (fst (astep a o)) tl end.

Definition a0 (n : nat) : aworld := mkAW [] (repeat true n).

(* ---- what a module call must do, read off the abstract state ---- *)
Definition a_fires_pre (a : aworld) (h m : nat) : bool :=
  match nth_error (a_hooks a) h, nth_error (a_train a) m with
  | Some k, Some tr => a_alive k && reg_on k m && c_pre (a_cfg k) && a_armed k tr
  | _, _ => false
  end.
Definition a_fires_post (a : aworld) (h m : nat) (fail : bool) : bool :=
  match nth_error (a_hooks a) h, nth_error (a_train a) m with
  | Some k, Some tr => a_alive k && reg_on k m && c_post (a_cfg k) && a_armed k tr && (negb fail || c_always (a_cfg k))
  | _, _ => false
  end.
(* a manual call statehook(force, ignore_mode) *)
Definition a_fires_manual (a : aworld) (h : nat) (force ignore : bool) : bool :=
  match nth_error (a_hooks a) h with
  | Some k =>
      match nth_error (a_train a) (c_mod (a_cfg k)) with
      | Some tr => a_alive k && (is_some (a_reg k) || force) && (ignore || a_armed k tr)
      | None => false
      end
  | None => false
  end.

(* operations whose constructed hooks stay outside the fault pattern *)
Definition safe_op (o : op) : bool := match o with ONew c _ _ => safe_cfg c | _ => true end.

(* ---- observation helpers ---- *)
Definition is_fire (h : nat) (e : event) : bool := match e with EFire h' _ => h' =? h | EFwd _ => false end.
Definition count_fire (h : nat) (evs : list event) : nat := length (filter (is_fire h) evs).
Definition is_fwd (e : event) : bool := match e with EFwd _ => true | _ => false end.
Definition b2n (b : bool) : nat := if b then 1 else 0.

(* abstraction of a concrete world *)
Definition abs_reg (k : hook) : option nat :=
  if k_alive k then
    match k_preh k, k_posth k with
    | Some hd, _ => Some (hd_mod hd)
    | None, Some hd => Some (hd_mod hd)
    | None, None => None
    end
  else None.
Definition abs_hook (k : hook) : ahook := mkA (k_cfg k) (k_alive k) (k_te k) (k_ee k) (abs_reg k).
Definition abs (w : world) : aworld := mkAW (map abs_hook (w_hooks w)) (map m_training (w_mods w)).

(* which user-visible callable a dispatch runs: 2 = StateHook.hook, else 0 = prehook, 1 = posthook *)
Definition a_tag (a : aworld) (h : nat) (pre : bool) : nat :=
  match nth_error (a_hooks a) h with
  | Some k => match c_kind (a_cfg k) with KState => 2 | _ => if pre then 0 else 1 end
  | None => 0
  end.

(* number of hook objects the abstract machine sees registered on module m in position pre/post:
   the expected len(module._forward_pre_hooks) / len(module._forward_hooks) *)
Definition a_on (m : nat) (q : bool) (k : ahook) : bool := a_alive k && reg_on k m && c_has (a_cfg k) q.
Definition a_count (a : aworld) (m : nat) (q : bool) : nat := length (filter (a_on m q) (a_hooks a)).

(* hook h is not registered (or no longer exists) *)
Definition a_unreg (a : aworld) (h : nat) : Prop :=
  match nth_error (a_hooks a) h with
  | Some k => a_alive k = false \/ a_reg k = None
  | None => True
  end.
Definition not_register_of (h : nat) (o : op) : bool :=
  match o with ORegister h' _ => negb (h' =? h) | _ => true end.

(* ====================================================================== ordered abstract machine
   The abstract machine extended with, per module and position, the ORDER in which torch will dispatch
   the registered hook objects (still no handles / ids / finalizers): a successful registration puts the
   object first (prepend) or last; deregistration / deletion removes it and keeps the order of the rest.
   spec_call is then the complete, exact event sequence of a module call. *)
Definition ins (prepend : bool) (h : nat) (l : list nat) : list nat := if prepend then h :: l else l ++ [h].
Definition ord := list (list nat * list nat).
Definition ord_lst (o : ord) (m : nat) (q : bool) : list nat :=
  match nth_error o m with Some pq => if q then fst pq else snd pq | None => [] end.
Definition ord_insert (o : ord) (m : nat) (c : cfg) (h : nat) : ord :=
  match nth_error o m with
  | Some pq => upd o m (if c_pre c then ins (c_pre_prepend c) h (fst pq) else fst pq,
                        if c_post c then ins (c_post_prepend c) h (snd pq) else snd pq)
  | None => o
  end.
Definition ord_remove (o : ord) (h : nat) : ord :=
  map (fun pq => (filter (fun x => negb (x =? h)) (fst pq), filter (fun x => negb (x =? h)) (snd pq))) o.

Record oworld := mkOW { o_abs : aworld; o_ord : ord }.

Definition ostep (ow : oworld) (o : op) : oworld :=
  let a := o_abs ow in
  let a' := fst (astep a o) in
  mkOW a'
    (match o with
     | ORegister h _ =>
         match nth_error (a_hooks a) h, nth_error (a_hooks a') h with
         | Some k, Some k' =>
             match a_reg k, a_reg k' with
             | None, Some m' => ord_insert (o_ord ow) m' (a_cfg k) h      (* this call registered it *)
             | _, _ => o_ord ow
             end
         | _, _ => o_ord ow
         end
     | ODeregister h => ord_remove (o_ord ow) h
     | ODelete h => ord_remove (o_ord ow) h
     | _ => o_ord ow
     end).

Fixpoint orun (ow : oworld) (ops : list op) : oworld :=
  match ops with [] => ow | o :: tl => orun (ostep ow o) tl end.

Definition o0 (n : nat) : oworld := mkOW (a0 n) (repeat ([], []) n).

Definition spec_call (ow : oworld) (m : nat) (fail : bool) : list event :=
  let a := o_abs ow in
  flat_map (fun h => if a_fires_pre a h m then [EFire h (a_tag a h true)] else []) (ord_lst (o_ord ow) m true)
  ++ EFwd m ::
  flat_map (fun h => if a_fires_post a h m fail then [EFire h (a_tag a h false)] else []) (ord_lst (o_ord ow) m false).
