(* Model of the hook registration state machine of inferno:
     inferno/core/infrastructure.py  _detach_handles, Hook, ContextualHook, StateHook   (lines 2648-3060)
   together with the part of torch.nn.Module the hooks rely on (register_forward_pre_hook /
   register_forward_hook with prepend / always_call, RemovableHandle.remove, Module._call_impl's
   dispatch incl. the always_call exception path, train()/eval()), mirrored branch by branch.
   Definitions only (no proofs): this file must keep compiling and running for the correspondence
   check when a proof elsewhere is broken.  Everything is lists / bools / nat: axiom-free.

   World: a fixed number of torch modules (index m), a growing list of hook objects (index h; an
   object that has been deleted keeps its index with k_alive = false), and torch's global handle
   counter RemovableHandle.next_id.

   hand-transcribed: inferno/core/infrastructure.py:2648-3060 *)
From Coq Require Import List Bool Arith Lia.
Import ListNotations.

(* ---------- identifiers, configuration ---------- *)
Inductive kind := KHook | KCtx | KState.          (* Hook, ContextualHook, StateHook *)

(* construction-time, immutable part of a hook object *)
Record cfg := mkCfg {
  c_kind : kind;
  c_pre : bool;            (* a prehook callable / method name was given *)
  c_post : bool;           (* a posthook callable / method name was given *)
  c_pre_prepend : bool;    (* prehook_kwargs["prepend"] *)
  c_post_prepend : bool;   (* posthook_kwargs["prepend"] *)
  c_always : bool;         (* posthook_kwargs["always_call"] *)
  c_pre_bad : bool;        (* prehook_kwargs holds a key torch rejects: register_forward_pre_hook raises TypeError *)
  c_post_bad : bool;       (* same for posthook_kwargs / register_forward_hook *)
  c_mod : nat              (* StateHook only: the module given to the constructor *)
}.

(* torch.utils.hooks.RemovableHandle: which dict of which module, and the key *)
Record handle := mkHandle { hd_mod : nat; hd_pre : bool; hd_id : nat }.

Record hook := mkHook {
  k_cfg : cfg;
  k_alive : bool;                                   (* the Python object still exists *)
  k_te : bool; k_ee : bool;                         (* __call_train / __call_eval (trainexec / evalexec) *)
  k_preh : option handle; k_posth : option handle;  (* __prehook_handle / __posthook_handle *)
  k_fin : option (option handle * option handle)    (* __finalizer: the handles captured by weakref.finalize *)
}.

(* one item of module._forward_pre_hooks / _forward_hooks (ordered dicts keyed by handle id);
   e_hook = the hook object the registered lambda weakly references;
   e_always = key present in module._forward_hooks_always_called *)
Record entry := mkEntry { e_id : nat; e_hook : nat; e_always : bool }.

Record module := mkMod { m_training : bool; m_pre : list entry; m_post : list entry }.

Record world := mkW { w_hooks : list hook; w_mods : list module; w_next : nat }.

Inductive err :=
| ERuntime      (* RuntimeError *)
| EValue        (* ValueError: the exception raised by a failing forward() of the probe module *)
| EType         (* TypeError *)
| EAttr         (* AttributeError: a dangling lambda dereferenced a dead weak reference *)
| EModel.       (* not a Python error: the operation addressed a deleted / non-existent object
                   (cannot be written in Python; never generated) *)

(* observable events.  EFire h tag: the user-visible callable of hook object h ran; tag 0 = the prehook
   callable / method, 1 = the posthook callable / method, 2 = StateHook.hook.  EFwd m: forward of module m ran. *)
Inductive event := EFire (h : nat) (tag : nat) | EFwd (m : nat).

Inductive op :=
| ONew (c : cfg) (te ee : bool)      (* Hook(...)/ContextualHook(...)/StateHook(module, ...) with train_update, eval_update *)
| ORegister (h m : nat)              (* Hook.register(module m)  (m out of range: not an nn.Module);  StateHook.register() ignores m *)
| ODeregister (h : nat)
| OSetTrain (m : nat) (b : bool)     (* module.train(b) *)
| OSetExec (h : nat) (train : bool) (b : bool)   (* hook.trainexec = b / hook.evalexec = b *)
| OCall (m : nat) (fail : bool)      (* module(...); fail: its forward raises *)
| OManual (h : nat) (force ignore : bool)        (* statehook(force, ignore_mode) *)
| ODelete (h : nat).                 (* del hook; gc.collect() *)

(* ---------- list helpers ---------- *)
Fixpoint upd {X} (l : list X) (i : nat) (x : X) : list X :=
  match l, i with
  | [], _ => []
  | _ :: t, O => x :: t
  | h :: t, S j => h :: upd t j x
  end.

Definition is_some {X} (o : option X) : bool := match o with Some _ => true | None => false end.

(* ---------- accessors uniform in the position (pre = true: forward-pre hook, false: forward hook) ---------- *)
Definition hnd (k : hook) (pre : bool) : option handle := if pre then k_preh k else k_posth k.
Definition set_hnd (k : hook) (pre : bool) (o : option handle) : hook :=
  if pre then mkHook (k_cfg k) (k_alive k) (k_te k) (k_ee k) o (k_posth k) (k_fin k)
  else mkHook (k_cfg k) (k_alive k) (k_te k) (k_ee k) (k_preh k) o (k_fin k).
Definition set_fin (k : hook) (f : option (option handle * option handle)) : hook :=
  mkHook (k_cfg k) (k_alive k) (k_te k) (k_ee k) (k_preh k) (k_posth k) f.
Definition c_has (c : cfg) (pre : bool) : bool := if pre then c_pre c else c_post c.
Definition c_prepend (c : cfg) (pre : bool) : bool := if pre then c_pre_prepend c else c_post_prepend c.
Definition c_bad (c : cfg) (pre : bool) : bool := if pre then c_pre_bad c else c_post_bad c.
(* always_call exists for forward hooks only *)
Definition alw (c : cfg) (pre : bool) : bool := if pre then false else c_always c.

Definition lst (md : module) (pre : bool) : list entry := if pre then m_pre md else m_post md.
Definition set_lst (md : module) (pre : bool) (l : list entry) : module :=
  if pre then mkMod (m_training md) l (m_post md) else mkMod (m_training md) (m_pre md) l.
Definition mod_lst (mods : list module) (m : nat) (pre : bool) : list entry :=
  match nth_error mods m with Some md => lst md pre | None => [] end.
Definition mod_set_lst (mods : list module) (m : nat) (pre : bool) (l : list entry) : list module :=
  match nth_error mods m with Some md => upd mods m (set_lst md pre l) | None => mods end.

(* ---------- torch side ---------- *)
(* OrderedDict insertion, then move_to_end(last=False) when prepend *)
Definition add_entry (prepend : bool) (e : entry) (l : list entry) : list entry :=
  if prepend then e :: l else l ++ [e].

Definition remove_id (i : nat) (l : list entry) : list entry :=
  filter (fun e => negb (e_id e =? i)) l.

(* RemovableHandle.remove(): delete the key from the hooks dict (and from the extra dicts) if present *)
Definition remove_handle (mods : list module) (hd : handle) : list module :=
  mod_set_lst mods (hd_mod hd) (hd_pre hd) (remove_id (hd_id hd) (mod_lst mods (hd_mod hd) (hd_pre hd))).

(* _detach_handles(handles...): for h in handles: if h: h.remove() *)
Definition detach_one (mods : list module) (o : option handle) : list module :=
  match o with Some hd => remove_handle mods hd | None => mods end.
Definition detach_handles (mods : list module) (a b : option handle) : list module :=
  detach_one (detach_one mods a) b.

(* ---------- Hook ---------- *)
(* Hook.registered *)
Definition registered (k : hook) : bool := is_some (k_preh k) || is_some (k_posth k).

(* Hook.__wrapped_prehook / __wrapped_posthook: two ifs, the first returns *)
Definition armed (k : hook) (training : bool) : bool :=
  if k_te k && training then true
  else if k_ee k && negb training then true
  else false.

Definition tag_of (k : hook) (pre : bool) : nat :=
  match c_kind (k_cfg k) with KState => 2 | _ => if pre then 0 else 1 end.

(* one registered lambda being called by torch: weakself().__wrapped_xxx(module, ...).
   None: weakself() is None -> AttributeError *)
Definition run_entry (hooks : list hook) (training pre : bool) (e : entry) : option (list event) :=
  match nth_error hooks (e_hook e) with
  | Some k =>
      if k_alive k then Some (if armed k training then [EFire (e_hook e) (tag_of k pre)] else [])
      else None
  | None => None
  end.

(* the pre-hook loop of _call_impl: stops at the first exception.  (events, completed?) *)
Fixpoint run_pre (hooks : list hook) (training : bool) (es : list entry) : list event * bool :=
  match es with
  | [] => ([], true)
  | e :: tl =>
      match run_entry hooks training true e with
      | Some ev => let (ev', ok) := run_pre hooks training tl in (ev ++ ev', ok)
      | None => ([], false)
      end
  end.

(* the forward-hook loop: an always_call hook is marked as called before it runs.
   (events, completed?, ids marked in called_always_called_hooks) *)
Fixpoint run_post (hooks : list hook) (training : bool) (es : list entry) : list event * bool * list nat :=
  match es with
  | [] => ([], true, [])
  | e :: tl =>
      let mark := if e_always e then [e_id e] else [] in
      match run_entry hooks training false e with
      | Some ev => let '(ev', ok, called) := run_post hooks training tl in (ev ++ ev', ok, mark ++ called)
      | None => ([], false, mark)
      end
  end.

(* the except-branch of _call_impl: always_call hooks that have not been called yet are run,
   their own exceptions are silenced (warning) *)
Fixpoint run_always (hooks : list hook) (training : bool) (called : list nat) (es : list entry) : list event :=
  match es with
  | [] => []
  | e :: tl =>
      (if e_always e && negb (existsb (Nat.eqb (e_id e)) called)
       then match run_entry hooks training false e with Some ev => ev | None => [] end
       else [])
      ++ run_always hooks training called tl
  end.

(* torch.nn.Module._call_impl with passive hooks *)
Definition call (w : world) (m : nat) (fail : bool) : list event * option err :=
  match nth_error (w_mods w) m with
  | None => ([], Some EModel)
  | Some md =>
      let tr := m_training md in
      let (ev1, ok1) := run_pre (w_hooks w) tr (m_pre md) in
      if negb ok1 then (ev1 ++ run_always (w_hooks w) tr [] (m_post md), Some EAttr)
      else
        let ev2 := ev1 ++ [EFwd m] in
        if fail then (ev2 ++ run_always (w_hooks w) tr [] (m_post md), Some EValue)
        else
          let '(ev3, ok3, called) := run_post (w_hooks w) tr (m_post md) in
          if ok3 then (ev2 ++ ev3, None)
          else (ev2 ++ ev3 ++ run_always (w_hooks w) tr called (m_post md), Some EAttr)
  end.

Definition set_hook (w : world) (h : nat) (k : hook) : world :=
  mkW (upd (w_hooks w) h k) (w_mods w) (w_next w).

(* one statement of Hook.register:
     self.__prehook_handle  = module.register_forward_pre_hook(lambda ...: weakself().__wrapped_prehook(...), **prehook_kwargs)
     self.__posthook_handle = module.register_forward_hook   (lambda ...: weakself().__wrapped_posthook(...), **posthook_kwargs)
   torch: handle = RemovableHandle(dict); dict[handle.id] = fn; always_called[handle.id] = True; move_to_end if prepend.
   None: torch rejected the keyword arguments (TypeError), nothing was changed by this statement. *)
Definition reg_at (pre : bool) (w : world) (h : nat) (k : hook) (m : nat) : option (world * hook) :=
  if c_bad (k_cfg k) pre then None
  else
    let k' := set_hnd k pre (Some (mkHandle m pre (w_next w))) in
    Some (mkW (upd (w_hooks w) h k')
              (mod_set_lst (w_mods w) m pre
                 (add_entry (c_prepend (k_cfg k) pre) (mkEntry (w_next w) h (alw (k_cfg k) pre))
                            (mod_lst (w_mods w) m pre)))
              (S (w_next w)),
          k').

(* Hook.register(self, module) *)
Definition hook_register (w : world) (h : nat) (k : hook) (m : nat) : world * option err :=
  if registered k then (w, Some ERuntime)
  else
    match nth_error (w_mods w) m with
    | None => (w, Some EType)                                  (* argtest.instance("module", ...) *)
    | Some _ =>
        (* if self._prehook_call: ... *)
        match (if c_pre (k_cfg k) then reg_at true w h k m else Some (w, k)) with
        | None => (w, Some EType)
        | Some (w1, k1) =>
            (* if self._posthook_call: ... *)
            match (if c_post (k_cfg k) then reg_at false w1 h k1 m else Some (w1, k1)) with
            | None =>
                (* the exception leaves the pre-hook registered, its handle stored, and the finalizer untouched *)
                (w1, Some EType)
            | Some (w2, k2) =>
                (* if self.__finalizer: self.__finalizer.detach();
                   self.__finalizer = weakref.finalize(self, _detach_handles, pre, post) *)
                (set_hook w2 h (set_fin k2 (Some (k_preh k2, k_posth k2))), None)
            end
        end
    end.

(* Hook.deregister(self) *)
Definition hook_deregister (w : world) (h : nat) (k : hook) : world :=
  let mods := detach_handles (w_mods w) (k_preh k) (k_posth k) in
  mkW (upd (w_hooks w) h (mkHook (k_cfg k) (k_alive k) (k_te k) (k_ee k) None None None)) mods (w_next w).

(* StateHook.forward(force, ignore_mode) *)
Definition manual (w : world) (h : nat) (k : hook) (force ignore : bool) : list event * option err :=
  match nth_error (w_mods w) (c_mod (k_cfg k)) with
  | None => ([], Some EModel)
  | Some md =>
      if registered k || force then
        if ignore then ([EFire h 2], None)
        else if k_te k && m_training md then ([EFire h 2], None)
        else if k_ee k && negb (m_training md) then ([EFire h 2], None)
        else ([], None)
      else ([], None)
  end.

(* constructors: Hook.__init__ / ContextualHook.__init__ : argtest.onedefined;
   StateHook.__init__: argtest.instance(module) (exactly one of pre/post by construction) *)
Definition new_hook (w : world) (c : cfg) (te ee : bool) : world * option err :=
  let ok :=
    match c_kind c with
    | KState => if nth_error (w_mods w) (c_mod c) then None else Some EType
    | _ => if c_pre c || c_post c then None else Some ERuntime
    end in
  match ok with
  | Some e => (w, Some e)
  | None => (mkW (w_hooks w ++ [mkHook c true te ee None None None]) (w_mods w) (w_next w), None)
  end.

(* shape of a configuration the StateHook constructor can produce *)
Definition state_cfg_ok (c : cfg) : bool :=
  match c_kind c with
  | KState => negb (Bool.eqb (c_pre c) (c_post c)) && negb (c_pre_bad c) && negb (c_post_bad c)
              && Bool.eqb (c_pre_prepend c) (c_post_prepend c)
  | _ => true
  end.

(* with a live hook object *)
Definition with_hook (w : world) (h : nat) (f : hook -> world * list event * option err)
  : world * list event * option err :=
  match nth_error (w_hooks w) h with
  | Some k => if k_alive k then f k else (w, [], Some EModel)
  | None => (w, [], Some EModel)
  end.

Definition step (w : world) (o : op) : world * list event * option err :=
  match o with
  | ONew c te ee =>
      if state_cfg_ok c then let (w', e) := new_hook w c te ee in (w', [], e)
      else (w, [], Some EModel)
  | ORegister h m =>
      with_hook w h (fun k =>
        match c_kind (k_cfg k) with
        | KState =>
            (* StateHook.register: if not self.registered: Hook.register(self, self.module) *)
            if registered k then (w, [], None)
            else let (w', e) := hook_register w h k (c_mod (k_cfg k)) in (w', [], e)
        | _ => let (w', e) := hook_register w h k m in (w', [], e)
        end)
  | ODeregister h => with_hook w h (fun k => (hook_deregister w h k, [], None))
  | OSetTrain m b =>
      match nth_error (w_mods w) m with
      | Some md => (mkW (w_hooks w) (upd (w_mods w) m (mkMod b (m_pre md) (m_post md))) (w_next w), [], None)
      | None => (w, [], Some EModel)
      end
  | OSetExec h train b =>
      with_hook w h (fun k =>
        (set_hook w h (if train then mkHook (k_cfg k) (k_alive k) b (k_ee k) (k_preh k) (k_posth k) (k_fin k)
                       else mkHook (k_cfg k) (k_alive k) (k_te k) b (k_preh k) (k_posth k) (k_fin k)), [], None))
  | OCall m fail => let (ev, e) := call w m fail in (w, ev, e)
  | OManual h force ignore =>
      with_hook w h (fun k =>
        match c_kind (k_cfg k) with
        | KState => let (ev, e) := manual w h k force ignore in (w, ev, e)
        | _ => (w, [], Some EType)           (* a Hook / ContextualHook object is not callable *)
        end)
  | ODelete h =>
      with_hook w h (fun k =>
        (* the finalizer, unless detached, runs _detach_handles on the handles it captured *)
        let mods := match k_fin k with
                    | Some (a, b) => detach_handles (w_mods w) a b
                    | None => w_mods w
                    end in
        (mkW (upd (w_hooks w) h (mkHook (k_cfg k) false (k_te k) (k_ee k) (k_preh k) (k_posth k) None)) mods (w_next w),
         [], None))
  end.

Fixpoint run (w : world) (ops : list op) : world * list (list event * option err) :=
  match ops with
  | [] => (w, [])
  | o :: tl =>
      let '(w', ev, e) := step w o in
      let (w'', outs) := run w' tl in
      (w'', (ev, e) :: outs)
  end.

(* n modules in training mode (nn.Module default) without hooks, no hook objects *)
Definition w0 (n : nat) : world := mkW [] (repeat (mkMod true [] []) n) 0.
