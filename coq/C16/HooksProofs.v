(* Proofs about the hook state machine C16/Hooks.v against the abstract machine C16/HooksSpec.v.
   Everything here is over lists / bools / nat: no axioms. *)
From Coq Require Import List Bool Arith Lia Permutation.
From Inferno Require Import C16.Hooks C16.HooksSpec.
Import ListNotations.

(* ====================================================================== list facts *)
Lemma upd_length {X} (l : list X) i x : length (upd l i x) = length l.
Proof. revert i; induction l; destruct i; simpl; auto. Qed.

Lemma nth_error_upd_eq {X} (l : list X) i x : i < length l -> nth_error (upd l i x) i = Some x.
Proof. revert i; induction l; destruct i; simpl; intros; try lia; auto. apply IHl; lia. Qed.

Lemma nth_error_upd_neq {X} (l : list X) i j x : i <> j -> nth_error (upd l i x) j = nth_error l j.
Proof. revert i j; induction l; destruct i, j; simpl; intros; try congruence; auto. Qed.

Lemma nth_error_upd {X} (l : list X) i j x :
  nth_error (upd l i x) j = if (i =? j) && (i <? length l) then Some x else nth_error l j.
Proof.
  destruct (Nat.eqb_spec i j) as [->|Hne]; simpl.
  - destruct (Nat.ltb_spec j (length l)).
    + apply nth_error_upd_eq; auto.
    + rewrite (proj2 (nth_error_None _ _)) by (rewrite upd_length; lia).
      symmetry; apply nth_error_None; lia.
  - apply nth_error_upd_neq; auto.
Qed.

Lemma upd_same {X} (l : list X) i x : nth_error l i = Some x -> upd l i x = l.
Proof. revert i; induction l; destruct i; simpl; intros; try congruence. f_equal; auto. Qed.

Lemma upd_upd {X} (l : list X) i x y : upd (upd l i x) i y = upd l i y.
Proof. revert i; induction l; destruct i; simpl; auto. intros; f_equal; auto. Qed.

Lemma upd_out {X} (l : list X) i x : length l <= i -> upd l i x = l.
Proof. revert i; induction l; destruct i; simpl; intros; try lia; auto. f_equal; apply IHl; lia. Qed.

Lemma map_upd {X Y} (f : X -> Y) l i x : map f (upd l i x) = upd (map f l) i (f x).
Proof. revert i; induction l; destruct i; simpl; auto. intros; f_equal; auto. Qed.

Lemma nth_error_Some_lt {X} (l : list X) i x : nth_error l i = Some x -> i < length l.
Proof. intros H; apply nth_error_Some; congruence. Qed.

Lemma nth_error_snoc_old {X} (l : list X) x i k : nth_error l i = Some k -> nth_error (l ++ [x]) i = Some k.
Proof. intros H; rewrite nth_error_app1; auto. eapply nth_error_Some_lt; eauto. Qed.

Lemma nth_error_snoc {X} (l : list X) x i k :
  nth_error (l ++ [x]) i = Some k -> nth_error l i = Some k \/ (i = length l /\ k = x).
Proof.
  intros H. destruct (Nat.ltb_spec i (length l)).
  - rewrite nth_error_app1 in H; auto.
  - rewrite nth_error_app2 in H; auto. destruct (i - length l) eqn:E.
    + simpl in H; inversion H; right; split; auto; lia.
    + simpl in H. destruct n; discriminate.
Qed.

Lemma NoDup_map_filter {X Y} (f : X -> Y) (p : X -> bool) l : NoDup (map f l) -> NoDup (map f (filter p l)).
Proof.
  induction l; simpl; intros H; auto. inversion H; subst.
  destruct (p a); simpl; auto. constructor; auto.
  intros Hin; apply H2. apply in_map_iff in Hin. destruct Hin as [x [E Hx]].
  apply filter_In in Hx. apply in_map_iff; exists x; tauto.
Qed.

Lemma NoDup_map_inj {X Y} (f : X -> Y) l a b : NoDup (map f l) -> In a l -> In b l -> f a = f b -> a = b.
Proof.
  induction l; simpl; intros H Ha Hb E; [tauto|]. inversion H; subst.
  destruct Ha as [->|Ha], Hb as [->|Hb]; auto.
  - exfalso; apply H2; rewrite E; apply in_map; auto.
  - exfalso; apply H2; rewrite <- E; apply in_map; auto.
Qed.

(* ====================================================================== accessor facts *)
Lemma hnd_set_hnd k p q o : hnd (set_hnd k p o) q = if Bool.eqb p q then o else hnd k q.
Proof. destruct p, q; reflexivity. Qed.

Lemma lst_set_lst md p q l : lst (set_lst md p l) q = if Bool.eqb p q then l else lst md q.
Proof. destruct p, q; reflexivity. Qed.

Lemma mod_lst_set mods m p l m' q :
  mod_lst (mod_set_lst mods m p l) m' q =
  if (m =? m') && Bool.eqb p q && (m <? length mods) then l else mod_lst mods m' q.
Proof.
  unfold mod_lst, mod_set_lst.
  destruct (nth_error mods m) as [md|] eqn:E.
  - pose proof (nth_error_Some_lt _ _ _ E) as Hlt.
    rewrite nth_error_upd. destruct (Nat.eqb_spec m m') as [->|Hne]; simpl.
    + destruct (Nat.ltb_spec m' (length mods)); try lia. rewrite lst_set_lst.
      destruct (Bool.eqb p q); simpl; auto. rewrite E; auto.
    + auto.
  - apply nth_error_None in E. destruct (Nat.ltb_spec m (length mods)); try lia.
    rewrite !andb_false_r; auto.
Qed.

Lemma mod_set_lst_length mods m p l : length (mod_set_lst mods m p l) = length mods.
Proof. unfold mod_set_lst. destruct (nth_error mods m); auto. apply upd_length. Qed.

Lemma training_set_lst md p l : m_training (set_lst md p l) = m_training md.
Proof. destruct p; reflexivity. Qed.

Lemma map_training_set mods m p l : map m_training (mod_set_lst mods m p l) = map m_training mods.
Proof.
  unfold mod_set_lst. destruct (nth_error mods m) eqn:E; auto.
  rewrite map_upd, training_set_lst. apply upd_same. rewrite nth_error_map, E; auto.
Qed.

Lemma remove_handle_length mods hd : length (remove_handle mods hd) = length mods.
Proof. apply mod_set_lst_length. Qed.
Lemma detach_one_length mods o : length (detach_one mods o) = length mods.
Proof. destruct o; simpl; auto using remove_handle_length. Qed.
Lemma detach_handles_length mods a b : length (detach_handles mods a b) = length mods.
Proof. unfold detach_handles; rewrite !detach_one_length; auto. Qed.

Lemma map_training_detach_one mods o : map m_training (detach_one mods o) = map m_training mods.
Proof. destruct o; simpl; auto. apply map_training_set. Qed.
Lemma map_training_detach mods a b : map m_training (detach_handles mods a b) = map m_training mods.
Proof. unfold detach_handles; rewrite !map_training_detach_one; auto. Qed.

(* the list at (m, q) after removing a handle *)
Lemma mod_lst_remove mods hd m q :
  mod_lst (remove_handle mods hd) m q =
  if (hd_mod hd =? m) && Bool.eqb (hd_pre hd) q then remove_id (hd_id hd) (mod_lst mods m q) else mod_lst mods m q.
Proof.
  unfold remove_handle. rewrite mod_lst_set.
  destruct (Nat.eqb_spec (hd_mod hd) m) as [<-|]; simpl; auto.
  destruct (Bool.eqb_spec (hd_pre hd) q) as [<-|]; simpl; auto.
  destruct (Nat.ltb_spec (hd_mod hd) (length mods)); auto.
  unfold mod_lst. rewrite (proj2 (nth_error_None _ _)); auto.
Qed.

Lemma in_remove_id i l e : In e (remove_id i l) <-> In e l /\ e_id e <> i.
Proof.
  unfold remove_id. rewrite filter_In. destruct (Nat.eqb_spec (e_id e) i); simpl; intuition congruence.
Qed.

Lemma in_add_entry b x l e : In e (add_entry b x l) <-> e = x \/ In e l.
Proof. unfold add_entry; destruct b; simpl; [intuition|]. rewrite in_app_iff; simpl; intuition. Qed.

Lemma NoDup_snoc {X} (l : list X) a : ~ In a l -> NoDup l -> NoDup (l ++ [a]).
Proof.
  induction l; simpl; intros Hn Hd.
  - constructor; auto.
  - inversion Hd; subst. constructor.
    + rewrite in_app_iff; simpl; intuition.
    + apply IHl; auto.
Qed.

Lemma NoDup_map_add_entry {Y} (f : entry -> Y) b x l :
  ~ In (f x) (map f l) -> NoDup (map f l) -> NoDup (map f (add_entry b x l)).
Proof.
  unfold add_entry; destruct b; simpl; intros Hn Hd.
  - constructor; auto.
  - rewrite map_app; simpl. apply NoDup_snoc; auto.
Qed.

(* ====================================================================== the invariant *)
Definition entry_ok (w : world) (m : nat) (pre : bool) (e : entry) : Prop :=
  e_id e < w_next w /\
  exists k, nth_error (w_hooks w) (e_hook e) = Some k /\ k_alive k = true /\
            hnd k pre = Some (mkHandle m pre (e_id e)) /\ e_always e = alw (k_cfg k) pre.

Definition handle_ok (w : world) (hi : nat) (k : hook) (pre : bool) (hd : handle) : Prop :=
  hd_pre hd = pre /\ In (mkEntry (hd_id hd) hi (alw (k_cfg k) pre)) (mod_lst (w_mods w) (hd_mod hd) pre).

(* structural part: the hook dictionaries of the modules and the handles stored in the live hook objects
   describe each other *)
Record SInv (w : world) : Prop := mkSInv {
  s_entries : forall m pre e, In e (mod_lst (w_mods w) m pre) -> entry_ok w m pre e;
  s_nodup : forall m pre, NoDup (map e_id (mod_lst (w_mods w) m pre));
  s_handles : forall hi k pre hd, nth_error (w_hooks w) hi = Some k -> k_alive k = true ->
                                  hnd k pre = Some hd -> handle_ok w hi k pre hd
}.

(* protocol part, per live hook object *)
Record hook_ok (nmods : nat) (k : hook) : Prop := mkHookOk {
  p_fin : k_fin k = if registered k then Some (k_preh k, k_posth k) else None;
  p_safe : safe_cfg (k_cfg k) = true;
  p_state : state_cfg_ok (k_cfg k) = true;
  p_some : c_pre (k_cfg k) || c_post (k_cfg k) = true;
  p_mod : c_kind (k_cfg k) = KState -> c_mod (k_cfg k) < nmods;
  p_reg : registered k = true ->
          exists m, forall pre, (c_has (k_cfg k) pre = true -> exists i, hnd k pre = Some (mkHandle m pre i)) /\
                                (c_has (k_cfg k) pre = false -> hnd k pre = None)
}.

Definition PInv (w : world) : Prop :=
  forall hi k, nth_error (w_hooks w) hi = Some k -> k_alive k = true -> hook_ok (length (w_mods w)) k.

Definition Inv (w : world) : Prop := SInv w /\ PInv w.

(* ---------------------------------------------------------------------- structural steps *)
Lemma set_hnd_alive k p o : k_alive (set_hnd k p o) = k_alive k.
Proof. destruct p; reflexivity. Qed.
Lemma set_hnd_cfg k p o : k_cfg (set_hnd k p o) = k_cfg k.
Proof. destruct p; reflexivity. Qed.

(* registering one lambda and storing its handle *)
Lemma sinv_add w h k pre m prepend :
  SInv w -> nth_error (w_hooks w) h = Some k -> k_alive k = true -> hnd k pre = None -> m < length (w_mods w) ->
  SInv (mkW (upd (w_hooks w) h (set_hnd k pre (Some (mkHandle m pre (w_next w)))))
            (mod_set_lst (w_mods w) m pre
               (add_entry prepend (mkEntry (w_next w) h (alw (k_cfg k) pre)) (mod_lst (w_mods w) m pre)))
            (S (w_next w))).
Proof.
  intros [HE HN HH] Hk Ha Hn Hm.
  pose proof (nth_error_Some_lt _ _ _ Hk) as Hlt.
  assert (Hm' : (m <? length (w_mods w)) = true) by (apply Nat.ltb_lt; auto).
  set (k' := set_hnd k pre (Some (mkHandle m pre (w_next w)))).
  (* an old entry is still fine *)
  assert (Hold : forall m' q e, entry_ok w m' q e ->
            entry_ok (mkW (upd (w_hooks w) h k')
               (mod_set_lst (w_mods w) m pre
                  (add_entry prepend (mkEntry (w_next w) h (alw (k_cfg k) pre)) (mod_lst (w_mods w) m pre)))
               (S (w_next w))) m' q e).
  { intros m' q e [Hid [k0 [Hk0 [Ha0 [Hh0 Hal0]]]]]. split; simpl; [lia|].
    rewrite nth_error_upd. destruct (Nat.eqb_spec h (e_hook e)) as [E|E]; simpl.
    - apply Nat.ltb_lt in Hlt; rewrite Hlt. exists k'. rewrite <- E in Hk0. rewrite Hk in Hk0; inversion Hk0; subst k0.
      unfold k'. rewrite set_hnd_alive, set_hnd_cfg, hnd_set_hnd.
      destruct (Bool.eqb_spec pre q) as [->|]; [congruence|]. auto.
    - exists k0; auto. }
  constructor; simpl.
  - intros m' q e. rewrite mod_lst_set, Hm'.
    destruct (Nat.eqb_spec m m') as [<-|]; simpl; [|intros; apply Hold; auto].
    destruct (Bool.eqb_spec pre q) as [<-|]; simpl; [|intros; apply Hold; auto].
    rewrite in_add_entry. intros [->|Hin]; [|apply Hold; auto].
    split; simpl; [lia|]. exists k'. rewrite nth_error_upd_eq by auto.
    unfold k'. rewrite set_hnd_alive, set_hnd_cfg, hnd_set_hnd, Bool.eqb_reflx. auto.
  - intros m' q. rewrite mod_lst_set, Hm'.
    destruct (Nat.eqb_spec m m') as [<-|]; simpl; auto.
    destruct (Bool.eqb_spec pre q) as [<-|]; simpl; auto.
    apply NoDup_map_add_entry; auto. simpl. intros Hin. apply in_map_iff in Hin.
    destruct Hin as [e [E Hin]]. apply HE in Hin. destruct Hin as [Hid _]. lia.
  - intros hi k0 q hd. unfold handle_ok in *; simpl. rewrite nth_error_upd.
    assert (Hkeep : forall x m' , In x (mod_lst (w_mods w) m' q) ->
              In x (mod_lst (mod_set_lst (w_mods w) m pre
                  (add_entry prepend (mkEntry (w_next w) h (alw (k_cfg k) pre)) (mod_lst (w_mods w) m pre))) m' q)).
    { intros x m' Hx. rewrite mod_lst_set, Hm'.
      destruct (Nat.eqb_spec m m') as [<-|]; simpl; auto.
      destruct (Bool.eqb_spec pre q) as [<-|]; simpl; auto. apply in_add_entry; auto. }
    destruct (Nat.eqb_spec h hi) as [<-|E]; simpl.
    + apply Nat.ltb_lt in Hlt; rewrite Hlt. intros Hk0 _; inversion Hk0; subst k0.
      unfold k'. rewrite hnd_set_hnd, set_hnd_cfg.
      destruct (Bool.eqb_spec pre q) as [<-|Hne].
      * intros Hhd; inversion Hhd; subst hd. split; simpl; auto.
        rewrite mod_lst_set, Hm', Nat.eqb_refl, Bool.eqb_reflx; simpl. apply in_add_entry; auto.
      * intros Hhd. destruct (HH h k q hd Hk Ha Hhd) as [Hp Hin]. split; auto.
    + intros Hk0 Ha0 Hhd. destruct (HH hi k0 q hd Hk0 Ha0 Hhd) as [Hp Hin]. split; auto.
Qed.

(* removing handles *)
Definition matches (o : option handle) (m : nat) (q : bool) (e : entry) : Prop :=
  exists hd, o = Some hd /\ hd_mod hd = m /\ hd_pre hd = q /\ hd_id hd = e_id e.

Lemma in_detach_one mods o m q e :
  In e (mod_lst (detach_one mods o) m q) <-> In e (mod_lst mods m q) /\ ~ matches o m q e.
Proof.
  destruct o as [hd|]; simpl.
  - rewrite mod_lst_remove.
    destruct (Nat.eqb_spec (hd_mod hd) m) as [Em|Em]; simpl.
    + destruct (Bool.eqb_spec (hd_pre hd) q) as [Eq|Eq]; simpl.
      * rewrite in_remove_id. split; intros [H1 H2]; split; auto.
        -- intros [hd' [E [_ [_ E3]]]]; inversion E; subst hd'; congruence.
        -- intros E; apply H2. exists hd; auto.
      * split; [intros H; split; auto|tauto]. intros [hd' [E [_ [E2 _]]]]; inversion E; subst; congruence.
    + split; [intros H; split; auto|tauto]. intros [hd' [E [E2 _]]]; inversion E; subst; congruence.
  - split; [intros H; split; auto|tauto]. intros [hd' [E _]]; discriminate.
Qed.

Lemma nodup_detach_one mods o m q :
  NoDup (map e_id (mod_lst mods m q)) -> NoDup (map e_id (mod_lst (detach_one mods o) m q)).
Proof.
  destruct o as [hd|]; simpl; auto. rewrite mod_lst_remove.
  destruct (_ && _); auto. apply NoDup_map_filter.
Qed.

Lemma in_detach mods a b m q e :
  In e (mod_lst (detach_handles mods a b) m q) <-> In e (mod_lst mods m q) /\ ~ matches a m q e /\ ~ matches b m q e.
Proof. unfold detach_handles. rewrite !in_detach_one. tauto. Qed.

(* detaching the handles a live hook object holds, while the object loses them (deregister) or dies (delete) *)
Lemma sinv_detach w h k k' :
  SInv w -> nth_error (w_hooks w) h = Some k -> k_alive k = true ->
  (k_alive k' = false \/ forall pre, hnd k' pre = None) ->
  SInv (mkW (upd (w_hooks w) h k') (detach_handles (w_mods w) (k_preh k) (k_posth k)) (w_next w)).
Proof.
  intros [HE HN HH] Hk Ha Hk'.
  pose proof (nth_error_Some_lt _ _ _ Hk) as Hlt.
  constructor; simpl.
  - intros m q e Hin. apply in_detach in Hin. destruct Hin as [Hin [Hna Hnb]].
    destruct (HE m q e Hin) as [Hid [k0 [Hk0 [Ha0 [Hh0 Hal0]]]]]. split; simpl; auto.
    rewrite nth_error_upd_neq; [exists k0; auto|].
    intros Eh. rewrite <- Eh, Hk in Hk0; inversion Hk0; subst k0.
    destruct q; simpl in Hh0.
    + apply Hna. eexists; split; eauto.
    + apply Hnb. eexists; split; eauto.
  - intros m q. unfold detach_handles. apply nodup_detach_one, nodup_detach_one, HN.
  - intros hi k0 q hd. unfold handle_ok; simpl. rewrite nth_error_upd.
    destruct (Nat.eqb_spec h hi) as [<-|E]; simpl.
    + apply Nat.ltb_lt in Hlt; rewrite Hlt. intros Hk0 Ha0 Hh0; inversion Hk0; subst k0.
      destruct Hk' as [Hd|Hn]; [congruence|]. rewrite Hn in Hh0; discriminate.
    + intros Hk0 Ha0 Hh0. destruct (HH hi k0 q hd Hk0 Ha0 Hh0) as [Hp Hin]. split; auto.
      apply in_detach. split; auto.
      assert (Hno : forall p hd', hnd k p = Some hd' -> ~ matches (Some hd') (hd_mod hd) q
                       {| e_id := hd_id hd; e_hook := hi; e_always := alw (k_cfg k0) q |}).
      { intros p hd' Hh' [hd'' [E1 [E2 [E3 E4]]]]. inversion E1; subst hd''. simpl in E4.
        destruct (HH h k p hd' Hk Ha Hh') as [Hp' Hin']. rewrite E2 in Hin'. rewrite E3 in Hp'. subst p.
        pose proof (NoDup_map_inj e_id _ _ _ (HN (hd_mod hd) q) Hin Hin') as Heq.
        simpl in Heq. specialize (Heq (eq_sym E4)). inversion Heq. congruence. }
      split.
      * destruct (k_preh k) as [hd'|] eqn:Ep; [apply (Hno true); auto|]. intros [? [? _]]; discriminate.
      * destruct (k_posth k) as [hd'|] eqn:Ep; [apply (Hno false); auto|]. intros [? [? _]]; discriminate.
Qed.

(* replacing a hook object by one with the same handles, liveness and configuration *)
Lemma sinv_same w h k k' :
  SInv w -> nth_error (w_hooks w) h = Some k ->
  k_alive k' = k_alive k -> k_cfg k' = k_cfg k -> k_preh k' = k_preh k -> k_posth k' = k_posth k ->
  SInv (mkW (upd (w_hooks w) h k') (w_mods w) (w_next w)).
Proof.
  intros [HE HN HH] Hk E1 E2 E3 E4.
  pose proof (nth_error_Some_lt _ _ _ Hk) as Hlt. apply Nat.ltb_lt in Hlt.
  assert (Eh : forall p, hnd k' p = hnd k p) by (destruct p; simpl; auto).
  constructor; simpl; auto.
  - intros m q e Hin. destruct (HE m q e Hin) as [Hid [k0 [Hk0 [Ha0 [Hh0 Hal0]]]]]. split; simpl; auto.
    rewrite nth_error_upd. destruct (Nat.eqb_spec h (e_hook e)) as [E|E]; simpl.
    + rewrite Hlt. exists k'. rewrite <- E, Hk in Hk0. inversion Hk0; subst k0. rewrite Eh, E1, E2; auto.
    + exists k0; auto.
  - intros hi k0 q hd. unfold handle_ok; simpl. rewrite nth_error_upd.
    destruct (Nat.eqb_spec h hi) as [<-|E]; simpl.
    + rewrite Hlt. intros Hk0 Ha0 Hh0; inversion Hk0; subst k0. rewrite E2. rewrite Eh in Hh0. rewrite E1 in Ha0.
      apply (HH h k q hd Hk Ha0 Hh0).
    + intros Hk0 Ha0 Hh0. apply (HH hi k0 q hd Hk0 Ha0 Hh0).
Qed.

(* a fresh hook object without handles *)
Lemma sinv_new w k :
  SInv w -> k_preh k = None -> k_posth k = None -> SInv (mkW (w_hooks w ++ [k]) (w_mods w) (w_next w)).
Proof.
  intros [HE HN HH] E1 E2. constructor; simpl; auto.
  - intros m q e Hin. destruct (HE m q e Hin) as [Hid [k0 [Hk0 [Ha0 [Hh0 Hal0]]]]]. split; simpl; auto.
    exists k0; split; auto. apply nth_error_snoc_old; auto.
  - intros hi k0 q hd Hk0 Ha0 Hh0. unfold handle_ok; simpl.
    apply nth_error_snoc in Hk0. destruct Hk0 as [Hk0|[_ ->]].
    + apply (HH hi k0 q hd Hk0 Ha0 Hh0).
    + destruct q; simpl in Hh0; congruence.
Qed.

(* changing the training flag of a module *)
Lemma mod_lst_train mods m md b m' q :
  nth_error mods m = Some md ->
  mod_lst (upd mods m (mkMod b (m_pre md) (m_post md))) m' q = mod_lst mods m' q.
Proof.
  intros E. unfold mod_lst. rewrite nth_error_upd.
  destruct (Nat.eqb_spec m m') as [<-|]; simpl; auto.
  rewrite (proj2 (Nat.ltb_lt _ _) (nth_error_Some_lt _ _ _ E)), E. destruct q; reflexivity.
Qed.

Lemma sinv_train w m md b :
  SInv w -> nth_error (w_mods w) m = Some md ->
  SInv (mkW (w_hooks w) (upd (w_mods w) m (mkMod b (m_pre md) (m_post md))) (w_next w)).
Proof.
  intros [HE HN HH] E. constructor; simpl.
  - intros m' q e. rewrite (mod_lst_train _ _ _ _ _ _ E). intros Hin. apply (HE m' q e Hin).
  - intros m' q. rewrite (mod_lst_train _ _ _ _ _ _ E). auto.
  - intros hi k q hd H1 H2 H3. unfold handle_ok; simpl. rewrite (mod_lst_train _ _ _ _ _ _ E).
    apply (HH hi k q hd H1 H2 H3).
Qed.
