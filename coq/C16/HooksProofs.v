(* Proofs about the hook state machine C16/Hooks.v against the abstract machine C16/HooksSpec.v.
   Everything here is over lists / bools / nat: no axioms. *)
From Coq Require Import List Bool Arith Lia Permutation.
From Inferno Require Import C16.Hooks C16.HooksSpec.
Import ListNotations.

(* ====================================================================== list facts *)
Lemma upd_length {X} (l : list X) i x : length (upd l i x) = length l.
Proof. revert i; induction l; destruct i; simpl; auto. Qed.

Lemma nth_error_upd_eq {X} (l : list X) i x : i < length l -> nth_error (upd l i x) i = Some x.
Proof. revert i; induction l; destruct i; simpl; intros; try lia; auto. apply IHl; lia. Qed.

Lemma nth_error_upd_neq {X} (l : list X) i j x : i <> j -> nth_error (upd l i x) j = nth_error l j.
Proof. revert i j; induction l; destruct i, j; simpl; intros; try congruence; auto. Qed.

Lemma nth_error_upd {X} (l : list X) i j x :
  nth_error (upd l i x) j = if (i =? j) && (i <? length l) then Some x else nth_error l j.
Proof.
  destruct (Nat.eqb_spec i j) as [->|Hne]; simpl.
  - destruct (Nat.ltb_spec j (length l)).
    + apply nth_error_upd_eq; auto.
    + rewrite (proj2 (nth_error_None _ _)) by (rewrite upd_length; lia).
      symmetry; apply nth_error_None; lia.
  - apply nth_error_upd_neq; auto.
Qed.

Lemma upd_same {X} (l : list X) i x : nth_error l i = Some x -> upd l i x = l.
Proof. revert i; induction l; destruct i; simpl; intros; try congruence. f_equal; auto. Qed.

Lemma upd_upd {X} (l : list X) i x y : upd (upd l i x) i y = upd l i y.
Proof. revert i; induction l; destruct i; simpl; auto. intros; f_equal; auto. Qed.

Lemma upd_out {X} (l : list X) i x : length l <= i -> upd l i x = l.
Proof. revert i; induction l; destruct i; simpl; intros; try lia; auto. f_equal; apply IHl; lia. Qed.

Lemma map_upd {X Y} (f : X -> Y) l i x : map f (upd l i x) = upd (map f l) i (f x).
Proof. revert i; induction l; destruct i; simpl; auto. intros; f_equal; auto. Qed.

Lemma nth_error_Some_lt {X} (l : list X) i x : nth_error l i = Some x -> i < length l.
Proof. intros H; apply nth_error_Some; congruence. Qed.

Lemma nth_error_snoc_old {X} (l : list X) x i k : nth_error l i = Some k -> nth_error (l ++ [x]) i = Some k.
Proof. intros H; rewrite nth_error_app1; auto. eapply nth_error_Some_lt; eauto. Qed.

Lemma nth_error_snoc {X} (l : list X) x i k :
  nth_error (l ++ [x]) i = Some k -> nth_error l i = Some k \/ (i = length l /\ k = x).
Proof.
  intros H. destruct (Nat.ltb_spec i (length l)).
  - rewrite nth_error_app1 in H; auto.
  - rewrite nth_error_app2 in H; auto. destruct (i - length l) eqn:E.
    + simpl in H; inversion H; right; split; auto; lia.
    + simpl in H. destruct n; discriminate.
Qed.

Lemma NoDup_map_filter {X Y} (f : X -> Y) (p : X -> bool) l : NoDup (map f l) -> NoDup (map f (filter p l)).
Proof.
  induction l; simpl; intros H; auto. inversion H; subst.
  destruct (p a); simpl; auto. constructor; auto.
  intros Hin; apply H2. apply in_map_iff in Hin. destruct Hin as [x [E Hx]].
  apply filter_In in Hx. apply in_map_iff; exists x; tauto.
Qed.

Lemma NoDup_map_inj {X Y} (f : X -> Y) l a b : NoDup (map f l) -> In a l -> In b l -> f a = f b -> a = b.
Proof.
  induction l; simpl; intros H Ha Hb E; [tauto|]. inversion H; subst.
  destruct Ha as [->|Ha], Hb as [->|Hb]; auto.
  - exfalso; apply H2; rewrite E; apply in_map; auto.
  - exfalso; apply H2; rewrite <- E; apply in_map; auto.
Qed.

(* ====================================================================== accessor facts *)
Lemma hnd_set_hnd k p q o : hnd (set_hnd k p o) q = if Bool.eqb p q then o else hnd k q.
Proof. destruct p, q; reflexivity. Qed.

Lemma lst_set_lst md p q l : lst (set_lst md p l) q = if Bool.eqb p q then l else lst md q.
Proof. destruct p, q; reflexivity. Qed.

Lemma mod_lst_set mods m p l m' q :
  mod_lst (mod_set_lst mods m p l) m' q =
  if (m =? m') && Bool.eqb p q && (m <? length mods) then l else mod_lst mods m' q.
Proof.
  unfold mod_lst, mod_set_lst.
  destruct (nth_error mods m) as [md|] eqn:E.
  - pose proof (nth_error_Some_lt _ _ _ E) as Hlt.
    rewrite nth_error_upd. destruct (Nat.eqb_spec m m') as [->|Hne]; simpl.
    + destruct (Nat.ltb_spec m' (length mods)); try lia. rewrite lst_set_lst.
      destruct (Bool.eqb p q); simpl; auto. rewrite E; auto.
    + auto.
  - apply nth_error_None in E. destruct (Nat.ltb_spec m (length mods)); try lia.
    rewrite !andb_false_r; auto.
Qed.

Lemma mod_set_lst_length mods m p l : length (mod_set_lst mods m p l) = length mods.
Proof. unfold mod_set_lst. destruct (nth_error mods m); auto. apply upd_length. Qed.

Lemma training_set_lst md p l : m_training (set_lst md p l) = m_training md.
Proof. destruct p; reflexivity. Qed.

Lemma map_training_set mods m p l : map m_training (mod_set_lst mods m p l) = map m_training mods.
Proof.
  unfold mod_set_lst. destruct (nth_error mods m) eqn:E; auto.
  rewrite map_upd, training_set_lst. apply upd_same. rewrite nth_error_map, E; auto.
Qed.

Lemma remove_handle_length mods hd : length (remove_handle mods hd) = length mods.
Proof. apply mod_set_lst_length. Qed.
Lemma detach_one_length mods o : length (detach_one mods o) = length mods.
Proof. destruct o; simpl; auto using remove_handle_length. Qed.
Lemma detach_handles_length mods a b : length (detach_handles mods a b) = length mods.
Proof. unfold detach_handles; rewrite !detach_one_length; auto. Qed.

Lemma map_training_detach_one mods o : map m_training (detach_one mods o) = map m_training mods.
Proof. destruct o; simpl; auto. apply map_training_set. Qed.
Lemma map_training_detach mods a b : map m_training (detach_handles mods a b) = map m_training mods.
Proof. unfold detach_handles; rewrite !map_training_detach_one; auto. Qed.

(* the list at (m, q) after removing a handle *)
Lemma mod_lst_remove mods hd m q :
  mod_lst (remove_handle mods hd) m q =
  if (hd_mod hd =? m) && Bool.eqb (hd_pre hd) q then remove_id (hd_id hd) (mod_lst mods m q) else mod_lst mods m q.
Proof.
  unfold remove_handle. rewrite mod_lst_set.
  destruct (Nat.eqb_spec (hd_mod hd) m) as [<-|]; simpl; auto.
  destruct (Bool.eqb_spec (hd_pre hd) q) as [<-|]; simpl; auto.
  destruct (Nat.ltb_spec (hd_mod hd) (length mods)); auto.
  unfold mod_lst. rewrite (proj2 (nth_error_None _ _)); auto.
Qed.

Lemma in_remove_id i l e : In e (remove_id i l) <-> In e l /\ e_id e <> i.
Proof.
  unfold remove_id. rewrite filter_In. destruct (Nat.eqb_spec (e_id e) i); simpl; intuition congruence.
Qed.

Lemma in_add_entry b x l e : In e (add_entry b x l) <-> e = x \/ In e l.
Proof. unfold add_entry; destruct b; simpl; [intuition|]. rewrite in_app_iff; simpl; intuition. Qed.

Lemma NoDup_snoc {X} (l : list X) a : ~ In a l -> NoDup l -> NoDup (l ++ [a]).
Proof.
  induction l; simpl; intros Hn Hd.
  - constructor; auto.
  - inversion Hd; subst. constructor.
    + rewrite in_app_iff; simpl; intuition.
    + apply IHl; auto.
Qed.

Lemma NoDup_map_add_entry {Y} (f : entry -> Y) b x l :
  ~ In (f x) (map f l) -> NoDup (map f l) -> NoDup (map f (add_entry b x l)).
Proof.
  unfold add_entry; destruct b; simpl; intros Hn Hd.
  - constructor; auto.
  - rewrite map_app; simpl. apply NoDup_snoc; auto.
Qed.

(* ====================================================================== the invariant *)
Definition entry_ok (w : world) (m : nat) (pre : bool) (e : entry) : Prop :=
  e_id e < w_next w /\
  exists k, nth_error (w_hooks w) (e_hook e) = Some k /\ k_alive k = true /\
            hnd k pre = Some (mkHandle m pre (e_id e)) /\ e_always e = alw (k_cfg k) pre.

Definition handle_ok (w : world) (hi : nat) (k : hook) (pre : bool) (hd : handle) : Prop :=
  hd_pre hd = pre /\ In (mkEntry (hd_id hd) hi (alw (k_cfg k) pre)) (mod_lst (w_mods w) (hd_mod hd) pre).

(* structural part: the hook dictionaries of the modules and the handles stored in the live hook objects
   describe each other *)
Record SInv (w : world) : Prop := mkSInv {
  s_entries : forall m pre e, In e (mod_lst (w_mods w) m pre) -> entry_ok w m pre e;
  s_nodup : forall m pre, NoDup (map e_id (mod_lst (w_mods w) m pre));
  s_handles : forall hi k pre hd, nth_error (w_hooks w) hi = Some k -> k_alive k = true ->
                                  hnd k pre = Some hd -> handle_ok w hi k pre hd
}.

(* protocol part, per live hook object *)
Record hook_ok (nmods : nat) (k : hook) : Prop := mkHookOk {
  p_fin : k_fin k = if registered k then Some (k_preh k, k_posth k) else None;
  p_safe : safe_cfg (k_cfg k) = true;
  p_state : state_cfg_ok (k_cfg k) = true;
  p_some : c_pre (k_cfg k) || c_post (k_cfg k) = true;
  p_mod : c_kind (k_cfg k) = KState -> c_mod (k_cfg k) < nmods;
  p_reg : registered k = true ->
          exists m, forall pre, (c_has (k_cfg k) pre = true -> exists i, hnd k pre = Some (mkHandle m pre i)) /\
                                (c_has (k_cfg k) pre = false -> hnd k pre = None)
}.

Definition PInv (w : world) : Prop :=
  forall hi k, nth_error (w_hooks w) hi = Some k -> k_alive k = true -> hook_ok (length (w_mods w)) k.

Definition Inv (w : world) : Prop := SInv w /\ PInv w.

(* ---------------------------------------------------------------------- structural steps *)
Lemma set_hnd_alive k p o : k_alive (set_hnd k p o) = k_alive k.
Proof. destruct p; reflexivity. Qed.
Lemma set_hnd_cfg k p o : k_cfg (set_hnd k p o) = k_cfg k.
Proof. destruct p; reflexivity. Qed.

(* registering one lambda and storing its handle *)
Lemma sinv_add w h k pre m prepend :
  SInv w -> nth_error (w_hooks w) h = Some k -> k_alive k = true -> hnd k pre = None -> m < length (w_mods w) ->
  SInv (mkW (upd (w_hooks w) h (set_hnd k pre (Some (mkHandle m pre (w_next w)))))
            (mod_set_lst (w_mods w) m pre
               (add_entry prepend (mkEntry (w_next w) h (alw (k_cfg k) pre)) (mod_lst (w_mods w) m pre)))
            (S (w_next w))).
Proof.
  intros [HE HN HH] Hk Ha Hn Hm.
  pose proof (nth_error_Some_lt _ _ _ Hk) as Hlt.
  assert (Hm' : (m <? length (w_mods w)) = true) by (apply Nat.ltb_lt; auto).
  set (k' := set_hnd k pre (Some (mkHandle m pre (w_next w)))).
  (* an old entry is still fine *)
  assert (Hold : forall m' q e, entry_ok w m' q e ->
            entry_ok (mkW (upd (w_hooks w) h k')
               (mod_set_lst (w_mods w) m pre
                  (add_entry prepend (mkEntry (w_next w) h (alw (k_cfg k) pre)) (mod_lst (w_mods w) m pre)))
               (S (w_next w))) m' q e).
  { intros m' q e [Hid [k0 [Hk0 [Ha0 [Hh0 Hal0]]]]]. split; simpl; [lia|].
    rewrite nth_error_upd. destruct (Nat.eqb_spec h (e_hook e)) as [E|E]; simpl.
    - apply Nat.ltb_lt in Hlt; rewrite Hlt. exists k'. rewrite <- E in Hk0. rewrite Hk in Hk0; inversion Hk0; subst k0.
      unfold k'. rewrite set_hnd_alive, set_hnd_cfg, hnd_set_hnd.
      destruct (Bool.eqb_spec pre q) as [->|]; [congruence|]. auto.
    - exists k0; auto. }
  constructor; simpl.
  - intros m' q e. rewrite mod_lst_set, Hm'.
    destruct (Nat.eqb_spec m m') as [<-|]; simpl; [|intros; apply Hold; auto].
    destruct (Bool.eqb_spec pre q) as [<-|]; simpl; [|intros; apply Hold; auto].
    rewrite in_add_entry. intros [->|Hin]; [|apply Hold; auto].
    split; simpl; [lia|]. exists k'. rewrite nth_error_upd_eq by auto.
    unfold k'. rewrite set_hnd_alive, set_hnd_cfg, hnd_set_hnd, Bool.eqb_reflx. auto.
  - intros m' q. rewrite mod_lst_set, Hm'.
    destruct (Nat.eqb_spec m m') as [<-|]; simpl; auto.
    destruct (Bool.eqb_spec pre q) as [<-|]; simpl; auto.
    apply NoDup_map_add_entry; auto. simpl. intros Hin. apply in_map_iff in Hin.
    destruct Hin as [e [E Hin]]. apply HE in Hin. destruct Hin as [Hid _]. lia.
  - intros hi k0 q hd. unfold handle_ok in *; simpl. rewrite nth_error_upd.
    assert (Hkeep : forall x m' , In x (mod_lst (w_mods w) m' q) ->
              In x (mod_lst (mod_set_lst (w_mods w) m pre
                  (add_entry prepend (mkEntry (w_next w) h (alw (k_cfg k) pre)) (mod_lst (w_mods w) m pre))) m' q)).
    { intros x m' Hx. rewrite mod_lst_set, Hm'.
      destruct (Nat.eqb_spec m m') as [<-|]; simpl; auto.
      destruct (Bool.eqb_spec pre q) as [<-|]; simpl; auto. apply in_add_entry; auto. }
    destruct (Nat.eqb_spec h hi) as [<-|E]; simpl.
    + apply Nat.ltb_lt in Hlt; rewrite Hlt. intros Hk0 _; inversion Hk0; subst k0.
      unfold k'. rewrite hnd_set_hnd, set_hnd_cfg.
      destruct (Bool.eqb_spec pre q) as [<-|Hne].
      * intros Hhd; inversion Hhd; subst hd. split; simpl; auto.
        rewrite mod_lst_set, Hm', Nat.eqb_refl, Bool.eqb_reflx; simpl. apply in_add_entry; auto.
      * intros Hhd. destruct (HH h k q hd Hk Ha Hhd) as [Hp Hin]. split; auto.
    + intros Hk0 Ha0 Hhd. destruct (HH hi k0 q hd Hk0 Ha0 Hhd) as [Hp Hin]. split; auto.
Qed.

(* removing handles *)
Definition matches (o : option handle) (m : nat) (q : bool) (e : entry) : Prop :=
  exists hd, o = Some hd /\ hd_mod hd = m /\ hd_pre hd = q /\ hd_id hd = e_id e.

Lemma in_detach_one mods o m q e :
  In e (mod_lst (detach_one mods o) m q) <-> In e (mod_lst mods m q) /\ ~ matches o m q e.
Proof.
  destruct o as [hd|]; simpl.
  - rewrite mod_lst_remove.
    destruct (Nat.eqb_spec (hd_mod hd) m) as [Em|Em]; simpl.
    + destruct (Bool.eqb_spec (hd_pre hd) q) as [Eq|Eq]; simpl.
      * rewrite in_remove_id. split; intros [H1 H2]; split; auto.
        -- intros [hd' [E [_ [_ E3]]]]; inversion E; subst hd'; congruence.
        -- intros E; apply H2. exists hd; auto.
      * split; [intros H; split; auto|tauto]. intros [hd' [E [_ [E2 _]]]]; inversion E; subst; congruence.
    + split; [intros H; split; auto|tauto]. intros [hd' [E [E2 _]]]; inversion E; subst; congruence.
  - split; [intros H; split; auto|tauto]. intros [hd' [E _]]; discriminate.
Qed.

Lemma nodup_detach_one mods o m q :
  NoDup (map e_id (mod_lst mods m q)) -> NoDup (map e_id (mod_lst (detach_one mods o) m q)).
Proof.
  destruct o as [hd|]; simpl; auto. rewrite mod_lst_remove.
  destruct (_ && _); auto. apply NoDup_map_filter.
Qed.

Lemma in_detach mods a b m q e :
  In e (mod_lst (detach_handles mods a b) m q) <-> In e (mod_lst mods m q) /\ ~ matches a m q e /\ ~ matches b m q e.
Proof. unfold detach_handles. rewrite !in_detach_one. tauto. Qed.

(* detaching the handles a live hook object holds, while the object loses them (deregister) or dies (delete) *)
Lemma sinv_detach w h k k' :
  SInv w -> nth_error (w_hooks w) h = Some k -> k_alive k = true ->
  (k_alive k' = false \/ forall pre, hnd k' pre = None) ->
  SInv (mkW (upd (w_hooks w) h k') (detach_handles (w_mods w) (k_preh k) (k_posth k)) (w_next w)).
Proof.
  intros [HE HN HH] Hk Ha Hk'.
  pose proof (nth_error_Some_lt _ _ _ Hk) as Hlt.
  constructor; simpl.
  - intros m q e Hin. apply in_detach in Hin. destruct Hin as [Hin [Hna Hnb]].
    destruct (HE m q e Hin) as [Hid [k0 [Hk0 [Ha0 [Hh0 Hal0]]]]]. split; simpl; auto.
    rewrite nth_error_upd_neq; [exists k0; auto|].
    intros Eh. rewrite <- Eh, Hk in Hk0; inversion Hk0; subst k0.
    destruct q; simpl in Hh0.
    + apply Hna. eexists; split; eauto.
    + apply Hnb. eexists; split; eauto.
  - intros m q. unfold detach_handles. apply nodup_detach_one, nodup_detach_one, HN.
  - intros hi k0 q hd. unfold handle_ok; simpl. rewrite nth_error_upd.
    destruct (Nat.eqb_spec h hi) as [<-|E]; simpl.
    + apply Nat.ltb_lt in Hlt; rewrite Hlt. intros Hk0 Ha0 Hh0; inversion Hk0; subst k0.
      destruct Hk' as [Hd|Hn]; [congruence|]. rewrite Hn in Hh0; discriminate.
    + intros Hk0 Ha0 Hh0. destruct (HH hi k0 q hd Hk0 Ha0 Hh0) as [Hp Hin]. split; auto.
      apply in_detach. split; auto.
      assert (Hno : forall p hd', hnd k p = Some hd' -> ~ matches (Some hd') (hd_mod hd) q
                       {| e_id := hd_id hd; e_hook := hi; e_always := alw (k_cfg k0) q |}).
      { intros p hd' Hh' [hd'' [E1 [E2 [E3 E4]]]]. inversion E1; subst hd''. simpl in E4.
        destruct (HH h k p hd' Hk Ha Hh') as [Hp' Hin']. rewrite E2 in Hin'. rewrite E3 in Hp'. subst p.
        pose proof (NoDup_map_inj e_id _ _ _ (HN (hd_mod hd) q) Hin Hin') as Heq.
        simpl in Heq. specialize (Heq (eq_sym E4)). inversion Heq. congruence. }
      split.
      * destruct (k_preh k) as [hd'|] eqn:Ep; [apply (Hno true); auto|]. intros [? [? _]]; discriminate.
      * destruct (k_posth k) as [hd'|] eqn:Ep; [apply (Hno false); auto|]. intros [? [? _]]; discriminate.
Qed.

(* replacing a hook object by one with the same handles, liveness and configuration *)
Lemma sinv_same w h k k' :
  SInv w -> nth_error (w_hooks w) h = Some k ->
  k_alive k' = k_alive k -> k_cfg k' = k_cfg k -> k_preh k' = k_preh k -> k_posth k' = k_posth k ->
  SInv (mkW (upd (w_hooks w) h k') (w_mods w) (w_next w)).
Proof.
  intros [HE HN HH] Hk E1 E2 E3 E4.
  pose proof (nth_error_Some_lt _ _ _ Hk) as Hlt. apply Nat.ltb_lt in Hlt.
  assert (Eh : forall p, hnd k' p = hnd k p) by (destruct p; simpl; auto).
  constructor; simpl; auto.
  - intros m q e Hin. destruct (HE m q e Hin) as [Hid [k0 [Hk0 [Ha0 [Hh0 Hal0]]]]]. split; simpl; auto.
    rewrite nth_error_upd. destruct (Nat.eqb_spec h (e_hook e)) as [E|E]; simpl.
    + rewrite Hlt. exists k'. rewrite <- E, Hk in Hk0. inversion Hk0; subst k0. rewrite Eh, E1, E2; auto.
    + exists k0; auto.
  - intros hi k0 q hd. unfold handle_ok; simpl. rewrite nth_error_upd.
    destruct (Nat.eqb_spec h hi) as [<-|E]; simpl.
    + rewrite Hlt. intros Hk0 Ha0 Hh0; inversion Hk0; subst k0. rewrite E2. rewrite Eh in Hh0. rewrite E1 in Ha0.
      apply (HH h k q hd Hk Ha0 Hh0).
    + intros Hk0 Ha0 Hh0. apply (HH hi k0 q hd Hk0 Ha0 Hh0).
Qed.

(* a fresh hook object without handles *)
Lemma sinv_new w k :
  SInv w -> k_preh k = None -> k_posth k = None -> SInv (mkW (w_hooks w ++ [k]) (w_mods w) (w_next w)).
Proof.
  intros [HE HN HH] E1 E2. constructor; simpl; auto.
  - intros m q e Hin. destruct (HE m q e Hin) as [Hid [k0 [Hk0 [Ha0 [Hh0 Hal0]]]]]. split; simpl; auto.
    exists k0; split; auto. apply nth_error_snoc_old; auto.
  - intros hi k0 q hd Hk0 Ha0 Hh0. unfold handle_ok; simpl.
    apply nth_error_snoc in Hk0. destruct Hk0 as [Hk0|[_ ->]].
    + apply (HH hi k0 q hd Hk0 Ha0 Hh0).
    + destruct q; simpl in Hh0; congruence.
Qed.

(* changing the training flag of a module *)
Lemma mod_lst_train mods m md b m' q :
  nth_error mods m = Some md ->
  mod_lst (upd mods m (mkMod b (m_pre md) (m_post md))) m' q = mod_lst mods m' q.
Proof.
  intros E. unfold mod_lst. rewrite nth_error_upd.
  destruct (Nat.eqb_spec m m') as [<-|]; simpl; auto.
  rewrite (proj2 (Nat.ltb_lt _ _) (nth_error_Some_lt _ _ _ E)), E. destruct q; reflexivity.
Qed.

Lemma sinv_train w m md b :
  SInv w -> nth_error (w_mods w) m = Some md ->
  SInv (mkW (w_hooks w) (upd (w_mods w) m (mkMod b (m_pre md) (m_post md))) (w_next w)).
Proof.
  intros [HE HN HH] E. constructor; simpl.
  - intros m' q e. rewrite (mod_lst_train _ _ _ _ _ _ E). intros Hin. apply (HE m' q e Hin).
  - intros m' q. rewrite (mod_lst_train _ _ _ _ _ _ E). auto.
  - intros hi k q hd H1 H2 H3. unfold handle_ok; simpl. rewrite (mod_lst_train _ _ _ _ _ _ E).
    apply (HH hi k q hd H1 H2 H3).
Qed.

(* ====================================================================== module call *)
Definition fire_of (hooks : list hook) (tr q : bool) (e : entry) : list event :=
  match nth_error hooks (e_hook e) with
  | Some k => if armed k tr then [EFire (e_hook e) (tag_of k q)] else []
  | None => []
  end.

Lemma run_entry_ok w m q tr e : entry_ok w m q e -> run_entry (w_hooks w) tr q e = Some (fire_of (w_hooks w) tr q e).
Proof.
  intros [_ [k [Hk [Ha _]]]]. unfold run_entry, fire_of. rewrite Hk, Ha. reflexivity.
Qed.

Lemma run_pre_ok w m tr es :
  (forall e, In e es -> entry_ok w m true e) ->
  run_pre (w_hooks w) tr es = (flat_map (fire_of (w_hooks w) tr true) es, true).
Proof.
  induction es; simpl; intros H; auto.
  rewrite (run_entry_ok w m true tr a) by auto. rewrite IHes by auto. reflexivity.
Qed.

Lemma run_post_ok w m tr es :
  (forall e, In e es -> entry_ok w m false e) ->
  exists called, run_post (w_hooks w) tr es = (flat_map (fire_of (w_hooks w) tr false) es, true, called).
Proof.
  induction es; simpl; intros H; eauto.
  rewrite (run_entry_ok w m false tr a) by auto. destruct IHes as [c Hc]; auto. rewrite Hc. eauto.
Qed.

Lemma run_always_ok w m tr es :
  (forall e, In e es -> entry_ok w m false e) ->
  run_always (w_hooks w) tr [] es =
  flat_map (fun e => if e_always e then fire_of (w_hooks w) tr false e else []) es.
Proof.
  induction es; simpl; intros H; auto.
  rewrite (run_entry_ok w m false tr a) by auto. rewrite IHes by auto.
  rewrite andb_true_r. reflexivity.
Qed.

(* the events of a module call when no handle dangles *)
Definition call_pre (w : world) (m : nat) : list event :=
  match nth_error (w_mods w) m with
  | Some md => flat_map (fire_of (w_hooks w) (m_training md) true) (m_pre md)
  | None => []
  end.
Definition call_post (w : world) (m : nat) (fail : bool) : list event :=
  match nth_error (w_mods w) m with
  | Some md => flat_map (fun e => if negb fail || e_always e then fire_of (w_hooks w) (m_training md) false e else [])
                        (m_post md)
  | None => []
  end.

Lemma call_ok w m fail :
  SInv w -> m < length (w_mods w) ->
  call w m fail = (call_pre w m ++ EFwd m :: call_post w m fail, if fail then Some EValue else None).
Proof.
  intros [HE _ _] Hm. unfold call, call_pre, call_post.
  destruct (nth_error (w_mods w) m) as [md|] eqn:E; [|apply nth_error_None in E; lia].
  assert (Hpre : forall e, In e (m_pre md) -> entry_ok w m true e).
  { intros e Hin. apply HE. unfold mod_lst; rewrite E; auto. }
  assert (Hpost : forall e, In e (m_post md) -> entry_ok w m false e).
  { intros e Hin. apply HE. unfold mod_lst; rewrite E; auto. }
  rewrite (run_pre_ok w m _ _ Hpre). simpl.
  destruct fail; simpl.
  - rewrite (run_always_ok w m _ _ Hpost). rewrite <- app_assoc. reflexivity.
  - destruct (run_post_ok w m (m_training md) _ Hpost) as [c Hc]. rewrite Hc.
    rewrite <- app_assoc. simpl. reflexivity.
Qed.

(* counting the fires of one hook object *)
Lemma count_fire_app h a b : count_fire h (a ++ b) = count_fire h a + count_fire h b.
Proof. unfold count_fire. rewrite filter_app, app_length. auto. Qed.

Lemma count_fire_fire_of hooks tr q e h :
  count_fire h (fire_of hooks tr q e) =
  if e_hook e =? h then match nth_error hooks h with Some k => b2n (armed k tr) | None => 0 end else 0.
Proof.
  unfold fire_of, count_fire. destruct (Nat.eqb_spec (e_hook e) h) as [->|Hne].
  - destruct (nth_error hooks h); auto. destruct (armed h0 tr); simpl; auto. rewrite Nat.eqb_refl; auto.
  - destruct (nth_error hooks (e_hook e)); auto. destruct (armed h0 tr); simpl; auto.
    destruct (Nat.eqb_spec (e_hook e) h); try congruence; auto.
Qed.

Lemma count_fire_flat hooks tr q (g : entry -> bool) es h :
  NoDup (map e_hook es) ->
  count_fire h (flat_map (fun e => if g e then fire_of hooks tr q e else []) es) =
  if existsb (fun e => (e_hook e =? h) && g e) es
  then match nth_error hooks h with Some k => b2n (armed k tr) | None => 0 end else 0.
Proof.
  induction es; simpl; intros Hd; auto. inversion Hd; subst.
  rewrite count_fire_app, IHes by auto.
  destruct (g a) eqn:Eg.
  - rewrite count_fire_fire_of. destruct (Nat.eqb_spec (e_hook a) h) as [E|E]; simpl; auto.
    destruct (existsb _ es) eqn:Ex; [|lia].
    exfalso. apply existsb_exists in Ex. destruct Ex as [x [Hx Hx2]].
    apply andb_prop in Hx2. destruct Hx2 as [Hx2 _]. apply Nat.eqb_eq in Hx2.
    apply H1. rewrite E, <- Hx2. apply in_map; auto.
  - rewrite andb_false_r. simpl. reflexivity.
Qed.

(* each hook object occurs at most once in a hook dictionary *)
Lemma sinv_nodup_hooks w m q : SInv w -> NoDup (map e_hook (mod_lst (w_mods w) m q)).
Proof.
  intros [HE HN _]. specialize (HN m q).
  assert (Hinj : forall a b, In a (mod_lst (w_mods w) m q) -> In b (mod_lst (w_mods w) m q) ->
                             e_hook a = e_hook b -> e_id a = e_id b).
  { intros a b Ha Hb E. destruct (HE m q a Ha) as [_ [k1 [Hk1 [_ [Hh1 _]]]]].
    destruct (HE m q b Hb) as [_ [k2 [Hk2 [_ [Hh2 _]]]]]. rewrite E, Hk2 in Hk1. inversion Hk1; subst k2.
    rewrite Hh2 in Hh1. inversion Hh1; auto. }
  revert HN Hinj. generalize (mod_lst (w_mods w) m q). induction l; simpl; intros; constructor.
  - intros Hin. apply in_map_iff in Hin. destruct Hin as [x [Ex Hx]].
    inversion HN; subst. apply H1. rewrite <- (Hinj x a); auto. apply in_map; auto.
  - inversion HN; subst. apply IHl; auto.
Qed.

Lemma armed_a_armed k tr : armed k tr = a_armed (abs_hook k) tr.
Proof. unfold armed, a_armed; simpl. destruct (k_te k), (k_ee k), tr; reflexivity. Qed.

(* "registered in position q on module m", read from the handle field, equals the abstract reading *)
Lemma reg_iff n k q m :
  hook_ok n k -> k_alive k = true ->
  ((exists i, hnd k q = Some (mkHandle m q i)) <-> (reg_on (abs_hook k) m = true /\ c_has (k_cfg k) q = true)).
Proof.
  intros [_ _ _ _ _ Hreg] Ha. unfold reg_on, abs_hook, abs_reg; simpl. rewrite Ha.
  split.
  - intros [i Hi].
    assert (R : registered k = true).
    { unfold registered. destruct q; simpl in Hi; rewrite Hi; simpl; auto; try apply orb_true_r. }
    destruct (Hreg R) as [m0 Hm0].
    destruct (c_has (k_cfg k) q) eqn:Ec.
    + destruct (proj1 (Hm0 q) Ec) as [j Hj]. rewrite Hj in Hi. inversion Hi; subst.
      split; auto.
      destruct (c_has (k_cfg k) true) eqn:Et.
      * destruct (proj1 (Hm0 true) Et) as [j' Hj']. simpl in Hj'. rewrite Hj'. simpl. apply Nat.eqb_refl.
      * pose proof (proj2 (Hm0 true) Et) as Hn. simpl in Hn. rewrite Hn.
        destruct q; [congruence|]. simpl in Hj. rewrite Hj. simpl. apply Nat.eqb_refl.
    + rewrite (proj2 (Hm0 q) Ec) in Hi. discriminate.
  - intros [Hr Hc].
    assert (R : registered k = true).
    { unfold registered. destruct (k_preh k); simpl; auto. destruct (k_posth k); simpl; auto. }
    destruct (Hreg R) as [m0 Hm0]. destruct (proj1 (Hm0 q) Hc) as [i Hi].
    exists i. rewrite Hi. f_equal. f_equal.
    destruct (c_has (k_cfg k) true) eqn:Et.
    + destruct (proj1 (Hm0 true) Et) as [j' Hj']. simpl in Hj'. rewrite Hj' in Hr. simpl in Hr.
      apply Nat.eqb_eq in Hr; auto.
    + pose proof (proj2 (Hm0 true) Et) as Hn. simpl in Hn. rewrite Hn in Hr.
      destruct q; [congruence|]. simpl in Hi. rewrite Hi in Hr. simpl in Hr. apply Nat.eqb_eq in Hr; auto.
Qed.

Lemma existsb_entry w m q h (g : entry -> bool) :
  SInv w ->
  (existsb (fun e => (e_hook e =? h) && g e) (mod_lst (w_mods w) m q) = true <->
   exists k i, nth_error (w_hooks w) h = Some k /\ k_alive k = true /\ hnd k q = Some (mkHandle m q i) /\
               g (mkEntry i h (alw (k_cfg k) q)) = true).
Proof.
  intros [HE HN HH]. rewrite existsb_exists. split.
  - intros [e [Hin He]]. apply andb_prop in He. destruct He as [He Hg]. apply Nat.eqb_eq in He.
    destruct (HE m q e Hin) as [_ [k [Hk [Ha [Hh Hal]]]]].
    exists k, (e_id e). rewrite <- He. repeat split; auto.
    rewrite <- Hal. destruct e; simpl; auto.
  - intros [k [i [Hk [Ha [Hh Hg]]]]]. destruct (HH h k q _ Hk Ha Hh) as [_ Hin]. simpl in Hin.
    eexists; split; [exact Hin|]. simpl. rewrite Nat.eqb_refl. auto.
Qed.

Lemma nth_error_abs_hooks w h : nth_error (a_hooks (abs w)) h = option_map abs_hook (nth_error (w_hooks w) h).
Proof. unfold abs; simpl. apply nth_error_map. Qed.
Lemma nth_error_abs_train w m : nth_error (a_train (abs w)) m = option_map m_training (nth_error (w_mods w) m).
Proof. unfold abs; simpl. apply nth_error_map. Qed.

(* generic counting statement for one position; b = true: every registered hook is dispatched,
   b = false: only the always_call ones (failing forward) *)
Lemma count_position w m md q b h :
  Inv w -> nth_error (w_mods w) m = Some md ->
  count_fire h (flat_map (fun e => if b || e_always e then fire_of (w_hooks w) (m_training md) q e else [])
                         (lst md q)) =
  b2n (match nth_error (w_hooks w) h with
       | Some k => k_alive k && reg_on (abs_hook k) m && c_has (k_cfg k) q && a_armed (abs_hook k) (m_training md)
                   && (b || alw (k_cfg k) q)
       | None => false
       end).
Proof.
  intros [HS HP] Hmd.
  assert (El : lst md q = mod_lst (w_mods w) m q) by (unfold mod_lst; rewrite Hmd; auto).
  rewrite El, count_fire_flat by (apply sinv_nodup_hooks; auto).
  pose proof (existsb_entry w m q h (fun e => b || e_always e) HS) as Hex. simpl in Hex.
  destruct (nth_error (w_hooks w) h) as [k|] eqn:Hk.
  - destruct (k_alive k) eqn:Ha; simpl.
    + pose proof (reg_iff _ k q m (HP h k Hk Ha) Ha) as Hr.
      destruct (existsb _ _) eqn:Ex.
      * destruct (proj1 Hex eq_refl) as [k0 [i [Hk0 [_ [Hh Hg]]]]]. inversion Hk0; subst k0.
        destruct (proj1 Hr (ex_intro _ i Hh)) as [R1 R2]. rewrite R1, R2, Hg, armed_a_armed. simpl.
        rewrite andb_true_r. auto.
      * destruct (reg_on (abs_hook k) m && c_has (k_cfg k) q && (b || alw (k_cfg k) q)) eqn:Eb.
        -- apply andb_prop in Eb. destruct Eb as [Eb E3]. apply andb_prop in Eb. destruct Eb as [E1 E2].
           destruct (proj2 Hr (conj E1 E2)) as [i Hi].
           assert (false = true) by (apply Hex; exists k, i; auto). discriminate.
        -- destruct (reg_on (abs_hook k) m), (c_has (k_cfg k) q), (b || alw (k_cfg k) q);
             simpl in *; try discriminate; rewrite ?andb_false_r; auto.
    + destruct (existsb _ _) eqn:Ex; auto.
      destruct (proj1 Hex eq_refl) as [k0 [i [Hk0 [Ha0 _]]]]. congruence.
  - destruct (existsb _ _) eqn:Ex; auto.
Qed.

Lemma fire_of_shape hooks tr q e x :
  In x (fire_of hooks tr q e) ->
  exists k, nth_error hooks (e_hook e) = Some k /\ x = EFire (e_hook e) (tag_of k q).
Proof.
  unfold fire_of. destruct (nth_error hooks (e_hook e)) as [k|]; simpl; [|tauto].
  destruct (armed k tr); simpl; [|tauto]. intros [<-|[]]. eauto.
Qed.

(* THE CALL THEOREM (state level): with the invariant, a module call emits
   pre-fires ++ [forward] ++ post-fires; each hook object fires in each part exactly as often (0 or 1)
   as the abstract machine says; the callable run is the one configured. *)
Theorem call_spec w m fail :
  Inv w -> m < length (w_mods w) ->
  exists pres posts,
    call w m fail = (pres ++ EFwd m :: posts, if fail then Some EValue else None) /\
    (forall h, count_fire h pres = b2n (a_fires_pre (abs w) h m)) /\
    (forall h, count_fire h posts = b2n (a_fires_post (abs w) h m fail)) /\
    (forall x, In x pres -> exists h, x = EFire h (a_tag (abs w) h true)) /\
    (forall x, In x posts -> exists h, x = EFire h (a_tag (abs w) h false)).
Proof.
  intros HI Hm. exists (call_pre w m), (call_post w m fail).
  split; [apply call_ok; [apply HI|auto]|].
  unfold call_pre, call_post, a_fires_pre, a_fires_post, a_tag.
  destruct (nth_error (w_mods w) m) as [md|] eqn:Hmd; [|apply nth_error_None in Hmd; lia].
  assert (Htag : forall q e x, In x (fire_of (w_hooks w) (m_training md) q e) ->
            exists h, x = EFire h match nth_error (a_hooks (abs w)) h with
                                   | Some k => match c_kind (a_cfg k) with KState => 2 | _ => if q then 0 else 1 end
                                   | None => 0 end).
  { intros q e x Hx. apply fire_of_shape in Hx. destruct Hx as [k [Hk ->]]. exists (e_hook e).
    rewrite nth_error_abs_hooks, Hk. reflexivity. }
  repeat split.
  - intros h. rewrite nth_error_abs_hooks, nth_error_abs_train, Hmd. simpl.
    change (flat_map (fire_of (w_hooks w) (m_training md) true) (m_pre md))
      with (flat_map (fun e => if true || e_always e then fire_of (w_hooks w) (m_training md) true e else [])
                     (lst md true)).
    rewrite (count_position w m md true true h HI Hmd).
    destruct (nth_error (w_hooks w) h); simpl; auto. rewrite andb_true_r. reflexivity.
  - intros h. rewrite nth_error_abs_hooks, nth_error_abs_train, Hmd. simpl.
    change (m_post md) with (lst md false).
    rewrite (count_position w m md false (negb fail) h HI Hmd).
    destruct (nth_error (w_hooks w) h); simpl; auto.
  - intros x Hx. apply in_flat_map in Hx. destruct Hx as [e [_ Hx]].
    destruct (Htag true e x Hx) as [h Hh]. exists h. exact Hh.
  - intros x Hx. apply in_flat_map in Hx. destruct Hx as [e [_ Hx]].
    destruct (negb fail || e_always e); [|destruct Hx].
    destruct (Htag false e x Hx) as [h Hh]. exists h. exact Hh.
Qed.

(* ====================================================================== every operation preserves the invariant
   and commutes with the abstraction *)
Lemma is_some_abs_reg k : k_alive k = true -> is_some (abs_reg k) = registered k.
Proof. intros Ha. unfold abs_reg, registered. rewrite Ha. destruct (k_preh k), (k_posth k); reflexivity. Qed.

Lemma abs_upd w h k' mods' nx :
  abs (mkW (upd (w_hooks w) h k') mods' nx) = mkAW (upd (a_hooks (abs w)) h (abs_hook k')) (map m_training mods').
Proof. unfold abs; simpl. rewrite map_upd. reflexivity. Qed.

Lemma abs_length_train w : length (a_train (abs w)) = length (w_mods w).
Proof. unfold abs; simpl. apply map_length. Qed.

Lemma registered_false k : registered k = false -> k_preh k = None /\ k_posth k = None.
Proof. unfold registered. destruct (k_preh k), (k_posth k); simpl; intros; try discriminate; auto. Qed.

Lemma pinv_upd w h k k' mods' nx :
  PInv w -> nth_error (w_hooks w) h = Some k -> length mods' = length (w_mods w) ->
  (k_alive k' = true -> hook_ok (length (w_mods w)) k') ->
  PInv (mkW (upd (w_hooks w) h k') mods' nx).
Proof.
  intros HP Hk Hl Hok hi k0. simpl. rewrite Hl, nth_error_upd.
  destruct (Nat.eqb_spec h hi) as [<-|]; simpl.
  - rewrite (proj2 (Nat.ltb_lt _ _) (nth_error_Some_lt _ _ _ Hk)). intros E; inversion E; subst; auto.
  - apply HP.
Qed.

(* --- deregister --- *)
Lemma deregister_sound w h k :
  Inv w -> nth_error (w_hooks w) h = Some k -> k_alive k = true ->
  Inv (hook_deregister w h k) /\
  abs (hook_deregister w h k) = a_set (abs w) h (mkA (k_cfg k) true (k_te k) (k_ee k) None).
Proof.
  intros [HS HP] Hk Ha. unfold hook_deregister. split; [split|].
  - apply sinv_detach; auto. right; destruct pre; reflexivity.
  - eapply pinv_upd; eauto. apply detach_handles_length.
    intros _. destruct (HP h k Hk Ha). constructor; simpl; auto. discriminate.
  - rewrite abs_upd, map_training_detach. unfold a_set, abs_hook, abs_reg; simpl. rewrite Ha. reflexivity.
Qed.

(* --- delete --- *)
Lemma delete_sound w h k :
  Inv w -> nth_error (w_hooks w) h = Some k -> k_alive k = true ->
  let w' := mkW (upd (w_hooks w) h (mkHook (k_cfg k) false (k_te k) (k_ee k) (k_preh k) (k_posth k) None))
                (match k_fin k with Some (a, b) => detach_handles (w_mods w) a b | None => w_mods w end) (w_next w) in
  Inv w' /\ abs w' = a_set (abs w) h (mkA (k_cfg k) false (k_te k) (k_ee k) None).
Proof.
  intros [HS HP] Hk Ha.
  assert (Em : match k_fin k with Some (a, b) => detach_handles (w_mods w) a b | None => w_mods w end
               = detach_handles (w_mods w) (k_preh k) (k_posth k)).
  { rewrite (p_fin _ _ (HP h k Hk Ha)). destruct (registered k) eqn:R; auto.
    destruct (registered_false k R) as [-> ->]. reflexivity. }
  simpl. rewrite Em. split; [split|].
  - apply sinv_detach; auto.
  - eapply pinv_upd; eauto. apply detach_handles_length. simpl; discriminate.
  - rewrite abs_upd, map_training_detach. reflexivity.
Qed.

(* --- trainexec / evalexec assignment --- *)
Lemma setexec_sound w h k k' :
  Inv w -> nth_error (w_hooks w) h = Some k -> k_alive k = true ->
  k_alive k' = k_alive k -> k_cfg k' = k_cfg k -> k_preh k' = k_preh k -> k_posth k' = k_posth k -> k_fin k' = k_fin k ->
  Inv (set_hook w h k').
Proof.
  intros [HS HP] Hk Ha E1 E2 E3 E4 E5. unfold set_hook. split.
  - eapply sinv_same; eauto.
  - eapply pinv_upd; eauto. intros _. destruct (HP h k Hk Ha) as [F1 F2 F3 F4 F5 F6].
    assert (ER : registered k' = registered k) by (unfold registered; rewrite E3, E4; auto).
    assert (Eh : forall p, hnd k' p = hnd k p) by (destruct p; simpl; auto).
    constructor; rewrite ?E2, ?E3, ?E4, ?E5, ?ER; auto.
    intros R. destruct (F6 R) as [m0 Hm0]. exists m0. intros p. rewrite Eh. apply Hm0.
Qed.

(* --- register --- *)
Lemma reg_at_step pre w h k m w1 k1 :
  SInv w -> nth_error (w_hooks w) h = Some k -> k_alive k = true -> hnd k pre = None -> m < length (w_mods w) ->
  reg_at pre w h k m = Some (w1, k1) ->
  SInv w1 /\ k1 = set_hnd k pre (Some (mkHandle m pre (w_next w))) /\ w_hooks w1 = upd (w_hooks w) h k1 /\
  map m_training (w_mods w1) = map m_training (w_mods w) /\ length (w_mods w1) = length (w_mods w).
Proof.
  intros HS Hk Ha Hn Hm. unfold reg_at. destruct (c_bad (k_cfg k) pre); [discriminate|].
  intros E; inversion E; subst; clear E. simpl.
  split; [apply sinv_add; auto|]. repeat split; auto using map_training_set, mod_set_lst_length.
Qed.

Lemma kwargs_ok_cases c :
  kwargs_ok c = negb (c_has c true && c_bad c true) && negb (c_has c false && c_bad c false).
Proof. reflexivity. Qed.

(* the object after a complete Hook.register *)
Lemma hook_ok_registered n k m i j :
  hook_ok n k -> registered k = false ->
  let preh := if c_pre (k_cfg k) then Some (mkHandle m true i) else None in
  let posth := if c_post (k_cfg k) then Some (mkHandle m false j) else None in
  hook_ok n (mkHook (k_cfg k) (k_alive k) (k_te k) (k_ee k) preh posth (Some (preh, posth))).
Proof.
  intros [F1 F2 F3 F4 F5 F6] R. simpl. constructor; simpl; auto.
  - unfold registered; simpl. destruct (c_pre (k_cfg k)), (c_post (k_cfg k)); simpl in *; auto; discriminate.
  - intros _. exists m. intros [|]; simpl; destruct (c_pre (k_cfg k)), (c_post (k_cfg k));
      split; intros; try discriminate; eauto.
Qed.

Lemma register_sound w h k m :
  Inv w -> nth_error (w_hooks w) h = Some k -> k_alive k = true ->
  Inv (fst (hook_register w h k m)) /\
  abs (fst (hook_register w h k m)) = fst (a_register (abs w) h (abs_hook k) m) /\
  snd (hook_register w h k m) = snd (a_register (abs w) h (abs_hook k) m).
Proof.
  intros HI Hk Ha. pose proof HI as [HS HP]. pose proof (HP h k Hk Ha) as Hok.
  pose proof (nth_error_Some_lt _ _ _ Hk) as Hlt.
  unfold hook_register, a_register. simpl a_reg. rewrite (is_some_abs_reg k Ha).
  destruct (registered k) eqn:R; [simpl; auto|].
  destruct (registered_false k R) as [Ep Eq].
  rewrite abs_length_train.
  destruct (nth_error (w_mods w) m) as [md|] eqn:Hmd.
  2:{ apply nth_error_None in Hmd. destruct (Nat.ltb_spec m (length (w_mods w))); try lia. simpl; auto. }
  pose proof (nth_error_Some_lt _ _ _ Hmd) as Hm.
  rewrite (proj2 (Nat.ltb_lt _ _) Hm). simpl negb. cbv iota.
  simpl a_cfg. unfold kwargs_ok.
  pose proof (p_safe _ _ Hok) as Hsafe. unfold safe_cfg in Hsafe.
  pose proof (p_some _ _ Hok) as Hsome.
  pose proof (hook_ok_registered _ k m (w_next w) (if c_pre (k_cfg k) then S (w_next w) else w_next w) Hok R) as Hfinal.
  simpl in Hfinal.
  assert (Habs : forall preh posth, (preh <> None \/ posth <> None) ->
            (forall hd, preh = Some hd -> hd_mod hd = m) -> (forall hd, posth = Some hd -> hd_mod hd = m) ->
            abs_hook (mkHook (k_cfg k) (k_alive k) (k_te k) (k_ee k) preh posth (Some (preh, posth))) =
            mkA (k_cfg k) (k_alive k) (k_te k) (k_ee k) (Some m)).
  { intros preh posth Hne H1 H2. unfold abs_hook, abs_reg; simpl. rewrite Ha. f_equal.
    destruct preh as [hd|]; [rewrite (H1 hd); auto|]. destruct posth as [hd|]; [rewrite (H2 hd); auto|].
    destruct Hne; congruence. }
  (* first statement *)
  destruct (c_pre (k_cfg k)) eqn:Cpre.
  - (* a prehook exists *)
    destruct (reg_at true w h k m) as [[w1 k1]|] eqn:R1.
    2:{ unfold reg_at in R1. simpl c_bad in R1. destruct (c_pre_bad (k_cfg k)); [|discriminate]. simpl; auto. }
    assert (Cb : c_pre_bad (k_cfg k) = false).
    { unfold reg_at in R1. simpl c_bad in R1. destruct (c_pre_bad (k_cfg k)); [discriminate|auto]. }
    destruct (reg_at_step true w h k m w1 k1 HS Hk Ha Ep Hm R1) as [HS1 [Ek1 [Eh1 [Et1 El1]]]].
    assert (Hk1 : nth_error (w_hooks w1) h = Some k1) by (rewrite Eh1; apply nth_error_upd_eq; auto).
    assert (Ha1 : k_alive k1 = true) by (rewrite Ek1, set_hnd_alive; auto).
    assert (Ec1 : k_cfg k1 = k_cfg k) by (rewrite Ek1, set_hnd_cfg; auto).
    assert (En : w_next w1 = S (w_next w)).
    { unfold reg_at in R1. destruct (c_bad (k_cfg k) true); [discriminate|]. inversion R1; reflexivity. }
    rewrite Cb. simpl.
    destruct (c_post (k_cfg k)) eqn:Cpost.
    + (* and a posthook *)
      rewrite Cb in Hsafe. simpl in Hsafe. destruct (c_post_bad (k_cfg k)) eqn:Cqb; [discriminate|].
      destruct (reg_at false w1 h k1 m) as [[w2 k2]|] eqn:R2.
      2:{ unfold reg_at in R2. rewrite Ec1 in R2. simpl c_bad in R2. rewrite Cqb in R2. discriminate. }
      assert (En1 : hnd k1 false = None) by (rewrite Ek1; simpl; auto).
      assert (Hm1 : m < length (w_mods w1)) by lia.
      destruct (reg_at_step false w1 h k1 m w2 k2 HS1 Hk1 Ha1 En1 Hm1 R2) as [HS2 [Ek2 [Eh2 [Et2 El2]]]].
      assert (Hk2 : nth_error (w_hooks w2) h = Some k2).
      { rewrite Eh2. apply nth_error_upd_eq. rewrite Eh1, upd_length; auto. }
      simpl.
      assert (E3 : set_fin k2 (Some (k_preh k2, k_posth k2)) =
                   mkHook (k_cfg k) (k_alive k) (k_te k) (k_ee k) (Some (mkHandle m true (w_next w)))
                          (Some (mkHandle m false (S (w_next w))))
                          (Some (Some (mkHandle m true (w_next w)), Some (mkHandle m false (S (w_next w)))))).
      { rewrite Ek2, Ek1, En. reflexivity. }
      split; [split|split; auto].
      * unfold set_hook. apply (sinv_same w2 h k2 _ HS2 Hk2); reflexivity.
      * unfold set_hook. rewrite E3, Eh2, Eh1, !upd_upd. eapply pinv_upd; eauto. lia.
      * unfold set_hook. rewrite E3, Eh2, Eh1, !upd_upd. rewrite abs_upd, Et2, Et1.
        rewrite Habs; [reflexivity|left; discriminate| |]; intros hd E; inversion E; reflexivity.
    + (* prehook only *)
      simpl.
      assert (E3 : set_fin k1 (Some (k_preh k1, k_posth k1)) =
                   mkHook (k_cfg k) (k_alive k) (k_te k) (k_ee k) (Some (mkHandle m true (w_next w))) None
                          (Some (Some (mkHandle m true (w_next w)), None))).
      { rewrite Ek1. unfold set_fin; simpl. rewrite Eq. reflexivity. }
      split; [split|split; auto].
      * unfold set_hook. apply (sinv_same w1 h k1 _ HS1 Hk1); reflexivity.
      * unfold set_hook. rewrite E3, Eh1, !upd_upd. eapply pinv_upd; eauto.
      * unfold set_hook. rewrite E3, Eh1, !upd_upd. rewrite abs_upd, Et1.
        rewrite Habs; [reflexivity|left; discriminate| |]; intros hd E; inversion E; reflexivity.
  - (* posthook only *)
    simpl in Hsome. rewrite Hsome in *. simpl.
    destruct (reg_at false w h k m) as [[w2 k2]|] eqn:R2.
    2:{ unfold reg_at in R2. simpl c_bad in R2. destruct (c_post_bad (k_cfg k)); [|discriminate]. simpl; auto. }
    assert (Cb : c_post_bad (k_cfg k) = false).
    { unfold reg_at in R2. simpl c_bad in R2. destruct (c_post_bad (k_cfg k)); [discriminate|auto]. }
    destruct (reg_at_step false w h k m w2 k2 HS Hk Ha Eq Hm R2) as [HS2 [Ek2 [Eh2 [Et2 El2]]]].
    assert (Hk2 : nth_error (w_hooks w2) h = Some k2) by (rewrite Eh2; apply nth_error_upd_eq; auto).
    rewrite Cb. simpl.
    assert (E3 : set_fin k2 (Some (k_preh k2, k_posth k2)) =
                 mkHook (k_cfg k) (k_alive k) (k_te k) (k_ee k) None (Some (mkHandle m false (w_next w)))
                        (Some (None, Some (mkHandle m false (w_next w))))).
    { rewrite Ek2. unfold set_fin; simpl. rewrite Ep. reflexivity. }
    split; [split|split; auto].
    * unfold set_hook. apply (sinv_same w2 h k2 _ HS2 Hk2); reflexivity.
    * unfold set_hook. rewrite E3, Eh2, !upd_upd. eapply pinv_upd; eauto.
    * unfold set_hook. rewrite E3, Eh2, !upd_upd. rewrite abs_upd, Et2.
      rewrite Habs; [reflexivity|right; discriminate| |]; intros hd E; inversion E; reflexivity.
Qed.

(* --- construction --- *)
Lemma new_sound w c te ee :
  Inv w -> safe_cfg c = true -> state_cfg_ok c = true ->
  Inv (fst (new_hook w c te ee)) /\
  abs (fst (new_hook w c te ee)) = fst (astep (abs w) (ONew c te ee)) /\
  snd (new_hook w c te ee) = snd (astep (abs w) (ONew c te ee)).
Proof.
  intros HI Hsafe Hst. pose proof HI as [HS HP]. unfold new_hook, astep. rewrite Hst. simpl negb. cbv iota.
  rewrite abs_length_train.
  assert (Hfresh : forall (Hsome : c_pre c || c_post c = true) (Hmod : c_kind c = KState -> c_mod c < length (w_mods w)),
            Inv (mkW (w_hooks w ++ [mkHook c true te ee None None None]) (w_mods w) (w_next w)) /\
            abs (mkW (w_hooks w ++ [mkHook c true te ee None None None]) (w_mods w) (w_next w)) =
            mkAW (a_hooks (abs w) ++ [mkA c true te ee None]) (a_train (abs w))).
  { intros Hsome Hmod. split; [split|].
    - apply sinv_new; auto.
    - intros hi k Hk Hal. simpl in Hk. apply nth_error_snoc in Hk. destruct Hk as [Hk|[_ ->]].
      + apply (HP hi k Hk Hal).
      + constructor; simpl; auto. discriminate.
    - unfold abs; simpl. rewrite map_app. reflexivity. }
  destruct (c_kind c) eqn:Ck.
  - destruct (c_pre c || c_post c) eqn:Hs; simpl; auto.
    destruct Hfresh as [H1 H2]; auto. discriminate.
  - destruct (c_pre c || c_post c) eqn:Hs; simpl; auto.
    destruct Hfresh as [H1 H2]; auto. discriminate.
  - destruct (nth_error (w_mods w) (c_mod c)) eqn:Hm.
    + pose proof (nth_error_Some_lt _ _ _ Hm) as Hlt. rewrite (proj2 (Nat.ltb_lt _ _) Hlt). simpl.
      destruct Hfresh as [H1 H2]; auto.
      unfold state_cfg_ok in Hst. rewrite Ck in Hst. destruct (c_pre c), (c_post c); simpl in *; auto; discriminate.
    + apply nth_error_None in Hm. destruct (Nat.ltb_spec (c_mod c) (length (w_mods w))); try lia. simpl; auto.
Qed.

(* THE STEP THEOREM: every operation preserves the invariant and is a step of the abstract machine *)
Theorem step_sound w o :
  Inv w -> safe_op o = true ->
  Inv (fst (fst (step w o))) /\
  abs (fst (fst (step w o))) = fst (astep (abs w) o) /\
  snd (step w o) = snd (astep (abs w) o).
Proof.
  intros HI Hsafe. pose proof HI as [HS HP].
  assert (Hwith : forall h (f : hook -> world * list event * option err) (g : ahook -> aworld * option err),
            (forall k, nth_error (w_hooks w) h = Some k -> k_alive k = true ->
                       Inv (fst (fst (f k))) /\ abs (fst (fst (f k))) = fst (g (abs_hook k)) /\ snd (f k) = snd (g (abs_hook k))) ->
            Inv (fst (fst (with_hook w h f))) /\ abs (fst (fst (with_hook w h f))) = fst (a_with (abs w) h g) /\
            snd (with_hook w h f) = snd (a_with (abs w) h g)).
  { intros h f g Hfg. unfold with_hook, a_with. rewrite nth_error_abs_hooks.
    destruct (nth_error (w_hooks w) h) as [k|] eqn:Hk; simpl; auto.
    destruct (k_alive k) eqn:Ha; simpl; auto. }
  destruct o; simpl step; simpl astep.
  - (* ONew *)
    simpl in Hsafe. destruct (state_cfg_ok c) eqn:Hst.
    + pose proof (new_sound w c te ee HI Hsafe Hst) as Hn. simpl astep in Hn. rewrite Hst in Hn. simpl negb in Hn.
      cbv iota in Hn. simpl negb. cbv iota. destruct (new_hook w c te ee) as [w' e]. simpl in *. auto.
    + simpl. auto.
  - (* ORegister *)
    apply Hwith. intros k Hk Ha. simpl a_cfg.
    destruct (c_kind (k_cfg k)) eqn:Ck.
    + pose proof (register_sound w h k m HI Hk Ha) as Hr. destruct (hook_register w h k m); simpl in *; auto.
    + pose proof (register_sound w h k m HI Hk Ha) as Hr. destruct (hook_register w h k m); simpl in *; auto.
    + simpl a_reg. rewrite (is_some_abs_reg k Ha). destruct (registered k); [simpl; auto|].
      pose proof (register_sound w h k (c_mod (k_cfg k)) HI Hk Ha) as Hr.
      destruct (hook_register w h k (c_mod (k_cfg k))); simpl in *; auto.
  - (* ODeregister *)
    apply Hwith. intros k Hk Ha. simpl. destruct (deregister_sound w h k HI Hk Ha) as [H1 H2].
    rewrite Ha in *. auto.
  - (* OSetTrain *)
    rewrite map_length. destruct (nth_error (w_mods w) m) as [md|] eqn:Hm.
    + pose proof (nth_error_Some_lt _ _ _ Hm) as Hlt. rewrite (proj2 (Nat.ltb_lt _ _) Hlt). simpl.
      split; [split|split; auto].
      * apply sinv_train; auto.
      * intros hi k Hk Ha. simpl in *. rewrite upd_length. apply (HP hi k Hk Ha).
      * unfold abs; simpl. rewrite map_upd. reflexivity.
    + apply nth_error_None in Hm. destruct (Nat.ltb_spec m (length (w_mods w))); try lia. simpl; auto.
  - (* OSetExec *)
    apply Hwith. intros k Hk Ha. simpl.
    split; [|split; auto].
    + destruct train; apply (setexec_sound w h k _ HI Hk Ha); reflexivity.
    + unfold set_hook. rewrite abs_upd. unfold a_set. destruct train; reflexivity.
  - (* OCall *)
    rewrite map_length. destruct (Nat.ltb_spec m (length (w_mods w))) as [Hm|Hm].
    + rewrite (call_ok w m fail HS Hm). simpl. auto.
    + unfold call. rewrite (proj2 (nth_error_None _ _) Hm). simpl. auto.
  - (* OManual *)
    apply Hwith. intros k Hk Ha. simpl a_cfg. destruct (c_kind (k_cfg k)) eqn:Ck; simpl; auto.
    pose proof (p_mod _ _ (HP h k Hk Ha) Ck) as Hm. unfold manual.
    destruct (nth_error (w_mods w) (c_mod (k_cfg k))) eqn:E; [|apply nth_error_None in E; lia].
    destruct (registered k || force); simpl; auto.
    destruct ignore; simpl; auto.
    destruct (k_te k && m_training m); simpl; auto.
    destruct (k_ee k && negb (m_training m)); simpl; auto.
  - (* ODelete *)
    apply Hwith. intros k Hk Ha. simpl fst. simpl snd.
    destruct (delete_sound w h k HI Hk Ha) as [H1 H2]. simpl in H1, H2. auto.
Qed.

(* ====================================================================== whole histories *)
Lemma inv_init n : Inv (w0 n).
Proof.
  split.
  - constructor; simpl.
    + intros m pre e. unfold mod_lst. destruct (nth_error (repeat _ n) m) eqn:E; [|intros []].
      apply nth_error_In, repeat_spec in E. subst. destruct pre; intros [].
    + intros m pre. unfold mod_lst. destruct (nth_error (repeat _ n) m) eqn:E; [|constructor].
      apply nth_error_In, repeat_spec in E. subst. destruct pre; constructor.
    + intros hi k pre hd Hk. destruct hi; discriminate.
  - intros hi k Hk. destruct hi; discriminate.
Qed.

Lemma abs_init n : abs (w0 n) = a0 n.
Proof. unfold abs, w0, a0; simpl. f_equal. induction n; simpl; congruence. Qed.

Lemma run_sound w ops :
  Inv w -> forallb safe_op ops = true ->
  Inv (fst (run w ops)) /\ abs (fst (run w ops)) = arun (abs w) ops.
Proof.
  revert w; induction ops as [|o tl IH]; simpl; intros w HI Hs; auto.
  apply andb_prop in Hs. destruct Hs as [Ho Hs].
  destruct (step_sound w o HI Ho) as [H1 [H2 _]].
  destruct (step w o) as [[w' ev] e]. simpl in *.
  destruct (IH w' H1 Hs) as [H3 H4]. destruct (run w' tl) as [w'' outs]. simpl in *.
  rewrite <- H2. auto.
Qed.

Lemma run_app w l1 l2 :
  run w (l1 ++ l2) = (fst (run (fst (run w l1)) l2), snd (run w l1) ++ snd (run (fst (run w l1)) l2)).
Proof.
  revert w; induction l1 as [|o tl IH]; simpl; intros w.
  - destruct (run w l2); reflexivity.
  - destruct (step w o) as [[w' ev] e]. rewrite IH. destruct (run w' tl) as [w1 o1]. simpl.
    destruct (run w1 l2); reflexivity.
Qed.

Lemma astep_train_length a o : length (a_train (fst (astep a o))) = length (a_train a).
Proof.
  assert (Hw : forall h f, (forall k, length (a_train (fst (f k))) = length (a_train a)) ->
                           length (a_train (fst (a_with a h f))) = length (a_train a)).
  { intros h f Hf. unfold a_with. destruct (nth_error (a_hooks a) h) as [k0|]; auto. destruct (a_alive k0); auto. }
  destruct o; simpl.
  - destruct (negb (state_cfg_ok c)); auto. destruct (c_kind c);
      try (destruct (c_pre c || c_post c); auto); destruct (c_mod c <? length (a_train a)); auto.
  - apply Hw. intros k. unfold a_register.
    destruct (c_kind (a_cfg k)); try (destruct (is_some (a_reg k)); auto);
      try (destruct (negb (m <? length (a_train a))); auto);
      try (destruct (negb (c_mod (a_cfg k) <? length (a_train a))); auto);
      destruct (negb (kwargs_ok (a_cfg k))); auto.
  - apply Hw. auto.
  - destruct (m <? length (a_train a)); simpl; auto. apply upd_length.
  - apply Hw. auto.
  - auto.
  - apply Hw. intros k. destruct (c_kind (a_cfg k)); auto.
  - apply Hw. auto.
Qed.

Lemma arun_train_length a ops : length (a_train (arun a ops)) = length (a_train a).
Proof. revert a; induction ops; simpl; intros; auto. rewrite IHops. apply astep_train_length. Qed.

Lemma reach_mods_length n ops :
  forallb safe_op ops = true -> length (w_mods (fst (run (w0 n) ops))) = n.
Proof.
  intros Hs. destruct (run_sound (w0 n) ops (inv_init n) Hs) as [_ Ha].
  rewrite <- abs_length_train, Ha, arun_train_length, abs_init. unfold a0; simpl. apply repeat_length.
Qed.

(* FLAGSHIP: for every history of operations (hooks outside the fault pattern), every module and
   either outcome of its forward, the module call emits  pre-fires ++ [forward] ++ post-fires  where
   each hook object fires exactly once in its configured position iff the handle-free abstract
   machine, run on the same history, says it is alive, registered on that module and enabled for the
   module's mode (post position: and forward succeeded or always_call); the call itself raises
   nothing but forward's own exception; the world is unchanged by the call. *)
Theorem fires_iff_armed n ops m fail :
  forallb safe_op ops = true -> m < n ->
  let w := fst (run (w0 n) ops) in
  let a := arun (a0 n) ops in
  exists pres posts,
    step w (OCall m fail) = (w, pres ++ EFwd m :: posts, if fail then Some EValue else None) /\
    (forall h, count_fire h pres = b2n (a_fires_pre a h m)) /\
    (forall h, count_fire h posts = b2n (a_fires_post a h m fail)) /\
    (forall x, In x pres -> exists h, x = EFire h (a_tag a h true)) /\
    (forall x, In x posts -> exists h, x = EFire h (a_tag a h false)).
Proof.
  intros Hs Hm w a.
  destruct (run_sound (w0 n) ops (inv_init n) Hs) as [HI Ha]. rewrite abs_init in Ha. fold w in HI, Ha. fold a in Ha.
  assert (Hl : m < length (w_mods w)) by (unfold w; rewrite reach_mods_length; auto).
  destruct (call_spec w m fail HI Hl) as [pres [posts [Hc H]]]. rewrite Ha in H.
  exists pres, posts. split; auto. simpl. rewrite Hc. reflexivity.
Qed.

(* ---------------------------------------------------------------------- no dangling handle *)
Lemma filter_map_comm {X Y} (g : X -> Y) (p : Y -> bool) l : filter p (map g l) = map g (filter (fun x => p (g x)) l).
Proof. induction l; simpl; auto. destruct (p (g a)); simpl; congruence. Qed.

Lemma filter_seq_length {X} (p : X -> bool) (l : list X) :
  length (filter (fun i => match nth_error l i with Some x => p x | None => false end) (seq 0 (length l)))
  = length (filter p l).
Proof.
  induction l; simpl; auto.
  assert (E : length (filter (fun i => match nth_error (a :: l) i with Some x => p x | None => false end)
                             (seq 1 (length l))) = length (filter p l)).
  { rewrite <- seq_shift, filter_map_comm, map_length. simpl. exact IHl. }
  destruct (p a); simpl; rewrite E; auto.
Qed.

Theorem no_dangling_state w :
  Inv w ->
  (forall m q e, In e (mod_lst (w_mods w) m q) ->
     exists k, nth_error (w_hooks w) (e_hook e) = Some k /\ k_alive k = true /\
               hnd k q = Some (mkHandle m q (e_id e))) /\
  (forall m q, length (mod_lst (w_mods w) m q) = a_count (abs w) m q).
Proof.
  intros [HS HP]. split.
  - intros m q e Hin. destruct (s_entries _ HS m q e Hin) as [_ [k [H1 [H2 [H3 _]]]]]. eauto.
  - intros m q. unfold a_count, abs; simpl.
    rewrite <- (map_length e_hook).
    rewrite <- (filter_seq_length (a_on m q) (map abs_hook (w_hooks w))).
    apply Permutation_length, NoDup_Permutation.
    + apply sinv_nodup_hooks; auto.
    + apply NoDup_filter, seq_NoDup.
    + intros h. rewrite filter_In, in_seq, map_length, nth_error_map.
      pose proof (existsb_entry w m q h (fun _ => true) HS) as Hex.
      rewrite in_map_iff. split.
      * intros [e [He Hin]].
        assert (Hx : existsb (fun e0 => (e_hook e0 =? h) && true) (mod_lst (w_mods w) m q) = true).
        { apply existsb_exists. exists e. rewrite He, Nat.eqb_refl. auto. }
        apply Hex in Hx. destruct Hx as [k [i [Hk [Ha [Hh _]]]]].
        pose proof (nth_error_Some_lt _ _ _ Hk). split; [lia|]. rewrite Hk. simpl.
        destruct (proj1 (reg_iff _ k q m (HP h k Hk Ha) Ha) (ex_intro _ i Hh)) as [R1 R2].
        unfold a_on. simpl. rewrite Ha, R1, R2. reflexivity.
      * intros [_ Hp]. destruct (nth_error (w_hooks w) h) as [k|] eqn:Hk; simpl in Hp; [|discriminate].
        unfold a_on in Hp. simpl in Hp.
        apply andb_prop in Hp. destruct Hp as [Hp R2]. apply andb_prop in Hp. destruct Hp as [Ha R1].
        destruct (proj2 (reg_iff _ k q m (HP h k Hk Ha) Ha) (conj R1 R2)) as [i Hi].
        assert (Hx : existsb (fun e0 => (e_hook e0 =? h) && true) (mod_lst (w_mods w) m q) = true).
        { apply Hex. exists k, i. auto. }
        apply existsb_exists in Hx. destruct Hx as [e [Hin He]]. exists e. split; auto.
        apply andb_prop in He. destruct He as [He _]. apply Nat.eqb_eq in He. auto.
Qed.

(* for every history: every registered lambda refers to a live hook object that holds its handle (so
   deregister / the finalizer will remove it), the dictionaries have exactly the size the abstract
   machine predicts, and no module call ever raises the dangling-reference AttributeError *)
Theorem no_dangling_handle n ops :
  forallb safe_op ops = true ->
  let w := fst (run (w0 n) ops) in
  let a := arun (a0 n) ops in
  (forall m q e, In e (mod_lst (w_mods w) m q) ->
     exists k, nth_error (w_hooks w) (e_hook e) = Some k /\ k_alive k = true /\
               hnd k q = Some (mkHandle m q (e_id e))) /\
  (forall m q, length (mod_lst (w_mods w) m q) = a_count a m q) /\
  (forall m fail, snd (call w m fail) <> Some EAttr).
Proof.
  intros Hs w a. destruct (run_sound (w0 n) ops (inv_init n) Hs) as [HI Ha]. rewrite abs_init in Ha.
  fold w in HI, Ha. fold a in Ha. destruct (no_dangling_state w HI) as [H1 H2]. rewrite Ha in H2.
  split; [|split]; auto.
  intros m fail. destruct (Nat.ltb_spec m (length (w_mods w))) as [Hm|Hm].
  - rewrite (call_ok w m fail (proj1 HI) Hm). simpl. destruct fail; discriminate.
  - unfold call. rewrite (proj2 (nth_error_None _ _) Hm). simpl. discriminate.
Qed.

(* ---------------------------------------------------------------------- manual calls *)
Theorem manual_call_state w h k force ignore :
  Inv w -> nth_error (w_hooks w) h = Some k -> k_alive k = true -> c_kind (k_cfg k) = KState ->
  step w (OManual h force ignore) =
  (w, if a_fires_manual (abs w) h force ignore then [EFire h 2] else [], None).
Proof.
  intros [HS HP] Hk Ha Ck. simpl. unfold with_hook. rewrite Hk, Ha, Ck.
  pose proof (p_mod _ _ (HP h k Hk Ha) Ck) as Hm. unfold manual, a_fires_manual.
  rewrite nth_error_abs_hooks, Hk. simpl. rewrite nth_error_map.
  destruct (nth_error (w_mods w) (c_mod (k_cfg k))) as [md|] eqn:E; [|apply nth_error_None in E; lia].
  simpl. rewrite Ha, (is_some_abs_reg k Ha). simpl.
  destruct (registered k || force); simpl; auto.
  unfold a_armed; simpl.
  destruct ignore; simpl; auto.
  destruct (k_te k && m_training md); simpl; auto.
  destruct (k_ee k && negb (m_training md)); simpl; auto.
Qed.

(* statehook(force, ignore_mode), for every history: runs hook() exactly once iff
   (registered or force) and (ignore_mode or enabled for the hooked module's mode); never changes state *)
Theorem manual_call_rules n ops h ak force ignore :
  forallb safe_op ops = true ->
  let w := fst (run (w0 n) ops) in
  let a := arun (a0 n) ops in
  nth_error (a_hooks a) h = Some ak -> a_alive ak = true -> c_kind (a_cfg ak) = KState ->
  step w (OManual h force ignore) = (w, if a_fires_manual a h force ignore then [EFire h 2] else [], None).
Proof.
  intros Hs w a Hh Hal Ck. destruct (run_sound (w0 n) ops (inv_init n) Hs) as [HI Ha]. rewrite abs_init in Ha.
  fold w in HI, Ha. fold a in Ha. rewrite <- Ha in Hh. rewrite nth_error_abs_hooks in Hh.
  destruct (nth_error (w_hooks w) h) as [k|] eqn:Hk; [|discriminate]. simpl in Hh. inversion Hh; subst ak.
  rewrite <- Ha. apply (manual_call_state w h k); auto.
Qed.

(* ---------------------------------------------------------------------- never after deregistration / deletion *)
Lemma a_unreg_set a h h' k' :
  a_unreg a h -> (h' <> h \/ a_alive k' = false \/ a_reg k' = None) -> a_unreg (a_set a h' k') h.
Proof.
  unfold a_unreg, a_set; simpl. intros Hu Hc. rewrite nth_error_upd.
  destruct (Nat.eqb_spec h' h) as [->|Hne]; simpl; auto.
  destruct (h <? length (a_hooks a)) eqn:El; auto.
  destruct Hc as [Hc|Hc]; [congruence|auto].
Qed.

Lemma astep_unreg a o h :
  a_unreg a h -> not_register_of h o = true -> a_unreg (fst (astep a o)) h.
Proof.
  intros Hu Hn.
  assert (Hw : forall h' f, (forall k, nth_error (a_hooks a) h' = Some k -> a_unreg (fst (f k)) h) ->
                            a_unreg (fst (a_with a h' f)) h).
  { intros h' f Hf. unfold a_with. destruct (nth_error (a_hooks a) h') as [k0|] eqn:E; auto.
    destruct (a_alive k0); auto. }
  destruct o; simpl.
  - destruct (negb (state_cfg_ok c)); auto.
    assert (Hf : a_unreg (mkAW (a_hooks a ++ [mkA c true te ee None]) (a_train a)) h).
    { unfold a_unreg in *; simpl. destruct (nth_error (a_hooks a ++ _) h) as [k0|] eqn:E; auto.
      apply nth_error_snoc in E. destruct E as [E|[_ ->]]; [rewrite E in Hu; auto|simpl; auto]. }
    destruct (c_kind c); try (destruct (c_pre c || c_post c); auto); destruct (c_mod c <? length (a_train a)); auto.
  - simpl in Hn. apply negb_true_iff, Nat.eqb_neq in Hn.
    apply Hw. intros k Hk. unfold a_register.
    destruct (c_kind (a_cfg k)); try (destruct (is_some (a_reg k)); auto);
      try (destruct (negb (m <? length (a_train a))); auto);
      try (destruct (negb (c_mod (a_cfg k) <? length (a_train a))); auto);
      destruct (negb (kwargs_ok (a_cfg k))); auto; apply a_unreg_set; auto.
  - apply Hw. intros k Hk. apply a_unreg_set; simpl; auto.
  - destruct (m <? length (a_train a)); auto.
  - apply Hw. intros k Hk. apply a_unreg_set; auto.
    destruct (Nat.eq_dec h0 h) as [->|]; auto. right.
    unfold a_unreg in Hu. rewrite Hk in Hu. destruct train; simpl; auto.
  - auto.
  - apply Hw. intros k Hk. destruct (c_kind (a_cfg k)); auto.
  - apply Hw. intros k Hk. apply a_unreg_set; simpl; auto.
Qed.

Lemma arun_unreg a ops h :
  a_unreg a h -> forallb (not_register_of h) ops = true -> a_unreg (arun a ops) h.
Proof.
  revert a; induction ops; simpl; intros a0 Hu Hn; auto.
  apply andb_prop in Hn. destruct Hn. apply IHops; auto. apply astep_unreg; auto.
Qed.

Lemma astep_makes_unreg a o h : o = ODeregister h \/ o = ODelete h -> a_unreg (fst (astep a o)) h.
Proof.
  intros [->| ->]; simpl; unfold a_with;
    destruct (nth_error (a_hooks a) h) as [k|] eqn:E.
  - destruct (a_alive k) eqn:Ea; simpl.
    + unfold a_unreg, a_set; simpl. rewrite nth_error_upd_eq; simpl; auto. eapply nth_error_Some_lt; eauto.
    + unfold a_unreg. rewrite E. auto.
  - unfold a_unreg. simpl. rewrite E. auto.
  - destruct (a_alive k) eqn:Ea; simpl.
    + unfold a_unreg, a_set; simpl. rewrite nth_error_upd_eq; simpl; auto. eapply nth_error_Some_lt; eauto.
    + unfold a_unreg. rewrite E. auto.
  - unfold a_unreg. simpl. rewrite E. auto.
Qed.

Lemma unreg_no_fire a h m fail force_false_ignore :
  a_unreg a h ->
  a_fires_pre a h m = false /\ a_fires_post a h m fail = false /\ a_fires_manual a h false force_false_ignore = false.
Proof.
  unfold a_unreg, a_fires_pre, a_fires_post, a_fires_manual, reg_on.
  destruct (nth_error (a_hooks a) h) as [k|]; auto.
  intros [Hd|Hr].
  - rewrite Hd. simpl. destruct (nth_error (a_train a) m); destruct (nth_error (a_train a) (c_mod (a_cfg k))); auto.
  - rewrite Hr. simpl. rewrite !andb_false_r. simpl.
    destruct (nth_error (a_train a) m); destruct (nth_error (a_train a) (c_mod (a_cfg k))); auto.
Qed.

Lemma arun_app a l1 l2 : arun a (l1 ++ l2) = arun (arun a l1) l2.
Proof. revert a; induction l1; simpl; auto. Qed.

(* once a hook object has been deregistered or deleted, then - whatever happens afterwards, short of
   registering it again - no module call runs it, in either position, in either mode, and a manual
   call without force does not run it either *)
Theorem never_after_deregister_or_delete n ops1 o ops2 h m fail ignore :
  forallb safe_op (ops1 ++ o :: ops2) = true ->
  o = ODeregister h \/ o = ODelete h ->
  forallb (not_register_of h) ops2 = true ->
  let w := fst (run (w0 n) (ops1 ++ o :: ops2)) in
  count_fire h (snd (fst (step w (OCall m fail)))) = 0 /\
  count_fire h (snd (fst (step w (OManual h false ignore)))) = 0.
Proof.
  intros Hs Ho Hn w.
  destruct (run_sound (w0 n) _ (inv_init n) Hs) as [HI Ha]. rewrite abs_init in Ha. fold w in HI, Ha.
  assert (Hu : a_unreg (abs w) h).
  { rewrite Ha, arun_app. simpl. apply arun_unreg; auto. apply astep_makes_unreg; auto. }
  destruct (unreg_no_fire (abs w) h m fail ignore Hu) as [U1 [U2 U3]].
  split.
  - simpl. destruct (Nat.ltb_spec m (length (w_mods w))) as [Hm|Hm].
    + destruct (call_spec w m fail HI Hm) as [pres [posts [Hc [H1 [H2 _]]]]]. rewrite Hc. simpl.
      rewrite count_fire_app. unfold count_fire at 2. simpl. fold (count_fire h posts).
      rewrite H1, H2, U1, U2. reflexivity.
    + unfold call. rewrite (proj2 (nth_error_None _ _) Hm). reflexivity.
  - destruct (nth_error (w_hooks w) h) as [k|] eqn:Hk.
    + destruct (k_alive k) eqn:Hal.
      * destruct (c_kind (k_cfg k)) eqn:Ck.
        -- simpl. unfold with_hook. rewrite Hk, Hal, Ck. reflexivity.
        -- simpl. unfold with_hook. rewrite Hk, Hal, Ck. reflexivity.
        -- rewrite (manual_call_state w h k false ignore HI Hk Hal Ck), U3. reflexivity.
      * simpl. unfold with_hook. rewrite Hk, Hal. reflexivity.
    + simpl. unfold with_hook. rewrite Hk. reflexivity.
Qed.

(* ---------------------------------------------------------------------- registering twice *)
Theorem register_twice_rejected w h k m :
  nth_error (w_hooks w) h = Some k -> k_alive k = true -> registered k = true ->
  step w (ORegister h m) =
  (w, [], match c_kind (k_cfg k) with KState => None | _ => Some ERuntime end).
Proof.
  intros Hk Ha R. simpl. unfold with_hook. rewrite Hk, Ha.
  destruct (c_kind (k_cfg k)); unfold hook_register; rewrite R; reflexivity.
Qed.

(* Hook.deregister is safe to call on an unregistered hook: nothing changes *)
Theorem deregister_unregistered_noop w h k :
  Inv w -> nth_error (w_hooks w) h = Some k -> k_alive k = true -> registered k = false ->
  step w (ODeregister h) = (w, [], None).
Proof.
  intros [HS HP] Hk Ha R. simpl. unfold with_hook. rewrite Hk, Ha. unfold hook_deregister.
  destruct (registered_false k R) as [Ep Eq]. rewrite Ep, Eq. unfold detach_handles; simpl.
  pose proof (p_fin _ _ (HP h k Hk Ha)) as Hf. rewrite R in Hf.
  replace (mkHook (k_cfg k) (k_alive k) (k_te k) (k_ee k) None None None) with k
    by (destruct k; simpl in *; subst; reflexivity).
  rewrite (upd_same _ _ _ Hk). destruct w; reflexivity.
Qed.

(* ---------------------------------------------------------------------- the fault pattern: refuted *)
(* Hook(prehook, posthook, posthook_kwargs={"bogus": 1}); register raises after the pre-hook was registered;
   the object is deleted; the module call raises AttributeError: a dangling handle *)
Definition witness_ops : list op :=
  [ONew (mkCfg KHook true true false false false false true 0) true true;
   ORegister 0 0; ODelete 0; OCall 0 false].

Theorem partial_register_dangling_refuted :
  exists ops, forallb safe_op ops = false /\
    let w := fst (run (w0 1) ops) in
    snd (run (w0 1) ops) = [([], None); ([], Some EType); ([], None); ([], Some EAttr)] /\
    (exists e, In e (mod_lst (w_mods w) 0 true) /\
               forall k, nth_error (w_hooks w) (e_hook e) = Some k -> k_alive k = false).
Proof.
  exists witness_ops. split; [reflexivity|]. split; [reflexivity|].
  exists (mkEntry 0 0 false). split; [simpl; auto|].
  intros k Hk. vm_compute in Hk. inversion Hk. reflexivity.
Qed.

(* ====================================================================== dispatch ORDER: the ordered abstract machine *)
Lemma filter_true {X} (l : list X) : filter (fun _ => true) l = l.
Proof. induction l; simpl; congruence. Qed.

Lemma filter_filter {X} (f g : X -> bool) l : filter f (filter g l) = filter (fun x => g x && f x) l.
Proof. induction l; simpl; auto. destruct (g a); simpl; [destruct (f a)|]; congruence. Qed.

Lemma flat_map_map {X Y Z} (g : X -> Y) (f : Y -> list Z) l : flat_map f (map g l) = flat_map (fun x => f (g x)) l.
Proof. induction l; simpl; congruence. Qed.

Lemma flat_map_ext_in {X Y} (f g : X -> list Y) l : (forall x, In x l -> f x = g x) -> flat_map f l = flat_map g l.
Proof. induction l; simpl; intros H; auto. rewrite H, IHl; auto. Qed.

Definition matchb (o : option handle) (m : nat) (q : bool) (e : entry) : bool :=
  match o with
  | Some hd => (hd_mod hd =? m) && Bool.eqb (hd_pre hd) q && (hd_id hd =? e_id e)
  | None => false
  end.

Lemma mod_lst_detach_one_eq mods o m q :
  mod_lst (detach_one mods o) m q = filter (fun e => negb (matchb o m q e)) (mod_lst mods m q).
Proof.
  destruct o as [hd|]; simpl; [|symmetry; apply filter_true].
  rewrite mod_lst_remove. destruct ((hd_mod hd =? m) && Bool.eqb (hd_pre hd) q); simpl.
  - unfold remove_id. apply filter_ext. intros e. rewrite Nat.eqb_sym. reflexivity.
  - symmetry; apply filter_true.
Qed.

(* removing the handles of hook object h removes exactly h from the dispatch order *)
Lemma detach_by_hook w h k m q :
  SInv w -> nth_error (w_hooks w) h = Some k -> k_alive k = true ->
  map e_hook (mod_lst (detach_handles (w_mods w) (k_preh k) (k_posth k)) m q) =
  filter (fun x => negb (x =? h)) (map e_hook (mod_lst (w_mods w) m q)).
Proof.
  intros [HE HN HH] Hk Ha. unfold detach_handles. rewrite !mod_lst_detach_one_eq, filter_filter, filter_map_comm.
  f_equal. apply filter_ext_in. intros e Hin.
  destruct (HE m q e Hin) as [_ [k0 [Hk0 [Ha0 [Hh0 _]]]]].
  destruct (Nat.eqb_spec (e_hook e) h) as [E|E]; simpl.
  - rewrite E, Hk in Hk0. inversion Hk0; subst k0. destruct q; simpl in Hh0; rewrite Hh0; simpl;
      rewrite !Nat.eqb_refl; simpl; auto. apply andb_false_r.
  - assert (Hno : forall p hd, hnd k p = Some hd -> matchb (Some hd) m q e = false).
    { intros p hd Hh. simpl. destruct (Nat.eqb_spec (hd_mod hd) m) as [E1|]; simpl; auto.
      destruct (Bool.eqb_spec (hd_pre hd) q) as [E2|]; simpl; auto.
      destruct (Nat.eqb_spec (hd_id hd) (e_id e)) as [E3|]; auto. exfalso.
      destruct (HH h k p hd Hk Ha Hh) as [Hp Hin']. rewrite E1 in Hin'. rewrite E2 in Hp. subst p.
      pose proof (NoDup_map_inj e_id _ _ _ (HN m q) Hin Hin') as Heq. simpl in Heq.
      specialize (Heq (eq_sym E3)). apply E. rewrite Heq. reflexivity. }
    destruct (k_preh k) as [hd1|] eqn:E1; destruct (k_posth k) as [hd2|] eqn:E2;
      rewrite ?(Hno true hd1 E1), ?(Hno false hd2 E2); reflexivity.
Qed.

Lemma map_hook_add_entry b e l : map e_hook (add_entry b e l) = ins b (e_hook e) (map e_hook l).
Proof. unfold add_entry, ins. destruct b; simpl; auto. rewrite map_app. reflexivity. Qed.

Lemma reg_at_mods pre w h k m w1 k1 :
  m < length (w_mods w) -> reg_at pre w h k m = Some (w1, k1) ->
  k_cfg k1 = k_cfg k /\
  forall m' q, map e_hook (mod_lst (w_mods w1) m' q) =
               if (m =? m') && Bool.eqb pre q then ins (c_prepend (k_cfg k) pre) h (map e_hook (mod_lst (w_mods w) m' q))
               else map e_hook (mod_lst (w_mods w) m' q).
Proof.
  intros Hm. unfold reg_at. destruct (c_bad (k_cfg k) pre); [discriminate|].
  intros E; inversion E; subst; clear E. split; [apply set_hnd_cfg|]. intros m' q. simpl.
  rewrite mod_lst_set, (proj2 (Nat.ltb_lt _ _) Hm), andb_true_r.
  destruct (Nat.eqb_spec m m') as [<-|]; simpl; auto.
  destruct (Bool.eqb pre q) eqn:Eq; auto.
  apply Bool.eqb_prop in Eq. subst q. rewrite map_hook_add_entry. reflexivity.
Qed.

Definition is_none {X} (o : option X) : bool := match o with None => true | Some _ => false end.

(* the hook dictionaries after Hook.register, in terms of hook objects only *)
Lemma register_mods w h k m :
  Inv w -> nth_error (w_hooks w) h = Some k -> k_alive k = true ->
  forall m' q,
    map e_hook (mod_lst (w_mods (fst (hook_register w h k m))) m' q) =
    if is_none (snd (hook_register w h k m)) && (m =? m') && c_has (k_cfg k) q
    then ins (c_prepend (k_cfg k) q) h (map e_hook (mod_lst (w_mods w) m' q))
    else map e_hook (mod_lst (w_mods w) m' q).
Proof.
  intros [HS HP] Hk Ha m' q. pose proof (HP h k Hk Ha) as Hok.
  unfold hook_register.
  destruct (registered k) eqn:R; [reflexivity|].
  destruct (nth_error (w_mods w) m) as [md|] eqn:Hmd; [|reflexivity].
  pose proof (nth_error_Some_lt _ _ _ Hmd) as Hm.
  pose proof (p_safe _ _ Hok) as Hsafe. unfold safe_cfg in Hsafe.
  pose proof (p_some _ _ Hok) as Hsome.
  destruct (c_pre (k_cfg k)) eqn:Cpre.
  - destruct (reg_at true w h k m) as [[w1 k1]|] eqn:R1; [|reflexivity].
    destruct (reg_at_mods true w h k m w1 k1 Hm R1) as [Ec1 Hl1].
    assert (Hm1 : m < length (w_mods w1)).
    { unfold reg_at in R1. destruct (c_bad (k_cfg k) true); [discriminate|]. inversion R1; subst; simpl.
      rewrite mod_set_lst_length; auto. }
    destruct (c_post (k_cfg k)) eqn:Cpost.
    + destruct (reg_at false w1 h k1 m) as [[w2 k2]|] eqn:R2.
      * destruct (reg_at_mods false w1 h k1 m w2 k2 Hm1 R2) as [Ec2 Hl2]. simpl.
        rewrite Hl2, Hl1, Ec1. destruct (m =? m'); simpl; auto. destruct q; simpl; rewrite ?Cpre, ?Cpost; reflexivity.
      * exfalso. unfold reg_at in R1, R2. rewrite Ec1 in R2. simpl c_bad in *.
        destruct (c_pre_bad (k_cfg k)); [discriminate|]. destruct (c_post_bad (k_cfg k)); simpl in *; discriminate.
    + simpl. rewrite Hl1. destruct (m =? m'); simpl; auto. destruct q; simpl; rewrite ?Cpre, ?Cpost; reflexivity.
  - simpl in Hsome. rewrite Hsome.
    destruct (reg_at false w h k m) as [[w2 k2]|] eqn:R2; [|reflexivity].
    destruct (reg_at_mods false w h k m w2 k2 Hm R2) as [Ec2 Hl2]. simpl.
    rewrite Hl2. destruct (m =? m'); simpl; auto. destruct q; simpl; rewrite ?Cpre, ?Hsome; reflexivity.
Qed.

Lemma ord_lst_remove o h m q : ord_lst (ord_remove o h) m q = filter (fun x => negb (x =? h)) (ord_lst o m q).
Proof.
  unfold ord_lst, ord_remove. rewrite nth_error_map. destruct (nth_error o m) as [pq|]; simpl; auto.
  destruct q; reflexivity.
Qed.

Lemma ord_lst_insert o m c h m' q :
  ord_lst (ord_insert o m c h) m' q =
  if (m =? m') && c_has c q && (m <? length o) then ins (c_prepend c q) h (ord_lst o m' q) else ord_lst o m' q.
Proof.
  unfold ord_lst, ord_insert. destruct (nth_error o m) as [pq|] eqn:E.
  - pose proof (nth_error_Some_lt _ _ _ E) as Hlt. rewrite nth_error_upd, (proj2 (Nat.ltb_lt _ _) Hlt).
    destruct (Nat.eqb_spec m m') as [<-|]; simpl; auto. rewrite E.
    destruct q; simpl; [destruct (c_pre c)|destruct (c_post c)]; reflexivity.
  - apply nth_error_None in E. destruct (Nat.ltb_spec m (length o)); try lia. rewrite !andb_false_r. reflexivity.
Qed.

Lemma ord_remove_length o h : length (ord_remove o h) = length o.
Proof. apply map_length. Qed.
Lemma ord_insert_length o m c h : length (ord_insert o m c h) = length o.
Proof. unfold ord_insert. destruct (nth_error o m); auto. apply upd_length. Qed.

Lemma filter_notin l h : ~ In h l -> filter (fun x => negb (x =? h)) l = l.
Proof.
  induction l; simpl; intros Hn; auto. destruct (Nat.eqb_spec a h); simpl.
  - exfalso; apply Hn; auto.
  - rewrite IHl; auto.
Qed.

Definition OInv (w : world) (ow : oworld) : Prop :=
  o_abs ow = abs w /\ length (o_ord ow) = length (w_mods w) /\
  forall m q, map e_hook (mod_lst (w_mods w) m q) = ord_lst (o_ord ow) m q.

Lemma new_hook_mods w c te ee : w_mods (fst (new_hook w c te ee)) = w_mods w.
Proof.
  unfold new_hook. destruct (c_kind c); try (destruct (c_pre c || c_post c); reflexivity).
  destruct (nth_error (w_mods w) (c_mod c)); reflexivity.
Qed.

Lemma hook_register_length w h k m : length (w_mods (fst (hook_register w h k m))) = length (w_mods w).
Proof.
  unfold hook_register. destruct (registered k); auto. destruct (nth_error (w_mods w) m); auto.
  assert (Hr : forall p w0 k0 w1 k1, reg_at p w0 h k0 m = Some (w1, k1) -> length (w_mods w1) = length (w_mods w0)).
  { intros p w0 k0 w1 k1. unfold reg_at. destruct (c_bad (k_cfg k0) p); [discriminate|].
    intros E; inversion E; simpl. apply mod_set_lst_length. }
  destruct (c_pre (k_cfg k)).
  - destruct (reg_at true w h k m) as [[w1 k1]|] eqn:R1; auto. pose proof (Hr _ _ _ _ _ R1) as L1.
    destruct (c_post (k_cfg k)); simpl; auto.
    destruct (reg_at false w1 h k1 m) as [[w2 k2]|] eqn:R2; simpl; auto. rewrite (Hr _ _ _ _ _ R2); auto.
  - destruct (c_post (k_cfg k)); simpl; auto.
    destruct (reg_at false w h k m) as [[w2 k2]|] eqn:R2; simpl; auto. rewrite (Hr _ _ _ _ _ R2); auto.
Qed.

Lemma dead_not_listed w h m q :
  SInv w -> (forall k, nth_error (w_hooks w) h = Some k -> k_alive k = false) ->
  ~ In h (map e_hook (mod_lst (w_mods w) m q)).
Proof.
  intros HS Hd Hin. apply in_map_iff in Hin. destruct Hin as [e [E Hin]].
  destruct (s_entries _ HS m q e Hin) as [_ [k [Hk [Ha _]]]]. rewrite E in Hk. rewrite (Hd k Hk) in Ha. discriminate.
Qed.

(* every operation keeps the concrete dispatch order equal to the ordered abstract machine's *)
Theorem ostep_sound w ow o :
  Inv w -> safe_op o = true -> OInv w ow -> OInv (fst (fst (step w o))) (ostep ow o).
Proof.
  intros HI Hsafe [Eabs [Elen Hord]]. pose proof HI as [HS HP].
  destruct (step_sound w o HI Hsafe) as [_ [Habs' _]].
  unfold OInv, ostep. rewrite Eabs. simpl o_abs. split; [symmetry; exact Habs'|].
  destruct o.
  - (* ONew *)
    simpl. destruct (state_cfg_ok c); simpl; [|auto].
    pose proof (new_hook_mods w c te ee) as Em. destruct (new_hook w c te ee) as [w' e]; simpl in *. rewrite Em. auto.
  - (* ORegister *)
    simpl step. unfold with_hook. simpl astep. unfold a_with. rewrite nth_error_abs_hooks.
    destruct (nth_error (w_hooks w) h) as [k|] eqn:Hk; simpl; [|auto].
    destruct (k_alive k) eqn:Ha; simpl.
    2:{ (rewrite nth_error_abs_hooks || rewrite nth_error_map); rewrite Hk; simpl. destruct (abs_reg k); auto. }
    assert (Hreg : forall m0,
              let r := hook_register w h k m0 in
              let a' := fst (a_register (abs w) h (abs_hook k) m0) in
              length (match nth_error (a_hooks a') h with
                      | Some k' => match abs_reg k, a_reg k' with
                                   | None, Some m' => ord_insert (o_ord ow) m' (k_cfg k) h
                                   | _, _ => o_ord ow end
                      | None => o_ord ow end) = length (w_mods (fst r)) /\
              forall m' q, map e_hook (mod_lst (w_mods (fst r)) m' q) =
                ord_lst (match nth_error (a_hooks a') h with
                         | Some k' => match abs_reg k, a_reg k' with
                                      | None, Some m' => ord_insert (o_ord ow) m' (k_cfg k) h
                                      | _, _ => o_ord ow end
                         | None => o_ord ow end) m' q).
    { intros m0 r a'.
      destruct (register_sound w h k m0 HI Hk Ha) as [_ [_ Herr]]. fold r in Herr.
      pose proof (register_mods w h k m0 HI Hk Ha) as Hm. fold r in Hm.
      unfold r at 1. rewrite hook_register_length.
      subst a'. revert Herr. unfold a_register. simpl a_reg. rewrite (is_some_abs_reg k Ha).
      destruct (registered k) eqn:R.
      - simpl. intros Herr. (rewrite nth_error_abs_hooks || rewrite nth_error_map); rewrite Hk; simpl.
        assert (En : abs_reg k <> None).
        { intros En. pose proof (is_some_abs_reg k Ha) as Hx. rewrite En, R in Hx. discriminate. }
        destruct (abs_reg k); [|congruence]. split; auto. intros m' q. rewrite Hm, Herr. simpl. auto.
      - assert (En : abs_reg k = None).
        { pose proof (is_some_abs_reg k Ha) as Hx. rewrite R in Hx. destruct (abs_reg k); [discriminate|auto]. }
        rewrite En. rewrite abs_length_train.
        destruct (m0 <? length (w_mods w)) eqn:Hlt; simpl.
        2:{ intros Herr. (rewrite nth_error_abs_hooks || rewrite nth_error_map); rewrite Hk; simpl. rewrite En. split; auto.
            intros m' q. rewrite Hm, Herr. simpl. auto. }
        destruct (kwargs_ok (k_cfg k)) eqn:Hkw; simpl.
        2:{ intros Herr. (rewrite nth_error_abs_hooks || rewrite nth_error_map); rewrite Hk; simpl. rewrite En. split; auto.
            intros m' q. rewrite Hm, Herr. simpl. auto. }
        intros Herr. unfold a_set. simpl a_hooks. rewrite nth_error_upd_eq.
        2:{ unfold abs; simpl. rewrite map_length. eapply nth_error_Some_lt; eauto. }
        simpl. rewrite ord_insert_length. split; auto.
        intros m' q. rewrite Hm, Herr, ord_lst_insert, Elen, Hlt, andb_true_r. simpl.
        destruct ((m0 =? m') && c_has (k_cfg k) q); rewrite Hord; reflexivity. }
    simpl a_cfg. destruct (c_kind (k_cfg k)) eqn:Ck.
    + destruct (Hreg m) as [H1 H2]. destruct (hook_register w h k m) as [w' e]; simpl in *. auto.
    + destruct (Hreg m) as [H1 H2]. destruct (hook_register w h k m) as [w' e]; simpl in *. auto.
    + simpl a_reg. rewrite (is_some_abs_reg k Ha). destruct (registered k) eqn:R; simpl.
      * (rewrite nth_error_abs_hooks || rewrite nth_error_map); rewrite Hk; simpl.
        assert (En : abs_reg k <> None).
        { intros En. pose proof (is_some_abs_reg k Ha) as Hx. rewrite En, R in Hx. discriminate. }
        destruct (abs_reg k); [auto|congruence].
      * destruct (Hreg (c_mod (k_cfg k))) as [H1 H2].
        destruct (hook_register w h k (c_mod (k_cfg k))) as [w' e]; simpl in *. auto.
  - (* ODeregister *)
    cbn [o_ord step]. unfold with_hook. rewrite ord_remove_length.
    destruct (nth_error (w_hooks w) h) as [k|] eqn:Hk; simpl.
    + destruct (k_alive k) eqn:Ha; simpl.
      * rewrite detach_handles_length. split; auto. intros m q.
        rewrite (detach_by_hook w h k m q HS Hk Ha), ord_lst_remove, Hord. reflexivity.
      * split; auto. intros m q. rewrite ord_lst_remove, <- Hord. symmetry. apply filter_notin.
        apply dead_not_listed; auto. intros k0 E. rewrite Hk in E. inversion E; subst; auto.
    + split; auto. intros m q. rewrite ord_lst_remove, <- Hord. symmetry. apply filter_notin.
      apply dead_not_listed; auto. intros k0 E. rewrite Hk in E. discriminate.
  - (* OSetTrain *)
    simpl. destruct (nth_error (w_mods w) m) as [md|] eqn:Hm; simpl; auto.
    rewrite upd_length. split; auto. intros m' q. rewrite (mod_lst_train _ _ _ _ _ _ Hm). auto.
  - (* OSetExec *)
    simpl. unfold with_hook. destruct (nth_error (w_hooks w) h) as [k|]; simpl; auto.
    destruct (k_alive k); simpl; auto.
  - (* OCall *)
    simpl. destruct (call w m fail). simpl. auto.
  - (* OManual *)
    simpl. unfold with_hook. destruct (nth_error (w_hooks w) h) as [k|]; simpl; auto.
    destruct (k_alive k); simpl; auto. destruct (c_kind (k_cfg k)); simpl; auto.
    destruct (manual w h k force ignore); simpl; auto.
  - (* ODelete *)
    cbn [o_ord step]. unfold with_hook. rewrite ord_remove_length.
    destruct (nth_error (w_hooks w) h) as [k|] eqn:Hk; simpl.
    + destruct (k_alive k) eqn:Ha; simpl.
      * assert (Em : match k_fin k with Some (a, b) => detach_handles (w_mods w) a b | None => w_mods w end
                     = detach_handles (w_mods w) (k_preh k) (k_posth k)).
        { rewrite (p_fin _ _ (HP h k Hk Ha)). destruct (registered k) eqn:R; auto.
          destruct (registered_false k R) as [-> ->]. reflexivity. }
        rewrite Em, detach_handles_length. split; auto. intros m q.
        rewrite (detach_by_hook w h k m q HS Hk Ha), ord_lst_remove, Hord. reflexivity.
      * split; auto. intros m q. rewrite ord_lst_remove, <- Hord. symmetry. apply filter_notin.
        apply dead_not_listed; auto. intros k0 E. rewrite Hk in E. inversion E; subst; auto.
    + split; auto. intros m q. rewrite ord_lst_remove, <- Hord. symmetry. apply filter_notin.
      apply dead_not_listed; auto. intros k0 E. rewrite Hk in E. discriminate.
Qed.

(* with the invariant, the concrete event list of a call IS the specification's *)
Theorem call_exact_state w ow m fail :
  Inv w -> OInv w ow -> m < length (w_mods w) ->
  call w m fail = (spec_call ow m fail, if fail then Some EValue else None).
Proof.
  intros HI [Eabs [Elen Hord]] Hm. pose proof HI as [HS HP].
  rewrite (call_ok w m fail HS Hm). f_equal. unfold spec_call. rewrite Eabs.
  rewrite <- !Hord. unfold call_pre, call_post, mod_lst.
  destruct (nth_error (w_mods w) m) as [md|] eqn:Hmd; [|apply nth_error_None in Hmd; lia].
  rewrite !flat_map_map. simpl lst.
  assert (Hpt : forall q b e, In e (lst md q) ->
            (if b || e_always e then fire_of (w_hooks w) (m_training md) q e else []) =
            (if match nth_error (w_hooks w) (e_hook e) with
                | Some k => k_alive k && reg_on (abs_hook k) m && c_has (k_cfg k) q && a_armed (abs_hook k) (m_training md)
                            && (b || alw (k_cfg k) q)
                | None => false end
             then [EFire (e_hook e) (a_tag (abs w) (e_hook e) q)] else [])).
  { intros q b e Hin.
    assert (Hin' : In e (mod_lst (w_mods w) m q)) by (unfold mod_lst; rewrite Hmd; auto).
    destruct (s_entries _ HS m q e Hin') as [_ [k [Hk [Ha [Hh Hal]]]]].
    destruct (proj1 (reg_iff _ k q m (HP _ k Hk Ha) Ha) (ex_intro _ _ Hh)) as [R1 R2].
    unfold fire_of, a_tag. rewrite nth_error_abs_hooks, Hk, Ha, R1, R2, Hal, <- armed_a_armed. simpl.
    destruct (b || alw (k_cfg k) q); [|rewrite andb_false_r; reflexivity].
    rewrite andb_true_r. destruct (armed k (m_training md)); reflexivity. }
  f_equal; [|f_equal].
  - apply flat_map_ext_in. intros e Hin. pose proof (Hpt true true e Hin) as H. simpl in H. rewrite H.
    unfold a_fires_pre. rewrite nth_error_abs_hooks, nth_error_abs_train, Hmd.
    destruct (nth_error (w_hooks w) (e_hook e)); simpl; auto. rewrite andb_true_r. reflexivity.
  - apply flat_map_ext_in. intros e Hin. rewrite (Hpt false (negb fail) e Hin).
    unfold a_fires_post. rewrite nth_error_abs_hooks, nth_error_abs_train, Hmd.
    destruct (nth_error (w_hooks w) (e_hook e)); simpl; auto.
Qed.

Lemma oinv_init n : OInv (w0 n) (o0 n).
Proof.
  split; [symmetry; apply abs_init|]. split; [simpl; rewrite !repeat_length; auto|].
  intros m q. unfold mod_lst, ord_lst, w0, o0; simpl.
  destruct (nth_error (repeat _ n) m) eqn:E1.
  - apply nth_error_In, repeat_spec in E1. subst.
    destruct (nth_error (repeat ([], []) n) m) eqn:E2.
    + apply nth_error_In, repeat_spec in E2. subst. destruct q; reflexivity.
    + destruct q; reflexivity.
  - destruct (nth_error (repeat ([], []) n) m) eqn:E2; auto.
    apply nth_error_In, repeat_spec in E2. subst. destruct q; reflexivity.
Qed.

Lemma orun_sound w ow ops :
  Inv w -> OInv w ow -> forallb safe_op ops = true ->
  Inv (fst (run w ops)) /\ OInv (fst (run w ops)) (orun ow ops).
Proof.
  revert w ow; induction ops as [|o tl IH]; simpl; intros w ow HI HO Hs; auto.
  apply andb_prop in Hs. destruct Hs as [Ho Hs].
  destruct (step_sound w o HI Ho) as [H1 _]. pose proof (ostep_sound w ow o HI Ho HO) as H2.
  destruct (step w o) as [[w' ev] e]. simpl in *.
  destruct (IH w' (ostep ow o) H1 H2 Hs) as [H3 H4]. destruct (run w' tl) as [w'' outs]. simpl in *. auto.
Qed.

(* FLAGSHIP (exact form): for every history the complete event sequence of a module call - which hooks
   run, in which position, in which ORDER (prepend), with which callable, and forward in between - equals
   the sequence computed by the handle-free ordered abstract machine from the same history *)
Theorem dispatch_exact n ops m fail :
  forallb safe_op ops = true -> m < n ->
  let w := fst (run (w0 n) ops) in
  step w (OCall m fail) = (w, spec_call (orun (o0 n) ops) m fail, if fail then Some EValue else None).
Proof.
  intros Hs Hm w. destruct (orun_sound (w0 n) (o0 n) ops (inv_init n) (oinv_init n) Hs) as [HI HO]. fold w in HI, HO.
  assert (Hl : m < length (w_mods w)) by (unfold w; rewrite reach_mods_length; auto).
  simpl. rewrite (call_exact_state w _ m fail HI HO Hl). reflexivity.
Qed.

(* ---------------------------------------------------------------------- observables of the property record *)
(* Hook.registered, trainexec, evalexec of every live hook object are the abstract machine's, for every history *)
Theorem observable_flags n ops h k :
  forallb safe_op ops = true ->
  let w := fst (run (w0 n) ops) in
  let a := arun (a0 n) ops in
  nth_error (w_hooks w) h = Some k -> k_alive k = true ->
  exists ak, nth_error (a_hooks a) h = Some ak /\ a_alive ak = true /\
             registered k = is_some (a_reg ak) /\ k_te k = a_te ak /\ k_ee k = a_ee ak /\ k_cfg k = a_cfg ak.
Proof.
  intros Hs w a Hk Ha. destruct (run_sound (w0 n) ops (inv_init n) Hs) as [HI Habs]. rewrite abs_init in Habs.
  fold w in Habs. fold a in Habs. exists (abs_hook k). rewrite <- Habs, nth_error_abs_hooks, Hk. simpl.
  rewrite (is_some_abs_reg k Ha). repeat split; auto.
Qed.

(* "once per call": over the whole event list of a module call a hook object is run once for each of its
   armed positions, and never more *)
Theorem once_per_call n ops m fail h :
  forallb safe_op ops = true -> m < n ->
  let w := fst (run (w0 n) ops) in
  let a := arun (a0 n) ops in
  count_fire h (snd (fst (step w (OCall m fail)))) = b2n (a_fires_pre a h m) + b2n (a_fires_post a h m fail).
Proof.
  intros Hs Hm w a. destruct (fires_iff_armed n ops m fail Hs Hm) as [pres [posts [Hc [H1 [H2 _]]]]].
  fold w in Hc. rewrite Hc. simpl. rewrite count_fire_app. unfold count_fire at 2. simpl.
  fold (count_fire h posts). fold a in H1, H2. rewrite H1, H2. reflexivity.
Qed.
