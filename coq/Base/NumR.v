(* Real-number reading of the numeric signature.  Every numeric theorem is about this instance. *)
From Coq Require Import ZArith Reals Bool Lra Lia.
From Flocq Require Import Core.Raux Core.Generic_fmt.
From Inferno Require Import Base.Num.
Open Scope R_scope.

Definition Rleb' (a b : R) : bool := if Rle_dec a b then true else false.
Definition Rltb' (a b : R) : bool := if Rlt_dec a b then true else false.
Definition Reqb' (a b : R) : bool := if Req_EM_T a b then true else false.
Lemma Rleb'_spec a b : reflect (a <= b) (Rleb' a b).
Proof. unfold Rleb'; destruct (Rle_dec a b); constructor; auto. Qed.
Lemma Rltb'_spec a b : reflect (a < b) (Rltb' a b).
Proof. unfold Rltb'; destruct (Rlt_dec a b); constructor; auto. Qed.
Lemma Reqb'_spec a b : reflect (a = b) (Reqb' a b).
Proof. unfold Reqb'; destruct (Req_EM_T a b); constructor; auto. Qed.

(* x ** y for x >= 0 as torch computes it: 0**0 = 1, 0**y = 0 (y > 0) *)
Definition Rpow' (x y : R) : R :=
  if Req_EM_T x 0 then (if Req_EM_T y 0 then 1 else 0) else Rpower x y.
(* truncation toward zero (python int()) *)
Definition Ztrunc' (x : R) : Z := if Rlt_dec x 0 then Zceil x else Zfloor x.

Definition RN : Num := {|
  T := R; zero := 0; one := 1;
  add := Rplus; sub := Rminus; mul := Rmult; div := Rdiv;
  opp := Ropp; abs := Rabs;
  exp := Rtrigo_def.exp; ln := Rpower.ln; sqrt := R_sqrt.sqrt;
  pow := Rpow';
  leb := Rleb'; ltb := Rltb'; eqb := Reqb';
  ofZ := IZR; half := / 2;
  floorZ := Zfloor; ceilZ := Zceil; rneZ := Znearest (fun z => negb (Z.even z)); truncZ := Ztrunc'
|}.

(* Unfolding helper: turn every projection of RN into the underlying real operation. *)
Ltac rn_simpl :=
  cbn [T zero one add sub mul div opp abs exp ln sqrt pow leb ltb eqb ofZ half
       floorZ ceilZ rneZ truncZ RN] in *.

Ltac rn_unfold :=
  unfold b2t, geb, gtb, neb, tmax, tmin, heaviside, two in *; rn_simpl.

(* case analysis on the boolean comparisons of the real instance *)
Ltac rcases :=
  repeat match goal with
  | |- context [Rleb' ?a ?b] => destruct (Rleb'_spec a b)
  | |- context [Rltb' ?a ?b] => destruct (Rltb'_spec a b)
  | |- context [Reqb' ?a ?b] => destruct (Reqb'_spec a b)
  | H : context [Rleb' ?a ?b] |- _ => destruct (Rleb'_spec a b)
  | H : context [Rltb' ?a ?b] |- _ => destruct (Rltb'_spec a b)
  | H : context [Reqb' ?a ?b] |- _ => destruct (Reqb'_spec a b)
  end.
