(* Numeric signature shared by every numeric model.  One model, two readings:
   NumR.RN (Coq reals, all theorems) and NumF.FN (binary64 primitive floats, execution only). *)
From Coq Require Import ZArith Bool List.
Import ListNotations.

Record Num := mkNum {
  T : Type;
  zero : T; one : T;
  add : T -> T -> T; sub : T -> T -> T; mul : T -> T -> T; div : T -> T -> T;
  opp : T -> T; abs : T -> T;
  exp : T -> T; ln : T -> T; sqrt : T -> T;
  pow : T -> T -> T;            (* base >= 0 *)
  leb : T -> T -> bool; ltb : T -> T -> bool; eqb : T -> T -> bool;
  ofZ : Z -> T;
  half : T;                     (* 0.5, exactly *)
  floorZ : T -> Z; ceilZ : T -> Z; rneZ : T -> Z; truncZ : T -> Z
}.

Section Derived.
Variable N : Num.
Definition b2t (b : bool) : T N := if b then one N else zero N.
Definition geb (a b : T N) : bool := leb N b a.
Definition gtb (a b : T N) : bool := ltb N b a.
Definition neb (a b : T N) : bool := negb (eqb N a b).
Definition tmax (a b : T N) : T N := if ltb N a b then b else a.
Definition tmin (a b : T N) : T N := if ltb N b a then b else a.
(* torch.heaviside(x, values): 0 if x < 0, values if x == 0, 1 if x > 0 *)
Definition heaviside (x v : T N) : T N :=
  if ltb N x (zero N) then zero N else if eqb N x (zero N) then v else one N.
Fixpoint pown (x : T N) (n : nat) : T N :=
  match n with O => one N | S k => mul N x (pown x k) end.
Fixpoint tsum (l : list (T N)) : T N :=
  match l with [] => zero N | x :: t => add N x (tsum t) end.
Definition two : T N := add N (one N) (one N).
End Derived.

Arguments b2t N b : simpl never.
