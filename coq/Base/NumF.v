(* binary64 reading of the numeric signature: used ONLY to run models with vm_compute
   against the implementation (correspondence check).  No theorem depends on this file. *)
From Inferno Require Base.Num.
From Coq Require Import ZArith Bool List PrimFloat Uint63 FloatOps SpecFloat.
Import ListNotations.
Open Scope float_scope.

(* ---- float -> Z conversions (for finite floats) ---- *)
Definition f2Z_trunc (x : float) : Z :=
  match Prim2SF x with
  | S754_finite s m e =>
      let v := if (0 <=? e)%Z then (Zpos m * 2 ^ e)%Z else (Zpos m / 2 ^ (- e))%Z in
      if s then (- v)%Z else v
  | _ => 0%Z
  end.
Definition f_ofZ (z : Z) : float :=
  match z with
  | Z0 => 0
  | Zpos p => SF2Prim (binary_normalize prec emax (Zpos p) 0 false)
  | Zneg p => SF2Prim (binary_normalize prec emax (Zneg p) 0 false)
  end.
Definition big : float := 0x1p52.
(* round to nearest even integer (as a float): the +-2^52 trick *)
Definition f_rne (x : float) : float :=
  if big <=? abs x then x
  else if x <? 0 then (x - big) + big else (x + big) - big.
Definition f_floor (x : float) : float := let r := f_rne x in if x <? r then r - 1 else r.
Definition f_ceil (x : float) : float := let r := f_rne x in if r <? x then r + 1 else r.

(* ---- exp / ln (accurate to a few ulp; compared with 1e-9 tolerance) ---- *)
Definition ln2 : float := 0x1.62e42fefa39efp-1.
Fixpoint exp_taylor (r : float) (n : nat) (k : float) (term acc : float) : float :=
  match n with
  | O => acc
  | S n' => let term' := term * r / k in exp_taylor r n' (k + 1) term' (acc + term')
  end.
Definition f_exp (x : float) : float :=
  if is_nan x then x
  else if 710 <? x then infinity
  else if x <? -746 then 0
  else
    let kf := f_rne (x / ln2) in
    let r := x - kf * ln2 in
    let e := exp_taylor r 22 1 1 1 in
    Z.ldexp e (f2Z_trunc kf).
Fixpoint atanh_series (z2 : float) (n : nat) (k : float) (pw acc : float) : float :=
  match n with
  | O => acc
  | S n' => let pw' := pw * z2 in atanh_series z2 n' (k + 2) pw' (acc + pw' / (k + 2))
  end.
Definition f_ln (x : float) : float :=
  if is_nan x then x
  else if x <? 0 then nan
  else if x =? 0 then neg_infinity
  else if x =? infinity then infinity
  else
    let (m, e) := Z.frexp x in            (* x = m * 2^e, 0.5 <= m < 1 *)
    let '(m, e) := if m <? 0x1.6a09e667f3bcdp-1 then (m * 2, (e - 1)%Z) else (m, e) in
    let z := (m - 1) / (m + 1) in
    let s := atanh_series (z * z) 24 1 z z in
    f_ofZ e * ln2 + 2 * s.
Definition f_pow (x y : float) : float :=
  if x =? 0 then (if y =? 0 then 1 else 0) else f_exp (y * f_ln x).

Definition FN : Num.Num := {|
  Num.T := float; Num.zero := 0; Num.one := 1;
  Num.add := PrimFloat.add; Num.sub := PrimFloat.sub; Num.mul := PrimFloat.mul; Num.div := PrimFloat.div;
  Num.opp := PrimFloat.opp; Num.abs := PrimFloat.abs;
  Num.exp := f_exp; Num.ln := f_ln; Num.sqrt := PrimFloat.sqrt;
  Num.pow := f_pow;
  Num.leb := PrimFloat.leb; Num.ltb := PrimFloat.ltb; Num.eqb := PrimFloat.eqb;
  Num.ofZ := f_ofZ; Num.half := 0.5;
  Num.floorZ := fun x => f2Z_trunc (f_floor x); Num.ceilZ := fun x => f2Z_trunc (f_ceil x);
  Num.rneZ := fun x => f2Z_trunc (f_rne x); Num.truncZ := f2Z_trunc
|}.

(* ---- serialisation of results: a tree of integers, printed by Eval vm_compute ---- *)
Inductive tree := L (z : Z) | Nd (l : list tree).
(* float |-> Nd [L kind; L mantissa; L exponent], value = mantissa * 2^exponent;
   kind 0 finite, 1 +inf, 2 -inf, 3 nan *)
Definition ser_float (x : float) : tree :=
  match Prim2SF x with
  | S754_zero _ => Nd [L 0; L 0; L 0]
  | S754_infinity false => Nd [L 1; L 0; L 0]
  | S754_infinity true => Nd [L 2; L 0; L 0]
  | S754_nan => Nd [L 3; L 0; L 0]
  | S754_finite s m e => Nd [L 0; L (if s then Zneg m else Zpos m); L e]
  end%Z.
Definition ser_bool (b : bool) : tree := L (if b then 1 else 0)%Z.
Definition ser_Z (z : Z) : tree := L z.
Definition ser_nat (n : nat) : tree := L (Z.of_nat n).
Definition ser_list {A} (f : A -> tree) (l : list A) : tree := Nd (map f l).
Definition ser_option {A} (f : A -> tree) (o : option A) : tree :=
  match o with None => Nd [] | Some a => Nd [f a] end.
Definition ser_pair {A B} (f : A -> tree) (g : B -> tree) (p : A * B) : tree :=
  Nd [f (fst p); g (snd p)].
