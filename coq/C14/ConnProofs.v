(* C14, connection level (proofs, real-number reading): assigning dt / batchsz through the connection IS assigning
   them on its synapse; a replacement synapse is reported back; whatever sequence of dt / batchsz assignments and
   synapse replacements, clearing the connection gives exactly the cleared connection constructed around a
   synapse built with the resulting configuration; the frame; the pre-repair synapse setter refuted. *)
From Coq Require Import List ZArith Bool Arith Lia Reals Lra.
From Inferno Require Import Base.Num Base.NumR Gen.Infra C01.Ring C01.RingProofs C13.Shaped C13.Lists C13.ShapedProofs
  C13.Resize C13.ResizeProofs C14.RecordCfg C14.RecordCfgProofs C14.Batch C14.BatchProofs C14.SynProofs C14.Conn.
Import ListNotations.
Open Scope nat_scope.

Section ConnProofs.
Context {A D : Type}.
Variable cast : D -> A -> A.
Variable promote : D -> D -> D.
Variable D_eqb : D -> D -> bool.
Variable zeroA : A.
Variable default_d : D.

Notation scomp := (@scomp RN A D).
Notation conn := (@conn RN A D).
Notation conn_op := (@conn_op RN D).
Notation s_ctor := (@s_ctor RN A D zeroA).
Notation s_clear := (@s_clear RN A D cast zeroA).
Notation s_apply := (@s_apply RN A D cast zeroA).
Notation conn_ctor := (@conn_ctor RN A D zeroA).
Notation conn_apply := (@conn_apply RN A D cast zeroA).
Notation conn_clear := (@conn_clear RN A D cast zeroA).
Notation conn_expect := (@conn_expect RN D).
Notation conn_synapse := (@conn_synapse RN A D).
Notation conn_dt := (@conn_dt RN A D).
Notation conn_batch := (@conn_batch RN A D).
Notation conn_delayedby := (@conn_delayedby RN A D).
Notation conn_init := (@conn_init RN A D).
Notation scomp_ok := (@scomp_ok A D).

(* ------------------------------------------------------------------ forwarding *)
(* through the connection = on the synapse; nothing else of the connection changes; the getters read the synapse *)
Theorem conn_forwards shp (c : conn) (o : conn_op) :
  match o with
  | KDt _ v => conn_synapse (conn_apply shp c o) = s_apply (conn_synapse c) (SDt RN v)
  | KBatch _ v => conn_synapse (conn_apply shp c o) = s_apply (conn_synapse c) (SBatch RN v)
  | KOnSyn _ o' => conn_synapse (conn_apply shp c o) = s_apply (conn_synapse c) o'     (* the direct route *)
  | KSyn _ ds dt dl b ip =>
      match s_ctor ds shp dt dl b ip with
      | Some s => conn_synapse (conn_apply shp c o) = s          (* the replacement is reported back *)
      | None => conn_apply shp c o = c
      end
  end /\
  k_delayed RN (conn_apply shp c o) = k_delayed RN c /\ k_stray RN (conn_apply shp c o) = k_stray RN c /\
  let c' := conn_apply shp c o in
  conn_dt c' = s_dt RN (conn_synapse c') /\ conn_batch c' = s_batch RN (conn_synapse c') /\
  conn_delayedby c' = (if k_delayed RN c then Some (s_delay RN (conn_synapse c')) else None).
Proof.
  destruct o as [v|v|o'|ds dt dl b ip]; cbn [Conn.conn_apply].
  - repeat split.
  - repeat split.
  - repeat split.
  - destruct (s_ctor ds shp dt dl b ip) as [s|]; repeat split.
Qed.

(* frame at the connection, for both routes: assigning dt leaves batchsz and delayedby, assigning batchsz leaves dt and
   delayedby, assigning the synapse's delay leaves dt and batchsz, assigning inplace leaves all three *)
Theorem conn_setter_frame shp (c : conn) (o : conn_op) :
  match o with
  | KDt _ _ | KOnSyn _ (SDt _ _) =>
      conn_batch (conn_apply shp c o) = conn_batch c /\ conn_delayedby (conn_apply shp c o) = conn_delayedby c
  | KBatch _ _ | KOnSyn _ (SBatch _ _) =>
      conn_dt (conn_apply shp c o) = conn_dt c /\ conn_delayedby (conn_apply shp c o) = conn_delayedby c
  | KOnSyn _ (SDelay _ _) => conn_dt (conn_apply shp c o) = conn_dt c /\ conn_batch (conn_apply shp c o) = conn_batch c
  | KOnSyn _ (SInplace _ _) =>
      conn_dt (conn_apply shp c o) = conn_dt c /\ conn_batch (conn_apply shp c o) = conn_batch c /\
      conn_delayedby (conn_apply shp c o) = conn_delayedby c
  | KSyn _ _ _ _ _ _ => True
  end.
Proof.
  assert (F : forall o', let c' := mkConn RN (k_delayed RN c) (s_apply (conn_synapse c) o') (k_stray RN c) in
            match o' with
            | SDt _ _ => conn_batch c' = conn_batch c /\ conn_delayedby c' = conn_delayedby c
            | SBatch _ _ => conn_dt c' = conn_dt c /\ conn_delayedby c' = conn_delayedby c
            | SDelay _ _ => conn_dt c' = conn_dt c /\ conn_batch c' = conn_batch c
            | SInplace _ _ => conn_dt c' = conn_dt c /\ conn_batch c' = conn_batch c /\ conn_delayedby c' = conn_delayedby c
            end).
  { intros o'. pose proof (syn_setter_frame cast zeroA (conn_synapse c) o') as H. cbv zeta.
    unfold Conn.conn_dt, Conn.conn_batch, Conn.conn_delayedby, Conn.conn_synapse in *. cbn [k_syn k_delayed].
    destruct o' as [v|v|v|x]; destruct H as (H1 & H2 & H3); rewrite ?H1, ?H2, ?H3; auto. }
  destruct o as [v|v|o'|ds dt dl b ip]; [exact (F (SDt RN v))|exact (F (SBatch RN v))| |exact I].
  cbn [Conn.conn_apply]. pose proof (F o') as H. destruct o'; exact H.
Qed.

(* ------------------------------------------------------------------ setter paths reach the constructor's state *)
Definition conn_ok (ds : list D) (shp : list nat) (kd : bool) (c : conn) : Prop :=
  k_delayed RN c = kd /\ k_stray RN c = None /\ scomp_ok ds shp (k_syn RN c).
Definition conn_cfg (ds : list D) (c : conn) : list D * T RN * T RN * Z * bool :=
  (ds, s_dt RN (k_syn RN c), s_delay RN (k_syn RN c), s_batch RN (k_syn RN c), s_inplace RN (k_syn RN c)).

Lemma conn_apply_ok ds shp kd (c : conn) (o : conn_op) : conn_ok ds shp kd c ->
  exists ds', conn_ok ds' shp kd (conn_apply shp c o) /\ conn_cfg ds' (conn_apply shp c o) = conn_expect (conn_cfg ds c) o /\
    (is_syn_op RN o = false -> ds' = ds).
Proof.
  intros (H1 & H2 & Hok). destruct o as [v|v|o'|ds' dt' dl' b' ip']; cbn [Conn.conn_apply Conn.conn_expect conn_cfg is_syn_op].
  - exists ds. destruct (s_apply_ok cast promote D_eqb zeroA default_d ds shp _ (SDt RN v) Hok) as [K1 K2].
    cbn [Batch.s_apply] in K1, K2. split; [split; [exact H1|split; [exact H2|exact K1]]|]. split; [|auto].
    unfold conn_cfg, Conn.conn_set_dt, Conn.conn_synapse. cbn [k_syn]. unfold s_cfg in K2. cbn [Batch.s_expect] in K2.
    destruct (gtb RN v (zero RN)); injection K2 as E1 E2 E3 E4; rewrite E1, E2, E3, E4; reflexivity.
  - exists ds. destruct (s_apply_ok cast promote D_eqb zeroA default_d ds shp _ (SBatch RN v) Hok) as [K1 K2].
    cbn [Batch.s_apply] in K1, K2. split; [split; [exact H1|split; [exact H2|exact K1]]|]. split; [|auto].
    unfold conn_cfg, Conn.conn_set_batch, Conn.conn_synapse. cbn [k_syn]. unfold s_cfg in K2. cbn [Batch.s_expect] in K2.
    destruct (v <=? 0)%Z; injection K2 as E1 E2 E3 E4; rewrite E1, E2, E3, E4; reflexivity.
  - exists ds. destruct (s_apply_ok cast promote D_eqb zeroA default_d ds shp _ o' Hok) as [K1 K2].
    split; [split; [exact H1|split; [exact H2|exact K1]]|]. split; [|auto].
    unfold conn_cfg, Conn.conn_synapse. cbn [k_syn]. unfold s_cfg in K2. rewrite <- K2. reflexivity.
  - destruct (Z.leb_spec b' 0) as [Hb|Hb].
    { exists ds. unfold Batch.s_ctor. destruct (Z.leb_spec b' 0); [|lia]. split; [split; auto|]. split; [reflexivity|discriminate]. }
    destruct (gtb RN dt' (zero RN)) eqn:G1; cbn [negb].
    2:{ exists ds. unfold Batch.s_ctor. destruct (Z.leb_spec b' 0); [lia|]. rewrite G1. cbn [negb]. split; [split; auto|]. split; [reflexivity|discriminate]. }
    destruct (geb RN dl' (zero RN)) eqn:G2; cbn [negb].
    2:{ exists ds. unfold Batch.s_ctor. destruct (Z.leb_spec b' 0); [lia|]. rewrite G1, G2. cbn [negb]. split; [split; auto|]. split; [reflexivity|discriminate]. }
    destruct (s_ctor_spec cast promote D_eqb zeroA default_d ds' shp dt' dl' b' ip' Hb G1 G2) as (s & Hs & Hcfg & Hoks).
    exists ds'. rewrite Hs. cbn [Conn.conn_set_syn k_syn k_delayed k_stray]. split; [split; auto|]. split; [|discriminate].
    unfold conn_cfg, Conn.conn_set_syn. cbn [k_syn]. unfold s_cfg in Hcfg. injection Hcfg as E1 E2 E3 E4. rewrite E1, E2, E3, E4. reflexivity.
Qed.

Lemma conn_run_ok shp kd : forall (ops : list conn_op) ds (c : conn), conn_ok ds shp kd c ->
  exists ds', conn_ok ds' shp kd (fold_left (conn_apply shp) ops c) /\
    conn_cfg ds' (fold_left (conn_apply shp) ops c) = fold_left conn_expect ops (conn_cfg ds c) /\
    (forallb (fun o => negb (is_syn_op RN o)) ops = true -> ds' = ds).
Proof.
  induction ops as [|o ops IH]; intros ds c Hok; cbn [fold_left forallb].
  - exists ds. auto.
  - destruct (conn_apply_ok ds shp kd c o Hok) as (ds1 & H1 & H2 & H3).
    destruct (IH ds1 _ H1) as (ds2 & K1 & K2 & K3). exists ds2. split; [exact K1|]. split; [rewrite K2, H2; reflexivity|].
    intros Hf. apply andb_true_iff in Hf as [Hf1 Hf2]. rewrite (K3 Hf2). apply H3. destruct (is_syn_op RN o); [discriminate|reflexivity].
Qed.

(* MAIN (connections): any sequence of dt / batchsz assignments through the connection and synapse replacements,
   then clear = the cleared connection built around the synapse the constructor gives for the expected class and
   configuration; the connection reports exactly that configuration *)
Theorem conn_setters_clear_eq_ctor ds shp dt (delay : option (T RN)) b ip c0 (ops : list conn_op) :
  conn_ctor ds shp dt delay b ip = Some c0 ->
  let c := fold_left (conn_apply shp) ops c0 in
  let '(ds', dt', dl', b', ip') :=
    fold_left conn_expect ops (ds, dt, match delay with Some d => d | None => zero RN end, b, ip) in
  exists sf, s_ctor ds' shp dt' dl' b' ip' = Some sf /\
    conn_clear c = conn_clear (conn_init (match delay with Some _ => true | None => false end) sf) /\
    conn_dt c = dt' /\ conn_batch c = b' /\ conn_delayedby c = match delay with Some _ => Some dl' | None => None end /\
    s_inplace RN (conn_synapse c) = ip'.
Proof.
  intros Hc. unfold Conn.conn_ctor in Hc.
  destruct (s_ctor ds shp dt _ b ip) as [s0|] eqn:Es; [|discriminate]. injection Hc as <-.
  destruct (s_ctor_some zeroA _ _ _ _ _ _ _ Es) as (Hb & Hdt & Hdl).
  destruct (s_ctor_spec cast promote D_eqb zeroA default_d ds shp dt _ b ip Hb Hdt Hdl) as (s0' & Es' & Hcfg0 & Hok0).
  rewrite Es in Es'. injection Es' as <-.
  set (kd := match delay with Some _ => true | None => false end).
  assert (Hk0 : conn_ok ds shp kd (conn_init kd s0)) by (split; [reflexivity|split; [reflexivity|exact Hok0]]).
  destruct (conn_run_ok shp kd ops ds _ Hk0) as (ds' & (K1 & K2 & K3) & Hcfg & _). cbv zeta.
  assert (E0 : conn_cfg ds (conn_init kd s0) = (ds, dt, match delay with Some d => d | None => zero RN end, b, ip)).
  { unfold conn_cfg. cbn [Conn.conn_init k_syn]. unfold s_cfg in Hcfg0. injection Hcfg0 as -> -> -> ->. reflexivity. }
  rewrite E0 in Hcfg.
  destruct (fold_left conn_expect ops _) as [[[[ds1 dt1] dl1] b1] ip1].
  set (c := fold_left (conn_apply shp) ops (conn_init kd s0)) in *.
  repeat match goal with |- context [fold_left (conn_apply shp) ops ?x] => change (fold_left (conn_apply shp) ops x) with c end.
  unfold conn_cfg in Hcfg. injection Hcfg as F0 F1 F2 F3 F4. subst ds1.
  pose proof K3 as (nb & Hb' & Hp' & G1 & G2 & _). rewrite F1 in G1. rewrite F2 in G2.
  assert (Hb1 : (0 < b1)%Z) by lia.
  destruct (s_ctor_spec cast promote D_eqb zeroA default_d ds' shp dt1 dl1 b1 ip1 Hb1 G1 G2) as (sf & Hsf & Hcfgf & Hokf).
  exists sf. split; [exact Hsf|]. split.
  { unfold Conn.conn_clear, Conn.conn_init, Conn.conn_synapse. cbn [k_delayed k_syn k_stray]. rewrite K1, K2. f_equal.
    rewrite (s_clear_canon cast zeroA _ _ _ K3), (s_clear_canon cast zeroA _ _ _ Hokf).
    unfold s_cfg in Hcfgf. injection Hcfgf as -> -> -> ->. rewrite F1, F2, F3, F4. reflexivity. }
  unfold Conn.conn_dt, Conn.conn_batch, Conn.conn_delayedby, Conn.conn_synapse. rewrite K1.
  split; [exact F1|]. split; [exact F3|]. split; [|exact F4]. unfold kd. destruct delay; [rewrite F2|]; reflexivity.
Qed.

(* without replacements the class of the synapse stays: the connection is the one ITS OWN constructor builds *)
Theorem conn_setters_clear_eq_own_ctor ds shp dt (delay : option (T RN)) b ip c0 (ops : list conn_op) :
  conn_ctor ds shp dt delay b ip = Some c0 -> forallb (dt_batch_op RN) ops = true ->
  let c := fold_left (conn_apply shp) ops c0 in
  exists cf, conn_ctor ds shp (conn_dt c) delay (conn_batch c) ip = Some cf /\ conn_clear c = conn_clear cf.
Proof.
  intros Hc Hns. unfold Conn.conn_ctor in Hc.
  destruct (s_ctor ds shp dt _ b ip) as [s0|] eqn:Es; [|discriminate]. injection Hc as <-.
  destruct (s_ctor_some zeroA _ _ _ _ _ _ _ Es) as (Hb & Hdt & Hdl).
  destruct (s_ctor_spec cast promote D_eqb zeroA default_d ds shp dt _ b ip Hb Hdt Hdl) as (s0' & Es' & Hcfg0 & Hok0).
  rewrite Es in Es'. injection Es' as <-.
  set (kd := match delay with Some _ => true | None => false end).
  set (dl := match delay with Some d => d | None => zero RN end) in *.
  assert (Hk0 : conn_ok ds shp kd (conn_init kd s0)) by (split; [reflexivity|split; [reflexivity|exact Hok0]]).
  cbv zeta. set (c := fold_left (conn_apply shp) ops (conn_init kd s0)).
  repeat match goal with |- context [fold_left (conn_apply shp) ops ?x] => change (fold_left (conn_apply shp) ops x) with c end.
  (* delay and inplace are not touched by dt / batchsz assignments *)
  assert (Hns' : forallb (fun o => negb (is_syn_op RN o)) ops = true).
  { clear -Hns. induction ops as [|o ops' IH]; [reflexivity|]. cbn [forallb] in *. apply andb_true_iff in Hns as [H1 H2].
    rewrite (IH H2), andb_true_r. destruct o as [| |[| | |]|]; try discriminate; reflexivity. }
  assert (Hkeep : forall ops' (c1 : conn), forallb (dt_batch_op RN) ops' = true ->
            s_delay RN (k_syn RN (fold_left (conn_apply shp) ops' c1)) = s_delay RN (k_syn RN c1) /\
            s_inplace RN (k_syn RN (fold_left (conn_apply shp) ops' c1)) = s_inplace RN (k_syn RN c1)).
  { induction ops' as [|o ops' IH]; intros c1 Hf; cbn [fold_left forallb] in *; [auto|].
    apply andb_true_iff in Hf as [Hf1 Hf2]. destruct (IH (conn_apply shp c1 o) Hf2) as [I1 I2]. rewrite I1, I2.
    destruct o as [v|v|[v|v|v|x]|? ? ? ? ?]; try discriminate; cbn [Conn.conn_apply].
    - pose proof (syn_setter_frame cast zeroA (k_syn RN c1) (SDt RN v)) as (H1 & H2 & H3). cbn [Batch.s_apply] in *. auto.
    - pose proof (syn_setter_frame cast zeroA (k_syn RN c1) (SBatch RN v)) as (H1 & H2 & H3). cbn [Batch.s_apply] in *. auto.
    - pose proof (syn_setter_frame cast zeroA (k_syn RN c1) (SDt RN v)) as (H1 & H2 & H3). cbn [Batch.s_apply] in *. auto.
    - pose proof (syn_setter_frame cast zeroA (k_syn RN c1) (SBatch RN v)) as (H1 & H2 & H3). cbn [Batch.s_apply] in *. auto. }
  destruct (Hkeep ops (conn_init kd s0) Hns) as [Kd Ki]. fold c in Kd, Ki. cbn [Conn.conn_init k_syn] in Kd, Ki.
  destruct (conn_run_ok shp kd ops ds _ Hk0) as (ds' & (K1 & K2 & K3) & _ & Hds). fold c in K1, K2, K3. rewrite (Hds Hns') in K3.
  pose proof K3 as (nb & Hb' & Hp' & G1 & G2 & _).
  unfold s_cfg in Hcfg0. injection Hcfg0 as C1 C2 C3 C4. rewrite C2 in Kd. rewrite C4 in Ki.
  unfold Conn.conn_ctor, Conn.conn_dt, Conn.conn_batch, Conn.conn_synapse. fold dl.
  assert (Hb1 : (0 < s_batch RN (k_syn RN c))%Z) by lia. rewrite Kd in G2.
  destruct (s_ctor_spec cast promote D_eqb zeroA default_d ds shp _ dl _ ip Hb1 G1 G2) as (sf & Hsf & Hcfgf & Hokf).
  rewrite Hsf. eexists. split; [reflexivity|]. fold kd.
  unfold Conn.conn_clear, Conn.conn_init, Conn.conn_synapse. cbn [k_delayed k_syn k_stray]. rewrite K1, K2. f_equal.
  rewrite (s_clear_canon cast zeroA _ _ _ K3), (s_clear_canon cast zeroA _ _ _ Hokf).
  unfold s_cfg in Hcfgf. injection Hcfgf as -> -> -> ->. rewrite Kd, Ki. reflexivity.
Qed.

(* ------------------------------------------------------------------ the synapse setter *)
Theorem synapse_setter_reports (c : conn) (s : scomp) : conn_synapse (conn_set_syn RN c s) = s.
Proof. reflexivity. Qed.
(* before the repair the value went to another attribute: the connection kept reporting (and using) the old synapse *)
Theorem old_synapse_setter_refuted : exists (c : conn) (s : scomp),
  conn_synapse (conn_set_syn_old RN c s) <> s /\ conn_synapse (conn_set_syn_old RN c s) = conn_synapse c /\
  conn_dt (conn_set_syn_old RN c s) <> s_dt RN s.
Proof.
  exists (conn_init false (mkS RN 1%R 0%R 1%Z false [])), (mkS RN 2%R 0%R 1%Z false []).
  cbn. split; [|split; [reflexivity|]].
  - intros E. injection E as E. lra.
  - lra.
Qed.

End ConnProofs.
