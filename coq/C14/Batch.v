(* C14, batch size: what `batchsz = v` does to the batched state tensors, on top of the C13 models of
   ShapedTensor.reconstrain (C13/Shaped.v: edit of a constraint = tail-preserving shrink / zero-prepending
   grow of __make_compatible) and RecordTensor.reconstrain (C13/Resize.v: align, then the same on dim + 1).

   inferno/neural/mixins.py
     BatchMixin.add_batched (28-37):   getattr(self, a).reconstrain(0, batch_size)
     BatchMixin.batchsz setter (51-57): argtest.gt(value, 0, int); if value != batch_size:
                                          for every registered tensor: reconstrain(0, value); store value
   inferno/neural/base.py
     InfernoNeuron.batchsz setter (256-259): BatchShapeMixin.batchsz.fset(self, value); self.clear()
     InfernoSynapse: inherits BatchMixin.batchsz unchanged (NO clear); dt / delay setters (654-671):
                     DelayedMixin.<attr>.fset(self, value); self.clear()
   inferno/neural/synapses/mixins.py (CurrentMixin / SpikeMixin __init__): RecordTensor.create(self, name, self.dt,
       self.delay, torch.zeros of the batched shape, strict=True, live=False, inclusive=True); add_delayed; add_batched
   inferno/neural/neurons/mixins.py (VoltageMixin ...): ShapedTensor.create(self, name, data, strict=True,
       live=False); add_batched;   clear(): self.<x> = torch.full_like(self.<x>, fill)
   Definitions only. *)
From Coq Require Import List ZArith Bool Arith.
From Inferno Require Import Base.Num Gen.Infra C01.Ring C13.Shaped C13.Resize C14.RecordCfg.
Import ListNotations.

Section Batch.
Variable Nm : Num.
Context {A D : Type}.
Variable cast : D -> A -> A.
Variable zeroA : A.

Notation rec := (@rec Nm A D).
Notation tensor := (@tensor A D).
Notation shaped := (@shaped A D).
Notation rapply := (@rapply Nm A D zeroA).
Notation rclear := (@rclear Nm A D cast).

(* ================= a neuron's batched ShapedTensor (voltage_, refrac_, current_ ...) ================= *)
Definition full_tensor (d : D) (sh : list nat) (f : A) : tensor := mkT d sh (repeat (cast d f) (nel sh)).

(* constructor: torch.full(batchedshape, fill); ShapedTensor.create(strict, not live); add_batched *)
Definition nst_ctor (d : D) (shp : list nat) (b : Z) (f : A) : shaped + xerr :=
  match create true false false [] (DTensor (full_tensor d (Z.to_nat b :: shp) f)) with
  | inl s => match reconstrain zeroA s 0 (Some b) with
             | (s', None) => inl s'
             | (_, Some e) => inr e
             end
  | inr e => inr e
  end.
(* one registered tensor under BatchMixin.batchsz *)
Definition nst_set_batch (s : shaped) (v : Z) : shaped := fst (reconstrain zeroA s 0 (Some v)).
(* clear(): self.x = torch.full_like(self.x, fill)  (value setter of a non-live ShapedTensor) *)
Definition nst_clear (s : shaped) (f : A) : shaped :=
  match sdat s with
  | DTensor t => fst (set_value s (DTensor (full_tensor (tdt t) (tshape t) f)))
  | _ => s
  end.

(* a neuron group: batch size, and its batched tensors each with the value clear() fills it with *)
Record nstate := mkN { n_batch : Z; n_tensors : list (shaped * A) }.
Fixpoint all_inl {X E} (l : list (X + E)) : option (list X) :=
  match l with
  | [] => Some []
  | inl x :: tl => match all_inl tl with Some xs => Some (x :: xs) | None => None end
  | inr _ :: _ => None
  end.
Definition n_ctor (specs : list (D * A)) (shp : list nat) (b : Z) : option nstate :=
  if (b <=? 0)%Z then None                                  (* BatchMixin.__init__: argtest.gt *)
  else match all_inl (map (fun df => nst_ctor (fst df) shp b (snd df)) specs) with
       | Some ts => Some (mkN b (combine ts (map snd specs)))
       | None => None
       end.
Definition n_clear (n : nstate) : nstate :=
  mkN (n_batch n) (map (fun sf => (nst_clear (fst sf) (snd sf), snd sf)) (n_tensors n)).
(* InfernoNeuron.batchsz setter *)
Definition n_set_batch (n : nstate) (v : Z) : nstate :=
  if (v <=? 0)%Z then n                                     (* argtest.gt raises; clear() is not reached *)
  else n_clear (if negb (v =? n_batch n)%Z
                then mkN v (map (fun sf => (nst_set_batch (fst sf) v, snd sf)) (n_tensors n))
                else n).
Definition n_expect (b v : Z) : Z := if (v <=? 0)%Z then b else v.

(* ================= a synapse's history (spike_, current_ ...) ================= *)
(* constructor of one history: create, add_delayed (dt, duration, inclusive = True in that order), add_batched *)
Definition hist_ctor (d : D) (shp : list nat) (b : Z) (dt delay : T Nm) : rec + xerr :=
  match rcreate Nm true false false [] dt delay true
                (Some (mkT d (Z.to_nat b :: shp) (repeat zeroA (nel (Z.to_nat b :: shp))))) with
  | inl r0 =>
      let r1 := rapply (rapply (rapply r0 (RDt Nm dt)) (RDur Nm delay)) (RIncl Nm true) in
      match rreconstrain Nm zeroA r1 0 (Some b) with
      | (r2, None) => inl r2
      | (_, Some e) => inr e
      end
  | inr e => inr e
  end.
Definition hist_set_batch (r : rec) (v : Z) : rec := fst (rreconstrain Nm zeroA r 0 (Some v)).

(* a synapse WITH the contents of its histories: reported (dt, delay, batch size, inplace) and the histories *)
Record scomp := mkS { s_dt : T Nm; s_delay : T Nm; s_batch : Z; s_inplace : bool; s_hists : list rec }.
Definition s_ctor (ds : list D) (shp : list nat) (dt delay : T Nm) (b : Z) (ip : bool) : option scomp :=
  if (b <=? 0)%Z then None                                   (* argtest.gt batch_size *)
  else if negb (gtb Nm dt (zero Nm)) then None              (* argtest.gt step_time *)
  else if negb (geb Nm delay (zero Nm)) then None           (* argtest.gte delay *)
  else match all_inl (map (fun d => hist_ctor d shp b dt delay) ds) with
       | Some hs => Some (mkS dt delay b ip hs)
       | None => None
       end.
(* clear(): every history .reset(0) *)
Definition s_clear (c : scomp) : scomp :=
  mkS (s_dt c) (s_delay c) (s_batch c) (s_inplace c) (map (fun r => rclear r zeroA) (s_hists c)).
Definition s_set_dt (c : scomp) (v : T Nm) : scomp :=
  if negb (gtb Nm v (zero Nm)) then c                       (* argtest.gt raises; clear() is not reached *)
  else s_clear (if neb Nm v (s_dt c)
                then mkS v (s_delay c) (s_batch c) (s_inplace c) (map (fun r => rapply r (RDt Nm v)) (s_hists c))
                else c).
Definition s_set_delay (c : scomp) (v : T Nm) : scomp :=
  if negb (geb Nm v (zero Nm)) then c
  else s_clear (if neb Nm v (s_delay c)
                then mkS (s_dt c) v (s_batch c) (s_inplace c) (map (fun r => rapply r (RDur Nm v)) (s_hists c))
                else c).
Definition s_set_batch (c : scomp) (v : Z) : scomp :=
  if (v <=? 0)%Z then c
  else if negb (v =? s_batch c)%Z
       then mkS (s_dt c) (s_delay c) v (s_inplace c) (map (fun r => hist_set_batch r v) (s_hists c))
       else c.
Definition s_set_inplace (c : scomp) (b : bool) : scomp :=
  mkS (s_dt c) (s_delay c) (s_batch c) b (s_hists c).

Inductive s_op := SDt (v : T Nm) | SDelay (v : T Nm) | SBatch (v : Z) | SInplace (b : bool).
Definition s_apply (c : scomp) (o : s_op) : scomp :=
  match o with
  | SDt v => s_set_dt c v | SDelay v => s_set_delay c v | SBatch v => s_set_batch c v | SInplace b => s_set_inplace c b
  end.
(* the configuration the user expects: the last accepted value of each attribute *)
Definition s_expect (cfg : T Nm * T Nm * Z * bool) (o : s_op) : T Nm * T Nm * Z * bool :=
  let '(dt, dl, b, ip) := cfg in
  match o with
  | SDt v => if gtb Nm v (zero Nm) then (v, dl, b, ip) else cfg
  | SDelay v => if geb Nm v (zero Nm) then (dt, v, b, ip) else cfg
  | SBatch v => if (v <=? 0)%Z then cfg else (dt, dl, v, ip)
  | SInplace x => (dt, dl, b, x)
  end.

End Batch.
