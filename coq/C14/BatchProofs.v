(* C14, batch size (proofs): assigning the batch size reconstrains dimension 0 of every batched tensor
   (newest-kept / zero-padded by __make_compatible); after clear() the state is the one the constructor
   builds for that batch size.  Uses the C13 theorems about ShapedTensor.reconstrain ([edit_spec],
   [add_accepted]) and about records ([align0_full], [rrecon_edit], [rstep_inv]).
   Every number type; no axioms. *)
From Coq Require Import List ZArith Bool Arith Lia.
From Inferno Require Import Base.Num Gen.Infra C01.Ring C01.RingProofs C13.Shaped C13.Lists C13.ShapedProofs
  C13.Resize C13.ResizeProofs C14.RecordCfg C14.RecordCfgProofs C14.Batch.
Import ListNotations.

(* ------------------------------------------------------------------ small computations on constraints *)
Section Compat.
Context {A D : Type}.
Notation tensor := (@tensor A D).

Lemma compat_none (t : tensor) : constraints_compatible t [] true = true.
Proof.
  unfold constraints_compatible, constraint_dimensionality. cbn [map fst forallb].
  destruct (Z.ltb_spec (Z.of_nat (ndim t)) 0); [lia|reflexivity].
Qed.
Lemma compat_dim0 (d : D) b shp (fl : list A) : constraints_compatible (mkT d (b :: shp) fl) [(0%Z, b)] true = true.
Proof.
  unfold constraints_compatible, constraint_dimensionality, ndim. cbn [map fst fold_right tshape length].
  match goal with |- context [Z.ltb ?a ?b] => destruct (Z.ltb_spec a b) as [Hlt|Hge]; [lia|] end.
  cbn [forallb fst snd]. unfold pyidx. cbn [Z.leb Z.compare Z.to_nat nth]. rewrite Nat.eqb_refl. reflexivity.
Qed.
Lemma compat_dim01 (d : D) n b shp (fl : list A) :
  constraints_compatible (mkT d (n :: b :: shp) fl) [(0%Z, n); (1%Z, b)] true = true.
Proof.
  unfold constraints_compatible, constraint_dimensionality, ndim. cbn [map fst fold_right tshape length].
  match goal with |- context [Z.ltb ?a ?b] => destruct (Z.ltb_spec a b) as [Hlt|Hge]; [lia|] end.
  cbn [forallb fst snd]. unfold pyidx. cbn [Z.leb Z.compare Z.to_nat Pos.to_nat Pos.iter_op Nat.add nth].
  rewrite !Nat.eqb_refl. reflexivity.
Qed.
Lemma compat_dim0_only (d : D) n sh (fl : list A) : constraints_compatible (mkT d (n :: sh) fl) [(0%Z, n)] true = true.
Proof. apply compat_dim0. Qed.
(* a batched tensor with a positive batch size is never "ignored" *)
Lemma batched_not_ignored (d : D) b shp (fl : list A) : 0 < b -> ignore (DTensor (mkT d (b :: shp) fl)) = false.
Proof.
  intros Hb. cbn [ignore tshape ndim length]. destruct shp as [|a shp']; [|apply andb_false_r].
  cbn [nel fold_right]. destruct (Nat.eqb_spec (b * 1) 0); [lia|reflexivity].
Qed.
End Compat.

(* ================================================================== neurons: ShapedTensor state *)
Section NeuronBatch.
Context {A D : Type}.
Variable cast : D -> A -> A.
Variable zeroA : A.

Notation tensor := (@tensor A D).
Notation shaped := (@shaped A D).
Notation full_tensor := (@full_tensor A D cast).
Notation nst_ctor := (@nst_ctor A D cast zeroA).
Notation nst_set_batch := (@nst_set_batch A D zeroA).
Notation nst_clear := (@nst_clear A D cast).
Notation nstate := (@nstate A D).
Notation n_ctor := (@n_ctor A D cast zeroA).
Notation n_clear := (@n_clear A D cast).
Notation n_set_batch := (@n_set_batch A D cast zeroA).

(* a batched tensor of a neuron group with batch size b: strict, not live, a buffer, its only constraint
   is the batch size on dimension 0, and it holds a tensor of shape (b, *shape) *)
Definition nst_ok (d : D) (shp : list nat) (b : nat) (s : shaped) : Prop :=
  0 < b /\ sstrict s = true /\ slive s = false /\ sparam s = false /\ scons s = [(0%Z, b)] /\
  exists fl, sdat s = DTensor (mkT d (b :: shp) fl).
(* the state the constructor builds: that tensor, full of the fill value *)
Definition nst_canon (d : D) (shp : list nat) (b : nat) (f : A) : shaped :=
  mkShaped true false false [(0%Z, b)] (DTensor (full_tensor d (b :: shp) f)).

Lemma nst_canon_ok d shp b f : 0 < b -> nst_ok d shp b (nst_canon d shp b f).
Proof. intros Hb. repeat split; auto. eexists. reflexivity. Qed.

Lemma nst_clear_canon d shp b s f : nst_ok d shp b s -> nst_clear s f = nst_canon d shp b f.
Proof.
  intros (Hb & H1 & H2 & H3 & H4 & fl & H5). destruct s as [st lv pm c dat]. cbn in *. subst.
  unfold Batch.nst_clear, set_value, set_dat. cbn. reflexivity.
Qed.

Lemma nst_ctor_canon d shp b f : (0 < b)%Z -> nst_ctor d shp b f = inl (nst_canon d shp (Z.to_nat b) f).
Proof.
  intros Hb. unfold Batch.nst_ctor, create.
  assert (Hioc : ignore_or_compatible (DTensor (full_tensor d (Z.to_nat b :: shp) f)) [] true = true).
  { unfold ignore_or_compatible. rewrite compat_none. apply orb_true_r. }
  rewrite Hioc.
  set (s := mkShaped true false false [] (DTensor (full_tensor d (Z.to_nat b :: shp) f))).
  assert (Hadd : reconstrain zeroA s 0 (Some b) = (set_cons s (dict_set (scons s) 0 (Z.to_nat b)), None)).
  { apply add_accepted; [reflexivity|lia|exact Hioc|]. cbn [sdat s]. right. apply compatible_spec.
    cbn [scons s dict_set sstrict]. apply compat_dim0. }
  rewrite Hadd. reflexivity.
Qed.

Lemma nst_set_batch_ok d shp b s v : nst_ok d shp b s -> (0 < v)%Z -> nst_ok d shp (Z.to_nat v) (nst_set_batch s v).
Proof.
  intros (Hb & H1 & H2 & H3 & H4 & fl & H5) Hv.
  set (t := mkT d (b :: shp) fl) in *.
  assert (Hi : ignore (sdat s) = false) by (rewrite H5; apply batched_not_ignored; exact Hb).
  assert (Hval : valid s = true).
  { unfold valid. rewrite H5, H4, H1. unfold ignore_or_compatible. unfold t. rewrite compat_dim0. apply orb_true_r. }
  assert (Hw : wfc s) by (unfold wfc; rewrite H4; cbn; constructor; [intros []|constructor]).
  assert (Hl : lookup (scons s) 0 = Some b) by (rewrite H4; reflexivity).
  destruct (edit_spec zeroA s t 0 v b Hw Hl ltac:(lia) H5 Hi Hval) as [Hok _]. cbv zeta in Hok.
  rewrite H4 in Hok. cbn [dict_set Z.eqb] in Hok.
  assert (Hp : pairwise_consistent (ndim t) [(0%Z, Z.to_nat v)]).
  { intros d1 s1 d2 s2 [E1|[]] [E2|[]] _. congruence. }
  destruct (Hok Hp) as [Hr _].
  unfold Batch.nst_set_batch. rewrite Hr. cbn [fst].
  split; [lia|]. cbn [sstrict slive sparam scons sdat]. do 4 (split; [auto|]).
  pose proof (make_compatible_shape zeroA t 0 (Z.to_nat v)) as Hs. pose proof (make_compatible_dt zeroA t 0 (Z.to_nat v)) as Hd.
  destruct (make_compatible zeroA t 0 (Z.to_nat v)) as [d' sh' fl']. cbn [tshape tdt] in Hs, Hd. subst d'.
  exists fl'. do 2 f_equal. rewrite Hs. unfold t, ndim, pyidx. cbn [tshape length Z.leb Z.compare Z.to_nat nth upd].
  destruct (Nat.eqb_spec b (Z.to_nat v)); [subst; reflexivity|reflexivity].
Qed.

(* ------------------------------------------------------------------ the neuron group *)
Definition n_ok (specs : list (D * A)) (shp : list nat) (b : nat) (n : nstate) : Prop :=
  n_batch n = Z.of_nat b /\ 0 < b /\
  Forall2 (fun df sf => nst_ok (fst df) shp b (fst sf) /\ snd sf = snd df) specs (n_tensors n).
Definition n_canon (specs : list (D * A)) (shp : list nat) (b : nat) : nstate :=
  mkN (Z.of_nat b) (map (fun df => (nst_canon (fst df) shp b (snd df), snd df)) specs).

Lemma n_canon_ok specs shp b : 0 < b -> n_ok specs shp b (n_canon specs shp b).
Proof.
  intros Hb. split; [reflexivity|]. split; [exact Hb|]. cbn [n_tensors n_canon].
  induction specs as [|df tl IH]; cbn [map]; [constructor|]. constructor; [|exact IH]. split; [apply nst_canon_ok; exact Hb|reflexivity].
Qed.
Lemma n_clear_canon specs shp b n : n_ok specs shp b n -> n_clear n = n_canon specs shp b.
Proof.
  intros (Hb & Hp & Hf). unfold Batch.n_clear, n_canon. rewrite Hb. f_equal.
  induction Hf as [|df sf tl1 tl2 [Hok Hs] _ IH]; [reflexivity|]. cbn [map]. f_equal; [|exact IH].
  rewrite (nst_clear_canon _ _ _ _ _ Hok), Hs. reflexivity.
Qed.
Lemma n_ctor_canon specs shp b : (0 < b)%Z -> n_ctor specs shp b = Some (n_canon specs shp (Z.to_nat b)).
Proof.
  intros Hb. unfold Batch.n_ctor. destruct (Z.leb_spec b 0); [lia|].
  assert (E : all_inl (map (fun df => nst_ctor (fst df) shp b (snd df)) specs) =
              Some (map (fun df => nst_canon (fst df) shp (Z.to_nat b) (snd df)) specs)).
  { induction specs as [|df tl IH]; [reflexivity|]. cbn [map all_inl]. rewrite (nst_ctor_canon _ _ _ _ Hb), IH. reflexivity. }
  rewrite E. unfold n_canon. rewrite Z2Nat.id by lia. do 2 f_equal.
  clear. induction specs as [|df tl IH]; [reflexivity|]. cbn [map combine]. f_equal. exact IH.
Qed.
Lemma n_set_batch_ok specs shp b n v : n_ok specs shp b n ->
  n_ok specs shp (Z.to_nat (n_expect (Z.of_nat b) v)) (n_set_batch n v).
Proof.
  intros Hok. pose proof Hok as (Hb & Hp & Hf). unfold Batch.n_set_batch, n_expect.
  destruct (Z.leb_spec v 0) as [Hv|Hv]; [rewrite Nat2Z.id; exact Hok|].
  rewrite Hb. destruct (Z.eqb_spec v (Z.of_nat b)) as [E|E]; cbn [negb].
  - rewrite E, Nat2Z.id. rewrite (n_clear_canon _ _ _ _ Hok). apply n_canon_ok; exact Hp.
  - assert (Hok' : n_ok specs shp (Z.to_nat v) (mkN v (map (fun sf => (nst_set_batch (fst sf) v, snd sf)) (n_tensors n)))).
    { split; [cbn; lia|]. split; [lia|]. cbn [n_tensors].
      clear Hok. induction Hf as [|df sf tl1 tl2 [H1 H2] _ IH]; cbn [map]; [constructor|]. constructor; [|exact IH].
      cbn [fst snd]. split; [apply (nst_set_batch_ok _ _ b); assumption|exact H2]. }
    rewrite (n_clear_canon _ _ _ _ Hok'). apply n_canon_ok. lia.
Qed.

(* MAIN (neurons): from any state of a neuron group (whatever its tensors hold), any sequence of batch-size
   assignments followed by clear() gives exactly the state the constructor builds for the last accepted
   batch size. *)
Theorem neuron_batch_clear_eq_ctor specs shp b n (vs : list Z) : n_ok specs shp b n ->
  n_ctor specs shp (fold_left n_expect vs (Z.of_nat b)) = Some (n_clear (fold_left n_set_batch vs n)).
Proof.
  revert b n. induction vs as [|v vs IH]; intros b n Hok; cbn [fold_left].
  - rewrite (n_clear_canon _ _ _ _ Hok). destruct Hok as (_ & Hp & _).
    rewrite n_ctor_canon by lia. rewrite Nat2Z.id. reflexivity.
  - pose proof (n_set_batch_ok specs shp b n v Hok) as Hok'.
    specialize (IH _ _ Hok'). rewrite Z2Nat.id in IH; [exact IH|].
    unfold n_expect. destruct (Z.leb_spec v 0); lia.
Qed.
(* the constructor establishes the invariant *)
Theorem n_ctor_ok specs shp b n : n_ctor specs shp b = Some n -> n_ok specs shp (Z.to_nat b) n.
Proof.
  intros H. assert (Hb : (0 < b)%Z) by (unfold Batch.n_ctor in H; destruct (Z.leb_spec b 0); [discriminate|lia]).
  rewrite n_ctor_canon in H by exact Hb. injection H as <-. apply n_canon_ok. lia.
Qed.

End NeuronBatch.

(* ================================================================== synapses: one history (RecordTensor) *)
Section HistBatch.
Variable Nm : Num.
Context {A D : Type}.
Variable cast : D -> A -> A.
Variable promote : D -> D -> D.
Variable D_eqb : D -> D -> bool.
Variable zeroA : A.
Variable default_d : D.

Notation rec := (@rec Nm A D).
Notation rg := (@rg Nm A D).
Notation rcons := (@rcons Nm A D).
Notation rstrict := (@rstrict Nm A D).
Notation rlive := (@rlive Nm A D).
Notation rparam := (@rparam Nm A D).
Notation rdt := (@rdt Nm A D).
Notation rdur := (@rdur Nm A D).
Notation rincl := (@rincl Nm A D).
Notation Inv := (@Inv Nm A D).
Notation rwf := (@rwf Nm A D).
Notation rvalid := (@rvalid Nm A D).
Notation no_alias0 := (@no_alias0 Nm A D).
Notation rapply := (@rapply Nm A D zeroA).
Notation rclear := (@rclear Nm A D cast).
Notation cfg_of := (@cfg_of Nm A D).
Notation hist_ctor := (@hist_ctor Nm A D zeroA).
Notation hist_set_batch := (@hist_set_batch Nm A D zeroA).
Notation rstep := (@rstep Nm A D cast promote D_eqb zeroA default_d).

(* a history of a synapse with step time dt, maximum delay [delay] and batch size b: a reachable record
   (C13 invariant), strict, not live, a buffer, its only constraint is the batch size on dimension 0 of an
   observation (key 1 of the storage), inclusive duration = the delay, observations of shape (b, *shape) *)
Definition hist_ok (d : D) (shp : list nat) (dt delay : T Nm) (b : nat) (r : rec) : Prop :=
  Inv r /\ 0 < b /\ rstrict r = true /\ rlive r = false /\ rparam r = false /\ rcons r = [(1%Z, b)] /\
  cfg_of r = (dt, delay, true) /\ exists rows, st (rg r) = SFull d (b :: shp) rows.
(* the history the constructor builds, filled with f *)
Definition hist_canon (d : D) (shp : list nat) (dt delay : T Nm) (b : nat) (f : A) : rec :=
  let n := Z.to_nat (recordsz_expr Nm delay dt true) in
  mkRec Nm (mkRing n 0 (SFull d (b :: shp) (repeat (repeat (cast d f) (nel (b :: shp))) n)))
        true false false [(1%Z, b)] dt delay true.

Lemma rclear_is_step (r : rec) f : rclear r f = fst (fst (rstep r (RRing Nm (OpReset (Some f))))).
Proof. unfold RecordCfg.rclear, Resize.rstep, step. destruct (reset cast (rg r) (Some f)); reflexivity. Qed.
Lemma rclear_inv (r : rec) f : Inv r -> Inv (rclear r f).
Proof. intros HI. rewrite rclear_is_step. apply rstep_inv; [exact HI|exact I]. Qed.

Lemma hist_clear_canon d shp dt delay b r f : hist_ok d shp dt delay b r -> rclear r f = hist_canon d shp dt delay b f.
Proof.
  intros (HI & Hb & H1 & H2 & H3 & H4 & H5 & rows & Es).
  destruct HI as ((Hw & Hu & _) & _ & _ & _ & Hsz). pose proof Hw as (_ & _ & Hl).
  unfold rows_uniform in Hu. rewrite Es in Hu, Hl.
  rewrite (rclear_full Nm cast r _ _ _ f Es Hu Hl). unfold set_rg, hist_canon. rewrite H1, H2, H3, H4.
  unfold RecordCfgProofs.cfg_of in H5. injection H5 as E1 E2 E3.
  rewrite Hsz. unfold rsize. rewrite E1, E2, E3. reflexivity.
Qed.

Lemma hist_clear_ok d shp dt delay b r f : hist_ok d shp dt delay b r -> hist_ok d shp dt delay b (rclear r f).
Proof.
  intros Hok. pose proof Hok as (HI & Hb & H1 & H2 & H3 & H4 & H5 & rows & Es).
  split; [apply rclear_inv; exact HI|]. rewrite (hist_clear_canon _ _ _ _ _ _ f Hok).
  split; [exact Hb|]. unfold hist_canon. cbn. repeat split. eexists; reflexivity.
Qed.

Lemma skind_full (r r' : rec) d sh rows : @skind_of Nm A D r' = @skind_of Nm A D r -> st (rg r) = SFull d sh rows ->
  exists rows', st (rg r') = SFull d sh rows'.
Proof.
  unfold skind_of. intros Hk Es. rewrite Es in Hk. destruct (st (rg r')) as [| |d' sh' rows']; try discriminate.
  injection Hk as -> ->. eauto.
Qed.

(* the temporal assignments forwarded by DelayedMixin keep a history a history *)
Lemma hist_apply_ok d shp dt delay b r (s : rset Nm) : hist_ok d shp dt delay b r ->
  let '(dt', dl', incl') := rexpect Nm (dt, delay, true) s in
  incl' = true -> hist_ok d shp dt' dl' b (rapply r s).
Proof.
  intros (HI & Hb & H1 & H2 & H3 & H4 & H5 & rows & Es).
  destruct (rapply_spec Nm cast promote D_eqb zeroA default_d r s HI) as (HI' & Hc & (F1 & F2 & F3 & F4 & F5)).
  rewrite H5 in Hc. destruct (rexpect Nm (dt, delay, true) s) as [[dt' dl'] incl']. intros ->.
  split; [exact HI'|]. split; [exact Hb|]. split; [congruence|]. split; [congruence|]. split; [congruence|].
  split; [congruence|]. split; [exact Hc|]. eapply skind_full; eauto.
Qed.

(* ------------------------------------------------------------------ alignment keeps the invariant's ingredients *)
Lemma aligned (r : rec) d sh rws : rwf r -> rvalid r = true -> no_alias0 r -> st (rg r) = SFull d sh rws ->
  exists rws1, @rignored Nm A D r = false /\
    align0 Nm r = inl (set_rg Nm r (mkRing (N (rg r)) 0 (SFull d sh rws1))) /\
    rwf (set_rg Nm r (mkRing (N (rg r)) 0 (SFull d sh rws1))) /\
    rvalid (set_rg Nm r (mkRing (N (rg r)) 0 (SFull d sh rws1))) = true /\
    no_alias0 (set_rg Nm r (mkRing (N (rg r)) 0 (SFull d sh rws1))) /\ length rws1 = N (rg r).
Proof.
  intros Hwf Hv Hna Es. pose proof Hwf as (Hw & Hu & Hnd & Hp0).
  destruct (align0_full Nm cast promote D_eqb zeroA default_d r d sh rws Hwf Es) as (rws1 & Ha & Hl1 & Hu1 & _).
  exists rws1. split.
  { unfold Resize.rignored. apply (full_not_ignored cast promote D_eqb zeroA (rg r) d sh rws Hw Es). }
  split; [exact Ha|].
  set (g1 := mkRing (N (rg r)) 0 (SFull d sh rws1)).
  assert (Hw1 : wf g1) by (unfold wf, g1; cbn [N ptr st]; destruct Hw as (Hn & _); auto).
  split; [|split; [|split; [|exact Hl1]]].
  - split; [exact Hw1|]. split; [exact Hu1|]. split; [exact Hnd|]. intros _. reflexivity.
  - rewrite (rvalid_full Nm (set_rg Nm r g1) d sh rws1 eq_refl). rewrite (rvalid_full Nm r d sh rws Es) in Hv.
    rewrite <- Hv. apply ioc_shape. cbn [tshape]. destruct Hw as (_ & _ & Hl). rewrite Es in Hl. congruence.
  - unfold ResizeProofs.no_alias0 in *. cbn [Resize.rg Resize.set_rg g1 st Resize.rcons]. rewrite Es in Hna. exact Hna.
Qed.

(* ------------------------------------------------------------------ BatchMixin.batchsz on one history *)
Lemma hist_set_batch_ok d shp dt delay b r v : hist_ok d shp dt delay b r -> (0 < v)%Z ->
  hist_ok d shp dt delay (Z.to_nat v) (hist_set_batch r v).
Proof.
  intros (HI & Hb & H1 & H2 & H3 & H4 & H5 & rows & Es) Hv.
  (* the invariant, from C13 *)
  assert (HI' : Inv (hist_set_batch r v)).
  { change (hist_set_batch r v) with (fst (fst (rstep r (RRecon Nm 0 (Some v))))). apply rstep_inv; [exact HI|].
    left. exact H1. }
  pose proof HI as (Hwf & Hval & Hna & _).
  destruct (aligned r _ _ _ Hwf Hval Hna Es) as (rws1 & Hig & Ha & Hwf1 & Hv1 & Hna1 & Hl1).
  set (r1 := set_rg Nm r (mkRing (N (rg r)) 0 (SFull d (b :: shp) rws1))) in *.
  set (t := mkT d (length rws1 :: b :: shp) (concat rws1)).
  assert (Hd : sdat (to_shaped Nm r1) = DTensor t) by reflexivity.
  assert (Hi : ignore (sdat (to_shaped Nm r1)) = false) by (rewrite Hd; cbn [ignore tshape ndim length t]; apply andb_false_r).
  assert (Hw : wfc (to_shaped Nm r1)) by (destruct Hwf1 as (_ & _ & Hnd & _); exact Hnd).
  assert (Hsc : scons (to_shaped Nm r1) = (0%Z, N (rg r)) :: rcons r) by reflexivity.
  assert (Hl : lookup (scons (to_shaped Nm r1)) 1 = Some b) by (rewrite Hsc, H4; reflexivity).
  destruct (edit_spec zeroA (to_shaped Nm r1) t 1 v b Hw Hl ltac:(lia) Hd Hi Hv1) as [Hok _]. cbv zeta in Hok.
  assert (Hc' : dict_set (scons (to_shaped Nm r1)) 1 (Z.to_nat v) = [(0%Z, N (rg r)); (1%Z, Z.to_nat v)]).
  { rewrite Hsc, H4. reflexivity. }
  rewrite Hc' in Hok.
  assert (Hp : pairwise_consistent (ndim t) [(0%Z, N (rg r)); (1%Z, Z.to_nat v)]).
  { intros d1 s1 d2 s2 [E1|[E1|[]]] [E2|[E2|[]]]; injection E1 as <- <-; injection E2 as <- <-; auto;
      unfold pyidx, ndim; cbn; discriminate. }
  destruct (Hok Hp) as [Hr _].
  assert (Hin1 : In 1%Z (keys (Resize.rcons Nm r1))) by (cbn [Resize.rcons r1 set_rg]; rewrite H4; left; reflexivity).
  destruct (rrecon_edit Nm cast promote D_eqb zeroA r1 d (b :: shp) rws1 1%Z (Z.to_nat v) Hwf1 Hv1 Hna1 eq_refl ltac:(lia) Hin1)
    as (j & Hpj & Hj & Hof & Hu').
  assert (j = 0) as -> by (unfold pyidx in Hpj; cbn in Hpj; lia).
  (* the call *)
  assert (Hcall : hist_set_batch r v =
            mkRec Nm (mkRing (N (rg r)) 0 (SFull d (Z.to_nat v :: shp) (map (fun row => resize_dim zeroA (b :: shp) row 0 (Z.to_nat v)) rws1)))
                  (rstrict r) (rlive r) (rparam r) [(1%Z, Z.to_nat v)] (rdt r) (rdur r) (rincl r)).
  { unfold Batch.hist_set_batch, rreconstrain. rewrite Hig, Ha. fold r1.
    change (0 + (if (0 <=? 0)%Z then 1 else 0))%Z with 1%Z. rewrite Hr. cbn [fst].
    assert (Eall : dict_set (all_cons Nm r1) 1 (Z.to_nat v) = [(0%Z, N (rg r)); (1%Z, Z.to_nat v)]) by exact Hc'.
    rewrite Eall in Hof.
    change (sstrict (to_shaped Nm r1)) with (Resize.rstrict Nm r1). change (slive (to_shaped Nm r1)) with (Resize.rlive Nm r1).
    change (sparam (to_shaped Nm r1)) with (Resize.rparam Nm r1). fold t in Hof. rewrite Hof.
    cbn [Resize.rg Resize.rcons Resize.rstrict Resize.rlive Resize.rparam Resize.rdt Resize.rdur Resize.rincl r1 set_rg N ptr upd].
    rewrite H4. reflexivity. }
  split; [exact HI'|]. rewrite Hcall. split; [lia|].
  cbn [Resize.rg Resize.rcons Resize.rstrict Resize.rlive Resize.rparam st RecordCfgProofs.cfg_of Resize.rdt Resize.rdur Resize.rincl].
  do 4 (split; [auto|]). split; [exact H5|]. eexists; reflexivity.
Qed.

(* ------------------------------------------------------------------ add_batched on a fresh history *)
Lemma hist_add_batch d shp nb (r : rec) : Inv r -> rstrict r = true -> rcons r = [] ->
  (exists rows, st (rg r) = SFull d (nb :: shp) rows) ->
  exists rows', rreconstrain Nm zeroA r 0 (Some (Z.of_nat nb)) =
    (mkRec Nm (mkRing (N (rg r)) 0 (SFull d (nb :: shp) rows')) (rstrict r) (rlive r) (rparam r) [(1%Z, nb)] (rdt r) (rdur r) (rincl r), None).
Proof.
  intros HI H1 H4 (rows & Es). pose proof HI as (Hwf & Hval & Hna & _).
  destruct (aligned r _ _ _ Hwf Hval Hna Es) as (rws1 & Hig & Ha & Hwf1 & Hv1 & Hna1 & Hl1).
  set (r1 := set_rg Nm r (mkRing (N (rg r)) 0 (SFull d (nb :: shp) rws1))) in *.
  exists rws1. unfold rreconstrain. rewrite Hig, Ha. fold r1.
  change (0 + (if (0 <=? 0)%Z then 1 else 0))%Z with 1%Z.
  assert (Hsc : scons (to_shaped Nm r1) = [(0%Z, N (rg r))]).
  { change (scons (to_shaped Nm r1)) with ((0%Z, N (rg r)) :: rcons r). rewrite H4. reflexivity. }
  assert (Hadd : reconstrain zeroA (to_shaped Nm r1) 1 (Some (Z.of_nat nb)) =
            (set_cons (to_shaped Nm r1) (dict_set (scons (to_shaped Nm r1)) 1 (Z.to_nat (Z.of_nat nb))), None)).
  { apply add_accepted; [rewrite Hsc; reflexivity|lia|exact Hv1|].
    change (sdat (to_shaped Nm r1)) with (DTensor (mkT d (length rws1 :: nb :: shp) (concat rws1))).
    right. apply compatible_spec. rewrite Hsc, Nat2Z.id. cbn [dict_set Z.eqb sstrict to_shaped r1 set_rg Resize.rstrict].
    rewrite H1, Hl1. apply compat_dim01. }
  rewrite Hadd, Hsc, Nat2Z.id. cbn [dict_set Z.eqb fst].
  change (N (rg r)) with (N (Resize.rg Nm r1)) at 1.
  rewrite (of_shaped_set_cons Nm cast promote D_eqb zeroA r1 [(1%Z, nb)] Hwf1). reflexivity.
Qed.

(* ------------------------------------------------------------------ the constructor of a history *)
Lemma hist_ctor_ok d shp (b : Z) dt delay : (0 < b)%Z -> gtb Nm dt (zero Nm) = true -> geb Nm delay (zero Nm) = true ->
  exists r, hist_ctor d shp b dt delay = inl r /\ hist_ok d shp dt delay (Z.to_nat b) r.
Proof.
  intros Hb Hdt Hdl. unfold Batch.hist_ctor.
  set (nb := Z.to_nat b). set (t0 := mkT d (nb :: shp) (repeat zeroA (nel (nb :: shp)))).
  assert (Hnb : 0 < nb) by (unfold nb; lia).
  assert (Hni : ignore (DTensor t0) = false) by (apply batched_not_ignored; exact Hnb).
  (* creation *)
  assert (Hc : exists r0, rcreate Nm true false false [] dt delay true (Some t0) = inl r0 /\
             rstrict r0 = true /\ rlive r0 = false /\ rparam r0 = false /\ rcons r0 = [] /\ cfg_of r0 = (dt, delay, true) /\
             exists rows, st (rg r0) = SFull d (nb :: shp) rows).
  { unfold rcreate. rewrite Hdt, Hdl, Hni. cbn [negb]. cbn [data_of]. rewrite repeat_length.
    assert (Hioc : forall rws : list A, ignore_or_compatible (DTensor (mkT (tdt t0) (Z.to_nat (recordsz_expr Nm delay dt true) :: tshape t0) rws))
                      [(0%Z, Z.to_nat (recordsz_expr Nm delay dt true))] true = true).
    { intros rws. unfold ignore_or_compatible. rewrite compat_dim0. apply orb_true_r. }
    unfold all_cons. cbn [Resize.rg Resize.rcons N shift_cons map]. rewrite Hioc.
    eexists. split; [reflexivity|]. cbn. repeat split. eexists; reflexivity. }
  destruct Hc as (r0 & Hr0 & G1 & G2 & G3 & G4 & G5 & rows0 & Es0). rewrite Hr0.
  assert (HI0 : Inv r0).
  { apply (rcreate_inv Nm cast promote D_eqb zeroA default_d _ _ _ _ _ _ _ _ _ Hr0); [constructor|apply repeat_length|left; reflexivity]. }
  (* add_delayed: three assignments of the values the record already has *)
  destruct (rrun_spec Nm cast promote D_eqb zeroA default_d [RDt Nm dt; RDur Nm delay; RIncl Nm true] r0 HI0)
    as (HI1 & Hc1 & (F1 & F2 & F3 & F4 & F5)). cbv zeta in *. cbn [fold_left] in HI1, Hc1, F1, F2, F3, F4, F5.
  set (r1 := rapply (rapply (rapply r0 (RDt Nm dt)) (RDur Nm delay)) (RIncl Nm true)) in *.
  rewrite G5 in Hc1. cbn [rexpect] in Hc1. rewrite Hdt in Hc1. cbn [rexpect] in Hc1. rewrite Hdl in Hc1. cbn [rexpect] in Hc1.
  destruct (skind_full r0 r1 _ _ _ F5 Es0) as (rows1 & Es1).
  (* add_batched *)
  destruct (hist_add_batch d shp nb r1 HI1 ltac:(congruence) ltac:(congruence) (ex_intro _ rows1 Es1)) as (rows2 & Hr2).
  replace (Z.of_nat nb) with b in Hr2 by (unfold nb; lia). rewrite Hr2.
  eexists. split; [reflexivity|].
  split.
  { assert (E : forall x, x = fst (rreconstrain Nm zeroA r1 0 (Some b)) -> Inv x).
    { intros x ->. change (fst (rreconstrain Nm zeroA r1 0 (Some b))) with (fst (fst (rstep r1 (RRecon Nm 0 (Some b))))).
      apply rstep_inv; [exact HI1|]. left. congruence. }
    apply E. rewrite Hr2. reflexivity. }
  split; [exact Hnb|].
  cbn [Resize.rg Resize.rcons Resize.rstrict Resize.rlive Resize.rparam st RecordCfgProofs.cfg_of Resize.rdt Resize.rdur Resize.rincl].
  split; [congruence|]. split; [congruence|]. split; [congruence|]. split; [reflexivity|]. split; [exact Hc1|]. eexists; reflexivity.
Qed.

(* MAIN (one history): from any state of a history, a batch-size assignment followed by reset gives exactly the
   reset state of the history the constructor builds for that batch size (same shape (b, *shape), same number of
   slots, same constraint, zero contents). *)
Theorem hist_batch_clear_eq_ctor d shp dt delay b r v f : hist_ok d shp dt delay b r -> (0 < v)%Z ->
  exists rf, hist_ctor d shp v dt delay = inl rf /\ rclear (hist_set_batch r v) f = rclear rf f.
Proof.
  intros Hok Hv. pose proof Hok as (HI & _ & _ & _ & _ & _ & H5 & _). destruct HI as (_ & _ & _ & (Ht1 & Ht2) & _).
  unfold RecordCfgProofs.cfg_of in H5. injection H5 as E1 E2 E3. rewrite E1 in Ht1. rewrite E2 in Ht2.
  destruct (hist_ctor_ok d shp v dt delay Hv Ht1 Ht2) as (rf & Hrf & Hokf).
  exists rf. split; [exact Hrf|].
  rewrite (hist_clear_canon _ _ _ _ _ _ f (hist_set_batch_ok _ _ _ _ _ _ _ Hok Hv)).
  rewrite (hist_clear_canon _ _ _ _ _ _ f Hokf). reflexivity.
Qed.

End HistBatch.
