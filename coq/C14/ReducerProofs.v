(* C14, reducer level (proofs, real-number reading): whatever sequence of dt / duration / inplace assignments,
   observations and clears a reducer goes through, clearing it gives EXACTLY the reducer the constructor builds
   for the resulting configuration (reported values, decay, record size and configuration, empty storage,
   pointer, initial flag); the frame; the pre-repair duration setter refuted. *)
From Coq Require Import List ZArith Bool Arith Lia Reals Lra.
From Inferno Require Import Base.Num Base.NumR Gen.Infra C01.Ring C01.RingProofs C13.Shaped C13.Lists C13.ShapedProofs
  C13.Resize C13.ResizeProofs C14.RecordCfg C14.RecordCfgProofs C14.Batch C14.BatchProofs C14.SynProofs C14.Reducer.
Import ListNotations.
Open Scope nat_scope.

Section RingDtype.
Context {A D : Type}.
Variable cast : D -> A -> A.
Variable zeroA : A.
Definition dtype_of (x : @storage A D) : option D :=
  match x with SNone => None | SEmpty d => Some d | SFull d _ _ => Some d end.
(* a push never changes the data type of existing (possibly empty) storage *)
Lemma push_dtype (g g' : @ring A D) o ip out : push cast zeroA g o ip = Ok g' out -> st g <> SNone ->
  dtype_of (st g') = dtype_of (st g).
Proof.
  unfold push, initialize, write, incr. intros H Hn.
  destruct (st g) as [| |d sh rows] eqn:Es; [congruence| |]; cbn [st N ptr] in H.
  - destruct (negb (shape_eqb (oshape o) (oshape o))); [discriminate|].
    destruct ip; cbn [set_st st N ptr set_ptr] in H; injection H as <- _; reflexivity.
  - rewrite Es in H. destruct (negb (shape_eqb (oshape o) sh)); [discriminate|].
    destruct ip; cbn [set_st st N ptr set_ptr] in H; injection H as <- _; reflexivity.
Qed.
End RingDtype.

Section ReducerProofs.
Context {A D : Type}.
Variable cast : D -> A -> A.
Variable promote : D -> D -> D.
Variable D_eqb : D -> D -> bool.
Variable zeroA : A.
Variable default_d : D.

Notation rec := (@rec RN A D).
Notation rg := (@rg RN A D).
Notation Inv := (@Inv RN A D).
Notation red := (@red RN A D).
Notation red_op := (@red_op RN A D).
Notation red_ctor := (@red_ctor RN A D zeroA default_d).
Notation red_apply := (@red_apply RN A D cast promote D_eqb zeroA default_d).
Notation red_clear := (@red_clear RN A D cast zeroA default_d).
Notation red_set_dt := (@red_set_dt RN A D zeroA).
Notation red_set_dur := (@red_set_dur RN A D zeroA).
Notation red_set_dur_old := (@red_set_dur_old RN A D zeroA).
Notation red_observe := (@red_observe RN A D cast promote D_eqb zeroA default_d).
Notation red_expect := (@red_expect RN A D).
Notation rapply := (@rapply RN A D zeroA).
Notation rclear := (@rclear RN A D cast).
Notation cfg_of := (@cfg_of RN A D).
Notation rstep := (@rstep RN A D cast promote D_eqb zeroA default_d).

Definition red_cfg (R : red) : T RN * T RN * bool := (d_dt RN R, d_dur RN R, d_inplace RN R).

(* the record agrees with the reducer's reported configuration, keeps the data type of the empty tensor it was
   created with, and the decay matches the reported step time *)
Definition red_ok (R : red) : Prop :=
  let r := d_rec RN R in
  Inv r /\ rstrict RN r = true /\ rlive RN r = false /\ rparam RN r = false /\ rcons RN r = [] /\
  cfg_of r = (d_dt RN R, d_dur RN R, d_incl RN R) /\ dtype_of (st (rg r)) = Some default_d /\
  d_decay RN R = decay_of RN (d_dt RN R) (d_tc RN R) /\ gtb RN (d_tc RN R) (zero RN) = true.
(* the reducer the constructor builds *)
Definition red_canon (dt dur : T RN) (incl ip : bool) (tc : T RN) : red :=
  mkRed RN dt dur incl ip tc (decay_of RN dt tc) true
        (mkRec RN (mkRing (Z.to_nat (recordsz_expr RN dur dt incl)) 0 (SEmpty default_d)) true false false [] dt dur incl).

Lemma canon_rec_created dt dur incl : gtb RN dt (zero RN) = true -> geb RN dur (zero RN) = true ->
  rcreate RN true false false [] dt dur incl (Some (mkT default_d [0] ([] : list A))) =
  inl (mkRec RN (mkRing (Z.to_nat (recordsz_expr RN dur dt incl)) 0 (SEmpty default_d)) true false false [] dt dur incl).
Proof. intros H1 H2. unfold rcreate. rewrite H1, H2. reflexivity. Qed.

Lemma canon_rec_inv dt dur incl : gtb RN dt (zero RN) = true -> geb RN dur (zero RN) = true ->
  Inv (mkRec RN (mkRing (Z.to_nat (recordsz_expr RN dur dt incl)) 0 (SEmpty default_d)) true false false [] dt dur incl).
Proof.
  intros H1 H2. apply (rcreate_inv RN cast promote D_eqb zeroA default_d _ _ _ _ _ _ _ _ _ (canon_rec_created dt dur incl H1 H2));
    [constructor|reflexivity|left; reflexivity].
Qed.

(* assigning to a fresh record the values it already has changes nothing *)
Lemma rapply_same (r : rec) : Inv r ->
  rapply (rapply (rapply r (RDt RN (rdt RN r))) (RDur RN (rdur RN r))) (RIncl RN (rincl RN r)) = r.
Proof.
  intros (_ & _ & _ & (Ht1 & Ht2) & Hsz). destruct r as [g s l p c dt dur incl]. cbn [Resize.rdt Resize.rdur Resize.rincl Resize.rg] in *.
  unfold rsize in Hsz. cbn [Resize.rdt Resize.rdur Resize.rincl] in Hsz.
  assert (Hrs : resize_record RN zeroA (mkRec RN g s l p c dt dur incl) = (mkRec RN g s l p c dt dur incl, None)).
  { unfold resize_record. cbn [Resize.rdt Resize.rdur Resize.rincl Resize.rg]. rewrite <- Hsz, Nat.eqb_refl. reflexivity. }
  unfold RecordCfg.rapply at 3. unfold set_dt. rewrite Ht1. cbn [negb Resize.rg Resize.rstrict Resize.rlive Resize.rparam Resize.rcons Resize.rdur Resize.rincl].
  rewrite Hrs. cbn [fst].
  unfold RecordCfg.rapply at 2. unfold set_duration. rewrite Ht2. cbn [negb Resize.rg Resize.rstrict Resize.rlive Resize.rparam Resize.rcons Resize.rdt Resize.rincl].
  rewrite Hrs. cbn [fst].
  unfold RecordCfg.rapply, set_inclusive, set_duration. cbn [Resize.rg Resize.rstrict Resize.rlive Resize.rparam Resize.rcons Resize.rdt Resize.rdur Resize.rincl].
  rewrite Ht2. cbn [negb]. rewrite Hrs. reflexivity.
Qed.

Lemma red_ctor_canon dt dur incl ip tc : gtb RN dt (zero RN) = true -> geb RN dur (zero RN) = true -> gtb RN tc (zero RN) = true ->
  red_ctor dt dur incl ip tc = Some (red_canon dt dur incl ip tc).
Proof.
  intros H1 H2 H3. unfold Reducer.red_ctor. rewrite H1, H2. cbn [negb]. rewrite (canon_rec_created dt dur incl H1 H2), H3. cbn [negb].
  pose proof (rapply_same _ (canon_rec_inv dt dur incl H1 H2)) as E.
  cbn [Resize.rdt Resize.rdur Resize.rincl] in E. rewrite E. reflexivity.
Qed.
Lemma red_ctor_some dt dur incl ip tc R : red_ctor dt dur incl ip tc = Some R ->
  gtb RN dt (zero RN) = true /\ geb RN dur (zero RN) = true /\ gtb RN tc (zero RN) = true.
Proof.
  unfold Reducer.red_ctor. destruct (gtb RN dt (zero RN)); [|discriminate]. destruct (geb RN dur (zero RN)); [|discriminate]. cbn [negb].
  destruct (rcreate _ _ _ _ _ _ _ _ _); [|discriminate]. destruct (gtb RN tc (zero RN)); [auto|discriminate].
Qed.

Lemma red_canon_ok dt dur incl ip tc : gtb RN dt (zero RN) = true -> geb RN dur (zero RN) = true -> gtb RN tc (zero RN) = true ->
  red_ok (red_canon dt dur incl ip tc).
Proof.
  intros H1 H2 H3. unfold red_ok, red_canon. cbn [d_rec d_dt d_dur d_incl d_decay d_tc].
  split; [apply canon_rec_inv; assumption|]. cbn. repeat split; auto.
Qed.

Lemma red_clear_canon R : red_ok R ->
  red_clear R false = red_canon (d_dt RN R) (d_dur RN R) (d_incl RN R) (d_inplace RN R) (d_tc RN R).
Proof.
  intros (HI & H1 & H2 & H3 & H4 & H5 & H6 & H7 & H8). cbv zeta in *. destruct HI as (_ & _ & _ & _ & Hsz).
  unfold Reducer.red_clear, red_canon, rdeinit. cbn [fst]. rewrite H7. f_equal.
  unfold set_rg. rewrite H1, H2, H3, H4. unfold RecordCfgProofs.cfg_of in H5. injection H5 as E1 E2 E3.
  rewrite Hsz. unfold rsize. rewrite E1, E2, E3. do 2 f_equal.
  destruct (st (rg (d_rec RN R))); cbn in H6; congruence.
Qed.

Lemma skind_dtype (r r' : rec) : @skind_of RN A D r' = @skind_of RN A D r -> dtype_of (st (rg r')) = dtype_of (st (rg r)).
Proof. unfold skind_of. destruct (st (rg r')), (st (rg r)); cbn; congruence. Qed.

(* a temporal assignment forwarded to the record *)
Lemma red_forward_ok R (s : rset RN) dt' dur' : red_ok R ->
  rexpect RN (d_dt RN R, d_dur RN R, d_incl RN R) s = (dt', dur', d_incl RN R) ->
  let R' := mkRed RN dt' dur' (d_incl RN R) (d_inplace RN R) (d_tc RN R) (decay_of RN dt' (d_tc RN R)) (d_initial RN R)
                  (rapply (d_rec RN R) s) in red_ok R'.
Proof.
  intros (HI & H1 & H2 & H3 & H4 & H5 & H6 & H7 & H8) He. cbv zeta in *.
  destruct (rapply_spec RN cast promote D_eqb zeroA default_d (d_rec RN R) s HI) as (HI' & Hc & (F1 & F2 & F3 & F4 & F5)).
  unfold red_ok. cbn [d_rec d_dt d_dur d_incl d_decay d_tc].
  split; [exact HI'|]. split; [congruence|]. split; [congruence|]. split; [congruence|]. split; [congruence|].
  split; [rewrite Hc, H5; exact He|]. split; [rewrite (skind_dtype _ _ F5); exact H6|]. auto.
Qed.

Definition red_op_wf (o : red_op) : Prop :=
  match o with RdObserve _ x => length (oel x) = nel (oshape x) | _ => True end.

Lemma red_apply_ok R (o : red_op) : red_ok R -> red_op_wf o ->
  red_ok (red_apply R o) /\ red_cfg (red_apply R o) = red_expect (red_cfg R) o /\
  d_incl RN (red_apply R o) = d_incl RN R /\ d_tc RN (red_apply R o) = d_tc RN R.
Proof.
  intros Hok Hwf. pose proof Hok as (HI & H1 & H2 & H3 & H4 & H5 & H6 & H7 & H8). cbv zeta in *.
  destruct o as [v|v|b|x|k]; cbn [Reducer.red_apply Reducer.red_expect red_cfg].
  - (* dt *)
    unfold Reducer.red_set_dt, Reducer.red_set_dt_base. destruct (gtb RN v (zero RN)) eqn:Ev; cbn [negb]; [|auto].
    destruct (neb RN v (d_dt RN R)) eqn:En.
    + cbn [with_rec d_dt d_dur d_incl d_inplace d_tc d_initial d_rec]. split; [|auto].
      apply (red_forward_ok R (RDt RN v) v (d_dur RN R) Hok); cbn [rexpect]; rewrite Ev; reflexivity.
    + apply neb_false in En. subst v. split; [|auto]. unfold red_ok. cbn [d_rec d_dt d_dur d_incl d_decay d_tc].
      split; [exact HI|]. do 6 (split; [assumption|]). split; [reflexivity|exact H8].
  - (* duration *)
    unfold Reducer.red_set_dur. destruct (geb RN v (zero RN)) eqn:Ev; cbn [negb]; [|auto].
    destruct (neb RN v (d_dur RN R)) eqn:En.
    + cbn [with_rec d_dt d_dur d_incl d_inplace d_tc d_initial d_rec]. split; [|auto].
      pose proof (red_forward_ok R (RDur RN v) (d_dt RN R) v Hok) as H. cbn [rexpect] in H. rewrite Ev in H.
      specialize (H eq_refl). cbv zeta in H. rewrite <- H7 in H. exact H.
    + apply neb_false in En. subst v. auto.
  - (* inplace *)
    split; [|auto]. unfold red_ok. cbn [Reducer.red_set_inplace d_rec d_dt d_dur d_incl d_decay d_tc].
    split; [exact HI|]. do 6 (split; [assumption|]). split; assumption.
  - (* an observation is pushed *)
    unfold Reducer.red_observe. cbn [red_op_wf] in Hwf.
    assert (Hg : good RN (d_rec RN R) (RRing RN (OpPush x (d_inplace RN R)))).
    { cbn [good]. split; [exact Hwf|]. destruct (st (rg (d_rec RN R))); [| |exact I].
      - split; [|left; exact H1]. intros d. unfold all_cons. rewrite H4, H1. unfold ignore_or_compatible.
        rewrite compat_dim0. apply orb_true_r.
      - split; [|left; exact H1]. intros d0. unfold all_cons. rewrite H4, H1. unfold ignore_or_compatible.
        rewrite compat_dim0. apply orb_true_r. }
    pose proof (rstep_inv RN cast promote D_eqb zeroA default_d _ _ HI Hg) as HI'.
    unfold Resize.rstep in *. cbn [step] in *.
    destruct (push cast zeroA (rg (d_rec RN R)) x (d_inplace RN R)) as [g' out|e] eqn:Ep; [|auto].
    cbn [fst] in HI'. split; [|auto]. unfold red_ok. cbn [d_rec d_dt d_dur d_incl d_decay d_tc set_rg Resize.rstrict Resize.rlive Resize.rparam Resize.rcons Resize.rg].
    split; [exact HI'|]. do 4 (split; [assumption|]). split; [exact H5|]. split; [|auto].
    rewrite (push_dtype cast zeroA _ _ _ _ _ Ep); [exact H6|]. intros E. rewrite E in H6. discriminate.
  - (* clear *)
    destruct k.
    + split; [|auto]. unfold red_ok. cbn [Reducer.red_clear d_rec d_dt d_dur d_incl d_decay d_tc].
      split; [apply (rclear_inv RN cast promote D_eqb zeroA default_d); exact HI|].
      unfold RecordCfg.rclear, reset. destruct (st (rg (d_rec RN R))) eqn:Es;
        cbn [set_rg Resize.rstrict Resize.rlive Resize.rparam Resize.rcons Resize.rg st RecordCfgProofs.cfg_of Resize.rdt Resize.rdur Resize.rincl dtype_of];
        repeat split; auto; rewrite Es in H6; exact H6.
    + rewrite (red_clear_canon R Hok). destruct HI as (_ & _ & _ & (Ht1 & Ht2) & _).
      unfold RecordCfgProofs.cfg_of in H5. injection H5 as E1 E2 E3. rewrite E1 in Ht1. rewrite E2 in Ht2.
      split; [apply red_canon_ok; assumption|]. auto.
Qed.

Lemma red_run_ok : forall (ops : list red_op) R, red_ok R -> Forall red_op_wf ops ->
  red_ok (fold_left red_apply ops R) /\ red_cfg (fold_left red_apply ops R) = fold_left red_expect ops (red_cfg R) /\
  d_incl RN (fold_left red_apply ops R) = d_incl RN R /\ d_tc RN (fold_left red_apply ops R) = d_tc RN R.
Proof.
  induction ops as [|o ops IH]; intros R Hok Hwf; cbn [fold_left]; [auto|].
  inversion Hwf as [|? ? Ho Hops]; subst.
  destruct (red_apply_ok R o Hok Ho) as (H1 & H2 & H3 & H4). destruct (IH _ H1 Hops) as (K1 & K2 & K3 & K4).
  split; [exact K1|]. split; [rewrite K2, H2; reflexivity|]. split; congruence.
Qed.

(* MAIN (reducers): setters (and observations, and clears) then clear = constructor, as whole states *)
Theorem red_setters_clear_eq_ctor dt dur incl ip tc R0 (ops : list red_op) :
  red_ctor dt dur incl ip tc = Some R0 -> Forall red_op_wf ops ->
  let '(dt', dur', ip') := fold_left red_expect ops (dt, dur, ip) in
  red_cfg (fold_left red_apply ops R0) = (dt', dur', ip') /\
  red_ctor dt' dur' incl ip' tc = Some (red_clear (fold_left red_apply ops R0) false).
Proof.
  intros Hc Hwf. destruct (red_ctor_some _ _ _ _ _ _ Hc) as (G1 & G2 & G3).
  rewrite (red_ctor_canon _ _ incl ip _ G1 G2 G3) in Hc. injection Hc as <-.
  destruct (red_run_ok ops _ (red_canon_ok dt dur incl ip tc G1 G2 G3) Hwf) as (Hok & Hcfg & Hi & Ht).
  change (red_cfg (red_canon dt dur incl ip tc)) with (dt, dur, ip) in Hcfg.
  destruct (fold_left red_expect ops (dt, dur, ip)) as [[dt' dur'] ip'].
  set (R := fold_left red_apply ops (red_canon dt dur incl ip tc)) in *.
  split; [exact Hcfg|]. rewrite (red_clear_canon R Hok).
  unfold red_cfg in Hcfg. injection Hcfg as E1 E2 E3. cbn [d_incl d_tc red_canon] in Hi, Ht.
  pose proof Hok as (HI & _ & _ & _ & _ & H5 & _ & _ & H8). cbv zeta in *. destruct HI as (_ & _ & _ & (Ht1 & Ht2) & _).
  unfold RecordCfgProofs.cfg_of in H5. injection H5 as F1 F2 F3. rewrite F1, E1 in Ht1. rewrite F2, E2 in Ht2. rewrite Ht in H8.
  rewrite E1, E2, E3, Hi, Ht. apply red_ctor_canon; assumption.
Qed.

(* the invariant relates what the reducer reports to what its record holds: in every reachable state the record's
   own (dt, duration, inclusive) are the reported ones, it has the generated number of slots for them, and the
   decay is exp(-dt / tau) of the reported step time *)
Theorem red_reachable_consistent dt dur incl ip tc R0 (ops : list red_op) :
  red_ctor dt dur incl ip tc = Some R0 -> Forall red_op_wf ops ->
  let R := fold_left red_apply ops R0 in
  cfg_of (d_rec RN R) = (d_dt RN R, d_dur RN R, incl) /\
  N (rg (d_rec RN R)) = Z.to_nat (recordsz_expr RN (d_dur RN R) (d_dt RN R) incl) /\
  d_decay RN R = Rtrigo_def.exp (- d_dt RN R / tc)%R.
Proof.
  intros Hc Hwf. destruct (red_ctor_some _ _ _ _ _ _ Hc) as (G1 & G2 & G3).
  rewrite (red_ctor_canon _ _ incl ip _ G1 G2 G3) in Hc. injection Hc as <-.
  destruct (red_run_ok ops _ (red_canon_ok dt dur incl ip tc G1 G2 G3) Hwf) as (Hok & _ & Hi & Ht). cbv zeta.
  set (R := fold_left red_apply ops (red_canon dt dur incl ip tc)) in *. cbn [d_incl d_tc red_canon] in Hi, Ht.
  destruct Hok as (HI & _ & _ & _ & _ & H5 & _ & H7 & _). cbv zeta in *. rewrite Hi in H5. split; [exact H5|].
  destruct HI as (_ & _ & _ & _ & Hsz). unfold RecordCfgProofs.cfg_of in H5. injection H5 as F1 F2 F3.
  split; [rewrite Hsz; unfold rsize; rewrite F1, F2, F3; reflexivity|]. rewrite H7, Ht. reflexivity.
Qed.

(* frame: assigning one attribute leaves the other getters unchanged *)
Theorem red_setter_frame (R : red) (o : red_op) :
  match o with
  | RdDt _ _ => d_dur RN (red_apply R o) = d_dur RN R /\ d_inplace RN (red_apply R o) = d_inplace RN R
  | RdDur _ _ => d_dt RN (red_apply R o) = d_dt RN R /\ d_inplace RN (red_apply R o) = d_inplace RN R /\
                 d_decay RN (red_apply R o) = d_decay RN R
  | RdInplace _ _ => d_dt RN (red_apply R o) = d_dt RN R /\ d_dur RN (red_apply R o) = d_dur RN R /\
                     d_decay RN (red_apply R o) = d_decay RN R
  | RdObserve _ _ | RdClear _ _ => red_cfg (red_apply R o) = red_cfg R /\ d_decay RN (red_apply R o) = d_decay RN R
  end /\ d_incl RN (red_apply R o) = d_incl RN R /\ d_tc RN (red_apply R o) = d_tc RN R.
Proof.
  destruct o as [v|v|b|x|k]; cbn [Reducer.red_apply].
  - unfold Reducer.red_set_dt, Reducer.red_set_dt_base. destruct (negb _); [auto|]. destruct (neb RN v (d_dt RN R)); cbn; auto.
  - unfold Reducer.red_set_dur. destruct (negb _); [auto|]. destruct (neb RN v (d_dur RN R)); cbn; auto.
  - cbn. auto.
  - unfold Reducer.red_observe. destruct (Resize.rstep _ _ _ _ _ _ _) as [[r' [e|]] out]; cbn; auto.
  - cbn. auto.
Qed.

(* the duration setter as it was before the repair: it reports the OLD duration, changes the reported step time
   (the frame is broken), leaves the reducer disagreeing with its own record, and refuses duration 0, which the
   constructor accepts *)
Theorem old_duration_setter_refuted : exists (R : red) (v : T RN),
  red_ok R /\ gtb RN v (zero RN) = true /\
  d_dur RN (red_set_dur_old R v) <> v /\ d_dt RN (red_set_dur_old R v) <> d_dt RN R /\ ~ red_ok (red_set_dur_old R v) /\
  red_ctor (d_dt RN R) 0%R false false 1%R <> None /\ d_dur RN (red_set_dur_old R 0%R) <> 0%R.
Proof.
  assert (G1 : gtb RN 1%R (zero RN) = true) by (unfold gtb; cbn [ltb RN zero]; destruct (Rltb'_spec 0 1); [reflexivity|lra]).
  assert (G2 : geb RN 1%R (zero RN) = true) by (unfold geb; cbn [leb RN zero]; destruct (Rleb'_spec 0 1); [reflexivity|lra]).
  assert (G3 : gtb RN 3%R (zero RN) = true) by (unfold gtb; cbn [ltb RN zero]; destruct (Rltb'_spec 0 3); [reflexivity|lra]).
  assert (G4 : geb RN 0%R (zero RN) = true) by (unfold geb; cbn [leb RN zero]; destruct (Rleb'_spec 0 0); [reflexivity|lra]).
  assert (G5 : gtb RN 0%R (zero RN) = false) by (unfold gtb; cbn [ltb RN zero]; destruct (Rltb'_spec 0 0); [lra|reflexivity]).
  assert (N31 : neb RN 3%R 1%R = true) by (unfold neb; cbn [eqb RN]; destruct (Reqb'_spec 3 1); [lra|reflexivity]).
  pose proof (red_canon_ok 1%R 1%R false false 1%R G1 G2 G1) as Hok.
  exists (red_canon 1%R 1%R false false 1%R), 3%R.
  split; [exact Hok|]. split; [exact G3|].
  unfold Reducer.red_set_dur_old. cbn [d_dur d_dt red_canon]. rewrite G3, N31, G5. cbn [negb with_rec d_dur d_dt].
  split; [lra|]. split; [lra|]. split; [|split].
  - intros (HI & _ & _ & _ & _ & H5 & _). cbv zeta in *. cbn [d_rec d_dt d_dur d_incl] in *.
    destruct (rapply_spec RN cast promote D_eqb zeroA default_d _ (RDur RN 3%R) (canon_rec_inv 1%R 1%R false G1 G2)) as (_ & Hc & _).
    cbn [d_rec d_dt d_dur d_incl with_rec red_canon] in H5. rewrite Hc in H5. cbn [RecordCfgProofs.cfg_of Resize.rdt Resize.rdur Resize.rincl rexpect] in H5.
    assert (G6 : geb RN 3%R (zero RN) = true) by (unfold geb; cbn [leb RN zero]; destruct (Rleb'_spec 0 3); [reflexivity|lra]).
    rewrite G6 in H5. injection H5 as E1 E2. lra.
  - rewrite (red_ctor_canon 1%R 0%R false false 1%R G1 G4 G1). discriminate.
  - cbn [d_dur red_canon]. lra.
Qed.

End ReducerProofs.
