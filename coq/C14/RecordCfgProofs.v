(* C14, RecordTensor level (proofs): after ANY sequence of dt / duration / inclusive assignments a record is -
   in its reported configuration, its number of slots, its constraints and, once reset, as a whole state -
   the record the constructor builds for the resulting configuration.  Built on the C13 theorems about the
   setters ([setter_spec], [rstep_inv], [rcreate_inv]); holds for every number type (no real-number axioms). *)
From Coq Require Import List ZArith Bool Arith Lia.
From Inferno Require Import Base.Num Gen.Infra C01.Ring C01.RingProofs C13.Shaped C13.Lists C13.ShapedProofs
  C13.Resize C13.ResizeProofs C14.RecordCfg.
Import ListNotations.

Lemma map_const_uniform {X Y} (c : Y) m (rows : list (list X)) : uniform m rows ->
  map (map (fun _ => c)) rows = repeat (repeat c m) (length rows).
Proof.
  induction 1 as [|row rows Hr _ IH]; [reflexivity|]. cbn [map length repeat]. f_equal; [|exact IH].
  subst m. clear. induction row as [|x t IH]; [reflexivity|]. cbn. f_equal. exact IH.
Qed.

Section RecordCfgProofs.
Variable Nm : Num.
Context {A D : Type}.
Variable cast : D -> A -> A.
Variable promote : D -> D -> D.
Variable D_eqb : D -> D -> bool.
Variable zeroA : A.
Variable default_d : D.

Notation rec := (@rec Nm A D).
Notation tensor := (@tensor A D).
Notation rg := (@rg Nm A D).
Notation rcons := (@rcons Nm A D).
Notation rstrict := (@rstrict Nm A D).
Notation rlive := (@rlive Nm A D).
Notation rparam := (@rparam Nm A D).
Notation rdt := (@rdt Nm A D).
Notation rdur := (@rdur Nm A D).
Notation rincl := (@rincl Nm A D).
Notation Inv := (@Inv Nm A D).
Notation rapply := (@rapply Nm A D zeroA).
Notation rclear := (@rclear Nm A D cast).
Notation skind_of := (@skind_of Nm A D).
Notation value_matches := (@value_matches Nm A D).
Notation user_cons := (@user_cons Nm A D).
Notation rsize := (@rsize Nm A D).

Definition cfg_of (r : rec) : T Nm * T Nm * bool := (rdt r, rdur r, rincl r).

(* everything an assignment leaves alone *)
Definition same_frame (r r' : rec) : Prop :=
  rcons r' = rcons r /\ rstrict r' = rstrict r /\ rlive r' = rlive r /\ rparam r' = rparam r /\
  skind_of r' = skind_of r.

Lemma same_frame_refl r : same_frame r r.
Proof. repeat split. Qed.
Lemma same_frame_trans r1 r2 r3 : same_frame r1 r2 -> same_frame r2 r3 -> same_frame r1 r3.
Proof. intros (a1 & a2 & a3 & a4 & a5) (b1 & b2 & b3 & b4 & b5). repeat split; congruence. Qed.

(* ------------------------------------------------------------------ one assignment *)
Theorem rapply_spec (r : rec) (s : rset Nm) : Inv r ->
  Inv (rapply r s) /\ cfg_of (rapply r s) = rexpect Nm (cfg_of r) s /\ same_frame r (rapply r s).
Proof.
  intros HI. pose proof HI as (Hwf & Hv & Hna & (Ht1 & Ht2) & Hsz).
  assert (HI' : forall o, good Nm r o -> Inv (fst (fst (rstep Nm cast promote D_eqb zeroA default_d r o))))
    by (intros o Hg; apply rstep_inv; assumption).
  assert (Hsk : forall (st' : setter Nm) r', setter_ok Nm r st' -> apply_setter Nm zeroA r st' = (r', None) ->
            cfg_of r' = cfg_of (configured Nm r st') /\ same_frame r r').
  { intros st' r' Hok Hr.
    destruct (setter_spec Nm cast promote D_eqb zeroA default_d r st' Hwf Hv Hna Hok)
      as (r'' & Hr' & _ & _ & _ & _ & H5 & H6 & H7 & H8 & H9 & H10 & H11 & H12 & H13).
    rewrite Hr in Hr'. injection Hr' as <-. split; [unfold cfg_of; congruence|].
    split; [exact H8|]. split; [exact H9|]. split; [exact H10|]. split; [exact H11|].
    unfold RecordCfg.skind_of. destruct (st (rg r)) as [| |d sh rws] eqn:Es.
    - destruct (H12 ltac:(unfold full; rewrite Es; tauto)) as [-> _]. reflexivity.
    - destruct (H12 ltac:(unfold full; rewrite Es; tauto)) as [-> _]. reflexivity.
    - destruct (H13 _ _ _ eq_refl) as (rws' & -> & _). reflexivity. }
  destruct s as [v|v|b]; cbn [RecordCfg.rapply RecordCfg.rexpect cfg_of].
  - (* dt *)
    split; [exact (HI' (RSetDt Nm v) I)|].
    destruct (gtb Nm v (zero Nm)) eqn:Ev.
    + destruct (setter_spec Nm cast promote D_eqb zeroA default_d r (SetDt Nm v) Hwf Hv Hna Ev) as (r' & Hr & _).
      cbn [apply_setter] in Hr. destruct (Hsk (SetDt Nm v) r' Ev Hr) as [Hc Hf].
      rewrite Hr. cbn [fst]. split; [exact Hc|exact Hf].
    + unfold Resize.set_dt. rewrite Ev. cbn [negb fst]. split; [reflexivity|apply same_frame_refl].
  - (* duration *)
    split; [exact (HI' (RSetDur Nm v) I)|].
    destruct (geb Nm v (zero Nm)) eqn:Ev.
    + destruct (setter_spec Nm cast promote D_eqb zeroA default_d r (SetDur Nm v) Hwf Hv Hna Ev) as (r' & Hr & _).
      cbn [apply_setter] in Hr. destruct (Hsk (SetDur Nm v) r' Ev Hr) as [Hc Hf].
      rewrite Hr. cbn [fst]. split; [exact Hc|exact Hf].
    + unfold Resize.set_duration. rewrite Ev. cbn [negb fst]. split; [reflexivity|apply same_frame_refl].
  - (* inclusive: the stored duration is re-assigned, it is admissible in every reachable state *)
    split; [exact (HI' (RSetIncl Nm b) I)|].
    destruct (setter_spec Nm cast promote D_eqb zeroA default_d r (SetIncl Nm b) Hwf Hv Hna Ht2) as (r' & Hr & _).
    cbn [apply_setter] in Hr. destruct (Hsk (SetIncl Nm b) r' Ht2 Hr) as [Hc Hf].
    rewrite Hr. cbn [fst]. split; [exact Hc|exact Hf].
Qed.

(* ------------------------------------------------------------------ any sequence of assignments *)
Theorem rrun_spec : forall (ops : list (rset Nm)) (r : rec), Inv r ->
  let r' := fold_left rapply ops r in
  Inv r' /\ cfg_of r' = fold_left (rexpect Nm) ops (cfg_of r) /\ same_frame r r'.
Proof.
  induction ops as [|o ops IH]; intros r HI; cbn [fold_left].
  - split; [exact HI|]. split; [reflexivity|apply same_frame_refl].
  - destruct (rapply_spec r o HI) as (HI1 & Hc1 & Hf1).
    destruct (IH _ HI1) as (HI2 & Hc2 & Hf2). cbv zeta in *.
    split; [exact HI2|]. split; [rewrite Hc2, Hc1; reflexivity|eapply same_frame_trans; eauto].
Qed.

(* ------------------------------------------------------------------ reset *)
Lemma rclear_full (r : rec) d sh rws f : st (rg r) = SFull d sh rws -> uniform (nel sh) rws -> length rws = N (rg r) ->
  rclear r f = set_rg Nm r (mkRing (N (rg r)) 0 (SFull d sh (repeat (repeat (cast d f) (nel sh)) (N (rg r))))).
Proof.
  intros Es Hu Hl. unfold RecordCfg.rclear, reset. rewrite Es. rewrite (map_const_uniform _ _ _ Hu), Hl. reflexivity.
Qed.
Lemma rclear_notfull (r : rec) f : ~ full (rg r) -> rclear r f = set_rg Nm r (mkRing (N (rg r)) 0 (st (rg r))).
Proof.
  intros Hnf. unfold RecordCfg.rclear, reset, full in *. destruct (st (rg r)); try reflexivity. exfalso; apply Hnf; exact I.
Qed.

(* the constructor shifts the user's constraints past the record dimension; reading them back undoes it *)
Lemma shift_user_cons (r : rec) : ~ In 0%Z (keys (rcons r)) -> shift_cons (user_cons r) = rcons r.
Proof.
  unfold shift_cons, Resize.user_cons. rewrite map_map. intros Hn.
  rewrite <- (map_id (rcons r)) at 2. apply map_ext_in. intros [k s] Hin. cbn [fst snd].
  assert (k <> 0%Z) by (intros ->; apply Hn; apply in_keys; eauto).
  destruct (Z.leb_spec 0 k) as [H1|H1].
  - destruct (Z.leb_spec 0 (k - 1)); [f_equal; lia|lia].
  - destruct (Z.leb_spec 0 k); [lia|reflexivity].
Qed.

Lemma value_matches_skind (r r' : rec) v : skind_of r' = skind_of r -> value_matches r v -> value_matches r' v.
Proof.
  unfold RecordCfg.skind_of, RecordCfg.value_matches. intros Hk.
  destruct v as [t|].
  - destruct (ignore (DTensor t)).
    + intros E. rewrite E in Hk. destruct (st (rg r')); congruence.
    + intros (Hl & rows & E). split; [exact Hl|]. rewrite E in Hk. destruct (st (rg r')) as [| |d' sh' rows']; try discriminate.
      injection Hk as -> ->. eauto.
  - intros E. rewrite E in Hk. destruct (st (rg r')); congruence.
Qed.

(* ------------------------------------------------------------------ the constructor reaches every reachable configuration *)
(* A reachable record [r] (it satisfies the C13 invariant) and the record the constructor builds for r's own
   configuration, flags and constraints from a value of r's data type and observation shape: the
   constructor succeeds, gives the same number of slots and constraints, and the two are EQUAL once reset. *)
Theorem ctor_reaches (r : rec) (value : option tensor) : Inv r -> value_matches r value ->
  exists rf : rec,
    rcreate Nm (rstrict r) (rlive r) (rparam r) (user_cons r) (rdt r) (rdur r) (rincl r) value = inl rf /\
    cfg_of rf = cfg_of r /\ N (rg rf) = N (rg r) /\ rcons rf = rcons r /\
    forall f, rclear rf f = rclear r f.
Proof.
  intros ((Hw & Hu & Hnd & Hp0) & Hv & Hna & (Ht1 & Ht2) & Hsz) Hm.
  assert (Hn0 : ~ In 0%Z (keys (rcons r))).
  { unfold Resize.all_cons in Hnd. cbn [map fst keys] in Hnd. inversion Hnd; assumption. }
  pose proof (shift_user_cons r Hn0) as Hsh.
  unfold rcreate. rewrite Ht1, Ht2. cbn [negb]. fold (rsize r). rewrite <- Hsz.
  unfold RecordCfg.value_matches in Hm. pose proof Hw as (Hn & Hp & Hl).
  destruct value as [t|].
  - destruct (ignore (DTensor t)) eqn:Ei.
    + (* an empty tensor: empty storage of its data type *)
      cbn [data_of ignore_or_compatible ignore tshape ndim nel fold_right length Nat.eqb Nat.leb andb orb Nat.mul].
      eexists. split; [reflexivity|]. split; [reflexivity|]. split; [reflexivity|]. split; [exact Hsh|].
      intros f. assert (Hnf : ~ full (rg r)) by (unfold full; rewrite Hm; tauto).
      rewrite (rclear_notfull r f Hnf), Hm.
      rewrite rclear_notfull by (unfold full; cbn; tauto). cbn [Resize.rg N st]. unfold set_rg.
      cbn [Resize.rstrict Resize.rlive Resize.rparam Resize.rcons Resize.rdt Resize.rdur Resize.rincl]. rewrite Hsh. reflexivity.
    + (* an initialised record *)
      destruct Hm as (Hlt & rows & Es). rewrite Es in Hl. unfold rows_uniform in Hu. rewrite Es in Hu.
      cbn [data_of]. rewrite repeat_length.
      assert (Hioc : ignore_or_compatible (DTensor (mkT (tdt t) (N (rg r) :: tshape t) (concat (repeat (tflat t) (N (rg r))))))
                       (@all_cons Nm A D (mkRec Nm (mkRing (N (rg r)) 0 (SFull (tdt t) (tshape t) (repeat (tflat t) (N (rg r)))))
                           (rstrict r) (rlive r) (rparam r) (shift_cons (user_cons r)) (rdt r) (rdur r) (rincl r)))
                       (rstrict r) = true).
      { unfold Resize.all_cons. cbn [Resize.rg Resize.rcons N]. rewrite Hsh.
        rewrite (rvalid_full Nm r _ _ _ Es) in Hv. rewrite <- Hv. apply ioc_shape. cbn [tshape]. congruence. }
      rewrite Hioc. eexists. split; [reflexivity|]. split; [reflexivity|]. split; [reflexivity|]. split; [exact Hsh|].
      intros f. rewrite (rclear_full r _ _ _ f Es Hu Hl).
      erewrite rclear_full; [|cbn [Resize.rg st]; reflexivity|cbn [Resize.rg N]; apply uniform_repeat; exact Hlt|cbn [Resize.rg N]; apply repeat_length].
      cbn [Resize.rg N]. unfold set_rg.
      cbn [Resize.rstrict Resize.rlive Resize.rparam Resize.rcons Resize.rdt Resize.rdur Resize.rincl]. rewrite Hsh. reflexivity.
  - (* no storage at all *)
    cbn [data_of ignore_or_compatible]. eexists. split; [reflexivity|]. split; [reflexivity|]. split; [reflexivity|]. split; [exact Hsh|].
    intros f. assert (Hnf : ~ full (rg r)) by (unfold full; rewrite Hm; tauto).
    rewrite (rclear_notfull r f Hnf), Hm.
    rewrite rclear_notfull by (unfold full; cbn; tauto). cbn [Resize.rg N st]. unfold set_rg.
    cbn [Resize.rstrict Resize.rlive Resize.rparam Resize.rcons Resize.rdt Resize.rdur Resize.rincl]. rewrite Hsh. reflexivity.
Qed.

(* the value handed to the constructor may be taken from the record itself - unless its observations have
   shape (0,): the constructor treats such a value as "no value yet" (ShapedTensor._ignore) *)
Lemma template_matches (r : rec) : (forall d rws, st (rg r) <> SFull d [0] rws) -> value_matches r (template Nm zeroA r).
Proof.
  intros Hne. unfold RecordCfg.value_matches, RecordCfg.template.
  destruct (st (rg r)) as [| |d sh rws] eqn:Es; [reflexivity|reflexivity|].
  assert (Hi : ignore (DTensor (mkT d sh (repeat zeroA (nel sh)))) = false).
  { cbn [ignore tshape ndim]. destruct sh as [|a [|b sh']]; [reflexivity| |cbn; apply andb_false_r].
    destruct a; [exfalso; eapply Hne; reflexivity|reflexivity]. }
  rewrite Hi. cbn [tflat tshape tdt]. split; [apply repeat_length|eauto].
Qed.

(* ------------------------------------------------------------------ MAIN *)
(* From any reachable record: after any sequence of temporal assignments the record reports the expected
   configuration, and the constructor called with that configuration (same flags, same user constraints, a
   value of the same data type and observation shape) succeeds and yields a record with the same number of
   slots and the same constraints which, once both are reset, is the SAME STATE. *)
Theorem record_setters_eq_ctor_from (r0 : rec) (value : option tensor) (ops : list (rset Nm)) :
  Inv r0 -> value_matches r0 value ->
  let r := fold_left rapply ops r0 in
  let '(dt', dur', incl') := fold_left (rexpect Nm) ops (rdt r0, rdur r0, rincl r0) in
  exists rf : rec,
    rcreate Nm (rstrict r0) (rlive r0) (rparam r0) (user_cons r0) dt' dur' incl' value = inl rf /\
    (rdt r, rdur r, rincl r) = (dt', dur', incl') /\
    N (rg r) = Z.to_nat (recordsz_expr Nm dur' dt' incl') /\ N (rg r) = N (rg rf) /\
    rcons r = rcons rf /\ user_cons r = user_cons r0 /\
    forall f, rclear r f = rclear rf f.
Proof.
  intros HI Hm. cbv zeta.
  destruct (rrun_spec ops r0 HI) as (HI' & Hc & (F1 & F2 & F3 & F4 & F5)). cbv zeta in *.
  set (r := fold_left rapply ops r0) in *.
  change (rdt r0, rdur r0, rincl r0) with (cfg_of r0). rewrite <- Hc. unfold cfg_of.
  destruct (ctor_reaches r value HI' (value_matches_skind r0 r value F5 Hm)) as (rf & Hrf & Hcf & HN & Hcons & Hclr).
  assert (Eu : user_cons r = user_cons r0) by (unfold Resize.user_cons; rewrite F1; reflexivity).
  rewrite F2, F3, F4, Eu in Hrf. exists rf. split; [exact Hrf|]. split; [reflexivity|].
  destruct HI' as (_ & _ & _ & _ & Hsz). split; [exact Hsz|]. split; [congruence|]. split; [congruence|].
  split; [exact Eu|]. intros f. symmetry. apply Hclr.
Qed.

(* The same for a record just created from [value]: the two constructor calls differ only in the temporal
   configuration. *)
Theorem record_setters_eq_ctor strict live param ucons dt0 dur0 incl0 (value : option tensor) (r0 : rec)
  (ops : list (rset Nm)) :
  rcreate Nm strict live param ucons dt0 dur0 incl0 value = inl r0 ->
  NoDup (keys ucons) ->
  match value with Some t => length (tflat t) = nel (tshape t) | None => True end ->
  (* no non-strict constraint may address the record dimension (C13 no_alias0) *)
  (strict = true \/ match value with
                    | Some t => forall dd s, In (dd, s) (shift_cons ucons) -> pyidx (S (length (tshape t))) dd <> 0
                    | None => True end) ->
  let r := fold_left rapply ops r0 in
  let '(dt', dur', incl') := fold_left (rexpect Nm) ops (dt0, dur0, incl0) in
  exists rf : rec,
    rcreate Nm strict live param ucons dt' dur' incl' value = inl rf /\
    (rdt r, rdur r, rincl r) = (dt', dur', incl') /\
    N (rg r) = Z.to_nat (recordsz_expr Nm dur' dt' incl') /\ N (rg r) = N (rg rf) /\
    rcons r = rcons rf /\ user_cons r = ucons /\
    forall f, rclear r f = rclear rf f.
Proof.
  intros Hc Hnd Hval Hal.
  pose proof (rcreate_inv Nm cast promote D_eqb zeroA default_d _ _ _ _ _ _ _ _ _ Hc Hnd Hval Hal) as HI.
  pose proof (user_cons_created Nm cast promote D_eqb zeroA default_d strict live param ucons dt0 dur0 incl0 value r0 Hc) as Hu.
  assert (Er0 : r0 = mkRec Nm (mkRing (Z.to_nat (recordsz_expr Nm dur0 dt0 incl0)) 0
                           match value with
                           | None => SNone
                           | Some t => if ignore (DTensor t) then SEmpty (tdt t)
                                       else SFull (tdt t) (tshape t) (repeat (tflat t) (Z.to_nat (recordsz_expr Nm dur0 dt0 incl0)))
                           end) strict live param (shift_cons ucons) dt0 dur0 incl0).
  { clear -Hc. unfold rcreate in Hc. destruct (negb (gtb Nm dt0 (zero Nm))); [discriminate|].
    destruct (negb (geb Nm dur0 (zero Nm))); [discriminate|].
    destruct (ignore_or_compatible _ _ strict); [|discriminate]. injection Hc as <-. reflexivity. }
  assert (Hm : value_matches r0 value).
  { rewrite Er0. unfold RecordCfg.value_matches. cbn [Resize.rg st]. destruct value as [t|]; [|reflexivity].
    destruct (ignore (DTensor t)); [reflexivity|]. split; [exact Hval|eauto]. }
  assert (Hf : rstrict r0 = strict /\ rlive r0 = live /\ rparam r0 = param /\ (rdt r0, rdur r0, rincl r0) = (dt0, dur0, incl0))
    by (rewrite Er0; repeat split).
  clear Er0.
  destruct Hf as (<- & <- & <- & Hcfg).
  pose proof (record_setters_eq_ctor_from r0 value ops HI Hm) as H. cbv zeta in H.
  rewrite Hcfg in H. rewrite Hu in H. exact H.
Qed.

End RecordCfgProofs.
