(* C14, reducer level: RecordReducer / FoldReducer / trace reducers with the full model of their record.

   inferno/observe/reducers/base.py
     RecordReducer.__init__ (86-103): argtest.gt step_time, argtest.gte duration, inclusive, inplace
     add_record (105-122):            rec.dt = step_time; rec.duration = duration; rec.inclusive = inclusive
     dt setter (142-148):             argtest.gt; if value != step_time: every record .dt = value; store
     duration setter (168-174):       argtest.gte; if value != duration: every record .duration = value; store
                                      (before the repair: argtest.gt, and the value was stored in the STEP TIME field)
     inplace setter (192-194)
     FoldReducer.__init__ (211-238):  RecordTensor.create(self, "data_", dt, duration, torch.empty(0), strict=True,
                                      live=False, inclusive=inclusive); add_record("data_"); _initial = True
     clear (269-280):                 keepshape ? data_.reset(fill) : data_.deinitialize(False);  _initial = True
     forward (408-429):               initial: res = fold(x, None); if data_.ignored: data_.initialize(res.shape, fill);
                                               push(res); _initial = False      else: push(fold(x, peek()))
     push (400-406):                  data_.push(inputs, inplace=self.inplace)
   inferno/observe/reducers/trace.py (every trace reducer)
     __init__: time_constant = argtest.gt(...); decay = math.exp(-dt / time_constant)
     dt setter: FoldReducer.dt.fset(self, value); decay = exp(-self.dt / self.time_constant)
   The folded value pushed by forward is an input of the model (any observation).  Definitions only. *)
From Coq Require Import List ZArith Bool Arith.
From Inferno Require Import Base.Num Gen.Infra C01.Ring C13.Shaped C13.Resize C14.RecordCfg.
Import ListNotations.

Section Reducer.
Variable Nm : Num.
Context {A D : Type}.
Variable cast : D -> A -> A.
Variable promote : D -> D -> D.
Variable D_eqb : D -> D -> bool.
Variable zeroA : A.
Variable default_d : D.          (* data type of torch.empty(0) *)

Notation rec := (@rec Nm A D).
Notation rapply := (@rapply Nm A D zeroA).
Notation rclear := (@rclear Nm A D cast).
Notation rstep := (@rstep Nm A D cast promote D_eqb zeroA default_d).

Record red := mkRed {
  d_dt : T Nm; d_dur : T Nm; d_incl : bool; d_inplace : bool;     (* RecordReducer's private fields *)
  d_tc : T Nm; d_decay : T Nm;                                    (* trace reducers: time constant, decay *)
  d_initial : bool;                                               (* FoldReducer._initial *)
  d_rec : rec                                                     (* data_ *)
}.

Definition decay_of (dt tc : T Nm) : T Nm := exp Nm (div Nm (opp Nm dt) tc).

Definition red_ctor (dt dur : T Nm) (incl inplace : bool) (tc : T Nm) : option red :=
  if negb (gtb Nm dt (zero Nm)) then None
  else if negb (geb Nm dur (zero Nm)) then None
  else match rcreate Nm true false false [] dt dur incl (Some (mkT default_d [0] [])) with
       | inl r0 =>
           let r1 := rapply (rapply (rapply r0 (RDt Nm dt)) (RDur Nm dur)) (RIncl Nm incl) in
           if negb (gtb Nm tc (zero Nm)) then None
           else Some (mkRed dt dur incl inplace tc (decay_of dt tc) true r1)
       | inr _ => None
       end.

Definition with_rec (R : red) (dt dur : T Nm) (r : rec) : red :=
  mkRed dt dur (d_incl R) (d_inplace R) (d_tc R) (d_decay R) (d_initial R) r.

(* RecordReducer.dt setter; None = the argument test raised *)
Definition red_set_dt_base (R : red) (v : T Nm) : option red :=
  if negb (gtb Nm v (zero Nm)) then None
  else Some (if neb Nm v (d_dt R) then with_rec R v (d_dur R) (rapply (d_rec R) (RDt Nm v)) else R).
(* trace reducers' dt setter: the decay is recomputed whenever the base setter returns *)
Definition red_set_dt (R : red) (v : T Nm) : red :=
  match red_set_dt_base R v with
  | None => R
  | Some R1 => mkRed (d_dt R1) (d_dur R1) (d_incl R1) (d_inplace R1) (d_tc R1) (decay_of (d_dt R1) (d_tc R1))
                     (d_initial R1) (d_rec R1)
  end.
Definition red_set_dur (R : red) (v : T Nm) : red :=
  if negb (geb Nm v (zero Nm)) then R
  else if neb Nm v (d_dur R) then with_rec R (d_dt R) v (rapply (d_rec R) (RDur Nm v)) else R.
(* the duration setter as it was before the repair *)
Definition red_set_dur_old (R : red) (v : T Nm) : red :=
  if negb (gtb Nm v (zero Nm)) then R
  else if neb Nm v (d_dur R) then with_rec R v (d_dur R) (rapply (d_rec R) (RDur Nm v)) else R.
Definition red_set_inplace (R : red) (b : bool) : red :=
  mkRed (d_dt R) (d_dur R) (d_incl R) b (d_tc R) (d_decay R) (d_initial R) (d_rec R).
(* forward with the folded observation o: storage is created by the push when there is none *)
Definition red_observe (R : red) (o : @obs A D) : red :=
  match rstep (d_rec R) (RRing Nm (OpPush o (d_inplace R))) with
  | (r', None, _) => mkRed (d_dt R) (d_dur R) (d_incl R) (d_inplace R) (d_tc R) (d_decay R) false r'
  | (_, Some _, _) => R
  end.
Definition red_clear (R : red) (keepshape : bool) : red :=
  mkRed (d_dt R) (d_dur R) (d_incl R) (d_inplace R) (d_tc R) (d_decay R) true
        (if keepshape then rclear (d_rec R) zeroA else fst (rdeinit Nm default_d (d_rec R))).

Inductive red_op := RdDt (v : T Nm) | RdDur (v : T Nm) | RdInplace (b : bool) | RdObserve (o : @obs A D)
                  | RdClear (keepshape : bool).
Definition red_apply (R : red) (o : red_op) : red :=
  match o with
  | RdDt v => red_set_dt R v | RdDur v => red_set_dur R v | RdInplace b => red_set_inplace R b
  | RdObserve x => red_observe R x | RdClear k => red_clear R k
  end.
(* the configuration the user expects: last accepted value of each attribute *)
Definition red_expect (cfg : T Nm * T Nm * bool) (o : red_op) : T Nm * T Nm * bool :=
  let '(dt, dur, ip) := cfg in
  match o with
  | RdDt v => if gtb Nm v (zero Nm) then (v, dur, ip) else cfg
  | RdDur v => if geb Nm v (zero Nm) then (dt, v, ip) else cfg
  | RdInplace b => (dt, dur, b)
  | RdObserve _ | RdClear _ => cfg
  end.

End Reducer.
