(* C14 proofs (real-number reading): whatever sequence of assignments is made, the component is the one the
   constructor builds for the resulting configuration. *)
From Coq Require Import List ZArith Bool Reals Lra Lia.
From Inferno Require Import Base.Num Base.NumR Gen.Infra C14.Config.
Import ListNotations.
Open Scope R_scope.

Notation rec := (rec RN). Notation comp := (comp RN).

(* every history agrees with the owner's reported configuration and has the size the constructor gives *)
Definition rec_ok (dt delay : R) (r : rec) : Prop :=
  r_dt RN r = dt /\ r_dur RN r = delay /\ r_incl RN r = true /\ r_size RN r = recordsz_expr RN delay dt true.
Definition comp_ok (c : comp) : Prop :=
  Forall (rec_ok (c_dt RN c) (c_delay RN c)) (c_recs RN c) /\ c_bdim RN c = c_batch RN c.

Lemma add_delayed_ok dt delay r : rec_ok dt delay (add_delayed RN dt delay r).
Proof. unfold rec_ok, add_delayed, rec_set_incl, rec_set_dur, rec_set_dt, resize. cbn. auto. Qed.

Lemma ctor_ok k dt delay b dt0 dur0 incl0 : comp_ok (ctor RN k dt delay b dt0 dur0 incl0).
Proof.
  unfold comp_ok, ctor. cbn. split; [|reflexivity]. apply Forall_forall. intros r Hr.
  apply in_map_iff in Hr. destruct Hr as (r0 & <- & _). apply add_delayed_ok.
Qed.

Lemma apply_ok (c : comp) (o : sop RN) : comp_ok c -> comp_ok (apply RN c o).
Proof.
  intros (Hr & Hb). destruct o as [v|v|v]; cbn [apply].
  - unfold set_dt, neb. rn_simpl. destruct (Reqb'_spec v (c_dt RN c)) as [E|E]; cbn [negb]; [split; assumption|].
    split; [|exact Hb]. cbn. apply Forall_forall. intros r Hin. apply in_map_iff in Hin. destruct Hin as (r0 & <- & Hin0).
    rewrite Forall_forall in Hr. destruct (Hr r0 Hin0) as (H1 & H2 & H3 & H4).
    unfold rec_ok, rec_set_dt, resize. cbn. rewrite H2, H3. auto.
  - unfold set_delay, neb. rn_simpl. destruct (Reqb'_spec v (c_delay RN c)) as [E|E]; cbn [negb]; [split; assumption|].
    split; [|exact Hb]. cbn. apply Forall_forall. intros r Hin. apply in_map_iff in Hin. destruct Hin as (r0 & <- & Hin0).
    rewrite Forall_forall in Hr. destruct (Hr r0 Hin0) as (H1 & H2 & H3 & H4).
    unfold rec_ok, rec_set_dur, resize. cbn. rewrite H1, H3. auto.
  - unfold set_batch. destruct (Z.eqb_spec v (c_batch RN c)); cbn [negb]; [split; assumption|]. split; [exact Hr|reflexivity].
Qed.

(* getters: each attribute reports the last value assigned to it (numerically) *)
Lemma apply_reports (c : comp) (o : sop RN) : let '(dt, dl, b) := expect RN (c_dt RN c, c_delay RN c, c_batch RN c) o in
  c_dt RN (apply RN c o) = dt /\ c_delay RN (apply RN c o) = dl /\ c_batch RN (apply RN c o) = b.
Proof.
  destruct o as [v|v|v]; cbn [expect apply].
  - unfold set_dt, neb. rn_simpl. destruct (Reqb'_spec v (c_dt RN c)) as [E|E]; cbn; auto.
  - unfold set_delay, neb. rn_simpl. destruct (Reqb'_spec v (c_delay RN c)) as [E|E]; cbn; auto.
  - unfold set_batch. destruct (Z.eqb_spec v (c_batch RN c)); cbn; auto.
Qed.

(* frame: an assignment changes no other attribute's reported value *)
Theorem setter_frame (c : comp) (o : sop RN) :
  match o with
  | SetDt _ _ => c_delay RN (apply RN c o) = c_delay RN c /\ c_batch RN (apply RN c o) = c_batch RN c
  | SetDelay _ _ => c_dt RN (apply RN c o) = c_dt RN c /\ c_batch RN (apply RN c o) = c_batch RN c
  | SetBatch _ _ => c_dt RN (apply RN c o) = c_dt RN c /\ c_delay RN (apply RN c o) = c_delay RN c
  end.
Proof.
  destruct o as [v|v|v]; cbn [apply].
  - unfold set_dt. destruct (neb RN v (c_dt RN c)); cbn; auto.
  - unfold set_delay. destruct (neb RN v (c_delay RN c)); cbn; auto.
  - unfold set_batch. destruct (negb _); cbn; auto.
Qed.

(* two well-formed components that report the same configuration and own the same number of histories are equal *)
Lemma ok_determined c1 c2 : comp_ok c1 -> comp_ok c2 ->
  c_dt RN c1 = c_dt RN c2 -> c_delay RN c1 = c_delay RN c2 -> c_batch RN c1 = c_batch RN c2 ->
  length (c_recs RN c1) = length (c_recs RN c2) -> c1 = c2.
Proof.
  destruct c1 as [dt1 dl1 b1 rs1 bd1], c2 as [dt2 dl2 b2 rs2 bd2]. unfold comp_ok. cbn.
  intros (H1 & E1) (H2 & E2) -> -> -> Hl. subst bd1 bd2. f_equal.
  revert rs2 H2 Hl. induction H1 as [|r1 t1 Hr1 _ IH]; intros [|r2 t2] H2 Hl; cbn in Hl; try lia; [reflexivity|].
  inversion H2 as [|? ? Hr2 H2']; subst. f_equal; [|apply IH; [assumption|lia]].
  destruct r1, r2. unfold rec_ok in *. cbn in *. destruct Hr1 as (-> & -> & -> & ->), Hr2 as (-> & -> & -> & ->). reflexivity.
Qed.

Lemma apply_len (c : comp) (o : sop RN) : length (c_recs RN (apply RN c o)) = length (c_recs RN c).
Proof.
  destruct o as [v|v|v]; cbn [apply]; unfold set_dt, set_delay, set_batch;
    match goal with |- context [if ?b then _ else _] => destruct b end; cbn; rewrite ?map_length; reflexivity.
Qed.

(* MAIN: any sequence of setter calls on a constructed component gives exactly the component the constructor
   builds for the configuration the user expects (reported values, history sizes, batch constraint) *)
Theorem setters_eq_ctor : forall (ops : list (sop RN)) k dt delay b dt0 dur0 incl0,
  let c := fold_left (apply RN) ops (ctor RN k dt delay b dt0 dur0 incl0) in
  let '(dt', dl', b') := fold_left (expect RN) ops (dt, delay, b) in
  c = ctor RN k dt' dl' b' dt0 dur0 incl0.
Proof.
  intros ops k dt delay b dt0 dur0 incl0.
  assert (G : forall ops c cfg, comp_ok c -> cfg = (c_dt RN c, c_delay RN c, c_batch RN c) ->
            length (c_recs RN c) = k ->
            let c' := fold_left (apply RN) ops c in
            comp_ok c' /\ fold_left (expect RN) ops cfg = (c_dt RN c', c_delay RN c', c_batch RN c') /\ length (c_recs RN c') = k).
  { clear. intros ops. induction ops as [|o ops IH]; intros c cfg Hok -> Hl; cbn [fold_left]; [auto|].
    apply IH; [apply apply_ok; exact Hok| |rewrite apply_len; exact Hl].
    pose proof (apply_reports c o) as Hr. destruct (expect RN _ o) as [[a1 a2] a3]. destruct Hr as (-> & -> & ->). reflexivity. }
  destruct (G ops (ctor RN k dt delay b dt0 dur0 incl0) (dt, delay, b) (ctor_ok _ _ _ _ _ _ _) eq_refl
              ltac:(cbn; rewrite map_length, repeat_length; reflexivity)) as (Hok & Hcfg & Hlen).
  cbv zeta. rewrite Hcfg.
  apply ok_determined; [exact Hok|apply ctor_ok|reflexivity|reflexivity|reflexivity|].
  rewrite Hlen. cbn. rewrite map_length, repeat_length. reflexivity.
Qed.

(* the delay setter as it was before the repair is NOT the constructor: it leaves one slot too many *)
Theorem old_delay_setter_refuted : exists c v,
  comp_ok c /\ ~ comp_ok (set_delay_old RN v c).
Proof.
  exists (ctor RN 1 1 1 1%Z 1 1 true), 3. split; [apply ctor_ok|].
  unfold comp_ok, set_delay_old, neb, ctor. rn_simpl. cbn [c_delay c_dt].
  destruct (Reqb'_spec 3 1) as [E|E]; [lra|]. cbn. intros (H & _). inversion H as [|? ? Hr _]; subst.
  unfold rec_ok in Hr. cbn in Hr. destruct Hr as (_ & Hd & _). lra.
Qed.

(* trace reducers: the decay factor always matches the reported step time *)
Definition tred_ok (r : tred RN) : Prop :=
  t_decay RN r = Rtrigo_def.exp (- t_dt RN r / t_tc RN r) /\ r_dt RN (t_rec RN r) = t_dt RN r /\
  r_size RN (t_rec RN r) = recordsz_expr RN (r_dur RN (t_rec RN r)) (t_dt RN r) (r_incl RN (t_rec RN r)).
Theorem tred_setters_ok : forall r v, tred_ok r -> tred_ok (tred_set_dt RN v r) /\ tred_ok (tred_set_dur RN v r).
Proof.
  intros r v (H1 & H2 & H3). split.
  - unfold tred_set_dt, neb, tred_ok. rn_simpl. destruct (Reqb'_spec v (t_dt RN r)) as [E|E]; cbn; rn_simpl; auto.
  - unfold tred_set_dur, neb, tred_ok. rn_simpl. destruct (Reqb'_spec v (r_dur RN (t_rec RN r))) as [E|E]; cbn; rn_simpl; auto.
    rewrite H2. auto.
Qed.
Theorem tred_ctor_ok dt tc dur incl : tred_ok (tred_ctor RN dt tc dur incl).
Proof. unfold tred_ok, tred_ctor. cbn. rn_simpl. auto. Qed.
