(* C14, connection level: the Connection forwarders on top of the synapse model with contents (C14/Batch.v scomp).

   inferno/neural/base.py, class Connection
     __init__ (809-818):        register_module("synapse_", synapse)
     synapse getter (826-836):  return self.synapse_
     synapse setter (838-840):  self.synapse_ = value      (before the repair: self.synapses = value, which
                                registers a SECOND submodule and leaves synapse_ alone)
     batchsz (842-861):         return self.synapse.batchsz ; self.synapse.batchsz = value
     dt (863-882):              return self.synapse.dt ; self.synapse.dt = value
     delayedby (1066-1078):     if self.delay is not None: return self.synapse.delay   (else None)
     clear (1108-1117):         Updatable.clear(self); self.synapse.clear()
   inferno/neural/connections/linear.py LinearDense.__init__ (97-115) (the other connections alike):
     Connection.__init__(self, synapse=synapse(in_size, step_time, 0.0 if delay is None else delay, batch_size));
     the delay parameter exists iff `delay is not None`
   Definitions only. *)
From Coq Require Import List ZArith Bool Arith.
From Inferno Require Import Base.Num Gen.Infra C01.Ring C13.Shaped C13.Resize C14.RecordCfg C14.Batch.
Import ListNotations.

Section Conn.
Variable Nm : Num.
Context {A D : Type}.
Variable cast : D -> A -> A.
Variable zeroA : A.

Notation scomp := (@scomp Nm A D).
Notation s_ctor := (@s_ctor Nm A D zeroA).
Notation s_clear := (@s_clear Nm A D cast zeroA).
Notation s_set_dt := (@s_set_dt Nm A D cast zeroA).
Notation s_set_batch := (@s_set_batch Nm A D zeroA).
Notation s_apply := (@s_apply Nm A D cast zeroA).

Record conn := mkConn {
  k_delayed : bool;            (* the connection owns a delay parameter (self.delay is not None) *)
  k_syn : scomp;               (* the registered submodule synapse_ *)
  k_stray : option scomp       (* the attribute `synapses`: only the pre-repair synapse setter ever wrote it *)
}.
(* Connection.__init__ with a given synapse *)
Definition conn_init (kd : bool) (s : scomp) : conn := mkConn kd s None.
(* a concrete connection's constructor: builds its synapse from (shape, dt, delay or 0.0, batch size) *)
Definition conn_ctor (ds : list D) (shp : list nat) (dt : T Nm) (delay : option (T Nm)) (b : Z) (ip : bool) : option conn :=
  match s_ctor ds shp dt (match delay with Some d => d | None => zero Nm end) b ip with
  | Some s => Some (conn_init (match delay with Some _ => true | None => false end) s)
  | None => None
  end.

(* getters *)
Definition conn_synapse (c : conn) : scomp := k_syn c.
Definition conn_dt (c : conn) : T Nm := s_dt Nm (conn_synapse c).
Definition conn_batch (c : conn) : Z := s_batch Nm (conn_synapse c).
Definition conn_delayedby (c : conn) : option (T Nm) :=
  if k_delayed c then Some (s_delay Nm (conn_synapse c)) else None.

(* setters *)
Definition conn_set_dt (c : conn) (v : T Nm) : conn := mkConn (k_delayed c) (s_set_dt (conn_synapse c) v) (k_stray c).
Definition conn_set_batch (c : conn) (v : Z) : conn := mkConn (k_delayed c) (s_set_batch (conn_synapse c) v) (k_stray c).
Definition conn_set_syn (c : conn) (s : scomp) : conn := mkConn (k_delayed c) s (k_stray c).
Definition conn_set_syn_old (c : conn) (s : scomp) : conn := mkConn (k_delayed c) (k_syn c) (Some s).
Definition conn_clear (c : conn) : conn := mkConn (k_delayed c) (s_clear (conn_synapse c)) (k_stray c).

(* operations: dt / batchsz assignment through the connection; an assignment made DIRECTLY on the owned synapse
   (connection.synapse.dt = v, .delay, .batchsz, .inplace - the other route to the same attributes: the connection keeps
   no copy of them, its getters read the synapse); construct a synapse (class = the data types of its histories ds)
   with a configuration and assign it - when the construction raises nothing is assigned *)
Inductive conn_op := KDt (v : T Nm) | KBatch (v : Z)
                   | KOnSyn (o : s_op Nm)
                   | KSyn (ds : list D) (dt dl : T Nm) (b : Z) (ip : bool).
Definition conn_apply (shp : list nat) (c : conn) (o : conn_op) : conn :=
  match o with
  | KDt v => conn_set_dt c v
  | KBatch v => conn_set_batch c v
  | KOnSyn o => mkConn (k_delayed c) (s_apply (conn_synapse c) o) (k_stray c)
  | KSyn ds dt dl b ip => match s_ctor ds shp dt dl b ip with Some s => conn_set_syn c s | None => c end
  end.
(* what the user expects: class and configuration of the connection's synapse *)
Definition conn_expect (cfg : list D * T Nm * T Nm * Z * bool) (o : conn_op) : list D * T Nm * T Nm * Z * bool :=
  let '(ds, dt, dl, b, ip) := cfg in
  match o with
  | KDt v => if gtb Nm v (zero Nm) then (ds, v, dl, b, ip) else cfg
  | KBatch v => if (v <=? 0)%Z then cfg else (ds, dt, dl, v, ip)
  | KOnSyn o' => let '(dt1, dl1, b1, ip1) := s_expect Nm (dt, dl, b, ip) o' in (ds, dt1, dl1, b1, ip1)
  | KSyn ds' dt' dl' b' ip' =>
      if (b' <=? 0)%Z then cfg else if negb (gtb Nm dt' (zero Nm)) then cfg else if negb (geb Nm dl' (zero Nm)) then cfg
      else (ds', dt', dl', b', ip')
  end.
Definition is_syn_op (o : conn_op) : bool := match o with KSyn _ _ _ _ _ => true | _ => false end.
(* assignments that reach only the step time and the batch size (through either route) *)
Definition dt_batch_op (o : conn_op) : bool :=
  match o with
  | KDt _ | KBatch _ | KOnSyn (SDt _ _) | KOnSyn (SBatch _ _) => true
  | _ => false
  end.

End Conn.
