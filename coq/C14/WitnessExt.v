(* Concrete witnesses for the extended C14 theorems (non-vacuity): records, histories and neuron tensors whose
   hypotheses hold and whose sizes / shapes really change under the assignments (integers as numbers, as in
   C13/Witness.v), and reducers / synapses / connections over the reals whose constructors succeed. *)
From Coq Require Import List ZArith Bool Arith Lia Reals Lra.
From Inferno Require Import Base.Num Base.NumR Gen.Infra C01.Ring C01.RingProofs C13.Shaped C13.Lists C13.ShapedProofs
  C13.Resize C13.ResizeProofs C13.Witness C14.RecordCfg C14.RecordCfgProofs C14.Batch C14.BatchProofs C14.SynProofs
  C14.Reducer C14.ReducerProofs C14.Conn C14.ConnProofs.
Import ListNotations.
Open Scope Z_scope.

Definition rec_w := rcreate ZN true false false [(0, 2%nat)] 1 3 false (Some (mkT 2 [2%nat] [5; 7])).
Definition ops_w : list (rset ZN) := [RDur ZN 6; RDt ZN 0; RIncl ZN true; RDur ZN (-1)].
Definition hist_w := @hist_ctor ZN Z Z 0 2 [3%nat] 2 1 2.
Definition neuron_w := @n_ctor Z Z castI 0 [(2, 0); (2, -120)] [3%nat] 2.

Theorem nonvacuous_ext :
  (* a created, initialised record: 3 slots; [duration = 6; dt = 0 (refused); inclusive; duration = -1 (refused)] -> 7 slots,
     expected configuration (1, 6, true); the hypotheses of record_setters_eq_ctor hold *)
  (exists r0, rec_w = inl r0 /\ Inv ZN r0 /\ N (rg ZN r0) = 3%nat /\
     N (rg ZN (fold_left (rapply ZN 0) ops_w r0)) = 7%nat /\
     fold_left (rexpect ZN) ops_w (1, 3, false) = (1, 6, true) /\
     st (rg ZN (rclear ZN castI (fold_left (rapply ZN 0) ops_w r0) 0)) =
       SFull 2 [2%nat] (repeat [0; 0] 7)) /\
  (* a synapse history (float64, shape (3), batch 2, dt 1, delay 2): 3 slots of shape (2, 3); batchsz = 4 -> (4, 3) *)
  (exists r, hist_w = inl r /\ hist_ok ZN 2 [3%nat] 1 2 2 r /\ N (rg ZN r) = 3%nat /\
     exists rows, st (rg ZN (@hist_set_batch ZN Z Z 0 r 4)) = SFull 2 [4%nat; 3%nat] rows /\ length rows = 3%nat) /\
  (* a neuron group: two batched tensors (2, 3); batchsz = 3 then clear -> (3, 3) full of the fill values *)
  (exists n, neuron_w = Some n /\ n_ok [(2, 0); (2, -120)] [3%nat] 2 n /\
     map (fun sf => sdat (fst sf)) (n_tensors (@n_set_batch Z Z castI 0 n 3)) =
       [DTensor (mkT 2 [3%nat; 3%nat] (repeat 0 9)); DTensor (mkT 2 [3%nat; 3%nat] (repeat (-120) 9))]) /\
  (* over the reals: the constructors of a reducer, a synapse with two histories and a delayed connection succeed *)
  (exists R0, @red_ctor RN Z Z 0 2 1%R 2%R true false 20%R = Some R0 /\ @red_ok Z Z 2 R0) /\
  (exists c0, @s_ctor RN Z Z 0 [2; 0] [3%nat] 1%R 2%R 2 false = Some c0 /\ @scomp_ok Z Z [2; 0] [3%nat] c0) /\
  (exists k0, @conn_ctor RN Z Z 0 [0] [3%nat] 1%R (Some 2%R) 2 false = Some k0 /\ conn_delayedby RN k0 = Some 2%R).
Proof.
  assert (G : forall x : R, (0 < x)%R -> gtb RN x (zero RN) = true /\ geb RN x (zero RN) = true).
  { intros x Hx. unfold gtb, geb. cbn [ltb leb RN zero]. destruct (Rltb'_spec 0 x); [|lra]. destruct (Rleb'_spec 0 x); [auto|lra]. }
  destruct (G 1%R ltac:(lra)) as [G1 G1']. destruct (G 2%R ltac:(lra)) as [G2 G2']. destruct (G 20%R ltac:(lra)) as [G20 _].
  split; [|split; [|split; [|split; [|split]]]].
  - eexists. split; [vm_compute; reflexivity|]. split.
    { apply (rcreate_inv ZN castI promoteI Z.eqb 0 2 true false false [(0, 2%nat)] 1 3 false (Some (mkT 2 [2%nat] [5; 7])));
        [vm_compute; reflexivity|repeat constructor; cbn; tauto|reflexivity|left; reflexivity]. }
    repeat split; vm_compute; reflexivity.
  - destruct (hist_ctor_ok ZN castI promoteI Z.eqb 0 2 2 [3%nat] 2 1 2 ltac:(lia) eq_refl eq_refl) as (r & Hr & Hok).
    exists r. split; [exact Hr|]. split; [exact Hok|].
    assert (E : hist_w = inl (mkRec ZN (mkRing 3 0 (SFull 2 [2%nat; 3%nat] (repeat (repeat 0 6) 3))) true false false [(1, 2%nat)] 1 2 true))
      by (vm_compute; reflexivity).
    unfold hist_w in E. rewrite Hr in E. injection E as ->. split; [reflexivity|].
    eexists. split; vm_compute; reflexivity.
  - eexists. split; [vm_compute; reflexivity|]. split.
    { apply (n_ctor_ok castI 0 [(2, 0); (2, -120)] [3%nat] 2). vm_compute. reflexivity. }
    vm_compute. reflexivity.
  - eexists. split; [apply (red_ctor_canon (A:=Z) (D:=Z) castI promoteI Z.eqb 0 2 1%R 2%R true false 20%R G1 G2' G20)|].
    apply (red_canon_ok castI promoteI Z.eqb 0 2); assumption.
  - destruct (s_ctor_spec castI promoteI Z.eqb 0 2 [2; 0] [3%nat] 1%R 2%R 2 false ltac:(lia) G1 G2') as (c & Hc & _ & Hok). eauto.
  - destruct (s_ctor_spec castI promoteI Z.eqb 0 2 [0] [3%nat] 1%R 2%R 2 false ltac:(lia) G1 G2') as (c & Hc & Hcfg & Hok).
    unfold conn_ctor. rewrite Hc. eexists. split; [reflexivity|]. unfold conn_delayedby, conn_synapse, conn_init. cbn [k_delayed k_syn].
    unfold s_cfg in Hcfg. injection Hcfg as _ -> _ _. reflexivity.
Qed.
