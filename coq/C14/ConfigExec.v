(* executable (binary64) reading of the C14 configuration model, for the correspondence check *)
From Coq Require Import List ZArith Bool.
From Inferno Require Import Base.Num Base.NumF Gen.Infra C14.Config.
Import ListNotations.
Definition ser_comp (c : comp FN) : tree :=
  Nd [ser_float (c_dt FN c); ser_float (c_delay FN c); L (c_batch FN c); ser_list (fun r => L (r_size FN r)) (c_recs FN c);
      L (c_bdim FN c)].
Definition run_comp (k : nat) (dt delay : T FN) (b : Z) (ops : list (sop FN)) : tree :=
  ser_comp (fold_left (apply FN) ops (ctor FN k dt delay b dt delay true)).
Inductive top := TDt (v : T FN) | TDur (v : T FN).
Definition tapply (r : tred FN) (o : top) : tred FN :=
  match o with TDt v => tred_set_dt FN v r | TDur v => tred_set_dur FN v r end.
Definition run_tred (dt tc dur : T FN) (incl : bool) (ops : list top) : tree :=
  let r := fold_left tapply ops (tred_ctor FN dt tc dur incl) in
  Nd [ser_float (t_dt FN r); ser_float (t_decay FN r); L (r_size FN (t_rec FN r)); ser_float (r_dur FN (t_rec FN r))].

(* ====================================================================================================
   Executable readings of the extended C14 models (RecordTensor level, reducers, synapses with contents,
   connections, batch size).  Elements are integers z standing for z/2, data types 0 = bool, 1 = int64,
   2 = float64 (C01/RingExec.v); the default data type (torch.empty(0)) is float64. *)
From Inferno Require Import C01.Ring C01.RingExec C13.Shaped C13.Resize C13.ResizeExec
  C14.RecordCfg C14.Batch C14.Reducer C14.Conn.

Definition ser_skind (r : rec0) : tree :=
  match st (rg FN r) with
  | SNone => Nd [L 0]
  | SEmpty d => Nd [L 1; L d]
  | SFull d sh rows => Nd [L 2; L d; ser_shape sh; ser_nat (length rows)]
  end%Z.
(* a record without its contents: slots, pointer, storage kind / data type / observation shape, user constraints,
   its own temporal configuration *)
Definition ser_rec_shape (r : rec0) : tree :=
  Nd [ser_nat (N (rg FN r)); ser_nat (ptr (rg FN r)); ser_skind r; ser_cons (user_cons FN r);
      ser_float (rdt FN r); ser_float (rdur FN r); ser_bool (rincl FN r)].

(* ---------------- RecordTensor level ---------------- *)
Inductive xop := XSet (s : rset FN) | XPush (o : @obs Z Z).
Definition xapply (r : rec0) (o : xop) : rec0 :=
  match o with
  | XSet s => rapply FN 0%Z r s
  | XPush ob => fst (fst (rstep0 r (RRing FN (OpPush ob false))))
  end.
Definition xexpect (cfg : PrimFloat.float * PrimFloat.float * bool) (o : xop) :=
  match o with XSet s => rexpect FN cfg s | XPush _ => cfg end.
Fixpoint xtrace (r : rec0) (ops : list xop) : list tree :=
  match ops with [] => [] | o :: tl => let r' := xapply r o in ser_rec r' :: xtrace r' tl end.
(* [per-op states; expected configuration; state after reset; fresh record of that configuration (from a value of the
   same data type and observation shape), and the fresh record after reset] *)
Definition run_record (strict : bool) (ucons : cons_t) (dt dur : PrimFloat.float) (incl : bool)
                      (value : option tensor0) (ops : list xop) : tree :=
  match rcreate FN strict false false ucons dt dur incl value with
  | inl r0 =>
      let r := fold_left xapply ops r0 in
      let '(dt', dur', incl') := fold_left xexpect ops (dt, dur, incl) in
      Nd [L 0; ser_rec r0; Nd (xtrace r0 ops); Nd [ser_float dt'; ser_float dur'; ser_bool incl'];
          ser_rec (rclear FN castZ r 0%Z);
          match rcreate FN strict false false ucons dt' dur' incl' (template FN 0%Z r) with
          | inl rf => Nd [L 0; ser_rec rf; ser_rec (rclear FN castZ rf 0%Z)]
          | inr e => Nd [L 1; ser_xerr (Some e)]
          end]
  | inr e => Nd [L 1; ser_xerr (Some e)]
  end%Z.

(* ---------------- reducers ---------------- *)
Definition red0 := @red FN Z Z.
Definition ser_red (R : red0) : tree :=
  Nd [ser_float (d_dt FN R); ser_float (d_dur FN R); ser_bool (d_incl FN R); ser_bool (d_inplace FN R);
      ser_float (d_decay FN R); ser_bool (d_initial FN R); ser_rec_shape (d_rec FN R)].
Definition red_apply0 : red0 -> red_op FN -> red0 := @red_apply FN Z Z castZ promoteZ Z.eqb 0%Z 2%Z.
Fixpoint red_trace (R : red0) (ops : list (@red_op FN Z Z)) : list tree :=
  match ops with [] => [] | o :: tl => let R' := red_apply0 R o in ser_red R' :: red_trace R' tl end.
Definition run_red (dt dur : PrimFloat.float) (incl ip : bool) (tc : PrimFloat.float) (ops : list (@red_op FN Z Z)) : tree :=
  match @red_ctor FN Z Z 0%Z 2%Z dt dur incl ip tc with
  | Some R0 =>
      let R := fold_left red_apply0 ops R0 in
      let '(dt', dur', ip') := fold_left (@red_expect FN Z Z) ops (dt, dur, ip) in
      Nd [L 0; ser_red R0; Nd (red_trace R0 ops); Nd [ser_float dt'; ser_float dur'; ser_bool ip'];
          ser_red (@red_clear FN Z Z castZ 0%Z 2%Z R false);
          match @red_ctor FN Z Z 0%Z 2%Z dt' dur' incl ip' tc with Some Rf => Nd [L 0; ser_red Rf] | None => Nd [L 1] end]
  | None => Nd [L 1]
  end%Z.
(* the pre-repair duration setter, for the record of what it did *)
Definition run_red_old (dt dur : PrimFloat.float) (incl ip : bool) (tc v : PrimFloat.float) : tree :=
  match @red_ctor FN Z Z 0%Z 2%Z dt dur incl ip tc with
  | Some R0 => Nd [L 0; ser_red (@red_set_dur_old FN Z Z 0%Z R0 v)]
  | None => Nd [L 1]
  end%Z.

(* ---------------- synapses with contents ---------------- *)
Definition scomp0 := @scomp FN Z Z.
Definition ser_scomp (full : bool) (c : scomp0) : tree :=
  Nd [ser_float (s_dt FN c); ser_float (s_delay FN c); L (s_batch FN c); ser_bool (s_inplace FN c);
      ser_list (if full then ser_rec else ser_rec_shape) (s_hists FN c)].
Definition s_apply0 : scomp0 -> s_op FN -> scomp0 := @s_apply FN Z Z castZ 0%Z.
Fixpoint s_trace (c : scomp0) (ops : list (s_op FN)) : list tree :=
  match ops with [] => [] | o :: tl => let c' := s_apply0 c o in ser_scomp false c' :: s_trace c' tl end.
Definition run_syn (ds : list Z) (shp : list nat) (dt delay : PrimFloat.float) (b : Z) (ip : bool) (ops : list (s_op FN)) : tree :=
  match @s_ctor FN Z Z 0%Z ds shp dt delay b ip with
  | Some c0 =>
      let c := fold_left s_apply0 ops c0 in
      let '(dt', dl', b', ip') := fold_left (s_expect FN) ops (dt, delay, b, ip) in
      Nd [L 0; ser_scomp true c0; Nd (s_trace c0 ops); Nd [ser_float dt'; ser_float dl'; L b'; ser_bool ip'];
          ser_scomp true (@s_clear FN Z Z castZ 0%Z c);
          match @s_ctor FN Z Z 0%Z ds shp dt' dl' b' ip' with
          | Some cf => Nd [L 0; ser_scomp true (@s_clear FN Z Z castZ 0%Z cf)]
          | None => Nd [L 1]
          end]
  | None => Nd [L 1]
  end%Z.

(* ---------------- connections ---------------- *)
Definition conn0 := @conn FN Z Z.
Definition ser_conn (full : bool) (c : conn0) : tree :=
  Nd [ser_float (conn_dt FN c); L (conn_batch FN c); ser_option ser_float (conn_delayedby FN c);
      ser_scomp full (conn_synapse FN c); ser_bool (match k_stray FN c with Some _ => true | None => false end)].
Definition conn_apply0 (shp : list nat) : conn0 -> @conn_op FN Z -> conn0 := @conn_apply FN Z Z castZ 0%Z shp.
Fixpoint conn_trace (shp : list nat) (c : conn0) (ops : list (@conn_op FN Z)) : list tree :=
  match ops with [] => [] | o :: tl => let c' := conn_apply0 shp c o in ser_conn false c' :: conn_trace shp c' tl end.
Definition run_conn (ds : list Z) (shp : list nat) (dt : PrimFloat.float) (delay : option PrimFloat.float) (b : Z) (ip : bool)
                    (ops : list (@conn_op FN Z)) : tree :=
  match @conn_ctor FN Z Z 0%Z ds shp dt delay b ip with
  | Some c0 =>
      let c := fold_left (conn_apply0 shp) ops c0 in
      let '(ds', dt', dl', b', ip') :=
        fold_left (@conn_expect FN Z) ops (ds, dt, match delay with Some d => d | None => zero FN end, b, ip) in
      Nd [L 0; ser_conn true c0; Nd (conn_trace shp c0 ops);
          Nd [ser_list ser_Z ds'; ser_float dt'; ser_float dl'; L b'; ser_bool ip'];
          ser_conn true (@conn_clear FN Z Z castZ 0%Z c);
          match @s_ctor FN Z Z 0%Z ds' shp dt' dl' b' ip' with
          | Some sf => Nd [L 0; ser_conn true (@conn_clear FN Z Z castZ 0%Z
                                  (conn_init FN (match delay with Some _ => true | None => false end) sf))]
          | None => Nd [L 1]
          end]
  | None => Nd [L 1]
  end%Z.
(* the pre-repair synapse setter *)
Definition run_conn_old (ds ds2 : list Z) (shp : list nat) (dt : PrimFloat.float) (b : Z) : tree :=
  match @conn_ctor FN Z Z 0%Z ds shp dt None b false, @s_ctor FN Z Z 0%Z ds2 shp dt (zero FN) b false with
  | Some c0, Some s => Nd [L 0; ser_conn false (conn_set_syn_old FN c0 s)]
  | _, _ => Nd [L 1]
  end%Z.

(* ---------------- neurons: batched ShapedTensor state ---------------- *)
Definition nstate0 := @nstate Z Z.
Definition ser_nstate (n : nstate0) : tree :=
  Nd [L (n_batch n); ser_list (fun sf => ser_shaped (fst sf)) (n_tensors n)].
Definition n_set_batch0 : nstate0 -> Z -> nstate0 := @n_set_batch Z Z castZ 0%Z.
Fixpoint n_trace (n : nstate0) (vs : list Z) : list tree :=
  match vs with [] => [] | v :: tl => let n' := n_set_batch0 n v in ser_nstate n' :: n_trace n' tl end.
Definition run_neuron (specs : list (Z * Z)) (shp : list nat) (b : Z) (vs : list Z) : tree :=
  match @n_ctor Z Z castZ 0%Z specs shp b with
  | Some n0 =>
      Nd [L 0; ser_nstate n0; Nd (n_trace n0 vs); L (fold_left n_expect vs b);
          match @n_ctor Z Z castZ 0%Z specs shp (fold_left n_expect vs b) with
          | Some nf => Nd [L 0; ser_nstate nf] | None => Nd [L 1] end;
          ser_nstate (@n_clear Z Z castZ (fold_left n_set_batch0 vs n0))]
  | None => Nd [L 1]
  end%Z.
