(* executable (binary64) reading of the C14 configuration model, for the correspondence check *)
From Coq Require Import List ZArith Bool.
From Inferno Require Import Base.Num Base.NumF Gen.Infra C14.Config.
Import ListNotations.
Definition ser_comp (c : comp FN) : tree :=
  Nd [ser_float (c_dt FN c); ser_float (c_delay FN c); L (c_batch FN c); ser_list (fun r => L (r_size FN r)) (c_recs FN c);
      L (c_bdim FN c)].
Definition run_comp (k : nat) (dt delay : T FN) (b : Z) (ops : list (sop FN)) : tree :=
  ser_comp (fold_left (apply FN) ops (ctor FN k dt delay b dt delay true)).
Inductive top := TDt (v : T FN) | TDur (v : T FN).
Definition tapply (r : tred FN) (o : top) : tred FN :=
  match o with TDt v => tred_set_dt FN v r | TDur v => tred_set_dur FN v r end.
Definition run_tred (dt tc dur : T FN) (incl : bool) (ops : list top) : tree :=
  let r := fold_left tapply ops (tred_ctor FN dt tc dur incl) in
  Nd [ser_float (t_dt FN r); ser_float (t_decay FN r); L (r_size FN (t_rec FN r)); ser_float (r_dur FN (t_rec FN r))].
