(* C14, RecordTensor level: sequences of temporal assignments (dt / duration / inclusive) on a record, on top
   of the finished C13 model of the setters (C13/Resize.v, which mirrors inferno/core/infrastructure.py
   1164-1249 branch by branch: argument test, store the value, recompute the size with the generated
   record-size expression, align + ShapedTensor.reconstrain(0, size) when the size changes).
   Definitions only. *)
From Coq Require Import List ZArith Bool Arith.
From Inferno Require Import Base.Num Gen.Infra C01.Ring C13.Shaped C13.Resize.
Import ListNotations.

Section RecordCfg.
Variable Nm : Num.
Context {A D : Type}.
Variable cast : D -> A -> A.
Variable zeroA : A.

Notation rec := (@rec Nm A D).
Notation tensor := (@tensor A D).
Notation rg := (@rg Nm A D).

(* one assignment `rec.dt = v`, `rec.duration = v`, `rec.inclusive = b` *)
Inductive rset := RDt (v : T Nm) | RDur (v : T Nm) | RIncl (b : bool).

(* the state after the assignment (an assignment that raises leaves whatever state the setter had reached,
   exactly as C13.Resize models it) *)
Definition rapply (r : rec) (s : rset) : rec :=
  match s with
  | RDt v => fst (set_dt Nm zeroA r v)
  | RDur v => fst (set_duration Nm zeroA r v)
  | RIncl b => fst (set_inclusive Nm zeroA r b)
  end.

(* the configuration the user expects: the last ACCEPTED value of each attribute (argtest.gt / argtest.gte
   refuse dt <= 0 and duration < 0 with a ValueError before anything is stored) *)
Definition rexpect (cfg : T Nm * T Nm * bool) (s : rset) : T Nm * T Nm * bool :=
  let '(dt, dur, incl) := cfg in
  match s with
  | RDt v => if gtb Nm v (zero Nm) then (v, dur, incl) else cfg
  | RDur v => if geb Nm v (zero Nm) then (dt, v, incl) else cfg
  | RIncl b => (dt, dur, b)
  end.

(* RecordTensor.reset(fill), infrastructure.py:1401-1419 (the branch fill is not None): fill the storage
   in place when it is initialised, pointer to 0 *)
Definition rclear (r : rec) (f : A) : rec :=
  match reset cast (rg r) (Some f) with
  | Ok g _ => set_rg Nm r g
  | Err _ => r
  end.

(* what the storage of a record looks like from outside: nothing / an empty tensor of a data type /
   a tensor of a data type and observation shape *)
Inductive skind := KNone | KEmpty (d : D) | KFull (d : D) (sh : list nat).
Definition skind_of (r : rec) : skind :=
  match st (rg r) with SNone => KNone | SEmpty d => KEmpty d | SFull d sh _ => KFull d sh end.

(* [value] could have been the constructor argument of a record whose storage now looks like [r]'s:
   None <-> no storage, an ignored (empty) tensor <-> empty storage of its data type, otherwise a
   tensor of the record's data type and observation shape *)
Definition value_matches (r : rec) (value : option tensor) : Prop :=
  match value with
  | None => st (rg r) = SNone
  | Some t =>
      if ignore (DTensor t) then st (rg r) = SEmpty (tdt t)
      else length (tflat t) = nel (tshape t) /\ exists rows, st (rg r) = SFull (tdt t) (tshape t) rows
  end.

(* an observation-shaped value for the constructor, from the storage of an existing record *)
Definition template (r : rec) : option tensor :=
  match st (rg r) with
  | SNone => None
  | SEmpty d => Some (mkT d [0] [])
  | SFull d sh _ => Some (mkT d sh (repeat zeroA (nel sh)))
  end.

End RecordCfg.
