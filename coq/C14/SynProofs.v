(* C14, a synapse WITH the contents of its histories (real-number reading): any sequence of dt / delay /
   batchsz / inplace assignments followed by clear() gives exactly the cleared state of the synapse the
   constructor builds for the resulting configuration - reported values, number of slots, shapes (b, *shape),
   constraints, pointers and (zero) contents of every history.  Combines the record level
   (RecordCfgProofs) with the batch level (BatchProofs). *)
From Coq Require Import List ZArith Bool Arith Lia Reals.
From Inferno Require Import Base.Num Base.NumR Gen.Infra C01.Ring C01.RingProofs C13.Shaped C13.Lists C13.ShapedProofs
  C13.Resize C13.ResizeProofs C14.RecordCfg C14.RecordCfgProofs C14.Batch C14.BatchProofs.
Import ListNotations.
Open Scope nat_scope.

Lemma neb_false (v w : T RN) : neb RN v w = false -> v = w.
Proof. unfold neb. cbn [eqb RN]. destruct (Reqb'_spec v w); [auto|discriminate]. Qed.

Section Syn.
Context {A D : Type}.
Variable cast : D -> A -> A.
Variable promote : D -> D -> D.
Variable D_eqb : D -> D -> bool.
Variable zeroA : A.
Variable default_d : D.

Notation rec := (@rec RN A D).
Notation scomp := (@scomp RN A D).
Notation s_ctor := (@s_ctor RN A D zeroA).
Notation s_clear := (@s_clear RN A D cast zeroA).
Notation s_apply := (@s_apply RN A D cast zeroA).
Notation s_expect := (@s_expect RN).
Notation hist_ok := (@hist_ok RN A D).
Notation hist_canon := (@hist_canon RN A D cast).
Notation hist_ctor := (@hist_ctor RN A D zeroA).
Notation rclear := (@rclear RN A D cast).

Definition s_cfg (c : scomp) : T RN * T RN * Z * bool := (s_dt RN c, s_delay RN c, s_batch RN c, s_inplace RN c).

(* every history is a history of the reported configuration *)
Definition scomp_ok (ds : list D) (shp : list nat) (c : scomp) : Prop :=
  exists nb, s_batch RN c = Z.of_nat nb /\ 0 < nb /\
    gtb RN (s_dt RN c) (zero RN) = true /\ geb RN (s_delay RN c) (zero RN) = true /\
    Forall2 (fun d r => hist_ok d shp (s_dt RN c) (s_delay RN c) nb r) ds (s_hists RN c).
Definition s_canon (ds : list D) (shp : list nat) (dt delay : T RN) (b : Z) (ip : bool) : scomp :=
  mkS RN dt delay b ip (map (fun d => hist_canon d shp dt delay (Z.to_nat b) zeroA) ds).

Lemma s_clear_canon ds shp c : scomp_ok ds shp c ->
  s_clear c = s_canon ds shp (s_dt RN c) (s_delay RN c) (s_batch RN c) (s_inplace RN c).
Proof.
  intros (nb & Hb & Hp & _ & _ & Hf). unfold Batch.s_clear, s_canon. f_equal. rewrite Hb, Nat2Z.id.
  induction Hf as [|d r tl1 tl2 Hok _ IH]; [reflexivity|]. cbn [map]. f_equal; [|exact IH].
  apply (hist_clear_canon RN cast _ _ _ _ _ _ _ Hok).
Qed.
Lemma s_clear_ok ds shp c : scomp_ok ds shp c -> scomp_ok ds shp (s_clear c).
Proof.
  intros (nb & Hb & Hp & G1 & G2 & Hf). exists nb. cbn [Batch.s_clear s_batch s_dt s_delay s_hists].
  do 4 (split; [assumption|]).
  induction Hf as [|d r tl1 tl2 Hok _ IH]; cbn [map]; [constructor|]. constructor; [|exact IH].
  apply (hist_clear_ok RN cast promote D_eqb zeroA default_d). exact Hok.
Qed.

Lemma s_ctor_spec ds shp dt delay b ip : (0 < b)%Z -> gtb RN dt (zero RN) = true -> geb RN delay (zero RN) = true ->
  exists c, s_ctor ds shp dt delay b ip = Some c /\ s_cfg c = (dt, delay, b, ip) /\ scomp_ok ds shp c.
Proof.
  intros Hb Hdt Hdl. unfold Batch.s_ctor. destruct (Z.leb_spec b 0); [lia|]. rewrite Hdt, Hdl. cbn [negb].
  assert (E : exists hs, all_inl (map (fun d => hist_ctor d shp b dt delay) ds) = Some hs /\
               Forall2 (fun d r => hist_ok d shp dt delay (Z.to_nat b) r) ds hs).
  { induction ds as [|d tl IH]; [exists []; split; [reflexivity|constructor]|].
    destruct IH as (hs & E1 & E2).
    destruct (hist_ctor_ok RN cast promote D_eqb zeroA default_d d shp b dt delay Hb Hdt Hdl) as (r & Hr & Hok).
    exists (r :: hs). cbn [map all_inl]. rewrite Hr, E1. split; [reflexivity|constructor; assumption]. }
  destruct E as (hs & E1 & E2). rewrite E1. eexists. split; [reflexivity|]. split; [reflexivity|].
  exists (Z.to_nat b). cbn [s_batch s_dt s_delay s_hists]. split; [lia|]. split; [lia|]. auto.
Qed.
Lemma s_ctor_some ds shp dt delay b ip c : s_ctor ds shp dt delay b ip = Some c ->
  (0 < b)%Z /\ gtb RN dt (zero RN) = true /\ geb RN delay (zero RN) = true.
Proof.
  unfold Batch.s_ctor. destruct (Z.leb_spec b 0); [discriminate|].
  destruct (gtb RN dt (zero RN)); [|discriminate]. destruct (geb RN delay (zero RN)); [|discriminate]. intros _. auto with zarith.
Qed.

Lemma Forall2_map_r {X Y} (P : X -> Y -> Prop) (Q : X -> Y -> Prop) (f : Y -> Y) l1 l2 :
  (forall x y, P x y -> Q x (f y)) -> Forall2 P l1 l2 -> Forall2 Q l1 (map f l2).
Proof. intros H. induction 1; cbn [map]; constructor; auto. Qed.

(* one assignment keeps the invariant and reports what the user expects *)
Lemma s_apply_ok ds shp c (o : s_op RN) : scomp_ok ds shp c ->
  scomp_ok ds shp (s_apply c o) /\ s_cfg (s_apply c o) = s_expect (s_cfg c) o.
Proof.
  intros Hok. pose proof Hok as (nb & Hb & Hp & G1 & G2 & Hf).
  destruct o as [v|v|v|x]; cbn [Batch.s_apply Batch.s_expect s_cfg].
  - (* dt *)
    unfold Batch.s_set_dt. destruct (gtb RN v (zero RN)) eqn:Ev; cbn [negb]; [|split; [exact Hok|reflexivity]].
    destruct (neb RN v (s_dt RN c)) eqn:En.
    + split; [|reflexivity]. apply s_clear_ok. exists nb. cbn [s_batch s_dt s_delay s_hists].
      do 4 (split; [assumption|]). eapply Forall2_map_r; [|exact Hf]. intros d r Hr.
      pose proof (hist_apply_ok RN cast promote D_eqb zeroA default_d _ _ _ _ _ _ (RDt RN v) Hr) as H.
      cbn [rexpect] in H. rewrite Ev in H. apply H. reflexivity.
    + apply neb_false in En. subst v. split; [apply s_clear_ok; exact Hok|reflexivity].
  - (* delay *)
    unfold Batch.s_set_delay. destruct (geb RN v (zero RN)) eqn:Ev; cbn [negb]; [|split; [exact Hok|reflexivity]].
    destruct (neb RN v (s_delay RN c)) eqn:En.
    + split; [|reflexivity]. apply s_clear_ok. exists nb. cbn [s_batch s_dt s_delay s_hists].
      do 4 (split; [assumption|]). eapply Forall2_map_r; [|exact Hf]. intros d r Hr.
      pose proof (hist_apply_ok RN cast promote D_eqb zeroA default_d _ _ _ _ _ _ (RDur RN v) Hr) as H.
      cbn [rexpect] in H. rewrite Ev in H. apply H. reflexivity.
    + apply neb_false in En. subst v. split; [apply s_clear_ok; exact Hok|reflexivity].
  - (* batch size *)
    unfold Batch.s_set_batch. destruct (Z.leb_spec v 0) as [Hv|Hv]; [split; [exact Hok|reflexivity]|].
    destruct (Z.eqb_spec v (s_batch RN c)) as [E|E]; cbn [negb].
    + subst v. split; [exact Hok|reflexivity].
    + split; [|reflexivity]. exists (Z.to_nat v). cbn [s_batch s_dt s_delay s_hists].
      split; [lia|]. split; [lia|]. do 2 (split; [assumption|]).
      eapply Forall2_map_r; [|exact Hf]. intros d r Hr.
      apply (hist_set_batch_ok RN cast promote D_eqb zeroA default_d _ _ _ _ _ _ _ Hr Hv).
  - (* inplace *)
    split; [|reflexivity]. exists nb. cbn [Batch.s_set_inplace s_batch s_dt s_delay s_hists]. auto.
Qed.

Lemma s_run_ok ds shp : forall (ops : list (s_op RN)) c, scomp_ok ds shp c ->
  scomp_ok ds shp (fold_left s_apply ops c) /\ s_cfg (fold_left s_apply ops c) = fold_left s_expect ops (s_cfg c).
Proof.
  induction ops as [|o ops IH]; intros c Hok; cbn [fold_left]; [auto|].
  destruct (s_apply_ok ds shp c o Hok) as [H1 H2]. destruct (IH _ H1) as [H3 H4]. split; [exact H3|]. rewrite H4, H2. reflexivity.
Qed.

(* frame: an assignment changes no other attribute's reported value *)
Theorem syn_setter_frame (c : scomp) (o : s_op RN) :
  match o with
  | SDt _ _ => s_delay RN (s_apply c o) = s_delay RN c /\ s_batch RN (s_apply c o) = s_batch RN c /\ s_inplace RN (s_apply c o) = s_inplace RN c
  | SDelay _ _ => s_dt RN (s_apply c o) = s_dt RN c /\ s_batch RN (s_apply c o) = s_batch RN c /\ s_inplace RN (s_apply c o) = s_inplace RN c
  | SBatch _ _ => s_dt RN (s_apply c o) = s_dt RN c /\ s_delay RN (s_apply c o) = s_delay RN c /\ s_inplace RN (s_apply c o) = s_inplace RN c
  | SInplace _ _ => s_dt RN (s_apply c o) = s_dt RN c /\ s_delay RN (s_apply c o) = s_delay RN c /\ s_batch RN (s_apply c o) = s_batch RN c
  end.
Proof.
  destruct o as [v|v|v|x]; cbn [Batch.s_apply].
  - unfold Batch.s_set_dt. destruct (negb _); [auto|]. destruct (neb RN v (s_dt RN c)); cbn; auto.
  - unfold Batch.s_set_delay. destruct (negb _); [auto|]. destruct (neb RN v (s_delay RN c)); cbn; auto.
  - unfold Batch.s_set_batch. destruct (v <=? 0)%Z; [auto|]. destruct (negb _); cbn; auto.
  - cbn. auto.
Qed.

(* MAIN (synapse with contents): setters, then clear = constructor, then clear - as whole states *)
Theorem syn_setters_clear_eq_ctor ds shp dt delay b ip c0 (ops : list (s_op RN)) :
  s_ctor ds shp dt delay b ip = Some c0 ->
  let '(dt', dl', b', ip') := fold_left s_expect ops (dt, delay, b, ip) in
  exists cf, s_ctor ds shp dt' dl' b' ip' = Some cf /\
    s_cfg (fold_left s_apply ops c0) = (dt', dl', b', ip') /\
    s_clear (fold_left s_apply ops c0) = s_clear cf.
Proof.
  intros Hc. destruct (s_ctor_some _ _ _ _ _ _ _ Hc) as (Hb & Hdt & Hdl).
  destruct (s_ctor_spec ds shp dt delay b ip Hb Hdt Hdl) as (c0' & Hc' & Hcfg & Hok). rewrite Hc in Hc'. injection Hc' as <-.
  destruct (s_run_ok ds shp ops c0 Hok) as [Hok' Hcfg']. rewrite Hcfg in Hcfg'.
  destruct (fold_left s_expect ops (dt, delay, b, ip)) as [[[dt' dl'] b'] ip'].
  set (c := fold_left s_apply ops c0) in *.
  unfold s_cfg in Hcfg'. injection Hcfg' as E1 E2 E3 E4.
  pose proof Hok' as (nb & Hb' & Hp' & G1 & G2 & _). rewrite E1 in G1. rewrite E2 in G2.
  assert (Hb'' : (0 < b')%Z) by lia.
  destruct (s_ctor_spec ds shp dt' dl' b' ip' Hb'' G1 G2) as (cf & Hcf & Hcfgf & Hokf).
  exists cf. split; [exact Hcf|]. split; [unfold s_cfg; congruence|].
  rewrite (s_clear_canon _ _ _ Hok'), (s_clear_canon _ _ _ Hokf).
  unfold s_cfg in Hcfgf. injection Hcfgf as F1 F2 F3 F4. congruence.
Qed.

End Syn.
