(* C14 - configuration-path independence: model of the configuration setters.

   A component with a step time, a maximum delay and a batch size owns k histories (RecordTensors).
   The model mirrors inferno/neural/mixins.py (DelayedMixin, BatchMixin), the RecordTensor temporal setters
   (inferno/core/infrastructure.py) and the trace reducers' dt setter (inferno/observe/reducers/{base,trace}.py):
   each history keeps ITS OWN copy of (dt, duration, inclusive) and a size recomputed by the generated
   [recordsz_expr]; the owner's setters forward to the histories only when the value changes. *)
From Coq Require Import List ZArith Bool.
From Inferno Require Import Base.Num Gen.Infra.
Import ListNotations.

Section Config.
Variable N : Num.

(* one history: its own temporal configuration and its size (slots) *)
Record rec := mkRec { r_dt : T N; r_dur : T N; r_incl : bool; r_size : Z }.
Definition resize (r : rec) : rec :=
  mkRec (r_dt r) (r_dur r) (r_incl r) (recordsz_expr N (r_dur r) (r_dt r) (r_incl r)).
(* RecordTensor.dt / .duration / .inclusive setters: assign, then recompute the size *)
Definition rec_set_dt (v : T N) (r : rec) : rec := resize (mkRec v (r_dur r) (r_incl r) (r_size r)).
Definition rec_set_dur (v : T N) (r : rec) : rec := resize (mkRec (r_dt r) v (r_incl r) (r_size r)).
Definition rec_set_incl (b : bool) (r : rec) : rec := resize (mkRec (r_dt r) (r_dur r) b (r_size r)).
(* RecordTensor constructor *)
Definition rec_new (dt dur : T N) (incl : bool) : rec := mkRec dt dur incl (recordsz_expr N dur dt incl).

(* a delayed, batched component (synapse): reported configuration + its histories + batch constraint *)
Record comp := mkComp { c_dt : T N; c_delay : T N; c_batch : Z; c_recs : list rec; c_bdim : Z }.

(* constructor: histories are created, then add_delayed assigns dt, duration, inclusive=True in that order;
   add_batched reconstrains dimension 0 to the batch size *)
Definition add_delayed (dt delay : T N) (r : rec) : rec := rec_set_incl true (rec_set_dur delay (rec_set_dt dt r)).
Definition ctor (k : nat) (dt delay : T N) (batch : Z) (dt0 dur0 : T N) (incl0 : bool) : comp :=
  mkComp dt delay batch (map (add_delayed dt delay) (repeat (rec_new dt0 dur0 incl0) k)) batch.

(* DelayedMixin.dt / .delay setters, BatchMixin.batchsz setter (forward only when the value changes) *)
Definition set_dt (v : T N) (c : comp) : comp :=
  if neb N v (c_dt c) then mkComp v (c_delay c) (c_batch c) (map (rec_set_dt v) (c_recs c)) (c_bdim c) else c.
Definition set_delay (v : T N) (c : comp) : comp :=
  if neb N v (c_delay c) then mkComp (c_dt c) v (c_batch c) (map (rec_set_dur v) (c_recs c)) (c_bdim c) else c.
Definition set_batch (v : Z) (c : comp) : comp :=
  if negb (Z.eqb v (c_batch c)) then mkComp (c_dt c) (c_delay c) v (c_recs c) v else c.
(* the delay setter as it was before the repair (sized histories for delay + dt) *)
Definition set_delay_old (v : T N) (c : comp) : comp :=
  if neb N v (c_delay c) then mkComp (c_dt c) v (c_batch c) (map (rec_set_dur (add N v (c_dt c))) (c_recs c)) (c_bdim c) else c.

Inductive sop := SetDt (v : T N) | SetDelay (v : T N) | SetBatch (v : Z).
Definition apply (c : comp) (o : sop) : comp :=
  match o with SetDt v => set_dt v c | SetDelay v => set_delay v c | SetBatch v => set_batch v c end.
(* the configuration a user expects after the assignments: last assigned value of each attribute *)
Definition expect (cfg : T N * T N * Z) (o : sop) : T N * T N * Z :=
  let '(dt, dl, b) := cfg in
  match o with SetDt v => (v, dl, b) | SetDelay v => (dt, v, b) | SetBatch v => (dt, dl, v) end.

(* ---- trace reducer: decay is derived from dt and recomputed by the dt setter ---- *)
Record tred := mkTred { t_dt : T N; t_tc : T N; t_decay : T N; t_rec : rec }.
Definition tred_ctor (dt tc dur : T N) (incl : bool) : tred :=
  mkTred dt tc (exp N (div N (opp N dt) tc))
         (rec_set_incl incl (rec_set_dur dur (rec_set_dt dt (rec_new dt dur incl)))).
Definition tred_set_dt (v : T N) (r : tred) : tred :=
  let r1 := if neb N v (t_dt r) then mkTred v (t_tc r) (t_decay r) (rec_set_dt v (t_rec r)) else r in
  mkTred (t_dt r1) (t_tc r1) (exp N (div N (opp N (t_dt r1)) (t_tc r1))) (t_rec r1).
Definition tred_set_dur (v : T N) (r : tred) : tred :=
  if neb N v (r_dur (t_rec r)) then mkTred (t_dt r) (t_tc r) (t_decay r) (rec_set_dur v (t_rec r)) else r.
End Config.
