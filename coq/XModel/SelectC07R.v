(* XModel, part 1b (instances): the two side conditions of SelectC07.v hold for the real-number reading and for
   every shipped reducer class whose elements are numbers, so the C07 view paths ARE the C02 select for them. *)
From Coq Require Import List ZArith Bool Arith Reals.
From Inferno Require Import Base.Num Base.NumR Gen.Infra C01.Ring.
From Inferno Require C02.Select.
From Inferno Require Import C07.Reducer XModel.XLists XModel.SelectC07.
Import ListNotations.

Lemma RN_one : ofZ RN 1 = one RN.
Proof. reflexivity. Qed.

Section Inst.
Context {Obs : Type}.
Variable K : @rclass RN R Obs.
Hypothesis Hzero : kzero K = zero RN.

Theorem c07_view_scalar_eq_R (r : @reducer RN R) time tol : rinit r = false ->
  rd_view_scalar RN K r time tol =
  of_result RN r (Select.select_scalar RN (rrec r) (rdt r) tol 1 time (kinterp K)).
Proof. exact (c07_view_scalar_eq RN K RN_one r time tol). Qed.

Theorem c07_select_elem_eq_R (r : @reducer RN R) rows e time tol :
  select_elem RN K r rows e time tol = Select.sel_elem RN (rrec r) rows (rdt r) tol 1 (kinterp K) e time.
Proof. exact (c07_select_elem_eq RN K RN_one Hzero r rows e time tol). Qed.

Theorem c07_view_tensor_eq_R (r : @reducer RN R) d sh rows times tol tnd : rinit r = false ->
  st (rrec r) = SFull d sh rows -> length times = nel sh ->
  (tnd = S (length sh) \/ (tnd = length sh /\ Forall (fun ts => length ts = 1%nat) times)) ->
  rd_view_tensor RN K r times tol =
  match Select.select_tensor RN (rrec r) (rdt r) tol 1 tnd times (kinterp K) with
  | Ok _ o => ROk r (RView (cols_of o))
  | Err e => RErr r e
  end.
Proof. exact (c07_view_tensor_eq RN K RN_one Hzero r d sh rows times tol tnd). Qed.
End Inst.
