(* XModel: list facts and result views shared by the equivalence proofs between independent transcriptions. *)
From Coq Require Import List ZArith Bool Arith Lia.
From Inferno Require Import C01.Ring.
Import ListNotations.

(* ------------------------------------------------------------------ list facts *)
Lemma xm_nth_map_seq {X} (d : X) (f : nat -> X) n i : i < n -> nth i (map f (seq 0 n)) d = f i.
Proof.
  intros Hi. rewrite (nth_indep _ d (f 0)) by (rewrite map_length, seq_length; exact Hi).
  rewrite map_nth, seq_nth by exact Hi. reflexivity.
Qed.

(* a flat row-major list of n chunks of d entries, re-read chunk by chunk, is the list itself *)
Lemma chunks_concat {X Y} (f : X -> Y) (dflt : X) (d : nat) : forall (n : nat) (l : list X),
  length l = n * d ->
  concat (map (fun e => map (fun j => f (nth (e * d + j) l dflt)) (seq 0 d)) (seq 0 n)) = map f l.
Proof.
  induction n as [|n IH]; intros l Hl.
  - cbn in Hl. apply length_zero_iff_nil in Hl. subst l. reflexivity.
  - cbn [seq map concat]. rewrite <- seq_shift, map_map.
    transitivity (map f (firstn d l ++ skipn d l)); [|rewrite firstn_skipn; reflexivity].
    rewrite map_app. f_equal.
    + cbn [Nat.mul Nat.add].
      assert (Hd : d <= length l) by (rewrite Hl; cbn; lia).
      apply nth_ext with (d := f dflt) (d' := f dflt).
      * rewrite !map_length, seq_length, firstn_length. lia.
      * intros i Hi. rewrite map_length, seq_length in Hi.
        rewrite (map_nth f), xm_nth_map_seq by exact Hi. f_equal.
        rewrite <- (firstn_skipn d l) at 1. rewrite app_nth1 by (rewrite firstn_length; lia). reflexivity.
    + rewrite <- (IH (skipn d l)) by (rewrite skipn_length, Hl; cbn; lia).
      f_equal. apply map_ext. intros e. apply map_ext. intros j. f_equal.
      rewrite <- (firstn_skipn d l) at 1.
      assert (Hd : length (firstn d l) = d) by (rewrite firstn_length, Hl; cbn; lia).
      rewrite app_nth2 by (rewrite Hd; cbn; lia). f_equal. rewrite Hd. cbn. lia.
Qed.


Lemma existsb_concat {X} (p : X -> bool) (ll : list (list X)) :
  existsb p (concat ll) = existsb (existsb p) ll.
Proof.
  induction ll as [|l ll IH]; [reflexivity|]. cbn [concat existsb]. rewrite existsb_app, IH. reflexivity.
Qed.

(* enumerate-by-combine = enumerate-by-nth *)
Lemma map_combine_seq {X Y} (F : nat -> X -> Y) (dflt : X) : forall (l : list X) (a : nat),
  map (fun p => F (fst p) (snd p)) (combine (seq a (length l)) l) =
  map (fun e => F e (nth (e - a) l dflt)) (seq a (length l)).
Proof.
  induction l as [|x l IH]; intros a; [reflexivity|].
  cbn [length seq combine map fst snd]. f_equal.
  - rewrite Nat.sub_diag. reflexivity.
  - rewrite IH. apply map_ext_in. intros e He. apply in_seq in He.
    replace (e - a) with (S (e - S a)) by lia. reflexivity.
Qed.
Lemma map_combine_seq0 {X Y} (F : nat -> X -> Y) (dflt : X) (l : list X) :
  map (fun p => F (fst p) (snd p)) (combine (seq 0 (length l)) l) =
  map (fun e => F e (nth e l dflt)) (seq 0 (length l)).
Proof.
  rewrite (map_combine_seq F dflt l 0). apply map_ext. intros e. rewrite Nat.sub_0_r. reflexivity.
Qed.

(* the values of a select result, element-major: for every element of an observation the list of its selected
   values (one value when the output is squeezed) *)
Definition cols_of {A D} (o : @output A D) : list (list A) :=
  match o with
  | OObs _ _ el => map (fun x => [x]) el
  | ORng r => rcols r
  | _ => []
  end.
