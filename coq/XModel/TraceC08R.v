(* XModel, parts 1c + 4 combined (reals): C08's list model of a trace reducer against the C07 machine, end to end.
   Start from a FRESH C07 reducer of class Nearest/CumulativeTraceReducer (target 1, no tolerance), feed it any
   sequence of spike tensors through C07's forward, then read element e at time t through C07's tensor-time view
   path: the value is C08's [view] (with the documented slot index / interpolation time, SelectC08.c08_k / c08_off)
   on the list C08 builds by [push_trace] from the element's spikes.  Likewise for select(offset=2) read through the
   C02 transcription, and for the range test. *)
From Coq Require Import List ZArith Bool Arith Lia Reals Lra.
From Inferno Require Import Base.Num Base.NumR Gen.Infra Gen.Interpolation C01.Ring C01.RingProofs
  C02.Select C02.SelectProofs C07.Reducer C07.ReducerProofs.
From Inferno Require C08.Stdp.
From Inferno Require Import XModel.XLists XModel.SelectC07 XModel.SelectC07R XModel.SelectC08 XModel.Folds.
Import ListNotations.
Local Open Scope R_scope.

(* the list relation of Folds.v (through hist) is the one of SelectC08.v (through at_) *)
Lemma hrepr_repr (r : @reducer RN R) e h : hrepr RN r e h -> repr (rrec r) e h.
Proof.
  intros (_ & H) j Hj. etransitivity; [|exact (H j Hj)]. unfold rhist, hist.
  rewrite (xm_nth_map_seq [] (fun k => at_ (rrec r) (Z.of_nat k + 1))) by exact Hj.
  replace (Z.of_nat j + 1)%Z with (1 + Z.of_nat j)%Z by lia. reflexivity.
Qed.

Section Fresh.
Variable M : Num.
Context {A Obs : Type}.
Variable K : @rclass M A Obs.
(* a fresh reducer satisfies the machine invariant and represents the empty history *)
Lemma fresh_good dt dur incl inpl sh : good M sh (fresh M K dt dur incl inpl).
Proof.
  unfold good, rwf, wf, shape_ok, stored_shape, fresh. cbn.
  assert (H : (1 <= recordsz_expr M dur dt incl)%Z) by (unfold recordsz_expr; lia).
  repeat split; try lia; try discriminate.
Qed.
End Fresh.

Lemma fresh_hrepr m tc amp dt dur incl inpl e : hrepr RN (fresh RN (cls_of RN m tc amp) dt dur incl inpl) e [].
Proof.
  split; [split; reflexivity|]. intros j Hj. unfold rhist, hist. rewrite xm_nth_map_seq by exact Hj.
  unfold at_, rows. cbn. destruct (idx _ _); destruct e; destruct j; reflexivity.
Qed.

Section EndToEnd.
Variables (m : Stdp.tmode) (tc amp dt dur tol : R) (incl inpl : bool).
Hypothesis Hdt : 0 < dt.
Hypothesis Htol : 0 <= tol < dt / 2.
Variables (sh : list nat) (e : nat) (obss : list (list bool)).
Hypothesis He : (e < nel sh)%nat.
Hypothesis Hobs : Forall (fun o => length o = nel sh) obss.

Notation K := (cls_of RN m tc amp).
(* the C07 machine after the observations; C08's list after the same observations of element e *)
Definition machine : @reducer RN R := feed RN K sh (fresh RN K dt dur incl inpl) (map (map (b2t RN)) obss).
Definition c08_list : list R :=
  fold_left (fun h o => Stdp.push_trace RN m (Stdp.decay_of RN dt tc) amp h (nth e o false)) obss [].

Lemma machine_facts : good RN sh machine /\ rdt machine = dt /\ hrepr RN machine e c08_list.
Proof.
  pose proof (fresh_good RN K dt dur incl inpl sh) as Hg.
  destruct (feed_good RN K (cls_of_counts RN m tc amp) sh (map (map (b2t RN)) obss) _ Hg) as (H1 & H2 & _).
  split; [exact H1|]. split; [exact H2|].
  pose proof (c08_push_trace_run RN m tc amp sh e obss _ [] Hg (fresh_hrepr m tc amp dt dur incl inpl e) Hobs He) as H.
  rewrite (c08_fresh_decay_eq RN m tc amp) in H. apply H. intros Hi. discriminate Hi.
Qed.

(* FoldReducer.view(tensor) of the C07 machine, element e, time t  =  C08's view on C08's list *)
Theorem c08_trace_view_end_to_end t : - tol <= t ->
  select_elem RN K machine (rows (rrec machine)) e t tol =
  Stdp.view RN (c08_off dt tol t) dt tc (Z.of_nat (N (rrec machine))) c08_list (c08_k dt tol t).
Proof.
  intros Ht. destruct machine_facts as ((Hwf & _) & Hdt' & Hr).
  rewrite (c07_select_elem_eq_R K ltac:(unfold cls_of; destruct m; reflexivity)). rewrite Hdt'.
  rewrite (c08_view_selector_eq dt tol Hdt Htol (rrec machine) e c08_list tc t (proj1 Hwf) (hrepr_repr _ _ _ Hr) Ht).
  f_equal. unfold cls_of. destruct m; reflexivity.
Qed.

(* RecordTensor.select(selector, offset=2) on the machine's record (C02 transcription) = C08's view at k + 1 *)
Theorem c08_trace_offset2_end_to_end t : - tol <= t ->
  sel_elem RN (rrec machine) (rows (rrec machine)) dt tol 2 (kinterp K) e t =
  Stdp.view RN (c08_off dt tol t) dt tc (Z.of_nat (N (rrec machine))) c08_list (c08_k dt tol t + 1).
Proof.
  intros Ht. destruct machine_facts as ((Hwf & _) & _ & Hr).
  rewrite (c08_select_offset2_eq dt tol Hdt Htol (rrec machine) e c08_list tc t (proj1 Hwf) (hrepr_repr _ _ _ Hr) Ht).
  f_equal. unfold cls_of. destruct m; reflexivity.
Qed.

(* the record size of the machine is C08's recsz (C08's reducers are inclusive), and C08's validity test is C07's
   range check *)
Theorem c08_trace_range_end_to_end t : incl = true -> - tol <= t ->
  Reducer.out_of_range RN machine t tol = negb (Z.of_nat (c08_k dt tol t) <? Stdp.recsz RN dur dt)%Z.
Proof.
  intros Ei Ht.
  destruct machine_facts as ((Hwf & Hn & _) & Hdt' & _).
  change (Reducer.out_of_range RN machine t tol) with (Select.out_of_range RN (N (rrec machine)) (rdt machine) tol t).
  rewrite Hdt'.
  rewrite (c08_range_eq dt tol Hdt Htol (N (rrec machine)) t Hn Ht). do 2 f_equal.
  pose proof (fresh_good RN K dt dur true inpl sh) as Hg.
  assert (HN : N (rrec machine) = N (rrec (fresh RN K dt dur true inpl))).
  { unfold machine. rewrite Ei. clear. generalize (fresh_good RN K dt dur true inpl sh).
    generalize (fresh RN K dt dur true inpl). induction (map (map (b2t RN)) obss) as [|o l IH]; intros r Hg; [reflexivity|].
    cbn [feed fold_left]. destruct (fstep_spec RN K (cls_of_counts RN m tc amp) sh r o Hg) as (_ & Hg' & _ & _ & _ & HN & _).
    fold (feed RN K sh (fstep RN K sh r o) l). rewrite (IH _ Hg'). exact HN. }
  rewrite HN. unfold fresh, Stdp.recsz. cbn [rrec N]. rewrite Z2Nat.id; [reflexivity|]. unfold recordsz_expr. lia.
Qed.

End EndToEnd.
