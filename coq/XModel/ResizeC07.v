(* XModel, part 3b: C07 carries its own transcription of what the RecordTensor dt setter does to a reducer's
   record ([record_set_dt]: recompute the size, align to 0, keep the newest observations, pad with zeros).
   The reference is C13's branch-by-branch model ([Resize.set_dt] = argument test + [resize_record] through the
   ShapedTensor reconstrain).  Proved: on every well-formed C13 record whose ring and temporal configuration are
   the C07 reducer's, for every admissible value, both produce the same number of slots, the same storage kind
   and the same recorded history ([hist]: observation k steps before the write position, k = 1..N) - i.e. they
   differ at most in where the pointer sits inside the buffer, which no read can observe (C01).  Any number type,
   no axioms. *)
From Coq Require Import List ZArith Bool Arith Lia.
From Inferno Require Import Base.Num Gen.Infra C01.Ring C01.RingProofs.
From Inferno Require C13.Shaped C13.Resize C13.ResizeProofs C07.Reducer.
Import ListNotations.

Section C07_vs_C13.
Variable Nm : Num.
Context {A Obs : Type}.
Variable K : @Reducer.rclass Nm A Obs.
Variable cast : unit -> A -> A.
Variable promote : unit -> unit -> unit.
Variable D_eqb : unit -> unit -> bool.

Notation rec13 := (@Resize.rec Nm A unit).
Notation ring := (@ring A unit).

Lemma at_notfull (g : ring) k : ~ full g -> at_ g k = [].
Proof.
  intros Hnf. unfold at_, rows. unfold full in Hnf. destruct (st g); try (destruct (idx g k); reflexivity).
  exfalso. apply Hnf. exact I.
Qed.

Lemma at_ptr0 (n : nat) (d : unit) sh (rws : list (list A)) k : 0 < n -> length rws = n -> (1 <= k <= Z.of_nat n)%Z ->
  at_ (mkRing n 0 (SFull d sh rws)) k = nth (n - Z.to_nat k) rws [].
Proof.
  intros Hn Hl Hk. unfold at_, rows, idx. cbn [N ptr st]. rewrite ResizeProofs.idx0 by assumption. reflexivity.
Qed.

Theorem c07_record_set_dt_eq_c13 (r13 : rec13) (r07 : @Reducer.reducer Nm A) (v : T Nm) :
  ResizeProofs.rwf Nm r13 -> Resize.rvalid Nm r13 = true -> ResizeProofs.no_alias0 Nm r13 ->
  Resize.rg Nm r13 = Reducer.rrec r07 -> Resize.rdur Nm r13 = Reducer.rdur r07 -> Resize.rincl Nm r13 = Reducer.rincl r07 ->
  gtb Nm v (zero Nm) = true ->
  let g13 := Resize.rg Nm (fst (Resize.set_dt Nm (Reducer.kzero K) r13 v)) in
  let g07 := Reducer.record_set_dt Nm K r07 v in
  snd (Resize.set_dt Nm (Reducer.kzero K) r13 v) = None /\
  N g13 = N g07 /\ (full g13 <-> full g07) /\
  (forall d sh rws, st g13 = SFull d sh rws -> exists rws', st g07 = SFull d sh rws') /\
  hist g13 = hist g07.
Proof.
  intros Hwf Hv Hna Hg Hdur Hincl Hok g13 g07.
  destruct (ResizeProofs.setter_spec Nm cast promote D_eqb (Reducer.kzero K) tt r13 (ResizeProofs.SetDt Nm v) Hwf Hv Hna Hok)
    as (r' & Hr & Hwf' & _ & _ & HN & _ & _ & _ & _ & _ & _ & _ & Hnf & Hfull).
  cbn [ResizeProofs.apply_setter] in Hr. subst g13. rewrite Hr. cbn [fst snd]. split; [reflexivity|].
  unfold ResizeProofs.rsize in HN. cbn [ResizeProofs.configured Resize.rdur Resize.rdt Resize.rincl] in HN, Hfull.
  unfold ResizeProofs.rsize in Hfull. cbn [Resize.rdur Resize.rdt Resize.rincl] in Hfull.
  rewrite Hdur, Hincl in HN, Hfull. rewrite Hg in Hnf, Hfull.
  set (s := Reducer.rrec r07) in *.
  set (n' := Z.to_nat (recordsz_expr Nm (Reducer.rdur r07) v (Reducer.rincl r07))) in *.
  assert (Hws : wf s) by (rewrite <- Hg; apply Hwf).
  pose proof Hws as (Hn & Hp & Hlen).
  assert (Hn' : 0 < n') by (unfold n', recordsz_expr; lia).
  set (g := Resize.rg Nm r') in *.
  assert (Hwg : wf g) by apply Hwf'.
  destruct (st s) as [|d0|d sh rws] eqn:Est.
  - (* no storage *)
    assert (Hns : ~ full s) by (unfold full; rewrite Est; tauto).
    destruct (Hnf Hns) as (Hst & Hpt).
    assert (E07 : N g07 = n' /\ st g07 = SNone).
    { unfold g07, Reducer.record_set_dt. fold s. fold n'. destruct (n' =? N s) eqn:E.
      - apply Nat.eqb_eq in E. rewrite Est. auto.
      - rewrite Est. auto. }
    destruct E07 as (EN & Est07).
    assert (Hnf13 : ~ full g) by (unfold full; rewrite Hst; tauto).
    assert (Hnf07 : ~ full g07) by (unfold full; rewrite Est07; tauto).
    split; [congruence|]. split; [tauto|]. split; [intros d sh rws H; rewrite Hst in H; discriminate|].
    unfold hist. rewrite HN, EN. apply map_ext. intros k. rewrite !at_notfull by assumption. reflexivity.
  - (* empty tensor *)
    assert (Hns : ~ full s) by (unfold full; rewrite Est; tauto).
    destruct (Hnf Hns) as (Hst & Hpt).
    assert (E07 : N g07 = n' /\ st g07 = SEmpty d0).
    { unfold g07, Reducer.record_set_dt. fold s. fold n'. destruct (n' =? N s) eqn:E.
      - apply Nat.eqb_eq in E. rewrite Est. auto.
      - rewrite Est. auto. }
    destruct E07 as (EN & Est07).
    assert (Hnf13 : ~ full g) by (unfold full; rewrite Hst; tauto).
    assert (Hnf07 : ~ full g07) by (unfold full; rewrite Est07; tauto).
    split; [congruence|]. split; [tauto|]. split; [intros d sh rws H; rewrite Hst in H; discriminate|].
    unfold hist. rewrite HN, EN. apply map_ext. intros k. rewrite !at_notfull by assumption. reflexivity.
  - (* initialised storage *)
    destruct (Hfull d sh rws eq_refl) as (rws' & Hst' & Hnew & Hold).
    assert (Hfs : full s) by (unfold full; rewrite Est; exact I).
    (* the C07 result, characterised through at_ *)
    assert (E07 : N g07 = n' /\ (exists rws07, st g07 = SFull d sh rws07) /\
                  (forall k, (1 <= k <= Z.of_nat (Nat.min (N s) n'))%Z -> at_ g07 k = at_ s k) /\
                  (forall k, (Z.of_nat (N s) < k <= Z.of_nat n')%Z -> at_ g07 k = repeat (Reducer.kzero K) (nel sh))).
    { unfold g07, Reducer.record_set_dt. fold s. fold n'. destruct (n' =? N s) eqn:E.
      - apply Nat.eqb_eq in E. split; [auto|]. split; [eexists; exact Est|]. split; [reflexivity|]. intros k Hk. lia.
      - apply Nat.eqb_neq in E. rewrite Est.
        destruct (align_spec cast promote D_eqb (Reducer.kzero K) s 0 Hws Hfs ltac:(lia)) as (s1 & Ha & Hw1 & HN1 & Hp1 & (d1 & sh1 & Es & Es1) & Hat1).
        rewrite Ha. rewrite Est in Es. injection Es as <- <- _. rewrite Es1.
        assert (Hl1 : length (rows s1) = N s) by (destruct Hw1 as (_ & _ & H); rewrite Es1 in H; lia).
        cbn [N]. split; [reflexivity|]. split; [eexists; reflexivity|].
        change (Reducer.resize_rows Nm K sh (rows s1) n')
          with (ResizeProofs.resized_rows (Reducer.kzero K) (nel sh) (rows s1) n').
        assert (Hrl : length (ResizeProofs.resized_rows (Reducer.kzero K) (nel sh) (rows s1) n') = n')
          by apply ResizeProofs.resized_rows_length.
        assert (Hat0 : forall k, (1 <= k <= Z.of_nat (N s))%Z -> at_ s1 k = nth (N s - Z.to_nat k) (rows s1) []).
        { intros k Hk. unfold at_, idx. rewrite HN1, Hp1. change (Z.to_nat 0) with 0.
          rewrite ResizeProofs.idx0 by assumption. reflexivity. }
        split.
        + intros k Hk. rewrite at_ptr0 by (try assumption; lia).
          rewrite ResizeProofs.resized_rows_newest by lia. rewrite Hl1, <- Hat0 by lia. apply Hat1.
        + intros k Hk. rewrite at_ptr0 by (try assumption; lia).
          apply ResizeProofs.resized_rows_older; lia. }
    destruct E07 as (EN & (rws07 & Est07) & Hnew07 & Hold07).
    split; [congruence|]. split.
    { unfold full. fold g. rewrite Hst', Est07. tauto. }
    split.
    { intros d2 sh2 rws2 H. fold g in H. rewrite Hst' in H. injection H as <- <- _. eexists; exact Est07. }
    unfold hist. fold g. rewrite HN, EN. apply map_ext_in. intros j Hj. apply in_seq in Hj.
    destruct (Nat.le_gt_cases (j + 1) (Nat.min (N s) n')) as [Hle|Hgt].
    + rewrite Hnew, Hnew07 by lia. reflexivity.
    + rewrite Hold, Hold07 by lia. reflexivity.
Qed.

End C07_vs_C13.
