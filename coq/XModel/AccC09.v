(* XModel, part 2a: the C09 transcription of Accumulator.update (C09/Split.v, per parameter ELEMENT: numbers) is
   proved equal to the C10 reference transcription (C10/Updater.v, whole tensors with shape errors, caches, all
   fifteen bounding kernels) on the shared domain.  Holds for every numeric reading N : Num (no axioms).

   Shared domain: C09 only has the six (scaled) multiplicative / sharp half kernels and the two full kernels
   multiplicative / sharp, and its limits are always given (no TypeError branch); [emb_bind] embeds C09's `bind`
   values into C10's.  A C09 element x is the C10 one-element tensor [x]; the list version
   ([c09_bind_update_map]) says the C10 tensor result is C09's element result at every position when the three
   tensors have the same number of elements (C10's shape-error branches are outside C09). *)
From Coq Require Import List ZArith Bool Arith Lia.
From Inferno Require Import Base.Num Gen.Bounding.
From Inferno Require C08.Stdp C09.Split C10.Updater.
Import ListNotations.

Section C09_vs_C10.
Variable N : Num.
Notation R := (T N).

Definition emb_half (k : Split.halfk N) : Updater.halfk N :=
  match k with
  | Split.HMulU _ => Updater.HMulU N
  | Split.HMulL _ => Updater.HMulL N
  | Split.HSharpU _ => Updater.HSharpU N
  | Split.HSharpL _ => Updater.HSharpL N
  | Split.HSMulU _ rg => Updater.HSMulU N rg
  | Split.HSMulL _ rg => Updater.HSMulL N rg
  end.
Definition emb_slot (s : Split.slot N) : Updater.halfb N :=
  match s with
  | Split.SId => Updater.HId N
  | Split.SBound _ k lim => Updater.HB N (emb_half k) (Some lim)
  end.
Definition emb_full (k : Split.fullk) : Updater.fullk N :=
  match k with Split.FMul => Updater.FMul N | Split.FSharp => Updater.FSharp N end.
Definition emb_bind (b : Split.bindT N) : Updater.bindT N :=
  match b with
  | Split.BDefault => Updater.BDefault N
  | Split.BHalf _ u l => Updater.BHalf N (emb_slot u) (emb_slot l)
  | Split.BFull _ k mx mn => Updater.BFull N (emb_full k) mx mn
  end.

(* the kernels are the same generated functions *)
Theorem c09_half_apply_eq k lim x u : Updater.half_apply N (emb_half k) lim x u = Split.half_apply N k lim x u.
Proof. destruct k; reflexivity. Qed.
Theorem c09_full_apply_eq k mx mn x p n : Updater.full_val N (emb_full k) mx mn x p n = Split.full_apply N k mx mn x p n.
Proof. destruct k; reflexivity. Qed.
(* C10 skips the kernel when both limits are None ("the parameter is not touched"); C09 calls it: same value *)
Lemma full_apply_nolimit k x p n : Split.full_apply N k None None x p n = sub N p n.
Proof. destruct k; reflexivity. Qed.

Definition single (o : option R) : option (list R) := option_map (fun v => [v]) o.

(* Accumulator.update on one element, all four presence cases, all three forms of `bind` *)
Theorem c09_bind_update_eq (b : Split.bindT N) (x : R) (p n : option R) :
  Updater.bind_apply N (emb_bind b) [x] (single p) (single n) = Updater.Ok (single (Split.bind_update N b x (p, n))).
Proof.
  destruct b as [|u l|k mx mn]; destruct p as [p|], n as [n|]; cbn [single option_map emb_bind];
    try reflexivity.
  - (* list form, both parts *)
    destruct u as [|ku limu], l as [|kl liml]; cbn; rewrite ?c09_half_apply_eq; reflexivity.
  - destruct u as [|ku limu]; cbn; rewrite ?c09_half_apply_eq; reflexivity.
  - destruct l as [|kl liml]; cbn; rewrite ?c09_half_apply_eq; reflexivity.
  - (* fullbound form *)
    destruct k, mx, mn; reflexivity.
  - destruct k, mx, mn; reflexivity.
  - destruct k, mx, mn; reflexivity.
Qed.

(* Accumulator.forward on one element *)
Theorem c09_bind_forward_eq (b : Split.bindT N) (x : R) (p n : option R) :
  match Updater.bind_apply N (emb_bind b) [x] (single p) (single n) with
  | Updater.Ok None => Updater.Ok [x]
  | Updater.Ok (Some u) => Updater.map2e N (add N) [x] u
  | Updater.Err e => Updater.Err e
  end = Updater.Ok [Split.bind_forward N b x (p, n)].
Proof.
  rewrite c09_bind_update_eq. unfold Split.bind_forward.
  destruct (Split.bind_update N b x (p, n)); reflexivity.
Qed.

(* ------------------------------------------------------------------ whole tensors, element by element *)
Lemma map2_cons {X Y Z} (f : X -> Y -> Z) a l b m : Updater.map2 f (a :: l) (b :: m) = f a b :: Updater.map2 f l m.
Proof. reflexivity. Qed.
Lemma map3_cons {X Y Z W} (f : X -> Y -> Z -> W) a l b m c k :
  Updater.map3 f (a :: l) (b :: m) (c :: k) = f a b c :: Updater.map3 f l m k.
Proof. reflexivity. Qed.
Lemma map2_length {X Y Z} (f : X -> Y -> Z) a c : length (Updater.map2 f a c) = Nat.min (length a) (length c).
Proof. unfold Updater.map2. rewrite map_length, combine_length. reflexivity. Qed.

Lemma map_some_map2 (f : R -> R -> R) (g : R -> R -> R -> option R) : (forall x p n, g x p n = Some (f p n)) ->
  forall xs ps ns : list R, length xs = length ps -> length ps = length ns ->
  map Some (Updater.map2 f ps ns) = Updater.map3 g xs ps ns.
Proof.
  intros Hg. induction xs as [|x xs IH]; intros [|p ps] [|n ns] H1 H2; try discriminate; [reflexivity|].
  rewrite map2_cons, map3_cons. cbn [map]. rewrite Hg. f_equal. apply IH; cbn in *; lia.
Qed.
Lemma map_some_map3 (f : R -> R -> R -> R) (g : R -> R -> R -> option R) : (forall x p n, g x p n = Some (f x p n)) ->
  forall xs ps ns : list R, length xs = length ps -> length ps = length ns ->
  map Some (Updater.map3 f xs ps ns) = Updater.map3 g xs ps ns.
Proof.
  intros Hg. induction xs as [|x xs IH]; intros [|p ps] [|n ns] H1 H2; try discriminate; [reflexivity|].
  rewrite !map3_cons. cbn [map]. rewrite Hg. f_equal. apply IH; cbn in *; lia.
Qed.
Lemma half_t_ok (s : Split.slot N) : forall xs us : list R, length xs = length us ->
  Updater.half_t N (emb_slot s) xs us = Updater.Ok (Updater.map2 (Split.slot_apply N s) xs us).
Proof.
  intros xs us Hl. destruct s as [|ks lim]; cbn [emb_slot Updater.half_t].
  - f_equal. revert us Hl. induction xs as [|x xs IH]; intros [|v us] Hl; try discriminate; [reflexivity|].
    rewrite map2_cons. cbn [Split.slot_apply]. f_equal. apply IH. cbn in Hl; lia.
  - unfold Updater.map2e. replace (length xs =? length us) with true by (symmetry; apply Nat.eqb_eq; exact Hl).
    f_equal. revert us Hl. induction xs as [|x xs IH]; intros [|v us] Hl; try discriminate; [reflexivity|].
    rewrite !map2_cons. cbn [Split.slot_apply]. rewrite c09_half_apply_eq. f_equal. apply IH. cbn in Hl; lia.
Qed.
Lemma list_form_map (u l : Split.slot N) : forall xs ps ns : list R, length xs = length ps -> length ps = length ns ->
  map Some (Updater.map2 (sub N) (Updater.map2 (Split.slot_apply N u) xs ps) (Updater.map2 (Split.slot_apply N l) xs ns)) =
  Updater.map3 (fun x p n => Split.bind_update N (Split.BHalf N u l) x (Some p, Some n)) xs ps ns.
Proof.
  induction xs as [|x xs IH]; intros [|p ps] [|n ns] H1 H2; try discriminate; [reflexivity|].
  rewrite !map2_cons, map3_cons. cbn [map]. f_equal. apply IH; cbn in *; lia.
Qed.

(* both parts present, equal numbers of elements: position i of the C10 tensor is C09's element update *)
Theorem c09_bind_update_map (b : Split.bindT N) (xs ps ns : list R) :
  length xs = length ps -> length ps = length ns ->
  exists us, Updater.bind_apply N (emb_bind b) xs (Some ps) (Some ns) = Updater.Ok (Some us) /\
             map Some us = Updater.map3 (fun x p n => Split.bind_update N b x (Some p, Some n)) xs ps ns.
Proof.
  intros H1 H2.
  assert (E12 : (length xs =? length ps) = true) by (apply Nat.eqb_eq; exact H1).
  assert (E23 : (length ps =? length ns) = true) by (apply Nat.eqb_eq; exact H2).
  destruct b as [|u l|k mx mn]; cbn [emb_bind Updater.bind_apply Updater.full_t].
  - unfold Updater.map2e. rewrite E23. cbn [Updater.rbind]. eexists; split; [reflexivity|].
    apply map_some_map2; auto.
  - (* list form *)
    rewrite (half_t_ok u xs ps H1), (half_t_ok l xs ns ltac:(lia)). cbn [Updater.rbind]. unfold Updater.map2e.
    rewrite !map2_length. replace (Nat.min (length xs) (length ps) =? Nat.min (length xs) (length ns)) with true
      by (symmetry; apply Nat.eqb_eq; lia).
    cbn [Updater.rbind]. eexists; split; [reflexivity|]. apply list_form_map; assumption.
  - (* fullbound form; C10's TypeError branch needs a scaled kernel, which C09 does not have *)
    replace (Updater.full_typeerr N (emb_full k) mx mn) with false by (destruct k; reflexivity).
    destruct mx as [mx|], mn as [mn|]; unfold Updater.map3e, Updater.map2e; rewrite ?E12, ?E23; cbn [andb Updater.rbind];
      eexists; (split; [reflexivity|]).
    + apply map_some_map3; auto. intros x p n. cbn. rewrite c09_full_apply_eq. reflexivity.
    + apply map_some_map3; auto. intros x p n. cbn. rewrite c09_full_apply_eq. reflexivity.
    + apply map_some_map3; auto. intros x p n. cbn. rewrite c09_full_apply_eq. reflexivity.
    + apply map_some_map2; auto. intros x p n. cbn. rewrite full_apply_nolimit. reflexivity.
Qed.

(* ------------------------------------------------------------------ C08's Accumulator fragment is C09's *)
Theorem c08_acc_add_eq : Stdp.acc_add N = Split.part_add N.
Proof. reflexivity. Qed.

Lemma last_cons_default {X} (l : list X) : forall y d, last (y :: l) d = last l y.
Proof.
  induction l as [|z l IH]; intros y d; [reflexivity|].
  change (last (y :: z :: l) d) with (last (z :: l) d). rewrite !IH. reflexivity.
Qed.
Lemma c08_accumulate_last outs : forall a,
  last (Stdp.accumulate N a outs) a = fold_left (Split.acc_push N) outs a.
Proof.
  induction outs as [|o outs IH]; intros a; [reflexivity|].
  cbn [Stdp.accumulate fold_left]. set (a' := (Stdp.acc_add N (fst a) (fst o), Stdp.acc_add N (snd a) (snd o))).
  change (Split.acc_push N a o) with a'. rewrite <- IH. apply last_cons_default.
Qed.

Theorem c08_final_acc_eq outs : Stdp.final_acc N outs = Split.acc_all N outs.
Proof. unfold Stdp.final_acc, Split.acc_all. apply c08_accumulate_last. Qed.

End C09_vs_C10.
