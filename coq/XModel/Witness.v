(* XModel: concrete, non-trivial instances satisfying the hypotheses of the equivalence theorems, with both sides
   computed (so the theorems are not about an empty class of states).  The structural theorems hold for every
   number type, so - as in C13/Witness.v - the witnesses use integers as numbers (ZN: division is integer division,
   floor / ceil / round are the identity) and compute with vm_compute. *)
From Coq Require Import List ZArith Bool Arith Lia.
From Inferno Require Import Base.Num Gen.Infra C01.Ring C01.RingProofs.
From Inferno Require C02.Select C04.Synapse C07.Reducer C07.ReducerProofs C08.Stdp C09.Split C10.Updater C18.DelayAdj.
From Inferno Require C13.Shaped C13.Resize C13.ResizeProofs C13.Witness C14.Config C14.RecordCfg.
From Inferno Require Import XModel.XLists XModel.SelectC04 XModel.SelectC07 XModel.AccC09 XModel.RecSize XModel.ResizeC07
  XModel.Folds.
Import ListNotations.
Open Scope Z_scope.

Notation ZN := Witness.ZN.

(* a record of 3 observations of 2 elements, pointer in the middle: newest first (5,6), (1,2), (3,4) *)
Definition ring3 : @ring Z unit := mkRing 3 2 (SFull tt [2%nat] [[1; 2]; [5; 6]; [3; 4]]).

(* C04 / C02: selector with a trailing axis of 2 times per element, one of them beyond the duration *)
Definition sel4 : list Z := [0; 2; 1; 5].

(* C13 record and C07 reducer sharing ring3: dt 1, duration 2, inclusive -> 3 slots *)
Definition r13 : @Resize.rec ZN Z unit :=
  Resize.mkRec ZN ring3 true false false [(1, 2%nat)] 1 2 true.
Definition Kpass : @Reducer.rclass ZN Z Z := Reducer.cls_pass ZN.
Definition r07 : @Reducer.reducer ZN Z := @Reducer.mkRed ZN Z 1 2 true false 0 0 false ring3.

Theorem nonvacuous :
  (* SelectC04: hypotheses of c04_synparam_at_delayed_eq, and the common value *)
  (st ring3 = SFull tt [2%nat] [[1; 2]; [5; 6]; [3; 4]] /\ N ring3 <> 1%nat /\
   2%nat = (if (length [2%nat; 2%nat] =? length [2%nat])%nat then 1%nat else last [2%nat; 2%nat] 0%nat) /\
   length sel4 = (nel [2%nat] * 2)%nat /\
   Synapse.synparam_at ZN ring3 1 2 0 (fun p n _ _ => p + n) (fun x => x) (Some (-1)) [2%nat; 2%nat] sel4 =
   Synapse.SOk ([2%nat; 2%nat], [5; 3; 2; -1])) /\
  (* SelectC07: a class with number elements, zero = 0, after the first observation; the view through C02 *)
  (ofZ ZN 1 = one ZN /\ Reducer.kzero Kpass = zero ZN /\ Reducer.rinit r07 = false /\
   Reducer.rd_view_tensor ZN Kpass r07 [[0; 1]; [2; 2]] 0 =
   Reducer.ROk r07 (Reducer.RView [[5; 1]; [4; 4]])) /\
  (* RecSize / ResizeC07: a well-formed C13 record and the C07 reducer on the same ring; dt := 2 shrinks to 2 slots *)
  (ResizeProofs.rwf ZN r13 /\ Resize.rvalid ZN r13 = true /\ ResizeProofs.no_alias0 ZN r13 /\
   ResizeProofs.setter_ok ZN r13 (ResizeProofs.SetDt ZN 2) /\
   Resize.rg ZN r13 = Reducer.rrec r07 /\
   cfg14 ZN (fst (Resize.set_dt ZN 0 r13 2)) = Config.rec_new ZN 2 2 true /\ Config.r_size ZN (Config.rec_new ZN 2 2 true) = 2 /\
   hist (Reducer.record_set_dt ZN Kpass r07 2) = [[5; 6]; [1; 2]] /\
   ResizeProofs.Inv ZN Witness.r0) /\
  (* AccC09: a bounded update of one element through both models *)
  (Updater.bind_apply ZN (emb_bind ZN (Split.BHalf ZN (Split.SBound ZN (Split.HMulU ZN) 10) Split.SId)) [4]
     (single ZN (Some 3)) (single ZN (Some 5)) = Updater.Ok (Some [13])) /\
  (* Folds: the C07 event machine fed two observation tensors, against C18's fold *)
  (let K := Reducer.cls_event ZN (fun x => Z.eqb x 1) Reducer.ENan in
   let r := Reducer.fresh ZN K 1 0 true false in
   good ZN [2%nat] r /\
   ReducerProofs.prior (feed ZN K [2%nat] r [[1; 0]; [0; 0]]) = Some [Some 1; None]).
Proof.
  split; [|split; [|split; [|split]]].
  - repeat split; try reflexivity. discriminate.
  - repeat split; reflexivity.
  - assert (Hwf : ResizeProofs.rwf ZN r13).
    { split; [|split; [|split]].
      - unfold wf. cbn. lia.
      - unfold ResizeProofs.rows_uniform. cbn. repeat constructor.
      - cbn. repeat constructor; cbn; intuition lia.
      - intros H. exfalso. apply H. exact I. }
    split; [exact Hwf|]. split; [vm_compute; reflexivity|]. split.
    { unfold ResizeProofs.no_alias0. cbn. intros dd s [H|[]]. injection H as <- <-. cbn. lia. }
    split; [reflexivity|]. split; [reflexivity|]. split; [vm_compute; reflexivity|].
    split; [vm_compute; reflexivity|]. split; [vm_compute; reflexivity|]. exact (proj1 (proj2 Witness.nonvacuous)).
  - vm_compute. reflexivity.
  - split; [|vm_compute; reflexivity].
    unfold good, ReducerProofs.rwf, wf, ReducerProofs.shape_ok, ReducerProofs.stored_shape. cbn.
    repeat split; try lia; try discriminate.
Qed.
