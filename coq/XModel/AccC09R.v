(* XModel, part 2b (reals): the accumulation of update parts.
   C09 (and C08, same definition) keep ONE running value per side: part_add folds every new part into the sum from
   the left.  C10, as the code, keeps the LIST of parts and reduces it when pos / neg is read (torch.sum of the
   stacked parts, computed by C10 as a right-nested sum starting from 0, with the functools.cache cell).
   Over the reals both are the sum of the parts, so after the same assignments `updater.p = (pos, neg)`:
       C10's Accumulator.update(param)  =  C09's bind_update on C09's accumulated pair.
   Shared domain: one-element tensors, default reduction (sum), the bind forms C09 has (AccC09.emb_bind).
   Also: C08's Accumulator fragment (acc_add / accumulate / final_acc / acc_update) is C09's. *)
From Coq Require Import List ZArith Bool Arith Lia Reals Lra.
From Inferno Require Import Base.Num Base.NumR Gen.Bounding.
From Inferno Require C08.Stdp C09.Split C10.Updater.
From Inferno Require Import XModel.AccC09.
Import ListNotations.
Local Open Scope R_scope.

Notation uparts := (option R * option R)%type.

(* `updater.p = (pos, neg)` on one-element tensors (C10's OpAdd) *)
Definition feed (a : Updater.acc RN) (x : uparts) : Updater.acc RN :=
  Updater.add_neg RN (Updater.add_pos RN a (single RN (fst x))) (single RN (snd x)).

Definition vals (l : list (option R)) : list R :=
  flat_map (fun o => match o with Some v => [v] | None => [] end) l.
Definition sing (v : R) : list R := [v].
Definition sumopt (l : list R) : option R := match l with [] => None | _ => Some (tsum RN l) end.

Lemma vals_app l1 l2 : vals (l1 ++ l2) = vals l1 ++ vals l2.
Proof. unfold vals. apply flat_map_app. Qed.

Lemma fold_left_Rplus l : forall a, fold_left Rplus l a = a + tsum RN l.
Proof.
  induction l as [|x l IH]; intros a; cbn [fold_left tsum]; rn_simpl; [lra|]. rewrite IH. lra.
Qed.

(* ---- C09 side: the running value is the left-to-right sum of the parts that are present *)
Lemma part_add_some os : forall s, fold_left (Split.part_add RN) os (Some s) = Some (fold_left Rplus (vals os) s).
Proof.
  induction os as [|[v|] os IH]; intros s; cbn [fold_left vals flat_map app]; [reflexivity| |].
  - cbn [Split.part_add]. rewrite IH. reflexivity.
  - cbn [Split.part_add]. apply IH.
Qed.
Lemma part_add_none os : fold_left (Split.part_add RN) os None =
  match vals os with [] => None | v :: t => Some (fold_left Rplus t v) end.
Proof.
  induction os as [|[v|] os IH]; cbn [fold_left vals flat_map app]; [reflexivity| |].
  - cbn [Split.part_add]. apply part_add_some.
  - cbn [Split.part_add]. exact IH.
Qed.
Lemma acc_all_fst xs : forall a, fst (fold_left (Split.acc_push RN) xs a) = fold_left (Split.part_add RN) (map fst xs) (fst a).
Proof. induction xs as [|x xs IH]; intros a; [reflexivity|]. cbn [fold_left map]. rewrite IH. reflexivity. Qed.
Lemma acc_all_snd xs : forall a, snd (fold_left (Split.acc_push RN) xs a) = fold_left (Split.part_add RN) (map snd xs) (snd a).
Proof. induction xs as [|x xs IH]; intros a; [reflexivity|]. cbn [fold_left map]. rewrite IH. reflexivity. Qed.

Theorem c09_acc_all_sum xs :
  Split.acc_all RN xs = (sumopt (vals (map fst xs)), sumopt (vals (map snd xs))).
Proof.
  unfold Split.acc_all. apply injective_projections; cbn [fst snd]; [rewrite acc_all_fst|rewrite acc_all_snd];
    cbn [fst snd]; rewrite part_add_none.
  - destruct (vals (map fst xs)) as [|v t]; [reflexivity|]. rewrite fold_left_Rplus. reflexivity.
  - destruct (vals (map snd xs)) as [|v t]; [reflexivity|]. rewrite fold_left_Rplus. reflexivity.
Qed.

(* ---- C10 side: the list of parts, reduced by torch.sum when read *)
Lemma transpose_sing vs : Updater.transpose RN 1 (map sing vs) = [vs].
Proof. induction vs as [|v vs IH]; [reflexivity|]. cbn [map Updater.transpose]. rewrite IH. reflexivity. Qed.
Lemma calc_sing vs :
  Updater.calc RN (Updater.red_sum RN) (map sing vs) =
  Updater.Ok (option_map sing (sumopt vs)).
Proof.
  destruct vs as [|v vs]; [reflexivity|]. unfold Updater.calc. cbn [map].
  replace (Updater.stack_ok RN (sing v :: map sing vs)) with true.
  - change (sing v :: map sing vs) with (map sing (v :: vs)). cbn [sing length]. rewrite transpose_sing. reflexivity.
  - symmetry. cbn [Updater.stack_ok]. apply forallb_forall. intros q Hq. apply in_map_iff in Hq.
    destruct Hq as (w & <- & _). reflexivity.
Qed.

Definition acc_inv (a : Updater.acc RN) (B : Updater.bindT RN) (ps ns : list R) : Prop :=
  Updater.apos RN a = map sing ps /\ Updater.aneg RN a = map sing ns /\
  Updater.cpos RN a = None /\ Updater.cneg RN a = None /\
  Updater.ared RN a = Updater.red_sum RN /\ Updater.abind RN a = B.

Lemma feed_inv a B ps ns x : acc_inv a B ps ns ->
  acc_inv (feed a x) B (ps ++ vals [fst x]) (ns ++ vals [snd x]).
Proof.
  intros (H1 & H2 & H3 & H4 & H5 & H6). destruct x as [[p|] [n|]]; unfold feed, acc_inv; cbn;
    rewrite ?H1, ?H2, ?map_app, ?app_nil_r; cbn; auto 10.
Qed.
Lemma feeds_inv xs : forall a B ps ns, acc_inv a B ps ns ->
  acc_inv (fold_left feed xs a) B (ps ++ vals (map fst xs)) (ns ++ vals (map snd xs)).
Proof.
  induction xs as [|x xs IH]; intros a B ps ns H; cbn [fold_left map].
  - cbn. rewrite !app_nil_r. exact H.
  - pose proof (IH _ _ _ _ (feed_inv a B ps ns x H)) as H'.
    change (fst x :: map fst xs) with ([fst x] ++ map fst xs). change (snd x :: map snd xs) with ([snd x] ++ map snd xs).
    rewrite !vals_app, !app_assoc. exact H'.
Qed.

(* Accumulator.update after the same parts have been handed to both models *)
Theorem c09_accumulate_update_eq (b : Split.bindT RN) (xs : list uparts) (x : R) :
  let a := fold_left feed xs (Updater.set_bind RN (Updater.acc_new RN) (emb_bind RN b)) in
  snd (Updater.acc_update RN a [x]) = Updater.Ok (single RN (Split.bind_update RN b x (Split.acc_all RN xs))).
Proof.
  intros a.
  assert (Hinv : acc_inv a (emb_bind RN b) (vals (map fst xs)) (vals (map snd xs))).
  { apply (feeds_inv xs _ _ [] []). repeat split. }
  destruct Hinv as (H1 & H2 & H3 & H4 & H5 & H6).
  unfold Updater.acc_update, Updater.get_pos. rewrite H3, H5, H1, calc_sing.
  unfold Updater.get_neg. cbn [Updater.cneg Updater.set_pos_parts Updater.ared Updater.aneg]. rewrite H4, H5, H2, calc_sing.
  cbn [snd Updater.abind Updater.set_neg_parts Updater.set_pos_parts]. rewrite H6.
  rewrite c09_acc_all_sum.
  rewrite <- (c09_bind_update_eq RN b x). reflexivity.
Qed.

(* ------------------------------------------------------------------ C08's Accumulator fragment is C09's *)
(* C08 writes the default binding already simplified (p - 0 = p, 0 - n = -n); over the reals it is C09's *)
Theorem c08_acc_update_eq (a : uparts) (x : R) : Stdp.acc_update RN a = Split.bind_update RN Split.BDefault x a.
Proof.
  destruct a as [[p|] [n|]]; cbn; try reflexivity; f_equal; rn_simpl; lra.
Qed.
