(* XModel, part 3: the ring-buffer temporal size.
   C13/Resize.v is the branch-by-branch model of the RecordTensor temporal setters (argument test, store,
   recompute the size with the GENERATED recordsz_expr, align + reconstrain).  C14/Config.v carries its own tiny
   transcription: a history is (dt, duration, inclusive, size) and rec_set_* store the value and recompute the
   size with the same generated expression.  C14/RecordCfgProofs.v already relates sequences of C13 setters to
   the C13 CONSTRUCTOR and to the expected configuration [rexpect]; what was missing - and is proved here - is
   that the C14/Config.v functions themselves are the C13 setters seen through the abstraction
       cfg14 r = (rdt r, rdur r, rincl r, number of slots of the ring),
   for every reachable record (C13's invariant Inv), every number type (no real-number axioms).
   The only difference: C13 refuses dt <= 0 and duration < 0 (ValueError, nothing stored); C14's functions are
   total, so the C14 side is guarded by the same argument test ([c14_rapply]).
   Also here: the places where C04, C07 and C08 compute a record size from the generated expression are the
   size of C14's rec_new / rec_set_dt. *)
From Coq Require Import List ZArith Bool Arith Lia.
From Inferno Require Import Base.Num Gen.Infra C01.Ring C01.RingProofs.
From Inferno Require C13.Shaped C13.Resize C13.ResizeProofs C14.Config C14.RecordCfg C14.RecordCfgProofs.
From Inferno Require C04.Synapse C07.Reducer C08.Stdp.
Import ListNotations.

Lemma recordsz_pos (Nm : Num) dur dt incl : (1 <= recordsz_expr Nm dur dt incl)%Z.
Proof. unfold recordsz_expr. lia. Qed.

Section C14_vs_C13.
Variable Nm : Num.
Context {A D : Type}.
Variable cast : D -> A -> A.
Variable promote : D -> D -> D.
Variable D_eqb : D -> D -> bool.
Variable zeroA : A.
Variable default_d : D.

Notation rec13 := (@Resize.rec Nm A D).
Notation rec14 := (Config.rec Nm).

(* what C14/Config.v keeps of a record *)
Definition cfg14 (r : rec13) : rec14 :=
  Config.mkRec Nm (Resize.rdt Nm r) (Resize.rdur Nm r) (Resize.rincl Nm r) (Z.of_nat (N (Resize.rg Nm r))).

Definition c14_setter (s : ResizeProofs.setter Nm) : rec14 -> rec14 :=
  match s with
  | ResizeProofs.SetDt _ v => Config.rec_set_dt Nm v
  | ResizeProofs.SetDur _ v => Config.rec_set_dur Nm v
  | ResizeProofs.SetIncl _ b => Config.rec_set_incl Nm b
  end.

(* one admissible assignment: the C13 setter does not raise and its effect on (dt, duration, inclusive, N) is
   C14's rec_set_* *)
Theorem c14_rec_set_eq (r : rec13) (s : ResizeProofs.setter Nm) :
  ResizeProofs.rwf Nm r -> Resize.rvalid Nm r = true -> ResizeProofs.no_alias0 Nm r -> ResizeProofs.setter_ok Nm r s ->
  snd (ResizeProofs.apply_setter Nm zeroA r s) = None /\
  cfg14 (fst (ResizeProofs.apply_setter Nm zeroA r s)) = c14_setter s (cfg14 r).
Proof.
  intros Hwf Hv Hna Hok.
  destruct (ResizeProofs.setter_spec Nm cast promote D_eqb zeroA default_d r s Hwf Hv Hna Hok)
    as (r' & Hr & _ & _ & _ & HN & Hdt & Hdur & Hincl & _).
  rewrite Hr. cbn [fst snd]. split; [reflexivity|].
  unfold cfg14. rewrite HN, Hdt, Hdur, Hincl. unfold ResizeProofs.rsize.
  rewrite Z2Nat.id by (pose proof (recordsz_pos Nm (Resize.rdur Nm (ResizeProofs.configured Nm r s))
                                     (Resize.rdt Nm (ResizeProofs.configured Nm r s))
                                     (Resize.rincl Nm (ResizeProofs.configured Nm r s))); lia).
  destruct s; reflexivity.
Qed.

(* a refused assignment changes nothing of the configuration *)
Theorem c14_rec_set_refused (r : rec13) (s : ResizeProofs.setter Nm) :
  (forall b, s <> ResizeProofs.SetIncl Nm b) -> ~ ResizeProofs.setter_ok Nm r s ->
  ResizeProofs.apply_setter Nm zeroA r s = (r, Some Shaped.XValue).
Proof.
  intros Hs Hn. destruct (ResizeProofs.setter_refused Nm zeroA r s Hn) as [H|(b & -> & _)]; [exact H|].
  exfalso. exact (Hs b eq_refl).
Qed.

(* C14's function guarded by the setter's argument test *)
Definition c14_rapply (c : rec14) (s : RecordCfg.rset Nm) : rec14 :=
  match s with
  | RecordCfg.RDt _ v => if gtb Nm v (zero Nm) then Config.rec_set_dt Nm v c else c
  | RecordCfg.RDur _ v => if geb Nm v (zero Nm) then Config.rec_set_dur Nm v c else c
  | RecordCfg.RIncl _ b => Config.rec_set_incl Nm b c
  end.

Theorem c14_rapply_eq (r : rec13) (s : RecordCfg.rset Nm) : ResizeProofs.Inv Nm r ->
  cfg14 (RecordCfg.rapply Nm zeroA r s) = c14_rapply (cfg14 r) s.
Proof.
  intros HI. pose proof HI as (Hwf & Hv & Hna & (Ht1 & Ht2) & Hsz).
  destruct s as [v|v|b]; cbn [RecordCfg.rapply c14_rapply].
  - destruct (gtb Nm v (zero Nm)) eqn:Ev.
    + exact (proj2 (c14_rec_set_eq r (ResizeProofs.SetDt Nm v) Hwf Hv Hna Ev)).
    + unfold Resize.set_dt. rewrite Ev. reflexivity.
  - destruct (geb Nm v (zero Nm)) eqn:Ev.
    + exact (proj2 (c14_rec_set_eq r (ResizeProofs.SetDur Nm v) Hwf Hv Hna Ev)).
    + unfold Resize.set_duration. rewrite Ev. reflexivity.
  - exact (proj2 (c14_rec_set_eq r (ResizeProofs.SetIncl Nm b) Hwf Hv Hna Ht2)).
Qed.

(* any sequence of assignments on a reachable record *)
Theorem c14_rrun_eq : forall (ops : list (RecordCfg.rset Nm)) (r : rec13), ResizeProofs.Inv Nm r ->
  cfg14 (fold_left (RecordCfg.rapply Nm zeroA) ops r) = fold_left c14_rapply ops (cfg14 r).
Proof.
  induction ops as [|o ops IH]; intros r HI; [reflexivity|]. cbn [fold_left].
  destruct (RecordCfgProofs.rapply_spec Nm cast promote D_eqb zeroA default_d r o HI) as (HI1 & _).
  rewrite IH by exact HI1. rewrite c14_rapply_eq by exact HI. reflexivity.
Qed.

(* the constructor *)
Theorem c14_rec_new_eq strict live param ucons dt dur incl value (r : rec13) :
  Resize.rcreate Nm strict live param ucons dt dur incl value = inl r ->
  cfg14 r = Config.rec_new Nm dt dur incl.
Proof.
  unfold Resize.rcreate. destruct (negb (gtb Nm dt (zero Nm))); [discriminate|].
  destruct (negb (geb Nm dur (zero Nm))); [discriminate|].
  match goal with |- (if ?c then _ else _) = _ -> _ => destruct c end; [|discriminate].
  intros H. injection H as <-. unfold cfg14, Config.rec_new. cbn.
  rewrite Z2Nat.id by (pose proof (recordsz_pos Nm dur dt incl); lia). reflexivity.
Qed.

End C14_vs_C13.

(* ------------------------------------------------------------------ the other users of the generated expression *)
Section OtherSizes.
Variable M : Num.

(* C04: DelayedMixin records (inclusive = True) *)
Theorem c04_recordsz_eq dt delay :
  Synapse.recordsz M dt delay = Z.to_nat (Config.r_size M (Config.rec_new M dt delay true)).
Proof. reflexivity. Qed.

(* C08: reducer / synapse record sizes (inclusive = True) *)
Theorem c08_recsz_eq duration dt :
  Stdp.recsz M duration dt = Config.r_size M (Config.rec_new M dt duration true).
Proof. reflexivity. Qed.

(* C07: a fresh reducer's record, and its dt setter *)
Context {A Obs : Type}.
Variable K : @Reducer.rclass M A Obs.

Theorem c07_fresh_size_eq dt dur incl inpl :
  N (Reducer.rrec (Reducer.fresh M K dt dur incl inpl)) = Z.to_nat (Config.r_size M (Config.rec_new M dt dur incl)).
Proof. reflexivity. Qed.

Theorem c07_record_set_dt_size_eq (r : @Reducer.reducer M A) v size0 : 0 < N (Reducer.rrec r) ->
  N (Reducer.record_set_dt M K r v) =
  Z.to_nat (Config.r_size M (Config.rec_set_dt M v
              (Config.mkRec M (Reducer.rdt r) (Reducer.rdur r) (Reducer.rincl r) size0))).
Proof.
  intros Hn. unfold Reducer.record_set_dt. cbn [Config.rec_set_dt Config.resize Config.r_size Config.r_dur Config.r_dt Config.r_incl].
  set (n' := Z.to_nat (recordsz_expr M (Reducer.rdur r) v (Reducer.rincl r))).
  destruct (n' =? N (Reducer.rrec r)) eqn:E; [apply Nat.eqb_eq in E; symmetry; exact E|].
  destruct (st (Reducer.rrec r)) as [|d|d sh rows] eqn:Est; try reflexivity.
  unfold align. replace (0 <? Z.of_nat (N (Reducer.rrec r)))%Z with true by (symmetry; apply Z.ltb_lt; lia).
  cbn [Z.leb andb negb]. rewrite Est. reflexivity.
Qed.

End OtherSizes.
