(* XModel, part 1b: the C07 transcription of RecordTensor.select (the two view paths of FoldReducer.view:
   python-float time and tensor time, offset 1) is proved EQUAL to the C02 reference transcription.

   Holds for every numeric reading M : Num in which the integer 1 converts to the float 1 (hypothesis
   [Hone : ofZ M 1 = one M]; C07 writes `1 + shift` with the number 1, C02 with the integer offset converted);
   no real-number axioms.  The instance for the reals is in SelectC07R.v.

   Sub-domain: C02 fixes the element type to numbers (T M), C07's machine is polymorphic in the element type
   (EventReducer stores `option` numbers); the equivalence is for reducer classes whose element type is T M
   (all shipped classes except EventReducer) and whose zero is the number 0 ([Hzero]; true of every shipped
   class).  C07 reads offset 1 only.  The reducer wrapper (view returns None before the first observation) is
   outside select: the theorems are for [rinit r = false]. *)
From Coq Require Import List ZArith Bool Arith Lia.
From Inferno Require Import Base.Num Gen.Infra C01.Ring.
From Inferno Require C02.Select C07.Reducer.
From Inferno Require Import XModel.XLists.
Import ListNotations.

Lemma map2_zipw {X Y W} (f : X -> Y -> W) : forall (l : list X) (m : list Y),
  Reducer.map2 f l m = map (fun p => f (fst p) (snd p)) (combine l m).
Proof.
  induction l as [|x l IH]; intros [|y m]; cbn; try reflexivity. rewrite IH. reflexivity.
Qed.

(* the shipped classes with number elements (all but EventReducer) use the number 0 as zero *)
Theorem shipped_kzero (M : Num) (tau amp target scale alpha : T M) (tol : option (T M)) (crit : T M -> bool) :
  Reducer.kzero (Reducer.cls_nearest M tau amp target tol) = zero M /\
  Reducer.kzero (Reducer.cls_cumulative M tau amp target tol) = zero M /\
  Reducer.kzero (Reducer.cls_scaled_nearest M tau amp scale crit) = zero M /\
  Reducer.kzero (Reducer.cls_scaled_cumulative M tau amp scale crit) = zero M /\
  Reducer.kzero (Reducer.cls_cond_nearest M tau amp scale) = zero M /\
  Reducer.kzero (Reducer.cls_cond_cumulative M tau amp scale) = zero M /\
  Reducer.kzero (Reducer.cls_pass M) = zero M /\
  Reducer.kzero (Reducer.cls_ema M alpha) = zero M /\
  Reducer.kzero (Reducer.cls_ca M) = zero M.
Proof. repeat split; reflexivity. Qed.

Section C07_vs_C02.
Variable M : Num.
Context {Obs : Type}.
Variable K : @Reducer.rclass M (T M) Obs.
Hypothesis Hone : ofZ M 1 = one M.
Hypothesis Hzero : Reducer.kzero K = zero M.

Notation A := (T M).
Notation reducer := (@Reducer.reducer M A).
Notation rrec := (@Reducer.rrec M A).
Notation rdt := (@Reducer.rdt M A).
Notation rinit := (@Reducer.rinit M A).

(* a C02 select result seen as a C07 view result *)
Definition of_result (r : reducer) (x : @result A unit) : @Reducer.rres M A :=
  match x with
  | Ok _ (OObs _ sh el) => Reducer.ROk r (Reducer.RObs sh el)
  | Ok _ o => Reducer.ROk r (Reducer.RView (cols_of o))
  | Err e => Reducer.RErr r e
  end.

(* ------------------------------------------------------------------ time arithmetic *)
Theorem c07_out_of_range_eq (r : reducer) time tol :
  Reducer.out_of_range M r time tol = Select.out_of_range M (N (rrec r)) (rdt r) tol time.
Proof. reflexivity. Qed.
Theorem c07_frac_eq : Reducer.frac M = Select.frac1 M.
Proof. reflexivity. Qed.

(* ------------------------------------------------------------------ python-float time *)
(* FoldReducer.view(float) after the first observation = RecordTensor.select(float, offset 1) of C02:
   same exception (RuntimeError uninitialised, ValueError out of range), same shape, same values *)
Theorem c07_view_scalar_eq (r : reducer) time tol : rinit r = false ->
  Reducer.rd_view_scalar M K r time tol =
  of_result r (Select.select_scalar M (rrec r) (rdt r) tol 1 time (Reducer.kinterp K)).
Proof.
  intros Hi. unfold Reducer.rd_view_scalar, Select.select_scalar. rewrite Hi. cbn [negb].
  destruct (st (rrec r)) as [|d|d sh rows]; try reflexivity.
  rewrite c07_out_of_range_eq.
  destruct (Select.out_of_range M (N (rrec r)) (rdt r) tol time); [reflexivity|].
  unfold Reducer.select_scalar, Select.on_grid, Select.shift_of, Reducer.row_at.
  destruct (leb M (abs M (sub M (mul M (rdt r) (ofZ M (rneZ M (div M time (rdt r))))) time)) tol); cbn [of_result].
  - reflexivity.
  - rewrite map2_zipw. rewrite Hone. reflexivity.
Qed.

(* ------------------------------------------------------------------ tensor time, one value *)
Theorem c07_select_elem_eq (r : reducer) rows e time tol :
  Reducer.select_elem M K r rows e time tol =
  Select.sel_elem M (rrec r) rows (rdt r) tol 1 (Reducer.kinterp K) e time.
Proof.
  unfold Reducer.select_elem, Select.sel_elem, Select.snapped, Select.on_grid, Select.shift_of, Reducer.row_at,
    Select.sample_at, Select.frac1, Reducer.frac.
  rewrite Hone, Hzero. reflexivity.
Qed.

(* ------------------------------------------------------------------ tensor time, the whole view *)
(* FoldReducer.view(tensor) after the first observation = RecordTensor.select(tensor, offset 1) of C02.
   C07 does not carry the time tensor's number of dimensions (the result is always the element-major list of
   columns); C02 does (tnd): with the trailing axis (tnd = ndim + 1) the C02 result is those columns, squeezed
   (tnd = ndim, one time per element) it is the single value of each column. *)
Theorem c07_view_tensor_eq (r : reducer) d sh rows times tol tnd : rinit r = false ->
  st (rrec r) = SFull d sh rows -> length times = nel sh ->
  (tnd = S (length sh) \/ (tnd = length sh /\ Forall (fun ts => length ts = 1) times)) ->
  Reducer.rd_view_tensor M K r times tol =
  match Select.select_tensor M (rrec r) (rdt r) tol 1 tnd times (Reducer.kinterp K) with
  | Ok _ o => Reducer.ROk r (Reducer.RView (cols_of o))
  | Err e => Reducer.RErr r e
  end.
Proof.
  intros Hi Hst Hlen Htnd. unfold Reducer.rd_view_tensor, Select.select_tensor. rewrite Hi, Hst. cbn [negb].
  replace (negb ((tnd =? length sh) || (tnd =? S (length sh)))) with false.
  2:{ symmetry. apply negb_false_iff. destruct Htnd as [->|[-> _]].
      - rewrite Nat.eqb_refl. apply orb_true_r.
      - rewrite Nat.eqb_refl. reflexivity. }
  rewrite existsb_concat.
  replace (existsb (fun ts => existsb (fun t => Reducer.out_of_range M r t tol) ts) times)
    with (existsb (existsb (Select.out_of_range M (N (rrec r)) (rdt r) tol)) times) by reflexivity.
  destruct (existsb (existsb (Select.out_of_range M (N (rrec r)) (rdt r) tol)) times); [reflexivity|].
  assert (Hcols :
    map (fun ets => map (fun t => Reducer.select_elem M K r rows (fst ets) t tol) (snd ets))
        (combine (seq 0 (length times)) times) =
    map (fun e => map (Select.sel_elem M (rrec r) rows (rdt r) tol 1 (Reducer.kinterp K) e) (nth e times []))
        (seq 0 (nel sh))).
  { rewrite (map_combine_seq0 (fun e ts => map (fun t => Reducer.select_elem M K r rows e t tol) ts) [] times).
    rewrite Hlen. apply map_ext. intros e. apply map_ext. intros t. apply c07_select_elem_eq. }
  rewrite Hcols.
  destruct Htnd as [->|[-> Hone1]].
  - replace (S (length sh) =? length sh) with false by (symmetry; apply Nat.eqb_neq; lia).
    reflexivity.
  - rewrite Nat.eqb_refl. cbn [cols_of]. f_equal. f_equal. rewrite !map_map.
    apply map_ext_in. intros e He. apply in_seq in He.
    assert (Hl : length (nth e times []) = 1).
    { rewrite Forall_forall in Hone1. apply Hone1. apply nth_In. lia. }
    destruct (nth e times []) as [|t [|t' tl]]; cbn in Hl; try discriminate. reflexivity.
Qed.

End C07_vs_C02.
