(* XModel, part 1a (reals): the UNDELAYED branch of C04's _synparam_at (recordsz = 1) does not call select: it reads
   value.peek().  That read is the C02 select (tensor time, offset 1) at time 0, so both branches of the wrapper are
   tied to the one reference transcription.  0 < dt, 0 <= tol < dt/2 as in C02's theorems. *)
From Coq Require Import List ZArith Bool Arith Lia Reals Lra.
From Inferno Require Import Base.Num Base.NumR Gen.Infra C01.Ring C01.RingProofs C02.Select C02.SelectProofs.
From Inferno Require C04.Synapse.
Import ListNotations.
Local Open Scope R_scope.

Theorem c04_peek_is_select0 (r : ringR) d sh rws dt tol interp e : 0 < dt -> 0 <= tol < dt / 2 ->
  st r = SFull d sh rws ->
  nth e (Synapse.peek_row RN r) 0 = sel_elem RN r rws dt tol 1 interp e 0.
Proof.
  intros Hdt Htol Hst.
  assert (Hk : Rabs (IZR 0 * dt - 0) <= tol).
  { replace (IZR 0 * dt - 0) with 0 by (simpl; ring). rewrite Rabs_R0. lra. }
  pose proof (sel_elem_on_grid dt tol Hdt Htol r 1 interp e 0 0%Z Hk) as H.
  unfold rows in H. rewrite Hst in H. rewrite H.
  unfold Synapse.peek_row, at_, rows. rn_simpl. rewrite !Hst. reflexivity.
Qed.
