(* XModel, part 1a: the C04 transcription of RecordTensor.select (tensor time, offset 1) and of the clamp /
   overbound wrapper _synparam_at is proved EQUAL to the C02 reference transcription (C02/Select.v).

   Everything here holds for every numeric reading NM : Num (no real-number axioms): the two
   transcriptions are the same function of the same arguments.

   Sub-domain (stated in the theorems): C04 only has the tensor path, offset = 1, one data type; its wrapper
   clamps the selector to [0, duration] before selecting.  The delayed branch of _synparam_at (recordsz <> 1)
   is the one that goes through select; the undelayed branch reads peek() and is related to a select at time 0
   in SelectC04R.v (needs real arithmetic). *)
From Coq Require Import List ZArith Bool Arith Lia.
From Inferno Require Import Base.Num Gen.Infra C01.Ring.
From Inferno Require C02.Select C04.Synapse.
From Inferno Require Import XModel.XLists.
Import ListNotations.

Section C04_vs_C02.
Variable NM : Num.
Notation A := (T NM).
Notation ring := (@ring A unit).

(* ------------------------------------------------------------------ the shared time arithmetic *)
(* the six helpers are the same functions (convertible definitions) *)
Theorem c04_time_arithmetic_eq :
  Synapse.out_of_range NM = Select.out_of_range NM /\
  Synapse.shift_of NM = Select.shift_of NM /\
  Synapse.on_grid NM = Select.on_grid NM /\
  Synapse.frac1 NM = Select.frac1 NM /\
  Synapse.sample_at NM = Select.sample_at NM /\
  Synapse.snapped NM = Select.snapped NM.
Proof. repeat split; reflexivity. Qed.

(* ------------------------------------------------------------------ one selected value *)
(* C04's sel_elem on an initialised record is C02's sel_elem at offset 1 *)
Theorem c04_sel_elem_eq (r : ring) d sh rows (dt tol : A) (interp : A -> A -> A -> A -> A) (e : nat) (t : A) :
  st r = SFull d sh rows ->
  Synapse.sel_elem NM r dt tol interp e t = Select.sel_elem NM r rows dt tol 1 interp e t.
Proof. intros H. unfold Synapse.sel_elem, Select.sel_elem. rewrite H. reflexivity. Qed.

(* ------------------------------------------------------------------ the wrapper _synparam_at *)
(* the times C04 hands to select: the selector clamped to [0, duration], element-major (nelm elements, d each) *)
Definition clamped_times (dur : A) (nelm d : nat) (sel : list A) : list (list A) :=
  map (fun e => map (fun j => Synapse.clamp_sel NM dur (nth (e * d + j) sel (zero NM))) (seq 0 d)) (seq 0 nelm).

(* what _synparam_at does to one selected value v requested at (unclamped) time t: transform, then the
   overbound value when the selector was further than the tolerance outside [0, duration] *)
Definition post (dur tol : A) (transform : A -> A) (ob : option A) (t v : A) : A :=
  match ob with
  | None => transform v
  | Some o => if leb NM (abs NM (sub NM t (Synapse.clamp_sel NM dur t))) tol then transform v else o
  end.

(* Delayed branch (recordsz <> 1), selector with the observation's number of dimensions (d = 1, squeezed) or one
   more (trailing axis of size d), selector holding nel(sh) * d values:
   _synparam_at(record, selector) = post-processing of RecordTensor.select(clamped selector, offset 1) as
   transcribed by C02 - same error (ValueError on a selector of the wrong number of dimensions or out of range;
   RuntimeError on an uninitialised record is the other match arm of both), same shape, same values. *)
Theorem c04_synparam_at_delayed_eq (r : ring) dd sh rows (dt dur tol : A) interp transform ob ssh sel d :
  st r = SFull dd sh rows -> N r <> 1 ->
  d = (if length ssh =? length sh then 1 else last ssh 0) ->
  length sel = nel sh * d ->
  Synapse.synparam_at NM r dt dur tol interp transform ob ssh sel =
  match Select.select_tensor NM r dt tol 1 (length ssh) (clamped_times dur (nel sh) d sel) interp with
  | Err e => Synapse.SErr e
  | Ok _ o =>
      Synapse.SOk (if length ssh =? length sh then sh else sh ++ [d],
                   flat_map (fun e => map (fun j => post dur tol transform ob (nth (e * d + j) sel (zero NM))
                                                         (nth j (nth e (cols_of o) []) (zero NM)))
                                          (seq 0 d))
                            (seq 0 (nel sh)))
  end.
Proof.
  intros Hst Hn Hd Hlen.
  unfold Synapse.synparam_at, Synapse.param_at, Select.select_tensor. rewrite Hst.
  replace (N r =? 1) with false by (symmetry; apply Nat.eqb_neq; exact Hn).
  destruct (negb ((length ssh =? length sh) || (length ssh =? S (length sh)))) eqn:Edim; [reflexivity|].
  assert (Hc : concat (clamped_times dur (nel sh) d sel) = map (Synapse.clamp_sel NM dur) sel)
    by (apply chunks_concat; exact Hlen).
  rewrite Hc. change (Synapse.out_of_range NM) with (Select.out_of_range NM).
  destruct (existsb (Select.out_of_range NM (N r) dt tol) (map (Synapse.clamp_sel NM dur) sel)); [reflexivity|].
  rewrite <- Hd.
  assert (Hcol : forall e, e < nel sh ->
            nth e (clamped_times dur (nel sh) d sel) [] =
            map (fun j => Synapse.clamp_sel NM dur (nth (e * d + j) sel (zero NM))) (seq 0 d)).
  { intros e He. unfold clamped_times. rewrite xm_nth_map_seq by exact He. reflexivity. }
  destruct (length ssh =? length sh) eqn:Esq.
  - (* squeezed: d = 1 *)
    subst d. cbn [cols_of]. f_equal. f_equal.
    rewrite !flat_map_concat_map. f_equal. apply map_ext_in. intros e He. apply in_seq in He.
    cbn [seq map]. f_equal.
    replace (e * 1 + 0) with e by lia.
    rewrite !map_map. rewrite xm_nth_map_seq by lia. cbn [nth].
    rewrite (Hcol e ltac:(lia)). cbn [seq map hd].
    replace (e * 1 + 0) with e by lia.
    rewrite (c04_sel_elem_eq r dd sh rows _ _ _ _ _ Hst). unfold post.
    destruct ob; reflexivity.
  - f_equal. f_equal.
    rewrite !flat_map_concat_map. f_equal. apply map_ext_in. intros e He. apply in_seq in He.
    apply map_ext_in. intros j Hj. apply in_seq in Hj.
    cbn [cols_of rcols].
    rewrite xm_nth_map_seq by lia. rewrite (Hcol e ltac:(lia)). rewrite map_map.
    rewrite xm_nth_map_seq by lia.
    rewrite (c04_sel_elem_eq r dd sh rows _ _ _ _ _ Hst). unfold post. destruct ob; reflexivity.
Qed.

End C04_vs_C02.
