(* XModel, part 4: the event / trace folds of C18 and C08 are instances of the C07 reducer machine.
   C07/Reducer.v is the reference transcription of FoldReducer.forward (state' = fold(obs, peek() or None), pushed
   on the record) and of the shipped fold classes.  C18/DelayAdj.v carries its own EventReducer fold
   ([ev_fold], [ev_fold_t]: option for "not spiked yet"), C08/Stdp.v its own FoldReducer.forward on newest-first
   history lists ([push_trace] over the generated trace kernels).  Proved here, for every number type (no axioms):
   - per element, C18's fold is the [kfold] of C07's [cls_event crit ENan], C08's the [kfold] of C07's
     [cls_nearest] / [cls_cumulative] (target 1, no tolerance), with C08's decay = C07's decay attribute;
   - per tensor, they are C07's [zipfold];
   - on the machine: after any sequence of C07 [forward]s the state handed to the next fold ([prior]) is C18's
     folded monitor state, and the record holds - element by element - C08's history list ([hrepr]).
   Not related (C07 has no such class): C08's eligibility trace [push_elig] (EligibilityTraceReducer). *)
From Coq Require Import List ZArith Bool Arith Lia.
From Inferno Require Import Base.Num Gen.Infra Gen.Trace C01.Ring C01.RingProofs C07.Reducer C07.ReducerProofs.
From Inferno Require C18.DelayAdj C08.Stdp.
Import ListNotations.

Lemma c18_map2_zip {X Y W} (f : X -> Y -> W) : forall (l : list X) (m : list Y),
  DelayAdj.map2 f l m = map (fun p => f (fst p) (snd p)) (combine l m).
Proof. induction l as [|x l IH]; intros [|y m]; cbn; try reflexivity. rewrite IH. reflexivity. Qed.

Lemma nth_removelast {X} (d : X) : forall (l : list X) j, S j < length l -> nth j (removelast l) d = nth j l d.
Proof.
  induction l as [|x l IH]; intros j Hj; [cbn in Hj; lia|].
  destruct l as [|y l]; [cbn in Hj; lia|].
  change (removelast (x :: y :: l)) with (x :: removelast (y :: l)).
  destruct j as [|j]; [reflexivity|]. cbn [nth]. apply IH. cbn in *. lia.
Qed.

Lemma combine_nth_lt {X Y} (dx : X) (dy : Y) : forall (l : list X) (m : list Y) e,
  e < length l -> e < length m -> nth e (combine l m) (dx, dy) = (nth e l dx, nth e m dy).
Proof.
  induction l as [|x l IH]; intros [|y m] e Hl Hm; cbn in *; try lia.
  destruct e as [|e]; [reflexivity|]. apply IH; lia.
Qed.

Lemma nth_repeat_lt {X} (a d : X) : forall n j, j < n -> nth j (repeat a n) d = a.
Proof. induction n as [|n IH]; intros [|j] Hj; cbn; try lia; [reflexivity|]. apply IH. lia. Qed.

Section Generic.
Variable M : Num.
Notation R := (T M).

(* ================================================================== the machine, any class without _count *)
Section Machine.
Context {A Obs : Type}.
Variable K : @rclass M A Obs.
Hypothesis Hcounts : kcounts K = false.
Notation reducer := (@reducer M A).

Definition fstep (sh : list nat) (r : reducer) (obs : list Obs) : reducer := res_state (forward M K r sh obs).
Definition good (sh : list nat) (r : reducer) : Prop := rwf r /\ 0 < N (rrec r) /\ shape_ok r sh.

Lemma bump_id (r : reducer) : bump K r = r.
Proof. unfold bump. rewrite Hcounts. reflexivity. Qed.

(* one forward: never raises, keeps the invariant and the step time, and the state the NEXT fold sees is
   the fold of this observation with the state this fold saw *)
Lemma fstep_spec sh (r : reducer) obs : good sh r ->
  (exists r', forward M K r sh obs = ROk r' RUnit) /\
  good sh (fstep sh r obs) /\ rdt (fstep sh r obs) = rdt r /\ rdecay (fstep sh r obs) = rdecay r /\
  rinit (fstep sh r obs) = false /\ N (rrec (fstep sh r obs)) = N (rrec r) /\
  rhist (fstep sh r obs) = zipfold M K r obs (prior r) :: removelast (base K r sh) /\
  prior (fstep sh r obs) = Some (zipfold M K r obs (prior r)).
Proof.
  intros (Hwf & Hn & Hsh).
  destruct (forward_spec K r sh obs Hwf Hn Hsh) as (rec' & Hf & Hw' & Hfull' & HN' & Hst' & Hh').
  rewrite bump_id in Hf, Hh'. unfold fstep. rewrite Hf. cbn [res_state].
  split; [eexists; reflexivity|]. split.
  { split; [split; cbn; auto|]. split; [cbn; lia|].
    unfold shape_ok, stored_shape. cbn [rrec set_init set_rec]. rewrite Hst'.
    unfold shape_ok in Hsh. destruct (stored_shape r); [exact Hsh|apply shape_eqb_refl]. }
  split; [reflexivity|]. split; [reflexivity|]. split; [reflexivity|]. split; [exact HN'|].
  split; [exact Hh'|]. unfold prior, rhist. cbn [rinit rrec set_init set_rec]. rewrite Hh'. reflexivity.
Qed.

Definition feed (sh : list nat) (r : reducer) (obss : list (list Obs)) : reducer := fold_left (fstep sh) obss r.

Lemma feed_good sh obss : forall r, good sh r ->
  good sh (feed sh r obss) /\ rdt (feed sh r obss) = rdt r /\ rdecay (feed sh r obss) = rdecay r.
Proof.
  induction obss as [|o obss IH]; intros r Hg; [auto|]. cbn [feed fold_left].
  destruct (fstep_spec sh r o Hg) as (_ & Hg' & Hdt & Hdc & _).
  destruct (IH _ Hg') as (H1 & H2 & H3). unfold feed in *. split; [exact H1|]. split; [rewrite H2; exact Hdt|rewrite H3; exact Hdc].
Qed.
End Machine.

(* ================================================================== C18: EventReducer, initial = "nan" *)
Section Event.
Variable crit : R -> bool.
Notation KE := (cls_event M crit ENan).

(* per element *)
Theorem c18_ev_fold_eq dt decay cnt (o : R) (st : option (option R)) :
  kfold KE dt decay cnt o st = DelayAdj.ev_fold M dt (crit o) st.
Proof. destruct st as [[x|]|]; cbn; destruct (crit o); reflexivity. Qed.

(* per tensor *)
Theorem c18_ev_fold_t_eq (r : @reducer M (option R)) (obs : list R) (st : option (list (option R))) :
  zipfold M KE r obs st = DelayAdj.ev_fold_t M (rdt r) (map crit obs) st.
Proof.
  unfold zipfold, DelayAdj.ev_fold_t. destruct st as [s|].
  - rewrite c18_map2_zip. revert s. induction obs as [|o obs IH]; intros [|x s]; cbn [map combine]; try reflexivity.
    cbn [fst snd]. rewrite c18_ev_fold_eq. f_equal. apply IH.
  - rewrite map_map. apply map_ext. intros o. apply c18_ev_fold_eq.
Qed.

(* the machine: the state seen by the next fold after a sequence of forwards is C18's folded monitor state
   (C18's cell_step keeps exactly this option in cs_pre / cs_post); no forward raises *)
Theorem c18_event_run_eq sh (obss : list (list R)) : forall (r : @reducer M (option R)), good sh r ->
  prior (feed KE sh r obss) =
  fold_left (fun s o => Some (DelayAdj.ev_fold_t M (rdt r) (map crit o) s)) obss (prior r).
Proof.
  induction obss as [|o obss IH]; intros r Hg; [reflexivity|]. cbn [feed fold_left].
  destruct (fstep_spec KE eq_refl sh r o Hg) as (_ & Hg' & Hdt & _ & _ & _ & _ & Hp).
  fold (feed KE sh (fstep KE sh r o) obss). rewrite (IH _ Hg'), Hp, Hdt, c18_ev_fold_t_eq. reflexivity.
Qed.
End Event.

(* ================================================================== C08: trace reducers *)
Section TraceFold.
Variables (m : Stdp.tmode) (tc amp : R).
Definition cls_of : @rclass M R R :=
  match m with
  | Stdp.Cumulative => cls_cumulative M tc amp (one M) None
  | Stdp.Nearest => cls_nearest M tc amp (one M) None
  end.
Lemma cls_of_counts : kcounts cls_of = false. Proof. unfold cls_of. destruct m; reflexivity. Qed.
Lemma cls_of_fill : kfill cls_of = zero M. Proof. unfold cls_of. destruct m; reflexivity. Qed.

(* the decay attribute: C08's decay_of is C07's (argument order swapped) *)
Theorem c08_decay_eq dt : Stdp.decay_of M dt tc = Reducer.decay_of M tc dt.
Proof. reflexivity. Qed.
Theorem c08_fresh_decay_eq dt dur incl inpl : rdecay (fresh M cls_of dt dur incl inpl) = Stdp.decay_of M dt tc.
Proof. unfold fresh, cls_of. destruct m; reflexivity. Qed.

(* per element: the observation is the spike cast to the record's float type *)
Theorem c08_trace_fold_eq dt decay cnt (obs : bool) (st : option R) :
  kfold cls_of dt decay cnt (b2t M obs) st = Stdp.trace_fold M m decay amp obs st.
Proof. unfold cls_of, Stdp.trace_fold. destruct m; reflexivity. Qed.

(* the record of the machine holds, for element e, the newest-first list h (zero where nothing was recorded),
   and h is empty exactly before the first observation *)
Definition hrepr (r : @reducer M R) (e : nat) (h : list R) : Prop :=
  (rinit r = true <-> h = []) /\
  forall j, j < N (rrec r) -> nth e (nth j (rhist r) []) (zero M) = nth j h (zero M).

(* one forward of the machine = one push_trace on the list *)
Theorem c08_push_trace_step sh (r : @reducer M R) (e : nat) (h : list R) (obs : list bool) :
  good sh r -> hrepr r e h -> e < length obs -> (rinit r = false -> e < length (hd [] (rhist r))) ->
  hrepr (fstep cls_of sh r (map (b2t M) obs)) e (Stdp.push_trace M m (rdecay r) amp h (nth e obs false)).
Proof.
  intros Hg (Hini & Hr) He Hel. pose proof Hg as (Hwf & Hn & Hsh).
  destruct (fstep_spec cls_of cls_of_counts sh r (map (b2t M) obs) Hg) as (_ & _ & _ & _ & Hi' & HN' & Hh' & _).
  set (r' := fstep cls_of sh r (map (b2t M) obs)) in *.
  split.
  { rewrite Hi'. unfold Stdp.push_trace. split; discriminate. }
  intros j Hj. rewrite HN' in Hj. rewrite Hh'. unfold Stdp.push_trace.
  destruct j as [|j]; cbn [nth].
  - (* the new entry *)
    unfold zipfold, prior. destruct (rinit r) eqn:Ei.
    + assert (Hh : h = []) by (apply Hini; reflexivity). subst h. cbn [hd_error].
      rewrite map_map.
      rewrite (nth_indep _ (zero M) ((fun o => kfold cls_of (rdt r) (rdecay r) (rcount r) (b2t M o) None) false))
        by (rewrite map_length; exact He).
      rewrite (map_nth (fun o => kfold cls_of (rdt r) (rdecay r) (rcount r) (b2t M o) None)).
      apply c08_trace_fold_eq.
    + set (els := hd [] (rhist r)).
      assert (Hne : h <> []) by (intros E; apply Hini in E; congruence).
      destruct h as [|v h]; [congruence|]. cbn [hd_error].
      pose proof (Hr 0 Hn) as H0. cbn [nth] in H0.
      assert (Hels : nth 0 (rhist r) [] = els) by (unfold els; destruct (rhist r); reflexivity).
      rewrite Hels in H0.
      specialize (Hel eq_refl). fold els in Hel.
      set (F := fun os : R * R => kfold cls_of (rdt r) (rdecay r) (rcount r) (fst os) (Some (snd os))).
      rewrite (nth_indep _ (zero M) (F (b2t M false, zero M)))
        by (rewrite map_length, combine_length, map_length; lia).
      rewrite (map_nth F), combine_nth_lt by (rewrite ?map_length; lia).
      unfold F. cbn [fst snd]. rewrite (map_nth (b2t M)), H0. apply c08_trace_fold_eq.
  - (* older entries *)
    assert (Hbl : length (base cls_of r sh) = N (rrec r)).
    { unfold base. destruct (ignored (rrec r)); [apply repeat_length|]. unfold rhist. apply hist_length. }
    rewrite nth_removelast by (rewrite Hbl; lia).
    unfold base. destruct (ignored (rrec r)) eqn:Eig.
    + (* storage created now: all fill values; nothing had been recorded *)
      assert (Hi : rinit r = true).
      { destruct (rinit r) eqn:Ei; [reflexivity|]. exfalso.
        destruct Hwf as (_ & Hf). specialize (Hf Ei). apply full_ignored in Hf. congruence. }
      assert (Hh : h = []) by (apply Hini; exact Hi). subst h.
      rewrite (nth_repeat_lt _ _ (N (rrec r))) by lia. rewrite cls_of_fill.
      destruct (Nat.lt_ge_cases e (nel sh)) as [Hlt|Hge].
      * rewrite nth_repeat_lt by exact Hlt. destruct j; reflexivity.
      * rewrite nth_overflow by (rewrite repeat_length; exact Hge). destruct j; reflexivity.
    + rewrite (Hr j) by lia. reflexivity.
Qed.

(* any sequence of forwards from a state representing h0: the record holds the history C08 computes by
   pushing the element's spikes one after the other (every observation tensor has more than e elements, as has
   every stored observation) *)
Theorem c08_push_trace_run sh (e : nat) : forall (obss : list (list bool)) (r : @reducer M R) (h : list R),
  good sh r -> hrepr r e h -> Forall (fun o => length o = nel sh) obss -> e < nel sh ->
  (rinit r = false -> length (hd [] (rhist r)) = nel sh) ->
  hrepr (feed cls_of sh r (map (map (b2t M)) obss)) e
        (fold_left (fun h o => Stdp.push_trace M m (rdecay r) amp h (nth e o false)) obss h).
Proof.
  induction obss as [|o obss IH]; intros r h Hg Hr Hall He Hlen; [exact Hr|].
  inversion Hall as [|? ? Ho Hall']; subst. cbn [map feed fold_left].
  fold (feed cls_of sh (fstep cls_of sh r (map (b2t M) o)) (map (map (b2t M)) obss)).
  destruct (fstep_spec cls_of cls_of_counts sh r (map (b2t M) o) Hg) as (_ & Hg' & _ & Hdc & _ & _ & Hh' & _).
  assert (Hstep := c08_push_trace_step sh r e h o Hg Hr ltac:(lia) ltac:(intros Hi; rewrite (Hlen Hi); exact He)).
  specialize (IH (fstep cls_of sh r (map (b2t M) o)) _ Hg' Hstep Hall' He).
  rewrite Hdc in IH. apply IH. intros _. rewrite Hh'. cbn [hd].
  unfold zipfold. destruct (prior r) as [els|] eqn:Ep.
  - rewrite map_length, combine_length, map_length.
    unfold prior in Ep. destruct (rinit r) eqn:Ei; [discriminate|]. injection Ep as <-.
    rewrite (Hlen eq_refl). lia.
  - rewrite !map_length. exact Ho.
Qed.

End TraceFold.
End Generic.
