(* XModel, part 1c: the read positions of the C08 trainer model (C08/Stdp.v: `view(selector)`, `read(2)`,
   `select(selector, offset=2)` on newest-first history lists, index reduced modulo the record size) are proved
   to be the C02 reference transcription of RecordTensor.select (tensor time) evaluated on a ring buffer that
   holds that history.  Real-number reading (0 < dt, 0 <= tol < dt/2, as in C02's theorems).

   C08 is at a different level of abstraction from C02: a record is "the newest-first list h of recorded values of
   ONE element, read as 0 beyond its length (the fill value)"; the link is the relation [repr s e h]: element e of
   the observation recorded j steps before the newest one in the ring s is the j-th entry of h (0 when there is
   none).  C08 does not compute the slot index k and the interpolation time c_off from the delay (they are inputs
   of its configuration, documented as "delay/dt on the step grid, its ceiling otherwise; c_off = sample_at");
   [c08_k] / [c08_off] below compute them from the requested time t exactly as documented, and the theorems say
   that with these inputs C08's reads ARE C02's select at time t - values and range behaviour.

   Sub-domain: one data type (floats; spikes are 0/1 numbers), offsets 1 + j with j >= 0 (C08 uses 1 and 2),
   requested time t >= -tol (delays are non-negative). *)
From Coq Require Import List ZArith Bool Arith Lia Reals Lra.
From Flocq Require Import Core.Raux Core.Generic_fmt.
From Inferno Require Import Base.Num Base.NumR Gen.Infra Gen.Interpolation C01.Ring C01.RingProofs
  C02.Select C02.SelectProofs.
From Inferno Require C08.Stdp.
Import ListNotations.
Ltac Zify.zify_post_hook ::= Z.div_mod_to_equations.
Local Open Scope R_scope.

(* element e of the ring's recorded observations, newest first, is the list h (0 = fill value beyond its end) *)
Definition repr (s : ringR) (e : nat) (h : list R) : Prop :=
  forall j : nat, (j < N s)%nat -> nth e (at_ s (1 + Z.of_nat j)) 0 = nth j h 0.

(* the slot index and interpolation time C08's configuration carries for a read at time t *)
Definition c08_k (dt tol t : R) : nat :=
  Z.to_nat (if on_grid RN dt tol t then rneZ RN (shift_of RN dt t) else ceilZ RN (shift_of RN dt t)).
Definition c08_off (dt tol t : R) : option R :=
  if on_grid RN dt tol t then None else Some (sample_at RN dt (shift_of RN dt t)).

Definition expdecay (tc : R) : interp_fn RN := fun p n sa st => interp_expdecay RN p n sa st tc.

Section C08_vs_C02.
Variables dt tol : R.
Hypothesis Hdt : 0 < dt.
Hypothesis Htol : 0 <= tol < dt / 2.

(* C08's modular read is the ring's read: any number of steps back, wrapping like _unwind_ptr *)
Lemma repr_rd (s : ringR) e h (i : nat) : wf s -> repr s e h ->
  nth e (at_ s (1 + Z.of_nat i)) 0 = Stdp.rd 0 (Z.of_nat (N s)) h i.
Proof.
  intros Hwf Hr. unfold Stdp.rd. pose proof Hwf as (Hn & _).
  set (n := Z.of_nat (N s)).
  assert (Hm : (0 <= Z.of_nat i mod n < n)%Z) by (apply Z.mod_pos_bound; unfold n; lia).
  rewrite <- (Hr (Z.to_nat (Z.of_nat i mod n))) by (unfold n in Hm; lia).
  unfold at_. f_equal. f_equal. apply idx_eq_iffR; [exact Hwf|]. fold n.
  rewrite Z2Nat.id by lia. rewrite Zplus_mod_idemp_r. reflexivity.
Qed.

Lemma grid_nonneg t k : - tol <= t -> Rabs (IZR k * dt - t) <= tol -> (0 <= k)%Z.
Proof.
  intros Ht Hk. apply Rabs_le_inv in Hk.
  destruct (Z_lt_le_dec k 0) as [Hlt|]; [|assumption]. exfalso.
  assert (Hle : (k <= -1)%Z) by lia. apply IZR_le in Hle. nra.
Qed.
Lemma between_nonneg t k : - tol <= t -> between dt tol k t -> (0 <= k)%Z.
Proof.
  intros Ht (H1 & H2). rewrite plus_IZR in H2. change (IZR 1) with 1 in H2.
  destruct (Z_lt_le_dec k 0) as [Hlt|]; [|assumption]. exfalso.
  assert (Hle : (k + 1 <= 0)%Z) by lia. apply IZR_le in Hle. rewrite plus_IZR in Hle. change (IZR 1) with 1 in Hle. nra.
Qed.

Lemma c08_on_grid t k : Rabs (IZR k * dt - t) <= tol -> c08_k dt tol t = Z.to_nat k /\ c08_off dt tol t = None.
Proof.
  intros Hk. destruct (on_grid_k dt tol Hdt Htol t k Hk) as (E1 & E2). unfold c08_k, c08_off. rewrite E1, E2. auto.
Qed.
Lemma c08_between t k : between dt tol k t ->
  c08_k dt tol t = Z.to_nat (k + 1) /\ c08_off dt tol t = Some (IZR (k + 1) * dt - t).
Proof.
  intros Hb. unfold c08_k, c08_off. rewrite (between_off_grid dt tol Hdt Htol t k Hb).
  destruct (between_floor_ceil dt tol Hdt Htol t k Hb) as (_ & Hc).
  rewrite (sample_at_between dt tol Hdt Htol t k Hb). unfold shift_of. rn_simpl. rewrite Hc. auto.
Qed.

(* ------------------------------------------------------------------ trace records: view(selector), select(offset=2) *)
(* FoldReducer.view / RecordTensor.select(..., offset = 1 + j) of a trace reducer (interpolation: the generated
   interp_expdecay with the reducer's time constant), element e, requested time t:
   C08's [view] on the history list with the documented (k, c_off) = C02's sel_elem on the ring *)
Theorem c08_view_eq (s : ringR) e h tc t (j : nat) : wf s -> repr s e h -> - tol <= t ->
  Stdp.view RN (c08_off dt tol t) dt tc (Z.of_nat (N s)) h (c08_k dt tol t + j) =
  sel_elem RN s (rows s) dt tol (1 + Z.of_nat j) (expdecay tc) e t.
Proof.
  intros Hwf Hr Ht. destruct (grid_or_between dt tol Hdt Htol t) as [(k & Hk)|(k & Hb)].
  - pose proof (grid_nonneg t k Ht Hk) as Hk0.
    destruct (c08_on_grid t k Hk) as (-> & ->).
    rewrite (sel_elem_on_grid dt tol Hdt Htol s _ _ e t k Hk). unfold Stdp.view.
    rewrite <- (repr_rd s e h _ Hwf Hr). f_equal. f_equal. lia.
  - pose proof (between_nonneg t k Ht Hb) as Hk0.
    destruct (c08_between t k Hb) as (-> & ->).
    rewrite (sel_elem_off_grid dt tol Hdt Htol s _ _ e t k Hb). unfold Stdp.view, expdecay.
    rewrite <- !(repr_rd s e h _ Hwf Hr). f_equal; f_equal; f_equal; lia.
Qed.

(* the two instances C08 uses: view(selector) (offset 1, index k) and select(selector, offset=2) (index k + 1) *)
Corollary c08_view_selector_eq (s : ringR) e h tc t : wf s -> repr s e h -> - tol <= t ->
  Stdp.view RN (c08_off dt tol t) dt tc (Z.of_nat (N s)) h (c08_k dt tol t) =
  sel_elem RN s (rows s) dt tol 1 (expdecay tc) e t.
Proof.
  intros Hwf Hr Ht. pose proof (c08_view_eq s e h tc t 0 Hwf Hr Ht) as H.
  rewrite Nat.add_0_r in H. exact H.
Qed.
Corollary c08_select_offset2_eq (s : ringR) e h tc t : wf s -> repr s e h -> - tol <= t ->
  Stdp.view RN (c08_off dt tol t) dt tc (Z.of_nat (N s)) h (c08_k dt tol t + 1) =
  sel_elem RN s (rows s) dt tol 2 (expdecay tc) e t.
Proof. intros Hwf Hr Ht. exact (c08_view_eq s e h tc t 1 Hwf Hr Ht). Qed.

(* data_.read(2) (undelayed triplet terms): C08's rd at index 1 is the ring read at offset 2 *)
Theorem c08_read2_eq (s : ringR) e h : wf s -> repr s e h ->
  Stdp.rd 0 (Z.of_nat (N s)) h 1 = nth e (at_ s 2) 0.
Proof. intros Hwf Hr. rewrite <- (repr_rd s e h 1 Hwf Hr). reflexivity. Qed.
(* peek (undelayed reads): the head of the list (0 when empty) is the ring read at offset 1 *)
Theorem c08_peek_eq (s : ringR) e h : wf s -> repr s e h -> hd 0 h = nth e (at_ s 1) 0.
Proof.
  intros Hwf Hr. pose proof Hwf as (Hn & _). pose proof (Hr 0%nat Hn) as H0. cbn in H0. rewrite H0. destruct h; reflexivity.
Qed.

(* ------------------------------------------------------------------ spike records: interp_previous *)
(* the spike reducers / synapse spike records interpolate with interp_previous: C08 reads the entry k steps back
   whether or not the delay is on the grid; that is C02's select with interp_previous.  Booleans are stored as
   the numbers 0 / 1. *)
Theorem c08_spike_read_eq (s : ringR) e (hb : list bool) t (j : nat) : wf s -> repr s e (map (b2t RN) hb) -> - tol <= t ->
  b2t RN (Stdp.rd false (Z.of_nat (N s)) hb (c08_k dt tol t + j)) =
  sel_elem RN s (rows s) dt tol (1 + Z.of_nat j) (interp_previous RN) e t.
Proof.
  intros Hwf Hr Ht.
  assert (Hrd : forall i, b2t RN (Stdp.rd false (Z.of_nat (N s)) hb i) = Stdp.rd 0 (Z.of_nat (N s)) (map (b2t RN) hb) i).
  { intros i. unfold Stdp.rd. change 0 with (b2t RN false). rewrite map_nth. reflexivity. }
  rewrite Hrd. destruct (grid_or_between dt tol Hdt Htol t) as [(k & Hk)|(k & Hb)].
  - pose proof (grid_nonneg t k Ht Hk) as Hk0. destruct (c08_on_grid t k Hk) as (-> & _).
    rewrite (sel_elem_on_grid dt tol Hdt Htol s _ _ e t k Hk).
    rewrite <- (repr_rd s e _ _ Hwf Hr). f_equal. f_equal. lia.
  - pose proof (between_nonneg t k Ht Hb) as Hk0. destruct (c08_between t k Hb) as (-> & _).
    rewrite (sel_elem_off_grid dt tol Hdt Htol s _ _ e t k Hb). unfold interp_previous.
    rewrite <- (repr_rd s e _ _ Hwf Hr). f_equal. f_equal. lia.
Qed.

(* ------------------------------------------------------------------ range behaviour *)
(* C08's static validity test [cfg_ok] (k < record size) is exactly "select does not raise ValueError" *)
Theorem c08_range_eq (n : nat) t : (0 < n)%nat -> - tol <= t ->
  out_of_range RN n dt tol t = negb (Z.of_nat (c08_k dt tol t) <? Z.of_nat n)%Z.
Proof.
  intros Hn Ht. destruct (grid_or_between dt tol Hdt Htol t) as [(k & Hk)|(k & Hb)].
  - pose proof (grid_nonneg t k Ht Hk) as Hk0. destruct (c08_on_grid t k Hk) as (-> & _).
    rewrite Z2Nat.id by lia. apply Rabs_le_inv in Hk.
    destruct (Z.ltb_spec k (Z.of_nat n)) as [Hlt|Hge]; cbn [negb].
    + destruct (out_of_range RN n dt tol t) eqn:E; [|reflexivity]. exfalso.
      apply (out_of_range_iff dt tol Htol) in E.
      assert (Hle : (k <= Z.of_nat n - 1)%Z) by lia. apply IZR_le in Hle. destruct E as [E|E]; nra.
    + apply (out_of_range_iff dt tol Htol). right.
      assert (Hle : (Z.of_nat n - 1 + 1 <= k)%Z) by lia. apply IZR_le in Hle. rewrite plus_IZR in Hle.
      change (IZR 1) with 1 in Hle. nra.
  - pose proof (between_nonneg t k Ht Hb) as Hk0. destruct (c08_between t k Hb) as (-> & _).
    rewrite Z2Nat.id by lia. destruct Hb as (H1 & H2). rewrite plus_IZR in H2. change (IZR 1) with 1 in H2.
    destruct (Z.ltb_spec (k + 1) (Z.of_nat n)) as [Hlt|Hge]; cbn [negb].
    + destruct (out_of_range RN n dt tol t) eqn:E; [|reflexivity]. exfalso.
      apply (out_of_range_iff dt tol Htol) in E.
      assert (Hle : (k + 1 <= Z.of_nat n - 1)%Z) by lia. apply IZR_le in Hle. rewrite plus_IZR in Hle.
      change (IZR 1) with 1 in Hle. destruct E as [E|E]; nra.
    + apply (out_of_range_iff dt tol Htol). right.
      assert (Hle : (Z.of_nat n - 1 <= k)%Z) by lia. apply IZR_le in Hle. nra.
Qed.

End C08_vs_C02.
